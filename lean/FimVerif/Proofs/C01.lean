import FimVerif.Model.GraphML
import FimVerif.Model.Serial
import FimVerif.Model.SerialFS
import FimVerif.Proofs.Lemmas.C01Doc
import FimVerif.Proofs.Lemmas.C01Iter
import FimVerif.Proofs.Lemmas.C01Store
import FimVerif.Proofs.Lemmas.C01Equiv
/-!
# C01 — model serialization round trip is lossless and re-importable

Document level (see `Model/GraphML.lean`): all theorems quantify over every store / graph /
document of the model.  Character-level fidelity (escaping, `str`/`int`) is third-party
code and is established only differentially; the claim is therefore *partial*.
-/
namespace FimVerif.C01
open FimVerif.GraphML

variable {κ : Type}

theorem mapOpt_mem {α β : Type} (f : α → Option β) : ∀ (l : List α) (r : List β), mapOpt f l = some r →
    ∀ x ∈ l, ∃ v, f x = some v ∧ v ∈ r
  | [], _, _, x, hx => by cases hx
  | a :: t, r, h, x, hx => by
    unfold mapOpt at h
    cases hfa : f a with
    | none => simp [hfa] at h
    | some b =>
      cases hft : mapOpt f t with
      | none => simp [hfa, hft] at h
      | some bs =>
        simp [hfa, hft] at h
        subst h
        rcases List.mem_cons.mp hx with rfl | hx'
        · exact ⟨b, hfa, List.mem_cons_self⟩
        · obtain ⟨v, hv, hm⟩ := mapOpt_mem f t bs hft x hx'
          exact ⟨v, hv, List.mem_cons_of_mem _ hm⟩

/-- a document whose nodes carry different GraphIDs is rejected by `get_graph_id`, hence by
    both direct entry points, and the store is left untouched -/
theorem mixed_graph_ids_rejected [DecidableEq κ] (s : Store) (d : Doc κ) (G : Graph κ) (hr : readDoc d = some G)
    (p q : κ × Attrs) (hp : p ∈ G.nodes) (hq : q ∈ G.nodes)
    (hne : p.2.get? "GraphID" ≠ q.2.get? "GraphID") :
    getGraphId d = .error "import" ∧ importDirect s d = (.error "import", s) := by
  have h1 : getGraphId d = .error "import" := by
    unfold getGraphId
    rw [hr]
    simp only
    split
    · rfl
    · split
      · rfl
      · rename_i ids hids
        have hall := mapOpt_mem _ _ _ hids
        split
        · rfl
        · rename_i g rest
          split
          · rename_i hall'
            exfalso
            obtain ⟨vp, hvp, hmp⟩ := hall p hp
            obtain ⟨vq, hvq, hmq⟩ := hall q hq
            have eqg : ∀ v ∈ g :: rest, v = g := by
              intro v hv
              rcases List.mem_cons.mp hv with rfl | hv'
              · rfl
              · have := List.all_eq_true.mp hall' v hv'
                simpa using this
            apply hne
            rw [hvp, hvq, eqg vp hmp, eqg vq hmq]
          · rfl
  refine ⟨h1, ?_⟩
  unfold importDirect
  rw [h1]

example : ∃ (d : Doc Nat) (G : Graph Nat) (p q : Nat × Attrs), readDoc d = some G ∧ p ∈ G.nodes ∧ q ∈ G.nodes ∧
    p.2.get? "GraphID" ≠ q.2.get? "GraphID" :=
  ⟨.json ⟨false, false, [[("GraphID", .v (.str "a")), ("id", .k 1)], [("GraphID", .v (.str "b")), ("id", .k 2)]], []⟩,
   ⟨[(1, [("GraphID", .str "a")]), (2, [("GraphID", .str "b")])], []⟩,
   (1, [("GraphID", .str "a")]), (2, [("GraphID", .str "b")]), by decide, by decide, by decide, by decide⟩

/-- every node element produced by `networkx_to_neo4j` from an unlabelled element carries
    `labels = ":GraphNode:" ++ text` of one of its own data elements under the class key -/
theorem markNode_labels (ck : Option Nat) (n n' : GNode κ) (h : markNode ck n = .ok n') (hn : n.labels = none) :
    ∃ d ∈ n.data, some d.key = ck ∧ d.val.pyStr ≠ "" ∧
      n' = { n with labels := some (Gen.Serial.nodeLabelPrefix ++ d.val.pyStr) } := by
  unfold markNode classText at h
  rw [hn] at h
  cases ck with
  | none => simp at h
  | some k =>
    simp only at h
    cases hf : n.data.find? (fun d => d.key == k) with
    | none => simp [hf] at h
    | some d =>
      rw [hf] at h
      by_cases he : d.val.pyStr = ""
      · simp [he] at h
      · simp [he] at h
        refine ⟨d, List.mem_of_find?_eq_some hf, ?_, he, h.symm⟩
        have := List.find?_some hf
        simp at this
        rw [this]

theorem markNode_id_data (ck : Option Nat) (n n' : GNode κ) (h : markNode ck n = .ok n') :
    n'.id = n.id ∧ n'.data = n.data := by
  unfold markNode at h
  split at h
  · cases h
  · split at h
    · split at h <;> (cases h; exact ⟨rfl, rfl⟩)
    · cases h; exact ⟨rfl, rfl⟩

theorem markEdge_data (ck : Option Nat) (e e' : GEdge κ) (h : markEdge ck e = .ok e') :
    e'.source = e.source ∧ e'.target = e.target ∧ e'.data = e.data := by
  unfold markEdge at h
  split at h
  · cases h
  · split at h
    · split at h <;> (cases h; exact ⟨rfl, rfl, rfl⟩)
    · cases h; exact ⟨rfl, rfl, rfl⟩

/-- attribute names are unique inside every attribute dict (they are Python dicts) -/
def KeysNodup (G : Graph κ) : Prop :=
  (∀ p ∈ G.nodes, (p.2.map (·.1)).Nodup) ∧ (∀ e ∈ G.edges, (e.attrs.map (·.1)).Nodup)

instance (G : Graph κ) : Decidable (KeysNodup G) := by unfold KeysNodup; exact inferInstance

theorem edgesIter_keysNodup [DecidableEq κ] (G : Graph κ) (h : KeysNodup G) :
    ∀ e ∈ G.edgesIter, (e.attrs.map (·.1)).Nodup := by
  intro e he
  obtain ⟨_, _, e0, he0, hat, _⟩ := mem_iterFrom G.edges G.keys [] e he
  rw [hat]; exact h.2 e0 he0

/-- **GraphML round trip, document level.**  For every graph whose attribute values GraphML can
    type (`toGraphML` succeeds) and whose label markup can be written (`toNeo4j` succeeds — every
    node and edge has a non-empty `Class`), reading the emitted document gives back exactly the
    nodes with their attribute dicts (names, values *and value types*, in order) and exactly the
    edges `G.edges()` reports, with their attribute dicts. -/
theorem roundtrip_graphml_doc [DecidableEq κ] (G : Graph κ) (hk : KeysNodup G) (d d' : GDoc κ)
    (h : toGraphML G = .ok d) (h' : toNeo4j d = .ok d') :
    fromGraphML d' = .ok ⟨G.nodes, iterFrom G.edgesIter [] G.keys⟩ := by
  unfold toGraphML at h
  cases halloc : allocKeys G.allSpecs with
  | none => simp [halloc] at h
  | some tbl =>
    simp only [halloc, Except.ok.injEq] at h
    obtain ⟨_, hall⟩ := allocKeys_spec _ _ halloc
    unfold toNeo4j at h'
    cases hme : mapE (markEdge (classKey d.keys .edge)) d.edges with
    | error e => simp [hme] at h'
    | ok es' =>
      cases hmn : mapE (markNode (classKey d.keys .node)) d.nodes with
      | error e => simp [hme, hmn] at h'
      | ok ns' =>
        simp only [hme, hmn, Except.ok.injEq] at h'
        subst h'
        have hkeys : d.keys = docKeys tbl := by rw [← h]
        have hnodes : d.nodes = G.nodes.map fun p => (⟨p.1, none, dataOf tbl .node p.2⟩ : GNode κ) := by rw [← h]
        have hedges : d.edges = G.edgesIter.map fun e => (⟨e.a, e.b, none, dataOf tbl .edge e.attrs⟩ : GEdge κ) := by rw [← h]
        have rn : mapE (readNode d.keys) ns' = .ok G.nodes := by
          rw [mapE_congr_of_ok (markNode (classKey d.keys .node)) (readNode d.keys) _ d.nodes ns' hmn]
          · rw [hnodes, hkeys]
            apply mapE_map_ok
            intro p hp
            have hs := specs_in_table tbl .node p.2 G.allSpecs
              (by
                intro s hs
                unfold Graph.allSpecs
                exact List.mem_append_left _ (List.mem_flatMap.mpr ⟨p, hp, hs⟩)) hall
            simp only [readNode]
            rw [decodeData_dataOf tbl .node p.2 hs (hk.1 p hp)]
          · intro a a' ha
            obtain ⟨h1, h2⟩ := markNode_id_data _ a a' ha
            simp [readNode, h1, h2]
        have re : mapE (readEdge d.keys) es' = .ok G.edgesIter := by
          rw [mapE_congr_of_ok (markEdge (classKey d.keys .edge)) (readEdge d.keys) _ d.edges es' hme]
          · rw [hedges, hkeys]
            apply mapE_map_ok
            intro e he
            have hs := specs_in_table tbl .edge e.attrs G.allSpecs
              (by
                intro s hs
                unfold Graph.allSpecs
                exact List.mem_append_right _ (List.mem_flatMap.mpr ⟨e, he, hs⟩)) hall
            simp only [readEdge]
            rw [decodeData_dataOf tbl .edge e.attrs hs (edgesIter_keysNodup G hk e he)]
          · intro a a' ha
            obtain ⟨h1, h2, h3⟩ := markEdge_data _ a a' ha
            simp [readEdge, h1, h2, h3]
        simp only [fromGraphML, rn, re]
        rfl

example : ∃ (G : Graph Nat) (d d' : GDoc Nat), KeysNodup G ∧ toGraphML G = .ok d ∧ toNeo4j d = .ok d' ∧ G.edges ≠ [] :=
  ⟨⟨[(1, [("GraphID", .str "g"), ("Class", .str "NetworkNode"), ("n", .int 5)]), (2, [("Class", .str "Component"), ("n", .str "5")])],
     [⟨2, 1, [("Class", .str "has")]⟩]⟩, _, _, by decide, rfl, rfl, by decide⟩

/-! ### node-link JSON -/

/-- no attribute is named like a reserved key of the node-link format -/
def NoReserved (G : Graph κ) : Prop :=
  (∀ p ∈ G.nodes, Gen.Serial.jsonIdKey ∉ p.2.map (·.1)) ∧
  (∀ e ∈ G.edges, Gen.Serial.jsonSourceKey ∉ e.attrs.map (·.1) ∧ Gen.Serial.jsonTargetKey ∉ e.attrs.map (·.1))

instance (G : Graph κ) : Decidable (NoReserved G) := by unfold NoReserved; exact inferInstance

theorem readJNode_toJSON (n : κ) (a : Attrs) (h : Gen.Serial.jsonIdKey ∉ a.map (·.1)) :
    readJNode ((attrsObj a).set Gen.Serial.jsonIdKey (.k n)) = .ok (n, a) := by
  rw [JObj.set_not_mem _ _ _ (by rw [attrsObj_keys]; exact h)]
  have hk : objKey (attrsObj a ++ [(Gen.Serial.jsonIdKey, JV.k n)]) Gen.Serial.jsonIdKey = .ok n := by
    unfold objKey
    rw [lookup_attrsObj_append Gen.Serial.jsonIdKey _ a h]
    simp [List.lookup]
  have ha : objAttrs (attrsObj a ++ [(Gen.Serial.jsonIdKey, JV.k n)]) [Gen.Serial.jsonIdKey] = .ok a := by
    unfold objAttrs
    rw [List.filter_append, filter_attrsObj [Gen.Serial.jsonIdKey] a (by simpa using h)]
    simp
    exact mapE_attrsObj a
  simp [readJNode, hk, ha]

theorem readJEdge_toJSON (e : Edge κ) (hs : Gen.Serial.jsonSourceKey ∉ e.attrs.map (·.1)) (ht : Gen.Serial.jsonTargetKey ∉ e.attrs.map (·.1)) :
    readJEdge (((attrsObj e.attrs).set Gen.Serial.jsonSourceKey (.k e.a)).set Gen.Serial.jsonTargetKey (.k e.b)) = .ok e := by
  rw [JObj.set_not_mem _ Gen.Serial.jsonSourceKey _ (by rw [attrsObj_keys]; exact hs)]
  rw [JObj.set_not_mem _ Gen.Serial.jsonTargetKey _ (by
    simp only [List.map_append, attrsObj_keys, List.map_cons, List.map_nil, List.mem_append, List.mem_singleton, not_or]
    exact ⟨ht, by decide⟩)]
  have h1 : objKey (attrsObj e.attrs ++ [(Gen.Serial.jsonSourceKey, JV.k e.a)] ++ [(Gen.Serial.jsonTargetKey, JV.k e.b)]) Gen.Serial.jsonSourceKey = .ok e.a := by
    unfold objKey
    rw [List.append_assoc, lookup_attrsObj_append Gen.Serial.jsonSourceKey _ e.attrs hs]
    simp [List.lookup]
  have h2 : objKey (attrsObj e.attrs ++ [(Gen.Serial.jsonSourceKey, JV.k e.a)] ++ [(Gen.Serial.jsonTargetKey, JV.k e.b)]) Gen.Serial.jsonTargetKey = .ok e.b := by
    unfold objKey
    rw [List.append_assoc, lookup_attrsObj_append Gen.Serial.jsonTargetKey _ e.attrs ht]
    have hne : (Gen.Serial.jsonTargetKey == Gen.Serial.jsonSourceKey) = false := by decide
    simp [List.lookup, hne]
  have h3 : objAttrs (attrsObj e.attrs ++ [(Gen.Serial.jsonSourceKey, JV.k e.a)] ++ [(Gen.Serial.jsonTargetKey, JV.k e.b)]) [Gen.Serial.jsonSourceKey, Gen.Serial.jsonTargetKey] = .ok e.attrs := by
    unfold objAttrs
    rw [List.filter_append, List.filter_append, filter_attrsObj [Gen.Serial.jsonSourceKey, Gen.Serial.jsonTargetKey] e.attrs (by
      intro r hr
      simp at hr
      rcases hr with rfl | rfl
      · exact hs
      · exact ht)]
    simp
    exact mapE_attrsObj e.attrs
  unfold readJEdge
  rw [h1, h2, h3]

/-- **node-link JSON round trip, document level.**  Nodes with their attribute dicts (all value
    types, including the ones GraphML rejects) and the edges `G.edges()` reports come back
    exactly — provided no attribute is named like a reserved key of the format. -/
theorem roundtrip_json_doc [DecidableEq κ] (G : Graph κ) (hr : NoReserved G) :
    fromJSON (toJSON G) = .ok ⟨G.nodes, G.edgesIter⟩ := by
  have rn : mapE readJNode (toJSON G).nodes = .ok G.nodes := by
    simp only [toJSON]
    apply mapE_map_ok
    intro p hp
    exact readJNode_toJSON p.1 p.2 (hr.1 p hp)
  have re : mapE readJEdge (toJSON G).edges = .ok G.edgesIter := by
    simp only [toJSON]
    apply mapE_map_ok
    intro e he
    obtain ⟨_, _, e0, he0, hat, _⟩ := mem_iterFrom G.edges G.keys [] e he
    have := hr.2 e0 he0
    rw [← hat] at this
    exact readJEdge_toJSON e this.1 this.2
  unfold fromJSON
  rw [rn, re]
  simp [toJSON]

example : NoReserved (⟨[(1, [("Class", .str "NetworkNode")]), (2, [("Class", .str "Component")])],
    [⟨2, 1, [("Class", .str "has")]⟩]⟩ : Graph Nat) := by decide

/-- the full statement (no `NoReserved` hypothesis) is false for the code as it is: a node
    property named `id` is overwritten by the node key and lost (known finding
    `C01:json:property-named-id`, replayed by `corpus/C01/prop_named_id.json`) -/
theorem roundtrip_json_counterexample :
    ∃ G : Graph Nat, fromJSON (toJSON G) ≠ .ok ⟨G.nodes, G.edgesIter⟩ :=
  ⟨⟨[(1, [("NodeID", .str "a"), ("id", .str "user-value")])], []⟩, by
    intro h
    have h2 : fromJSON (toJSON (⟨[(1, [("NodeID", .str "a"), ("id", .str "user-value")])], []⟩ : Graph Nat))
        = .ok ⟨[(1, [("NodeID", .str "a")])], []⟩ := by rfl
    rw [h2] at h
    simp [Graph.edgesIter, iterFrom] at h⟩

/-! ### the store: importing -/

/-- well-formed `nx.Graph` value: distinct node keys, edge endpoints are nodes -/
def GraphWF (G : Graph κ) : Prop :=
  G.keys.Nodup ∧ ∀ e ∈ G.edges, e.a ∈ G.keys ∧ e.b ∈ G.keys

/-- every node has a truthy `NodeID` (what `add_graph` checks) -/
def HasNodeIds (G : Graph κ) : Prop :=
  ∀ p ∈ G.nodes, ((p.2.get? "NodeID").map Val.truthy).getD false = true

instance (G : Graph κ) : Decidable (HasNodeIds G) := by unfold HasNodeIds; exact inferInstance
instance (s : Store) : Decidable (StoreInv s) := by unfold StoreInv; exact inferInstance

/-- the copy `add_graph` stores: node `k` becomes `start + position of k`, `GraphID` is stamped -/
def stampedCopy [DecidableEq κ] (G : Graph κ) (start : Nat) (g : Val) : Graph Nat :=
  { nodes := G.nodes.map fun p => (start + G.keys.idxOf p.1, p.2.set "GraphID" g),
    edges := G.edgesIter.map (ren fun k => start + G.keys.idxOf k) }

/-- the copy `add_graph_direct` stores -/
def directCopy [DecidableEq κ] (G : Graph κ) (start : Nat) : Graph Nat :=
  { nodes := G.nodes.map fun p => (start + G.keys.idxOf p.1, p.2),
    edges := G.edgesIter.map (ren fun k => start + G.keys.idxOf k) }

theorem edgesIter_ends [DecidableEq κ] (G : Graph κ) (h : GraphWF G) : ∀ e ∈ G.edgesIter, e.a ∈ G.keys ∧ e.b ∈ G.keys := by
  intro e he
  obtain ⟨h1, _, e0, he0, _, hor⟩ := mem_iterFrom G.edges G.keys [] e he
  refine ⟨h1, ?_⟩
  rcases hor with ⟨_, hb⟩ | ⟨_, hb⟩
  · exact hb ▸ (h.2 e0 he0).2
  · exact hb ▸ (h.2 e0 he0).1

/-- the relabelled edges are already in iteration order for the relabelled node list -/
theorem iter_relabelled [DecidableEq κ] (G : Graph κ) (h : GraphWF G) (start : Nat) :
    iterFrom (G.edgesIter.map (ren fun k => start + G.keys.idxOf k)) [] (G.keys.map fun k => start + G.keys.idxOf k)
      = G.edgesIter.map (ren fun k => start + G.keys.idxOf k) := by
  have hinj : ∀ x ∈ G.keys, ∀ y ∈ G.keys, start + G.keys.idxOf x = start + G.keys.idxOf y → x = y :=
    fun x hx y hy e => idxOf_inj G.keys x hx y hy (by omega)
  have := iterFrom_map (fun k => start + G.keys.idxOf k) G.keys hinj G.edgesIter (edgesIter_ends G h) G.keys []
    (fun _ hx => hx) (by simp)
  simp only [List.map_nil] at this
  rw [this]
  unfold Graph.edgesIter
  rw [iter_idem G.edges G.keys h.1]

/-- what `extract_graph` returns after merging a copy whose nodes are all tagged `g` -/
theorem extract_after_merge [DecidableEq κ] (s : Store) (hs : StoreInv s) (g : Val) (G : Graph κ) (hw : GraphWF G)
    (hne : G.nodes ≠ []) (at' : Attrs → Attrs) (htag : ∀ p ∈ G.nodes, (at' p.2).get? "GraphID" = some g) :
    ((s.delGraph g).merge
        { nodes := G.nodes.map fun p => (s.nextId + G.keys.idxOf p.1, at' p.2),
          edges := G.edgesIter.map (ren fun k => s.nextId + G.keys.idxOf k) }).extract g
      = some { nodes := G.nodes.map fun p => (s.nextId + G.keys.idxOf p.1, at' p.2),
               edges := G.edgesIter.map (ren fun k => s.nextId + G.keys.idxOf k) } := by
  have hkeys : (G.nodes.map fun p => (s.nextId + G.keys.idxOf p.1, at' p.2)).map (·.1)
      = G.keys.map fun k => s.nextId + G.keys.idxOf k := by
    simp [Graph.keys, List.map_map, Function.comp_def]
  have hit := iter_relabelled G hw s.nextId
  have hit' : iterFrom (G.edgesIter.map (ren fun k => s.nextId + G.keys.idxOf k)) []
      ((G.nodes.map fun p => (s.nextId + G.keys.idxOf p.1, at' p.2)).map (·.1))
      = G.edgesIter.map (ren fun k => s.nextId + G.keys.idxOf k) := by rw [hkeys]; exact hit
  have hm : (s.delGraph g).merge
        { nodes := G.nodes.map fun p => (s.nextId + G.keys.idxOf p.1, at' p.2),
          edges := G.edgesIter.map (ren fun k => s.nextId + G.keys.idxOf k) }
      = ⟨(s.delGraph g).nodes ++ (G.nodes.map fun p => (s.nextId + G.keys.idxOf p.1, at' p.2)).map (fun p => ⟨p.1, p.2⟩),
         (s.delGraph g).edges ++ G.edgesIter.map (ren fun k => s.nextId + G.keys.idxOf k),
         (s.delGraph g).nextId + (G.nodes.map fun p => (s.nextId + G.keys.idxOf p.1, at' p.2)).length⟩ := by
    simp only [Store.merge, Graph.edgesIter, Graph.keys]
    rw [show iterFrom (List.map (ren fun k => s.nextId + List.idxOf k (List.map (fun x => x.fst) G.nodes))
          (iterFrom G.edges [] (List.map (fun x => x.fst) G.nodes))) []
        (List.map (fun x => x.fst) (List.map (fun p => (s.nextId + List.idxOf p.fst (List.map (fun x => x.fst) G.nodes), at' p.snd)) G.nodes))
        = List.map (ren fun k => s.nextId + List.idxOf k (List.map (fun x => x.fst) G.nodes))
          (iterFrom G.edges [] (List.map (fun x => x.fst) G.nodes)) from hit']
  rw [hm]
  apply extract_merge (s.delGraph g) g _ _ (delGraph_graphNodes s g) (delGraph_lt s g hs)
  · intro h; exact hne (List.map_eq_nil_iff.mp h)
  · intro p hp
    obtain ⟨q, hq, rfl⟩ := List.mem_map.mp hp
    exact htag q hq
  · intro p hp
    obtain ⟨q, _, rfl⟩ := List.mem_map.mp hp
    simp [delGraph_nextId]
  · intro e he
    obtain ⟨e0, he0, rfl⟩ := List.mem_map.mp he
    obtain ⟨ha, hb⟩ := edgesIter_ends G hw e0 he0
    rw [hkeys]
    exact ⟨List.mem_map_of_mem (f := fun k => s.nextId + G.keys.idxOf k) ha,
           List.mem_map_of_mem (f := fun k => s.nextId + G.keys.idxOf k) hb⟩
  · exact hit'

/-- **`add_graph` stores a faithful copy.**  For every store satisfying the invariant and every
    well-formed graph whose nodes carry a `NodeID`, `add_graph g G` succeeds and `extract_graph g`
    afterwards is `G` with node `k` renamed to `start_id + position(k)`, `GraphID := g` stamped,
    all other attributes (order included) and all edges with their attributes unchanged —
    whether or not a graph `g` existed before. -/
theorem addGraph_extract [DecidableEq κ] (s : Store) (hs : StoreInv s) (g : Val) (G : Graph κ) (hw : GraphWF G)
    (hid : HasNodeIds G) (hne : G.nodes ≠ []) :
    (s.addGraph g G).1 = .ok () ∧ (s.addGraph g G).2.extract g = some (stampedCopy G s.nextId g) := by
  have hall : ((Store.relabelFrom G (s.delGraph g).nextId).nodes.all
      fun p => ((p.2.get? "NodeID").map Val.truthy).getD false) = true := by
    simp only [Store.relabelFrom, Graph.relabel, List.all_map, List.all_eq_true]
    intro p hp
    exact hid p hp
  unfold Store.addGraph
  simp only [sharedFirst_eval, hall, if_true]
  refine ⟨by first | rfl | trivial, ?_⟩
  have := extract_after_merge s hs g G hw hne (fun a => a.set "GraphID" g) (fun p _ => Attrs.get_set p.2 "GraphID" g)
  simp only [Store.relabelFrom, Graph.relabel, stampedCopy, delGraph_nextId, List.map_map, Function.comp_def]
  exact this

/-- **`add_graph_direct` stores a faithful copy** of a graph whose nodes all carry `GraphID = g`. -/
theorem addGraphDirect_extract [DecidableEq κ] (s : Store) (hs : StoreInv s) (g : Val) (G : Graph κ) (hw : GraphWF G)
    (hg : ∀ p ∈ G.nodes, p.2.get? "GraphID" = some g) (hne : G.nodes ≠ []) :
    (s.addGraphDirect g G).extract g = some (directCopy G s.nextId) := by
  have := extract_after_merge s hs g G hw hne id hg
  simp only [Store.addGraphDirect, Store.relabelFrom, Graph.relabel, directCopy, delGraph_nextId]
  exact this

/-! ### serialize, then import: the four entry points -/

/-- what `extract_graph` returns is a well-formed graph already in iteration order whose nodes
    are exactly the stored nodes tagged `g` -/
theorem extract_spec (s : Store) (hs : StoreInv s) (g : Val) (G0 : Graph Nat) (h : s.extract g = some G0) :
    G0.nodes ≠ [] ∧ GraphWF G0 ∧ G0.edgesIter = G0.edges ∧ (∀ p ∈ G0.nodes, p.2.get? "GraphID" = some g) ∧
    (∀ p ∈ G0.nodes, (⟨p.1, p.2⟩ : SNode) ∈ s.nodes) := by
  unfold Store.extract at h
  simp only at h
  split at h
  · cases h
  · rename_i hemp
    simp only [Option.some.injEq] at h
    have hkeys : G0.keys = (s.graphNodes g).map (·.iid) := by
      rw [← h]; simp [Graph.keys, List.map_map, Function.comp_def]
    have hnd : G0.keys.Nodup := by
      rw [hkeys]
      exact (List.Sublist.map _ List.filter_sublist).nodup hs.1
    have hnodes : G0.nodes = (s.graphNodes g).map fun n => (n.iid, n.attrs) := by rw [← h]
    have hedges : G0.edges = iterFrom (s.edges.filter fun e => ((s.graphNodes g).map (·.iid)).contains e.a &&
        ((s.graphNodes g).map (·.iid)).contains e.b) [] G0.keys := by rw [hkeys, ← h]
    refine ⟨?_, ⟨hnd, ?_⟩, ?_, ?_, ?_⟩
    · rw [hnodes]
      intro hn
      have := List.map_eq_nil_iff.mp hn
      simp [this] at hemp
    · intro e he
      rw [hedges] at he
      obtain ⟨h1, _, e0, he0, _, hor⟩ := mem_iterFrom _ _ _ e he
      refine ⟨h1, ?_⟩
      have hf := (List.mem_filter.mp he0).2
      simp only [Bool.and_eq_true, List.contains_eq_mem, decide_eq_true_eq] at hf
      rw [hkeys]
      rcases hor with ⟨_, hb⟩ | ⟨_, hb⟩
      · exact hb ▸ hf.2
      · exact hb ▸ hf.1
    · unfold Graph.edgesIter
      rw [hedges]
      exact iter_idem _ _ hnd
    · intro p hp
      rw [hnodes] at hp
      obtain ⟨n, hn, rfl⟩ := List.mem_map.mp hp
      have := (List.mem_filter.mp hn).2
      simpa [Store.inGraph] using this
    · intro p hp
      rw [hnodes] at hp
      obtain ⟨n, hn, rfl⟩ := List.mem_map.mp hp
      exact (List.mem_filter.mp hn).1

/-- reading the serialized text of a stored graph gives back the extracted graph itself -/
theorem readDoc_serialize (s : Store) (hs : StoreInv s) (g : Val) (G0 : Graph Nat) (hG : s.extract g = some G0)
    (f : Fmt) (hk : f = .graphml → KeysNodup G0) (hr : f = .json → NoReserved G0)
    (doc : Doc Nat) (hser : serialize s g f = .ok (some doc)) : readDoc doc = some G0 := by
  obtain ⟨_, hw, hit, _, _⟩ := extract_spec s hs g G0 hG
  unfold serialize at hser
  rw [hG] at hser
  cases f with
  | graphml =>
    simp only at hser
    cases h1 : toGraphML G0 with
    | error e => simp [h1] at hser
    | ok d =>
      cases h2 : toNeo4j d with
      | error e => simp [h1, h2] at hser
      | ok d' =>
        simp only [h1, h2, Except.ok.injEq, Option.some.injEq] at hser
        subst hser
        have := roundtrip_graphml_doc G0 (hk rfl) d d' h1 h2
        have he : iterFrom G0.edgesIter [] G0.keys = G0.edges := by
          rw [hit]; exact hit
        simp only [readDoc, this, he]
        rfl
  | json =>
    simp only [Except.ok.injEq, Option.some.injEq] at hser
    subst hser
    have := roundtrip_json_doc G0 (hr rfl)
    simp only [readDoc, this, hit]
    rfl

/-- **Round trip through `import_graph_from_string` / `import_graph_from_file`** (both formats, any
    target id `g'`, equal to `g` or not, occupied or not): the import succeeds and the graph stored
    under `g'` is the original with node `k` renamed to `start_id + position(k)` and `GraphID := g'`;
    every other attribute (name, value, value type, order) and every edge with its attributes is
    unchanged. -/
theorem roundtrip_import_string (s : Store) (hs : StoreInv s) (g g' : Val) (G0 : Graph Nat)
    (hG : s.extract g = some G0) (hid : HasNodeIds G0)
    (f : Fmt) (hk : f = .graphml → KeysNodup G0) (hr : f = .json → NoReserved G0)
    (doc : Doc Nat) (hser : serialize s g f = .ok (some doc)) :
    (importString s doc g').1 = .ok g' ∧
    (importString s doc g').2.extract g' = some (stampedCopy G0 s.nextId g') := by
  have hread := readDoc_serialize s hs g G0 hG f hk hr doc hser
  obtain ⟨hne, hw, _, _, _⟩ := extract_spec s hs g G0 hG
  obtain ⟨h1, h2⟩ := addGraph_extract s hs g' G0 hw hid hne
  unfold importString
  rw [hread]
  have hemp : G0.nodes.isEmpty = false := by
    cases hn : G0.nodes with
    | nil => exact absurd hn hne
    | cons a t => rfl
  simp only [hemp, Bool.false_eq_true, if_false]
  cases hag : s.addGraph g' G0 with
  | mk r s' =>
    rw [hag] at h1 h2
    simp only at h1 h2
    subst h1
    exact ⟨rfl, h2⟩

theorem getGraphId_of_all (d : Doc κ) [DecidableEq κ] (G : Graph κ) (hr : readDoc d = some G) (hne : G.nodes ≠ []) (g : Val)
    (hg : ∀ p ∈ G.nodes, p.2.get? "GraphID" = some g) : getGraphId d = .ok g := by
  have hm : ∀ (l : List (κ × Attrs)), (∀ p ∈ l, p.2.get? "GraphID" = some g) →
      mapOpt (fun p : κ × Attrs => p.2.get? "GraphID") l = some (l.map fun _ => g) := by
    intro l
    induction l with
    | nil => intro _; rfl
    | cons a t ih =>
      intro h
      simp [mapOpt, h a List.mem_cons_self, ih (fun p hp => h p (List.mem_cons_of_mem _ hp))]
  unfold getGraphId
  rw [hr]
  cases hn : G.nodes with
  | nil => exact absurd hn hne
  | cons a t =>
    have := hm G.nodes hg
    rw [hn] at this
    simp only [hn, this]
    simp

/-- **Round trip through `import_graph_from_string_direct` / `import_graph_from_file_direct`**:
    the graph id found in the document is `g`, the import succeeds under the same id and the
    stored graph is the original with node `k` renamed to `start_id + position(k)`, all
    attributes and edges unchanged (the original is replaced). -/
theorem roundtrip_import_direct (s : Store) (hs : StoreInv s) (g : Val) (G0 : Graph Nat)
    (hG : s.extract g = some G0)
    (f : Fmt) (hk : f = .graphml → KeysNodup G0) (hr : f = .json → NoReserved G0)
    (doc : Doc Nat) (hser : serialize s g f = .ok (some doc)) :
    (importDirect s doc).1 = .ok g ∧
    (importDirect s doc).2.extract g = some (directCopy G0 s.nextId) := by
  have hread := readDoc_serialize s hs g G0 hG f hk hr doc hser
  obtain ⟨hne, hw, _, hg, _⟩ := extract_spec s hs g G0 hG
  have hgid := getGraphId_of_all doc G0 hread hne g hg
  unfold importDirect
  rw [hgid]
  simp only [hread]
  exact ⟨by first | rfl | trivial, addGraphDirect_extract s hs g G0 hw hg hne⟩

example : ∃ (s : Store) (G0 : Graph Nat) (doc : Doc Nat), StoreInv s ∧ s.extract (.str "g") = some G0 ∧ HasNodeIds G0 ∧
    KeysNodup G0 ∧ NoReserved G0 ∧ serialize s (.str "g") .graphml = .ok (some doc) ∧ G0.edges ≠ [] :=
  ⟨⟨[⟨1, [("GraphID", .str "g"), ("Class", .str "NetworkNode"), ("NodeID", .str "a"), ("n", .int 5)]⟩,
      ⟨2, [("GraphID", .str "h"), ("Class", .str "NetworkNode"), ("NodeID", .str "a")]⟩,
      ⟨3, [("GraphID", .str "g"), ("Class", .str "Component"), ("NodeID", .str "b"), ("n", .str "5")]⟩],
     [⟨3, 1, [("Class", .str "has")]⟩], 4⟩, _, _, by decide, rfl, by decide, by decide, by decide, rfl, by decide⟩

/-- the document `serialize_graph` emits for an extracted graph -/
def serializeG (G : Graph Nat) (f : Fmt) : Except String (Option (Doc Nat)) :=
  match f with
  | .graphml =>
    match toGraphML G with
    | .error e => .error e
    | .ok d =>
      match toNeo4j d with
      | .error e => .error e
      | .ok d' => .ok (some (.graphml d'))
  | .json => .ok (some (.json (toJSON G)))

theorem serialize_eq_serializeG (s : Store) (g : Val) (G : Graph Nat) (h : s.extract g = some G) (f : Fmt) :
    serialize s g f = serializeG G f := by
  unfold serialize serializeG; rw [h]; cases f <;> rfl

/-- a serialized document with the internal node numbering renamed by `fn`, the node data
    elements rewritten by `hd` (GraphML) / the node attribute values by `hv` (JSON); key table,
    element order, label markup, edge data and everything else is kept -/
def relabelDoc (fn : Nat → Nat) (hd : List GData → List GData) (hv : String → Val → Val) : Doc Nat → Doc Nat
  | .graphml d => .graphml (relabelGDoc fn hd d)
  | .json d => .json (relabelJDoc fn hv d)

theorem serializeG_copy (G H : Graph Nat) (fn : Nat → Nat) (h : Attrs → Attrs) (hd : List GData → List GData)
    (hv : String → Val → Val)
    (hn : H.nodes = G.nodes.map fun p => (fn p.1, h p.2))
    (he : H.edgesIter = G.edgesIter.map fun e => ⟨fn e.a, fn e.b, e.attrs⟩)
    (hs : ∀ p ∈ G.nodes, specsOf .node (h p.2) = specsOf .node p.2)
    (ho : ∀ p ∈ G.nodes, attrsObj (κ := Nat) (h p.2) = relabelJObj fn hv (attrsObj (κ := Nat) p.2))
    (hdata : ∀ tbl, allocKeys G.allSpecs = some tbl →
      (∀ p ∈ G.nodes, dataOf tbl .node (h p.2) = hd (dataOf tbl .node p.2)) ∧
      ∀ data, classText (classKey (docKeys tbl) .node) (hd data) = classText (classKey (docKeys tbl) .node) data)
    (f : Fmt) (doc : Doc Nat) (hser : serializeG G f = .ok (some doc)) :
    serializeG H f = .ok (some (relabelDoc fn hd hv doc)) := by
  cases f with
  | json =>
    simp only [serializeG, Except.ok.injEq, Option.some.injEq] at hser ⊢
    subst hser
    simp only [relabelDoc, toJSON_copy G H fn h hv hn he ho]
  | graphml =>
    simp only [serializeG] at hser ⊢
    cases h1 : toGraphML G with
    | error e => simp [h1] at hser
    | ok d =>
      cases h2 : toNeo4j d with
      | error e => simp [h1, h2] at hser
      | ok d' =>
        simp only [h1, h2, Except.ok.injEq, Option.some.injEq] at hser
        subst hser
        obtain ⟨tbl, ht, hdeq⟩ := toGraphML_ok G d h1
        obtain ⟨hd1, hd2⟩ := hdata tbl ht
        have hH : toGraphML H = .ok (relabelGDoc fn hd d) := by
          rw [toGraphML_copy G H fn h hn he hs tbl ht, hdeq]
          simp only [relabelGDoc, List.map_map, Function.comp_def, Except.ok.injEq, GDoc.mk.injEq, true_and]
          refine ⟨?_, trivial⟩
          apply List.map_congr_left
          intro p hp
          rw [hd1 p hp]
        have hk : d.keys = docKeys tbl := by rw [hdeq]
        have hN := toNeo4j_relabel fn hd d (by rw [hk]; exact hd2)
        rw [hH]
        simp only [hN, h2, Except.map, relabelDoc]

/-- the GraphML key id under which the nodes' `GraphID` is written -/
def gidKeyOf (G : Graph Nat) (ty : KTy) : Nat :=
  match allocKeys G.allSpecs with
  | some tbl => tbl.idxOf ⟨"GraphID", ty, .node⟩
  | none => 0

/-- **`reserialize_stable` (reassigning entry points).**  Serialising the imported copy gives the
    *same document* as serialising the original — same key table, same element order, same label
    markup, same data and typing — up to exactly two things the code does not preserve: the
    internal node numbering (node id / source / target are renamed by the injective
    `k ↦ start_id + position(k)`) and the text of the nodes' `GraphID` (the new graph id `g'`,
    which must be of the same value type as the old one, e.g. both strings). -/
theorem reserialize_stable_string (s : Store) (hs : StoreInv s) (g g' : Val) (G0 : Graph Nat)
    (hG : s.extract g = some G0) (hid : HasNodeIds G0) (hkn : KeysNodup G0)
    (ty : KTy) (hty : xmlType g = some ty) (hty' : xmlType g' = some ty)
    (f : Fmt) (hr : f = .json → NoReserved G0)
    (doc : Doc Nat) (hser : serialize s g f = .ok (some doc)) (f' : Fmt)
    (doc' : Doc Nat) (hser' : serialize s g f' = .ok (some doc')) :
    serialize (importString s doc g').2 g' f' =
      .ok (some (relabelDoc (fun k => s.nextId + G0.keys.idxOf k) (stampData (gidKeyOf G0 ty) g') (stampV g') doc')) := by
  obtain ⟨_, h2⟩ := roundtrip_import_string s hs g g' G0 hG hid f (fun _ => hkn) hr doc hser
  obtain ⟨hne, hw, _, hgid, _⟩ := extract_spec s hs g G0 hG
  rw [serialize_eq_serializeG _ _ _ h2]
  rw [serialize_eq_serializeG _ _ _ hG] at hser'
  apply serializeG_copy G0 (stampedCopy G0 s.nextId g') (fun k => s.nextId + G0.keys.idxOf k)
    (fun a => a.set "GraphID" g') _ _ rfl _ _ _ _ f' doc' hser'
  · have := iter_relabelled G0 hw s.nextId
    simp only [stampedCopy, Graph.edgesIter, Graph.keys, List.map_map, Function.comp_def] at this ⊢
    exact this
  · intro p hp
    exact specsOf_set g g' (by rw [hty, hty']) p.2 (hgid p hp)
  · intro p hp
    exact attrsObj_set _ g g' p.2 (hgid p hp) (hkn.1 p hp)
  · intro tbl ht
    obtain ⟨_, hall⟩ := allocKeys_spec _ _ ht
    have hin : ∀ p ∈ G0.nodes, ∀ q ∈ p.2, ∃ t, xmlType q.2 = some t ∧ (⟨q.1, t, .node⟩ : KeySpec) ∈ tbl := by
      intro p hp
      exact specs_in_table tbl .node p.2 G0.allSpecs
        (by
          intro sp hsp
          unfold Graph.allSpecs
          exact List.mem_append_left _ (List.mem_flatMap.mpr ⟨p, hp, hsp⟩)) hall
    have hgk : gidKeyOf G0 ty = tbl.idxOf ⟨"GraphID", ty, .node⟩ := by simp [gidKeyOf, ht]
    have hgmem : (⟨"GraphID", ty, .node⟩ : KeySpec) ∈ tbl := by
      cases hnodes : G0.nodes with
      | nil => exact absurd hnodes hne
      | cons p0 t =>
        have hp0 : p0 ∈ G0.nodes := by rw [hnodes]; exact List.mem_cons_self
        obtain ⟨t1, ht1, hm1⟩ := hin p0 hp0 _ (Attrs.mem_of_get p0.2 "GraphID" g (hgid p0 hp0))
        simp only at ht1 hm1
        rw [hty] at ht1
        exact (Option.some.inj ht1) ▸ hm1
    rw [hgk]
    constructor
    · intro p hp
      exact dataOf_stamp tbl g g' ty hty hty' p.2 (hgid p hp) (hkn.1 p hp) (hin p hp)
    · intro data
      exact classText_stamp _ _ g' (classKey_ne_gid tbl ty hgmem) data

/-- **`reserialize_stable` (direct entry points).**  Serialising the directly imported copy gives
    the same document as serialising the original up to the internal node numbering only. -/
theorem reserialize_stable_direct (s : Store) (hs : StoreInv s) (g : Val) (G0 : Graph Nat)
    (hG : s.extract g = some G0)
    (f : Fmt) (hk : f = .graphml → KeysNodup G0) (hr : f = .json → NoReserved G0)
    (doc : Doc Nat) (hser : serialize s g f = .ok (some doc)) (f' : Fmt)
    (doc' : Doc Nat) (hser' : serialize s g f' = .ok (some doc')) :
    serialize (importDirect s doc).2 g f' =
      .ok (some (relabelDoc (fun k => s.nextId + G0.keys.idxOf k) id (fun _ v => v) doc')) := by
  obtain ⟨_, h2⟩ := roundtrip_import_direct s hs g G0 hG f hk hr doc hser
  obtain ⟨_, hw, _, _, _⟩ := extract_spec s hs g G0 hG
  rw [serialize_eq_serializeG _ _ _ h2]
  rw [serialize_eq_serializeG _ _ _ hG] at hser'
  apply serializeG_copy G0 (directCopy G0 s.nextId) (fun k => s.nextId + G0.keys.idxOf k)
    id _ _ rfl _ _ _ _ f' doc' hser'
  · have := iter_relabelled G0 hw s.nextId
    simp only [directCopy, Graph.edgesIter, Graph.keys, List.map_map, Function.comp_def] at this ⊢
    exact this
  · intro p _; rfl
  · intro p _; exact attrsObj_id _ p.2
  · intro tbl _
    exact ⟨fun p _ => rfl, fun _ => rfl⟩

/-- the renaming used by the copies is injective on the node keys -/
theorem copy_renaming_injective [DecidableEq κ] (G : Graph κ) (start : Nat) :
    ∀ x ∈ G.keys, ∀ y ∈ G.keys, start + G.keys.idxOf x = start + G.keys.idxOf y → x = y :=
  fun x hx y hy e => idxOf_inj G.keys x hx y hy (by omega)

/-! ### validation after import -/

theorem forE_ok_iff {α : Type} (f : α → Except String Unit) : ∀ (l : List α), forE f l = .ok () ↔ ∀ a ∈ l, f a = .ok ()
  | [] => by simp [forE]
  | a :: t => by
    have ih := forE_ok_iff f t
    unfold forE
    cases h : f a with
    | error e => simp [h]
    | ok u => simp [h, ih]

theorem Attrs.get_set_ne (a : Attrs) (k k' : String) (v : Val) (h : k' ≠ k) : (Attrs.set a k v).get? k' = a.get? k' := by
  induction a with
  | nil =>
    have hb : (k' == k) = false := by simpa using h
    simp [Attrs.set, Attrs.get?, List.lookup_cons, hb]
  | cons p t ih =>
    obtain ⟨k0, v0⟩ := p
    by_cases h0 : k0 = k
    · subst h0
      have hb : (k' == k0) = false := by simpa using h
      simp [Attrs.set, Attrs.get?, List.lookup_cons, hb]
    · simp only [Attrs.set, h0, if_false, Attrs.get?, List.lookup_cons] at ih ⊢
      cases hk : (k' == k0) with
      | true => rfl
      | false => exact ih

theorem extract_nodes (s : Store) (g : Val) (G0 : Graph Nat) (h : s.extract g = some G0) :
    G0.nodes = (s.graphNodes g).map fun n => (n.iid, n.attrs) := by
  unfold Store.extract at h
  simp only at h
  split at h
  · cases h
  · simp only [Option.some.injEq] at h
    rw [← h]

/-- the state `add_graph` leaves behind when every node has a NodeID -/
theorem addGraph_state [DecidableEq κ] (s : Store) (g : Val) (G : Graph κ) (hid : HasNodeIds G) :
    (s.addGraph g G).2 = (s.delGraph g).merge
      { nodes := G.nodes.map fun p => (s.nextId + G.keys.idxOf p.1, p.2.set "GraphID" g),
        edges := G.edgesIter.map (ren fun k => s.nextId + G.keys.idxOf k) } := by
  have hall : ((Store.relabelFrom G (s.delGraph g).nextId).nodes.all
      fun p => ((p.2.get? "NodeID").map Val.truthy).getD false) = true := by
    simp only [Store.relabelFrom, Graph.relabel, List.all_map, List.all_eq_true]
    intro p hp
    exact hid p hp
  unfold Store.addGraph
  simp only [sharedFirst_eval, hall, if_true]
  simp only [Store.relabelFrom, Graph.relabel, delGraph_nextId, List.map_map, Function.comp_def]
  rfl

theorem hasClass_set (a : Attrs) (g' : Val) : hasClass (a.set "GraphID" g') = hasClass a := by
  unfold hasClass
  rw [Attrs.get_set_ne a "GraphID" "Class" g' (by decide)]

theorem checkJsonProp_set (jsonOk : String → Bool) (a : Attrs) (g' : Val) (name : String) (h : name ≠ "GraphID") :
    checkJsonProp jsonOk (a.set "GraphID" g') name = checkJsonProp jsonOk a name := by
  unfold checkJsonProp
  rw [Attrs.get_set_ne a "GraphID" name g' h]

/-- **`validates_after_import`.**  If `validate_graph()` passes for the stored graph `g` (all its
    JSON-typed properties parse, every node and edge of the store has a `Class`), then after
    serialising `g` (either format) and importing the text under any id `g'` through
    `import_graph_from_string` / `_file`, `validate_graph()` passes for the imported graph.
    `names` is any list of JSON property names not containing `GraphID`; `jsonOk` any parser verdict. -/
theorem validates_after_import (names : List String) (jsonOk : String → Bool) (hnames : "GraphID" ∉ names)
    (s : Store) (hs : StoreInv s) (g g' : Val) (G0 : Graph Nat)
    (hG : s.extract g = some G0) (hid : HasNodeIds G0)
    (f : Fmt) (hk : f = .graphml → KeysNodup G0) (hr : f = .json → NoReserved G0)
    (doc : Doc Nat) (hser : serialize s g f = .ok (some doc))
    (hv : validate names jsonOk s g = .ok ()) :
    validate names jsonOk (importString s doc g').2 g' = .ok () := by
  -- what validation of the original tells us
  unfold validate at hv
  split at hv
  · cases hv
  · rename_i hne0
    cases hfor : forE (checkNode names jsonOk s g) (s.graphNodes g) with
    | error e => simp [hfor] at hv
    | ok u =>
      simp only [hfor] at hv
      split at hv
      · rename_i hcls
        simp only [Bool.and_eq_true, List.all_eq_true] at hcls
        obtain ⟨hcn, hce⟩ := hcls
        have hchk := (forE_ok_iff _ _).mp (by cases u; exact hfor)
        -- the state after the import
        have hread := readDoc_serialize s hs g G0 hG f hk hr doc hser
        obtain ⟨hne, hw, hit, hgid, hmem⟩ := extract_spec s hs g G0 hG
        have hnodes := extract_nodes s g G0 hG
        have hemp : G0.nodes.isEmpty = false := by
          cases hn : G0.nodes with
          | nil => exact absurd hn hne
          | cons a t => rfl
        have hst : (importString s doc g').2 = (s.addGraph g' G0).2 := by
          unfold importString
          rw [hread]
          simp only [hemp, Bool.false_eq_true, if_false]
          cases s.addGraph g' G0 with
          | mk r s' => cases r <;> rfl
        rw [hst, addGraph_state s g' G0 hid]
        -- name the pieces
        let fn : Nat → Nat := fun k => s.nextId + G0.keys.idxOf k
        let cp : SNode → SNode := fun n => ⟨fn n.iid, n.attrs.set "GraphID" g'⟩
        have hcopies : ((G0.nodes.map fun p => (fn p.1, p.2.set "GraphID" g')).map fun p => (⟨p.1, p.2⟩ : SNode))
            = (s.graphNodes g).map cp := by
          rw [hnodes]; simp [List.map_map, Function.comp_def, cp]
        have hgn : Store.graphNodes ((s.delGraph g').merge
              { nodes := G0.nodes.map fun p => (fn p.1, p.2.set "GraphID" g'),
                edges := G0.edgesIter.map (ren fn) }) g' = (s.graphNodes g).map cp := by
          show List.filter (Store.inGraph g') ((s.delGraph g').nodes ++
              (G0.nodes.map fun p => (fn p.1, p.2.set "GraphID" g')).map fun p => (⟨p.1, p.2⟩ : SNode)) = _
          have h1 : (s.delGraph g').nodes.filter (Store.inGraph g') = [] := delGraph_graphNodes s g'
          rw [List.filter_append, h1, List.nil_append, hcopies, List.filter_eq_self]
          intro n hn
          obtain ⟨m, _, rfl⟩ := List.mem_map.mp hn
          simp [Store.inGraph, cp, Attrs.get_set]
        unfold validate
        rw [hgn]
        have hne' : ((s.graphNodes g).map cp).isEmpty = false := by
          cases hx : s.graphNodes g with
          | nil => simp [hx] at hne0
          | cons a t => rfl
        simp only [hne', Bool.false_eq_true, if_false]
        -- every copied node passes the JSON check
        have hfor' : forE (checkNode names jsonOk ((s.delGraph g').merge
              { nodes := G0.nodes.map fun p => (fn p.1, p.2.set "GraphID" g'),
                edges := G0.edgesIter.map (ren fn) }) g') ((s.graphNodes g).map cp) = .ok () := by
          rw [forE_ok_iff]
          intro n' hn'
          obtain ⟨n, hn, rfl⟩ := List.mem_map.mp hn'
          have hc := hchk n hn
          unfold checkNode at hc ⊢
          cases hnid : n.attrs.get? "NodeID" with
          | none => simp [hnid] at hc
          | some nid =>
            simp only [hnid] at hc
            have hnid' : (cp n).attrs.get? "NodeID" = some nid := by
              simp only [cp]; rw [Attrs.get_set_ne _ _ _ _ (by decide)]; exact hnid
            simp only [hnid']
            cases hfn : findNode s g nid with
            | error e => simp [hfn] at hc
            | ok m =>
              simp only [hfn] at hc
              have hfil : (s.graphNodes g).filter (fun n => n.attrs.get? "NodeID" == some nid) = [m] := by
                unfold findNode at hfn
                split at hfn
                · cases hfn
                · rename_i x hx; simp only [Except.ok.injEq] at hfn; rw [hx, hfn]
                · cases hfn
              have hfn' : findNode ((s.delGraph g').merge
                  { nodes := G0.nodes.map fun p => (fn p.1, p.2.set "GraphID" g'),
                    edges := G0.edgesIter.map (ren fn) }) g' nid = .ok (cp m) := by
                unfold findNode
                rw [hgn, List.filter_map]
                have : ((fun n : SNode => n.attrs.get? "NodeID" == some nid) ∘ cp)
                    = fun n : SNode => n.attrs.get? "NodeID" == some nid := by
                  funext x
                  simp only [Function.comp_apply, cp]
                  rw [Attrs.get_set_ne _ _ _ _ (by decide)]
                rw [this, hfil]
                rfl
              simp only [hfn']
              have hcl : ((cp m).attrs.get? "Class") = m.attrs.get? "Class" := by
                simp only [cp]; exact Attrs.get_set_ne _ _ _ _ (by decide)
              rw [hcl]
              split at hc
              · cases hc
              · rename_i hcl0
                simp only [hcl0, Bool.false_eq_true, if_false]
                rw [forE_ok_iff] at hc ⊢
                intro name hname
                have : name ≠ "GraphID" := fun e => hnames (e ▸ hname)
                simp only [cp]
                rw [checkJsonProp_set jsonOk m.attrs g' name this]
                exact hc name hname
        rw [hfor']
        -- every node and edge of the new store has a Class
        have hallc : (((s.delGraph g').merge
              { nodes := G0.nodes.map fun p => (fn p.1, p.2.set "GraphID" g'),
                edges := G0.edgesIter.map (ren fn) }).nodes.all (fun n => hasClass n.attrs) &&
            ((s.delGraph g').merge
              { nodes := G0.nodes.map fun p => (fn p.1, p.2.set "GraphID" g'),
                edges := G0.edgesIter.map (ren fn) }).edges.all (fun e => hasClass e.attrs)) = true := by
          simp only [Bool.and_eq_true, List.all_eq_true, Store.merge]
          constructor
          · intro n hn
            rcases List.mem_append.mp hn with h | h
            · exact hcn n (List.mem_filter.mp h).1
            · rw [hcopies] at h
              obtain ⟨m, hm, rfl⟩ := List.mem_map.mp h
              simp only [cp]
              rw [hasClass_set]
              exact hcn m (List.mem_filter.mp hm).1
          · intro e he
            rcases List.mem_append.mp he with h | h
            · exact hce e (List.mem_filter.mp h).1
            · obtain ⟨_, _, e1, he1, hat1, _⟩ := mem_iterFrom _ _ _ e h
              obtain ⟨e2, he2, rfl⟩ := List.mem_map.mp he1
              obtain ⟨_, _, e3, he3, hat3, _⟩ := mem_iterFrom G0.edges G0.keys [] e2 he2
              have hG0e : ∃ e4 ∈ s.edges, e3.attrs = e4.attrs := by
                unfold Store.extract at hG
                simp only at hG
                split at hG
                · cases hG
                · simp only [Option.some.injEq] at hG
                  rw [← hG] at he3
                  obtain ⟨_, _, e4, he4, hat4, _⟩ := mem_iterFrom _ _ _ e3 he3
                  exact ⟨e4, (List.mem_filter.mp he4).1, hat4⟩
              obtain ⟨e4, he4, hat4⟩ := hG0e
              rw [hat1]
              simp only [ren]
              rw [hat3, hat4]
              exact hce e4 he4
        exact if_pos hallc
      · cases hv

example : ∃ (s : Store) (names : List String), "GraphID" ∉ names ∧ names ≠ [] ∧ StoreInv s ∧
    validate names (fun t => t == "{\"core\": 4}") s (.str "g") = .ok () :=
  ⟨⟨[⟨1, [("GraphID", .str "g"), ("Class", .str "NetworkNode"), ("NodeID", .str "a"), ("Capacities", .str "{\"core\": 4}")]⟩,
      ⟨2, [("GraphID", .str "g"), ("Class", .str "Component"), ("NodeID", .str "b"), ("Labels", .str "")]⟩],
     [⟨2, 1, [("Class", .str "has")]⟩], 3⟩, ["Labels", "Capacities"], by decide, by decide, by decide, rfl⟩

/-! ### importing touches no other graph -/

theorem merge_frame (s1 : Store) (hlt : ∀ n ∈ s1.nodes, n.iid < s1.nextId) (g'' : Val) (T : Graph Nat)
    (htag : ∀ p ∈ T.nodes, p.2.get? "GraphID" ≠ some g'') (hge : ∀ k ∈ T.keys, s1.nextId ≤ k) :
    (s1.merge T).extract g'' = s1.extract g'' := by
  unfold Store.merge
  apply extract_append_other
  · intro n hn
    obtain ⟨p, hp, rfl⟩ := List.mem_map.mp hn
    exact htag p hp
  · intro e he hm
    obtain ⟨h1, _, _⟩ := mem_iterFrom T.edges T.keys [] e he
    obtain ⟨n, hn, hne⟩ := List.mem_map.mp hm
    have := hlt n (List.mem_filter.mp hn).1
    have := hge _ h1
    omega

theorem relabelFrom_keys_ge [DecidableEq κ] (G : Graph κ) (start : Nat) (at' : Attrs → Attrs) :
    ∀ k ∈ ({ Store.relabelFrom G start with nodes := (Store.relabelFrom G start).nodes.map fun p => (p.1, at' p.2) } : Graph Nat).keys,
      start ≤ k := by
  intro k hk
  simp only [Graph.keys, Store.relabelFrom, Graph.relabel, List.map_map, List.mem_map, Function.comp_apply] at hk
  obtain ⟨p, _, rfl⟩ := hk
  omega

theorem addGraph_frame [DecidableEq κ] (s : Store) (hs : StoreInv s) (g' g'' : Val) (hne : g'' ≠ g') (G : Graph κ) :
    (s.addGraph g' G).2.extract g'' = s.extract g'' := by
  unfold Store.addGraph
  simp only
  split
  · simp only
    rw [merge_frame (s.delGraph g') (delGraph_lt s g' hs).1 g'']
    · exact extract_delGraph_other s hs g'' g' hne
    · intro p hp
      simp only [List.mem_map] at hp
      obtain ⟨q, _, rfl⟩ := hp
      rw [Attrs.get_set]
      intro h
      exact hne (Option.some.inj h).symm
    · exact relabelFrom_keys_ge G _ (fun a => a.set "GraphID" g')
  · exact extract_delGraph_other s hs g'' g' hne

/-- **`import_frame` (reassigning entry points).**  Whatever document is imported under `g'` —
    valid or not, whether the call succeeds or raises (an import lacking `NodeID` raises after
    the old graph `g'` was deleted) — every other graph of the store is extracted unchanged. -/
theorem import_frame_string [DecidableEq κ] (s : Store) (hs : StoreInv s) (d : Doc κ) (g' g'' : Val) (hne : g'' ≠ g') :
    (importString s d g').2.extract g'' = s.extract g'' := by
  unfold importString
  cases readDoc d with
  | none => rfl
  | some G =>
    simp only
    split
    · rfl
    · have := addGraph_frame s hs g' g'' hne G
      cases hag : s.addGraph g' G with
      | mk r s' =>
        rw [hag] at this
        cases r <;> exact this

theorem getGraphId_ok [DecidableEq κ] (d : Doc κ) (g : Val) (h : getGraphId d = .ok g) :
    ∃ G, readDoc d = some G ∧ ∀ p ∈ G.nodes, p.2.get? "GraphID" = some g := by
  unfold getGraphId at h
  cases hr : readDoc d with
  | none => simp [hr] at h
  | some G =>
    refine ⟨G, rfl, ?_⟩
    simp only [hr] at h
    split at h
    · cases h
    · split at h
      · cases h
      · rename_i ids hids
        have hall := mapOpt_mem _ _ _ hids
        split at h
        · cases h
        · rename_i g0 rest
          split at h
          · rename_i hall'
            simp only [Except.ok.injEq] at h
            subst h
            intro p hp
            obtain ⟨v, hv, hm⟩ := hall p hp
            rw [hv]
            rcases List.mem_cons.mp hm with rfl | hm'
            · rfl
            · have := List.all_eq_true.mp hall' v hm'
              simp at this
              rw [this]
          · cases h

/-- **`import_frame` (direct entry points).**  A direct import either fails leaving the store as it
    was, or replaces exactly the graph whose id the document carries; every other graph is
    extracted unchanged. -/
theorem import_frame_direct [DecidableEq κ] (s : Store) (hs : StoreInv s) (d : Doc κ) (g'' : Val)
    (hne : ∀ g, (importDirect s d).1 = .ok g → g'' ≠ g) :
    (importDirect s d).2.extract g'' = s.extract g'' := by
  unfold importDirect at hne ⊢
  cases hg : getGraphId d with
  | error e => rfl
  | ok g =>
    obtain ⟨G, hr, hall⟩ := getGraphId_ok d g hg
    simp only [hg, hr] at hne ⊢
    have hne' := hne g rfl
    unfold Store.addGraphDirect
    simp only
    rw [merge_frame (s.delGraph g) (delGraph_lt s g hs).1 g'']
    · exact extract_delGraph_other s hs g'' g hne'
    · intro p hp
      simp only [Store.relabelFrom, Graph.relabel, List.mem_map] at hp
      obtain ⟨q, hq, rfl⟩ := hp
      rw [hall q hq]
      intro h
      exact hne' (Option.some.inj h).symm
    · have := relabelFrom_keys_ge G (s.delGraph g).nextId id
      simpa using this

/-! ### label markup -/

theorem labels_markup_node (ck : Option Nat) (n n' : GNode κ) (h : markNode ck n = .ok n') (hn : n.labels = none) :
    ∃ d ∈ n.data, some d.key = ck ∧ n'.labels = some (Gen.Serial.nodeLabelPrefix ++ d.val.pyStr) := by
  obtain ⟨d, hd, hk, _, rfl⟩ := markNode_labels ck n n' h hn
  exact ⟨d, hd, hk, rfl⟩

theorem labels_markup_edge (ck : Option Nat) (e e' : GEdge κ) (h : markEdge ck e = .ok e') (hn : e.label = none) :
    ∃ d ∈ e.data, some d.key = ck ∧ d.val.pyStr ≠ "" ∧ e'.label = some d.val.pyStr := by
  unfold markEdge classText at h
  rw [hn] at h
  cases ck with
  | none => simp at h
  | some k =>
    simp only at h
    cases hf : e.data.find? (fun d => d.key == k) with
    | none => simp [hf] at h
    | some d =>
      rw [hf] at h
      by_cases he : d.val.pyStr = ""
      · simp [he] at h
      · simp [he] at h
        refine ⟨d, List.mem_of_find?_eq_some hf, ?_, he, by rw [← h]⟩
        have := List.find?_some hf
        simp at this
        rw [this]

/-- the key `networkx_to_neo4j` reads the class from is a `<key attr.name="Class">` of that scope -/
theorem classKey_spec (keys : List GKey) (sc : Scope) (i : Nat) (h : classKey keys sc = some i) :
    ∃ k ∈ keys, k.id = i ∧ k.spec.name = "Class" ∧ k.spec.scope = sc := by
  unfold classKey at h
  cases hl : (keys.filter fun k => k.spec.name == "Class" && k.spec.scope == sc).getLast? with
  | none => simp [hl] at h
  | some k =>
    simp [hl] at h
    have hm := List.mem_of_getLast? hl
    have hf := List.mem_filter.mp hm
    simp at hf
    exact ⟨k, hf.1, h, hf.2.1, hf.2.2⟩

/-- **`labels_markup`.**  In every document `serialize_graph` emits (`toNeo4j` applied to the
    unlabelled output of `generate_graphml`) every node element carries
    `labels = ":GraphNode:" ++ text` and every edge element `label = text`, where `text` is the
    non-empty text of one of the element's own data elements whose key is the `Class` key of
    that scope. -/
theorem labels_markup (d d' : GDoc κ) (h : toNeo4j d = .ok d')
    (hn : ∀ n ∈ d.nodes, n.labels = none) (he : ∀ e ∈ d.edges, e.label = none) :
    (∀ n' ∈ d'.nodes, ∃ i x, classKey d.keys .node = some i ∧ x ∈ n'.data ∧ x.key = i ∧ x.val.pyStr ≠ "" ∧
        n'.labels = some (Gen.Serial.nodeLabelPrefix ++ x.val.pyStr)) ∧
    (∀ e' ∈ d'.edges, ∃ i x, classKey d.keys .edge = some i ∧ x ∈ e'.data ∧ x.key = i ∧ x.val.pyStr ≠ "" ∧
        e'.label = some x.val.pyStr) := by
  unfold toNeo4j at h
  cases hme : mapE (markEdge (classKey d.keys .edge)) d.edges with
  | error e => simp [hme] at h
  | ok es' =>
    cases hmn : mapE (markNode (classKey d.keys .node)) d.nodes with
    | error e => simp [hme, hmn] at h
    | ok ns' =>
      simp only [hme, hmn, Except.ok.injEq] at h
      subst h
      constructor
      · intro n' hn'
        obtain ⟨n, hnm, hmk⟩ := mapE_mem _ _ _ hmn n' hn'
        obtain ⟨x, hx, hk, hne, rfl⟩ := markNode_labels _ n n' hmk (hn n hnm)
        cases hc : classKey d.keys .node with
        | none => simp [hc] at hk
        | some i =>
          rw [hc] at hk
          exact ⟨i, x, rfl, hx, Option.some.inj hk, hne, rfl⟩
      · intro e' he'
        obtain ⟨e, hem, hmk⟩ := mapE_mem _ _ _ hme e' he'
        obtain ⟨x, hx, hk, hne, hl⟩ := labels_markup_edge _ e e' hmk (he e hem)
        obtain ⟨_, _, hd⟩ := markEdge_data _ e e' hmk
        cases hc : classKey d.keys .edge with
        | none => simp [hc] at hk
        | some i =>
          rw [hc] at hk
          exact ⟨i, x, rfl, hd ▸ hx, Option.some.inj hk, hne, hl⟩

end FimVerif.C01

/-! ### the disjoint store (round trip of the whole pipeline is differential only) -/
namespace FimVerif.C01
open FimVerif.GraphML
variable {κ : Type}

theorem DStore.lookup_put {β : Type} : ∀ (l : List (Val × β)) (k : Val) (v : β), (DStore.put l k v).lookup k = some v
  | [], k, v => by simp [DStore.put, List.lookup]
  | (k', v') :: t, k, v => by
    by_cases h : k' = k
    · simp [DStore.put, h, List.lookup]
    · have hb : (k == k') = false := by simpa using fun e : k = k' => h e.symm
      simp only [DStore.put, h, if_false, List.lookup_cons, hb]
      exact DStore.lookup_put t k v

/-- **disjoint store, `add_graph_direct`**: afterwards `extract_graph g` is the imported graph with
    node `k` renamed to `1 + position(k)`, attributes and edges unchanged -/
theorem dAddGraphDirect_extract [DecidableEq κ] (s : DStore) (g : Val) (G : Graph κ) (hw : GraphWF G) :
    ((s.addGraphDirect g G).extract g).1 = directCopy G 1 := by
  unfold DStore.extract DStore.addGraphDirect
  simp only [DStore.lookup_put]
  have := iter_relabelled G hw 1
  simp only [DStore.copyGraph, Store.relabelFrom, Graph.relabel, directCopy, Graph.edgesIter, Graph.keys,
    List.map_map, Function.comp_def] at this ⊢
  rw [Graph.mk.injEq]
  exact ⟨rfl, this⟩

/-- **disjoint store, `add_graph`** under an id that holds no (non-empty) graph: the import succeeds
    and `extract_graph g` is the stamped copy numbered from 1 -/
theorem dAddGraph_extract [DecidableEq κ] (s : DStore) (g : Val) (G : Graph κ) (hw : GraphWF G) (hid : HasNodeIds G)
    (hfree : ∀ old, s.graphs.lookup g = some old → old.nodes.isEmpty = true) :
    (s.addGraph g G).1 = .ok () ∧ ((s.addGraph g G).2.extract g).1 = stampedCopy G 1 g := by
  have hall : ((Store.relabelFrom G 1).nodes.all fun p => ((p.2.get? "NodeID").map Val.truthy).getD false) = true := by
    simp only [Store.relabelFrom, Graph.relabel, List.all_map, List.all_eq_true]
    intro p hp
    exact hid p hp
  have hgo : DStore.addGraph.go s g G =
      (.ok (), { graphs := DStore.put s.graphs g
                   { nodes := (Store.relabelFrom G 1).nodes.map fun p => (p.1, p.2.set "GraphID" g),
                     edges := iterFrom (Store.relabelFrom G 1).edges []
                       (((Store.relabelFrom G 1).nodes.map fun p => (p.1, p.2.set "GraphID" g)).map (·.1)) },
                 counters := DStore.put s.counters g (((Store.relabelFrom G 1).nodes.map fun p => (p.1, p.2.set "GraphID" g)).length + 1) }) := by
    unfold DStore.addGraph.go
    simp only [disjointFirst_eval, hall, if_true]
    rfl
  have hag : s.addGraph g G = DStore.addGraph.go s g G := by
    unfold DStore.addGraph
    cases hl : s.graphs.lookup g with
    | none => rfl
    | some old => simp [hfree old hl]
  rw [hag, hgo]
  refine ⟨rfl, ?_⟩
  unfold DStore.extract
  simp only [DStore.lookup_put]
  have hit := iter_relabelled G hw 1
  simp only [DStore.copyGraph, Store.relabelFrom, Graph.relabel, stampedCopy, Graph.edgesIter, Graph.keys,
    List.map_map, Function.comp_def] at hit ⊢
  rw [Graph.mk.injEq]
  refine ⟨rfl, ?_⟩
  show iterFrom (iterFrom (List.map (ren fun k => 1 + List.idxOf k (List.map (fun x => x.fst) G.nodes))
      (iterFrom G.edges [] (List.map (fun x => x.fst) G.nodes))) []
      (List.map (fun x => 1 + List.idxOf x.fst (List.map (fun x => x.fst) G.nodes)) G.nodes)) []
      (List.map (fun x => 1 + List.idxOf x.fst (List.map (fun x => x.fst) G.nodes)) G.nodes) = _
  rw [hit, hit]

end FimVerif.C01

/-! ## Topology level: `Topology.load`, constructors, clone; the disjoint store's round trip; whole sessions

`load` is interpreted from the plan `gen/serial.py` reads out of `Topology.load` / `AdvertizedTopology.load` on every
run (`Gen.Serial.topologyLoad`, `advertizedLoad`). The theorems are proved for *every* plan that passes the decidable
check `SafePlan`; `repo_plans_safe` (by `decide` on the generated values) is where they meet the code. -/
namespace FimVerif.C01
open FimVerif.GraphML FimVerif.Serial FimVerif.SerialSpec


/-- reading the document `serialize_graph` emits for a graph that is already in iteration order gives the graph back -/
theorem readDoc_serializeGraph (H : Graph Nat) (hit : H.edgesIter = H.edges)
    (f : Fmt) (hk : f = .graphml → KeysNodup H) (hr : f = .json → NoReserved H)
    (doc : Doc Nat) (hser : serializeGraph H f = .ok doc) : readDoc doc = some H := by
  unfold serializeGraph at hser
  cases f with
  | graphml =>
    simp only at hser
    cases h1 : toGraphML H with
    | error e => simp [h1] at hser
    | ok d =>
      cases h2 : toNeo4j d with
      | error e => simp [h1, h2] at hser
      | ok d' =>
        simp only [h1, h2, Except.ok.injEq] at hser
        subst hser
        have := roundtrip_graphml_doc H (hk rfl) d d' h1 h2
        have he : iterFrom H.edgesIter [] H.keys = H.edges := by
          rw [hit]; exact hit
        simp only [readDoc, this, he]
        rfl
  | json =>
    simp only [Except.ok.injEq] at hser
    subst hser
    have := roundtrip_json_doc H (hr rfl)
    simp only [readDoc, this, hit]
    rfl

theorem copyGraph_keys (G : Graph Nat) : (DStore.copyGraph G).keys = G.keys := rfl

theorem copyGraph_iter (G : Graph Nat) (hnd : G.keys.Nodup) : (DStore.copyGraph G).edgesIter = (DStore.copyGraph G).edges := by
  show iterFrom (iterFrom G.edges [] G.keys) [] G.keys = iterFrom G.edges [] G.keys
  exact iter_idem _ _ hnd

theorem copyGraph_wf (G : Graph Nat) (hw : GraphWF G) : GraphWF (DStore.copyGraph G) :=
  ⟨hw.1, fun e he => edgesIter_ends G hw e he⟩

/-- `copy()` of a graph that is already in iteration order is the graph itself -/
theorem copyGraph_id (G : Graph Nat) (hit : G.edgesIter = G.edges) : DStore.copyGraph G = G := by
  cases G with
  | mk ns es =>
    simp only [DStore.copyGraph, Graph.mk.injEq, true_and]
    exact hit

theorem DStore.lookup_put_ne {β : Type} : ∀ (l : List (Val × β)) (k k' : Val) (v : β), k' ≠ k →
    (DStore.put l k v).lookup k' = l.lookup k'
  | [], k, k', v, h => by
    have hb : (k' == k) = false := by simpa using h
    simp [DStore.put, List.lookup, hb]
  | (k0, v0) :: t, k, k', v, h => by
    by_cases h0 : k0 = k
    · subst h0
      have hb : (k' == k0) = false := by simpa using h
      simp [DStore.put, List.lookup, hb]
    · simp only [DStore.put, h0, if_false, List.lookup_cons]
      cases hk : (k' == k0) with
      | true => rfl
      | false => exact DStore.lookup_put_ne t k k' v h

instance {κ : Type} [DecidableEq κ] (G : Graph κ) : Decidable (GraphWF G) := by unfold GraphWF Graph.keys; exact inferInstance

/-- the invariant of one stored graph of the disjoint store -/
def DGraphOk (g : Val) (G : Graph Nat) : Prop :=
  GraphWF G ∧ ∀ p ∈ G.nodes, p.2.get? "GraphID" = some g

instance (g : Val) (G : Graph Nat) : Decidable (DGraphOk g G) := by unfold DGraphOk; exact inferInstance

/-- **disjoint store: reading a model's own serialization gives the stored graph back** (as `extract_graph`
    returns it); the store itself is not changed by serializing a graph that is present -/
theorem dreadDoc_serialize (s : DStore) (g : Val) (G : Graph Nat) (hl : s.graphs.lookup g = some G) (hw : GraphWF G)
    (f : Fmt) (hk : f = .graphml → KeysNodup (DStore.copyGraph G)) (hr : f = .json → NoReserved (DStore.copyGraph G))
    (doc : Doc Nat) (hser : (dSerialize s g f).1 = .ok doc) :
    (dSerialize s g f).2 = s ∧ readDoc doc = some (DStore.copyGraph G) := by
  have he : s.extract g = (DStore.copyGraph G, s) := by
    unfold DStore.extract; rw [hl]
  unfold dSerialize at hser ⊢
  rw [he] at hser ⊢
  simp only at hser ⊢
  exact ⟨trivial, readDoc_serializeGraph (DStore.copyGraph G) (copyGraph_iter G hw.1) f hk hr doc hser⟩

theorem dStore_hne {G : Graph Nat} (hne : G.nodes ≠ []) : (DStore.copyGraph G).nodes ≠ [] := hne

/-- **disjoint store, round trip through the direct entry points** (`import_graph_from_string_direct` /
    `_file_direct`, what `Topology.load` uses): the id found in the text is `g`, the import succeeds and the graph held
    under `g` afterwards is the serialized one with node `k` renamed to `1 + position(k)`; attributes (names, values,
    value types, order) and edges with their attributes unchanged — whether or not `g` was still held (it is replaced) -/
theorem droundtrip_import_direct (s : DStore) (g : Val) (G : Graph Nat) (hl : s.graphs.lookup g = some G)
    (hok : DGraphOk g G) (hne : G.nodes ≠ [])
    (f : Fmt) (hk : f = .graphml → KeysNodup (DStore.copyGraph G)) (hr : f = .json → NoReserved (DStore.copyGraph G))
    (doc : Doc Nat) (hser : (dSerialize s g f).1 = .ok doc) :
    (dImportDirect s doc).1 = .ok g ∧ ((dImportDirect s doc).2.extract g).1 = directCopy (DStore.copyGraph G) 1 := by
  obtain ⟨_, hread⟩ := dreadDoc_serialize s g G hl hok.1 f hk hr doc hser
  have hgid := getGraphId_of_all doc (DStore.copyGraph G) hread hne g hok.2
  unfold dImportDirect
  rw [hgid]
  simp only [hread]
  exact ⟨trivial, dAddGraphDirect_extract s g (DStore.copyGraph G) (copyGraph_wf G hok.1)⟩

/-- **disjoint store, round trip through `import_graph_from_string` / `_file`** under an id `g'` that holds no
    (non-empty) graph: stamped copy numbered from 1 -/
theorem droundtrip_import_string (s : DStore) (g g' : Val) (G : Graph Nat) (hl : s.graphs.lookup g = some G)
    (hw : GraphWF G) (hid : HasNodeIds G) (hne : G.nodes ≠ [])
    (hfree : ∀ old, s.graphs.lookup g' = some old → old.nodes.isEmpty = true)
    (f : Fmt) (hk : f = .graphml → KeysNodup (DStore.copyGraph G)) (hr : f = .json → NoReserved (DStore.copyGraph G))
    (doc : Doc Nat) (hser : (dSerialize s g f).1 = .ok doc) :
    (dImportString s doc g').1 = .ok g' ∧
    ((dImportString s doc g').2.extract g').1 = stampedCopy (DStore.copyGraph G) 1 g' := by
  obtain ⟨_, hread⟩ := dreadDoc_serialize s g G hl hw f hk hr doc hser
  obtain ⟨h1, h2⟩ := dAddGraph_extract s g' (DStore.copyGraph G) (copyGraph_wf G hw) hid hfree
  unfold dImportString
  rw [hread]
  have hemp : (DStore.copyGraph G).nodes.isEmpty = false := by
    show G.nodes.isEmpty = false
    cases hn : G.nodes with
    | nil => exact absurd hn hne
    | cons a t => rfl
  simp only [hemp, Bool.false_eq_true, if_false]
  cases hag : s.addGraph g' (DStore.copyGraph G) with
  | mk r s' =>
    rw [hag] at h1 h2
    simp only at h1 h2
    subst h1
    exact ⟨rfl, h2⟩

/-- **the disjoint store skips an import under an id that is still held** (`add_graph`: "Attempting to insert a graph
    with the same GraphID, skipping"): the call reports success and the store is exactly as before -/
theorem dimport_string_present {κ : Type} [DecidableEq κ] (s : DStore) (d : Doc κ) (G : Graph κ) (hr : readDoc d = some G)
    (hne : G.nodes ≠ []) (g' : Val) (old : Graph Nat) (hl : s.graphs.lookup g' = some old) (hold : old.nodes ≠ []) :
    dImportString s d g' = (.ok g', s) := by
  unfold dImportString
  rw [hr]
  have hemp : G.nodes.isEmpty = false := by
    cases hn : G.nodes with
    | nil => exact absurd hn hne
    | cons a t => rfl
  have hold' : old.nodes.isEmpty = false := by
    cases hn : old.nodes with
    | nil => exact absurd hn hold
    | cons a t => rfl
  simp only [hemp, Bool.false_eq_true, if_false, DStore.addGraph, hl, hold', Bool.not_false, if_true]

theorem dAddGraph_frame {κ : Type} [DecidableEq κ] (s : DStore) (g' g'' : Val) (hne : g'' ≠ g') (G : Graph κ) :
    (s.addGraph g' G).2.graphs.lookup g'' = s.graphs.lookup g'' := by
  have hgo : (DStore.addGraph.go s g' G).2.graphs.lookup g'' = s.graphs.lookup g'' := by
    unfold DStore.addGraph.go
    simp only
    split
    · exact DStore.lookup_put_ne _ _ _ _ hne
    · rfl
  unfold DStore.addGraph
  split
  · split
    · rfl
    · exact hgo
  · exact hgo

/-- **`import_frame`, disjoint store (reassigning entry points)**: whatever text is imported under `g'`, every other
    entry of the store is the same graph object as before -/
theorem dimport_frame_string {κ : Type} [DecidableEq κ] (s : DStore) (d : Doc κ) (g' g'' : Val) (hne : g'' ≠ g') :
    (dImportString s d g').2.graphs.lookup g'' = s.graphs.lookup g'' := by
  unfold dImportString
  cases readDoc d with
  | none => rfl
  | some G =>
    simp only
    split
    · rfl
    · have := dAddGraph_frame s g' g'' hne G
      cases hag : s.addGraph g' G with
      | mk r s' =>
        rw [hag] at this
        cases r <;> exact this

/-- **`import_frame`, disjoint store (direct entry points)** -/
theorem dimport_frame_direct {κ : Type} [DecidableEq κ] (s : DStore) (d : Doc κ) (g'' : Val)
    (hne : ∀ g, (dImportDirect s d).1 = .ok g → g'' ≠ g) :
    (dImportDirect s d).2.graphs.lookup g'' = s.graphs.lookup g'' := by
  unfold dImportDirect at hne ⊢
  cases hg : getGraphId d with
  | error e => rfl
  | ok g =>
    obtain ⟨G, hr, _⟩ := getGraphId_ok d g hg
    simp only [hg, hr] at hne ⊢
    exact DStore.lookup_put_ne _ _ _ _ (hne g rfl)

/-- the full statement for the reassigning entry points on the disjoint store (no `hfree`) is false for the code as
    it is: importing a saved text under an id that still holds an (edited) model leaves the edited model in place
    (known finding `C01:disjoint:add_graph:keeps-edited-model-instead-of-saved-text`, `corpus/C01/save_edit_reload.json`) -/
theorem droundtrip_import_string_counterexample :
    ∃ (s : DStore) (g g' : Val) (G : Graph Nat) (doc : Doc Nat), s.graphs.lookup g = some G ∧ GraphWF G ∧ HasNodeIds G ∧
      (dSerialize s g .json).1 = .ok doc ∧
      ((dImportString s doc g').2.extract g').1 ≠ stampedCopy (DStore.copyGraph G) 1 g' :=
  ⟨⟨[(.str "g", ⟨[(1, [("GraphID", .str "g"), ("NodeID", .str "a"), ("Class", .str "NetworkNode")])], []⟩),
      (.str "h", ⟨[(1, [("GraphID", .str "h"), ("NodeID", .str "edited"), ("Class", .str "NetworkNode")])], []⟩)], []⟩,
   .str "g", .str "h", _, _, rfl, by decide, by decide, rfl, by decide⟩

/-! ### the shared store's invariant is kept by every import / load / clone / delete -/


theorem storeInv_empty : StoreInv Store.empty := by
  refine ⟨List.nodup_nil, ?_, ?_⟩ <;> intro x hx <;> cases hx

theorem storeInv_delGraph (s : Store) (hs : StoreInv s) (g : Val) : StoreInv (s.delGraph g) := by
  refine ⟨?_, ?_, ?_⟩
  · exact (List.Sublist.map _ List.filter_sublist).nodup hs.1
  · intro n hn
    exact hs.2.1 n (List.mem_filter.mp hn).1
  · intro e he
    have hf := List.mem_filter.mp he
    obtain ⟨ha, hb⟩ := hs.2.2 e hf.1
    have hcond := hf.2
    simp only [Bool.and_eq_true, Bool.not_eq_true', List.contains_eq_mem, decide_eq_false_iff_not] at hcond
    have key : ∀ x, x ∈ s.nodes.map (·.iid) → x ∉ (s.graphNodes g).map (·.iid) → x ∈ (s.delGraph g).nodes.map (·.iid) := by
      intro x hx hnd
      obtain ⟨n, hn, rfl⟩ := List.mem_map.mp hx
      apply List.mem_map_of_mem
      simp only [Store.delGraph, List.mem_filter, Bool.not_eq_true']
      refine ⟨hn, ?_⟩
      cases hg : Store.inGraph g n with
      | false => rfl
      | true =>
        exfalso
        apply hnd
        exact List.mem_map_of_mem (List.mem_filter.mpr ⟨hn, hg⟩)
    exact ⟨key _ ha hcond.1, key _ hb hcond.2⟩

/-- merging a graph whose node keys are distinct, lie in `[start_id, start_id + n)` and whose edges run between its
    own nodes keeps the store invariant -/
theorem storeInv_merge (s1 : Store) (hs : StoreInv s1) (T : Graph Nat) (hnd : T.keys.Nodup)
    (hrange : ∀ k ∈ T.keys, s1.nextId ≤ k ∧ k < s1.nextId + T.nodes.length)
    (hends : ∀ e ∈ T.edges, e.a ∈ T.keys ∧ e.b ∈ T.keys) : StoreInv (s1.merge T) := by
  have hids : (s1.merge T).nodes.map (·.iid) = s1.nodes.map (·.iid) ++ T.keys := by
    simp [Store.merge, Graph.keys, List.map_map, Function.comp_def]
  refine ⟨?_, ?_, ?_⟩
  · rw [hids]
    refine List.nodup_append.mpr ⟨hs.1, hnd, ?_⟩
    intro a ha b hb hab
    obtain ⟨n, hn, rfl⟩ := List.mem_map.mp ha
    have := hs.2.1 n hn
    have := (hrange b hb).1
    omega
  · intro n hn
    simp only [Store.merge, List.mem_append, List.mem_map] at hn ⊢
    rcases hn with h | ⟨p, hp, rfl⟩
    · have := hs.2.1 n h; omega
    · have := (hrange p.1 (List.mem_map_of_mem (f := (·.1)) hp)).2
      exact this
  · intro e he
    rw [hids]
    simp only [Store.merge, List.mem_append] at he
    rcases he with h | h
    · obtain ⟨ha, hb⟩ := hs.2.2 e h
      exact ⟨List.mem_append_left _ ha, List.mem_append_left _ hb⟩
    · obtain ⟨h1, _, e0, he0, _, hor⟩ := mem_iterFrom T.edges T.keys [] e h
      refine ⟨List.mem_append_right _ h1, List.mem_append_right _ ?_⟩
      rcases hor with ⟨_, hb⟩ | ⟨_, hb⟩
      · exact hb ▸ (hends e0 he0).2
      · exact hb ▸ (hends e0 he0).1

theorem nodup_map_on {α β : Type} (f : α → β) : ∀ l : List α, l.Nodup → (∀ x ∈ l, ∀ y ∈ l, f x = f y → x = y) → (l.map f).Nodup
  | [], _, _ => List.nodup_nil
  | a :: t, hnd, hinj => by
    have hnd' := List.nodup_cons.mp hnd
    simp only [List.map_cons, List.nodup_cons]
    refine ⟨?_, nodup_map_on f t hnd'.2 (fun x hx y hy => hinj x (List.mem_cons_of_mem _ hx) y (List.mem_cons_of_mem _ hy))⟩
    intro hm
    obtain ⟨x, hx, hfx⟩ := List.mem_map.mp hm
    have := hinj x (List.mem_cons_of_mem _ hx) a List.mem_cons_self hfx
    subst this
    exact hnd'.1 hx

theorem relabelFrom_ok {κ : Type} [DecidableEq κ] (G : Graph κ) (hw : GraphWF G) (start : Nat) (at' : Attrs → Attrs) :
    let T : Graph Nat := { Store.relabelFrom G start with nodes := (Store.relabelFrom G start).nodes.map fun p => (p.1, at' p.2) }
    T.keys.Nodup ∧ (∀ k ∈ T.keys, start ≤ k ∧ k < start + T.nodes.length) ∧ (∀ e ∈ T.edges, e.a ∈ T.keys ∧ e.b ∈ T.keys) := by
  have hkeys : ({ Store.relabelFrom G start with nodes := (Store.relabelFrom G start).nodes.map fun p => (p.1, at' p.2) } : Graph Nat).keys
      = G.keys.map fun k => start + G.keys.idxOf k := by
    simp [Graph.keys, Store.relabelFrom, Graph.relabel, List.map_map, Function.comp_def]
  refine ⟨?_, ?_, ?_⟩
  · rw [hkeys]
    refine nodup_map_on _ _ hw.1 ?_
    intro x hx y hy h
    exact idxOf_inj G.keys x hx y hy (by omega)
  · intro k hk
    rw [hkeys] at hk
    obtain ⟨x, hx, rfl⟩ := List.mem_map.mp hk
    have := List.idxOf_lt_length_of_mem hx
    simp only [Store.relabelFrom, Graph.relabel, List.length_map, Graph.keys] at this ⊢
    omega
  · intro e he
    rw [hkeys]
    simp only [Store.relabelFrom, Graph.relabel] at he
    obtain ⟨e0, he0, rfl⟩ := List.mem_map.mp he
    obtain ⟨ha, hb⟩ := edgesIter_ends G hw e0 he0
    exact ⟨List.mem_map_of_mem (f := fun k => start + G.keys.idxOf k) ha,
           List.mem_map_of_mem (f := fun k => start + G.keys.idxOf k) hb⟩

theorem storeInv_addGraphDirect {κ : Type} [DecidableEq κ] (s : Store) (hs : StoreInv s) (g : Val) (G : Graph κ) (hw : GraphWF G) :
    StoreInv (s.addGraphDirect g G) := by
  obtain ⟨h1, h2, h3⟩ := relabelFrom_ok G hw (s.delGraph g).nextId id
  unfold Store.addGraphDirect
  apply storeInv_merge _ (storeInv_delGraph s hs g)
  · simpa using h1
  · simpa using h2
  · simpa using h3

theorem storeInv_addGraph {κ : Type} [DecidableEq κ] (s : Store) (hs : StoreInv s) (g : Val) (G : Graph κ) (hw : GraphWF G) :
    StoreInv (s.addGraph g G).2 := by
  obtain ⟨h1, h2, h3⟩ := relabelFrom_ok G hw (s.delGraph g).nextId (fun a => a.set "GraphID" g)
  unfold Store.addGraph
  simp only
  split
  · exact storeInv_merge _ (storeInv_delGraph s hs g) _ h1 h2 h3
  · exact storeInv_delGraph s hs g

/-! ### the store invariant over whole sessions -/

/-- a text is *simple* when the graph the readers make of it has distinct node keys and edges between declared nodes
    (the domain on which the reader models are exact; every text the library serializes is simple: `serialize_docWF`) -/
def DocWF {κ : Type} [DecidableEq κ] (d : Doc κ) : Prop := ∀ G, readDoc d = some G → GraphWF G

theorem storeInv_importString {κ : Type} [DecidableEq κ] (s : Store) (hs : StoreInv s) (d : Doc κ) (hd : DocWF d) (g : Val) :
    StoreInv (importString s d g).2 := by
  unfold importString
  cases hr : readDoc d with
  | none => exact hs
  | some G =>
    simp only
    split
    · exact hs
    · have := storeInv_addGraph s hs g G (hd G hr)
      cases hag : s.addGraph g G with
      | mk r s' =>
        rw [hag] at this
        cases r <;> exact this

theorem storeInv_importDirect {κ : Type} [DecidableEq κ] (s : Store) (hs : StoreInv s) (d : Doc κ) (hd : DocWF d) :
    StoreInv (importDirect s d).2 := by
  unfold importDirect
  cases getGraphId d with
  | error e => exact hs
  | ok g =>
    simp only
    cases hr : readDoc d with
    | none => exact hs
    | some G => exact storeInv_addGraphDirect s hs g G (hd G hr)

theorem storeInv_clone (s : Store) (hs : StoreInv s) (g g' : Val) : StoreInv (cloneGraph s g g').2 := by
  unfold cloneGraph
  cases hG : s.extract g with
  | none => exact hs
  | some G =>
    obtain ⟨_, hw, _, _, _⟩ := extract_spec s hs g G hG
    exact storeInv_addGraph s hs g' _ ⟨hw.1, fun e he => edgesIter_ends G hw e he⟩

/-- every text the library serializes from a store satisfying the invariant is simple -/
theorem serialize_docWF (s : Store) (hs : StoreInv s) (g : Val) (G0 : Graph Nat) (hG : s.extract g = some G0)
    (f : Fmt) (hk : f = .graphml → KeysNodup G0) (hr : f = .json → NoReserved G0)
    (doc : Doc Nat) (hser : serialize s g f = .ok (some doc)) : DocWF doc := by
  intro G hread
  rw [readDoc_serialize s hs g G0 hG f hk hr doc hser] at hread
  obtain ⟨_, hw, _, _, _⟩ := extract_spec s hs g G0 hG
  exact (Option.some.inj hread) ▸ hw


/-! ### plans that are safe, and what `load` does under any safe plan -/

def isRemember : LoadStep → Bool
  | .remember => true
  | _ => false

def isRebind : LoadStep → Bool
  | .rebind => true
  | _ => false

/-- a statement allowed after the import: rebinding, remembering, and `delete_graph()` of the held / remembered
    model *under the `ids differ` guard* (`bound`: a model was remembered before the import) -/
def postOk (bound : Bool) : LoadStep → Bool
  | .rebind => true
  | .remember => true
  | .delete .held true => true
  | .delete .remembered true => bound
  | _ => false

/-- split at the import -/
def splitPlan : List LoadStep → Option (List LoadStep × List LoadStep)
  | [] => none
  | .importDoc :: post => some ([], post)
  | s :: rest => (splitPlan rest).map fun p => (s :: p.1, p.2)

/-- **the decidable safety check of a load plan**: nothing but remembering the held model before the single import; after
    it the topology is rebound to the imported graph, and a model is deleted only under the guard that its id differs
    from the imported one; file / string keep the graph id, a new id goes through `import_graph_from_string` -/
def SafePlan (sp : LoadSpec) : Bool :=
  (match splitPlan sp.steps with
   | none => false
   | some (pre, post) => pre.all isRemember && post.all (postOk !pre.isEmpty) && post.any isRebind) &&
  sp.onFile == some .fileDirect && sp.onString == some .stringDirect &&
  (sp.onStringNewId == none || sp.onStringNewId == some .string)

/-- both plans read from the repo pass the check -/
theorem repo_plans_safe : SafePlan FimVerif.Gen.Serial.topologyLoad = true ∧ SafePlan FimVerif.Gen.Serial.advertizedLoad = true := by
  decide

theorem splitPlan_spec : ∀ (steps pre post : List LoadStep), splitPlan steps = some (pre, post) → steps = pre ++ .importDoc :: post
  | [], _, _, h => by simp [splitPlan] at h
  | s :: rest, pre, post, h => by
    cases s with
    | importDoc =>
      simp only [splitPlan, Option.some.injEq, Prod.mk.injEq] at h
      obtain ⟨rfl, rfl⟩ := h
      rfl
    | rebind =>
      simp only [splitPlan, Option.map_eq_some_iff] at h
      obtain ⟨⟨p1, p2⟩, hp, he⟩ := h
      simp only [Prod.mk.injEq] at he
      obtain ⟨rfl, rfl⟩ := he
      rw [splitPlan_spec rest p1 p2 hp]; rfl
    | remember =>
      simp only [splitPlan, Option.map_eq_some_iff] at h
      obtain ⟨⟨p1, p2⟩, hp, he⟩ := h
      simp only [Prod.mk.injEq] at he
      obtain ⟨rfl, rfl⟩ := he
      rw [splitPlan_spec rest p1 p2 hp]; rfl
    | delete w b =>
      simp only [splitPlan, Option.map_eq_some_iff] at h
      obtain ⟨⟨p1, p2⟩, hp, he⟩ := h
      simp only [Prod.mk.injEq] at he
      obtain ⟨rfl, rfl⟩ := he
      rw [splitPlan_spec rest p1 p2 hp]; rfl

section
variable {σ κ : Type}

/-- the statements before the import only remember the held model -/
theorem runSteps_pre (ops : StoreOps σ κ) (entry : Entry) (doc : Doc κ) (newId : Val) (s : σ) (held : Val) :
    ∀ (pre rest : List LoadStep) (r : Option Val), pre.all isRemember = true →
      runSteps ops entry doc newId (pre ++ rest) ⟨s, held, r, none⟩ =
        runSteps ops entry doc newId rest ⟨s, held, if pre.isEmpty then r else some held, none⟩
  | [], rest, r, _ => rfl
  | st :: pre, rest, r, h => by
    simp only [List.all_cons, Bool.and_eq_true] at h
    cases st with
    | remember =>
      simp only [List.cons_append, runSteps, stepLoad]
      rw [runSteps_pre ops entry doc newId s held pre rest (some held) h.2]
      cases pre <;> rfl
    | importDoc => simp [isRemember] at h
    | rebind => simp [isRemember] at h
    | delete w b => simp [isRemember] at h

/-- what holds between the import and the end of `load` -/
structure PostInv (P : σ → Prop) (g held0 : Val) (bound : Bool) (st : LState σ) : Prop where
  imp : st.imported = some g
  held : st.held = g ∨ st.held = held0
  rem : ∀ r, st.remembered = some r → r = g ∨ r = held0
  bnd : bound = true → st.remembered.isSome = true
  store : P st.store

theorem runSteps_post (ops : StoreOps σ κ) (entry : Entry) (doc : Doc κ) (newId : Val) (P : σ → Prop) (g held0 : Val) (bound : Bool)
    (hdel : ∀ s, P s → held0 ≠ g → P (ops.delGraph s held0)) :
    ∀ (post : List LoadStep) (st : LState σ), post.all (postOk bound) = true → PostInv P g held0 bound st →
      ∃ st', runSteps ops entry doc newId post st = (.ok (), st') ∧ PostInv P g held0 bound st' ∧
        ((post.any isRebind = true ∨ st.held = g) → st'.held = g)
  | [], st, _, hinv => ⟨st, rfl, hinv, fun h => h.elim (fun h => by simp at h) (fun h => h)⟩
  | step :: post, st, hok, hinv => by
    simp only [List.all_cons, Bool.and_eq_true] at hok
    obtain ⟨hstep, hrest⟩ := hok
    -- one step keeps the invariant
    have key : ∃ st1, stepLoad ops entry doc newId st step = (.ok (), st1) ∧ PostInv P g held0 bound st1 ∧
        ((isRebind step = true ∨ st.held = g) → st1.held = g) := by
      cases step with
      | importDoc => simp [postOk] at hstep
      | rebind =>
        refine ⟨{ st with held := g }, ?_, ⟨hinv.imp, Or.inl rfl, hinv.rem, hinv.bnd, hinv.store⟩, fun _ => rfl⟩
        simp only [stepLoad, hinv.imp]
      | remember =>
        refine ⟨{ st with remembered := some st.held }, rfl, ⟨hinv.imp, hinv.held, ?_, fun _ => rfl, hinv.store⟩, ?_⟩
        · intro r hr
          simp only [Option.some.injEq] at hr
          exact hr ▸ hinv.held
        · intro h
          rcases h with h | h
          · simp [isRebind] at h
          · exact h
      | delete w b =>
        have hb : b = true := by
          cases w <;> cases b <;> simp_all [postOk]
        subst hb
        -- the target is the held or the remembered model: its id is g or held0
        have htarget : ∃ id, st.pick w = some id ∧ (id = g ∨ id = held0) := by
          cases w with
          | held => exact ⟨st.held, rfl, hinv.held⟩
          | remembered =>
            have hbound : bound = true := by simpa [postOk] using hstep
            have := hinv.bnd hbound
            cases hr : st.remembered with
            | none => simp [hr] at this
            | some r => exact ⟨r, by simp [LState.pick, hr], hinv.rem r hr⟩
          | imported => simp [postOk] at hstep
        obtain ⟨id, hpick, hid⟩ := htarget
        by_cases hg : id = g
        · refine ⟨st, ?_, hinv, fun h => h.elim (fun h => by simp [isRebind] at h) (fun h => h)⟩
          simp only [stepLoad, hpick, hinv.imp, if_true, hg]
        · have hid0 : id = held0 := hid.elim (fun h => absurd h hg) (fun h => h)
          refine ⟨{ st with store := ops.delGraph st.store id }, ?_, ⟨hinv.imp, hinv.held, hinv.rem, hinv.bnd, ?_⟩,
            fun h => h.elim (fun h => by simp [isRebind] at h) (fun h => h)⟩
          · simp only [stepLoad, hpick, hinv.imp, if_true, hg, if_false]
          · show P (ops.delGraph st.store id)
            rw [hid0]
            exact hdel st.store hinv.store (fun h => hg (hid0.trans h))
    obtain ⟨st1, hs1, hinv1, hheld1⟩ := key
    obtain ⟨st', hs', hinv', hheld'⟩ := runSteps_post ops entry doc newId P g held0 bound hdel post st1 hrest hinv1
    refine ⟨st', ?_, hinv', ?_⟩
    · simp only [runSteps, hs1]
      exact hs'
    · intro h
      apply hheld'
      simp only [List.any_cons, Bool.or_eq_true] at h
      rcases h with (h | h) | h
      · exact Or.inr (hheld1 (Or.inl h))
      · exact Or.inl h
      · exact Or.inr (hheld1 (Or.inr h))

/-- **`load` under any safe plan**: when the importer call succeeds with id `g` and leaves a store satisfying `P` (any
    property of the store that deleting the previously held graph — of another id — preserves), `load` succeeds, the
    topology holds `g`, and `P` still holds -/
theorem load_safe (ops : StoreOps σ κ) (sp : LoadSpec) (hsafe : SafePlan sp = true) (shape : Shape)
    (s : σ) (held newId : Val) (doc : Doc κ) (g : Val) (s1 : σ) (P : σ → Prop)
    (himp : (match shape with
      | .stringNewId => sp.onStringNewId = some .string ∧ ops.importString s doc newId = (.ok g, s1)
      | _ => ops.importDirect s doc = (.ok g, s1)))
    (hP : P s1) (hdel : ∀ s, P s → held ≠ g → P (ops.delGraph s held)) :
    ∃ s', load ops sp s held shape doc newId = (.ok g, s', g) ∧ P s' := by
  unfold SafePlan at hsafe
  simp only [Bool.and_eq_true, beq_iff_eq, Bool.or_eq_true] at hsafe
  obtain ⟨⟨⟨hsteps, hfile⟩, hstring⟩, hnew⟩ := hsafe
  cases hsplit : splitPlan sp.steps with
  | none => simp [hsplit] at hsteps
  | some pp =>
    obtain ⟨pre, post⟩ := pp
    simp only [hsplit, Bool.and_eq_true] at hsteps
    obtain ⟨⟨hpre, hpost⟩, hreb⟩ := hsteps
    have hst := splitPlan_spec sp.steps pre post hsplit
    -- the entry reached and what its call returns
    have hentry : ∃ entry, sp.entry shape = some entry ∧
        (if entry.direct then ops.importDirect s doc else ops.importString s doc newId) = (.ok g, s1) := by
      cases shape with
      | file => exact ⟨.fileDirect, hfile, himp⟩
      | string => exact ⟨.stringDirect, hstring, himp⟩
      | stringNewId => exact ⟨.string, himp.1, himp.2⟩
    obtain ⟨entry, he, hcall⟩ := hentry
    unfold load
    rw [he, hst]
    simp only
    rw [runSteps_pre ops entry doc newId s held pre _ none hpre]
    simp only [runSteps, stepLoad, hcall]
    have hinv : PostInv P g held (!pre.isEmpty)
        ⟨s1, held, if pre.isEmpty then none else some held, some g⟩ := by
      refine ⟨rfl, Or.inr rfl, ?_, ?_, hP⟩
      · intro r hr
        cases hpe : pre.isEmpty <;> simp [hpe] at hr
        exact Or.inr hr.symm
      · intro hb
        cases hpe : pre.isEmpty <;> simp [hpe] at hb ⊢
    obtain ⟨st', hrun, hinv', hheld⟩ := runSteps_post ops entry doc newId P g held (!pre.isEmpty) hdel post _ hpost hinv
    rw [hrun]
    have hh : st'.held = g := hheld (Or.inl hreb)
    exact ⟨st'.store, by simp only [hh], hinv'.store⟩

/-- under any safe plan a failing importer call makes `load` fail with the store the call left and the topology
    still holding what it held -/
theorem load_safe_error (ops : StoreOps σ κ) (sp : LoadSpec) (hsafe : SafePlan sp = true) (shape : Shape)
    (s : σ) (held newId : Val) (doc : Doc κ) (e : String) (s1 : σ)
    (himp : (match shape with
      | .stringNewId => sp.onStringNewId = some .string ∧ ops.importString s doc newId = (.error e, s1)
      | _ => ops.importDirect s doc = (.error e, s1))) :
    load ops sp s held shape doc newId = (.error e, s1, held) := by
  unfold SafePlan at hsafe
  simp only [Bool.and_eq_true, beq_iff_eq, Bool.or_eq_true] at hsafe
  obtain ⟨⟨⟨hsteps, hfile⟩, hstring⟩, hnew⟩ := hsafe
  cases hsplit : splitPlan sp.steps with
  | none => simp [hsplit] at hsteps
  | some pp =>
    obtain ⟨pre, post⟩ := pp
    simp only [hsplit, Bool.and_eq_true] at hsteps
    obtain ⟨⟨hpre, _⟩, _⟩ := hsteps
    have hst := splitPlan_spec sp.steps pre post hsplit
    have hentry : ∃ entry, sp.entry shape = some entry ∧
        (if entry.direct then ops.importDirect s doc else ops.importString s doc newId) = (.error e, s1) := by
      cases shape with
      | file => exact ⟨.fileDirect, hfile, himp⟩
      | string => exact ⟨.stringDirect, hstring, himp⟩
      | stringNewId => exact ⟨.string, himp.1, himp.2⟩
    obtain ⟨entry, he, hcall⟩ := hentry
    unfold load
    rw [he, hst]
    simp only
    rw [runSteps_pre ops entry doc newId s held pre _ none hpre]
    simp only [runSteps, stepLoad, hcall]

end

theorem safe_entries (sp : LoadSpec) (h : SafePlan sp = true) :
    sp.onFile = some .fileDirect ∧ sp.onString = some .stringDirect ∧
    (sp.onStringNewId = none ∨ sp.onStringNewId = some .string) := by
  unfold SafePlan at h
  simp only [Bool.and_eq_true, beq_iff_eq, Bool.or_eq_true] at h
  exact ⟨h.1.1.2, h.1.2, h.2⟩

theorem load_no_entry {σ κ : Type} (ops : StoreOps σ κ) (sp : LoadSpec) (s : σ) (held newId : Val) (shape : Shape) (d : Doc κ)
    (h : sp.entry shape = none) : load ops sp s held shape d newId = (.error "type", s, held) := by
  unfold load; rw [h]

/-- what the importer call of a `load` does to the store -/
def importOf {σ κ : Type} (ops : StoreOps σ κ) (shape : Shape) (s : σ) (doc : Doc κ) (newId : Val) : Except String Val × σ :=
  match shape with
  | .stringNewId => ops.importString s doc newId
  | _ => ops.importDirect s doc

/-- `load` under a safe plan, by cases: the method does not take the argument (store untouched), the importer call
    fails (its store, topology unchanged), or it succeeds with `g` and every store property `P` that survives deleting
    the previously held graph (when that has another id) carries over -/
theorem load_cases {σ κ : Type} (ops : StoreOps σ κ) (sp : LoadSpec) (hsafe : SafePlan sp = true) (shape : Shape)
    (s : σ) (held newId : Val) (doc : Doc κ) :
    load ops sp s held shape doc newId = (.error "type", s, held) ∨
    (∃ e, (importOf ops shape s doc newId).1 = .error e ∧
      load ops sp s held shape doc newId = (.error e, (importOf ops shape s doc newId).2, held)) ∨
    (∃ g, (importOf ops shape s doc newId).1 = .ok g ∧
      ∀ P : σ → Prop, P (importOf ops shape s doc newId).2 → (∀ s', P s' → held ≠ g → P (ops.delGraph s' held)) →
        ∃ s', load ops sp s held shape doc newId = (.ok g, s', g) ∧ P s') := by
  obtain ⟨_, _, hnew⟩ := safe_entries sp hsafe
  by_cases hno : shape = .stringNewId ∧ sp.onStringNewId = none
  · left
    exact load_no_entry ops sp s held newId shape doc (by rw [hno.1]; exact hno.2)
  · right
    have hnewOk : shape = .stringNewId → sp.onStringNewId = some .string := by
      intro h
      rcases hnew with h' | h'
      · exact absurd ⟨h, h'⟩ hno
      · exact h'
    rcases hi : importOf ops shape s doc newId with ⟨r, s1⟩
    cases r with
    | error e =>
      left
      refine ⟨e, rfl, ?_⟩
      exact load_safe_error ops sp hsafe shape s held newId doc e s1
        (by cases shape <;> first | exact hi | exact ⟨hnewOk rfl, hi⟩)
    | ok g =>
      right
      refine ⟨g, rfl, fun P hP hdel => ?_⟩
      exact load_safe ops sp hsafe shape s held newId doc g s1 P
        (by cases shape <;> first | exact hi | exact ⟨hnewOk rfl, hi⟩) hP hdel

/-! ### where the theorems meet the other generated tables (`Generated/Serial.lean`) -/

theorem graphId_not_json_property : "GraphID" ∉ FimVerif.Gen.Serial.jsonPropertyNames := by decide

/-- **`validates_after_import` for the JSON property names the repo declares** (`JSON_PROPERTY_NAMES`, regenerated on
    every run; the driver validates with the same list) -/
theorem validates_after_import_repo (jsonOk : String → Bool)
    (s : Store) (hs : StoreInv s) (g g' : Val) (G0 : Graph Nat)
    (hG : s.extract g = some G0) (hid : HasNodeIds G0)
    (f : Fmt) (hk : f = .graphml → KeysNodup G0) (hr : f = .json → NoReserved G0)
    (doc : Doc Nat) (hser : serialize s g f = .ok (some doc))
    (hv : validate FimVerif.Gen.Serial.jsonPropertyNames jsonOk s g = .ok ()) :
    validate FimVerif.Gen.Serial.jsonPropertyNames jsonOk (importString s doc g').2 g' = .ok () :=
  validates_after_import _ jsonOk graphId_not_json_property s hs g g' G0 hG hid f hk hr doc hser hv

/-- the guard of the JSON theorems, spelled with the reserved keys observed on the code -/
theorem noReserved_iff (G : Graph κ) :
    NoReserved G ↔ (∀ p ∈ G.nodes, ∀ r ∈ FimVerif.Gen.Serial.jsonNodeReserved, r ∉ p.2.map (·.1)) ∧
      (∀ e ∈ G.edges, ∀ r ∈ FimVerif.Gen.Serial.jsonEdgeReserved, r ∉ e.attrs.map (·.1)) := by
  have hn : FimVerif.Gen.Serial.jsonNodeReserved = [FimVerif.Gen.Serial.jsonIdKey] := by decide
  have he : FimVerif.Gen.Serial.jsonEdgeReserved = [FimVerif.Gen.Serial.jsonSourceKey, FimVerif.Gen.Serial.jsonTargetKey] := by decide
  rw [hn, he]
  simp [NoReserved]

/-- the parts of the model that still spell a name of the code literally: the identity property names, the markup
    attribute names, no prefix on the edge label, JSON sniffed before GraphML -/
theorem serial_names_tie :
    FimVerif.Gen.Serial.graphId = "GraphID" ∧ FimVerif.Gen.Serial.nodeId = "NodeID" ∧ FimVerif.Gen.Serial.propClass = "Class" ∧
    FimVerif.Gen.Serial.nodeLabelAttr = "labels" ∧ FimVerif.Gen.Serial.edgeLabelAttr = "label" ∧
    FimVerif.Gen.Serial.edgeLabelPrefix = "" ∧ FimVerif.Gen.Serial.readFormatsJsonFirst = true := by decide

/-! ### validation after the direct entry points and after `load` -/

theorem validate_after_copy (names : List String) (jsonOk : String → Bool) (hnames : "GraphID" ∉ names)
    (s : Store) (hs : StoreInv s) (g g' : Val) (G0 : Graph Nat) (hG : s.extract g = some G0)
    (stamp : Attrs → Attrs) (hP1 : ∀ (a : Attrs) (k : String), k ≠ "GraphID" → (stamp a).get? k = a.get? k)
    (hP2 : ∀ p ∈ G0.nodes, (stamp p.2).get? "GraphID" = some g')
    (hv : validate names jsonOk s g = .ok ()) :
    validate names jsonOk ((s.delGraph g').merge
      { nodes := G0.nodes.map fun p => (s.nextId + G0.keys.idxOf p.1, stamp p.2),
        edges := G0.edgesIter.map (ren fun k => s.nextId + G0.keys.idxOf k) }) g' = .ok () := by
  -- what validation of the original tells us
  unfold validate at hv
  split at hv
  · cases hv
  · rename_i hne0
    cases hfor : forE (checkNode names jsonOk s g) (s.graphNodes g) with
    | error e => simp [hfor] at hv
    | ok u =>
      simp only [hfor] at hv
      split at hv
      · rename_i hcls
        simp only [Bool.and_eq_true, List.all_eq_true] at hcls
        obtain ⟨hcn, hce⟩ := hcls
        have hchk := (forE_ok_iff _ _).mp (by cases u; exact hfor)
        -- the state after the import
        obtain ⟨hne, hw, hit, hgid, hmem⟩ := extract_spec s hs g G0 hG
        have hnodes := extract_nodes s g G0 hG
        -- name the pieces
        let fn : Nat → Nat := fun k => s.nextId + G0.keys.idxOf k
        let cp : SNode → SNode := fun n => ⟨fn n.iid, stamp n.attrs⟩
        have hcopies : ((G0.nodes.map fun p => (fn p.1, stamp p.2)).map fun p => (⟨p.1, p.2⟩ : SNode))
            = (s.graphNodes g).map cp := by
          rw [hnodes]; simp [List.map_map, Function.comp_def, cp]
        have hgn : Store.graphNodes ((s.delGraph g').merge
              { nodes := G0.nodes.map fun p => (fn p.1, stamp p.2),
                edges := G0.edgesIter.map (ren fn) }) g' = (s.graphNodes g).map cp := by
          show List.filter (Store.inGraph g') ((s.delGraph g').nodes ++
              (G0.nodes.map fun p => (fn p.1, stamp p.2)).map fun p => (⟨p.1, p.2⟩ : SNode)) = _
          have h1 : (s.delGraph g').nodes.filter (Store.inGraph g') = [] := delGraph_graphNodes s g'
          rw [List.filter_append, h1, List.nil_append, hcopies, List.filter_eq_self]
          intro n hn
          obtain ⟨m, hmg, rfl⟩ := List.mem_map.mp hn
          have hm' : (m.iid, m.attrs) ∈ G0.nodes := by rw [hnodes]; exact List.mem_map_of_mem (f := fun n : SNode => (n.iid, n.attrs)) hmg
          simp [Store.inGraph, cp, hP2 _ hm']
        unfold validate
        rw [hgn]
        have hne' : ((s.graphNodes g).map cp).isEmpty = false := by
          cases hx : s.graphNodes g with
          | nil => simp [hx] at hne0
          | cons a t => rfl
        simp only [hne', Bool.false_eq_true, if_false]
        -- every copied node passes the JSON check
        have hfor' : forE (checkNode names jsonOk ((s.delGraph g').merge
              { nodes := G0.nodes.map fun p => (fn p.1, stamp p.2),
                edges := G0.edgesIter.map (ren fn) }) g') ((s.graphNodes g).map cp) = .ok () := by
          rw [forE_ok_iff]
          intro n' hn'
          obtain ⟨n, hn, rfl⟩ := List.mem_map.mp hn'
          have hc := hchk n hn
          unfold checkNode at hc ⊢
          cases hnid : n.attrs.get? "NodeID" with
          | none => simp [hnid] at hc
          | some nid =>
            simp only [hnid] at hc
            have hnid' : (cp n).attrs.get? "NodeID" = some nid := by
              simp only [cp]; rw [hP1 _ _ (by decide)]; exact hnid
            simp only [hnid']
            cases hfn : findNode s g nid with
            | error e => simp [hfn] at hc
            | ok m =>
              simp only [hfn] at hc
              have hfil : (s.graphNodes g).filter (fun n => n.attrs.get? "NodeID" == some nid) = [m] := by
                unfold findNode at hfn
                split at hfn
                · cases hfn
                · rename_i x hx; simp only [Except.ok.injEq] at hfn; rw [hx, hfn]
                · cases hfn
              have hfn' : findNode ((s.delGraph g').merge
                  { nodes := G0.nodes.map fun p => (fn p.1, stamp p.2),
                    edges := G0.edgesIter.map (ren fn) }) g' nid = .ok (cp m) := by
                unfold findNode
                rw [hgn, List.filter_map]
                have : ((fun n : SNode => n.attrs.get? "NodeID" == some nid) ∘ cp)
                    = fun n : SNode => n.attrs.get? "NodeID" == some nid := by
                  funext x
                  simp only [Function.comp_apply, cp]
                  rw [hP1 _ _ (by decide)]
                rw [this, hfil]
                rfl
              simp only [hfn']
              have hcl : ((cp m).attrs.get? "Class") = m.attrs.get? "Class" := by
                simp only [cp]; exact hP1 _ _ (by decide)
              rw [hcl]
              split at hc
              · cases hc
              · rename_i hcl0
                simp only [hcl0, Bool.false_eq_true, if_false]
                rw [forE_ok_iff] at hc ⊢
                intro name hname
                have : name ≠ "GraphID" := fun e => hnames (e ▸ hname)
                simp only [cp]
                have hcj : checkJsonProp jsonOk (stamp m.attrs) name = checkJsonProp jsonOk m.attrs name := by
                  unfold checkJsonProp; rw [hP1 _ _ this]
                rw [hcj]
                exact hc name hname
        rw [hfor']
        -- every node and edge of the new store has a Class
        have hallc : (((s.delGraph g').merge
              { nodes := G0.nodes.map fun p => (fn p.1, stamp p.2),
                edges := G0.edgesIter.map (ren fn) }).nodes.all (fun n => hasClass n.attrs) &&
            ((s.delGraph g').merge
              { nodes := G0.nodes.map fun p => (fn p.1, stamp p.2),
                edges := G0.edgesIter.map (ren fn) }).edges.all (fun e => hasClass e.attrs)) = true := by
          simp only [Bool.and_eq_true, List.all_eq_true, Store.merge]
          constructor
          · intro n hn
            rcases List.mem_append.mp hn with h | h
            · exact hcn n (List.mem_filter.mp h).1
            · rw [hcopies] at h
              obtain ⟨m, hm, rfl⟩ := List.mem_map.mp h
              simp only [cp]
              have hhc : hasClass (stamp m.attrs) = hasClass m.attrs := by
                unfold hasClass; rw [hP1 _ _ (by decide)]
              rw [hhc]
              exact hcn m (List.mem_filter.mp hm).1
          · intro e he
            rcases List.mem_append.mp he with h | h
            · exact hce e (List.mem_filter.mp h).1
            · obtain ⟨_, _, e1, he1, hat1, _⟩ := mem_iterFrom _ _ _ e h
              obtain ⟨e2, he2, rfl⟩ := List.mem_map.mp he1
              obtain ⟨_, _, e3, he3, hat3, _⟩ := mem_iterFrom G0.edges G0.keys [] e2 he2
              have hG0e : ∃ e4 ∈ s.edges, e3.attrs = e4.attrs := by
                unfold Store.extract at hG
                simp only at hG
                split at hG
                · cases hG
                · simp only [Option.some.injEq] at hG
                  rw [← hG] at he3
                  obtain ⟨_, _, e4, he4, hat4, _⟩ := mem_iterFrom _ _ _ e3 he3
                  exact ⟨e4, (List.mem_filter.mp he4).1, hat4⟩
              obtain ⟨e4, he4, hat4⟩ := hG0e
              rw [hat1]
              simp only [ren]
              rw [hat3, hat4]
              exact hce e4 he4
        exact if_pos hallc
      · cases hv


theorem addGraphDirect_state {κ : Type} [DecidableEq κ] (s : Store) (g : Val) (G : Graph κ) :
    s.addGraphDirect g G = (s.delGraph g).merge
      { nodes := G.nodes.map fun p => (s.nextId + G.keys.idxOf p.1, id p.2),
        edges := G.edgesIter.map (ren fun k => s.nextId + G.keys.idxOf k) } := by
  simp only [Store.addGraphDirect, sharedFirst_eval, Store.relabelFrom, Graph.relabel, delGraph_nextId, id]
  rfl

/-- **`validates_after_import`, direct entry points** (what `Topology.load` and the constructors use): if
    `validate_graph()` passes for the stored graph `g`, it passes again after `g` was serialized and imported back under
    its own id (replacing the original) -/
theorem validates_after_import_direct (names : List String) (jsonOk : String → Bool) (hnames : "GraphID" ∉ names)
    (s : Store) (hs : StoreInv s) (g : Val) (G0 : Graph Nat) (hG : s.extract g = some G0)
    (f : Fmt) (hk : f = .graphml → KeysNodup G0) (hr : f = .json → NoReserved G0)
    (doc : Doc Nat) (hser : serialize s g f = .ok (some doc))
    (hv : validate names jsonOk s g = .ok ()) :
    validate names jsonOk (importDirect s doc).2 g = .ok () := by
  have hread := readDoc_serialize s hs g G0 hG f hk hr doc hser
  obtain ⟨hne, _, _, hgid, _⟩ := extract_spec s hs g G0 hG
  have hgi := getGraphId_of_all doc G0 hread hne g hgid
  have hst : (importDirect s doc).2 = s.addGraphDirect g G0 := by
    unfold importDirect
    rw [hgi]
    simp only [hread]
  rw [hst, addGraphDirect_state]
  exact validate_after_copy names jsonOk hnames s hs g g G0 hG id (fun _ _ _ => rfl) hgid hv


/-! ### `Topology.load` on the shared store, for every safe plan -/

theorem validate_delGraph_other (names : List String) (jsonOk : String → Bool) (s : Store) (g h : Val) (hne : g ≠ h)
    (hv : validate names jsonOk s g = .ok ()) : validate names jsonOk (s.delGraph h) g = .ok () := by
  have hgn : (s.delGraph h).graphNodes g = s.graphNodes g := by
    simp only [Store.delGraph, Store.graphNodes, List.filter_filter]
    apply List.filter_congr
    intro n _
    by_cases hh : Store.inGraph g n = true
    · have : Store.inGraph h n = false := by
        simp only [Store.inGraph, beq_iff_eq] at hh
        simp only [Store.inGraph, hh, beq_eq_false_iff_ne, ne_eq, Option.some.injEq]
        exact hne
      simp [hh, this]
    · simp [hh]
  unfold validate at hv ⊢
  rw [hgn]
  split at hv
  · cases hv
  · rename_i hne0
    simp only [hne0, if_false]
    have hcheck : ∀ n, checkNode names jsonOk (s.delGraph h) g n = checkNode names jsonOk s g n := by
      intro n
      unfold checkNode findNode
      rw [hgn]
    have hfor : forE (checkNode names jsonOk (s.delGraph h) g) (s.graphNodes g) = forE (checkNode names jsonOk s g) (s.graphNodes g) := by
      congr 1
      funext n
      exact hcheck n
    rw [hfor]
    cases hf : forE (checkNode names jsonOk s g) (s.graphNodes g) with
    | error e => simp [hf] at hv
    | ok u =>
      simp only [hf] at hv ⊢
      split at hv
      · rename_i hcls
        simp only [Bool.and_eq_true, List.all_eq_true] at hcls
        have : ((s.delGraph h).nodes.all (fun n => hasClass n.attrs) && (s.delGraph h).edges.all (fun e => hasClass e.attrs)) = true := by
          simp only [Bool.and_eq_true, List.all_eq_true, Store.delGraph]
          exact ⟨fun n hn => hcls.1 n (List.mem_filter.mp hn).1, fun e he => hcls.2 e (List.mem_filter.mp he).1⟩
        exact if_pos this
      · cases hv

/-- **Loading a model's own serialization (shared store), under every safe load plan** — in particular the two plans read
    from the repo (`repo_plans_safe`) — into the Topology object that holds the model, into another object holding the same
    graph id, or into any other topology (`held` is arbitrary): the call succeeds, the topology holds `g`, and the
    graph found under `g` is the serialized one (node `k` renamed to `start_id + position(k)`; every attribute with
    its name, value, value type and position, every edge with its attributes); the store invariant is kept -/
theorem load_own_serialization (s : Store) (hs : StoreInv s) (g held newId : Val) (G0 : Graph Nat)
    (hG : s.extract g = some G0) (f : Fmt) (hk : f = .graphml → KeysNodup G0) (hr : f = .json → NoReserved G0)
    (doc : Doc Nat) (hser : serialize s g f = .ok (some doc))
    (sp : LoadSpec) (hsafe : SafePlan sp = true) (shape : Shape) (hshape : shape = .file ∨ shape = .string) :
    ∃ s', load sharedOps sp s held shape doc newId = (.ok g, s', g) ∧
      s'.extract g = some (directCopy G0 s.nextId) ∧ StoreInv s' := by
  obtain ⟨h1, h2⟩ := roundtrip_import_direct s hs g G0 hG f hk hr doc hser
  have hinv1 := storeInv_importDirect s hs doc (serialize_docWF s hs g G0 hG f hk hr doc hser)
  have himp : importDirect s doc = (.ok g, (importDirect s doc).2) := by
    rcases hi : importDirect s doc with ⟨r, s1⟩
    rw [hi] at h1
    simp only at h1
    rw [h1]
  obtain ⟨s', hl, hP⟩ := load_safe sharedOps sp hsafe shape s held newId doc g (importDirect s doc).2
    (fun s' => StoreInv s' ∧ s'.extract g = some (directCopy G0 s.nextId))
    (by rcases hshape with rfl | rfl <;> exact himp)
    ⟨hinv1, h2⟩
    (fun s' hp hne => ⟨storeInv_delGraph s' hp.1 held, by
      show (s'.delGraph held).extract g = _
      rw [extract_delGraph_other s' hp.1 g held (fun h => hne h.symm)]; exact hp.2⟩)
  exact ⟨s', hl, hP.2, hP.1⟩

/-- **`load(graph_string, new_graph_id)`** under a safe plan that routes it to `import_graph_from_string` -/
theorem load_new_id (s : Store) (hs : StoreInv s) (g held newId : Val) (G0 : Graph Nat)
    (hG : s.extract g = some G0) (hid : HasNodeIds G0) (f : Fmt) (hk : f = .graphml → KeysNodup G0) (hr : f = .json → NoReserved G0)
    (doc : Doc Nat) (hser : serialize s g f = .ok (some doc))
    (sp : LoadSpec) (hsafe : SafePlan sp = true) (hnew : sp.onStringNewId = some .string) :
    ∃ s', load sharedOps sp s held .stringNewId doc newId = (.ok newId, s', newId) ∧
      s'.extract newId = some (stampedCopy G0 s.nextId newId) ∧ StoreInv s' := by
  obtain ⟨h1, h2⟩ := roundtrip_import_string s hs g newId G0 hG hid f hk hr doc hser
  have hinv1 := storeInv_importString s hs doc (serialize_docWF s hs g G0 hG f hk hr doc hser) newId
  have himp : importString s doc newId = (.ok newId, (importString s doc newId).2) := by
    rcases hi : importString s doc newId with ⟨r, s1⟩
    rw [hi] at h1
    simp only at h1
    rw [h1]
  obtain ⟨s', hl, hP⟩ := load_safe sharedOps sp hsafe .stringNewId s held newId doc newId (importString s doc newId).2
    (fun s' => StoreInv s' ∧ s'.extract newId = some (stampedCopy G0 s.nextId newId))
    ⟨hnew, himp⟩ ⟨hinv1, h2⟩
    (fun s' hp hne => ⟨storeInv_delGraph s' hp.1 held, by
      show (s'.delGraph held).extract newId = _
      rw [extract_delGraph_other s' hp.1 newId held (fun h => hne h.symm)]; exact hp.2⟩)
  exact ⟨s', hl, hP.2, hP.1⟩

/-- **`load` touches no third graph (shared store), under every safe plan**: whatever simple text is loaded into a
    topology — the call succeeding or raising — every graph other than the one the topology held before and the one it
    holds / was asked to create afterwards is extracted unchanged -/
theorem load_frame (s : Store) (hs : StoreInv s) (held newId g'' : Val) (d : Doc Nat) (hd : DocWF d)
    (sp : LoadSpec) (hsafe : SafePlan sp = true) (shape : Shape)
    (hne : ∀ g, (load sharedOps sp s held shape d newId).1 = .ok g → g'' ≠ g)
    (hnew : shape = .stringNewId → g'' ≠ newId) (hheld : g'' ≠ held) :
    (load sharedOps sp s held shape d newId).2.1.extract g'' = s.extract g'' := by
  -- the store the importer call leaves
  have hframe1 : (∀ g, (importOf sharedOps shape s d newId).1 = .ok g → g'' ≠ g) →
      (importOf sharedOps shape s d newId).2.extract g'' = s.extract g'' ∧ StoreInv (importOf sharedOps shape s d newId).2 := by
    intro hr
    cases shape with
    | stringNewId => exact ⟨import_frame_string s hs d newId g'' (hnew rfl), storeInv_importString s hs d hd newId⟩
    | file => exact ⟨import_frame_direct s hs d g'' hr, storeInv_importDirect s hs d hd⟩
    | string => exact ⟨import_frame_direct s hs d g'' hr, storeInv_importDirect s hs d hd⟩
  rcases load_cases sharedOps sp hsafe shape s held newId d with hl | ⟨e, he, hl⟩ | ⟨g, hg, hsucc⟩
  · rw [hl]
  · rw [hl]
    exact (hframe1 (fun g h => by rw [he] at h; cases h)).1
  · obtain ⟨s', hl, _⟩ := hsucc (fun _ => True) trivial (fun _ _ _ => trivial)
    have hgne : g'' ≠ g := hne g (by rw [hl])
    obtain ⟨h1, h2⟩ := hframe1 (fun g0 h => by rw [hg] at h; cases h; exact hgne)
    obtain ⟨s'', hl', hP⟩ := hsucc (fun s' => StoreInv s' ∧ s'.extract g'' = s.extract g'') ⟨h2, h1⟩
      (fun s' hp _ => ⟨storeInv_delGraph s' hp.1 held, by
        show (Store.delGraph s' held).extract g'' = _
        rw [extract_delGraph_other s' hp.1 g'' held hheld]; exact hp.2⟩)
    rw [hl']
    exact hP.2

/-- validation still passes after `Topology.load` of a model's own serialization (any safe plan, file or string) -/
theorem load_validates (jsonOk : String → Bool) (s : Store) (hs : StoreInv s) (g held newId : Val) (G0 : Graph Nat)
    (hG : s.extract g = some G0) (f : Fmt) (hk : f = .graphml → KeysNodup G0) (hr : f = .json → NoReserved G0)
    (doc : Doc Nat) (hser : serialize s g f = .ok (some doc))
    (sp : LoadSpec) (hsafe : SafePlan sp = true) (shape : Shape) (hshape : shape = .file ∨ shape = .string)
    (hv : validate FimVerif.Gen.Serial.jsonPropertyNames jsonOk s g = .ok ()) :
    validate FimVerif.Gen.Serial.jsonPropertyNames jsonOk (load sharedOps sp s held shape doc newId).2.1 g = .ok () := by
  obtain ⟨h1, _⟩ := roundtrip_import_direct s hs g G0 hG f hk hr doc hser
  have hv1 := validates_after_import_direct _ jsonOk graphId_not_json_property s hs g G0 hG f hk hr doc hser hv
  have himp : importDirect s doc = (.ok g, (importDirect s doc).2) := by
    rcases hi : importDirect s doc with ⟨r, s1⟩
    rw [hi] at h1
    simp only at h1
    rw [h1]
  obtain ⟨s', hl, hP⟩ := load_safe sharedOps sp hsafe shape s held newId doc g (importDirect s doc).2
    (fun s' => validate FimVerif.Gen.Serial.jsonPropertyNames jsonOk s' g = .ok ())
    (by rcases hshape with rfl | rfl <;> exact himp) hv1
    (fun s' hp hne => validate_delGraph_other _ jsonOk s' g held (fun h => hne h.symm) hp)
  rw [hl]
  exact hP

/-! ### `Topology.load` on the disjoint store, for every safe plan -/

theorem lookup_append_ne {β : Type} : ∀ (l : List (Val × β)) (k k' : Val) (v : β), k' ≠ k →
    (l ++ [(k, v)]).lookup k' = l.lookup k'
  | [], k, k', v, h => by
    have hb : (k' == k) = false := by simpa using h
    simp [List.lookup, hb]
  | (k0, v0) :: t, k, k', v, h => by
    simp only [List.cons_append, List.lookup_cons]
    cases hk : (k' == k0) with
    | true => rfl
    | false => exact lookup_append_ne t k k' v h

theorem dDelGraph_lookup_ne (s : DStore) (h g : Val) (hne : g ≠ h) : (dDelGraph s h).graphs.lookup g = s.graphs.lookup g := by
  unfold dDelGraph
  split
  · exact DStore.lookup_put_ne _ _ _ _ hne
  · exact lookup_append_ne _ _ _ _ hne

theorem dextract_congr (s1 s2 : DStore) (g : Val) (h : s1.graphs.lookup g = s2.graphs.lookup g) :
    (s1.extract g).1 = (s2.extract g).1 := by
  unfold DStore.extract
  rw [h]
  cases s2.graphs.lookup g <;> rfl

/-- **Loading a model's own serialization (disjoint store), under every safe load plan**, into the same Topology object
    or any other (`held` is arbitrary): the topology ends up holding `g` and the graph found there is the serialized one -/
theorem dload_own_serialization (s : DStore) (g held newId : Val) (G : Graph Nat) (hl : s.graphs.lookup g = some G)
    (hok : DGraphOk g G) (hne : G.nodes ≠ [])
    (f : Fmt) (hk : f = .graphml → KeysNodup (DStore.copyGraph G)) (hr : f = .json → NoReserved (DStore.copyGraph G))
    (doc : Doc Nat) (hser : (dSerialize s g f).1 = .ok doc)
    (sp : LoadSpec) (hsafe : SafePlan sp = true) (shape : Shape) (hshape : shape = .file ∨ shape = .string) :
    ∃ s', load disjointOps sp s held shape doc newId = (.ok g, s', g) ∧
      (s'.extract g).1 = directCopy (DStore.copyGraph G) 1 := by
  obtain ⟨h1, h2⟩ := droundtrip_import_direct s g G hl hok hne f hk hr doc hser
  have himp : dImportDirect s doc = (.ok g, (dImportDirect s doc).2) := by
    rcases hi : dImportDirect s doc with ⟨r, s1⟩
    rw [hi] at h1
    simp only at h1
    rw [h1]
  obtain ⟨s', hl', hP⟩ := load_safe disjointOps sp hsafe shape s held newId doc g (dImportDirect s doc).2
    (fun s' => s'.graphs.lookup g = (dImportDirect s doc).2.graphs.lookup g)
    (by rcases hshape with rfl | rfl <;> exact himp) rfl
    (fun s' hp hne' => by
      show (dDelGraph s' held).graphs.lookup g = _
      rw [dDelGraph_lookup_ne s' held g (fun h => hne' h.symm)]; exact hp)
  exact ⟨s', hl', by rw [dextract_congr s' _ g hP]; exact h2⟩

theorem dload_new_id (s : DStore) (g held newId : Val) (G : Graph Nat) (hl : s.graphs.lookup g = some G)
    (hw : GraphWF G) (hid : HasNodeIds G) (hne : G.nodes ≠ [])
    (hfree : ∀ old, s.graphs.lookup newId = some old → old.nodes.isEmpty = true)
    (f : Fmt) (hk : f = .graphml → KeysNodup (DStore.copyGraph G)) (hr : f = .json → NoReserved (DStore.copyGraph G))
    (doc : Doc Nat) (hser : (dSerialize s g f).1 = .ok doc)
    (sp : LoadSpec) (hsafe : SafePlan sp = true) (hnew : sp.onStringNewId = some .string) :
    ∃ s', load disjointOps sp s held .stringNewId doc newId = (.ok newId, s', newId) ∧
      (s'.extract newId).1 = stampedCopy (DStore.copyGraph G) 1 newId := by
  obtain ⟨h1, h2⟩ := droundtrip_import_string s g newId G hl hw hid hne hfree f hk hr doc hser
  have himp : dImportString s doc newId = (.ok newId, (dImportString s doc newId).2) := by
    rcases hi : dImportString s doc newId with ⟨r, s1⟩
    rw [hi] at h1
    simp only at h1
    rw [h1]
  obtain ⟨s', hl', hP⟩ := load_safe disjointOps sp hsafe .stringNewId s held newId doc newId (dImportString s doc newId).2
    (fun s' => s'.graphs.lookup newId = (dImportString s doc newId).2.graphs.lookup newId)
    ⟨hnew, himp⟩ rfl
    (fun s' hp hne' => by
      show (dDelGraph s' held).graphs.lookup newId = _
      rw [dDelGraph_lookup_ne s' held newId (fun h => hne' h.symm)]; exact hp)
  exact ⟨s', hl', by rw [dextract_congr s' _ newId hP]; exact h2⟩

/-- **`load` touches no third graph (disjoint store), under every safe plan**, whatever text is loaded -/
theorem dload_frame {κ : Type} [DecidableEq κ] (s : DStore) (held newId g'' : Val) (d : Doc κ)
    (sp : LoadSpec) (hsafe : SafePlan sp = true) (shape : Shape)
    (hne : ∀ g, (load disjointOps sp s held shape d newId).1 = .ok g → g'' ≠ g)
    (hnew : shape = .stringNewId → g'' ≠ newId) (hheld : g'' ≠ held) :
    (load disjointOps sp s held shape d newId).2.1.graphs.lookup g'' = s.graphs.lookup g'' := by
  have hframe1 : (∀ g, (importOf disjointOps shape s d newId).1 = .ok g → g'' ≠ g) →
      (importOf disjointOps shape s d newId).2.graphs.lookup g'' = s.graphs.lookup g'' := by
    intro hr
    cases shape with
    | stringNewId => exact dimport_frame_string s d newId g'' (hnew rfl)
    | file => exact dimport_frame_direct s d g'' hr
    | string => exact dimport_frame_direct s d g'' hr
  rcases load_cases disjointOps sp hsafe shape s held newId d with hl | ⟨e, he, hl⟩ | ⟨g, hg, hsucc⟩
  · rw [hl]
  · rw [hl]
    exact hframe1 (fun g h => by rw [he] at h; cases h)
  · obtain ⟨s', hl, _⟩ := hsucc (fun _ => True) trivial (fun _ _ _ => trivial)
    have hgne : g'' ≠ g := hne g (by rw [hl])
    have h1 := hframe1 (fun g0 h => by rw [hg] at h; cases h; exact hgne)
    obtain ⟨s'', hl', hP⟩ := hsucc (fun s' => s'.graphs.lookup g'' = s.graphs.lookup g'') h1
      (fun s' hp _ => by
        show (dDelGraph s' held).graphs.lookup g'' = _
        rw [dDelGraph_lookup_ne s' held g'' hheld]; exact hp)
    rw [hl']
    exact hP

/-! ### whole sessions on the shared store -/

theorem storeInv_load (s : Store) (hs : StoreInv s) (d : Doc Nat) (hd : DocWF d)
    (sp : LoadSpec) (hsafe : SafePlan sp = true) (held newId : Val) (shape : Shape) :
    StoreInv (load sharedOps sp s held shape d newId).2.1 := by
  have h1 : StoreInv (importOf sharedOps shape s d newId).2 := by
    cases shape with
    | stringNewId => exact storeInv_importString s hs d hd newId
    | file => exact storeInv_importDirect s hs d hd
    | string => exact storeInv_importDirect s hs d hd
  rcases load_cases sharedOps sp hsafe shape s held newId d with hl | ⟨e, _, hl⟩ | ⟨g, _, hsucc⟩
  · rw [hl]; exact hs
  · rw [hl]; exact h1
  · obtain ⟨s', hl, hP⟩ := hsucc StoreInv h1 (fun s' hp _ => storeInv_delGraph s' hp held)
    rw [hl]; exact hP

/-- the calls of a session on the shared store that C01 speaks about; `edit` stands for any other library call
    (add / update / delete of nodes and links) -/
inductive SessOp
  | importString (d : Doc Nat) (g : Val)
  | importDirect (d : Doc Nat)
  | load (sp : LoadSpec) (held : Val) (shape : Shape) (d : Doc Nat) (newId : Val)
  | delete (g : Val)
  | clone (g newId : Val)
  | edit (f : Store → Store)

/-- side conditions: imported texts are simple, `load` runs a safe plan, an edit keeps the store invariant -/
def SessOp.Ok : SessOp → Prop
  | .importString d _ => DocWF d
  | .importDirect d => DocWF d
  | .load sp _ _ d _ => SafePlan sp = true ∧ DocWF d
  | .delete _ => True
  | .clone _ _ => True
  | .edit f => ∀ s, StoreInv s → StoreInv (f s)

def SessOp.apply (s : Store) : SessOp → Store
  | .importString d g => (GraphML.importString s d g).2
  | .importDirect d => (GraphML.importDirect s d).2
  | .load sp held shape d newId => (Serial.load sharedOps sp s held shape d newId).2.1
  | .delete g => s.delGraph g
  | .clone g newId => (cloneGraph s g newId).2
  | .edit f => f s

theorem storeInv_step (s : Store) (hs : StoreInv s) (op : SessOp) (hop : op.Ok) : StoreInv (op.apply s) := by
  cases op with
  | importString d g => exact storeInv_importString s hs d hop g
  | importDirect d => exact storeInv_importDirect s hs d hop
  | load sp held shape d newId => exact storeInv_load s hs d hop.2 sp hop.1 held newId shape
  | delete g => exact storeInv_delGraph s hs g
  | clone g newId => exact storeInv_clone s hs g newId
  | edit f => exact hop s hs

/-- **the store invariant holds after every session** -/
theorem session_invariant : ∀ (ops : List SessOp) (s : Store), StoreInv s → (∀ op ∈ ops, op.Ok) →
    StoreInv (ops.foldl SessOp.apply s)
  | [], _, hs, _ => hs
  | op :: rest, s, hs, hok =>
    session_invariant rest (op.apply s) (storeInv_step s hs op (hok op List.mem_cons_self))
      (fun o ho => hok o (List.mem_cons_of_mem _ ho))

/-- **round trip at any point of any session**: starting from the empty store, after any sequence of imports, loads
    (under safe plans), clones, deletions and invariant-preserving edits, a held model serialized and loaded back — into
    the topology that holds it or any other (`held` arbitrary) — is found again under its id, equal to the serialized one
    up to the internal numbering, and the invariant still holds (so the statement applies again to the next save / load) -/
theorem roundtrip_after_session (ops : List SessOp) (hok : ∀ op ∈ ops, op.Ok) (g held newId : Val) (G0 : Graph Nat)
    (hG : (ops.foldl SessOp.apply Store.empty).extract g = some G0)
    (f : Fmt) (hk : f = .graphml → KeysNodup G0) (hr : f = .json → NoReserved G0)
    (doc : Doc Nat) (hser : serialize (ops.foldl SessOp.apply Store.empty) g f = .ok (some doc))
    (sp : LoadSpec) (hsafe : SafePlan sp = true) (shape : Shape) (hshape : shape = .file ∨ shape = .string) :
    ∃ s', load sharedOps sp (ops.foldl SessOp.apply Store.empty) held shape doc newId = (.ok g, s', g) ∧
      s'.extract g = some (directCopy G0 (ops.foldl SessOp.apply Store.empty).nextId) ∧ StoreInv s' :=
  load_own_serialization _ (session_invariant ops Store.empty storeInv_empty hok) g held newId G0 hG f hk hr doc hser sp hsafe
    shape hshape

/-! ### the disjoint store's invariant over whole sessions -/

/-- every stored graph is well formed and all its nodes carry the id it is stored under -/
def DStoreInv (s : DStore) : Prop := ∀ g G, s.graphs.lookup g = some G → DGraphOk g G

theorem dStoreInv_empty : DStoreInv DStore.empty := by
  intro g G h; cases h

theorem dStoreInv_put (s : DStore) (hs : DStoreInv s) (g : Val) (T : Graph Nat) (hT : DGraphOk g T) (c : List (Val × Nat)) :
    DStoreInv ⟨DStore.put s.graphs g T, c⟩ := by
  intro g0 G0 h
  by_cases hg : g0 = g
  · subst hg
    rw [DStore.lookup_put] at h
    exact (Option.some.inj h) ▸ hT
  · rw [DStore.lookup_put_ne _ _ _ _ hg] at h
    exact hs g0 G0 h

theorem dGraphOk_empty (g : Val) : DGraphOk g ⟨[], []⟩ :=
  ⟨⟨List.nodup_nil, fun e he => by cases he⟩, fun p hp => by cases hp⟩

theorem lookup_append_some {β : Type} : ∀ (l : List (Val × β)) (k k' : Val) (v x : β),
    (l ++ [(k, v)]).lookup k' = some x → l.lookup k' = some x ∨ (k' = k ∧ x = v)
  | [], k, k', v, x, h => by
    simp only [List.nil_append, List.lookup_cons] at h
    cases hk : (k' == k) with
    | true =>
      rw [hk] at h
      exact Or.inr ⟨by simpa using hk, (Option.some.inj h).symm⟩
    | false => rw [hk] at h; simp [List.lookup] at h
  | (k0, v0) :: t, k, k', v, x, h => by
    simp only [List.cons_append, List.lookup_cons] at h ⊢
    cases hk : (k' == k0) with
    | true => rw [hk] at h; exact Or.inl h
    | false => rw [hk] at h; exact lookup_append_some t k k' v x h

theorem dStoreInv_delGraph (s : DStore) (hs : DStoreInv s) (g : Val) : DStoreInv (dDelGraph s g) := by
  unfold dDelGraph
  split
  · exact dStoreInv_put s hs g _ (dGraphOk_empty g) _
  · intro g0 G0 h
    rcases lookup_append_some _ _ _ _ _ h with h | ⟨rfl, rfl⟩
    · exact hs g0 G0 h
    · exact dGraphOk_empty g0

theorem dStoreInv_addGraphDirect {κ : Type} [DecidableEq κ] (s : DStore) (hs : DStoreInv s) (g : Val) (G : Graph κ)
    (hw : GraphWF G) (hg : ∀ p ∈ G.nodes, p.2.get? "GraphID" = some g) : DStoreInv (s.addGraphDirect g G) := by
  obtain ⟨h1, _, h3⟩ := relabelFrom_ok G hw 1 id
  unfold DStore.addGraphDirect
  simp only [disjointFirst_eval]
  apply dStoreInv_put s hs g
  refine ⟨⟨by simpa using h1, by simpa using h3⟩, ?_⟩
  intro p hp
  simp only [Store.relabelFrom, Graph.relabel, List.mem_map] at hp
  obtain ⟨q, hq, rfl⟩ := hp
  exact hg q hq

theorem dStoreInv_addGraph {κ : Type} [DecidableEq κ] (s : DStore) (hs : DStoreInv s) (g : Val) (G : Graph κ) (hw : GraphWF G) :
    DStoreInv (s.addGraph g G).2 := by
  have hgo : DStoreInv (DStore.addGraph.go s g G).2 := by
    obtain ⟨h1, _, h3⟩ := relabelFrom_ok G hw 1 (fun a => a.set "GraphID" g)
    unfold DStore.addGraph.go
    simp only [disjointFirst_eval]
    by_cases hall : ((Store.relabelFrom G 1).nodes.all fun p => (Option.map Val.truthy (p.snd.get? "NodeID")).getD false) = true
    · simp only [hall, if_true]
      apply dStoreInv_put s hs g
      have hwT : GraphWF ({ nodes := (Store.relabelFrom G 1).nodes.map fun p => (p.1, p.2.set "GraphID" g),
                            edges := (Store.relabelFrom G 1).edges } : Graph Nat) := ⟨h1, h3⟩
      refine ⟨⟨h1, fun e he => edgesIter_ends _ hwT e he⟩, ?_⟩
      intro p hp
      simp only [List.mem_map] at hp
      obtain ⟨q, _, rfl⟩ := hp
      exact Attrs.get_set q.2 "GraphID" g
    · simp only [hall]
      exact hs
  unfold DStore.addGraph
  split
  · split
    · exact hs
    · exact hgo
  · exact hgo

theorem dStoreInv_importString {κ : Type} [DecidableEq κ] (s : DStore) (hs : DStoreInv s) (d : Doc κ) (hd : DocWF d) (g : Val) :
    DStoreInv (dImportString s d g).2 := by
  unfold dImportString
  cases hr : readDoc d with
  | none => exact hs
  | some G =>
    simp only
    split
    · exact hs
    · have := dStoreInv_addGraph s hs g G (hd G hr)
      cases hag : s.addGraph g G with
      | mk r s' =>
        rw [hag] at this
        cases r <;> exact this

theorem dStoreInv_importDirect {κ : Type} [DecidableEq κ] (s : DStore) (hs : DStoreInv s) (d : Doc κ) (hd : DocWF d) :
    DStoreInv (dImportDirect s d).2 := by
  unfold dImportDirect
  cases hg : getGraphId d with
  | error e => exact hs
  | ok g =>
    obtain ⟨G, hr, hall⟩ := getGraphId_ok d g hg
    simp only [hr]
    exact dStoreInv_addGraphDirect s hs g G (hd G hr) hall

theorem dStoreInv_load (s : DStore) (hs : DStoreInv s) (d : Doc Nat) (hd : DocWF d)
    (sp : LoadSpec) (hsafe : SafePlan sp = true) (held newId : Val) (shape : Shape) :
    DStoreInv (load disjointOps sp s held shape d newId).2.1 := by
  have h1 : DStoreInv (importOf disjointOps shape s d newId).2 := by
    cases shape with
    | stringNewId => exact dStoreInv_importString s hs d hd newId
    | file => exact dStoreInv_importDirect s hs d hd
    | string => exact dStoreInv_importDirect s hs d hd
  rcases load_cases disjointOps sp hsafe shape s held newId d with hl | ⟨e, _, hl⟩ | ⟨g, _, hsucc⟩
  · rw [hl]; exact hs
  · rw [hl]; exact h1
  · obtain ⟨s', hl, hP⟩ := hsucc DStoreInv h1 (fun s' hp _ => dStoreInv_delGraph s' hp held)
    rw [hl]; exact hP

/-- every text the library serializes from the disjoint store is simple -/
theorem dserialize_docWF (s : DStore) (g : Val) (G : Graph Nat) (hl : s.graphs.lookup g = some G) (hw : GraphWF G)
    (f : Fmt) (hk : f = .graphml → KeysNodup (DStore.copyGraph G)) (hr : f = .json → NoReserved (DStore.copyGraph G))
    (doc : Doc Nat) (hser : (dSerialize s g f).1 = .ok doc) : DocWF doc := by
  intro G' hread
  rw [(dreadDoc_serialize s g G hl hw f hk hr doc hser).2] at hread
  exact (Option.some.inj hread) ▸ copyGraph_wf G hw

/-- the calls of a session on the disjoint store -/
inductive DSessOp
  | importString (d : Doc Nat) (g : Val)
  | importDirect (d : Doc Nat)
  | load (sp : LoadSpec) (held : Val) (shape : Shape) (d : Doc Nat) (newId : Val)
  | delete (g : Val)
  | edit (f : DStore → DStore)

def DSessOp.Ok : DSessOp → Prop
  | .importString d _ => DocWF d
  | .importDirect d => DocWF d
  | .load sp _ _ d _ => SafePlan sp = true ∧ DocWF d
  | .delete _ => True
  | .edit f => ∀ s, DStoreInv s → DStoreInv (f s)

def DSessOp.apply (s : DStore) : DSessOp → DStore
  | .importString d g => (GraphML.dImportString s d g).2
  | .importDirect d => (GraphML.dImportDirect s d).2
  | .load sp held shape d newId => (Serial.load disjointOps sp s held shape d newId).2.1
  | .delete g => dDelGraph s g
  | .edit f => f s

theorem dsession_invariant : ∀ (ops : List DSessOp) (s : DStore), DStoreInv s → (∀ op ∈ ops, op.Ok) →
    DStoreInv (ops.foldl DSessOp.apply s)
  | [], _, hs, _ => hs
  | op :: rest, s, hs, hok => by
    apply dsession_invariant rest (op.apply s) _ (fun o ho => hok o (List.mem_cons_of_mem _ ho))
    have hop := hok op List.mem_cons_self
    cases op with
    | importString d g => exact dStoreInv_importString s hs d hop g
    | importDirect d => exact dStoreInv_importDirect s hs d hop
    | load sp held shape d newId => exact dStoreInv_load s hs d hop.2 sp hop.1 held newId shape
    | delete g => exact dStoreInv_delGraph s hs g
    | edit f => exact hop s hs

/-- **round trip at any point of any session on the disjoint store**: after any sequence of imports, loads (safe plans),
    deletions and invariant-preserving edits from the empty store, a held non-empty model serialized and loaded back into
    the topology that holds it or any other is found again under its id, equal to the serialized one -/
theorem droundtrip_after_session (ops : List DSessOp) (hok : ∀ op ∈ ops, op.Ok) (g held newId : Val) (G : Graph Nat)
    (hl : (ops.foldl DSessOp.apply DStore.empty).graphs.lookup g = some G) (hne : G.nodes ≠ [])
    (f : Fmt) (hk : f = .graphml → KeysNodup (DStore.copyGraph G)) (hr : f = .json → NoReserved (DStore.copyGraph G))
    (doc : Doc Nat) (hser : (dSerialize (ops.foldl DSessOp.apply DStore.empty) g f).1 = .ok doc)
    (sp : LoadSpec) (hsafe : SafePlan sp = true) (shape : Shape) (hshape : shape = .file ∨ shape = .string) :
    ∃ s', load disjointOps sp (ops.foldl DSessOp.apply DStore.empty) held shape doc newId = (.ok g, s', g) ∧
      (s'.extract g).1 = directCopy (DStore.copyGraph G) 1 :=
  dload_own_serialization _ g held newId G hl (dsession_invariant ops DStore.empty dStoreInv_empty hok g G hl) hne f hk hr doc hser
    sp hsafe shape hshape


/-! ### re-serialization on the disjoint store -/

theorem serializeG_eq (X : Graph Nat) (f : Fmt) : serializeG X f = (serializeGraph X f).map some := by
  unfold serializeG serializeGraph
  cases f with
  | json => rfl
  | graphml =>
    simp only
    cases toGraphML X with
    | error e => rfl
    | ok d =>
      simp only
      cases toNeo4j d <;> rfl

theorem dSerialize_fst (s : DStore) (g : Val) (f : Fmt) : (dSerialize s g f).1 = serializeGraph (s.extract g).1 f := by
  unfold dSerialize
  rcases s.extract g with ⟨G, s'⟩
  rfl

/-- **`reserialize_stable`, disjoint store (direct entry points / `Topology.load`)**: serializing the re-imported copy
    gives the same document as serializing the original up to the internal node numbering only -/
theorem dreserialize_stable_direct (s : DStore) (g : Val) (G : Graph Nat) (hl : s.graphs.lookup g = some G)
    (hok : DGraphOk g G) (hne : G.nodes ≠ [])
    (f : Fmt) (hk : f = .graphml → KeysNodup (DStore.copyGraph G)) (hr : f = .json → NoReserved (DStore.copyGraph G))
    (doc : Doc Nat) (hser : (dSerialize s g f).1 = .ok doc) (f' : Fmt)
    (doc' : Doc Nat) (hser' : (dSerialize s g f').1 = .ok doc') :
    (dSerialize (dImportDirect s doc).2 g f').1 =
      .ok (relabelDoc (fun k => 1 + (DStore.copyGraph G).keys.idxOf k) id (fun _ v => v) doc') := by
  obtain ⟨_, h2⟩ := droundtrip_import_direct s g G hl hok hne f hk hr doc hser
  have he : (s.extract g).1 = DStore.copyGraph G := by unfold DStore.extract; rw [hl]
  rw [dSerialize_fst, he] at hser'
  rw [dSerialize_fst, h2]
  have hw := copyGraph_wf G hok.1
  have hG' : serializeG (DStore.copyGraph G) f' = .ok (some doc') := by rw [serializeG_eq, hser']; rfl
  have := serializeG_copy (DStore.copyGraph G) (directCopy (DStore.copyGraph G) 1) (fun k => 1 + (DStore.copyGraph G).keys.idxOf k)
    id id (fun _ v => v) rfl
    (by
      have := iter_relabelled (DStore.copyGraph G) hw 1
      simp only [directCopy, Graph.edgesIter, Graph.keys, List.map_map, Function.comp_def] at this ⊢
      exact this)
    (fun p _ => rfl) (fun p _ => attrsObj_id _ p.2) (fun tbl _ => ⟨fun p _ => rfl, fun _ => rfl⟩) f' doc' hG'
  rw [serializeG_eq] at this
  cases hx : serializeGraph (directCopy (DStore.copyGraph G) 1) f' with
  | error e => rw [hx] at this; cases this
  | ok d =>
    rw [hx] at this
    simp only [Except.map, Except.ok.injEq, Option.some.injEq] at this
    rw [this]


/-! ### `validate_graph` looks at attribute dicts only -/

/-- `validate` on the lists of node / edge attribute dicts -/
def findA (ns : List Attrs) (g nid : Val) : Except String Attrs :=
  match (ns.filter fun a => a.get? "GraphID" == some g).filter (fun a => a.get? "NodeID" == some nid) with
  | [] => .error "query"
  | [a] => .ok a
  | _ => .error "query"

def checkA (names : List String) (jsonOk : String → Bool) (ns : List Attrs) (g : Val) (a : Attrs) : Except String Unit :=
  match a.get? "NodeID" with
  | none => .error "key"
  | some nid =>
    match findA ns g nid with
    | .error e => .error e
    | .ok m =>
      if (m.get? "Class").isNone then .error "key"
      else forE (checkJsonProp jsonOk m) names

def validateA (names : List String) (jsonOk : String → Bool) (ns es : List Attrs) (g : Val) : Except String Unit :=
  if (ns.filter fun a => a.get? "GraphID" == some g).isEmpty then .error "query"
  else
    match forE (checkA names jsonOk ns g) (ns.filter fun a => a.get? "GraphID" == some g) with
    | .error e => .error e
    | .ok _ => if ns.all hasClass && es.all hasClass then .ok () else .error "import"

theorem graphNodes_attrs (s : Store) (g : Val) :
    (s.graphNodes g).map (·.attrs) = (s.nodes.map (·.attrs)).filter fun a => a.get? "GraphID" == some g := by
  simp only [Store.graphNodes, List.filter_map]
  rfl

theorem forE_map {α β : Type} (m : α → β) (f : β → Except String Unit) : ∀ l : List α, forE f (l.map m) = forE (f ∘ m) l
  | [] => rfl
  | a :: t => by
    simp only [List.map_cons, forE, Function.comp_apply]
    cases f (m a) with
    | error e => rfl
    | ok u => exact forE_map m f t

theorem findNode_attrs (s : Store) (g nid : Val) :
    (match findNode s g nid with | .ok m => Except.ok m.attrs | .error e => .error e) = findA (s.nodes.map (·.attrs)) g nid := by
  unfold findNode findA
  rw [← graphNodes_attrs, List.filter_map]
  have : ((fun a : Attrs => a.get? "NodeID" == some nid) ∘ fun n : SNode => n.attrs) = fun n : SNode => n.attrs.get? "NodeID" == some nid := rfl
  rw [this]
  generalize (s.graphNodes g).filter (fun n => n.attrs.get? "NodeID" == some nid) = l
  rcases l with _ | ⟨a, _ | ⟨b, t⟩⟩ <;> rfl

theorem checkNode_attrs (names : List String) (jsonOk : String → Bool) (s : Store) (g : Val) (n : SNode) :
    checkNode names jsonOk s g n = checkA names jsonOk (s.nodes.map (·.attrs)) g n.attrs := by
  unfold checkNode checkA
  cases n.attrs.get? "NodeID" with
  | none => rfl
  | some nid =>
    simp only
    rw [← findNode_attrs]
    cases findNode s g nid <;> rfl

/-- **`validate_graph()` depends on the attribute dicts of the store's nodes and edges only**, not on internal ids -/
theorem validate_attrs (names : List String) (jsonOk : String → Bool) (s : Store) (g : Val) :
    validate names jsonOk s g = validateA names jsonOk (s.nodes.map (·.attrs)) (s.edges.map (·.attrs)) g := by
  unfold validate validateA
  rw [← graphNodes_attrs, forE_map]
  have hc : (checkA names jsonOk (s.nodes.map (·.attrs)) g ∘ fun n : SNode => n.attrs) = checkNode names jsonOk s g := by
    funext n; exact (checkNode_attrs names jsonOk s g n).symm
  rw [hc]
  simp only [List.isEmpty_map, List.all_map, Function.comp_def]
  by_cases he : (s.graphNodes g).isEmpty = true
  · simp only [he, if_true]
  · simp only [he]
    cases forE (checkNode names jsonOk s g) (s.graphNodes g) <;> rfl

theorem validateA_mono (names : List String) (jsonOk : String → Bool) (ns es es' : List Attrs) (g : Val)
    (hsub : ∀ a ∈ es', a ∈ es) (h : validateA names jsonOk ns es g = .ok ()) : validateA names jsonOk ns es' g = .ok () := by
  unfold validateA at h ⊢
  split at h
  · cases h
  · rename_i hne
    simp only [hne, if_false]
    cases hf : forE (checkA names jsonOk ns g) (ns.filter fun a => a.get? "GraphID" == some g) with
    | error e => simp [hf] at h
    | ok u =>
      simp only [hf] at h ⊢
      split at h
      · rename_i hall
        simp only [Bool.and_eq_true, List.all_eq_true] at hall
        have : (ns.all hasClass && es'.all hasClass) = true := by
          simp only [Bool.and_eq_true, List.all_eq_true]
          exact ⟨hall.1, fun a ha => hall.2 a (hsub a ha)⟩
        exact if_pos this
      · cases h

/-- **validation after a round trip on the disjoint store (direct entry points / `Topology.load`)**: if `validate_graph()`
    passes for the held model, it passes for the model found after serializing and loading it back -/
theorem dvalidates_after_import_direct (names : List String) (jsonOk : String → Bool)
    (s : DStore) (g : Val) (G : Graph Nat) (hl : s.graphs.lookup g = some G)
    (hok : DGraphOk g G) (hne : G.nodes ≠ [])
    (f : Fmt) (hk : f = .graphml → KeysNodup (DStore.copyGraph G)) (hr : f = .json → NoReserved (DStore.copyGraph G))
    (doc : Doc Nat) (hser : (dSerialize s g f).1 = .ok doc)
    (hv : (dValidate names jsonOk s g).1 = .ok ()) :
    (dValidate names jsonOk (dImportDirect s doc).2 g).1 = .ok () := by
  have hv0 : validate names jsonOk (storeOfGraph G) g = .ok () := by
    unfold dValidate at hv; rw [hl] at hv; exact hv
  suffices h : ∃ G', (dImportDirect s doc).2.graphs.lookup g = some G' ∧ validate names jsonOk (storeOfGraph G') g = .ok () by
    obtain ⟨G', h1, h2⟩ := h
    unfold dValidate; rw [h1]; exact h2
  clear hv
  have hv := hv0
  obtain ⟨_, hread⟩ := dreadDoc_serialize s g G hl hok.1 f hk hr doc hser
  have hgid := getGraphId_of_all doc (DStore.copyGraph G) hread hne g hok.2
  have hst : (dImportDirect s doc).2 = s.addGraphDirect g (DStore.copyGraph G) := by
    unfold dImportDirect
    rw [hgid]
    simp only [hread]
  refine ⟨Store.relabelFrom (DStore.copyGraph G) 1, ?_, ?_⟩
  · rw [hst]
    simp only [DStore.addGraphDirect, disjointFirst_eval, DStore.lookup_put]
  · rw [validate_attrs] at hv ⊢
    have hnodes : (storeOfGraph (Store.relabelFrom (DStore.copyGraph G) 1)).nodes.map (·.attrs) = (storeOfGraph G).nodes.map (·.attrs) := by
      simp [storeOfGraph, Store.relabelFrom, Graph.relabel, DStore.copyGraph, List.map_map, Function.comp_def]
    rw [hnodes]
    apply validateA_mono names jsonOk _ _ _ g _ hv
    intro a ha
    simp only [storeOfGraph, Store.relabelFrom, Graph.relabel, List.mem_map] at ha ⊢
    obtain ⟨e, ⟨e0, he0, rfl⟩, rfl⟩ := ha
    obtain ⟨_, _, e1, he1, hat1, _⟩ := mem_iterFrom _ _ _ e0 he0
    obtain ⟨_, _, e2, he2, hat2, _⟩ := mem_iterFrom G.edges G.keys [] e1 he1
    exact ⟨e2, he2, by rw [← hat2, ← hat1]⟩


/-! ### `enumerate_graph_nodes` and `nx_write_graphml` -/

/-- every node carries a non-empty string `NodeID` (what the library's own models satisfy) -/
def StrNodeIds {κ : Type} (G : Graph κ) : Prop :=
  ∀ p ∈ G.nodes, ∃ t, p.2.get? "NodeID" = some (.str t) ∧ t ≠ ""

theorem forE_needsNodeId {κ : Type} (G : Graph κ) (h : StrNodeIds G) :
    forE keepsNodeId G.nodes = .ok () := by
  rw [forE_ok_iff]
  intro p hp
  obtain ⟨t, ht, hne⟩ := h p hp
  have : (t == "") = false := by simpa using hne
  simp [keepsNodeId, needsNodeId, ht, this]

/-- **`enumerate_graph_nodes` / `enumerate_graph_nodes_to_string` / `GraphML.nx_write_graphml` reproduce the library's own
    GraphML**: for a graph in iteration order (what `extract_graph` returns) whose nodes all carry a NodeID, re-writing
    the emitted document through `read_graphml` + `generate_graphml` gives the bare document `d` again, and with the
    label markup (`nx_write_graphml`) the very document `d'` that `serialize_graph` emitted -/
theorem enumerate_fixpoint (H : Graph Nat) (hit : H.edgesIter = H.edges) (hk : KeysNodup H) (hid : StrNodeIds H)
    (d d' : GDoc Nat) (h : toGraphML H = .ok d) (h' : toNeo4j d = .ok d') :
    enumerateDoc d' true = .ok d' ∧ enumerateDoc d' false = .ok d := by
  have hread := roundtrip_graphml_doc H hk d d' h h'
  have he : iterFrom H.edgesIter [] H.keys = H.edges := by rw [hit]; exact hit
  have hH : (⟨H.nodes, iterFrom H.edgesIter [] H.keys⟩ : Graph Nat) = H := by rw [he]
  rw [hH] at hread
  unfold enumerateDoc
  simp only [hread, forE_needsNodeId H hid, h, if_true, h']
  exact ⟨trivial, by simp⟩

example : ∃ (H : Graph Nat) (d d' : GDoc Nat), H.edgesIter = H.edges ∧ KeysNodup H ∧ StrNodeIds H ∧ H.edges ≠ [] ∧
    toGraphML H = .ok d ∧ toNeo4j d = .ok d' :=
  ⟨⟨[(1, [("GraphID", .str "g"), ("Class", .str "NetworkNode"), ("NodeID", .str "a"), ("n", .int 5)]),
      (2, [("GraphID", .str "g"), ("Class", .str "Component"), ("NodeID", .str "b")])],
     [⟨1, 2, [("Class", .str "has")]⟩]⟩, _, _, by decide, by decide,
   by
     intro p hp
     simp only [List.mem_cons, List.not_mem_nil, or_false] at hp
     rcases hp with rfl | rfl
     · exact ⟨"a", rfl, by decide⟩
     · exact ⟨"b", rfl, by decide⟩,
   by decide, rfl, rfl⟩


/-! ### non-vacuity of the hypotheses above -/

example : SafePlan FimVerif.Gen.Serial.topologyLoad = true ∧ FimVerif.Gen.Serial.topologyLoad.onStringNewId = some .string := ⟨by decide, rfl⟩

/-- a disjoint store holding a two-node, one-edge graph under `g` (and an edited graph under `h`) -/
def exDStore : DStore :=
  ⟨[(.str "g", ⟨[(1, [("GraphID", .str "g"), ("Class", .str "NetworkNode"), ("NodeID", .str "a"), ("n", .int 5)]),
                 (2, [("GraphID", .str "g"), ("Class", .str "Component"), ("NodeID", .str "b"), ("n", .str "5")])],
                [⟨2, 1, [("Class", .str "has")]⟩]⟩),
    (.str "h", ⟨[(1, [("GraphID", .str "h"), ("Class", .str "NetworkNode"), ("NodeID", .str "edited")])], []⟩)],
   [(.str "g", 3), (.str "h", 2)]⟩

example : ∃ (G : Graph Nat) (doc : Doc Nat), exDStore.graphs.lookup (.str "g") = some G ∧ DGraphOk (.str "g") G ∧ HasNodeIds G ∧
    G.nodes ≠ [] ∧ G.edges ≠ [] ∧ KeysNodup (DStore.copyGraph G) ∧ NoReserved (DStore.copyGraph G) ∧
    (dSerialize exDStore (.str "g") .graphml).1 = .ok doc ∧
    (∀ old, exDStore.graphs.lookup (.str "fresh") = some old → old.nodes.isEmpty = true) :=
  ⟨_, _, rfl, by decide, by decide, by decide, by decide, by decide, by decide, rfl, by intro old h; cases h⟩

example : ∃ (old : Graph Nat) (d : Doc Nat) (G : Graph Nat), exDStore.graphs.lookup (.str "h") = some old ∧ old.nodes ≠ [] ∧
    readDoc d = some G ∧ G.nodes ≠ [] :=
  ⟨_, .json ⟨false, false, [[("NodeID", .v (.str "a")), ("id", .k 1)]], []⟩, _, rfl, by decide, rfl, by decide⟩

/-- a simple text: the node-link document of a one-edge graph -/
def exDoc : Doc Nat :=
  .json ⟨false, false, [[("GraphID", .v (.str "g")), ("NodeID", .v (.str "a")), ("id", .k 7)],
                        [("GraphID", .v (.str "g")), ("NodeID", .v (.str "b")), ("id", .k 9)]],
         [[("Class", .v (.str "has")), ("source", .k 7), ("target", .k 9)]]⟩

theorem exDoc_wf : DocWF exDoc := by
  intro G h
  have : readDoc exDoc = some ⟨[(7, [("GraphID", .str "g"), ("NodeID", .str "a")]), (9, [("GraphID", .str "g"), ("NodeID", .str "b")])],
      [⟨7, 9, [("Class", .str "has")]⟩]⟩ := rfl
  rw [this] at h
  exact (Option.some.inj h) ▸ (by decide)

example : ∃ ops : List SessOp, ops.length = 5 ∧ ∀ op ∈ ops, op.Ok :=
  ⟨[.importDirect exDoc, .clone (.str "g") (.str "c"), .load FimVerif.Gen.Serial.topologyLoad (.str "c") .string exDoc (.str ""),
    .delete (.str "c"), .edit id], rfl, by
    intro op hop
    simp only [List.mem_cons, List.not_mem_nil, or_false] at hop
    rcases hop with rfl | rfl | rfl | rfl | rfl
    · exact exDoc_wf
    · trivial
    · exact ⟨by decide, exDoc_wf⟩
    · trivial
    · exact fun _ h => h⟩

example : ∃ ops : List DSessOp, ops.length = 4 ∧ ∀ op ∈ ops, op.Ok :=
  ⟨[.importDirect exDoc, .load FimVerif.Gen.Serial.topologyLoad (.str "x") .file exDoc (.str ""), .delete (.str "g"), .edit id], rfl, by
    intro op hop
    simp only [List.mem_cons, List.not_mem_nil, or_false] at hop
    rcases hop with rfl | rfl | rfl | rfl
    · exact exDoc_wf
    · exact ⟨by decide, exDoc_wf⟩
    · trivial
    · exact fun _ h => h⟩

example : (dValidate FimVerif.Gen.Serial.jsonPropertyNames (fun _ => true) exDStore (.str "g")).1 = .ok () := rfl

/-! ## Round 4: graphs that live next to other graphs (merge_nodes), value shapes of the JSON-validated properties -/

/-- the Boolean the driver evaluates on every store handed over by the harness is the invariant of the theorems -/
theorem invB_iff (s : Store) : s.invB = true ↔ StoreInv s := by
  unfold Store.invB StoreInv
  simp only [Bool.and_eq_true, decide_eq_true_eq, List.all_eq_true, List.contains_iff_mem]
  constructor
  · rintro ⟨⟨h1, h2⟩, h3⟩
    exact ⟨h1, h2, h3⟩
  · rintro ⟨h1, h2, h3⟩
    exact ⟨⟨h1, h2⟩, h3⟩

/-- the edges of the store `extract_graph(g)` reads: those with both ends stamped with `g` (the induced subgraph;
    an edge leading out of the graph - `merge_nodes` leaves such - is not one of them) -/
def ownEdges (s : Store) (g : Val) : List (Edge Nat) :=
  s.edges.filter fun e => ((s.graphNodes g).map (·.iid)).contains e.a && ((s.graphNodes g).map (·.iid)).contains e.b

theorem extract_frame (s s' : Store) (g : Val) (hn : s'.graphNodes g = s.graphNodes g) (he : ownEdges s' g = ownEdges s g) :
    s'.extract g = s.extract g := by
  unfold ownEdges at he
  rw [hn] at he
  unfold Store.extract
  simp only [hn, he]

/-- **Frame theorem for `serialize_graph`.**  The text of graph `g` (either format, including every error) is a
    function of the nodes stamped with `g` and of the edges among them only: two stores that agree on these - whatever
    other graphs they hold, whatever edges lead from `g` into those graphs or join them, whatever `start_id` is -
    serialize `g` to the same document. -/
theorem serialize_frame (s s' : Store) (g : Val) (f : Fmt) (hn : s'.graphNodes g = s.graphNodes g)
    (he : ownEdges s' g = ownEdges s g) : serialize s' g f = serialize s g f := by
  unfold serialize
  rw [extract_frame s s' g hn he]

/-- the same for `validate_graph`'s JSON part is false on the shared store (it looks at the `Class` of every node and
    edge of the store); what the frame gives for the round trip: nodes of other graphs and edges with an end outside
    `g`, added anywhere behind the store's own, do not change the document -/
theorem serialize_ignores_foreign (s : Store) (g : Val) (f : Fmt) (ns : List SNode) (es : List (Edge Nat)) (k : Nat)
    (hns : ∀ n ∈ ns, Store.inGraph g n = false)
    (hes : ∀ e ∈ es, e.a ∉ (s.graphNodes g).map (·.iid) ∨ e.b ∉ (s.graphNodes g).map (·.iid)) :
    serialize ⟨s.nodes ++ ns, s.edges ++ es, k⟩ g f = serialize s g f := by
  have hn : (⟨s.nodes ++ ns, s.edges ++ es, k⟩ : Store).graphNodes g = s.graphNodes g := by
    simp only [Store.graphNodes, List.filter_append]
    have : ns.filter (Store.inGraph g) = [] := by
      rw [List.filter_eq_nil_iff]
      intro n hn
      simp [hns n hn]
    rw [this, List.append_nil]
  apply serialize_frame _ _ g f hn
  unfold ownEdges
  rw [hn]
  simp only [List.filter_append]
  have : es.filter (fun e => ((s.graphNodes g).map (·.iid)).contains e.a && ((s.graphNodes g).map (·.iid)).contains e.b) = [] := by
    rw [List.filter_eq_nil_iff]
    intro e he
    rcases hes e he with h | h
    · simp [h]
    · simp [h]
  rw [this, List.append_nil]

/-- non-vacuity: two graphs in one store after `A.merge_nodes('port-1', B)`: the edge 3-2 leads from B's switch to
    A's port; A's document is the one of the store that holds A alone -/
def exMerged : Store :=
  ⟨[⟨1, [("GraphID", .str "A"), ("NodeID", .str "sw-A"), ("Class", .str "NetworkNode"), ("UserData", .str "7")]⟩,
    ⟨2, [("GraphID", .str "A"), ("NodeID", .str "port-1"), ("Class", .str "ConnectionPoint"), ("Tags", .str "\"x\"")]⟩,
    ⟨3, [("GraphID", .str "B"), ("NodeID", .str "sw-B"), ("Class", .str "NetworkNode")]⟩],
   [⟨1, 2, [("Class", .str "connects")]⟩, ⟨3, 2, [("Class", .str "connects")]⟩], 5⟩

def exAlone : Store := ⟨exMerged.nodes.take 2, exMerged.edges.take 1, 3⟩

example : exMerged.invB = true ∧ ownEdges exMerged (.str "A") = ownEdges exAlone (.str "A") ∧
    exMerged.graphNodes (.str "A") = exAlone.graphNodes (.str "A") ∧ exMerged.edges ≠ exAlone.edges := by decide

example (f : Fmt) : serialize exMerged (.str "A") f = serialize exAlone (.str "A") f :=
  serialize_frame exAlone exMerged (.str "A") f (by decide) (by decide)

/-! ### `validate_graph` over what the setters write -/

/-- a JSON-validated property as the setters leave it: absent, or a text that is empty, `"None"`, or accepted by
    `json.loads` - *any* JSON value, scalars included (`UserData(7).json = "7"`, `Tags.to_json()`, …) -/
def SetterValue (jsonOk : String → Bool) : Option Val → Prop
  | none => True
  | some (.str t) => t = "" ∨ t = "None" ∨ jsonOk t = true
  | some _ => False

def SetterProduced (names : List String) (jsonOk : String → Bool) (a : Attrs) : Prop :=
  ∀ name ∈ names, SetterValue jsonOk (a.get? name)

theorem checkJsonProp_setter (jsonOk : String → Bool) (a : Attrs) (name : String) (h : SetterValue jsonOk (a.get? name)) :
    checkJsonProp jsonOk a name = .ok () := by
  unfold checkJsonProp
  by_cases hc : name = "Class"
  · simp only [hc, if_true]
  · simp only [hc, if_false]
    cases hv : a.get? name with
    | none => rfl
    | some v =>
      rw [hv] at h
      cases v with
      | str t =>
        simp only [SetterValue] at h
        rcases h with h | h | h
        · simp [h]
        · simp [h]
        · by_cases h1 : t = "" ∨ t = "None"
          · simp [h1]
          · simp [h1, h]
      | int i => exact absurd h (by simp [SetterValue])
      | bool b => exact absurd h (by simp [SetterValue])
      | float r => exact absurd h (by simp [SetterValue])
      | other d => exact absurd h (by simp [SetterValue])

theorem filter_unique {α β : Type} (f : α → β) (p : α → Bool) : ∀ (l : List α), (l.map f).Nodup → ∀ a ∈ l,
    (∀ x, p x = true ↔ f x = f a) → l.filter p = [a]
  | [], _, a, ha, _ => by cases ha
  | x :: t, hnd, a, ha, hp => by
    simp only [List.map_cons, List.nodup_cons, List.mem_map, not_exists, not_and] at hnd
    rcases List.mem_cons.mp ha with rfl | hat
    · have : t.filter p = [] := by
        rw [List.filter_eq_nil_iff]
        intro y hy hpy
        exact hnd.1 y hy ((hp y).mp hpy)
      have hpa : p a = true := (hp a).mpr rfl
      simp [this, hpa]
    · have hne : ¬ (p x = true) := fun h => hnd.1 a hat ((hp x).mp h).symm
      simp only [List.filter_cons, hne]
      exact filter_unique f p t hnd.2 a hat hp

instance (jsonOk : String → Bool) (o : Option Val) : Decidable (SetterValue jsonOk o) := by
  cases o with
  | none => exact isTrue trivial
  | some v => cases v <;> simp only [SetterValue] <;> infer_instance

instance (names : List String) (jsonOk : String → Bool) (a : Attrs) : Decidable (SetterProduced names jsonOk a) := by
  unfold SetterProduced
  infer_instance

/-- **`validate_graph()` accepts every model the setters can produce.**  If the graph `g` is there, its NodeIDs are
    distinct, every node and edge of the store has a `Class`, and every JSON-validated property of its nodes is
    setter-produced (JSON text of any shape - object, list, number, string, boolean, null -, empty or "None"),
    validation passes. `jsonOk` is the verdict of `json.loads`, passed in by the harness for every text in the store. -/
theorem validate_setter_produced (names : List String) (jsonOk : String → Bool) (s : Store) (g : Val)
    (hne : s.graphNodes g ≠ [])
    (hnid : ∀ n ∈ s.graphNodes g, n.attrs.get? "NodeID" ≠ none)
    (huniq : ((s.graphNodes g).map fun n => n.attrs.get? "NodeID").Nodup)
    (hcn : ∀ n ∈ s.nodes, hasClass n.attrs = true) (hce : ∀ e ∈ s.edges, hasClass e.attrs = true)
    (hset : ∀ n ∈ s.graphNodes g, SetterProduced names jsonOk n.attrs) :
    validate names jsonOk s g = .ok () := by
  unfold validate
  have hemp : (s.graphNodes g).isEmpty = false := by
    cases h : s.graphNodes g with
    | nil => exact absurd h hne
    | cons a t => rfl
  simp only [hemp, Bool.false_eq_true, if_false]
  have hfor : forE (checkNode names jsonOk s g) (s.graphNodes g) = .ok () := by
    rw [forE_ok_iff]
    intro n hn
    unfold checkNode
    cases hv : n.attrs.get? "NodeID" with
    | none => exact absurd hv (hnid n hn)
    | some nid =>
      simp only
      have hfind : findNode s g nid = .ok n := by
        unfold findNode
        have := filter_unique (fun m : SNode => m.attrs.get? "NodeID") (fun m : SNode => m.attrs.get? "NodeID" == some nid)
          (s.graphNodes g) huniq n hn (by intro x; rw [hv]; exact beq_iff_eq)
        rw [this]
      rw [hfind]
      simp only
      have hmem : n ∈ s.nodes := (List.mem_filter.mp hn).1
      have hc := hcn n hmem
      unfold hasClass at hc
      cases hcl : n.attrs.get? "Class" with
      | none => simp [hcl] at hc
      | some v =>
        simp only [Option.isNone_some, Bool.false_eq_true, if_false]
        rw [forE_ok_iff]
        intro name hname
        exact checkJsonProp_setter jsonOk n.attrs name (hset n hn name hname)
  rw [hfor]
  have hall : (s.nodes.all (fun n => hasClass n.attrs) && s.edges.all (fun e => hasClass e.attrs)) = true := by
    simp only [Bool.and_eq_true, List.all_eq_true]
    exact ⟨hcn, hce⟩
  simp only [hall, if_true]

/-- … and after serialising such a model (either format) and importing the text under any id, validation passes:
    "everything the library serializes passes the library's own graph validation after import", for the names the
    repository validates (`Gen.Serial.jsonPropertyNames`) -/
theorem validates_after_import_setter (jsonOk : String → Bool) (s : Store) (hs : StoreInv s) (g g' : Val) (G0 : Graph Nat)
    (hG : s.extract g = some G0) (hid : HasNodeIds G0)
    (f : Fmt) (hk : f = .graphml → KeysNodup G0) (hr : f = .json → NoReserved G0)
    (doc : Doc Nat) (hser : serialize s g f = .ok (some doc))
    (huniq : ((s.graphNodes g).map fun n => n.attrs.get? "NodeID").Nodup)
    (hnid : ∀ n ∈ s.graphNodes g, n.attrs.get? "NodeID" ≠ none)
    (hcn : ∀ n ∈ s.nodes, hasClass n.attrs = true) (hce : ∀ e ∈ s.edges, hasClass e.attrs = true)
    (hset : ∀ n ∈ s.graphNodes g, SetterProduced FimVerif.Gen.Serial.jsonPropertyNames jsonOk n.attrs) :
    validate FimVerif.Gen.Serial.jsonPropertyNames jsonOk (importString s doc g').2 g' = .ok () := by
  have hne : s.graphNodes g ≠ [] := by
    intro h
    unfold Store.extract at hG
    simp [h] at hG
  exact validates_after_import _ jsonOk graphId_not_json_property s hs g g' G0 hG hid f hk hr doc hser
    (validate_setter_produced _ jsonOk s g hne hnid huniq hcn hce hset)

/-- non-vacuity: the merged store above carries `UserData = "7"` (a bare number) and `Tags = "\"x\""` (a bare string) -/
example : exMerged.graphNodes (.str "A") ≠ [] ∧
    ((exMerged.graphNodes (.str "A")).map fun n => n.attrs.get? "NodeID").Nodup ∧
    (∀ n ∈ exMerged.nodes, hasClass n.attrs = true) ∧ (∀ e ∈ exMerged.edges, hasClass e.attrs = true) := by decide

example : ∀ n ∈ exMerged.graphNodes (.str "A"),
    SetterProduced FimVerif.Gen.Serial.jsonPropertyNames (fun t => t == "7" || t == "\"x\"") n.attrs := by decide

example : validate FimVerif.Gen.Serial.jsonPropertyNames (fun t => t == "7" || t == "\"x\"") exMerged (.str "A") = .ok () := rfl

/-! ### state that outlives a call: files written more than once, imports that were refused -/

theorem fs_read_write {κ : Type} (fs : FS κ) (p : String) (d : Doc κ) : (fs.write p d).read p = some d := by
  simp [FS.write, FS.read]

theorem fs_read_write_other {κ : Type} (fs : FS κ) (p q : String) (d : Doc κ) (h : q ≠ p) : (fs.write p d).read q = fs.read q := by
  have : (q == p) = false := by simpa using h
  simp [FS.write, FS.read, List.lookup, this]

theorem getGraphId_ok_readDoc {κ : Type} [DecidableEq κ] (d : Doc κ) (g : Val) (h : getGraphId d = .ok g) :
    ∃ G, readDoc d = some G := by
  unfold getGraphId at h
  cases hr : readDoc d with
  | none => simp [hr] at h
  | some G => exact ⟨G, rfl⟩

/-- the tie: the helper was observed to read the file on every call -/
theorem graphId_follows_file_tie : FimVerif.Gen.Serial.graphIdFollowsFile = true := by decide

/-- **a file is read as what was written to it last**, whatever the process wrote, asked and imported before: the id-keeping
    file import of a path equals the id-keeping string import of the last text written there - for every earlier content of
    the file system and everything the id helper may have answered before (the memo), on both stores -/
theorem file_direct_reads_last_write [DecidableEq κ] (s : Store) (fs : FS κ) (memo : IdMemo) (p : String) (d : Doc κ) :
    (importFileDirect FimVerif.Gen.Serial.graphIdFollowsFile s (fs.write p d) memo p).1 = importDirect s d := by
  rw [graphId_follows_file_tie]
  unfold importFileDirect graphIdOfFile importDirect
  simp only [fs_read_write, if_true, Option.bind_some]
  cases hg : getGraphId d with
  | error e => rfl
  | ok g =>
    obtain ⟨G, hG⟩ := getGraphId_ok_readDoc d g hg
    simp [hG]

theorem dfile_direct_reads_last_write [DecidableEq κ] (s : DStore) (fs : FS κ) (memo : IdMemo) (p : String) (d : Doc κ) :
    (dImportFileDirect FimVerif.Gen.Serial.graphIdFollowsFile s (fs.write p d) memo p).1 = dImportDirect s d := by
  rw [graphId_follows_file_tie]
  unfold dImportFileDirect graphIdOfFile dImportDirect
  simp only [fs_read_write, if_true, Option.bind_some]
  cases hg : getGraphId d with
  | error e => rfl
  | ok g =>
    obtain ⟨G, hG⟩ := getGraphId_ok_readDoc d g hg
    simp [hG]

/-- … and the memo stays empty, so the statement holds again after any number of such calls -/
theorem file_direct_keeps_memo [DecidableEq κ] (s : Store) (fs : FS κ) (memo : IdMemo) (p : String) :
    (importFileDirect FimVerif.Gen.Serial.graphIdFollowsFile s fs memo p).2 = memo := by
  rw [graphId_follows_file_tie]
  unfold importFileDirect graphIdOfFile
  simp only [if_true]
  cases hf : fs.read p with
  | none => rfl
  | some d =>
    cases hg : getGraphId d with
    | error e => simp [hg]
    | ok g =>
      simp only [hg, Option.bind_some]
      cases readDoc d <;> rfl

/-- the reassigning file import never asks the helper: the last text written, whatever was asked before -/
theorem file_reads_last_write [DecidableEq κ] (s : Store) (fs : FS κ) (p : String) (d : Doc κ) (g : Val) :
    importFile s (fs.write p d) p g = importString s d g := by
  simp [importFile, fs_read_write]

/-- what the flag protects: with an id helper that remembers its answer per file name (`follows = false`) a path that was
    asked about while it held a model of graph `g0` is imported under `g0` after it has been rewritten with a model of
    another graph `g` - the second load of a re-used file name does not give the model that was saved -/
theorem file_direct_memo_counterexample [DecidableEq κ] (s : Store) (fs : FS κ) (memo : IdMemo) (p : String) (d : Doc κ) (g g0 : Val)
    (hd : getGraphId d = .ok g) (hne : g0 ≠ g) :
    (importFileDirect false s (fs.write p d) ((p, g0) :: memo) p).1.1 = .ok g0 ∧
    (importFileDirect false s (fs.write p d) ((p, g0) :: memo) p).1.1 ≠ (importDirect s d).1 := by
  obtain ⟨G, hG⟩ := getGraphId_ok_readDoc d g hd
  have h1 : (importFileDirect false s (fs.write p d) ((p, g0) :: memo) p).1.1 = .ok g0 := by
    simp [importFileDirect, graphIdOfFile, fs_read_write, List.lookup, hG]
  refine ⟨h1, ?_⟩
  rw [h1]
  simp [importDirect, hd, hG]
  exact hne

theorem delGraph_free (s : Store) (g : Val) (h : s.graphNodes g = []) : s.delGraph g = s := by
  unfold Store.graphNodes at h
  have hn : ∀ n ∈ s.nodes, Store.inGraph g n = false := by
    intro n hn
    cases hb : Store.inGraph g n with
    | false => rfl
    | true =>
      have : n ∈ s.nodes.filter (Store.inGraph g) := List.mem_filter.mpr ⟨hn, hb⟩
      rw [h] at this
      cases this
  cases s with
  | mk nodes edges nextId =>
    simp only [Store.delGraph, Store.graphNodes] at *
    have hnodes : nodes.filter (fun n => !Store.inGraph g n) = nodes :=
      List.filter_eq_self.mpr (by intro n hn'; simp [hn n hn'])
    rw [h]
    simp [hnodes]

theorem addGraph_error_store [DecidableEq κ] (s : Store) (g : Val) (G : Graph κ) (e : String)
    (h : (s.addGraph g G).1 = .error e) : (s.addGraph g G).2 = s.delGraph g := by
  simp only [Store.addGraph] at h ⊢
  split at h
  · simp at h
  · rename_i hc
    simp only [hc]
    rfl

theorem dAddGraph_go_error_store [DecidableEq κ] (s : DStore) (g : Val) (G : Graph κ) (e : String)
    (h : (DStore.addGraph.go s g G).1 = .error e) : (DStore.addGraph.go s g G).2 = s := by
  simp only [DStore.addGraph.go] at h ⊢
  split at h
  · simp at h
  · rename_i hc
    simp only [hc]
    rfl

/-- the tie: refused imports under free ids were observed to leave the store alone -/
theorem refused_import_tie : FimVerif.Gen.Serial.refusedImportLeavesStore = true := by decide

/-- **a refused import leaves nothing behind**: whatever the text, a reassigning import (string or file) that ends in an error
    leaves either the store as it was or the store without the graph of the requested id - never a node of the refused text, and
    the next internal id is unchanged -/
theorem refused_import_leaves_nothing [DecidableEq κ] (s : Store) (d : Doc κ) (g : Val) (e : String)
    (h : (importString s d g).1 = .error e) :
    ((importString s d g).2 = s ∨ (importString s d g).2 = s.delGraph g) ∧ (importString s d g).2.nextId = s.nextId := by
  unfold importString at h ⊢
  cases hr : readDoc d with
  | none => simp
  | some G =>
    simp only [hr] at h ⊢
    by_cases hemp : G.nodes.isEmpty = true
    · simp [hemp]
    · simp only [hemp, Bool.false_eq_true, if_false] at h ⊢
      have key := addGraph_error_store s g G
      cases hag : s.addGraph g G with
      | mk r s' =>
        rw [hag] at h key
        cases r with
        | ok _ => simp at h
        | error e' =>
          have := key e' rfl
          simp only at this ⊢
          subst this
          exact ⟨Or.inr rfl, rfl⟩

/-- under an id nobody holds the store is exactly what it was, so every later import, load or clone - and every round-trip
    theorem above - is what it would have been without the refused call -/
theorem refused_import_free_id [DecidableEq κ] (s : Store) (d : Doc κ) (g : Val) (e : String)
    (hfree : s.graphNodes g = []) (h : (importString s d g).1 = .error e) : (importString s d g).2 = s := by
  rcases (refused_import_leaves_nothing s d g e h).1 with h1 | h1
  · exact h1
  · rw [h1, delGraph_free s g hfree]

/-- the id-keeping entry points refuse before they touch the store -/
theorem refused_direct_import_unchanged [DecidableEq κ] (s : Store) (d : Doc κ) (e : String)
    (h : (importDirect s d).1 = .error e) : (importDirect s d).2 = s := by
  unfold importDirect at h ⊢
  cases hg : getGraphId d with
  | error e' => rfl
  | ok g =>
    simp only [hg] at h ⊢
    cases hr : readDoc d with
    | none => rfl
    | some G => simp [hr] at h

/-- the per-graph store: a refused import of either kind leaves the store as it was -/
theorem drefused_import_unchanged [DecidableEq κ] (s : DStore) (d : Doc κ) (g : Val) (e : String)
    (h : (dImportString s d g).1 = .error e) : (dImportString s d g).2 = s := by
  unfold dImportString at h ⊢
  cases hr : readDoc d with
  | none => rfl
  | some G =>
    simp only [hr] at h ⊢
    by_cases hemp : G.nodes.isEmpty = true
    · simp [hemp]
    · simp only [hemp, Bool.false_eq_true, if_false] at h ⊢
      have hgo := dAddGraph_go_error_store s g G
      unfold DStore.addGraph at h ⊢
      cases hl : s.graphs.lookup g with
      | none =>
        simp only [hl] at h ⊢
        cases hag : DStore.addGraph.go s g G with
        | mk r s' =>
          rw [hag] at h
          cases r with
          | ok _ => simp at h
          | error e' => have := hgo e' (by rw [hag]); rw [hag] at this; simpa using this
      | some old =>
        simp only [hl] at h ⊢
        by_cases hold : old.nodes.isEmpty = true
        · simp only [hold, Bool.not_true, Bool.false_eq_true, if_false] at h ⊢
          cases hag : DStore.addGraph.go s g G with
          | mk r s' =>
            rw [hag] at h
            cases r with
            | ok _ => simp at h
            | error e' => have := hgo e' (by rw [hag]); rw [hag] at this; simpa using this
        · simp [hold] at h

/-- a text the importer refuses after a complete node: the second node has no NodeID; every node carries a property no model has -/
def exRefusedDoc : Doc Nat :=
  .json { directed := false, multigraph := false,
          nodes := [[("NodeID", .v (.str "w1")), ("Class", .v (.str "NetworkNode")), ("GraphID", .v (.str "x")), ("Residue", .v (.str "left")), ("id", .k 0)],
                    [("Class", .v (.str "Component")), ("GraphID", .v (.str "x")), ("Residue", .v (.str "left")), ("id", .k 1)]],
          edges := [[("Class", .v (.str "has")), ("source", .k 0), ("target", .k 1)]] }

/-- non-vacuity: the text is refused, under an id nobody holds, and the store it meets is not empty -/
example : (importString exMerged exRefusedDoc (.str "draft")).1 = .error "import" ∧ exMerged.graphNodes (.str "draft") = [] ∧
    (importString exMerged exRefusedDoc (.str "draft")).2 = exMerged := ⟨rfl, rfl, rfl⟩

/-- non-vacuity (held id): the refused text takes the graph of that id with it, and nothing else -/
example : (importString exMerged exRefusedDoc (.str "A")).1 = .error "import" ∧
    (importString exMerged exRefusedDoc (.str "A")).2 = exMerged.delGraph (.str "A") ∧ exMerged.delGraph (.str "A") ≠ exMerged :=
  ⟨rfl, rfl, by decide⟩

def exMixedDoc : Doc Nat :=
  .json { directed := false, multigraph := false,
          nodes := [[("NodeID", .v (.str "w1")), ("GraphID", .v (.str "x")), ("id", .k 0)],
                    [("NodeID", .v (.str "w2")), ("GraphID", .v (.str "y")), ("id", .k 1)]],
          edges := [] }

def exOneNodeDoc : Doc Nat :=
  .json { directed := false, multigraph := false,
          nodes := [[("NodeID", .v (.str "w1")), ("GraphID", .v (.str "x")), ("id", .k 0)]], edges := [] }

/-- non-vacuity: a text with two graph ids is refused by the id-keeping entry points -/
example : (importDirect exMerged exMixedDoc).1 = .error "import" := rfl

/-- non-vacuity of the memo counterexample: a text of graph `x`, a path last asked about while it held graph `A` -/
example : getGraphId exOneNodeDoc = .ok (.str "x") ∧ (Val.str "A") ≠ .str "x" := ⟨rfl, by decide⟩

/-- non-vacuity on the per-graph store -/
example : (dImportString exDStore exRefusedDoc (.str "draft")).1 = .error "import" := rfl

end FimVerif.C01
