import FimVerif.Model.GraphML
import FimVerif.Proofs.Lemmas.C01Doc
import FimVerif.Proofs.Lemmas.C01Iter
import FimVerif.Proofs.Lemmas.C01Store
import FimVerif.Proofs.Lemmas.C01Equiv
/-!
# C01 — model serialization round trip is lossless and re-importable

Document level (see `Model/GraphML.lean`): all theorems quantify over every store / graph /
document of the model.  Character-level fidelity (escaping, `str`/`int`) is third-party
code and is established only differentially; the claim is therefore *partial*.
-/
namespace FimVerif.C01
open FimVerif.GraphML

variable {κ : Type}

theorem mapOpt_mem {α β : Type} (f : α → Option β) : ∀ (l : List α) (r : List β), mapOpt f l = some r →
    ∀ x ∈ l, ∃ v, f x = some v ∧ v ∈ r
  | [], _, _, x, hx => by cases hx
  | a :: t, r, h, x, hx => by
    unfold mapOpt at h
    cases hfa : f a with
    | none => simp [hfa] at h
    | some b =>
      cases hft : mapOpt f t with
      | none => simp [hfa, hft] at h
      | some bs =>
        simp [hfa, hft] at h
        subst h
        rcases List.mem_cons.mp hx with rfl | hx'
        · exact ⟨b, hfa, List.mem_cons_self⟩
        · obtain ⟨v, hv, hm⟩ := mapOpt_mem f t bs hft x hx'
          exact ⟨v, hv, List.mem_cons_of_mem _ hm⟩

/-- a document whose nodes carry different GraphIDs is rejected by `get_graph_id`, hence by
    both direct entry points, and the store is left untouched -/
theorem mixed_graph_ids_rejected [DecidableEq κ] (s : Store) (d : Doc κ) (G : Graph κ) (hr : readDoc d = some G)
    (p q : κ × Attrs) (hp : p ∈ G.nodes) (hq : q ∈ G.nodes)
    (hne : p.2.get? "GraphID" ≠ q.2.get? "GraphID") :
    getGraphId d = .error "import" ∧ importDirect s d = (.error "import", s) := by
  have h1 : getGraphId d = .error "import" := by
    unfold getGraphId
    rw [hr]
    simp only
    split
    · rfl
    · split
      · rfl
      · rename_i ids hids
        have hall := mapOpt_mem _ _ _ hids
        split
        · rfl
        · rename_i g rest
          split
          · rename_i hall'
            exfalso
            obtain ⟨vp, hvp, hmp⟩ := hall p hp
            obtain ⟨vq, hvq, hmq⟩ := hall q hq
            have eqg : ∀ v ∈ g :: rest, v = g := by
              intro v hv
              rcases List.mem_cons.mp hv with rfl | hv'
              · rfl
              · have := List.all_eq_true.mp hall' v hv'
                simpa using this
            apply hne
            rw [hvp, hvq, eqg vp hmp, eqg vq hmq]
          · rfl
  refine ⟨h1, ?_⟩
  unfold importDirect
  rw [h1]

example : ∃ (d : Doc Nat) (G : Graph Nat) (p q : Nat × Attrs), readDoc d = some G ∧ p ∈ G.nodes ∧ q ∈ G.nodes ∧
    p.2.get? "GraphID" ≠ q.2.get? "GraphID" :=
  ⟨.json ⟨false, false, [[("GraphID", .v (.str "a")), ("id", .k 1)], [("GraphID", .v (.str "b")), ("id", .k 2)]], []⟩,
   ⟨[(1, [("GraphID", .str "a")]), (2, [("GraphID", .str "b")])], []⟩,
   (1, [("GraphID", .str "a")]), (2, [("GraphID", .str "b")]), by decide, by decide, by decide, by decide⟩

/-- every node element produced by `networkx_to_neo4j` from an unlabelled element carries
    `labels = ":GraphNode:" ++ text` of one of its own data elements under the class key -/
theorem markNode_labels (ck : Option Nat) (n n' : GNode κ) (h : markNode ck n = .ok n') (hn : n.labels = none) :
    ∃ d ∈ n.data, some d.key = ck ∧ d.val.pyStr ≠ "" ∧
      n' = { n with labels := some (":GraphNode:" ++ d.val.pyStr) } := by
  unfold markNode classText at h
  rw [hn] at h
  cases ck with
  | none => simp at h
  | some k =>
    simp only at h
    cases hf : n.data.find? (fun d => d.key == k) with
    | none => simp [hf] at h
    | some d =>
      rw [hf] at h
      by_cases he : d.val.pyStr = ""
      · simp [he] at h
      · simp [he] at h
        refine ⟨d, List.mem_of_find?_eq_some hf, ?_, he, h.symm⟩
        have := List.find?_some hf
        simp at this
        rw [this]

theorem markNode_id_data (ck : Option Nat) (n n' : GNode κ) (h : markNode ck n = .ok n') :
    n'.id = n.id ∧ n'.data = n.data := by
  unfold markNode at h
  split at h
  · cases h
  · split at h
    · split at h <;> (cases h; exact ⟨rfl, rfl⟩)
    · cases h; exact ⟨rfl, rfl⟩

theorem markEdge_data (ck : Option Nat) (e e' : GEdge κ) (h : markEdge ck e = .ok e') :
    e'.source = e.source ∧ e'.target = e.target ∧ e'.data = e.data := by
  unfold markEdge at h
  split at h
  · cases h
  · split at h
    · split at h <;> (cases h; exact ⟨rfl, rfl, rfl⟩)
    · cases h; exact ⟨rfl, rfl, rfl⟩

/-- attribute names are unique inside every attribute dict (they are Python dicts) -/
def KeysNodup (G : Graph κ) : Prop :=
  (∀ p ∈ G.nodes, (p.2.map (·.1)).Nodup) ∧ (∀ e ∈ G.edges, (e.attrs.map (·.1)).Nodup)

instance (G : Graph κ) : Decidable (KeysNodup G) := by unfold KeysNodup; exact inferInstance

theorem edgesIter_keysNodup [DecidableEq κ] (G : Graph κ) (h : KeysNodup G) :
    ∀ e ∈ G.edgesIter, (e.attrs.map (·.1)).Nodup := by
  intro e he
  obtain ⟨_, _, e0, he0, hat, _⟩ := mem_iterFrom G.edges G.keys [] e he
  rw [hat]; exact h.2 e0 he0

/-- **GraphML round trip, document level.**  For every graph whose attribute values GraphML can
    type (`toGraphML` succeeds) and whose label markup can be written (`toNeo4j` succeeds — every
    node and edge has a non-empty `Class`), reading the emitted document gives back exactly the
    nodes with their attribute dicts (names, values *and value types*, in order) and exactly the
    edges `G.edges()` reports, with their attribute dicts. -/
theorem roundtrip_graphml_doc [DecidableEq κ] (G : Graph κ) (hk : KeysNodup G) (d d' : GDoc κ)
    (h : toGraphML G = .ok d) (h' : toNeo4j d = .ok d') :
    fromGraphML d' = .ok ⟨G.nodes, iterFrom G.edgesIter [] G.keys⟩ := by
  unfold toGraphML at h
  cases halloc : allocKeys G.allSpecs with
  | none => simp [halloc] at h
  | some tbl =>
    simp only [halloc, Except.ok.injEq] at h
    obtain ⟨_, hall⟩ := allocKeys_spec _ _ halloc
    unfold toNeo4j at h'
    cases hme : mapE (markEdge (classKey d.keys .edge)) d.edges with
    | error e => simp [hme] at h'
    | ok es' =>
      cases hmn : mapE (markNode (classKey d.keys .node)) d.nodes with
      | error e => simp [hme, hmn] at h'
      | ok ns' =>
        simp only [hme, hmn, Except.ok.injEq] at h'
        subst h'
        have hkeys : d.keys = docKeys tbl := by rw [← h]
        have hnodes : d.nodes = G.nodes.map fun p => (⟨p.1, none, dataOf tbl .node p.2⟩ : GNode κ) := by rw [← h]
        have hedges : d.edges = G.edgesIter.map fun e => (⟨e.a, e.b, none, dataOf tbl .edge e.attrs⟩ : GEdge κ) := by rw [← h]
        have rn : mapE (readNode d.keys) ns' = .ok G.nodes := by
          rw [mapE_congr_of_ok (markNode (classKey d.keys .node)) (readNode d.keys) _ d.nodes ns' hmn]
          · rw [hnodes, hkeys]
            apply mapE_map_ok
            intro p hp
            have hs := specs_in_table tbl .node p.2 G.allSpecs
              (by
                intro s hs
                unfold Graph.allSpecs
                exact List.mem_append_left _ (List.mem_flatMap.mpr ⟨p, hp, hs⟩)) hall
            simp only [readNode]
            rw [decodeData_dataOf tbl .node p.2 hs (hk.1 p hp)]
          · intro a a' ha
            obtain ⟨h1, h2⟩ := markNode_id_data _ a a' ha
            simp [readNode, h1, h2]
        have re : mapE (readEdge d.keys) es' = .ok G.edgesIter := by
          rw [mapE_congr_of_ok (markEdge (classKey d.keys .edge)) (readEdge d.keys) _ d.edges es' hme]
          · rw [hedges, hkeys]
            apply mapE_map_ok
            intro e he
            have hs := specs_in_table tbl .edge e.attrs G.allSpecs
              (by
                intro s hs
                unfold Graph.allSpecs
                exact List.mem_append_right _ (List.mem_flatMap.mpr ⟨e, he, hs⟩)) hall
            simp only [readEdge]
            rw [decodeData_dataOf tbl .edge e.attrs hs (edgesIter_keysNodup G hk e he)]
          · intro a a' ha
            obtain ⟨h1, h2, h3⟩ := markEdge_data _ a a' ha
            simp [readEdge, h1, h2, h3]
        simp only [fromGraphML, rn, re]
        rfl

example : ∃ (G : Graph Nat) (d d' : GDoc Nat), KeysNodup G ∧ toGraphML G = .ok d ∧ toNeo4j d = .ok d' ∧ G.edges ≠ [] :=
  ⟨⟨[(1, [("GraphID", .str "g"), ("Class", .str "NetworkNode"), ("n", .int 5)]), (2, [("Class", .str "Component"), ("n", .str "5")])],
     [⟨2, 1, [("Class", .str "has")]⟩]⟩, _, _, by decide, rfl, rfl, by decide⟩

/-! ### node-link JSON -/

/-- no attribute is named like a reserved key of the node-link format -/
def NoReserved (G : Graph κ) : Prop :=
  (∀ p ∈ G.nodes, "id" ∉ p.2.map (·.1)) ∧
  (∀ e ∈ G.edges, "source" ∉ e.attrs.map (·.1) ∧ "target" ∉ e.attrs.map (·.1))

instance (G : Graph κ) : Decidable (NoReserved G) := by unfold NoReserved; exact inferInstance

theorem readJNode_toJSON (n : κ) (a : Attrs) (h : "id" ∉ a.map (·.1)) :
    readJNode ((attrsObj a).set "id" (.k n)) = .ok (n, a) := by
  rw [JObj.set_not_mem _ _ _ (by rw [attrsObj_keys]; exact h)]
  have hk : objKey (attrsObj a ++ [("id", JV.k n)]) "id" = .ok n := by
    unfold objKey
    rw [lookup_attrsObj_append "id" _ a h]
    simp [List.lookup]
  have ha : objAttrs (attrsObj a ++ [("id", JV.k n)]) ["id"] = .ok a := by
    unfold objAttrs
    rw [List.filter_append, filter_attrsObj ["id"] a (by simpa using h)]
    simp
    exact mapE_attrsObj a
  simp [readJNode, hk, ha]

theorem readJEdge_toJSON (e : Edge κ) (hs : "source" ∉ e.attrs.map (·.1)) (ht : "target" ∉ e.attrs.map (·.1)) :
    readJEdge (((attrsObj e.attrs).set "source" (.k e.a)).set "target" (.k e.b)) = .ok e := by
  rw [JObj.set_not_mem _ "source" _ (by rw [attrsObj_keys]; exact hs)]
  rw [JObj.set_not_mem _ "target" _ (by
    simp only [List.map_append, attrsObj_keys, List.map_cons, List.map_nil, List.mem_append, List.mem_singleton, not_or]
    exact ⟨ht, by decide⟩)]
  have h1 : objKey (attrsObj e.attrs ++ [("source", JV.k e.a)] ++ [("target", JV.k e.b)]) "source" = .ok e.a := by
    unfold objKey
    rw [List.append_assoc, lookup_attrsObj_append "source" _ e.attrs hs]
    simp [List.lookup]
  have h2 : objKey (attrsObj e.attrs ++ [("source", JV.k e.a)] ++ [("target", JV.k e.b)]) "target" = .ok e.b := by
    unfold objKey
    rw [List.append_assoc, lookup_attrsObj_append "target" _ e.attrs ht]
    simp [List.lookup]
  have h3 : objAttrs (attrsObj e.attrs ++ [("source", JV.k e.a)] ++ [("target", JV.k e.b)]) ["source", "target"] = .ok e.attrs := by
    unfold objAttrs
    rw [List.filter_append, List.filter_append, filter_attrsObj ["source", "target"] e.attrs (by
      intro r hr
      simp at hr
      rcases hr with rfl | rfl
      · exact hs
      · exact ht)]
    simp
    exact mapE_attrsObj e.attrs
  unfold readJEdge
  rw [h1, h2, h3]

/-- **node-link JSON round trip, document level.**  Nodes with their attribute dicts (all value
    types, including the ones GraphML rejects) and the edges `G.edges()` reports come back
    exactly — provided no attribute is named like a reserved key of the format. -/
theorem roundtrip_json_doc [DecidableEq κ] (G : Graph κ) (hr : NoReserved G) :
    fromJSON (toJSON G) = .ok ⟨G.nodes, G.edgesIter⟩ := by
  have rn : mapE readJNode (toJSON G).nodes = .ok G.nodes := by
    simp only [toJSON]
    apply mapE_map_ok
    intro p hp
    exact readJNode_toJSON p.1 p.2 (hr.1 p hp)
  have re : mapE readJEdge (toJSON G).edges = .ok G.edgesIter := by
    simp only [toJSON]
    apply mapE_map_ok
    intro e he
    obtain ⟨_, _, e0, he0, hat, _⟩ := mem_iterFrom G.edges G.keys [] e he
    have := hr.2 e0 he0
    rw [← hat] at this
    exact readJEdge_toJSON e this.1 this.2
  unfold fromJSON
  rw [rn, re]
  simp [toJSON]

example : NoReserved (⟨[(1, [("Class", .str "NetworkNode")]), (2, [("Class", .str "Component")])],
    [⟨2, 1, [("Class", .str "has")]⟩]⟩ : Graph Nat) := by decide

/-- the full statement (no `NoReserved` hypothesis) is false for the code as it is: a node
    property named `id` is overwritten by the node key and lost (known finding
    `C01:json:property-named-id`, replayed by `corpus/C01/prop_named_id.json`) -/
theorem roundtrip_json_counterexample :
    ∃ G : Graph Nat, fromJSON (toJSON G) ≠ .ok ⟨G.nodes, G.edgesIter⟩ :=
  ⟨⟨[(1, [("NodeID", .str "a"), ("id", .str "user-value")])], []⟩, by
    intro h
    have h2 : fromJSON (toJSON (⟨[(1, [("NodeID", .str "a"), ("id", .str "user-value")])], []⟩ : Graph Nat))
        = .ok ⟨[(1, [("NodeID", .str "a")])], []⟩ := by rfl
    rw [h2] at h
    simp [Graph.edgesIter, iterFrom] at h⟩

/-! ### the store: importing -/

/-- well-formed `nx.Graph` value: distinct node keys, edge endpoints are nodes -/
def GraphWF (G : Graph κ) : Prop :=
  G.keys.Nodup ∧ ∀ e ∈ G.edges, e.a ∈ G.keys ∧ e.b ∈ G.keys

/-- every node has a truthy `NodeID` (what `add_graph` checks) -/
def HasNodeIds (G : Graph κ) : Prop :=
  ∀ p ∈ G.nodes, ((p.2.get? "NodeID").map Val.truthy).getD false = true

instance (G : Graph κ) : Decidable (HasNodeIds G) := by unfold HasNodeIds; exact inferInstance
instance (s : Store) : Decidable (StoreInv s) := by unfold StoreInv; exact inferInstance

/-- the copy `add_graph` stores: node `k` becomes `start + position of k`, `GraphID` is stamped -/
def stampedCopy [DecidableEq κ] (G : Graph κ) (start : Nat) (g : Val) : Graph Nat :=
  { nodes := G.nodes.map fun p => (start + G.keys.idxOf p.1, p.2.set "GraphID" g),
    edges := G.edgesIter.map (ren fun k => start + G.keys.idxOf k) }

/-- the copy `add_graph_direct` stores -/
def directCopy [DecidableEq κ] (G : Graph κ) (start : Nat) : Graph Nat :=
  { nodes := G.nodes.map fun p => (start + G.keys.idxOf p.1, p.2),
    edges := G.edgesIter.map (ren fun k => start + G.keys.idxOf k) }

theorem edgesIter_ends [DecidableEq κ] (G : Graph κ) (h : GraphWF G) : ∀ e ∈ G.edgesIter, e.a ∈ G.keys ∧ e.b ∈ G.keys := by
  intro e he
  obtain ⟨h1, _, e0, he0, _, hor⟩ := mem_iterFrom G.edges G.keys [] e he
  refine ⟨h1, ?_⟩
  rcases hor with ⟨_, hb⟩ | ⟨_, hb⟩
  · exact hb ▸ (h.2 e0 he0).2
  · exact hb ▸ (h.2 e0 he0).1

/-- the relabelled edges are already in iteration order for the relabelled node list -/
theorem iter_relabelled [DecidableEq κ] (G : Graph κ) (h : GraphWF G) (start : Nat) :
    iterFrom (G.edgesIter.map (ren fun k => start + G.keys.idxOf k)) [] (G.keys.map fun k => start + G.keys.idxOf k)
      = G.edgesIter.map (ren fun k => start + G.keys.idxOf k) := by
  have hinj : ∀ x ∈ G.keys, ∀ y ∈ G.keys, start + G.keys.idxOf x = start + G.keys.idxOf y → x = y :=
    fun x hx y hy e => idxOf_inj G.keys x hx y hy (by omega)
  have := iterFrom_map (fun k => start + G.keys.idxOf k) G.keys hinj G.edgesIter (edgesIter_ends G h) G.keys []
    (fun _ hx => hx) (by simp)
  simp only [List.map_nil] at this
  rw [this]
  unfold Graph.edgesIter
  rw [iter_idem G.edges G.keys h.1]

/-- what `extract_graph` returns after merging a copy whose nodes are all tagged `g` -/
theorem extract_after_merge [DecidableEq κ] (s : Store) (hs : StoreInv s) (g : Val) (G : Graph κ) (hw : GraphWF G)
    (hne : G.nodes ≠ []) (at' : Attrs → Attrs) (htag : ∀ p ∈ G.nodes, (at' p.2).get? "GraphID" = some g) :
    ((s.delGraph g).merge
        { nodes := G.nodes.map fun p => (s.nextId + G.keys.idxOf p.1, at' p.2),
          edges := G.edgesIter.map (ren fun k => s.nextId + G.keys.idxOf k) }).extract g
      = some { nodes := G.nodes.map fun p => (s.nextId + G.keys.idxOf p.1, at' p.2),
               edges := G.edgesIter.map (ren fun k => s.nextId + G.keys.idxOf k) } := by
  have hkeys : (G.nodes.map fun p => (s.nextId + G.keys.idxOf p.1, at' p.2)).map (·.1)
      = G.keys.map fun k => s.nextId + G.keys.idxOf k := by
    simp [Graph.keys, List.map_map, Function.comp_def]
  have hit := iter_relabelled G hw s.nextId
  have hit' : iterFrom (G.edgesIter.map (ren fun k => s.nextId + G.keys.idxOf k)) []
      ((G.nodes.map fun p => (s.nextId + G.keys.idxOf p.1, at' p.2)).map (·.1))
      = G.edgesIter.map (ren fun k => s.nextId + G.keys.idxOf k) := by rw [hkeys]; exact hit
  have hm : (s.delGraph g).merge
        { nodes := G.nodes.map fun p => (s.nextId + G.keys.idxOf p.1, at' p.2),
          edges := G.edgesIter.map (ren fun k => s.nextId + G.keys.idxOf k) }
      = ⟨(s.delGraph g).nodes ++ (G.nodes.map fun p => (s.nextId + G.keys.idxOf p.1, at' p.2)).map (fun p => ⟨p.1, p.2⟩),
         (s.delGraph g).edges ++ G.edgesIter.map (ren fun k => s.nextId + G.keys.idxOf k),
         (s.delGraph g).nextId + (G.nodes.map fun p => (s.nextId + G.keys.idxOf p.1, at' p.2)).length⟩ := by
    simp only [Store.merge, Graph.edgesIter, Graph.keys]
    rw [show iterFrom (List.map (ren fun k => s.nextId + List.idxOf k (List.map (fun x => x.fst) G.nodes))
          (iterFrom G.edges [] (List.map (fun x => x.fst) G.nodes))) []
        (List.map (fun x => x.fst) (List.map (fun p => (s.nextId + List.idxOf p.fst (List.map (fun x => x.fst) G.nodes), at' p.snd)) G.nodes))
        = List.map (ren fun k => s.nextId + List.idxOf k (List.map (fun x => x.fst) G.nodes))
          (iterFrom G.edges [] (List.map (fun x => x.fst) G.nodes)) from hit']
  rw [hm]
  apply extract_merge (s.delGraph g) g _ _ (delGraph_graphNodes s g) (delGraph_lt s g hs)
  · intro h; exact hne (List.map_eq_nil_iff.mp h)
  · intro p hp
    obtain ⟨q, hq, rfl⟩ := List.mem_map.mp hp
    exact htag q hq
  · intro p hp
    obtain ⟨q, _, rfl⟩ := List.mem_map.mp hp
    simp [delGraph_nextId]
  · intro e he
    obtain ⟨e0, he0, rfl⟩ := List.mem_map.mp he
    obtain ⟨ha, hb⟩ := edgesIter_ends G hw e0 he0
    rw [hkeys]
    exact ⟨List.mem_map_of_mem (f := fun k => s.nextId + G.keys.idxOf k) ha,
           List.mem_map_of_mem (f := fun k => s.nextId + G.keys.idxOf k) hb⟩
  · exact hit'

/-- **`add_graph` stores a faithful copy.**  For every store satisfying the invariant and every
    well-formed graph whose nodes carry a `NodeID`, `add_graph g G` succeeds and `extract_graph g`
    afterwards is `G` with node `k` renamed to `start_id + position(k)`, `GraphID := g` stamped,
    all other attributes (order included) and all edges with their attributes unchanged —
    whether or not a graph `g` existed before. -/
theorem addGraph_extract [DecidableEq κ] (s : Store) (hs : StoreInv s) (g : Val) (G : Graph κ) (hw : GraphWF G)
    (hid : HasNodeIds G) (hne : G.nodes ≠ []) :
    (s.addGraph g G).1 = .ok () ∧ (s.addGraph g G).2.extract g = some (stampedCopy G s.nextId g) := by
  have hall : ((Store.relabelFrom G (s.delGraph g).nextId).nodes.all
      fun p => ((p.2.get? "NodeID").map Val.truthy).getD false) = true := by
    simp only [Store.relabelFrom, Graph.relabel, List.all_map, List.all_eq_true]
    intro p hp
    exact hid p hp
  unfold Store.addGraph
  simp only [hall, if_true]
  refine ⟨by first | rfl | trivial, ?_⟩
  have := extract_after_merge s hs g G hw hne (fun a => a.set "GraphID" g) (fun p _ => Attrs.get_set p.2 "GraphID" g)
  simp only [Store.relabelFrom, Graph.relabel, stampedCopy, delGraph_nextId, List.map_map, Function.comp_def]
  exact this

/-- **`add_graph_direct` stores a faithful copy** of a graph whose nodes all carry `GraphID = g`. -/
theorem addGraphDirect_extract [DecidableEq κ] (s : Store) (hs : StoreInv s) (g : Val) (G : Graph κ) (hw : GraphWF G)
    (hg : ∀ p ∈ G.nodes, p.2.get? "GraphID" = some g) (hne : G.nodes ≠ []) :
    (s.addGraphDirect g G).extract g = some (directCopy G s.nextId) := by
  have := extract_after_merge s hs g G hw hne id hg
  simp only [Store.addGraphDirect, Store.relabelFrom, Graph.relabel, directCopy, delGraph_nextId]
  exact this

/-! ### serialize, then import: the four entry points -/

/-- what `extract_graph` returns is a well-formed graph already in iteration order whose nodes
    are exactly the stored nodes tagged `g` -/
theorem extract_spec (s : Store) (hs : StoreInv s) (g : Val) (G0 : Graph Nat) (h : s.extract g = some G0) :
    G0.nodes ≠ [] ∧ GraphWF G0 ∧ G0.edgesIter = G0.edges ∧ (∀ p ∈ G0.nodes, p.2.get? "GraphID" = some g) ∧
    (∀ p ∈ G0.nodes, (⟨p.1, p.2⟩ : SNode) ∈ s.nodes) := by
  unfold Store.extract at h
  simp only at h
  split at h
  · cases h
  · rename_i hemp
    simp only [Option.some.injEq] at h
    have hkeys : G0.keys = (s.graphNodes g).map (·.iid) := by
      rw [← h]; simp [Graph.keys, List.map_map, Function.comp_def]
    have hnd : G0.keys.Nodup := by
      rw [hkeys]
      exact (List.Sublist.map _ List.filter_sublist).nodup hs.1
    have hnodes : G0.nodes = (s.graphNodes g).map fun n => (n.iid, n.attrs) := by rw [← h]
    have hedges : G0.edges = iterFrom (s.edges.filter fun e => ((s.graphNodes g).map (·.iid)).contains e.a &&
        ((s.graphNodes g).map (·.iid)).contains e.b) [] G0.keys := by rw [hkeys, ← h]
    refine ⟨?_, ⟨hnd, ?_⟩, ?_, ?_, ?_⟩
    · rw [hnodes]
      intro hn
      have := List.map_eq_nil_iff.mp hn
      simp [this] at hemp
    · intro e he
      rw [hedges] at he
      obtain ⟨h1, _, e0, he0, _, hor⟩ := mem_iterFrom _ _ _ e he
      refine ⟨h1, ?_⟩
      have hf := (List.mem_filter.mp he0).2
      simp only [Bool.and_eq_true, List.contains_eq_mem, decide_eq_true_eq] at hf
      rw [hkeys]
      rcases hor with ⟨_, hb⟩ | ⟨_, hb⟩
      · exact hb ▸ hf.2
      · exact hb ▸ hf.1
    · unfold Graph.edgesIter
      rw [hedges]
      exact iter_idem _ _ hnd
    · intro p hp
      rw [hnodes] at hp
      obtain ⟨n, hn, rfl⟩ := List.mem_map.mp hp
      have := (List.mem_filter.mp hn).2
      simpa [Store.inGraph] using this
    · intro p hp
      rw [hnodes] at hp
      obtain ⟨n, hn, rfl⟩ := List.mem_map.mp hp
      exact (List.mem_filter.mp hn).1

/-- reading the serialized text of a stored graph gives back the extracted graph itself -/
theorem readDoc_serialize (s : Store) (hs : StoreInv s) (g : Val) (G0 : Graph Nat) (hG : s.extract g = some G0)
    (f : Fmt) (hk : f = .graphml → KeysNodup G0) (hr : f = .json → NoReserved G0)
    (doc : Doc Nat) (hser : serialize s g f = .ok (some doc)) : readDoc doc = some G0 := by
  obtain ⟨_, hw, hit, _, _⟩ := extract_spec s hs g G0 hG
  unfold serialize at hser
  rw [hG] at hser
  cases f with
  | graphml =>
    simp only at hser
    cases h1 : toGraphML G0 with
    | error e => simp [h1] at hser
    | ok d =>
      cases h2 : toNeo4j d with
      | error e => simp [h1, h2] at hser
      | ok d' =>
        simp only [h1, h2, Except.ok.injEq, Option.some.injEq] at hser
        subst hser
        have := roundtrip_graphml_doc G0 (hk rfl) d d' h1 h2
        have he : iterFrom G0.edgesIter [] G0.keys = G0.edges := by
          rw [hit]; exact hit
        simp only [readDoc, this, he]
        rfl
  | json =>
    simp only [Except.ok.injEq, Option.some.injEq] at hser
    subst hser
    have := roundtrip_json_doc G0 (hr rfl)
    simp only [readDoc, this, hit]
    rfl

/-- **Round trip through `import_graph_from_string` / `import_graph_from_file`** (both formats, any
    target id `g'`, equal to `g` or not, occupied or not): the import succeeds and the graph stored
    under `g'` is the original with node `k` renamed to `start_id + position(k)` and `GraphID := g'`;
    every other attribute (name, value, value type, order) and every edge with its attributes is
    unchanged. -/
theorem roundtrip_import_string (s : Store) (hs : StoreInv s) (g g' : Val) (G0 : Graph Nat)
    (hG : s.extract g = some G0) (hid : HasNodeIds G0)
    (f : Fmt) (hk : f = .graphml → KeysNodup G0) (hr : f = .json → NoReserved G0)
    (doc : Doc Nat) (hser : serialize s g f = .ok (some doc)) :
    (importString s doc g').1 = .ok g' ∧
    (importString s doc g').2.extract g' = some (stampedCopy G0 s.nextId g') := by
  have hread := readDoc_serialize s hs g G0 hG f hk hr doc hser
  obtain ⟨hne, hw, _, _, _⟩ := extract_spec s hs g G0 hG
  obtain ⟨h1, h2⟩ := addGraph_extract s hs g' G0 hw hid hne
  unfold importString
  rw [hread]
  have hemp : G0.nodes.isEmpty = false := by
    cases hn : G0.nodes with
    | nil => exact absurd hn hne
    | cons a t => rfl
  simp only [hemp, Bool.false_eq_true, if_false]
  cases hag : s.addGraph g' G0 with
  | mk r s' =>
    rw [hag] at h1 h2
    simp only at h1 h2
    subst h1
    exact ⟨rfl, h2⟩

theorem getGraphId_of_all (d : Doc κ) [DecidableEq κ] (G : Graph κ) (hr : readDoc d = some G) (hne : G.nodes ≠ []) (g : Val)
    (hg : ∀ p ∈ G.nodes, p.2.get? "GraphID" = some g) : getGraphId d = .ok g := by
  have hm : ∀ (l : List (κ × Attrs)), (∀ p ∈ l, p.2.get? "GraphID" = some g) →
      mapOpt (fun p : κ × Attrs => p.2.get? "GraphID") l = some (l.map fun _ => g) := by
    intro l
    induction l with
    | nil => intro _; rfl
    | cons a t ih =>
      intro h
      simp [mapOpt, h a List.mem_cons_self, ih (fun p hp => h p (List.mem_cons_of_mem _ hp))]
  unfold getGraphId
  rw [hr]
  cases hn : G.nodes with
  | nil => exact absurd hn hne
  | cons a t =>
    have := hm G.nodes hg
    rw [hn] at this
    simp only [hn, this]
    simp

/-- **Round trip through `import_graph_from_string_direct` / `import_graph_from_file_direct`**:
    the graph id found in the document is `g`, the import succeeds under the same id and the
    stored graph is the original with node `k` renamed to `start_id + position(k)`, all
    attributes and edges unchanged (the original is replaced). -/
theorem roundtrip_import_direct (s : Store) (hs : StoreInv s) (g : Val) (G0 : Graph Nat)
    (hG : s.extract g = some G0)
    (f : Fmt) (hk : f = .graphml → KeysNodup G0) (hr : f = .json → NoReserved G0)
    (doc : Doc Nat) (hser : serialize s g f = .ok (some doc)) :
    (importDirect s doc).1 = .ok g ∧
    (importDirect s doc).2.extract g = some (directCopy G0 s.nextId) := by
  have hread := readDoc_serialize s hs g G0 hG f hk hr doc hser
  obtain ⟨hne, hw, _, hg, _⟩ := extract_spec s hs g G0 hG
  have hgid := getGraphId_of_all doc G0 hread hne g hg
  unfold importDirect
  rw [hgid]
  simp only [hread]
  exact ⟨by first | rfl | trivial, addGraphDirect_extract s hs g G0 hw hg hne⟩

example : ∃ (s : Store) (G0 : Graph Nat) (doc : Doc Nat), StoreInv s ∧ s.extract (.str "g") = some G0 ∧ HasNodeIds G0 ∧
    KeysNodup G0 ∧ NoReserved G0 ∧ serialize s (.str "g") .graphml = .ok (some doc) ∧ G0.edges ≠ [] :=
  ⟨⟨[⟨1, [("GraphID", .str "g"), ("Class", .str "NetworkNode"), ("NodeID", .str "a"), ("n", .int 5)]⟩,
      ⟨2, [("GraphID", .str "h"), ("Class", .str "NetworkNode"), ("NodeID", .str "a")]⟩,
      ⟨3, [("GraphID", .str "g"), ("Class", .str "Component"), ("NodeID", .str "b"), ("n", .str "5")]⟩],
     [⟨3, 1, [("Class", .str "has")]⟩], 4⟩, _, _, by decide, rfl, by decide, by decide, by decide, rfl, by decide⟩

/-- the document `serialize_graph` emits for an extracted graph -/
def serializeG (G : Graph Nat) (f : Fmt) : Except String (Option (Doc Nat)) :=
  match f with
  | .graphml =>
    match toGraphML G with
    | .error e => .error e
    | .ok d =>
      match toNeo4j d with
      | .error e => .error e
      | .ok d' => .ok (some (.graphml d'))
  | .json => .ok (some (.json (toJSON G)))

theorem serialize_eq_serializeG (s : Store) (g : Val) (G : Graph Nat) (h : s.extract g = some G) (f : Fmt) :
    serialize s g f = serializeG G f := by
  unfold serialize serializeG; rw [h]; cases f <;> rfl

/-- a serialized document with the internal node numbering renamed by `fn`, the node data
    elements rewritten by `hd` (GraphML) / the node attribute values by `hv` (JSON); key table,
    element order, label markup, edge data and everything else is kept -/
def relabelDoc (fn : Nat → Nat) (hd : List GData → List GData) (hv : String → Val → Val) : Doc Nat → Doc Nat
  | .graphml d => .graphml (relabelGDoc fn hd d)
  | .json d => .json (relabelJDoc fn hv d)

theorem serializeG_copy (G H : Graph Nat) (fn : Nat → Nat) (h : Attrs → Attrs) (hd : List GData → List GData)
    (hv : String → Val → Val)
    (hn : H.nodes = G.nodes.map fun p => (fn p.1, h p.2))
    (he : H.edgesIter = G.edgesIter.map fun e => ⟨fn e.a, fn e.b, e.attrs⟩)
    (hs : ∀ p ∈ G.nodes, specsOf .node (h p.2) = specsOf .node p.2)
    (ho : ∀ p ∈ G.nodes, attrsObj (κ := Nat) (h p.2) = relabelJObj fn hv (attrsObj (κ := Nat) p.2))
    (hdata : ∀ tbl, allocKeys G.allSpecs = some tbl →
      (∀ p ∈ G.nodes, dataOf tbl .node (h p.2) = hd (dataOf tbl .node p.2)) ∧
      ∀ data, classText (classKey (docKeys tbl) .node) (hd data) = classText (classKey (docKeys tbl) .node) data)
    (f : Fmt) (doc : Doc Nat) (hser : serializeG G f = .ok (some doc)) :
    serializeG H f = .ok (some (relabelDoc fn hd hv doc)) := by
  cases f with
  | json =>
    simp only [serializeG, Except.ok.injEq, Option.some.injEq] at hser ⊢
    subst hser
    simp only [relabelDoc, toJSON_copy G H fn h hv hn he ho]
  | graphml =>
    simp only [serializeG] at hser ⊢
    cases h1 : toGraphML G with
    | error e => simp [h1] at hser
    | ok d =>
      cases h2 : toNeo4j d with
      | error e => simp [h1, h2] at hser
      | ok d' =>
        simp only [h1, h2, Except.ok.injEq, Option.some.injEq] at hser
        subst hser
        obtain ⟨tbl, ht, hdeq⟩ := toGraphML_ok G d h1
        obtain ⟨hd1, hd2⟩ := hdata tbl ht
        have hH : toGraphML H = .ok (relabelGDoc fn hd d) := by
          rw [toGraphML_copy G H fn h hn he hs tbl ht, hdeq]
          simp only [relabelGDoc, List.map_map, Function.comp_def, Except.ok.injEq, GDoc.mk.injEq, true_and]
          refine ⟨?_, trivial⟩
          apply List.map_congr_left
          intro p hp
          rw [hd1 p hp]
        have hk : d.keys = docKeys tbl := by rw [hdeq]
        have hN := toNeo4j_relabel fn hd d (by rw [hk]; exact hd2)
        rw [hH]
        simp only [hN, h2, Except.map, relabelDoc]

/-- the GraphML key id under which the nodes' `GraphID` is written -/
def gidKeyOf (G : Graph Nat) (ty : KTy) : Nat :=
  match allocKeys G.allSpecs with
  | some tbl => tbl.idxOf ⟨"GraphID", ty, .node⟩
  | none => 0

/-- **`reserialize_stable` (reassigning entry points).**  Serialising the imported copy gives the
    *same document* as serialising the original — same key table, same element order, same label
    markup, same data and typing — up to exactly two things the code does not preserve: the
    internal node numbering (node id / source / target are renamed by the injective
    `k ↦ start_id + position(k)`) and the text of the nodes' `GraphID` (the new graph id `g'`,
    which must be of the same value type as the old one, e.g. both strings). -/
theorem reserialize_stable_string (s : Store) (hs : StoreInv s) (g g' : Val) (G0 : Graph Nat)
    (hG : s.extract g = some G0) (hid : HasNodeIds G0) (hkn : KeysNodup G0)
    (ty : KTy) (hty : xmlType g = some ty) (hty' : xmlType g' = some ty)
    (f : Fmt) (hr : f = .json → NoReserved G0)
    (doc : Doc Nat) (hser : serialize s g f = .ok (some doc)) (f' : Fmt)
    (doc' : Doc Nat) (hser' : serialize s g f' = .ok (some doc')) :
    serialize (importString s doc g').2 g' f' =
      .ok (some (relabelDoc (fun k => s.nextId + G0.keys.idxOf k) (stampData (gidKeyOf G0 ty) g') (stampV g') doc')) := by
  obtain ⟨_, h2⟩ := roundtrip_import_string s hs g g' G0 hG hid f (fun _ => hkn) hr doc hser
  obtain ⟨hne, hw, _, hgid, _⟩ := extract_spec s hs g G0 hG
  rw [serialize_eq_serializeG _ _ _ h2]
  rw [serialize_eq_serializeG _ _ _ hG] at hser'
  apply serializeG_copy G0 (stampedCopy G0 s.nextId g') (fun k => s.nextId + G0.keys.idxOf k)
    (fun a => a.set "GraphID" g') _ _ rfl _ _ _ _ f' doc' hser'
  · have := iter_relabelled G0 hw s.nextId
    simp only [stampedCopy, Graph.edgesIter, Graph.keys, List.map_map, Function.comp_def] at this ⊢
    exact this
  · intro p hp
    exact specsOf_set g g' (by rw [hty, hty']) p.2 (hgid p hp)
  · intro p hp
    exact attrsObj_set _ g g' p.2 (hgid p hp) (hkn.1 p hp)
  · intro tbl ht
    obtain ⟨_, hall⟩ := allocKeys_spec _ _ ht
    have hin : ∀ p ∈ G0.nodes, ∀ q ∈ p.2, ∃ t, xmlType q.2 = some t ∧ (⟨q.1, t, .node⟩ : KeySpec) ∈ tbl := by
      intro p hp
      exact specs_in_table tbl .node p.2 G0.allSpecs
        (by
          intro sp hsp
          unfold Graph.allSpecs
          exact List.mem_append_left _ (List.mem_flatMap.mpr ⟨p, hp, hsp⟩)) hall
    have hgk : gidKeyOf G0 ty = tbl.idxOf ⟨"GraphID", ty, .node⟩ := by simp [gidKeyOf, ht]
    have hgmem : (⟨"GraphID", ty, .node⟩ : KeySpec) ∈ tbl := by
      cases hnodes : G0.nodes with
      | nil => exact absurd hnodes hne
      | cons p0 t =>
        have hp0 : p0 ∈ G0.nodes := by rw [hnodes]; exact List.mem_cons_self
        obtain ⟨t1, ht1, hm1⟩ := hin p0 hp0 _ (Attrs.mem_of_get p0.2 "GraphID" g (hgid p0 hp0))
        simp only at ht1 hm1
        rw [hty] at ht1
        exact (Option.some.inj ht1) ▸ hm1
    rw [hgk]
    constructor
    · intro p hp
      exact dataOf_stamp tbl g g' ty hty hty' p.2 (hgid p hp) (hkn.1 p hp) (hin p hp)
    · intro data
      exact classText_stamp _ _ g' (classKey_ne_gid tbl ty hgmem) data

/-- **`reserialize_stable` (direct entry points).**  Serialising the directly imported copy gives
    the same document as serialising the original up to the internal node numbering only. -/
theorem reserialize_stable_direct (s : Store) (hs : StoreInv s) (g : Val) (G0 : Graph Nat)
    (hG : s.extract g = some G0)
    (f : Fmt) (hk : f = .graphml → KeysNodup G0) (hr : f = .json → NoReserved G0)
    (doc : Doc Nat) (hser : serialize s g f = .ok (some doc)) (f' : Fmt)
    (doc' : Doc Nat) (hser' : serialize s g f' = .ok (some doc')) :
    serialize (importDirect s doc).2 g f' =
      .ok (some (relabelDoc (fun k => s.nextId + G0.keys.idxOf k) id (fun _ v => v) doc')) := by
  obtain ⟨_, h2⟩ := roundtrip_import_direct s hs g G0 hG f hk hr doc hser
  obtain ⟨_, hw, _, _, _⟩ := extract_spec s hs g G0 hG
  rw [serialize_eq_serializeG _ _ _ h2]
  rw [serialize_eq_serializeG _ _ _ hG] at hser'
  apply serializeG_copy G0 (directCopy G0 s.nextId) (fun k => s.nextId + G0.keys.idxOf k)
    id _ _ rfl _ _ _ _ f' doc' hser'
  · have := iter_relabelled G0 hw s.nextId
    simp only [directCopy, Graph.edgesIter, Graph.keys, List.map_map, Function.comp_def] at this ⊢
    exact this
  · intro p _; rfl
  · intro p _; exact attrsObj_id _ p.2
  · intro tbl _
    exact ⟨fun p _ => rfl, fun _ => rfl⟩

/-- the renaming used by the copies is injective on the node keys -/
theorem copy_renaming_injective [DecidableEq κ] (G : Graph κ) (start : Nat) :
    ∀ x ∈ G.keys, ∀ y ∈ G.keys, start + G.keys.idxOf x = start + G.keys.idxOf y → x = y :=
  fun x hx y hy e => idxOf_inj G.keys x hx y hy (by omega)

/-! ### validation after import -/

theorem forE_ok_iff {α : Type} (f : α → Except String Unit) : ∀ (l : List α), forE f l = .ok () ↔ ∀ a ∈ l, f a = .ok ()
  | [] => by simp [forE]
  | a :: t => by
    have ih := forE_ok_iff f t
    unfold forE
    cases h : f a with
    | error e => simp [h]
    | ok u => simp [h, ih]

theorem Attrs.get_set_ne (a : Attrs) (k k' : String) (v : Val) (h : k' ≠ k) : (Attrs.set a k v).get? k' = a.get? k' := by
  induction a with
  | nil =>
    have hb : (k' == k) = false := by simpa using h
    simp [Attrs.set, Attrs.get?, List.lookup_cons, hb]
  | cons p t ih =>
    obtain ⟨k0, v0⟩ := p
    by_cases h0 : k0 = k
    · subst h0
      have hb : (k' == k0) = false := by simpa using h
      simp [Attrs.set, Attrs.get?, List.lookup_cons, hb]
    · simp only [Attrs.set, h0, if_false, Attrs.get?, List.lookup_cons] at ih ⊢
      cases hk : (k' == k0) with
      | true => rfl
      | false => exact ih

theorem extract_nodes (s : Store) (g : Val) (G0 : Graph Nat) (h : s.extract g = some G0) :
    G0.nodes = (s.graphNodes g).map fun n => (n.iid, n.attrs) := by
  unfold Store.extract at h
  simp only at h
  split at h
  · cases h
  · simp only [Option.some.injEq] at h
    rw [← h]

/-- the state `add_graph` leaves behind when every node has a NodeID -/
theorem addGraph_state [DecidableEq κ] (s : Store) (g : Val) (G : Graph κ) (hid : HasNodeIds G) :
    (s.addGraph g G).2 = (s.delGraph g).merge
      { nodes := G.nodes.map fun p => (s.nextId + G.keys.idxOf p.1, p.2.set "GraphID" g),
        edges := G.edgesIter.map (ren fun k => s.nextId + G.keys.idxOf k) } := by
  have hall : ((Store.relabelFrom G (s.delGraph g).nextId).nodes.all
      fun p => ((p.2.get? "NodeID").map Val.truthy).getD false) = true := by
    simp only [Store.relabelFrom, Graph.relabel, List.all_map, List.all_eq_true]
    intro p hp
    exact hid p hp
  unfold Store.addGraph
  simp only [hall, if_true]
  simp only [Store.relabelFrom, Graph.relabel, delGraph_nextId, List.map_map, Function.comp_def]
  rfl

theorem hasClass_set (a : Attrs) (g' : Val) : hasClass (a.set "GraphID" g') = hasClass a := by
  unfold hasClass
  rw [Attrs.get_set_ne a "GraphID" "Class" g' (by decide)]

theorem checkJsonProp_set (jsonOk : String → Bool) (a : Attrs) (g' : Val) (name : String) (h : name ≠ "GraphID") :
    checkJsonProp jsonOk (a.set "GraphID" g') name = checkJsonProp jsonOk a name := by
  unfold checkJsonProp
  rw [Attrs.get_set_ne a "GraphID" name g' h]

/-- **`validates_after_import`.**  If `validate_graph()` passes for the stored graph `g` (all its
    JSON-typed properties parse, every node and edge of the store has a `Class`), then after
    serialising `g` (either format) and importing the text under any id `g'` through
    `import_graph_from_string` / `_file`, `validate_graph()` passes for the imported graph.
    `names` is any list of JSON property names not containing `GraphID`; `jsonOk` any parser verdict. -/
theorem validates_after_import (names : List String) (jsonOk : String → Bool) (hnames : "GraphID" ∉ names)
    (s : Store) (hs : StoreInv s) (g g' : Val) (G0 : Graph Nat)
    (hG : s.extract g = some G0) (hid : HasNodeIds G0)
    (f : Fmt) (hk : f = .graphml → KeysNodup G0) (hr : f = .json → NoReserved G0)
    (doc : Doc Nat) (hser : serialize s g f = .ok (some doc))
    (hv : validate names jsonOk s g = .ok ()) :
    validate names jsonOk (importString s doc g').2 g' = .ok () := by
  -- what validation of the original tells us
  unfold validate at hv
  split at hv
  · cases hv
  · rename_i hne0
    cases hfor : forE (checkNode names jsonOk s g) (s.graphNodes g) with
    | error e => simp [hfor] at hv
    | ok u =>
      simp only [hfor] at hv
      split at hv
      · rename_i hcls
        simp only [Bool.and_eq_true, List.all_eq_true] at hcls
        obtain ⟨hcn, hce⟩ := hcls
        have hchk := (forE_ok_iff _ _).mp (by cases u; exact hfor)
        -- the state after the import
        have hread := readDoc_serialize s hs g G0 hG f hk hr doc hser
        obtain ⟨hne, hw, hit, hgid, hmem⟩ := extract_spec s hs g G0 hG
        have hnodes := extract_nodes s g G0 hG
        have hemp : G0.nodes.isEmpty = false := by
          cases hn : G0.nodes with
          | nil => exact absurd hn hne
          | cons a t => rfl
        have hst : (importString s doc g').2 = (s.addGraph g' G0).2 := by
          unfold importString
          rw [hread]
          simp only [hemp, Bool.false_eq_true, if_false]
          cases s.addGraph g' G0 with
          | mk r s' => cases r <;> rfl
        rw [hst, addGraph_state s g' G0 hid]
        -- name the pieces
        let fn : Nat → Nat := fun k => s.nextId + G0.keys.idxOf k
        let cp : SNode → SNode := fun n => ⟨fn n.iid, n.attrs.set "GraphID" g'⟩
        have hcopies : ((G0.nodes.map fun p => (fn p.1, p.2.set "GraphID" g')).map fun p => (⟨p.1, p.2⟩ : SNode))
            = (s.graphNodes g).map cp := by
          rw [hnodes]; simp [List.map_map, Function.comp_def, cp]
        have hgn : Store.graphNodes ((s.delGraph g').merge
              { nodes := G0.nodes.map fun p => (fn p.1, p.2.set "GraphID" g'),
                edges := G0.edgesIter.map (ren fn) }) g' = (s.graphNodes g).map cp := by
          show List.filter (Store.inGraph g') ((s.delGraph g').nodes ++
              (G0.nodes.map fun p => (fn p.1, p.2.set "GraphID" g')).map fun p => (⟨p.1, p.2⟩ : SNode)) = _
          have h1 : (s.delGraph g').nodes.filter (Store.inGraph g') = [] := delGraph_graphNodes s g'
          rw [List.filter_append, h1, List.nil_append, hcopies, List.filter_eq_self]
          intro n hn
          obtain ⟨m, _, rfl⟩ := List.mem_map.mp hn
          simp [Store.inGraph, cp, Attrs.get_set]
        unfold validate
        rw [hgn]
        have hne' : ((s.graphNodes g).map cp).isEmpty = false := by
          cases hx : s.graphNodes g with
          | nil => simp [hx] at hne0
          | cons a t => rfl
        simp only [hne', Bool.false_eq_true, if_false]
        -- every copied node passes the JSON check
        have hfor' : forE (checkNode names jsonOk ((s.delGraph g').merge
              { nodes := G0.nodes.map fun p => (fn p.1, p.2.set "GraphID" g'),
                edges := G0.edgesIter.map (ren fn) }) g') ((s.graphNodes g).map cp) = .ok () := by
          rw [forE_ok_iff]
          intro n' hn'
          obtain ⟨n, hn, rfl⟩ := List.mem_map.mp hn'
          have hc := hchk n hn
          unfold checkNode at hc ⊢
          cases hnid : n.attrs.get? "NodeID" with
          | none => simp [hnid] at hc
          | some nid =>
            simp only [hnid] at hc
            have hnid' : (cp n).attrs.get? "NodeID" = some nid := by
              simp only [cp]; rw [Attrs.get_set_ne _ _ _ _ (by decide)]; exact hnid
            simp only [hnid']
            cases hfn : findNode s g nid with
            | error e => simp [hfn] at hc
            | ok m =>
              simp only [hfn] at hc
              have hfil : (s.graphNodes g).filter (fun n => n.attrs.get? "NodeID" == some nid) = [m] := by
                unfold findNode at hfn
                split at hfn
                · cases hfn
                · rename_i x hx; simp only [Except.ok.injEq] at hfn; rw [hx, hfn]
                · cases hfn
              have hfn' : findNode ((s.delGraph g').merge
                  { nodes := G0.nodes.map fun p => (fn p.1, p.2.set "GraphID" g'),
                    edges := G0.edgesIter.map (ren fn) }) g' nid = .ok (cp m) := by
                unfold findNode
                rw [hgn, List.filter_map]
                have : ((fun n : SNode => n.attrs.get? "NodeID" == some nid) ∘ cp)
                    = fun n : SNode => n.attrs.get? "NodeID" == some nid := by
                  funext x
                  simp only [Function.comp_apply, cp]
                  rw [Attrs.get_set_ne _ _ _ _ (by decide)]
                rw [this, hfil]
                rfl
              simp only [hfn']
              have hcl : ((cp m).attrs.get? "Class") = m.attrs.get? "Class" := by
                simp only [cp]; exact Attrs.get_set_ne _ _ _ _ (by decide)
              rw [hcl]
              split at hc
              · cases hc
              · rename_i hcl0
                simp only [hcl0, Bool.false_eq_true, if_false]
                rw [forE_ok_iff] at hc ⊢
                intro name hname
                have : name ≠ "GraphID" := fun e => hnames (e ▸ hname)
                simp only [cp]
                rw [checkJsonProp_set jsonOk m.attrs g' name this]
                exact hc name hname
        rw [hfor']
        -- every node and edge of the new store has a Class
        have hallc : (((s.delGraph g').merge
              { nodes := G0.nodes.map fun p => (fn p.1, p.2.set "GraphID" g'),
                edges := G0.edgesIter.map (ren fn) }).nodes.all (fun n => hasClass n.attrs) &&
            ((s.delGraph g').merge
              { nodes := G0.nodes.map fun p => (fn p.1, p.2.set "GraphID" g'),
                edges := G0.edgesIter.map (ren fn) }).edges.all (fun e => hasClass e.attrs)) = true := by
          simp only [Bool.and_eq_true, List.all_eq_true, Store.merge]
          constructor
          · intro n hn
            rcases List.mem_append.mp hn with h | h
            · exact hcn n (List.mem_filter.mp h).1
            · rw [hcopies] at h
              obtain ⟨m, hm, rfl⟩ := List.mem_map.mp h
              simp only [cp]
              rw [hasClass_set]
              exact hcn m (List.mem_filter.mp hm).1
          · intro e he
            rcases List.mem_append.mp he with h | h
            · exact hce e (List.mem_filter.mp h).1
            · obtain ⟨_, _, e1, he1, hat1, _⟩ := mem_iterFrom _ _ _ e h
              obtain ⟨e2, he2, rfl⟩ := List.mem_map.mp he1
              obtain ⟨_, _, e3, he3, hat3, _⟩ := mem_iterFrom G0.edges G0.keys [] e2 he2
              have hG0e : ∃ e4 ∈ s.edges, e3.attrs = e4.attrs := by
                unfold Store.extract at hG
                simp only at hG
                split at hG
                · cases hG
                · simp only [Option.some.injEq] at hG
                  rw [← hG] at he3
                  obtain ⟨_, _, e4, he4, hat4, _⟩ := mem_iterFrom _ _ _ e3 he3
                  exact ⟨e4, (List.mem_filter.mp he4).1, hat4⟩
              obtain ⟨e4, he4, hat4⟩ := hG0e
              rw [hat1]
              simp only [ren]
              rw [hat3, hat4]
              exact hce e4 he4
        exact if_pos hallc
      · cases hv

example : ∃ (s : Store) (names : List String), "GraphID" ∉ names ∧ names ≠ [] ∧ StoreInv s ∧
    validate names (fun t => t == "{\"core\": 4}") s (.str "g") = .ok () :=
  ⟨⟨[⟨1, [("GraphID", .str "g"), ("Class", .str "NetworkNode"), ("NodeID", .str "a"), ("Capacities", .str "{\"core\": 4}")]⟩,
      ⟨2, [("GraphID", .str "g"), ("Class", .str "Component"), ("NodeID", .str "b"), ("Labels", .str "")]⟩],
     [⟨2, 1, [("Class", .str "has")]⟩], 3⟩, ["Labels", "Capacities"], by decide, by decide, by decide, rfl⟩

/-! ### importing touches no other graph -/

theorem merge_frame (s1 : Store) (hlt : ∀ n ∈ s1.nodes, n.iid < s1.nextId) (g'' : Val) (T : Graph Nat)
    (htag : ∀ p ∈ T.nodes, p.2.get? "GraphID" ≠ some g'') (hge : ∀ k ∈ T.keys, s1.nextId ≤ k) :
    (s1.merge T).extract g'' = s1.extract g'' := by
  unfold Store.merge
  apply extract_append_other
  · intro n hn
    obtain ⟨p, hp, rfl⟩ := List.mem_map.mp hn
    exact htag p hp
  · intro e he hm
    obtain ⟨h1, _, _⟩ := mem_iterFrom T.edges T.keys [] e he
    obtain ⟨n, hn, hne⟩ := List.mem_map.mp hm
    have := hlt n (List.mem_filter.mp hn).1
    have := hge _ h1
    omega

theorem relabelFrom_keys_ge [DecidableEq κ] (G : Graph κ) (start : Nat) (at' : Attrs → Attrs) :
    ∀ k ∈ ({ Store.relabelFrom G start with nodes := (Store.relabelFrom G start).nodes.map fun p => (p.1, at' p.2) } : Graph Nat).keys,
      start ≤ k := by
  intro k hk
  simp only [Graph.keys, Store.relabelFrom, Graph.relabel, List.map_map, List.mem_map, Function.comp_apply] at hk
  obtain ⟨p, _, rfl⟩ := hk
  omega

theorem addGraph_frame [DecidableEq κ] (s : Store) (hs : StoreInv s) (g' g'' : Val) (hne : g'' ≠ g') (G : Graph κ) :
    (s.addGraph g' G).2.extract g'' = s.extract g'' := by
  unfold Store.addGraph
  simp only
  split
  · simp only
    rw [merge_frame (s.delGraph g') (delGraph_lt s g' hs).1 g'']
    · exact extract_delGraph_other s hs g'' g' hne
    · intro p hp
      simp only [List.mem_map] at hp
      obtain ⟨q, _, rfl⟩ := hp
      rw [Attrs.get_set]
      intro h
      exact hne (Option.some.inj h).symm
    · exact relabelFrom_keys_ge G _ (fun a => a.set "GraphID" g')
  · exact extract_delGraph_other s hs g'' g' hne

/-- **`import_frame` (reassigning entry points).**  Whatever document is imported under `g'` —
    valid or not, whether the call succeeds or raises (an import lacking `NodeID` raises after
    the old graph `g'` was deleted) — every other graph of the store is extracted unchanged. -/
theorem import_frame_string [DecidableEq κ] (s : Store) (hs : StoreInv s) (d : Doc κ) (g' g'' : Val) (hne : g'' ≠ g') :
    (importString s d g').2.extract g'' = s.extract g'' := by
  unfold importString
  cases readDoc d with
  | none => rfl
  | some G =>
    simp only
    split
    · rfl
    · have := addGraph_frame s hs g' g'' hne G
      cases hag : s.addGraph g' G with
      | mk r s' =>
        rw [hag] at this
        cases r <;> exact this

theorem getGraphId_ok [DecidableEq κ] (d : Doc κ) (g : Val) (h : getGraphId d = .ok g) :
    ∃ G, readDoc d = some G ∧ ∀ p ∈ G.nodes, p.2.get? "GraphID" = some g := by
  unfold getGraphId at h
  cases hr : readDoc d with
  | none => simp [hr] at h
  | some G =>
    refine ⟨G, rfl, ?_⟩
    simp only [hr] at h
    split at h
    · cases h
    · split at h
      · cases h
      · rename_i ids hids
        have hall := mapOpt_mem _ _ _ hids
        split at h
        · cases h
        · rename_i g0 rest
          split at h
          · rename_i hall'
            simp only [Except.ok.injEq] at h
            subst h
            intro p hp
            obtain ⟨v, hv, hm⟩ := hall p hp
            rw [hv]
            rcases List.mem_cons.mp hm with rfl | hm'
            · rfl
            · have := List.all_eq_true.mp hall' v hm'
              simp at this
              rw [this]
          · cases h

/-- **`import_frame` (direct entry points).**  A direct import either fails leaving the store as it
    was, or replaces exactly the graph whose id the document carries; every other graph is
    extracted unchanged. -/
theorem import_frame_direct [DecidableEq κ] (s : Store) (hs : StoreInv s) (d : Doc κ) (g'' : Val)
    (hne : ∀ g, (importDirect s d).1 = .ok g → g'' ≠ g) :
    (importDirect s d).2.extract g'' = s.extract g'' := by
  unfold importDirect at hne ⊢
  cases hg : getGraphId d with
  | error e => rfl
  | ok g =>
    obtain ⟨G, hr, hall⟩ := getGraphId_ok d g hg
    simp only [hg, hr] at hne ⊢
    have hne' := hne g rfl
    unfold Store.addGraphDirect
    simp only
    rw [merge_frame (s.delGraph g) (delGraph_lt s g hs).1 g'']
    · exact extract_delGraph_other s hs g'' g hne'
    · intro p hp
      simp only [Store.relabelFrom, Graph.relabel, List.mem_map] at hp
      obtain ⟨q, hq, rfl⟩ := hp
      rw [hall q hq]
      intro h
      exact hne' (Option.some.inj h).symm
    · have := relabelFrom_keys_ge G (s.delGraph g).nextId id
      simpa using this

/-! ### label markup -/

theorem labels_markup_node (ck : Option Nat) (n n' : GNode κ) (h : markNode ck n = .ok n') (hn : n.labels = none) :
    ∃ d ∈ n.data, some d.key = ck ∧ n'.labels = some (":GraphNode:" ++ d.val.pyStr) := by
  obtain ⟨d, hd, hk, _, rfl⟩ := markNode_labels ck n n' h hn
  exact ⟨d, hd, hk, rfl⟩

theorem labels_markup_edge (ck : Option Nat) (e e' : GEdge κ) (h : markEdge ck e = .ok e') (hn : e.label = none) :
    ∃ d ∈ e.data, some d.key = ck ∧ d.val.pyStr ≠ "" ∧ e'.label = some d.val.pyStr := by
  unfold markEdge classText at h
  rw [hn] at h
  cases ck with
  | none => simp at h
  | some k =>
    simp only at h
    cases hf : e.data.find? (fun d => d.key == k) with
    | none => simp [hf] at h
    | some d =>
      rw [hf] at h
      by_cases he : d.val.pyStr = ""
      · simp [he] at h
      · simp [he] at h
        refine ⟨d, List.mem_of_find?_eq_some hf, ?_, he, by rw [← h]⟩
        have := List.find?_some hf
        simp at this
        rw [this]

/-- the key `networkx_to_neo4j` reads the class from is a `<key attr.name="Class">` of that scope -/
theorem classKey_spec (keys : List GKey) (sc : Scope) (i : Nat) (h : classKey keys sc = some i) :
    ∃ k ∈ keys, k.id = i ∧ k.spec.name = "Class" ∧ k.spec.scope = sc := by
  unfold classKey at h
  cases hl : (keys.filter fun k => k.spec.name == "Class" && k.spec.scope == sc).getLast? with
  | none => simp [hl] at h
  | some k =>
    simp [hl] at h
    have hm := List.mem_of_getLast? hl
    have hf := List.mem_filter.mp hm
    simp at hf
    exact ⟨k, hf.1, h, hf.2.1, hf.2.2⟩

/-- **`labels_markup`.**  In every document `serialize_graph` emits (`toNeo4j` applied to the
    unlabelled output of `generate_graphml`) every node element carries
    `labels = ":GraphNode:" ++ text` and every edge element `label = text`, where `text` is the
    non-empty text of one of the element's own data elements whose key is the `Class` key of
    that scope. -/
theorem labels_markup (d d' : GDoc κ) (h : toNeo4j d = .ok d')
    (hn : ∀ n ∈ d.nodes, n.labels = none) (he : ∀ e ∈ d.edges, e.label = none) :
    (∀ n' ∈ d'.nodes, ∃ i x, classKey d.keys .node = some i ∧ x ∈ n'.data ∧ x.key = i ∧ x.val.pyStr ≠ "" ∧
        n'.labels = some (":GraphNode:" ++ x.val.pyStr)) ∧
    (∀ e' ∈ d'.edges, ∃ i x, classKey d.keys .edge = some i ∧ x ∈ e'.data ∧ x.key = i ∧ x.val.pyStr ≠ "" ∧
        e'.label = some x.val.pyStr) := by
  unfold toNeo4j at h
  cases hme : mapE (markEdge (classKey d.keys .edge)) d.edges with
  | error e => simp [hme] at h
  | ok es' =>
    cases hmn : mapE (markNode (classKey d.keys .node)) d.nodes with
    | error e => simp [hme, hmn] at h
    | ok ns' =>
      simp only [hme, hmn, Except.ok.injEq] at h
      subst h
      constructor
      · intro n' hn'
        obtain ⟨n, hnm, hmk⟩ := mapE_mem _ _ _ hmn n' hn'
        obtain ⟨x, hx, hk, hne, rfl⟩ := markNode_labels _ n n' hmk (hn n hnm)
        cases hc : classKey d.keys .node with
        | none => simp [hc] at hk
        | some i =>
          rw [hc] at hk
          exact ⟨i, x, rfl, hx, Option.some.inj hk, hne, rfl⟩
      · intro e' he'
        obtain ⟨e, hem, hmk⟩ := mapE_mem _ _ _ hme e' he'
        obtain ⟨x, hx, hk, hne, hl⟩ := labels_markup_edge _ e e' hmk (he e hem)
        obtain ⟨_, _, hd⟩ := markEdge_data _ e e' hmk
        cases hc : classKey d.keys .edge with
        | none => simp [hc] at hk
        | some i =>
          rw [hc] at hk
          exact ⟨i, x, rfl, hd ▸ hx, Option.some.inj hk, hne, hl⟩

end FimVerif.C01

/-! ### the disjoint store (round trip of the whole pipeline is differential only) -/
namespace FimVerif.C01
open FimVerif.GraphML
variable {κ : Type}

theorem DStore.lookup_put {β : Type} : ∀ (l : List (Val × β)) (k : Val) (v : β), (DStore.put l k v).lookup k = some v
  | [], k, v => by simp [DStore.put, List.lookup]
  | (k', v') :: t, k, v => by
    by_cases h : k' = k
    · simp [DStore.put, h, List.lookup]
    · have hb : (k == k') = false := by simpa using fun e : k = k' => h e.symm
      simp only [DStore.put, h, if_false, List.lookup_cons, hb]
      exact DStore.lookup_put t k v

/-- **disjoint store, `add_graph_direct`**: afterwards `extract_graph g` is the imported graph with
    node `k` renamed to `1 + position(k)`, attributes and edges unchanged -/
theorem dAddGraphDirect_extract [DecidableEq κ] (s : DStore) (g : Val) (G : Graph κ) (hw : GraphWF G) :
    ((s.addGraphDirect g G).extract g).1 = directCopy G 1 := by
  unfold DStore.extract DStore.addGraphDirect
  simp only [DStore.lookup_put]
  have := iter_relabelled G hw 1
  simp only [DStore.copyGraph, Store.relabelFrom, Graph.relabel, directCopy, Graph.edgesIter, Graph.keys,
    List.map_map, Function.comp_def] at this ⊢
  rw [Graph.mk.injEq]
  exact ⟨rfl, this⟩

/-- **disjoint store, `add_graph`** under an id that holds no (non-empty) graph: the import succeeds
    and `extract_graph g` is the stamped copy numbered from 1 -/
theorem dAddGraph_extract [DecidableEq κ] (s : DStore) (g : Val) (G : Graph κ) (hw : GraphWF G) (hid : HasNodeIds G)
    (hfree : ∀ old, s.graphs.lookup g = some old → old.nodes.isEmpty = true) :
    (s.addGraph g G).1 = .ok () ∧ ((s.addGraph g G).2.extract g).1 = stampedCopy G 1 g := by
  have hall : ((Store.relabelFrom G 1).nodes.all fun p => ((p.2.get? "NodeID").map Val.truthy).getD false) = true := by
    simp only [Store.relabelFrom, Graph.relabel, List.all_map, List.all_eq_true]
    intro p hp
    exact hid p hp
  have hgo : DStore.addGraph.go s g G =
      (.ok (), { graphs := DStore.put s.graphs g
                   { nodes := (Store.relabelFrom G 1).nodes.map fun p => (p.1, p.2.set "GraphID" g),
                     edges := iterFrom (Store.relabelFrom G 1).edges []
                       (((Store.relabelFrom G 1).nodes.map fun p => (p.1, p.2.set "GraphID" g)).map (·.1)) },
                 counters := DStore.put s.counters g (((Store.relabelFrom G 1).nodes.map fun p => (p.1, p.2.set "GraphID" g)).length + 1) }) := by
    unfold DStore.addGraph.go
    simp only [hall, if_true]
    rfl
  have hag : s.addGraph g G = DStore.addGraph.go s g G := by
    unfold DStore.addGraph
    cases hl : s.graphs.lookup g with
    | none => rfl
    | some old => simp [hfree old hl]
  rw [hag, hgo]
  refine ⟨rfl, ?_⟩
  unfold DStore.extract
  simp only [DStore.lookup_put]
  have hit := iter_relabelled G hw 1
  simp only [DStore.copyGraph, Store.relabelFrom, Graph.relabel, stampedCopy, Graph.edgesIter, Graph.keys,
    List.map_map, Function.comp_def] at hit ⊢
  rw [Graph.mk.injEq]
  refine ⟨rfl, ?_⟩
  show iterFrom (iterFrom (List.map (ren fun k => 1 + List.idxOf k (List.map (fun x => x.fst) G.nodes))
      (iterFrom G.edges [] (List.map (fun x => x.fst) G.nodes))) []
      (List.map (fun x => 1 + List.idxOf x.fst (List.map (fun x => x.fst) G.nodes)) G.nodes)) []
      (List.map (fun x => 1 + List.idxOf x.fst (List.map (fun x => x.fst) G.nodes)) G.nodes) = _
  rw [hit, hit]

end FimVerif.C01
