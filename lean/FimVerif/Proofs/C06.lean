import FimVerif.Proofs.Lemmas.C06Nbr
import FimVerif.Proofs.Lemmas.C06Sp
import FimVerif.Proofs.Lemmas.C06Wf
import FimVerif.Proofs.Lemmas.C06Hops
import FimVerif.Proofs.Lemmas.C06Cycle
/-!
# C06 — neighbour and path queries return exactly what their contract describes

Property theorems only (helper lemmas: `Proofs/Lemmas/C06*.lean`; model: `Model/Query.lean`).
All statements quantify over every typed graph view `g`; `wf g` (node ids distinct, edge ends are nodes, one edge per
unordered pair) is decidable and holds for every view built through `add_node`/`add_link` (`wf_build`).

* neighbours: `relink_replaces_relation`, `first_neighbor_exact`, `first_neighbor_total`, `first_neighbor_nodup`, `get_parent_unique`
* gated helpers: `helper_constants`, `link_cps_exact`, `child_cps_exact`, `node_cps_spec`, `helpers_outside_domain`
* two hops: `two_hop_exact` (for the repaired idiom), `two_hop_counterexample` + `two_hop_partial` (code as written —
  known finding), `two_hop_as_written_exact`, `two_hop_selfloop_counterexample`, `peer_counterexample`,
  `nodecps_counterexample`, `two_hop_total`, `two_hop_nodup`, `second_components_spec`
* shortest path: `shortest_path_sound`, `shortest_path_empty_iff_unreachable`, `shortest_path_minimal`, `shortest_path_total`
* path with hops: `hops_sound`, `hops_minimal`, `hops_empty_iff_none`, `hops_total`, `hops_cutoff_irrelevant`, `hops_full_statement`, `hops_contract_graph_theoretic`, `hops_answer_acyclic`,
  `hops_list_semantics` (repeats / order of the hop list are irrelevant), `hops_foreign_hop_empty`
-/
namespace FimVerif.C06
open FimVerif.Query FimVerif.Gen

/-- **first_neighbor_exact.**  On a well-formed view, `get_first_neighbor(n, rel, cls)` returns exactly the nodes of
    class `cls` joined to `n` by an edge of relation `rel`. -/
theorem first_neighbor_exact {g : TGraph} (hw : wf g = true) {n r c : String} {l : List String}
    (h : getFirstNeighbor g n r c = .ok l) (m : String) :
    m ∈ l ↔ Edge g n m r ∧ classOf g m = some c := by
  obtain ⟨_, rfl⟩ := prologue1 h
  have hu := (wf_iff.1 hw).2.2
  have hf : QueryIdioms.firstViaDropsNeighbour = true := by decide
  rw [mem_filterByLabel, firstNeighborsVia, hf, mem_viaFilter_true hu, mem_nbrs]
  constructor
  · rintro ⟨⟨_, h2⟩, h3⟩; exact ⟨h2, h3⟩
  · rintro ⟨h2, h3⟩; exact ⟨⟨⟨r, h2⟩, h2⟩, h3⟩

/-- the query answers (does not raise) for every node of the graph, whatever edges are present -/
theorem first_neighbor_total {g : TGraph} {n : String} (hn : n ∈ verts g) (r c : String) :
    ∃ l, getFirstNeighbor g n r c = .ok l := by
  have hne : g.nodes.isEmpty = false := by
    cases hg : g.nodes with
    | nil => simp [verts, hg] at hn
    | cons => rfl
  simp [getFirstNeighbor, extract, findNode, hne, hn, bind, Except.bind, pure, Except.pure]

/-- **first_neighbor_nodup / two_hop_nodup.**  No node (pair) is returned twice — for the two-hop query under either
    value of the idiom flag, i.e. also for the code as written. -/
theorem first_neighbor_nodup {g : TGraph} (hw : wf g = true) {n r c : String} {l : List String}
    (h : getFirstNeighbor g n r c = .ok l) : l.Nodup := by
  obtain ⟨_, rfl⟩ := prologue1 h
  exact firstNeighbor_nodup (wf_iff.1 hw).2.2 n r c

theorem two_hop_nodup {g : TGraph} (hw : wf g = true) {n r1 c1 r2 c2 : String} {l : List (String × String)}
    (h : getFirstAndSecondNeighbor g n r1 c1 r2 c2 = .ok l) : l.Nodup := by
  obtain ⟨_, rfl⟩ := prologue1 h
  exact twoHopWith_nodup _ _ (wf_iff.1 hw).2.2 n r1 c1 r2 c2

/-- **get_parent_unique.**  When `get_parent` names a parent, it is the one and only neighbour of that relation and class. -/
theorem get_parent_unique {g : TGraph} (hw : wf g = true) {n rel cls p : String}
    (h : getParentId g n rel cls = .ok (some p)) :
    Edge g n p rel ∧ classOf g p = some cls ∧ ∀ m, Edge g n m rel → classOf g m = some cls → m = p := by
  unfold getParentId at h
  cases hl : getFirstNeighbor g n rel cls with
  | error e => simp [hl, bind, Except.bind] at h
  | ok l =>
    simp only [hl, bind, Except.bind, pure, Except.pure, Except.ok.injEq] at h
    have hex := first_neighbor_exact hw hl
    match l, h with
    | [q], h =>
      simp at h; subst h
      have := (hex q).1 (by simp)
      exact ⟨this.1, this.2, fun m h1 h2 => by simpa using (hex m).2 ⟨h1, h2⟩⟩

/-- the derived helpers `find_peer_connection_points` / `get_all_node_or_component_connection_points` return the
    second components of the two-hop answer -/
theorem second_components_spec {g : TGraph} {n r1 c1 r2 c2 : String} {ks : List String}
    (h : secondComponents g n r1 c1 r2 c2 = .ok ks) :
    ∃ l, getFirstAndSecondNeighbor g n r1 c1 r2 c2 = .ok l ∧ ∀ k, k ∈ ks ↔ ∃ m, (m, k) ∈ l := by
  unfold secondComponents at h
  cases hl : getFirstAndSecondNeighbor g n r1 c1 r2 c2 with
  | error e => simp [hl, bind, Except.bind] at h
  | ok l =>
    simp only [hl, bind, Except.bind, pure, Except.pure, Except.ok.injEq] at h
    subst h
    exact ⟨l, rfl, fun k => by simp⟩

/-- the declarative two-hop contract -/
def TwoHopSpec (g : TGraph) (n r1 c1 r2 c2 : String) (p : String × String) : Prop :=
  Edge g n p.1 r1 ∧ classOf g p.1 = some c1 ∧ Edge g p.1 p.2 r2 ∧ classOf g p.2 = some c2 ∧ p.2 ≠ n

/-- **two_hop_exact** (holds for the code once the second drop list receives the inner loop variable;
    the flag is read from the source on every run). -/
theorem two_hop_exact (hfix : QueryIdioms.hop2DropsNeighbour = true)
    {g : TGraph} (hw : wf g = true) {n r1 c1 r2 c2 : String} {l : List (String × String)}
    (h : getFirstAndSecondNeighbor g n r1 c1 r2 c2 = .ok l) (p : String × String) :
    p ∈ l ↔ TwoHopSpec g n r1 c1 r2 c2 p := by
  obtain ⟨_, rfl⟩ := prologue1 h
  have hu := (wf_iff.1 hw).2.2
  have h1 : QueryIdioms.hop1DropsNeighbour = true := by decide
  rw [twoHop, h1, hfix, mem_twoHopWith, mem_viaFilter_true hu, mem_viaFilter_true hu, mem_nbrs, mem_nbrs, TwoHopSpec]
  constructor
  · rintro ⟨⟨_, a⟩, b, ⟨_, c⟩, d, e⟩; exact ⟨a, b, c, d, e⟩
  · rintro ⟨a, b, c, d, e⟩; exact ⟨⟨⟨_, a⟩, a⟩, b, ⟨⟨_, c⟩, c⟩, d, e⟩

/-- the two-hop query answers for every node of the graph -/
theorem two_hop_total {g : TGraph} {n : String} (hn : n ∈ verts g) (r1 c1 r2 c2 : String) :
    getFirstAndSecondNeighbor g n r1 c1 r2 c2 = .ok (twoHop g n r1 c1 r2 c2) := by
  obtain ⟨h1, h2⟩ := prologue_ok hn
  simp [getFirstAndSecondNeighbor, h1, h2, bind, Except.bind, pure, Except.pure]

/-- the graph of the known finding: a -r- b (class B), b -s- c (class A) -/
def cexGraph : TGraph := build [.node "a" "A", .node "b" "B", .node "c" "A", .link "a" "r" "b", .link "b" "s" "c"]

/-- **two_hop_counterexample.**  As long as the second drop list receives the first-hop node, a pair whose second
    edge has the wrong relation is returned (replayed on the implementation by corpus case `two_hop_wrong_relation`). -/
theorem two_hop_counterexample (hbug : QueryIdioms.hop2DropsNeighbour = false) :
    wf cexGraph = true ∧
    ∃ l, getFirstAndSecondNeighbor cexGraph "a" "r" "B" "r" "A" = .ok l ∧ ("b", "c") ∈ l ∧
      ¬ TwoHopSpec cexGraph "a" "r" "B" "r" "A" ("b", "c") := by
  have h1 : QueryIdioms.hop1DropsNeighbour = true := by decide
  refine ⟨by decide, _, two_hop_total (g := cexGraph) (n := "a") (by decide) .., ?_, ?_⟩
  · simp only [twoHop, hbug, h1]
    decide
  · simp [TwoHopSpec, Edge, cexGraph, build, apply, addNode, addLink, verts, empty, joins]

/-- **two_hop_partial** — what holds for the code *as written* (either value of the generated flag).
    Full statement, which the as-written code violates (`two_hop_counterexample`):
      `p ∈ l ↔ TwoHopSpec g n r1 c1 r2 c2 p`.
    Missing here: the relation of the second edge is not checked (1), and a pair `(m, m)` over a self-loop can be
    lost (2).  (3): the answer is exact on graphs where every edge at a first-hop node has relation `r2`. -/
theorem two_hop_partial {g : TGraph} (hw : wf g = true) {n r1 c1 r2 c2 : String} {l : List (String × String)}
    (h : getFirstAndSecondNeighbor g n r1 c1 r2 c2 = .ok l) :
    (∀ p ∈ l, Edge g n p.1 r1 ∧ classOf g p.1 = some c1 ∧ (∃ r, Edge g p.1 p.2 r) ∧ classOf g p.2 = some c2 ∧ p.2 ≠ n) ∧
    (∀ p, TwoHopSpec g n r1 c1 r2 c2 p → p.2 ≠ p.1 → p ∈ l) ∧
    ((∀ m k r, Edge g n m r1 → Edge g m k r → r = r2) → ∀ p, p ∈ l ↔ TwoHopSpec g n r1 c1 r2 c2 p) := by
  obtain ⟨_, rfl⟩ := prologue1 h
  have hu := (wf_iff.1 hw).2.2
  have h1 : QueryIdioms.hop1DropsNeighbour = true := by decide
  unfold twoHop
  rw [h1]
  cases QueryIdioms.hop2DropsNeighbour with
  | true =>
    have hex : ∀ p, p ∈ twoHopWith true true g n r1 c1 r2 c2 ↔ TwoHopSpec g n r1 c1 r2 c2 p := by
      intro p
      rw [mem_twoHopWith, mem_viaFilter_true hu, mem_viaFilter_true hu, mem_nbrs, mem_nbrs, TwoHopSpec]
      constructor
      · rintro ⟨⟨_, a⟩, b, ⟨_, c⟩, d, e⟩; exact ⟨a, b, c, d, e⟩
      · rintro ⟨a, b, c, d, e⟩; exact ⟨⟨⟨_, a⟩, a⟩, b, ⟨⟨_, c⟩, c⟩, d, e⟩
    refine ⟨fun p hp => ?_, fun p hp _ => (hex p).2 hp, fun _ => hex⟩
    obtain ⟨a, b, c, d, e⟩ := (hex p).1 hp
    exact ⟨a, b, ⟨_, c⟩, d, e⟩
  | false =>
    refine ⟨fun p hp => ?_, fun p hp hne => ?_, fun hguard p => ?_⟩
    · rw [mem_twoHopWith, mem_viaFilter_true hu, mem_viaFilter_false, mem_nbrs, mem_nbrs] at hp
      obtain ⟨⟨_, a⟩, b, ⟨c, _⟩, d, e⟩ := hp
      exact ⟨a, b, c, d, e⟩
    · obtain ⟨a, b, c, d, e⟩ := hp
      rw [mem_twoHopWith, mem_viaFilter_true hu, mem_viaFilter_false, mem_nbrs, mem_nbrs]
      exact ⟨⟨⟨_, a⟩, a⟩, b, ⟨⟨_, c⟩, fun heq => absurd heq hne⟩, d, e⟩
    · rw [mem_twoHopWith, mem_viaFilter_true hu, mem_viaFilter_false, mem_nbrs, mem_nbrs, TwoHopSpec]
      constructor
      · rintro ⟨⟨_, a⟩, b, ⟨⟨r, c⟩, _⟩, d, e⟩
        have := hguard _ _ _ a c
        subst this
        exact ⟨a, b, c, d, e⟩
      · rintro ⟨a, b, c, d, e⟩
        refine ⟨⟨⟨_, a⟩, a⟩, b, ⟨⟨_, c⟩, fun _ w hw => ?_⟩, d, e⟩
        obtain ⟨r, hr⟩ := mem_nbrs.1 hw
        have := hguard _ _ _ a hr
        subst this
        exact relOf_of_edge hu hr

/-- non-vacuity of guard (3): in a -r- b -r- c every edge at the first-hop node b has relation r -/
example : ∀ m k r, Edge (build [.node "a" "A", .node "b" "B", .node "c" "A", .link "a" "r" "b", .link "b" "r" "c"]) "a" m "r" →
    Edge (build [.node "a" "A", .node "b" "B", .node "c" "A", .link "a" "r" "b", .link "b" "r" "c"]) m k r → r = "r" := by
  intro m k r h1 h2
  simp [Edge, build, apply, addNode, addLink, verts, empty, joins] at h1 h2
  rcases h2 with (h | h) | (h | h) <;> exact h.2.2

/-- what the code *as written* computes: the relation of the second edge is not looked at, except that a pair `(m, m)`
    over a self-loop is returned only when *every* edge at `m` has relation `r2` -/
def TwoHopAsWritten (g : TGraph) (n r1 c1 r2 c2 : String) (p : String × String) : Prop :=
  Edge g n p.1 r1 ∧ classOf g p.1 = some c1 ∧ (∃ r, Edge g p.1 p.2 r) ∧
  (p.2 = p.1 → ∀ w r, Edge g p.1 w r → r = r2) ∧ classOf g p.2 = some c2 ∧ p.2 ≠ n

/-- **two_hop_as_written_exact.**  The exact answer of the code as written (second drop list receives the first-hop
    node).  `two_hop_partial` (1)-(3) are corollaries; the difference to `TwoHopSpec` is exactly the two known findings. -/
theorem two_hop_as_written_exact (hbug : QueryIdioms.hop2DropsNeighbour = false)
    {g : TGraph} (hw : wf g = true) {n r1 c1 r2 c2 : String} {l : List (String × String)}
    (h : getFirstAndSecondNeighbor g n r1 c1 r2 c2 = .ok l) (p : String × String) :
    p ∈ l ↔ TwoHopAsWritten g n r1 c1 r2 c2 p := by
  obtain ⟨_, rfl⟩ := prologue1 h
  have hu := (wf_iff.1 hw).2.2
  have h1 : QueryIdioms.hop1DropsNeighbour = true := by decide
  rw [twoHop, h1, hbug, mem_twoHopWith, mem_viaFilter_true hu, mem_viaFilter_false, mem_nbrs, mem_nbrs, TwoHopAsWritten]
  constructor
  · rintro ⟨⟨_, a⟩, b, ⟨c, d⟩, e, f⟩
    refine ⟨a, b, c, fun heq w r hwr => ?_, e, f⟩
    have := d heq w (mem_nbrs.2 ⟨r, hwr⟩)
    exact edge_rel_unique hu hwr ((relOf_iff hu).1 this)
  · rintro ⟨a, b, c, d, e, f⟩
    refine ⟨⟨⟨_, a⟩, a⟩, b, ⟨c, fun heq w hw => ?_⟩, e, f⟩
    obtain ⟨r, hr⟩ := mem_nbrs.1 hw
    have := d heq w r hr
    subst this
    exact relOf_of_edge hu hr

/-- the graph of the second known finding: b -r- a, a -s- a (self-loop), a -r- c, all of class A -/
def loopGraph : TGraph := build [.node "a" "A", .node "b" "A", .node "c" "A", .link "b" "r" "a", .link "a" "s" "a", .link "a" "r" "c"]

/-- **two_hop_selfloop_counterexample.**  Second known finding: a pair of the contract is *missing* — the first-hop node
    `a` has a self-loop of the requested second relation and another edge of a different relation, so `a` is put on its own
    drop list (replayed on the implementation by corpus case `two_hop_self_loop_lost`). -/
theorem two_hop_selfloop_counterexample (hbug : QueryIdioms.hop2DropsNeighbour = false) :
    wf loopGraph = true ∧
    ∃ l, getFirstAndSecondNeighbor loopGraph "b" "r" "A" "s" "A" = .ok l ∧
      TwoHopSpec loopGraph "b" "r" "A" "s" "A" ("a", "a") ∧ ("a", "a") ∉ l := by
  have h1 : QueryIdioms.hop1DropsNeighbour = true := by decide
  refine ⟨by decide, _, two_hop_total (g := loopGraph) (n := "b") (by decide) .., ?_, ?_⟩
  · simp [TwoHopSpec, Edge, classOf, loopGraph, build, apply, addNode, addLink, verts, empty, joins]
  · simp only [twoHop, hbug, h1]
    decide

/-- ConnectionPoint n1 -connects- Link n2 -has- ConnectionPoint n3 (corpus case `peer_wrong_relation`) -/
def peerGraph : TGraph := build [.node "n1" "ConnectionPoint", .node "n2" "Link", .node "n3" "ConnectionPoint",
  .link "n1" "connects" "n2", .link "n2" "has" "n3"]

/-- **peer_counterexample.**  `find_peer_connection_points` inherits the inert second relation filter: n3 is reported as a
    peer of n1 although the Link does not *connect* it. -/
theorem peer_counterexample (hbug : QueryIdioms.hop2DropsNeighbour = false) :
    wf peerGraph = true ∧
    ∃ ks, secondComponents peerGraph "n1" "connects" "Link" "connects" "ConnectionPoint" = .ok ks ∧ "n3" ∈ ks ∧
      ¬ ∃ m, TwoHopSpec peerGraph "n1" "connects" "Link" "connects" "ConnectionPoint" (m, "n3") := by
  have h1 : QueryIdioms.hop1DropsNeighbour = true := by decide
  refine ⟨by decide, twoHop peerGraph "n1" "connects" "Link" "connects" "ConnectionPoint" |>.map (·.2), ?_, ?_, ?_⟩
  · simp only [secondComponents, two_hop_total (g := peerGraph) (n := "n1") (by decide), bind, Except.bind, pure, Except.pure]
  · simp only [twoHop, hbug, h1]
    decide
  · simp [TwoHopSpec, Edge, peerGraph, build, apply, addNode, addLink, verts, empty, joins]

/-- Component n1 -has- NetworkService n2 -has- ConnectionPoint n3 (corpus case `nodecps_wrong_relation`) -/
def nodecpsGraph : TGraph := build [.node "n1" "Component", .node "n2" "NetworkService", .node "n3" "ConnectionPoint",
  .link "n1" "has" "n2", .link "n2" "has" "n3"]

/-- **nodecps_counterexample.**  `get_all_node_or_component_connection_points` inherits it as well. -/
theorem nodecps_counterexample (hbug : QueryIdioms.hop2DropsNeighbour = false) :
    wf nodecpsGraph = true ∧
    ∃ ks, secondComponents nodecpsGraph "n1" "has" "NetworkService" "connects" "ConnectionPoint" = .ok ks ∧ "n3" ∈ ks ∧
      ¬ ∃ m, TwoHopSpec nodecpsGraph "n1" "has" "NetworkService" "connects" "ConnectionPoint" (m, "n3") := by
  have h1 : QueryIdioms.hop1DropsNeighbour = true := by decide
  refine ⟨by decide, twoHop nodecpsGraph "n1" "has" "NetworkService" "connects" "ConnectionPoint" |>.map (·.2), ?_, ?_, ?_⟩
  · simp only [secondComponents, two_hop_total (g := nodecpsGraph) (n := "n1") (by decide), bind, Except.bind, pure, Except.pure]
  · simp only [twoHop, hbug, h1]
    decide
  · simp [TwoHopSpec, Edge, nodecpsGraph, build, apply, addNode, addLink, verts, empty, joins]

/-- **wf_build.**  The hypothesis `wf g` of the theorems above holds for every view obtained through
    `add_node` / `add_link`, which is how the harness (and the library) builds graphs. -/
theorem wf_build (ops : List Op) : wf (build ops) = true := Query.wf_build ops

/-! ### derived helpers with a class gate (gate classes and query constants regenerated from the source) -/

/-- **helper_constants.**  What the translator read from the four derived helpers of `ABCPropertyGraph`: the admitted
    classes of each gate and the relation / class constants of the underlying query. -/
theorem helper_constants :
    QueryIdioms.linkCpsGate = ["Link", "NetworkService"] ∧ QueryIdioms.linkCpsQuery = ["connects", "ConnectionPoint"] ∧
    QueryIdioms.childCpsGate = ["ConnectionPoint"] ∧ QueryIdioms.childCpsQuery = ["connects", "ConnectionPoint"] ∧
    QueryIdioms.nodeCpsGate = ["NetworkNode", "Component", "CompositeNode"] ∧
    QueryIdioms.nodeCpsQuery = ["has", "NetworkService", "connects", "ConnectionPoint"] ∧
    QueryIdioms.peerQuery = ["connects", "Link", "connects", "ConnectionPoint"] := by decide

/-- **link_cps_exact.**  `get_all_ns_or_link_connection_points(n)` answers only for a Link or a NetworkService (whole
    class names: a CompositeLink is not a Link), and then with exactly the ConnectionPoints joined to `n` by `connects`. -/
theorem link_cps_exact {g : TGraph} (hw : wf g = true) {n : String} {l : List String} (h : linkCps g n = .ok l) :
    (classOf g n = some "Link" ∨ classOf g n = some "NetworkService") ∧
    ∀ m, m ∈ l ↔ Edge g n m "connects" ∧ classOf g m = some "ConnectionPoint" := by
  obtain ⟨⟨c, hc, hm⟩, hq⟩ := gated_ok_iff.1 h
  have hk := helper_constants
  rw [hk.1] at hm
  rw [hk.2.1] at hq
  refine ⟨?_, first_neighbor_exact hw hq⟩
  simp at hm
  rcases hm with rfl | rfl
  · exact Or.inl hc
  · exact Or.inr hc

/-- **child_cps_exact.**  `get_all_child_connection_points` -/
theorem child_cps_exact {g : TGraph} (hw : wf g = true) {n : String} {l : List String} (h : childCps g n = .ok l) :
    classOf g n = some "ConnectionPoint" ∧
    ∀ m, m ∈ l ↔ Edge g n m "connects" ∧ classOf g m = some "ConnectionPoint" := by
  obtain ⟨⟨c, hc, hm⟩, hq⟩ := gated_ok_iff.1 h
  have hk := helper_constants
  rw [hk.2.2.1] at hm
  rw [hk.2.2.2.1] at hq
  refine ⟨?_, first_neighbor_exact hw hq⟩
  simp at hm
  subst hm
  exact hc

/-- **node_cps_spec.**  `get_all_node_or_component_connection_points` answers only for a NetworkNode, Component or
    CompositeNode, with the second components of the two-hop query has/NetworkService, connects/ConnectionPoint. -/
theorem node_cps_spec {g : TGraph} {n : String} {ks : List String} (h : nodeCps g n = .ok ks) :
    (classOf g n = some "NetworkNode" ∨ classOf g n = some "Component" ∨ classOf g n = some "CompositeNode") ∧
    secondComponents g n "has" "NetworkService" "connects" "ConnectionPoint" = .ok ks := by
  obtain ⟨⟨c, hc, hm⟩, hq⟩ := gated_ok_iff.1 h
  have hk := helper_constants
  rw [hk.2.2.2.2.1] at hm
  rw [hk.2.2.2.2.2.1] at hq
  refine ⟨?_, hq⟩
  simp at hm
  rcases hm with rfl | rfl | rfl
  · exact Or.inl hc
  · exact Or.inr (Or.inl hc)
  · exact Or.inr (Or.inr hc)

/-- **helpers_outside_domain.**  Asked about a node of any other class — `CompositeLink` for the Link helper included —
    or about an unknown node, each gated helper raises the query exception. -/
theorem helpers_outside_domain {g : TGraph} {n : String} :
    ((¬ ∃ c, classOf g n = some c ∧ (c = "Link" ∨ c = "NetworkService")) → linkCps g n = .error .query) ∧
    ((¬ ∃ c, classOf g n = some c ∧ c = "ConnectionPoint") → childCps g n = .error .query) ∧
    ((¬ ∃ c, classOf g n = some c ∧ (c = "NetworkNode" ∨ c = "Component" ∨ c = "CompositeNode")) → nodeCps g n = .error .query) := by
  have hk := helper_constants
  refine ⟨fun h => gated_outside ?_, fun h => gated_outside ?_, fun h => gated_outside ?_⟩
  · rw [hk.1]; simpa using h
  · rw [hk.2.2.1]; simpa using h
  · rw [hk.2.2.2.2.1]; simpa using h

/-- non-vacuity: on cp -connects- CompositeLink cl -connects- cp2 the Link helper raises for `cl`, and answers for a Link -/
example : (linkCps (build [.node "cp" "ConnectionPoint", .node "cl" "CompositeLink", .node "l" "Link", .link "cp" "connects" "cl",
      .link "cp" "connects" "l"]) "cl").toOption = none ∧
    (linkCps (build [.node "cp" "ConnectionPoint", .node "cl" "CompositeLink", .node "l" "Link", .link "cp" "connects" "cl",
      .link "cp" "connects" "l"]) "l").toOption = some ["cp"] := by decide

/-- **relink_replaces_relation.**  A NetworkX `Graph` keeps one edge per pair of nodes: a second `add_link` between the same
    two nodes (either orientation, any relation) *replaces* the relation.  Afterwards every first-neighbour query from `a`
    sees `b` under the new relation only — the earlier relation is gone for all queries. -/
theorem relink_replaces_relation {g : TGraph} (hw : wf g = true) {a b : String} (ha : a ∈ verts g) (hb : b ∈ verts g)
    (s r c : String) {l : List String} (h : getFirstNeighbor (addLink g a s b) a r c = .ok l) :
    b ∈ l ↔ r = s ∧ classOf g b = some c := by
  have hw' : wf (addLink g a s b) = true := wf_addLink hw a s b
  have hu := (wf_iff.1 hw').2.2
  rw [first_neighbor_exact hw' h b, classOf_addLink, ← relOf_iff hu, relOf_addLink ha hb]
  constructor
  · rintro ⟨h1, h2⟩; exact ⟨(Option.some.inj h1).symm, h2⟩
  · rintro ⟨rfl, h2⟩; exact ⟨rfl, h2⟩

/-- instance: a -has- b, then a -connects- b: the `has` query no longer returns b -/
example : (getFirstNeighbor (build [.node "a" "A", .node "b" "B", .link "a" "has" "b", .link "b" "connects" "a"]) "a" "has" "B").toOption = some [] ∧
    (getFirstNeighbor (build [.node "a" "A", .node "b" "B", .link "a" "has" "b", .link "b" "connects" "a"]) "a" "connects" "B").toOption = some ["b"] := by
  decide

/-- **class_lookup_is_membership.**  `classOf g m = some c` in the statements above says that `(m, c)` is a node of the view. -/
theorem class_lookup_is_membership {g : TGraph} (hw : wf g = true) (m c : String) :
    classOf g m = some c ↔ (m, c) ∈ g.nodes := classOf_iff_mem hw m c

/-! ## shortest path

`IsPath g rel a z p`: `p` starts at `a`, ends at `z`, consecutive nodes are joined by an edge — of relation
`rel` when one is requested.  The proofs use `dropIteratesSnapshot = true`, read from the source on every run:
with the live-view iteration the model raises `runtime` and `shortest_path_total` no longer type-checks. -/

/-- the generated idiom flags the path theorems rest on (re-read from the source on every run) -/
theorem snapshot : QueryIdioms.dropIteratesSnapshot = true := by decide

/-- **shortest_path_sound.**  A non-empty answer is an actual path between the end nodes using only edges of the
    requested relation. -/
theorem shortest_path_sound {g : TGraph} (hw : wf g = true) {a z : String} {rel : Option String} {p : List String}
    (h : getNodesOnShortestPath g a z rel = .ok p) (hne : p ≠ []) : IsPath g rel a z p := by
  obtain ⟨_, _, rfl⟩ := sp_ok snapshot h
  rcases shortest_isPath_spec hw a z rel with ⟨he, _⟩ | ⟨hp, _⟩
  · exact absurd he hne
  · exact hp

/-- **shortest_path_empty_iff_unreachable.**  The answer is the empty list exactly when no path exists. -/
theorem shortest_path_empty_iff_unreachable {g : TGraph} (hw : wf g = true) {a z : String} {rel : Option String}
    {p : List String} (h : getNodesOnShortestPath g a z rel = .ok p) :
    p = [] ↔ ¬ ∃ q, IsPath g rel a z q := by
  obtain ⟨_, _, rfl⟩ := sp_ok snapshot h
  rcases shortest_isPath_spec hw a z rel with ⟨he, hno⟩ | ⟨hp, _⟩
  · exact ⟨fun _ => hno, fun _ => he⟩
  · constructor
    · intro he
      have := hp.1
      rw [he] at this; simp at this
    · intro hno; exact absurd ⟨_, hp⟩ hno

/-- **shortest_path_minimal.**  No path between the end nodes (over the requested relation) is shorter than the answer. -/
theorem shortest_path_minimal {g : TGraph} (hw : wf g = true) {a z : String} {rel : Option String} {p : List String}
    (h : getNodesOnShortestPath g a z rel = .ok p) {q : List String} (hq : IsPath g rel a z q) :
    p ≠ [] ∧ p.length ≤ q.length := by
  obtain ⟨_, _, rfl⟩ := sp_ok snapshot h
  rcases shortest_isPath_spec hw a z rel with ⟨_, hno⟩ | ⟨hp, hmin⟩
  · exact absurd ⟨q, hq⟩ hno
  · refine ⟨?_, hmin q hq⟩
    intro he
    have := hp.1
    rw [he] at this; simp at this

/-- **shortest_path_total.**  For end nodes of the graph the query answers, whatever relation is requested and
    whatever other kinds of edges are present. -/
theorem shortest_path_total {g : TGraph} {a z : String} (ha : a ∈ verts g) (hz : z ∈ verts g) (rel : Option String) :
    ∃ p, getNodesOnShortestPath g a z rel = .ok p := by
  obtain ⟨h1, h2⟩ := prologue_ok ha
  obtain ⟨_, h3⟩ := prologue_ok hz
  rw [sp_eq snapshot]
  simp [h1, h2, h3, bind, Except.bind, pure, Except.pure]

/-- non-vacuity: on the mixed-relation graph of the corpus the `r`-restricted query from a to b answers `[a, b]`,
    and the `s`-restricted one from a to c answers `[]` -/
example : wf cexGraph = true ∧ shortest (restrict cexGraph (some "r")) "a" "b" = ["a", "b"] ∧
    shortest (restrict cexGraph (some "s")) "a" "c" = [] ∧ shortest (restrict cexGraph none) "a" "c" = ["a", "b", "c"] := by
  decide

/-! ## path with hops

The statements hold for either form of the replacement test (`len(result) > len(path)` or `>=`, flag
`hopsReplaceStrict`): both keep a path of minimal length.  "Loop-free" is the code's documented sense: no cycle in the subgraph induced by the path (`LoopFree`: no repeated
node and no edge between non-consecutive path nodes, self-loops included). -/

/-- **hops_sound.**  A non-empty answer runs from `a` to `z`, is loop-free, contains every requested hop and
    respects the cut-off. -/
theorem hops_sound {g : TGraph} {a z : String} {hops : List String} {cutoff : Nat} {p : List String}
    (h : getNodesOnPathWithHops g a z hops cutoff = .ok p) (hne : p ≠ []) : HopPath g a z hops cutoff p := by
  obtain ⟨_, _, rfl⟩ := hops_ok h
  rcases pathWithHops_spec g a z hops cutoff with ⟨he, _⟩ | ⟨hp, _⟩
  · exact absurd he hne
  · exact hp

/-- **hops_minimal.**  The answer is shortest among *all* loop-free paths with the requested hops within the
    cut-off (the enumeration is proved complete, so this is not relative to what was enumerated). -/
theorem hops_minimal {g : TGraph} {a z : String} {hops : List String} {cutoff : Nat} {p : List String}
    (h : getNodesOnPathWithHops g a z hops cutoff = .ok p) {q : List String} (hq : HopPath g a z hops cutoff q) :
    p ≠ [] ∧ p.length ≤ q.length := by
  obtain ⟨_, _, rfl⟩ := hops_ok h
  rcases pathWithHops_spec g a z hops cutoff with ⟨_, hno⟩ | ⟨hp, hmin⟩
  · exact absurd ⟨q, hq⟩ hno
  · refine ⟨?_, hmin q hq⟩
    intro he
    have := hp.1.1
    rw [he] at this; simp at this

/-- **hops_empty_iff_none.**  The empty list is returned exactly when no such path exists. -/
theorem hops_empty_iff_none {g : TGraph} {a z : String} {hops : List String} {cutoff : Nat} {p : List String}
    (h : getNodesOnPathWithHops g a z hops cutoff = .ok p) : p = [] ↔ ¬ ∃ q, HopPath g a z hops cutoff q := by
  obtain ⟨_, _, rfl⟩ := hops_ok h
  rcases pathWithHops_spec g a z hops cutoff with ⟨he, hno⟩ | ⟨hp, _⟩
  · exact ⟨fun _ => hno, fun _ => he⟩
  · constructor
    · intro he
      have := hp.1.1
      rw [he] at this; simp at this
    · intro hno; exact absurd ⟨_, hp⟩ hno

/-- **hops_list_semantics.**  `hops` is an arbitrary *list* (no `Nodup` hypothesis anywhere above: `HopPath` asks
    `∀ h ∈ hops, h ∈ p`).  Repeating a hop, listing the hops in path order, in reverse or shuffled, or listing the end
    nodes themselves does not change the answer: it depends only on which ids are listed. -/
theorem hops_list_semantics {g : TGraph} {a z : String} {hops hops' : List String} (hsame : ∀ x, x ∈ hops ↔ x ∈ hops')
    (cutoff : Nat) : getNodesOnPathWithHops g a z hops cutoff = getNodesOnPathWithHops g a z hops' cutoff := by
  unfold getNodesOnPathWithHops
  rw [pathWithHops_congr hsame]

/-- instances: a repeated hop, and the reversed list -/
example (g : TGraph) (a z c : String) (k : Nat) :
    getNodesOnPathWithHops g a z [c, c] k = getNodesOnPathWithHops g a z [c] k :=
  hops_list_semantics (by simp) k

example (g : TGraph) (a z : String) (hs : List String) (k : Nat) :
    getNodesOnPathWithHops g a z hs.reverse k = getNodesOnPathWithHops g a z hs k :=
  hops_list_semantics (by simp) k

/-- **hops_foreign_hop_empty.**  A hop that is not a node of *this* graph (unknown, or a node of another graph in the
    store) makes the answer the empty list — never an error, never a path. -/
theorem hops_foreign_hop_empty {g : TGraph} (hw : wf g = true) {a z : String} {hops : List String} {cutoff : Nat}
    {p : List String} (h : getNodesOnPathWithHops g a z hops cutoff = .ok p) {x : String} (hx : x ∈ hops)
    (hxg : x ∉ verts g) : p = [] := by
  rw [hops_empty_iff_none h]
  rintro ⟨q, ⟨hh, _, hc⟩, _, hhops, _⟩
  exact hxg (chain_nodes_in_verts (wf_iff.1 hw).2.1 q a hh (hops_ok h).1 hc x (hhops x hx))

/-- the empty hop list asks for nothing: the answer is a shortest loop-free path within the cut-off -/
example (g : TGraph) (a z : String) (k : Nat) (p : List String) :
    HopPath g a z [] k p ↔ IsPath g none a z p ∧ LoopFree g p ∧ p.length ≤ k + 1 := by
  simp [HopPath]

/-- the contract as the property states it — no cut-off: a loop-free path from `a` to `z` containing every requested hop -/
def HopPathU (g : TGraph) (a z : String) (hops : List String) (p : List String) : Prop :=
  IsPath g none a z p ∧ LoopFree g p ∧ (∀ h ∈ hops, h ∈ p)

/-- **hops_cutoff_irrelevant.**  A loop-free path visits every node at most once, so a cut-off of at least
    `#nodes - 1` edges (the default 100 on any graph of up to 101 nodes) excludes nothing. -/
theorem hops_cutoff_irrelevant {g : TGraph} (hw : wf g = true) {a z : String} (ha : a ∈ verts g) (hops : List String)
    {cutoff : Nat} (hc : (verts g).length ≤ cutoff + 1) (q : List String) :
    HopPath g a z hops cutoff q ↔ HopPathU g a z hops q := by
  constructor
  · rintro ⟨h1, h2, h3, _⟩; exact ⟨h1, h2, h3⟩
  · rintro ⟨h1, h2, h3⟩
    refine ⟨h1, h2, h3, ?_⟩
    have hin := chain_nodes_in_verts (wf_iff.1 hw).2.1 q a h1.1 ha h1.2.2
    exact Nat.le_trans (nodup_length_le_of_subset q (verts g) h2.1 hin) hc

/-- **hops_full_statement.**  The property's sentence in one statement, for a cut-off that does not bind: the answer is
    a loop-free path from `a` to `z` containing all requested hops that is shortest among *all* such paths, or it is the
    empty list and no such path exists. -/
theorem hops_full_statement {g : TGraph} (hw : wf g = true) {a z : String} {hops : List String} {cutoff : Nat}
    (hc : (verts g).length ≤ cutoff + 1) {p : List String}
    (h : getNodesOnPathWithHops g a z hops cutoff = .ok p) :
    (p = [] ∧ ¬ ∃ q, HopPathU g a z hops q) ∨
    (HopPathU g a z hops p ∧ ∀ q, HopPathU g a z hops q → p.length ≤ q.length) := by
  have ha := (hops_ok h).1
  have heq := hops_cutoff_irrelevant hw ha hops hc (z := z)
  by_cases hp : p = []
  · left
    refine ⟨hp, ?_⟩
    rintro ⟨q, hq⟩
    exact ((hops_empty_iff_none h).1 hp) ⟨q, (heq q).2 hq⟩
  · right
    exact ⟨(heq p).1 (hops_sound h hp), fun q hq => (hops_minimal h ((heq q).2 hq)).2⟩

/-- **hops_contract_graph_theoretic.**  `LoopFree` in the statements of this section is the graph-theoretic notion: a
    path satisfies the contract iff it is a simple path (no node twice) from `a` to `z` whose induced subgraph contains no
    cycle (`IsCycle`: a self-loop, or at least three distinct nodes each joined to the next and the last to the first), and
    every requested hop lies on it.  (`Proofs/Lemmas/C06Cycle.lean`: chord-freeness of a simple path = acyclicity.) -/
theorem hops_contract_graph_theoretic {g : TGraph} {a z : String} {hops : List String} (q : List String) :
    HopPathU g a z hops q ↔
      IsPath g none a z q ∧ q.Nodup ∧ (¬ ∃ c, (∀ x ∈ c, x ∈ q) ∧ IsCycle g c) ∧ ∀ h ∈ hops, h ∈ q := by
  constructor
  · rintro ⟨h1, h2, h3⟩
    exact ⟨h1, h2.1, (loopFree_iff_acyclic h2.1 h1.2.2).1 h2, h3⟩
  · rintro ⟨h1, h2, h3, h4⟩
    exact ⟨h1, (loopFree_iff_acyclic h2 h1.2.2).2 h3, h4⟩

/-- a non-empty answer is a simple path and no cycle runs through its nodes -/
theorem hops_answer_acyclic {g : TGraph} {a z : String} {hops : List String} {cutoff : Nat} {p : List String}
    (h : getNodesOnPathWithHops g a z hops cutoff = .ok p) (hne : p ≠ []) :
    p.Nodup ∧ ¬ ∃ c, (∀ x ∈ c, x ∈ p) ∧ IsCycle g c := by
  obtain ⟨h1, h2, _, _⟩ := hops_sound h hne
  exact ⟨h2.1, (loopFree_iff_acyclic h2.1 h1.2.2).1 h2⟩

/-- the query answers for end nodes of the graph -/
theorem hops_total {g : TGraph} {a z : String} (ha : a ∈ verts g) (hz : z ∈ verts g) (hops : List String) (cutoff : Nat) :
    ∃ p, getNodesOnPathWithHops g a z hops cutoff = .ok p := by
  obtain ⟨h1, h2⟩ := prologue_ok ha
  obtain ⟨_, h3⟩ := prologue_ok hz
  simp [getNodesOnPathWithHops, h1, h2, h3, bind, Except.bind, pure, Except.pure]

/-- non-vacuity: a square a-b-c-d-a with the chord a-c; from a to c the direct edge is the answer, with hop b the
    path through b is rejected (its induced subgraph has the cycle a-b-c) and nothing is returned -/
def hopGraph : TGraph := build [.node "a" "A", .node "b" "A", .node "c" "A", .node "d" "A",
  .link "a" "r" "b", .link "b" "r" "c", .link "c" "r" "d", .link "d" "r" "a", .link "a" "s" "c"]

/-- non-vacuity of the hypotheses of `hops_full_statement` (default cut-off 100) -/
example : wf hopGraph = true ∧ (verts hopGraph).length ≤ 100 + 1 := by decide

/-- the cycle that makes the path a - b - c of `hopGraph` not loop-free: a - b - c - a (the chord a -s- c closes it) -/
example : IsCycle hopGraph ["a", "b", "c"] := by
  refine Or.inr ⟨by decide, by decide, ⟨⟨"r", by unfold Edge; decide, by simp⟩, ⟨"r", by unfold Edge; decide, by simp⟩, trivial⟩,
    "a", "c", rfl, rfl, ⟨"s", by unfold Edge; decide, by simp⟩⟩

example : pathWithHops hopGraph "a" "c" [] 100 = ["a", "c"] ∧ pathWithHops hopGraph "a" "c" ["b"] 100 = [] ∧
    pathWithHops hopGraph "b" "d" ["a"] 100 = ["b", "a", "d"] ∧ pathWithHops hopGraph "b" "d" ["a"] 1 = [] := by
  decide

end FimVerif.C06
