import FimVerif.Model.Validate16
import FimVerif.Proofs.Lemmas.C16Regex
import FimVerif.Proofs.Lemmas.C16Validate
import FimVerif.Proofs.Lemmas.C16Misc
import FimVerif.Proofs.Lemmas.C16Domain
import FimVerif.Proofs.Lemmas.C16Entry
import FimVerif.Proofs.Lemmas.C03Parse
/-!
C16 - label, tag, name and data validation holds on every construction path.
Property theorems only; lemmas are in Proofs/Lemmas/C16*.lean.
-/
namespace FimVerif.C16
open FimVerif.Regex FimVerif.V16 FimVerif.Gen.Validators FimVerif.Gen.EntryPoints

/-- The derivative matcher decides the denotational language - all regexes, all strings, no bound. -/
theorem matches_iff (r : Re) (s : List Char) : r.matches s = true ↔ r.L s := by
  induction s generalizing r with
  | nil => simpa [Re.matches] using nullable_iff r
  | cons c s ih => simp only [Re.matches]; rw [ih, der_iff]

/-- `re.fullmatch(R, s)` accepts exactly L(R). -/
theorem accepts_full_iff (r : Re) (s : List Char) : accepts .full r s = true ↔ r.L s := by
  simp only [accepts]; exact matches_iff r s

/-- `re.match('^'+R+'$', s)` accepts L(R) and every word of L(R) followed by one "\n". -/
theorem accepts_dollar_iff (r : Re) (s : List Char) :
    accepts .pyDollar r s = true ↔ r.L s ∨ ∃ w, s = w ++ ['\n'] ∧ r.L w := by
  simp only [accepts, Bool.or_eq_true, Bool.and_eq_true, matches_iff, endsNl]
  constructor
  · rintro (h | ⟨h1, h2⟩)
    · exact Or.inl h
    · refine Or.inr ⟨s.dropLast, ?_, h2⟩
      have h1' : s.getLast? = some '\n' := by simpa using h1
      have hne : s ≠ [] := by intro h; subst h; simp at h1'
      have := List.dropLast_concat_getLast hne
      rw [List.getLast?_eq_some_getLast hne] at h1'
      have hl : s.getLast hne = '\n' := by simpa using h1'
      rw [hl] at this; exact this.symm
  · rintro (h | ⟨w, rfl, hw⟩)
    · exact Or.inl h
    · right; simp [hw]


/-! ## The call sites as they are in the source now

Read by the translator from the AST of `Labels._set_fields` (list and scalar site), `Tags._check` and
`BaseSliver.set_name`. With `re.match(... '$')` these would be `.pyDollar`, the statements below would not type-check
(`rfl` fails), the build link breaks and the corpus cases `"12\n"` etc. are the concrete failing inputs. -/
theorem anchors_full :
    labelAnchorList = .full ∧ labelAnchorScalar = .full ∧ tagAnchor = .full ∧ nameAnchor = .full :=
  ⟨rfl, rfl, rfl, rfl⟩

/-- Every method of fim.user that writes Name / Labels / Tags / boot script / a JSON blob straight into the graph (instead of
through a sliver's setters) first hands the same value to the validating property setter. The list is read from the AST
of fim/user/*.py on every run; a writer that skips the setter (e.g. `self._name = new_name` in `rename`) makes this fail. -/
theorem raw_writers_guarded : ∀ w ∈ rawWriters, w.2.2 ≠ "unguarded" := by decide

/-- every range-checked label field also has a format (regex) - so `int()` only ever sees what the regex let through -/
theorem range_fields_have_regex : ∀ kc ∈ labelRange, (labelRegex.lookup kc.1).isSome = true := by
  decide

/-! ## Labels: soundness on every path

`Valid o`: every field of the Labels object `o` holds None, a string in `InDomain field`, or a list all of whose elements
are strings in `InDomain field` (for the fields without any validator: anything).
`InDomain k s := (regex k exists → s ∈ L(regex k)) ∧ (range k exists → range k holds of s)`. -/

/-- No value outside its documented domain can be stored, whichever way it arrives: constructor, bulk setter,
copy-with-changes (`update`), `from_json`, model-element `update_labels` + read-back; scalar or list form;
any number of keyword arguments. -/
theorem accept_sound (p : Path) (base : LObj) (kw : List (String × Val)) (o' : LObj)
    (hb : Valid base) (h : enter p base kw = .ok o') : Valid o' := by
  have hl := anchors_full.1
  have hs := anchors_full.2.1
  cases p with
  | ctor => exact setFields_sound hl hs h valid_default
  | setf => exact setFields_sound hl hs h hb
  | update => exact setFields_sound hl hs h hb
  | json => exact setFields_sound hl hs h valid_default
  | elem =>
    simp only [enter] at h
    cases h1 : setFields false base kw with
    | error e => simp [h1] at h
    | ok o =>
      simp only [h1] at h
      cases h2 : readBack o with
      | error e => simp [h2] at h
      | ok r =>
        cases r with
        | none => simp only [h2, pure, Except.pure, Except.ok.injEq] at h; subst h; exact valid_default
        | some o2 =>
          simp only [h2, pure, Except.pure, Except.ok.injEq] at h
          subst h
          unfold readBack at h2
          split at h2
          · simp [pure, Except.pure] at h2
          · cases h3 : setFields true defaultObj (jsonKeys (toDict o)) with
            | error e => simp [h3] at h2
            | ok o3 =>
              simp only [h3, pure, Except.pure, Except.ok.injEq, Option.some.injEq] at h2
              subst h2
              exact setFields_sound hl hs h3 valid_default

/-- spelled out for a scalar: a stored string is in the language of the field's regex and satisfies its range -/
theorem stored_scalar_in_domain (p : Path) (base : LObj) (kw : List (String × Val)) (o' : LObj)
    (hb : Valid base) (h : enter p base kw = .ok o') (k : String) (s : List Char) (hm : (k, Val.str s) ∈ o') :
    (∀ r, labelRegex.lookup k = some r → r.L s) ∧ (∀ cs, labelRange.lookup k = some cs → evalRange s cs = .ok true) :=
  accept_sound p base kw o' hb h (k, .str s) hm

/-- spelled out for a list: the validators are not bypassed for list elements -/
theorem stored_list_in_domain (p : Path) (base : LObj) (kw : List (String × Val)) (o' : LObj)
    (hb : Valid base) (h : enter p base kw = .ok o') (k : String) (xs : List Item) (hm : (k, Val.list xs) ∈ o')
    (r : Re) (hr : labelRegex.lookup k = some r) : ∀ i ∈ xs, ∃ s, i = .str s ∧ r.L s := by
  intro i hi
  have h1 : ItemOk k i := accept_sound p base kw o' hb h (k, .list xs) hm i hi
  cases i with
  | str s => exact ⟨s, rfl, h1.1 r hr⟩
  | other => exact h1.elim

/-- non-vacuity: a concrete non-trivial accepted call and a rejected near-miss -/
example : enter .ctor defaultObj [("vlan", .list [.str ['1'], .str ['4','0','9','6']])] =
    .ok (setKey "vlan" (.list [.str ['1'], .str ['4','0','9','6']]) defaultObj) := by rfl
example : enter .ctor defaultObj [("vlan", .str ['1','2','\n'])] = .error "label" := by rfl
example : enter .update defaultObj [("mac", .list [.str ['0','0',':','1','1',':','2','2',':','3','3',':','4','4',':','5','5','\n']])]
    = .error "label" := by rfl
example : enter .json defaultObj [("numa", .str [' ', '3', ' '])] = .error "label" := by rfl

/-! ## Labels: completeness -/

/-- Every value inside the documented domain is accepted and stored as given, on the constructor, the bulk setter,
`update` and `from_json`, in scalar and in list form. -/
theorem accept_complete (p : Path) (hp : p ≠ .elem) (base : LObj) (k : String) (v : Val)
    (hk : labelFields.contains k = true) (hv : ValOk k v) (hn : v ≠ .none) :
    enter p base [(k, v)] = .ok (setKey k v (if p = .ctor ∨ p = .json then defaultObj else base)) := by
  have hl := anchors_full.1
  have hs := anchors_full.2.1
  cases p with
  | elem => exact absurd rfl hp
  | ctor => simp only [enter, setFields, setField_complete hl hs hk hv hn]; rfl
  | setf => simp only [enter, setFields, setField_complete hl hs hk hv hn]; simp; rfl
  | update => simp only [enter, setFields, setField_complete hl hs hk hv hn]; simp; rfl
  | json =>
    have : jsonKeys [(k, v)] = [(k, v)] := by
      unfold jsonKeys; split
      · have hk' : k ∈ labelFields := by simpa using hk
        simp [List.filter, hk']
      · rfl
    simp only [enter, this, setFields, setField_complete hl hs hk hv hn]; rfl

/-- … and on the model-element path it is not rejected either (what is read back is C03's round trip). -/
theorem accept_complete_elem (base : LObj) (hb : Valid base) (k : String) (v : Val)
    (hk : labelFields.contains k = true) (hv : ValOk k v) (hn : v ≠ .none) :
    ∃ o', enter .elem base [(k, v)] = .ok o' := by
  have hl := anchors_full.1
  have hs := anchors_full.2.1
  have hset : setFields false base [(k, v)] = .ok (setKey k v base) := by
    simp only [setFields, setField_complete hl hs hk hv hn]; rfl
  obtain ⟨r, hr⟩ := readBack_total hl hs (valid_setKey hb hv)
  simp only [enter, hset, hr]
  cases r with
  | none => exact ⟨_, rfl⟩
  | some o => exact ⟨_, rfl⟩

example : ValOk "vlan_range" (.str ['1','-','4','0','9','6']) := by
  refine ⟨fun r hr => ?_, fun cs hc => ?_⟩
  · have : r = re_vlan_range := by simp [labelRegex, List.lookup] at hr; exact hr.symm
    subst this; exact (matches_iff _ _).mp (by decide)
  · have : cs = [⟨.lit 0, .le, .ofPart '-' 0⟩, ⟨.ofPart '-' 0, .le, .lit 4096⟩, ⟨.lit 0, .le, .ofPart '-' 1⟩,
        ⟨.ofPart '-' 1, .le, .lit 4096⟩, ⟨.ofPart '-' 0, .le, .ofPart '-' 1⟩] := by
      simp [labelRange, List.lookup] at hc; exact hc.symm
    subst this; rfl

/-! ## Accepted values can be encoded and decoded again -/

/-- Whatever was accepted on any path is not rejected when it goes through `to_json`/`from_json` again
(the validators are deterministic and `from_json` applies the same ones). -/
theorem reencode_accepted (p : Path) (base : LObj) (kw : List (String × Val)) (o' : LObj)
    (hb : Valid base) (h : enter p base kw = .ok o') : ∃ r, readBack o' = .ok r :=
  readBack_total anchors_full.1 anchors_full.2.1 (accept_sound p base kw o' hb h)

/-! ## No newline (trailing or embedded) in anything a regex validated -/

theorem label_regexes_avoid_newline : ∀ kr ∈ labelRegex, Re.avoids '\n' kr.2 = true := by decide

/-- A stored label of a field with a format never contains "\n" - the defect class the `$` anchoring admitted. -/
theorem stored_label_no_newline (p : Path) (base : LObj) (kw : List (String × Val)) (o' : LObj)
    (hb : Valid base) (h : enter p base kw = .ok o') (k : String) (s : List Char) (hm : (k, Val.str s) ∈ o')
    (r : Re) (hr : labelRegex.lookup k = some r) : '\n' ∉ s := by
  have hL := (stored_scalar_in_domain p base kw o' hb h k s hm).1 r hr
  have hmem : (k, r) ∈ labelRegex := by
    have : ∀ (l : List (String × Re)), l.lookup k = some r → (k, r) ∈ l := by
      intro l
      induction l with
      | nil => intro h; simp [List.lookup] at h
      | cons a t ih =>
        intro h
        obtain ⟨k', r'⟩ := a
        simp only [List.lookup] at h
        split at h
        · rename_i heq
          have : k = k' := by simpa using heq
          cases h; subst this; exact List.mem_cons_self ..
        · exact List.mem_cons_of_mem _ (ih h)
    exact this _ hr
  exact avoids_sound '\n' r (label_regexes_avoid_newline (k, r) hmem) s hL

/-! ## Tags -/

/-- Every stored tag is in the language of TAG_PATTERN, whether given as arguments, lists/tuples or through from_json. -/
theorem tags_sound (args : List TArg) (l : List (List Char)) (h : tagsCtor args = .ok l) : ∀ t ∈ l, tagRe.L t := by
  intro t ht
  have := tagsCtor_ok h t ht
  rw [anchors_full.2.2.1] at this
  exact accepts_full.mp this

/-- A list of strings of the documented pattern is accepted and stored as given. -/
theorem tags_complete (l : List (List Char)) (h : ∀ t ∈ l, tagRe.L t) : tagsCtor [.many (l.map Item.str)] = .ok l := by
  have h' : ∀ t ∈ l, accepts tagAnchor tagRe t = true := by
    intro t ht; rw [anchors_full.2.2.1]; exact accepts_full.mpr (h t ht)
  simp only [tagsCtor, tagItems_of l h', pure, Except.pure, List.append_nil]

theorem tag_no_newline (args : List TArg) (l : List (List Char)) (h : tagsCtor args = .ok l) : ∀ t ∈ l, '\n' ∉ t :=
  fun t ht => avoids_sound '\n' tagRe (by decide) t (tags_sound args l h t ht)

example : tagsCtor [.one (.str ['a','b','c','\n'])] = .error "tag" := by rfl
example : tagsCtor [.one (.str ['b','l','u','e']), .many [.str ['s','o']]] = .ok [['b','l','u','e'], ['s','o']] := by rfl

/-! ## Element names -/

/-- `set_name` stores exactly the strings of the class's NAME_REGEX. -/
theorem name_accept_iff (cls : String) (r : Re) (hr : nameRe.lookup cls = some r) (s : List Char) :
    setName cls (.str s) = .ok s ↔ r.L s := by
  simp only [setName, hr, anchors_full.2.2.2]
  by_cases hm : accepts .full r s = true
  · simp only [hm, if_true]; exact ⟨fun _ => accepts_full.mp hm, fun _ => rfl⟩
  · simp only [hm]
    constructor
    · intro h; simp [throw, throwThe, MonadExceptOf.throw] at h
    · intro h; exact absurd (accepts_full.mpr h) hm

theorem name_stored_is_input (cls : String) (v : Val) (s : List Char) (h : setName cls v = .ok s) : v = .str s := by
  unfold setName at h
  cases v with
  | none => simp [throw, throwThe, MonadExceptOf.throw] at h
  | other => simp [throw, throwThe, MonadExceptOf.throw] at h
  | list xs => simp [throw, throwThe, MonadExceptOf.throw] at h
  | str s' =>
    simp only at h
    split at h
    · simp [throw, throwThe, MonadExceptOf.throw] at h
    · split at h
      · simp only [pure, Except.pure, Except.ok.injEq] at h; rw [h]
      · simp [throw, throwThe, MonadExceptOf.throw] at h

theorem name_regexes_avoid_newline : ∀ kr ∈ nameRe, Re.avoids '\n' kr.2 = true := by decide

example : setName "NodeSliver" (.str ['a','b','\n']) = .error "value" := by rfl
example : setName "ComponentSliver" (.str ['a',' ','b']) = .ok ['a',' ','b'] := by rfl

/-! ## Size limits -/

/-- a boot script is stored iff it is strictly shorter than BOOST_SCRIPT_SIZE -/
theorem boot_accept_iff (s : List Char) : setBoot (.str s) = .ok (some s) ↔ s.length < bootScriptSize := by
  simp only [setBoot, bootOk]
  by_cases h : s.length < bootScriptSize
  · simp [h]; rfl
  · simp [h, throw, throwThe, MonadExceptOf.throw]

/-- a JSON text is stored iff it is at most MAX_SIZE long and parses; an object iff it can be dumped and the dump is
at most MAX_SIZE long (so what is stored never exceeds the limit) -/
theorem json_accept_iff (cls : String) (m : Nat) (hm : jsonMax.lookup cls = some m) (len : Nat) (valid : Bool) :
    (jsonStr cls len valid = .ok () ↔ len ≤ m ∧ valid = true) ∧ (jsonObj cls valid len = .ok () ↔ len ≤ m ∧ valid = true) := by
  simp only [jsonStr, jsonObj, hm, jsonTooLong]
  by_cases h : len > m <;> cases valid <;> simp [h, throw, throwThe, MonadExceptOf.throw, pure, Except.pure] <;> omega


/-! ## What the documented domains are, in plain terms

These tie `InDomain` / `Re.L` of the *generated* regexes and ranges to readable statements; if a pattern, a repetition
bound or a range constant changes in the source they stop type-checking. -/

/-- `int()` of a non-empty string of (Unicode) decimal digits is its positional value - no bound on the value. -/
theorem int_of_digits (s : List Char) (hne : s ≠ []) (h : ∀ c ∈ s, isDigit c = true) (hlen : s.length ≤ intMaxStrDigits) :
    pyInt s = some (Int.ofNat (decVal s)) := pyInt_digits s hne h hlen

/-- a range predicate holds iff each of its comparisons evaluates without error and holds -/
theorem range_holds_iff (s : List Char) (cs : List Cmp) :
    evalRange s cs = .ok true ↔ ∀ c ∈ cs, ∃ a b, evalInt s c.l = .ok a ∧ evalInt s c.r = .ok b ∧ cmpOp c.op a b = true :=
  evalRange_true_iff s cs

/-- VLAN: one to four decimal digits whose value is at most 4096. -/
theorem vlan_domain (s : List Char) :
    InDomain "vlan" s ↔ 1 ≤ s.length ∧ s.length ≤ 4 ∧ (∀ c ∈ s, isDigit c = true) ∧ decVal s ≤ 4096 := by
  have hr : labelRegex.lookup "vlan" = some re_vlan := by simp [labelRegex, List.lookup]
  have hc : labelRange.lookup "vlan" = some [⟨.lit 0, .le, .ofStr⟩, ⟨.ofStr, .le, .lit 4096⟩] := by simp [labelRange]
  have hint : 1 ≤ s.length → s.length ≤ 4 → (∀ c ∈ s, isDigit c = true) → evalInt s .ofStr = .ok (Int.ofNat (decVal s)) := by
    intro h1 h2 h3
    have hne : s ≠ [] := by intro h; subst h; simp at h1
    have : s.length ≤ intMaxStrDigits := by show s.length ≤ 4300; omega
    simp only [evalInt, pyInt_digits s hne h3 this]; rfl
  constructor
  · rintro ⟨h1, h2⟩
    obtain ⟨a, b, c⟩ := (L_rep_chr _ 1 4 s).mp (h1 _ hr)
    refine ⟨a, b, c, ?_⟩
    have hev := (evalRange_true_iff s _).mp (h2 _ hc) ⟨.ofStr, .le, .lit 4096⟩ (by simp)
    obtain ⟨x, y, hx, hy, hxy⟩ := hev
    simp only [hint a b c, Except.ok.injEq] at hx
    simp only [evalInt, pure, Except.pure, Except.ok.injEq] at hy
    subst hx; subst hy
    simp only [cmpOp, decide_eq_true_eq] at hxy
    exact Int.ofNat_le.mp hxy
  · rintro ⟨a, b, c, d⟩
    refine ⟨fun r hr' => ?_, fun cs hc' => ?_⟩
    · rw [hr] at hr'; cases hr'; exact (L_rep_chr _ 1 4 s).mpr ⟨a, b, c⟩
    · rw [hc] at hc'; cases hc'
      apply (evalRange_true_iff s _).mpr
      intro x hx
      simp only [List.mem_cons, List.mem_nil_iff, or_false] at hx
      cases hx with
      | inl hx => subst hx; exact ⟨0, _, rfl, hint a b c, by simp [cmpOp]⟩
      | inr hx => subst hx; exact ⟨_, 4096, hint a b c, rfl, by simp [cmpOp]; exact Int.ofNat_le.mpr d⟩

example : InDomain "vlan" ['4','0','9','6'] := (vlan_domain _).mpr ⟨by decide, by decide, by decide, by decide⟩
example : ¬ InDomain "vlan" ['4','0','9','7'] := fun h => absurd ((vlan_domain _).mp h).2.2.2 (by decide)

/-- Tags: 1 to 255 word characters or '-'. -/
theorem tag_domain (t : List Char) :
    tagRe.L t ↔ 1 ≤ t.length ∧ t.length ≤ 255 ∧ ∀ c ∈ t, (isWord c || c.toNat == 45) = true :=
  L_rep_chr _ 1 255 t

/-- Node names: 2 to 255 word characters, '-' or '.'. -/
theorem node_name_domain (s : List Char) :
    nameRe_NodeSliver.L s ↔ 2 ≤ s.length ∧ s.length ≤ 255 ∧ ∀ c ∈ s, (isWord c || c.toNat == 45 || c.toNat == 46) = true :=
  L_rep_chr _ 2 255 s

/-- a strict (non-forgiving) call whose keyword arguments are all fields with values inside their domains is accepted -/
theorem setFields_strict_total (hl : labelAnchorList = .full) (hs : labelAnchorScalar = .full) :
    ∀ (kw : List (String × Val)) (o : LObj),
      (∀ kv ∈ kw, labelFields.contains kv.1 = true ∧ ValOk kv.1 kv.2 ∧ kv.2 ≠ .none) → ∃ o', setFields false o kw = .ok o' := by
  intro kw
  induction kw with
  | nil => intro o _; exact ⟨o, rfl⟩
  | cons a t ih =>
    intro o h
    obtain ⟨k, v⟩ := a
    obtain ⟨hk, hv, hn⟩ := h (k, v) (List.mem_cons_self ..)
    simp only [setFields]
    rw [setField_complete hl hs hk hv hn]
    exact ih _ (fun kv hkv => h kv (List.mem_cons_of_mem _ hkv))

/-- ASN: at least one decimal digit, value between 1 and 2^32 - 1 (for strings below CPython's int() digit limit). -/
theorem asn_domain (s : List Char) (hlen : s.length ≤ intMaxStrDigits) :
    InDomain "asn" s ↔ 1 ≤ s.length ∧ (∀ c ∈ s, isDigit c = true) ∧ 0 < decVal s ∧ decVal s < 4294967296 := by
  have hr : labelRegex.lookup "asn" = some re_asn := by simp [labelRegex, List.lookup]
  have hc : labelRange.lookup "asn" = some [⟨.lit 0, .lt, .ofStr⟩, ⟨.ofStr, .lt, .lit 4294967296⟩] := by simp [labelRange, List.lookup]
  have hL : re_asn.L s ↔ 1 ≤ s.length ∧ ∀ c ∈ s, isDigit c = true := by
    show (Re.cat (.rep (.chr (fun c => isDigit c)) 1 1) (.star (.chr (fun c => isDigit c)))).L s ↔ _
    simp only [Re.L.eq_4]
    constructor
    · rintro ⟨u, v, rfl, hu, hv⟩
      obtain ⟨h1, h2, h3⟩ := (L_rep_chr _ 1 1 u).mp hu
      have h4 := (L_star_chr _ v).mp hv
      refine ⟨by simp; omega, ?_⟩
      intro c hc'
      simp only [List.mem_append] at hc'
      cases hc' with
      | inl h => exact h3 c h
      | inr h => exact h4 c h
    · rintro ⟨h1, h2⟩
      cases s with
      | nil => simp at h1
      | cons c r =>
        refine ⟨[c], r, rfl, (L_rep_chr _ 1 1 [c]).mpr ⟨by simp, by simp, ?_⟩, (L_star_chr _ r).mpr ?_⟩
        · intro x hx; simp only [List.mem_singleton] at hx; subst hx; exact h2 x (List.mem_cons_self ..)
        · intro x hx; exact h2 x (List.mem_cons_of_mem _ hx)
  have hint : 1 ≤ s.length → (∀ c ∈ s, isDigit c = true) → evalInt s .ofStr = .ok (Int.ofNat (decVal s)) := by
    intro h1 h3
    have hne : s ≠ [] := by intro h; subst h; simp at h1
    simp only [evalInt, pyInt_digits s hne h3 hlen]; rfl
  constructor
  · rintro ⟨h1, h2⟩
    obtain ⟨a, c⟩ := hL.mp (h1 _ hr)
    refine ⟨a, c, ?_, ?_⟩
    · obtain ⟨x, y, hx, hy, hxy⟩ := (evalRange_true_iff s _).mp (h2 _ hc) ⟨.lit 0, .lt, .ofStr⟩ (by simp)
      simp only [hint a c, Except.ok.injEq] at hy
      simp only [evalInt, pure, Except.pure, Except.ok.injEq] at hx
      subst hx; subst hy
      simp only [cmpOp, decide_eq_true_eq] at hxy
      exact Int.ofNat_lt.mp hxy
    · obtain ⟨x, y, hx, hy, hxy⟩ := (evalRange_true_iff s _).mp (h2 _ hc) ⟨.ofStr, .lt, .lit 4294967296⟩ (by simp)
      simp only [hint a c, Except.ok.injEq] at hx
      simp only [evalInt, pure, Except.pure, Except.ok.injEq] at hy
      subst hx; subst hy
      simp only [cmpOp, decide_eq_true_eq] at hxy
      exact Int.ofNat_lt.mp hxy
  · rintro ⟨a, c, d, e⟩
    refine ⟨fun r hr' => ?_, fun cs hc' => ?_⟩
    · rw [hr] at hr'; cases hr'; exact hL.mpr ⟨a, c⟩
    · rw [hc] at hc'; cases hc'
      apply (evalRange_true_iff s _).mpr
      intro x hx
      simp only [List.mem_cons, List.mem_nil_iff, or_false] at hx
      cases hx with
      | inl hx => subst hx; exact ⟨0, _, rfl, hint a c, by simp [cmpOp]; omega⟩
      | inr hx => subst hx; exact ⟨_, 4294967296, hint a c, rfl, by simp [cmpOp]; omega⟩

/-- Any strict call (constructor / bulk setter / update) whose keyword arguments are fields with values inside their
domains is accepted - several fields at once, scalar and list values mixed. -/
theorem accept_complete_many (p : Path) (hp : p = .ctor ∨ p = .setf ∨ p = .update) (base : LObj) (kw : List (String × Val))
    (h : ∀ kv ∈ kw, labelFields.contains kv.1 = true ∧ ValOk kv.1 kv.2 ∧ kv.2 ≠ .none) : ∃ o', enter p base kw = .ok o' := by
  rcases hp with rfl | rfl | rfl
  · exact setFields_strict_total anchors_full.1 anchors_full.2.1 kw defaultObj h
  · exact setFields_strict_total anchors_full.1 anchors_full.2.1 kw base h
  · exact setFields_strict_total anchors_full.1 anchors_full.2.1 kw base h

/-- The defect that was in the code, for every regex: anchoring with `$` admits each member followed by a newline. -/
theorem dollar_admits_trailing_newline (r : Re) (w : List Char) (h : r.L w) : accepts .pyDollar r (w ++ ['\n']) = true :=
  (accepts_dollar_iff r _).mpr (Or.inr ⟨w, rfl, h⟩)

/-! ## Wrong types and unknown keys (the sibling entry points of the validators) -/

/-- In every field - also the free-form ones without a format - a stored list holds strings only
(`all(isinstance(i, str) for i in v)`, /repo a35e907): an int VLAN, bytes, a nested list cannot arrive inside a list. -/
theorem stored_list_all_strings (p : Path) (base : LObj) (kw : List (String × Val)) (o' : LObj)
    (hb : Valid base) (h : enter p base kw = .ok o') (k : String) (xs : List Item) (hm : (k, Val.list xs) ∈ o') :
    ∀ i ∈ xs, ∃ s, i = .str s := by
  intro i hi
  have h1 : ItemOk k i := accept_sound p base kw o' hb h (k, .list xs) hm i hi
  cases i with
  | str s => exact ⟨s, rfl⟩
  | other => exact h1.elim

/-- a value that is neither None, a str nor a list (int, bytes, dict, …) is never stored, whatever the key -/
theorem wrong_type_rejected (fg : Bool) (o : LObj) (k : String) : setField fg o k .other = .error "assertion" := rfl

/-- a key that is not a label field (`k in self.__dict__`, /repo 962c571 - not: any attribute of the class) is rejected by the
strict paths and skipped by from_json; it never creates an entry -/
theorem unknown_field_rejected (o : LObj) (k : String) (v : Val) (hk : labelFields.contains k = false) :
    ∃ e, setField false o k v = .error e := by
  unfold setField
  cases v with
  | none => exact ⟨_, rfl⟩
  | other => exact ⟨_, rfl⟩
  | str s => simp only [Val.hasOther, Bool.false_eq_true, if_false, hk]; exact ⟨_, rfl⟩
  | list xs =>
    simp only [hk, Bool.false_eq_true, if_false]
    cases (Val.list xs).hasOther <;> exact ⟨_, rfl⟩

theorem setKey_keys (k : String) (v : Val) : ∀ (o : LObj), (setKey k v o).map (·.1) = o.map (·.1) := by
  intro o
  induction o with
  | nil => rfl
  | cons a t ih =>
    obtain ⟨k', v'⟩ := a
    simp only [setKey]
    split
    · rfl
    · simp only [List.map_cons, ih]

/-- No call, strict or forgiving, with whatever keyword names, ever adds a key: the fields of a Labels object are the ones
its constructor created. -/
theorem keys_invariant (fg : Bool) : ∀ (kw : List (String × Val)) (o o' : LObj), setFields fg o kw = .ok o' →
    o'.map (·.1) = o.map (·.1) := by
  intro kw
  induction kw with
  | nil => intro o o' h; simp only [setFields, pure, Except.pure, Except.ok.injEq] at h; rw [h]
  | cons a t ih =>
    intro o o' h
    obtain ⟨k, v⟩ := a
    simp only [setFields] at h
    cases h1 : setField fg o k v with
    | error e => simp [h1] at h
    | ok o1 =>
      simp only [h1] at h
      rw [ih o1 o' h]
      unfold setField at h1
      cases v with
      | none => simp [throw, throwThe, MonadExceptOf.throw] at h1
      | other => simp [throw, throwThe, MonadExceptOf.throw] at h1
      | str s =>
        simp only [Val.hasOther, Bool.false_eq_true, if_false] at h1
        split at h1
        · cases hr : checkRegex k (.str s) with
          | error e => simp [hr] at h1
          | ok u =>
            cases hc : checkRange k (.str s) with
            | error e => simp [hr, hc] at h1
            | ok u' => simp only [hr, hc, pure, Except.pure, Except.ok.injEq] at h1; rw [← h1]; exact setKey_keys k _ o
        · split at h1
          · simp only [pure, Except.pure, Except.ok.injEq] at h1; rw [h1]
          · simp [throw, throwThe, MonadExceptOf.throw] at h1
      | list xs =>
        cases hno : (Val.list xs).hasOther with
        | true => simp [hno, throw, throwThe, MonadExceptOf.throw] at h1
        | false =>
          simp only [hno, Bool.false_eq_true, if_false] at h1
          split at h1
          · cases hr : checkRegex k (.list xs) with
            | error e => simp [hr] at h1
            | ok u =>
              cases hc : checkRange k (.list xs) with
              | error e => simp [hr, hc] at h1
              | ok u' => simp only [hr, hc, pure, Except.pure, Except.ok.injEq] at h1; rw [← h1]; exact setKey_keys k _ o
          · split at h1
            · simp only [pure, Except.pure, Except.ok.injEq] at h1; rw [h1]
            · simp [throw, throwThe, MonadExceptOf.throw] at h1

example : enter .ctor defaultObj [("local_name", .list [.str ['a'], .other])] = .error "assertion" := by rfl
example : enter .ctor defaultObj [("to_json", .str ['x'])] = .error "label" := by rfl
example : enter .json defaultObj [("VALIDATORS", .str ['x']), ("vlan", .str ['7'])] = .ok (setKey "vlan" (.str ['7']) defaultObj) := by rfl

/-! ## JSON blobs with the parser and the serialiser inside the model -/

/-- a JSON text is stored iff it is at most MAX_SIZE characters long and `json.loads` (the parser model) accepts it -/
theorem blob_text_accept_iff (cls : String) (m : Nat) (hm : jsonMax.lookup cls = some m) (text : String) :
    jsonText cls text = .ok () ↔ text.length ≤ m ∧ ∃ j, JParse.parse text = some j := by
  unfold jsonText
  rw [(json_accept_iff cls m hm text.length (JParse.parse text).isSome).1, Option.isSome_iff_exists]

/-- an object (other than None, which stands for the empty object) is stored iff its dump is at most MAX_SIZE characters
long, and what is stored is the dump -/
theorem blob_value_accept_iff (cls : String) (m : Nat) (hm : jsonMax.lookup cls = some m) (j : JVal) (hj : j ≠ .null) (t : String) :
    jsonValue cls j = .ok t ↔ (JVal.render j).length ≤ m ∧ t = JVal.render j := by
  have hgen : jsonValue cls j = (if jsonTooLong (JVal.render j).length m then throw "jsondata" else pure (JVal.render j)) := by
    unfold jsonValue; rw [hm]; cases j <;> first | rfl | exact absurd rfl hj
  rw [hgen]
  simp only [jsonTooLong]
  by_cases h : (JVal.render j).length > m
  · simp [h, throw, throwThe, MonadExceptOf.throw]; omega
  · simp only [h, decide_false, Bool.false_eq_true, if_false, pure, Except.pure, Except.ok.injEq]
    constructor
    · intro ht; exact ⟨by omega, ht.symm⟩
    · rintro ⟨_, ht⟩; exact ht.symm

/-- `JSONData(None)` stores the empty object -/
theorem blob_none_is_empty_object (cls : String) (m : Nat) (hm : jsonMax.lookup cls = some m) :
    jsonValue cls .null = .ok (JVal.render (.obj [])) := by
  unfold jsonValue; rw [hm]; rfl

/-- Whatever the object path accepted and stored is accepted again when it arrives as text (decoding a stored blob, a
serialized topology): for every float-free JSON value with distinct keys in its objects, of any size and depth.
`json.loads(json.dumps(j)) == j` is C03's `parse_render`. -/
theorem blob_value_reencodes (cls : String) (j : JVal) (hj : j ≠ .null) (hp : JParse.plain j = true) (t : String)
    (h : jsonValue cls j = .ok t) : jsonText cls t = .ok () ∧ JParse.parse t = some j := by
  cases hm : jsonMax.lookup cls with
  | none => simp [jsonValue, hm, throw, throwThe, MonadExceptOf.throw] at h
  | some m =>
    obtain ⟨hlen, rfl⟩ := (blob_value_accept_iff cls m hm j hj t).mp h
    exact ⟨(blob_text_accept_iff cls m hm _).mpr ⟨hlen, j, JParse.parse_render j hp⟩, JParse.parse_render j hp⟩

/-- non-vacuity of `plain`: nested arrays / objects with distinct keys, strings, integers, booleans, null -/
example : JParse.plain (.obj [("a", .arr [.int 1, .null, .str "x"]), ("b", .bool true)]) = true := by decide

/-! ## Every entry point reaches the validator

The tables are regenerated from the source on every run (gen/entrypoints.py): `stores` is the closed-world list of statements
that write a validated value (sliver field, Labels field, tag list, JSON text, element name, graph property), each with the
check that dominates it; `entryPoints` the public functions that take such a value, with the guarded writers their value
reaches in the (selector- and receiver-sensitive) call graph. -/

/-- No statement of fim/user, fim/slivers or the decode functions stores a name, labels value, tag, boot script or JSON blob
without a recognised validating guard in front of it. (`self._name = new_name` in rename(), `ret.tags = d` in Tags.from_json,
`sliver.resource_name = ..`, a `setattr` in set_properties … are all "unguarded" rows.) -/
theorem every_store_guarded : ∀ s ∈ stores, acceptedGuards.contains s.guard = true := by decide

/-- Every public function that takes a name / labels / tags / boot script / JSON blob / property dictionary reaches, for each
such parameter, the guarded writer of that domain (all of them for `**kwargs` and decoded dictionaries), reaches no unguarded
store, and everything it reaches that stores is a guarded writer. -/
theorem every_entry_point_validated : ∀ e ∈ entryPoints, entryOk e = true := by decide

/-- … and has a behavioural probe in the harness (or is the abstract constructor). -/
theorem every_entry_point_probed : ∀ e ∈ entryPoints, (e.probed || e.fn == "ModelElement.__init__") = true := by decide

/-- Every name the library composes itself from caller input (`<node>-<component>-l2ovs`, `<component>-<port>`,
`<node>-<interface>` ServicePorts and their `-link`, `<svc>-<svc>` peerings, `<name>-ns`, `<name>-int`, `p<i>`) is handed to
`set_name` of a sliver class or to the name parameter of an entry point of the table - never assigned to a sliver field. -/
theorem every_composed_name_validated : ∀ c ∈ composedNames, c.2.2.2 = true := by decide

/-- The order of the checks in one iteration of `Labels._set_fields`, read from the AST, is the order `V16.setField`
implements: not None; a str or a list of str; the key is an instance field; regex; range; assignment; an unknown key is
skipped by from_json and raises otherwise. (A reordering, a dropped or a new statement changes the generated list.) -/
theorem set_fields_skeleton :
    setFieldsSkeleton = ["assert:not-none", "assert:str-or-list-of-str", "field:instance-dict", "regex", "range", "store",
                         "unknown:forgiving-skips,strict-raises"] := by rfl

/-- the writers whose control flow Model/Validate16.lean mirrors are among the guarded ones -/
theorem modelled_writers_guarded : ∀ w ∈ modelledWriters, guardedWriters.contains w = true := by decide

/-! ## Names of existing elements, over every history of rename / assignment / set_property / set_properties -/

/-- Whatever sequence of name rewrites (any entry point, any values, accepted or rejected) is applied to an element whose
stored name is in its class's pattern, the stored name stays in the pattern. -/
theorem elem_name_invariant (e : Elem) (r : Re) (hr : nameRe.lookup e.cls = some r) (h0 : r.L e.name)
    (ops : List (NameEntry × Val)) : r.L (runElem e ops).name :=
  (runElem_inv anchors_full.2.2.2 ops e r hr h0).2

/-- A rejected rewrite changes nothing; an accepted one stores exactly the string given. -/
theorem elem_step_exact (e : Elem) (op : NameEntry × Val) :
    (∀ x, setName e.cls op.2 = .error x → stepElem e op = e) ∧
    (∀ s, setName e.cls op.2 = .ok s → (stepElem e op).name = s ∧ op.2 = .str s) := by
  constructor
  · intro x hx; simp [stepElem, hx]
  · intro s hs
    refine ⟨?_, (setName_ok anchors_full.2.2.2 hs).1⟩
    unfold stepElem; rw [hs]; cases op.1 <;> rfl

/-- Through rename() and the `name` property the element object never answers with a name the graph did not accept
(the order of /repo ee3a7fa: validate, then update the cached name). -/
theorem elem_handle_follows_store (e : Elem) (h : e.handle = e.name) (ops : List (NameEntry × Val))
    (hops : ∀ op ∈ ops, op.1 = .rename ∨ op.1 = .assign) : (runElem e ops).handle = (runElem e ops).name :=
  runElem_handle ops e h hops

example : (runElem ⟨"NodeSliver", ['n','1'], ['n','1']⟩ [(.rename, .str ['a',' ','b']), (.assign, .str ['o','k']), (.setProperty, .str ['x'])]).name
    = ['o','k'] := by rfl

/-! ## Names derived from a name parameter (the known finding, stated exactly)

`Node.add_component` for a catalogue model with interfaces also names a network service `<node>-<name>-l2ovs` / `-l2p4`
and interfaces `<name>-<port>`; `Topology.add_facility` a service `<name>-ns` and an interface `<name>-int`;
`Topology.add_switch` a service `<name>-ns`. The idioms and suffixes are read from the source (table `derived`). -/

/-- Exactly when such an entry point accepts a name: its own pattern and every derived name's pattern. -/
theorem create_accept_iff (own kind variant : String) (parent s : List Char) (r : Re) (hr : nameRe.lookup own = some r)
    (hd : ∀ d ∈ derivedFor kind variant, (nameRe.lookup d.cls).isSome = true) :
    createNamed own kind variant parent (.str s) = .ok s ↔
      r.L s ∧ ∀ d ∈ derivedFor kind variant, ∀ rd, nameRe.lookup d.cls = some rd → rd.L (derivedName parent s d) := by
  rw [createNamed_ok_iff, name_accept_iff own r hr s]
  constructor
  · rintro ⟨h1, h2⟩
    exact ⟨h1, fun d hd' rd hrd => (name_accept_iff d.cls rd hrd _).mp (h2 d hd')⟩
  · rintro ⟨h1, h2⟩
    refine ⟨h1, fun d hd' => ?_⟩
    obtain ⟨rd, hrd⟩ := Option.isSome_iff_exists.mp (hd d hd')
    exact (name_accept_iff d.cls rd hrd _).mpr (h2 d hd' rd hrd)

/-- every derived name is checked against a class that has a NAME_REGEX -/
theorem derived_classes_known : ∀ d ∈ derived, (nameRe.lookup d.cls).isSome = true := by decide

/-- The service name derived from a valid node name `p` and a valid component name `n` is a valid service name iff `n` has
no space and the whole thing fits in 255 characters - for every suffix made of service-name characters. -/
theorem derived_service_name_iff (p n suf : List Char) (hp : nameRe_NodeSliver.L p) (hn : nameRe_ComponentSliver.L n)
    (hs : ∀ c ∈ suf, nsCh c = true) :
    nameRe_NetworkServiceSliver.L (p ++ ['-'] ++ n ++ suf) ↔ ' ' ∉ n ∧ p.length + 1 + n.length + suf.length ≤ 255 := by
  obtain ⟨hp1, hp2, hp3⟩ := (node_L p).mp hp
  obtain ⟨hn1, hn2, hn3⟩ := (comp_L n).mp hn
  rw [ns_L]
  simp only [List.length_append, List.length_cons, List.length_nil, List.mem_append, List.mem_cons, List.not_mem_nil, or_false]
  constructor
  · rintro ⟨_, h2, h3⟩
    refine ⟨fun hmem => ?_, by omega⟩
    have := h3 ' ' (Or.inl (Or.inr hmem))
    revert this; decide
  · rintro ⟨h1, h2⟩
    refine ⟨by omega, by omega, ?_⟩
    rintro c (((hc | hc) | hc) | hc)
    · exact nodeCh_nsCh (hp3 c hc)
    · subst hc; decide
    · exact (compCh_nsCh (hn3 c hc)).mpr (fun h => h1 (h ▸ hc))
    · exact hs c hc

/-- the suffixes the code uses are made of service-name characters -/
theorem derived_service_suffixes_ok : ∀ d ∈ derived, d.cls = "NetworkServiceSliver" → ∀ c ∈ d.suffix.toList, nsCh c = true := by
  decide

/-- Full statement that does NOT hold: "every name of ComponentSliver's pattern is accepted by add_component".
Counterexample (replayed on the implementation by corpus/C16/component_name.json): `a b` under node `n1`, SharedNIC. -/
theorem component_name_rejected_counterexample :
    setName "ComponentSliver" (.str ['a',' ','b']) = .ok ['a',' ','b'] ∧
    setName "NodeSliver" (.str ['n','1']) = .ok ['n','1'] ∧
    createNamed "ComponentSliver" "component" "SharedNIC_ConnectX_6" ['n','1'] (.str ['a',' ','b']) = .error "value" := by
  refine ⟨by rfl, by rfl, by rfl⟩

/-- … and the strongest guarded version: a component name without a space that leaves room for `<node>-` and the suffix
is accepted (service name and every interface name included), for every catalogue model with interfaces. -/
theorem component_name_accepted_partial (variant : String) (p n : List Char)
    (_hv : derivedFor "component" variant ≠ [])
    (hp : nameRe_NodeSliver.L p) (hn : nameRe_ComponentSliver.L n) (hsp : ' ' ∉ n) (hlen : p.length + n.length + 7 ≤ 255) :
    createNamed "ComponentSliver" "component" variant p (.str n) = .ok n := by
  have hown : nameRe.lookup "ComponentSliver" = some nameRe_ComponentSliver := by rfl
  have hdk : ∀ d ∈ derivedFor "component" variant, (nameRe.lookup d.cls).isSome = true :=
    fun d hd => derived_classes_known d (List.mem_filter.mp hd).1
  rw [create_accept_iff _ _ _ _ _ _ hown hdk]
  refine ⟨hn, fun d hd rd hrd => ?_⟩
  obtain ⟨hmem, hkv⟩ := List.mem_filter.mp hd
  have hshape : ∀ d ∈ derived, d.kind = "component" →
      (d.cls = "NetworkServiceSliver" ∧ d.withParent = true ∧ d.suffix.toList.length ≤ 6) ∨
      (d.cls = "InterfaceSliver" ∧ d.withParent = false ∧ d.suffix.toList.length = 3 ∧ ∀ c ∈ d.suffix.toList, ifCh c = true) := by
    decide
  have hk : d.kind = "component" := by
    have := hkv; simp only [Bool.and_eq_true, beq_iff_eq] at this; exact this.1
  obtain ⟨hn1, hn2, hn3⟩ := (comp_L n).mp hn
  rcases hshape d hmem hk with ⟨hc, hw, hl⟩ | ⟨hc, hw, hl, hch⟩
  · have : rd = nameRe_NetworkServiceSliver := by
      rw [hc] at hrd; have h' : nameRe.lookup "NetworkServiceSliver" = some nameRe_NetworkServiceSliver := by rfl
      rw [h'] at hrd; exact (Option.some.inj hrd).symm
    subst this
    have hd' := (derived_service_name_iff p n d.suffix.toList hp hn (derived_service_suffixes_ok d hmem hc)).mpr ⟨hsp, by omega⟩
    simpa [derivedName, hw] using hd'
  · have : rd = nameRe_InterfaceSliver := by
      rw [hc] at hrd; have h' : nameRe.lookup "InterfaceSliver" = some nameRe_InterfaceSliver := by rfl
      rw [h'] at hrd; exact (Option.some.inj hrd).symm
    subst this
    rw [if_L]
    simp only [derivedName, hw, List.nil_append, List.length_append, List.mem_append, Bool.false_eq_true, if_false]
    refine ⟨by omega, by omega, ?_⟩
    rintro c (hc' | hc')
    · exact compCh_ifCh (hn3 c hc')
    · exact hch c hc'

example : derivedFor "component" "SharedNIC_ConnectX_6" ≠ [] := by decide

/-- A facility name: NodeSliver's pattern and at most 251 characters (room for `-int`); a switch name: at most 252 (`-ns`).
So the longest valid node names are rejected by add_facility / add_switch. -/
theorem facility_name_iff (s : List Char) (hs : nameRe_NodeSliver.L s) :
    (createNamed "NodeSliver" "facility" "" [] (.str s) = .ok s ↔ s.length ≤ 251) ∧
    (createNamed "NodeSliver" "switch" "" [] (.str s) = .ok s ↔ s.length ≤ 252) := by
  have hown : nameRe.lookup "NodeSliver" = some nameRe_NodeSliver := by rfl
  have hns : nameRe.lookup "NetworkServiceSliver" = some nameRe_NetworkServiceSliver := by rfl
  have hif : nameRe.lookup "InterfaceSliver" = some nameRe_InterfaceSliver := by rfl
  have hf : derivedFor "facility" "" = [⟨"facility", "", "NetworkServiceSliver", false, "-ns"⟩, ⟨"facility", "", "InterfaceSliver", false, "-int"⟩] := by decide
  have hw : derivedFor "switch" "" = [⟨"switch", "", "NetworkServiceSliver", false, "-ns"⟩] := by decide
  obtain ⟨h1, h2, h3⟩ := (node_L s).mp hs
  have hnsL : ∀ (_ : Nat), nameRe_NetworkServiceSliver.L (s ++ ['-','n','s']) ↔ s.length + 3 ≤ 255 := by
    intro _
    rw [ns_L]
    simp only [List.length_append, List.length_cons, List.length_nil, List.mem_append]
    constructor
    · rintro ⟨_, h, _⟩; omega
    · intro h
      refine ⟨by omega, by omega, ?_⟩
      rintro c (hc | hc)
      · exact nodeCh_nsCh (h3 c hc)
      · revert c; decide
  have hifL : nameRe_InterfaceSliver.L (s ++ ['-','i','n','t']) ↔ s.length + 4 ≤ 255 := by
    rw [if_L]
    simp only [List.length_append, List.length_cons, List.length_nil, List.mem_append]
    constructor
    · rintro ⟨_, h, _⟩; omega
    · intro h
      refine ⟨by omega, by omega, ?_⟩
      rintro c (hc | hc)
      · exact nodeCh_ifCh (h3 c hc)
      · revert c; decide
  constructor
  · rw [create_accept_iff _ _ _ _ _ _ hown (fun d hd => derived_classes_known d (List.mem_filter.mp hd).1), hf]
    constructor
    · rintro ⟨_, h⟩
      have := (hifL).mp (by simpa [derivedName] using h _ (List.mem_cons_of_mem _ (List.mem_cons_self ..)) _ hif)
      omega
    · intro h
      refine ⟨hs, ?_⟩
      intro d hd rd hrd
      simp only [List.mem_cons, List.mem_nil_iff, or_false] at hd
      rcases hd with rfl | rfl
      · rw [hns] at hrd; cases hrd; simpa [derivedName] using (hnsL 0).mpr (by omega)
      · rw [hif] at hrd; cases hrd; simpa [derivedName] using hifL.mpr (by omega)
  · rw [create_accept_iff _ _ _ _ _ _ hown (fun d hd => derived_classes_known d (List.mem_filter.mp hd).1), hw]
    constructor
    · rintro ⟨_, h⟩
      have := (hnsL 0).mp (by simpa [derivedName] using h _ (List.mem_cons_self ..) _ hns)
      omega
    · intro h
      refine ⟨hs, ?_⟩
      intro d hd rd hrd
      simp only [List.mem_cons, List.mem_nil_iff, or_false] at hd
      subst hd
      rw [hns] at hrd; cases hrd; simpa [derivedName] using (hnsL 0).mpr (by omega)

/-- the counterexample side for facilities: a 253-character node name -/
theorem facility_name_rejected_counterexample :
    nameRe_NodeSliver.L (List.replicate 253 'a') ∧
    createNamed "NodeSliver" "facility" "" [] (.str (List.replicate 253 'a')) ≠ .ok (List.replicate 253 'a') := by
  have hL : nameRe_NodeSliver.L (List.replicate 253 'a') := by
    rw [node_L]
    refine ⟨by rw [List.length_replicate]; omega, by rw [List.length_replicate]; omega, ?_⟩
    intro c hc
    have := List.eq_of_mem_replicate hc
    subst this; decide
  refine ⟨hL, fun h => ?_⟩
  have := ((facility_name_iff _ hL).1).mp h
  rw [List.length_replicate] at this; omega

/-! ## One kept sliver object: refused calls, histories of setter calls, and decoding what it then encodes -/

/-- the kept sliver holds a name of its class's pattern and no boot script or one under the limit -/
def SliverOk (s : Sliver) : Prop :=
  (∃ n r, s.name = .str n ∧ nameRe.lookup s.cls = some r ∧ r.L n) ∧
  (s.boot = .none ∨ ∃ b, s.boot = .str b ∧ b.length < bootScriptSize)

theorem setBoot_ok {v : Val} {b : Option (List Char)} (h : setBoot v = .ok b) :
    v = optVal b ∧ (∀ x, b = some x → x.length < bootScriptSize) := by
  cases v with
  | none => simp only [setBoot, pure, Except.pure, Except.ok.injEq] at h; subst h; exact ⟨rfl, fun x hx => by cases hx⟩
  | other => simp [setBoot, throw, throwThe, MonadExceptOf.throw] at h
  | list xs => simp [setBoot, throw, throwThe, MonadExceptOf.throw] at h
  | str s =>
    simp only [setBoot, bootOk] at h
    by_cases hs : s.length < bootScriptSize
    · simp only [hs, decide_true, if_true, pure, Except.pure, Except.ok.injEq] at h
      subst h; exact ⟨rfl, fun x hx => by cases hx; exact hs⟩
    · simp [hs, throw, throwThe, MonadExceptOf.throw] at h

/-- The code as it is checks before it writes, and its decoder hands every member word on as it is (both lists come from
behavioural probes of the running classes, regenerated every run). -/
theorem repo_kept_clean : repoKept.writeFirst = [] ∧ repoKept.decodeAlters = [] := by decide

/-- A refused setter call - whatever the value, whichever setter - leaves the kept object exactly as it was. -/
theorem refused_call_changes_nothing (cfg : KeptCfg) (hw : cfg.writeFirst = []) (s : Sliver) :
    (∀ v e, setName s.cls v = .error e → stepSliver cfg s (.name v) = s) ∧
    (∀ v e, setBoot v = .error e → stepSliver cfg s (.boot v) = s) := by
  constructor
  · intro v e h; simp [stepSliver, h, hw]
  · intro v e h; simp [stepSliver, h, hw]

theorem stepSliver_ok (cfg : KeptCfg) (hw : cfg.writeFirst = []) (s : Sliver) (op : SetOp) (h : SliverOk s) :
    (stepSliver cfg s op).cls = s.cls ∧ SliverOk (stepSliver cfg s op) := by
  obtain ⟨⟨n, r, hn, hr, hL⟩, hb⟩ := h
  cases op with
  | name v =>
    cases hv : setName s.cls v with
    | error e =>
      have e1 : stepSliver cfg s (.name v) = s := by simp [stepSliver, hv, hw]
      rw [e1]; exact ⟨rfl, ⟨n, r, hn, hr, hL⟩, hb⟩
    | ok m =>
      have := setName_ok anchors_full.2.2.2 hv
      simp only [stepSliver, hv]
      exact ⟨trivial, ⟨m, r, rfl, hr, this.2 r hr⟩, hb⟩
  | boot v =>
    cases hv : setBoot v with
    | error e =>
      have e1 : stepSliver cfg s (.boot v) = s := by simp [stepSliver, hv, hw]
      rw [e1]; exact ⟨rfl, ⟨n, r, hn, hr, hL⟩, hb⟩
    | ok b =>
      have := setBoot_ok hv
      simp only [stepSliver, hv]
      refine ⟨trivial, ⟨n, r, hn, hr, hL⟩, ?_⟩
      cases b with
      | none => exact Or.inl rfl
      | some x => exact Or.inr ⟨x, rfl, this.2 x rfl⟩

/-- Whatever history of set_name / set_boot_script calls (any values, accepted or refused, through the setter, set_property or
set_properties) is applied to one kept sliver that holds members, it holds members afterwards. -/
theorem kept_sliver_invariant (cfg : KeptCfg) (hw : cfg.writeFirst = []) (ops : List SetOp) :
    ∀ s : Sliver, SliverOk s → (runSliver cfg s ops).cls = s.cls ∧ SliverOk (runSliver cfg s ops) := by
  induction ops with
  | nil => intro s h; exact ⟨rfl, h⟩
  | cons op t ih =>
    intro s h
    obtain ⟨h1, h2⟩ := stepSliver_ok cfg hw s op h
    have := ih (stepSliver cfg s op) h2
    simp only [runSliver, List.foldl] at this ⊢
    exact ⟨this.1.trans h1, this.2⟩

/-- A sliver that holds members is decoded from its own encoding to exactly itself - for EVERY member, including the
words a storage layer uses as placeholders ("None", "null", ...). -/
theorem kept_sliver_redecodes (cfg : KeptCfg) (hd : cfg.decodeAlters = []) (s : Sliver) (h : SliverOk s) : reDecode cfg s = .ok s := by
  obtain ⟨⟨n, r, hn, hr, hL⟩, hb⟩ := h
  have hname : setName s.cls (.str n) = .ok n := (name_accept_iff s.cls r hr n).mpr hL
  cases s with
  | mk cls name boot =>
    simp only at hn hr hb hname
    subst hn
    rcases hb with hb | ⟨b, hb, hlen⟩
    · subst hb
      simp [reDecode, decodeText, hd, hname, setBoot, optVal, pure, Except.pure]
    · subst hb
      have hboot : setBoot (.str b) = .ok (some b) := (boot_accept_iff b).mpr hlen
      simp [reDecode, decodeText, hd, hname, hboot, optVal, pure, Except.pure]

/-- ... and so is the object left by any history on the code as it is. -/
theorem history_then_redecode (s : Sliver) (h : SliverOk s) (ops : List SetOp) :
    reDecode repoKept (runSliver repoKept s ops) = .ok (runSliver repoKept s ops) :=
  kept_sliver_redecodes repoKept repo_kept_clean.2 _ (kept_sliver_invariant repoKept repo_kept_clean.1 ops s h).2

example : SliverOk ⟨"NodeSliver", .str ['N','o','n','e'], .str ['N','o','n','e']⟩ := by
  refine ⟨⟨_, nameRe_NodeSliver, rfl, rfl, (accepts_full_iff _ _).mp (by decide)⟩, Or.inr ⟨_, rfl, by decide⟩⟩

/-- Why `writeFirst = []` is needed: with a set_boot_script that assigns before it checks, one refused call leaves a script of
the limit's length in the kept object, and the object can no longer be decoded from its own encoding. -/
theorem write_first_counterexample (b : List Char) (hb : ¬ b.length < bootScriptSize) :
    (runSliver ⟨["set_boot_script"], []⟩ ⟨"NodeSliver", .str ['n','1'], .none⟩ [.boot (.str ['o','k']), .boot (.str b)]).boot = .str b ∧
    reDecode ⟨["set_boot_script"], []⟩ (runSliver ⟨["set_boot_script"], []⟩ ⟨"NodeSliver", .str ['n','1'], .none⟩
        [.boot (.str ['o','k']), .boot (.str b)]) = .error "assertion" := by
  have hs : setBoot (.str b) = .error "assertion" := by simp [setBoot, bootOk, hb, throw, throwThe, MonadExceptOf.throw]
  have hk : setBoot (.str ['o','k']) = .ok (some ['o','k']) := by rfl
  have hn : setName "NodeSliver" (.str ['n','1']) = .ok ['n','1'] := by rfl
  have h1 : runSliver ⟨["set_boot_script"], []⟩ ⟨"NodeSliver", .str ['n','1'], .none⟩ [.boot (.str ['o','k']), .boot (.str b)]
      = ⟨"NodeSliver", .str ['n','1'], .str b⟩ := by
    simp [runSliver, stepSliver, hs, hk, optVal]
  rw [h1]
  refine ⟨rfl, ?_⟩
  simp [reDecode, decodeText, hn, hs]

example : ¬ (List.replicate bootScriptSize 'x').length < bootScriptSize := by simp

/-- Why `decodeAlters = []` is needed: when the decoder takes the word None for "no value", a sliver whose accepted name is
None cannot be decoded, and an accepted boot script None is lost. -/
theorem decode_alters_counterexample :
    reDecode ⟨[], ["None"]⟩ ⟨"NodeSliver", .str ['N','o','n','e'], .none⟩ = .error "type" ∧
    reDecode ⟨[], ["None"]⟩ ⟨"NodeSliver", .str ['n','1'], .str ['N','o','n','e']⟩ = .ok ⟨"NodeSliver", .str ['n','1'], .none⟩ := by
  refine ⟨by rfl, by rfl⟩

end FimVerif.C16
