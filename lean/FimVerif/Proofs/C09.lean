import FimVerif.Proofs.Lemmas.TopoAtomicFac
import FimVerif.Proofs.Lemmas.TopoAtomicDetach
import FimVerif.Proofs.Lemmas.TopoAtomicPeer
import FimVerif.Proofs.Lemmas.TopoAtomicCompRb
import FimVerif.Model.TopoC09
import FimVerif.Proofs.Lemmas.TopoAtomicOrder
/-!
# C09 — a topology-building call that raises leaves the model unchanged

`Atomic m := ∀ s, failed (m s) → (m s).2 = s` (Model/M.lean).  The state `Topo` is the whole model
(all nodes with all their properties, all edges); handle caches are *results* of the calls, so a call that
raises returns none and the caller's cache is untouched by construction; the uuid supply is an argument.

Full statement (for every building call `op`, every state): `Atomic op`.
`atomic_op` (22 request kinds, `Topo.TopoOp`) and `atomic_xop` (6 more, `Topo.XOp`: sub-interfaces, peer/unpeer, port mirror,
`model_type=` components) prove it for every call under explicit decidable hypotheses on the state (`Covered` / `CoveredX`):
distinct ids, no dangling edge, fresh uuids, and for the removals the shape facts `RemoveHyp`.  No building call is left
outside: `add_component` with caller-supplied ids for its service / interfaces, which used to create the Component and then
fail on a taken id with no clean-up, is covered since commit e285d22 (`atomic_addComponent`).
Several proofs exist only because the code was repaired on the way (rollback on any exception, validate-before-create,
composite try/except, peer clean-up, component clean-up, disconnect loop skipping removed interfaces): each repaired idiom is a generated flag
(`Gen.Rules.*`), so reverting the repair flips the model and breaks the proof.
-/
namespace FimVerif.C09
open FimVerif FimVerif.M FimVerif.Topo

/-! ## validate-before-mutate calls: atomic in every state -/

theorem atomic_addGNode (n : GNode) : Atomic (addGNode n) := Topo.atomic_addGNode n

/-- `Node(..., etype=NEW)` -/
theorem atomic_nodeNew (fl : Flavour) (c : Nat) (a : NodeArgs) : Atomic (nodeNew fl c a) := by
  unfold nodeNew
  refine Atomic.bind_readOnly (by ro) (fun _ => ?_)
  split
  refine Atomic.bind_readOnly (by ro) (fun _ => ?_)
  refine Atomic.bind_readOnly (by ro) (fun _ => ?_)
  refine Atomic.bind_readOnly (by ro) (fun _ => ?_)
  refine Atomic.bind_readOnly (by ro) (fun _ => ?_)
  refine Atomic.bind_readOnly (by ro) (fun _ => ?_)
  refine Atomic.bind_readOnly (by ro) (fun _ => ?_)
  exact Atomic.bind_total (Topo.atomic_addGNode _) (fun _ => total_pure _)

/-- `Topology.add_node` -/
theorem atomic_addNode (fl : Flavour) (c : Nat) (a : NodeArgs) : Atomic (addNode fl c a) := by
  unfold addNode
  refine Atomic.bind_readOnly (by ro) (fun _ => ?_)
  refine Atomic.bind_readOnly (by ro) (fun _ => ?_)
  refine Atomic.bind_readOnly (by ro) (fun _ => ?_)
  exact atomic_nodeNew fl c a

/-- `set_property` / `set_properties`: one bad keyword among good ones, at any position -/
theorem atomic_setProps (nid : Nid) (props : List PropArg) : Atomic (setProps nid props) := by
  unfold setProps
  exact Atomic.bind_readOnly (by ro) (fun _ => atomic_updateProps _ _)

theorem atomic_unsetProp (nid : Nid) (g : Option String) : Atomic (unsetProp nid g) := by
  unfold unsetProp
  split
  · exact (readOnly_pure _).atomic
  · refine Atomic.bind_readOnly (by ro) (fun _ => ?_)
    refine Atomic.bind_readOnly (by ro) (fun _ => ?_)
    refine Atomic.bind_readOnly (by ro) (fun _ => ?_)
    exact (total_modify _).atomic

theorem atomic_rename (cls : Cls) (nid : Nid) (n : String) : Atomic (rename cls nid n) := by
  unfold rename
  refine Atomic.bind_readOnly (by ro) (fun _ => ?_)
  refine Atomic.bind_readOnly (by ro) (fun _ => ?_)
  exact (total_modify _).atomic

/-- an interface created without a parent (`add_interface_sliver(parent_node_id=None)`) -/
theorem atomic_ifaceNew_orphan (fl : Flavour) (c : Nat) (name : String) (nid : Option Nid) (t : Option String)
    (props : List PropArg) : Atomic (ifaceNew fl c name nid none t props) := by
  unfold ifaceNew
  refine Atomic.bind_readOnly (by ro) (fun _ => ?_)
  split
  refine Atomic.bind_readOnly (by ro) (fun _ => ?_)
  refine Atomic.bind_readOnly (by ro) (fun _ => ?_)
  refine Atomic.bind_readOnly (by ro) (fun _ => ?_)
  refine Atomic.bind_total (Topo.atomic_addGNode _) (fun _ => ?_)
  exact total_pure _


/-! ## calls that write more than once -/

/-- `Interface(..., etype=NEW)` under a parent: the parent is looked up before the ConnectionPoint is created
(commit 28b8d37), so nothing is left behind when it is gone -/
theorem atomic_ifaceNew (fl : Flavour) (c : Nat) (name : String) (nid : Option Nid) (p : Nid) (t : Option String)
    (props : List PropArg) : Atomic (ifaceNew fl c name nid (some p) t props) := by
  constructor; intro s hf
  rcases ifaceNew_cases fl c name nid p t props s with ⟨e, he⟩ | ⟨pn, n, _, _, _, _, _, _, _, hres⟩
  · rw [he]
  · rw [hres] at hf; simp at hf

/-- `NetworkService.add_interface`, for any handle cache and any state (a removed service included) -/
theorem atomic_addInterface (fl : Flavour) (c : Nat) (svc : Nid) (cache : Cache) (name : String) (nid : Option Nid)
    (t : Option String) (props : List PropArg) : Atomic (nsAddInterface fl c svc cache name nid t props) := by
  unfold nsAddInterface
  exact Atomic.bind_readOnly (by ro) (fun _ => atomic_ifaceNew ..)

/-- `Link(..., etype=NEW)`: a bad k-th interface (not an Interface, stale, not a ConnectionPoint) is found before the
Link node is created (commit 28b8d37).  Needs distinct node ids. -/
theorem atomic_linkNew (fl : Flavour) (c : Nat) (name : String) (nid : Option Nid) (lt : Option String)
    (ifs : Option (List IfArg)) (tech : Option String) (props : List PropArg) (s : Topo) (hd : IdsDistinct s)
    (hf : failed (linkNew fl c name nid lt ifs tech props s)) : (linkNew fl c name nid lt ifs tech props s).2 = s := by
  cases ifs with
  | none =>
    unfold linkNew at hf ⊢
    revert hf
    refine ro_step (Q := fun r => failed r → r.2 = s) (by ro) (fun _ _ => rfl) (fun _ _ => ?_)
    rcases hp : pick nid c with ⟨id, c'⟩
    simp only []
    refine ro_step (Q := fun r => failed r → r.2 = s) (by ro) (fun _ _ => rfl) (fun _ _ => ?_)
    refine ro_step (Q := fun r => failed r → r.2 = s) (by ro) (fun _ _ => rfl) (fun a ha => ?_)
    simp [need] at ha
  | some l =>
    rcases linkNew_cases fl c name nid lt l tech props s hd with ⟨e, he⟩ | ⟨ln, _, _, _, _, hres⟩
    · rw [he]
    · rw [hres] at hf; simp at hf

/-- `Topology.add_link` -/
theorem atomic_addLink (fl : Flavour) (c : Nat) (name : String) (nid : Option Nid) (lt : Option String)
    (ifs : Option (List IfArg)) (tech : Option String) (props : List PropArg) (s : Topo) (hd : IdsDistinct s)
    (hf : failed (addLink fl c name nid lt ifs tech props s)) : (addLink fl c name nid lt ifs tech props s).2 = s := by
  unfold addLink at hf ⊢
  revert hf
  refine ro_step (Q := fun r => failed r → r.2 = s) (by ro) (fun _ _ => rfl) (fun _ _ => ?_)
  refine ro_step (Q := fun r => failed r → r.2 = s) (by ro) (fun _ _ => rfl) (fun _ _ => ?_)
  exact atomic_linkNew fl c name nid lt ifs tech props s hd

/-- `NetworkService.connect_interface` on a state with distinct ids and no dangling edge, when the handle refers
to a ConnectionPoint and the two uuids drawn are new (both derived names are validated first: commit d747e04) -/
theorem atomic_connectInterface (fl : Flavour) (c : Nat) (svc iid : Nid) (iname : String) (cache : Cache) (s : Topo)
    (hd : IdsDistinct s) (hc : Closed s) (hcp : ∀ n ∈ s.nodes, n.nid = iid → n.cls = .connectionPoint)
    (hfr : ∀ m ∈ s.nodes, m.nid ≠ .gen c ∧ m.nid ≠ .gen (c + 1))
    (hf : failed (connectInterface fl c svc cache (.iface iid iname) s)) :
    (connectInterface fl c svc cache (.iface iid iname) s).2 = s := by
  rcases connect_spec' fl c svc iid iname cache s hd hc hcp hfr with ⟨e, he⟩ | ⟨_, _, _, _, _, _, _, _, _, _, _, _, _, _, _, hres⟩
  · rw [he]
  · rw [hres] at hf; simp at hf

/-- a non-Interface object is rejected by the `isinstance` assertion before anything is written -/
theorem atomic_connectInterface_bogus (fl : Flavour) (c : Nat) (svc : Nid) (cache : Cache) :
    Atomic (connectInterface fl c svc cache .bogus) := by
  unfold connectInterface; exact (readOnly_raise _).atomic


/-! ## service creation with the rollback handler (any exception kind, commit 34d4dbd), any number of interfaces

Whichever interface is the bad one - the k-th - and whatever it makes the constructor raise (not an Interface, a stale
handle, already connected, no owner, shared port on L2PTP, an invalid derived name ...), the handler disconnects the
interfaces connected so far (oldest first: `disconnect_head`), removes the service (`removeNs_base`) and the model is
exactly what it was (`svcLoop_atomic`, induction over the interface list). -/

theorem atomic_addNetworkService (fl : Flavour) (c : Nat) (a : SvcArgs) (s : Topo)
    (hd : IdsDistinct s) (hc : Closed s) (hfresh : ∀ m ∈ s.nodes, ∀ k, c ≤ k → m.nid ≠ .gen k)
    (hnid : ∀ k, c ≤ k → a.nid ≠ some (.gen k)) (hifs : IfsAll s (pick a.nid c).1 c a.ifs)
    (hf : failed (addService fl c a s)) : (addService fl c a s).2 = s :=
  svcNew_atomic fl c none a s hd hc hfresh hnid (fun _ h => by cases h) hifs hf

theorem atomic_nodeAddService (fl : Flavour) (c : Nat) (parent : Nid) (a : SvcArgs) (s : Topo)
    (hd : IdsDistinct s) (hc : Closed s) (hfresh : ∀ m ∈ s.nodes, ∀ k, c ≤ k → m.nid ≠ .gen k)
    (hnid : ∀ k, c ≤ k → a.nid ≠ some (.gen k)) (hifs : IfsAll s (pick a.nid c).1 c a.ifs)
    (hf : failed (nodeAddService fl c parent a s)) : (nodeAddService fl c parent a s).2 = s := by
  unfold nodeAddService at hf ⊢
  revert hf
  unfold childrenOf
  refine ro_step (Q := FS s) (by ro) FS.err (fun nss hn => ?_)
  refine ro_step (Q := FS s) (by ro) FS.err (fun _ _ => ?_)
  obtain ⟨pn, t1, hpn, _⟩ := bind_ok_inv hn
  have h2 := ro_run (readOnly_findNode _) hpn
  rw [h2] at hpn
  exact svcNew_atomic fl c (some parent) a s hd hc hfresh hnid (fun p h => by cases h; exact ⟨pn, hpn⟩) hifs

/-- non-vacuity: a model with two interfaces and a service over [good, bogus] satisfy the hypotheses -/
example : let s : Topo := ⟨[⟨.connectionPoint, .user "i1", "i1", "DedicatedPort", []⟩, ⟨.connectionPoint, .user "i2", "i2", "DedicatedPort", []⟩], []⟩
    IdsDistinct s ∧ Closed s ∧ IfsAll s (.gen 0) 0 [.iface (.user "i1") "i1", .bogus] := by
  refine ⟨by decide, by decide, ?_⟩
  intro i hi
  simp only [List.mem_cons, List.mem_nil_iff, or_false] at hi
  rcases hi with rfl | rfl
  · refine ⟨by decide, ?_, fun k _ => by simp⟩
    intro n hn hni
    simp only [List.mem_cons, List.mem_nil_iff, or_false] at hn
    rcases hn with rfl | rfl
    · rfl
    · rfl
  · trivial


/-! ## components: the Component node, then the catalogue's network service and its interfaces, the latter inside the
`try … except Exception: remove the component with everything under it; raise` of `add_component_sliver` (commit e285d22).
Whichever `add_node` of the expansion finds its id taken - the service's, the k-th interface's, one repeated inside the call,
caller-supplied or not - the partial construct is `comp0` / `comp1` and the clean-up returns exactly `s`
(`removeCompGraph_comp0`, `removeCompGraph_comp1`). -/

theorem atomic_addComponent (fl : Flavour) (c : Nat) (parent : Nid) (a : CompArgs) (s : Topo)
    (hd : IdsDistinct s) (hc : Closed s)
    (hf : failed (addComponent fl c parent a s)) : (addComponent fl c parent a s).2 = s := by
  unfold addComponent at hf ⊢
  revert hf
  refine ro_step (Q := FS s) (by ro) FS.err (fun _ hch => ?_)
  refine ro_step (Q := FS s) (by ro) FS.err (fun _ _ => ?_)
  obtain ⟨p, hp, hcls⟩ := childrenOf_parent hch
  refine compNew_fs_rb flag_componentRollback fl c parent a s hd hc (fun m hm hmi => ?_)
  rw [handle_cls_of_findNode hd hp m hm hmi]
  intro e; rw [e] at hcls; simp at hcls

/-- the same call when the ids of the component's service and interfaces are generated by the library: atomic in every
state (no invariant needed), given that the uuids drawn are new - nothing after the Component node can fail -/
theorem atomic_addComponent_gen (fl : Flavour) (c : Nat) (parent : Nid) (a : CompArgs) (s : Topo)
    (hfresh : ∀ m ∈ s.nodes, ∀ k, c ≤ k → m.nid ≠ .gen k) (hnid : ∀ k, c ≤ k → a.nid ≠ some (.gen k))
    (hgen : a.ifNids = none ∧ a.nsNid = none)
    (hf : failed (addComponent fl c parent a s)) : (addComponent fl c parent a s).2 = s := by
  unfold addComponent at hf ⊢
  revert hf
  refine ro_step (Q := FS s) (by ro) FS.err (fun _ _ => ?_)
  refine ro_step (Q := FS s) (by ro) FS.err (fun _ _ => ?_)
  exact compNew_atomic fl c parent a s hfresh hnid hgen

/-- non-vacuity of `atomic_addComponent`: a substrate node, and a second SmartNIC whose second interface id is taken
(the deterministic corpus case `add_component_iface_id_taken`) -/
example : let s : Topo := ⟨[⟨.networkNode, .user "n1", "n1", "Server", []⟩, ⟨.connectionPoint, .user "x1", "old", "TrunkPort", []⟩], []⟩
    IdsDistinct s ∧ Closed s ∧ failed (addComponent .substrate 0 (.user "n1")
      ⟨"nic", some (.user "c1"), some "SmartNIC", some "ConnectX-6", some (.user "ns1"), some [.user "i1", .user "x1"], some 2, []⟩ s) := by
  decide

theorem atomic_addStorage (fl : Flavour) (c : Nat) (parent : Nid) (name : String) (nid : Option Nid) (props : List PropArg)
    (s : Topo) (hfresh : ∀ m ∈ s.nodes, ∀ k, c ≤ k → m.nid ≠ .gen k) (hnid : ∀ k, c ≤ k → nid ≠ some (.gen k))
    (hf : failed (addStorage fl c parent name nid props s)) : (addStorage fl c parent name nid props s).2 = s := by
  unfold addStorage at hf ⊢
  revert hf
  refine ro_step (Q := FS s) (by ro) FS.err (fun _ _ => ?_)
  refine ro_step (Q := FS s) (by ro) FS.err (fun _ _ => ?_)
  refine ro_step (Q := FS s) (by ro) FS.err (fun _ _ => ?_)
  exact compNew_atomic fl c parent _ s hfresh hnid ⟨rfl, rfl⟩

/-! ## disconnect_interface / remove_interface: everything before `remove_cp_and_links` only reads, and
`remove_cp_and_links` itself deletes distinct, existing nodes after its last read -/

theorem atomic_disconnectInterface (cache : Cache) (i : IfArg) (s : Topo) (hd : IdsDistinct s)
    (hf : failed (disconnectInterface cache i s)) : (disconnectInterface cache i s).2 = s := by
  revert hf
  unfold disconnectInterface
  cases i with
  | bogus => exact FS.err _
  | iface iid nm =>
    simp only []
    refine ro_step (Q := FS s) (by ro) FS.err (fun all _ => ?_)
    refine ro_step (Q := FS s) (by ro) FS.err (fun pn _ => ?_)
    cases List.map (fun x => x.nid) (List.filter (fun n => n.typ == "ServicePort") pn) with
    | nil => intro hf; simp at hf
    | cons p rest =>
      simp only []
      refine ro_step (Q := FS s) (by ro) FS.err (fun _ _ => ?_)
      exact FS_bind_pure (removeCpAndLinks_atomic _ true s hd)

theorem atomic_removeInterface (fl : Flavour) (svc : Nid) (name : String) (s : Topo) (hd : IdsDistinct s)
    (hf : failed (nsRemoveInterface fl svc name s)) : (nsRemoveInterface fl svc name s).2 = s := by
  revert hf
  unfold nsRemoveInterface
  refine ro_step (Q := FS s) (by ro) FS.err (fun _ _ => ?_)
  refine ro_step (Q := FS s) (by ro) FS.err (fun _ _ => ?_)
  refine ro_step (Q := FS s) (by ro) FS.err (fun _ _ => ?_)
  exact removeCpAndLinks_atomic _ true s hd

/-! ## the composites: node, then its service, then its interfaces, inside `try … except Exception: remove the node with
everything under it; raise` (commit 3676b54).  Whatever step raises - a taken derived id, a rejected interface keyword at the
k-th interface, a duplicate name - the partial construct is `fac s fn sn cps` (or just the node) and
`remove_network_node_with_components_nss_cps_and_links` on it returns exactly `s` (`removeNodeGraph_fac`). -/

theorem atomic_addFacility (fl : Flavour) (c : Nat) (name : String) (nid : Option Nid) (site : Option String)
    (nstype : Option String) (nsprops : List PropArg) (ifs : Option (List (String × List PropArg))) (kw : List PropArg)
    (s : Topo) (hd : IdsDistinct s) (hc : Closed s) (hf : failed (addFacility fl c name nid site nstype nsprops ifs kw s)) :
    (addFacility fl c name nid site nstype nsprops ifs kw s).2 = s :=
  addFacility_fs fl c name nid site nstype nsprops ifs kw s hc hd hf

theorem atomic_addSwitch (fl : Flavour) (c : Nat) (name : String) (nid : Option Nid) (site : Option String)
    (nstype : Option String) (nsprops : List PropArg) (ports : List (String × String × List PropArg))
    (s : Topo) (hd : IdsDistinct s) (hc : Closed s) (hf : failed (addSwitch fl c name nid site nstype nsprops ports s)) :
    (addSwitch fl c name nid site nstype nsprops ports s).2 = s :=
  addSwitch_fs fl c name nid site nstype nsprops ports s hc hd hf

/-! ## removals that delete in several passes: once the look-ups by name succeeded, every later pass finds what it
looks for (`Rm`: the passes only ever restrict the state, Proofs/Lemmas/TopoAtomicDrop.lean) -/

theorem atomic_removeLink (name : String) (s : Topo) (hd : IdsDistinct s) (hsl : SpLeaf s)
    (hf : failed (removeLink name s)) : (removeLink name s).2 = s := removeLink_fs name s hd hsl hf

/-- the state hypotheses of the removals that first disconnect (`Topology._disconnect_interfaces`): distinct ids, every
ServicePort owned by exactly one service, at most one ServicePort peer per interface, nothing hanging off a ServicePort
(`DetachHyp`), no edge between two interfaces that are both attached to services (`CpEdgeOk`) -/
def RemoveHyp (s : Topo) : Prop := DetachHyp s ∧ CpEdgeOk s
instance (s : Topo) : Decidable (RemoveHyp s) := by unfold RemoveHyp; infer_instance

/-- `Topology.remove_node`: after the look-ups by name, the disconnect loop (which skips an interface an earlier pass
already removed: commit c460287), the second look-up and the graph-level removal all return -/
theorem atomic_removeNode (name : String) (s : Topo) (h : RemoveHyp s) (hf : failed (removeNode name s)) :
    (removeNode name s).2 = s := removeNode_fs name s h.1 h.2 hf

theorem atomic_removeFacility (name : String) (s : Topo) (h : RemoveHyp s) (hf : failed (removeFacility name s)) :
    (removeFacility name s).2 = s := removeFacility_fs name s h.1 h.2 hf

theorem atomic_removeSwitch (name : String) (s : Topo) (h : RemoveHyp s) (hf : failed (removeSwitch name s)) :
    (removeSwitch name s).2 = s := removeSwitch_fs name s h.1 h.2 hf

theorem atomic_removeService (name : String) (s : Topo) (h : RemoveHyp s) (hf : failed (removeService name s)) :
    (removeService name s).2 = s := removeService_fs name s h.1 h.2 hf

theorem atomic_nodeRemoveService (parent : Nid) (name : String) (s : Topo) (h : RemoveHyp s)
    (hf : failed (nodeRemoveService parent name s)) : (nodeRemoveService parent name s).2 = s :=
  nodeRemoveService_fs parent name s h.1 h.2 hf

theorem atomic_removeComponent (parent : Nid) (name : String) (s : Topo) (h : RemoveHyp s)
    (hf : failed (removeComponent parent name s)) : (removeComponent parent name s).2 = s :=
  removeComponent_fs parent name s h.1 h.2 hf

/-- non-vacuity: a node with a component, a service with one connected interface: the hypotheses hold -/
example : RemoveHyp ⟨[⟨.networkNode, .user "n", "n", "VM", []⟩, ⟨.component, .user "c", "c", "SmartNIC", []⟩,
      ⟨.networkService, .user "cs", "cs", "OVS", []⟩, ⟨.connectionPoint, .user "i", "i", "DedicatedPort", []⟩,
      ⟨.networkService, .user "s", "s", "L2Bridge", []⟩, ⟨.connectionPoint, .user "p", "p", "ServicePort", []⟩,
      ⟨.link, .user "l", "l", "Patch", []⟩],
     [⟨⟨.networkNode, .user "n"⟩, ⟨.component, .user "c"⟩, .has⟩, ⟨⟨.component, .user "c"⟩, ⟨.networkService, .user "cs"⟩, .has⟩,
      ⟨⟨.networkService, .user "cs"⟩, ⟨.connectionPoint, .user "i"⟩, .connects⟩,
      ⟨⟨.networkService, .user "s"⟩, ⟨.connectionPoint, .user "p"⟩, .connects⟩,
      ⟨⟨.link, .user "l"⟩, ⟨.connectionPoint, .user "i"⟩, .connects⟩, ⟨⟨.link, .user "l"⟩, ⟨.connectionPoint, .user "p"⟩, .connects⟩]⟩ := by
  decide

/-! ## one theorem over the op alphabet

`Covered op s` is the explicit guard: per call, the hypotheses on the state and the arguments its proof uses. -/

def FreshArgs (c : Nat) (s : Topo) (nid : Option Nid) : Prop :=
  (∀ m ∈ s.nodes, ∀ k, c ≤ k → m.nid ≠ .gen k) ∧ (∀ k, c ≤ k → nid ≠ some (.gen k))

def Covered : TopoOp → Topo → Prop
  | .addNode _ _ _, _ => True
  | .setProps _ _, _ => True
  | .unsetProp _ _, _ => True
  | .rename _ _ _, _ => True
  | .nsAddInterface _ _ _ _ _ _ _ _, _ => True
  | .addLink _ _ _ _ _ _ _ _, s => IdsDistinct s
  | .connect _ _ _ _ .bogus, _ => True
  | .connect _ c _ _ (.iface iid iname), s =>
      IdsDistinct s ∧ Closed s ∧ (∀ n ∈ s.nodes, n.nid = iid → n.cls = .connectionPoint) ∧
      (∀ m ∈ s.nodes, m.nid ≠ .gen c ∧ m.nid ≠ .gen (c + 1))
  | .disconnect _ _, s => IdsDistinct s
  | .nsRemoveInterface _ _ _, s => IdsDistinct s
  | .addComponent _ _ _ _, s => IdsDistinct s ∧ Closed s
  | .addStorage _ c _ _ nid _, s => FreshArgs c s nid
  | .addService _ c a, s => IdsDistinct s ∧ Closed s ∧ FreshArgs c s a.nid ∧ IfsAll s (pick a.nid c).1 c a.ifs
  | .nodeAddService _ c _ a, s => IdsDistinct s ∧ Closed s ∧ FreshArgs c s a.nid ∧ IfsAll s (pick a.nid c).1 c a.ifs
  | .addFacility _ _ _ _ _ _ _ _ _, s => IdsDistinct s ∧ Closed s
  | .addSwitch _ _ _ _ _ _ _ _, s => IdsDistinct s ∧ Closed s
  | .removeLink _, s => IdsDistinct s ∧ SpLeaf s
  | .removeNode _, s => RemoveHyp s
  | .removeFacility _, s => RemoveHyp s
  | .removeSwitch _, s => RemoveHyp s
  | .removeService _, s => RemoveHyp s
  | .nodeRemoveService _ _, s => RemoveHyp s
  | .removeComponent _ _, s => RemoveHyp s

theorem fs_of_atomic {α : Type} {m : M Topo α} (h : Atomic m) (s : Topo) : FS s (m s) := h.h s

/-- for every call of the alphabet that the guard admits and every state: a raise leaves the model unchanged -/
theorem atomic_op (op : TopoOp) (s : Topo) (hcov : Covered op s) (hf : failed (step op s)) : (step op s).2 = s := by
  revert hf
  cases op with
  | addNode fl c a => exact FS_bind_pure (fs_of_atomic (atomic_addNode fl c a) s)
  | setProps i p => exact FS_bind_pure (fs_of_atomic (atomic_setProps i p) s)
  | unsetProp i g => exact FS_bind_pure (fs_of_atomic (atomic_unsetProp i g) s)
  | rename c i n => exact FS_bind_pure (fs_of_atomic (atomic_rename c i n) s)
  | nsAddInterface fl c svc ca n i t p => exact FS_bind_pure (fs_of_atomic (atomic_addInterface fl c svc ca n i t p) s)
  | addLink fl c n i lt ifs t p => exact FS_bind_pure (atomic_addLink fl c n i lt ifs t p s hcov)
  | connect fl c svc ca i =>
    cases i with
    | bogus => exact FS_bind_pure (fs_of_atomic (atomic_connectInterface_bogus fl c svc ca) s)
    | iface iid iname =>
      obtain ⟨h1, h2, h3, h4⟩ := hcov
      exact FS_bind_pure (atomic_connectInterface fl c svc iid iname ca s h1 h2 h3 h4)
  | addService fl c a =>
    obtain ⟨h1, h2, ⟨h3, h4⟩, h5⟩ := hcov
    exact FS_bind_pure (atomic_addNetworkService fl c a s h1 h2 h3 h4 h5)
  | nodeAddService fl c p a =>
    obtain ⟨h1, h2, ⟨h3, h4⟩, h5⟩ := hcov
    exact FS_bind_pure (atomic_nodeAddService fl c p a s h1 h2 h3 h4 h5)
  | addComponent fl c p a => exact FS_bind_pure (atomic_addComponent fl c p a s hcov.1 hcov.2)
  | addStorage fl c p n i pr =>
    obtain ⟨h1, h2⟩ := hcov
    exact FS_bind_pure (atomic_addStorage fl c p n i pr s h1 h2)
  | nsRemoveInterface fl svc n => exact FS_bind_pure (atomic_removeInterface fl svc n s hcov)
  | disconnect ca i => exact FS_bind_pure (atomic_disconnectInterface ca i s hcov)
  | addFacility fl c n i st t np ifs kw => exact FS_bind_pure (atomic_addFacility fl c n i st t np ifs kw s hcov.1 hcov.2)
  | addSwitch fl c n i st t np ports => exact FS_bind_pure (atomic_addSwitch fl c n i st t np ports s hcov.1 hcov.2)
  | removeNode n => exact FS_bind_pure (atomic_removeNode n s hcov)
  | removeFacility n => exact FS_bind_pure (atomic_removeFacility n s hcov)
  | removeSwitch n => exact FS_bind_pure (atomic_removeSwitch n s hcov)
  | removeLink n => exact FS_bind_pure (atomic_removeLink n s hcov.1 hcov.2)
  | removeService n => exact FS_bind_pure (atomic_removeService n s hcov)
  | nodeRemoveService p n => exact FS_bind_pure (atomic_nodeRemoveService p n s hcov)
  | removeComponent p n => exact FS_bind_pure (atomic_removeComponent p n s hcov)

/-- non-vacuity of the guard: connecting an interface of a small well-formed model is covered -/
example : Covered (.addLink .experiment 0 "l1" none (some "Patch") (some [.iface (.user "i1") "i1"]) none [])
    ⟨[⟨.connectionPoint, .user "i1", "i1", "TrunkPort", []⟩], []⟩ := by
  show IdsDistinct _; decide


/-! ## the second alphabet (`Topo.XOp`): sub-interfaces, peering, port mirroring, `model_type=` components -/

/-- `Interface.add_child_interface`: the type assertion, the name / vlan checks against the handle's child list (a stale
child handle included) and the parent's labels are all read before the SubInterface is created -/
theorem atomic_addChildInterface (fl : Flavour) (c : Nat) (port : Nid) (cache : Cache) (name : String) (nid : Option Nid)
    (vlan : Option String) (tbl : List (String × String)) (props : List PropArg) :
    Atomic (addChildInterface fl c port cache name nid vlan tbl props) := by
  unfold addChildInterface
  refine Atomic.bind_readOnly (by ro) (fun _ => ?_)
  refine Atomic.bind_readOnly (by ro) (fun _ => ?_)
  refine Atomic.bind_readOnly (by ro) (fun _ => ?_)
  refine Atomic.bind_readOnly (by ro) (fun _ => ?_)
  refine Atomic.bind_readOnly (by ro) (fun _ => ?_)
  refine Atomic.bind_readOnly (by ro) (fun _ => ?_)
  refine Atomic.bind_readOnly (by ro) (fun _ => ?_)
  refine Atomic.bind_readOnly (by ro) (fun _ => ?_)
  exact Atomic.bind_total (atomic_ifaceNew ..) (fun _ => total_pure _)

/-- `add_port_mirror_service`: the two assertions, then the service constructor with its rollback -/
theorem atomic_addPortMirror (fl : Flavour) (c : Nat) (a : SvcArgs) (toOk fromOk : Bool) (s : Topo)
    (hd : IdsDistinct s) (hc : Closed s) (hfresh : ∀ m ∈ s.nodes, ∀ k, c ≤ k → m.nid ≠ .gen k)
    (hnid : ∀ k, c ≤ k → a.nid ≠ some (.gen k)) (hifs : IfsAll s (pick a.nid c).1 c a.ifs)
    (hf : failed (addPortMirror fl c a toOk fromOk s)) : (addPortMirror fl c a toOk fromOk s).2 = s := by
  unfold addPortMirror at hf ⊢
  revert hf
  refine ro_step (Q := FS s) (by ro) FS.err (fun _ _ => ?_)
  refine ro_step (Q := FS s) (by ro) FS.err (fun _ _ => ?_)
  exact svcNew_atomic fl c none a s hd hc hfresh hnid (fun _ h => by cases h) hifs

/-- `add_component(model_type=…)`, caller-supplied ids for the component's service and interfaces included -/
theorem atomic_addComponentMT (fl : Flavour) (c : Nat) (parent : Nid) (a : CompArgs) (mt : String × String) (s : Topo)
    (hd : IdsDistinct s) (hc : Closed s)
    (hf : failed (addComponentMT fl c parent a mt s)) : (addComponentMT fl c parent a mt s).2 = s := by
  unfold addComponentMT at hf ⊢
  revert hf
  refine ro_step (Q := FS s) (by ro) FS.err (fun _ hch => ?_)
  refine ro_step (Q := FS s) (by ro) FS.err (fun _ _ => ?_)
  obtain ⟨p, hp, hcls⟩ := childrenOf_parent hch
  refine compNewMT_fs_rb flag_componentRollback fl c parent a mt s hd hc (fun m hm hmi => ?_)
  rw [handle_cls_of_findNode hd hp m hm hmi]
  intro e; rw [e] at hcls; simp at hcls

/-- `Interface.remove_child_interface` (the child is not itself a ServicePort): disconnect, then `remove_cp_and_links` -/
theorem atomic_removeChildInterface (port : Nid) (cache : Cache) (name : String) (s : Topo) (h : DetachHyp s)
    (hnsp : ∀ m ∈ s.nodes, m.name = name → m.cls = .connectionPoint → m.typ ≠ "ServicePort")
    (hf : failed (removeChildInterface port cache name s)) : (removeChildInterface port cache name s).2 = s :=
  removeChildInterface_fs port cache name s h hnsp hf

/-- what `peer` asks of its two handles: they refer to NetworkServices (when the node is there at all) and the other
handle's id is not the uuid about to be drawn -/
def PeerOk (s : Topo) (c : Nat) (svc : Nid) : Option SvcHandle → Prop
  | none => True
  | some o => (∀ m ∈ s.nodes, m.nid = o.nid → m.cls = .networkService) ∧ o.nid ≠ .gen c

/-- `NetworkService.peer` with the clean-up of commit 277fd8f: whichever of the three creations is rejected (the other
service is gone, its handle already lists the derived name, the link name is too long ...), the ServicePort(s) made so far
are removed again and the model is what it was -/
theorem atomic_peer (fl : Flavour) (c : Nat) (svc : Nid) (sname : String) (cache : Cache) (other : Option SvcHandle)
    (props : List PropArg) (s : Topo) (hd : IdsDistinct s) (hc : Closed s)
    (hsvc : ∀ m ∈ s.nodes, m.nid = svc → m.cls = .networkService) (hoth : PeerOk s c svc other)
    (hf : failed (peer fl c svc sname cache other props s)) : (peer fl c svc sname cache other props s).2 = s :=
  peer_fs fl c svc sname cache other props s hd hc hsvc (fun o ho => by subst ho; exact hoth) hf

/-- `NetworkService.unpeer` -/
theorem atomic_unpeer (cache : Cache) (other : Option SvcHandle) (s : Topo) (hd : IdsDistinct s) (hsl : SpLeaf s)
    (hf : failed (unpeer cache other s)) : (unpeer cache other s).2 = s := unpeer_fs cache other s hd hsl hf

/-- the guard of `atomic_xop` -/
def CoveredX : XOp → Topo → Prop
  | .addChildInterface _ _ _ _ _ _ _ _ _, _ => True
  | .addPortMirror _ c a _ _, s => IdsDistinct s ∧ Closed s ∧ FreshArgs c s a.nid ∧ IfsAll s (pick a.nid c).1 c a.ifs
  | .addComponentMT _ _ _ _ _, s => IdsDistinct s ∧ Closed s
  | .removeChildInterface _ _ name, s =>
      DetachHyp s ∧ ∀ m ∈ s.nodes, m.name = name → m.cls = .connectionPoint → m.typ ≠ "ServicePort"
  | .peer _ c svc _ _ other _, s =>
      IdsDistinct s ∧ Closed s ∧ (∀ m ∈ s.nodes, m.nid = svc → m.cls = .networkService) ∧ PeerOk s c svc other
  | .unpeer _ _, s => IdsDistinct s ∧ SpLeaf s
  | .prune _ _ _ _, _ => False      -- modelled and checked differentially only (a sequence of removals: not one atomic call)

/-- for every call of the second alphabet that the guard admits and every state: a raise leaves the model unchanged -/
theorem atomic_xop (op : XOp) (s : Topo) (hcov : CoveredX op s) (hf : failed (stepX op s)) : (stepX op s).2 = s := by
  revert hf
  cases op with
  | addChildInterface fl c p ca n i v tb pr => exact FS_bind_pure (fs_of_atomic (atomic_addChildInterface fl c p ca n i v tb pr) s)
  | addPortMirror fl c a t f =>
    obtain ⟨h1, h2, ⟨h3, h4⟩, h5⟩ := hcov
    exact FS_bind_pure (atomic_addPortMirror fl c a t f s h1 h2 h3 h4 h5)
  | addComponentMT fl c p a mt => exact FS_bind_pure (atomic_addComponentMT fl c p a mt s hcov.1 hcov.2)
  | removeChildInterface p ca n => exact FS_bind_pure (atomic_removeChildInterface p ca n s hcov.1 hcov.2)
  | peer fl c svc sn ca o pr => exact FS_bind_pure (atomic_peer fl c svc sn ca o pr s hcov.1 hcov.2.1 hcov.2.2.1 hcov.2.2.2)
  | unpeer ca o => exact FS_bind_pure (atomic_unpeer ca o s hcov.1 hcov.2)
  | prune _ _ _ _ => exact hcov.elim


/-! ## the third alphabet (`Topo.YOp`, Model/TopoC09.lean) -/

/-- `update_labels` / `update_capacities`: the read, the merge (a bad field among good ones, at any position) and the sliver's
validation all come before the one graph write -/
theorem atomic_updateCaplab (nid : Nid) (arg : PropArg) : Atomic (updateCaplab nid arg) := by
  unfold updateCaplab
  exact Atomic.bind_readOnly (by ro) (fun _ => atomic_setProps _ _)

theorem atomic_yop (op : YOp) (s : Topo) (hf : failed (stepY op s)) : (stepY op s).2 = s := by
  revert hf
  cases op with
  | updateCaplab n a => exact FS_bind_pure (fs_of_atomic (atomic_updateCaplab n a) s)


/-! ## histories: every call runs in the state the previous one left, whether it returned or raised

`runAny ops s` is the model after a whole history over the three alphabets.  `CoveredAll ops s` asks the guard of
`atomic_op` / `atomic_xop` of exactly the calls that raise, in the state they are made in.  Then

* `history_atomic`: at every position of every history, a call that raises leaves the model as it was;
* `history_erasure`: the history builds the same model as the history with the failing calls erased - injected faults, at
  any positions and in any number, are invisible in the result;
* `history_all_failed`: a history of failing calls only leaves the model it started from. -/

def CoveredAny : AnyOp → Topo → Prop
  | .t o, s => Covered o s
  | .x o, s => CoveredX o s
  | .y _, _ => True

theorem errB_iff {α : Type} (r : Except Err α × Topo) : errB r = true ↔ failed r := by
  unfold errB failed
  rcases r with ⟨a | b, t⟩ <;> simp

/-- one call of any alphabet: a raise leaves the model unchanged -/
theorem atomic_any (op : AnyOp) (s : Topo) (hc : CoveredAny op s) (hf : (stepAny op s).1 = true) : (stepAny op s).2 = s := by
  cases op with
  | t o => exact atomic_op o s hc ((errB_iff _).mp hf)
  | x o => exact atomic_xop o s hc ((errB_iff _).mp hf)
  | y o => exact atomic_yop o s ((errB_iff _).mp hf)

/-- the guards of the failing calls of a history, each in the state its call is made in -/
def CoveredAll : List AnyOp → Topo → Prop
  | [], _ => True
  | op :: rest, s => ((stepAny op s).1 = true → CoveredAny op s) ∧ CoveredAll rest (stepAny op s).2

theorem history_atomic (ops : List AnyOp) : ∀ (s : Topo), CoveredAll ops s →
    ∀ (i : Nat) (op : AnyOp) (t : Topo), ops[i]? = some op → (statesAny ops s)[i]? = some t →
      (stepAny op t).1 = true → (stepAny op t).2 = t := by
  induction ops with
  | nil => intro s _ i op t h; simp at h
  | cons o rest ih =>
    intro s hc i op t hop hst hf
    cases i with
    | zero =>
      simp only [List.getElem?_cons_zero, Option.some.injEq, statesAny] at hop hst
      subst hop; subst hst
      exact atomic_any _ _ (hc.1 hf) hf
    | succ j =>
      simp only [List.getElem?_cons_succ, statesAny] at hop hst
      exact ih _ hc.2 j op t hop hst hf

theorem history_erasure (ops : List AnyOp) : ∀ (s : Topo), CoveredAll ops s → runAny ops s = runAny (okOps ops s) s := by
  induction ops with
  | nil => intro s _; rfl
  | cons o rest ih =>
    intro s hc
    by_cases hf : (stepAny o s).1 = true
    · have hs := atomic_any o s (hc.1 hf) hf
      simp only [runAny, okOps, hf, if_true]
      have := ih _ hc.2
      rw [hs] at this ⊢
      exact this
    · simp only [runAny, okOps, hf]
      exact ih _ hc.2

/-- what is left of a history after erasure are calls that return, each in the state the erased history reaches -/
theorem okOps_all_ok (ops : List AnyOp) : ∀ (s : Topo), CoveredAll ops s →
    ∀ (i : Nat) (op : AnyOp) (t : Topo), (okOps ops s)[i]? = some op → (statesAny (okOps ops s) s)[i]? = some t →
      (stepAny op t).1 = false := by
  induction ops with
  | nil => intro s _ i op t h; simp [okOps] at h
  | cons o rest ih =>
    intro s hc i op t hop hst
    by_cases hf : (stepAny o s).1 = true
    · have hs := atomic_any o s (hc.1 hf) hf
      simp only [okOps, hf, if_true] at hop hst
      rw [hs] at hop hst
      have hc2 := hc.2
      rw [hs] at hc2
      exact ih s hc2 i op t hop hst
    · have hfb : (stepAny o s).1 = false := by simpa using hf
      simp only [okOps, hfb, Bool.false_eq_true, if_false] at hop hst
      cases i with
      | zero =>
        simp only [List.getElem?_cons_zero, Option.some.injEq, statesAny] at hop hst
        subst hop; subst hst
        exact hfb
      | succ j =>
        simp only [List.getElem?_cons_succ, statesAny] at hop hst
        exact ih _ hc.2 j op t hop hst

theorem history_all_failed (ops : List AnyOp) : ∀ (s : Topo), CoveredAll ops s →
    (∀ (i : Nat) (op : AnyOp) (t : Topo), ops[i]? = some op → (statesAny ops s)[i]? = some t → (stepAny op t).1 = true) →
    runAny ops s = s := by
  induction ops with
  | nil => intro s _ _; rfl
  | cons o rest ih =>
    intro s hc hall
    have hf : (stepAny o s).1 = true := hall 0 o s (by simp) (by simp [statesAny])
    have hs := atomic_any o s (hc.1 hf) hf
    simp only [runAny]
    have hc2 := hc.2
    rw [hs] at hc2 ⊢
    refine ih s hc2 (fun i op t hop hst => ?_)
    refine hall (i + 1) op t (by simpa using hop) ?_
    simp only [statesAny, List.getElem?_cons_succ]
    rw [hs]; exact hst

/-- non-vacuity: a history of two calls, the second of which raises (duplicate node name), satisfies `CoveredAll` -/
example : CoveredAll [.t (.addNode .experiment 0 ⟨"n1", none, some "RENC", some "VM", []⟩),
                      .t (.addNode .experiment 1 ⟨"n1", none, some "RENC", some "VM", []⟩)] Topo.empty ∧
    (stepAny (.t (.addNode .experiment 1 ⟨"n1", none, some "RENC", some "VM", []⟩))
      (stepAny (.t (.addNode .experiment 0 ⟨"n1", none, some "RENC", some "VM", []⟩)) Topo.empty).2).1 = true := by
  refine ⟨⟨fun _ => trivial, fun _ => trivial, trivial⟩, by decide⟩

/-! ## write order of the building functions, read off the source (`Gen.TopoOrder.funcs`, gen/topoorder.py)

Every building function of the user layer and every sliver-level add_*/remove_* function of the graph layer is either
*single-write* - on no path does a step that can raise follow a write, so whatever raises, raises before the model is touched
(`OrderTok.singleWrite`, Model/TopoC09.lean) - or it is listed here with the exact shape it has today and the theorem its
atomicity rests on: the five rollback handlers (the position of every write, of the bookkeeping append `r` and of the
handler's removals included) and the removals that delete in several passes.  A validation moved behind a creation step, a
write added after another, an `except` narrowed, a handler that no longer re-raises or no longer removes changes the entry
of a function that is not single-write: gen/topoorder.py then refuses to regenerate (naming the function and its new shape),
the table of the unchanged tree stays in place and correspondence, oracle and the larger search decide.  `orderOk` (below) is
evaluated by the C09 driver on the table of every run, so `order_discipline` is about what the run actually used. -/

def pinnedOrder : List (String × String × String) := [
  ("Topology._disconnect_interfaces", "loop{loop{v if{if{v w(disconnect_interface)|v}|}}}",
    "detachAll_spec (under DetachHyp); outside it: removeNode_multipeer_counterexample"),
  ("Topology.remove_node", "if{v|} v w(_disconnect_interfaces) w(remove_network_node_with_components_nss_cps_and_links)",
    "atomic_removeNode"),
  ("Topology.add_facility", "w(add_node) guarded{w(add_network_service) if{w(add_interface)|loop{w(add_interface)}}|w(remove_network_node_with_components_nss_cps_and_links) v} ret",
    "atomic_addFacility (removeNodeGraph_fac)"),
  ("Topology.remove_facility", "v if{v|} w(_disconnect_interfaces) v w(remove_network_node_with_components_nss_cps_and_links)",
    "atomic_removeFacility"),
  ("Topology.add_switch", "w(add_node) guarded{w(add_network_service) loop{v w(add_interface)}|w(remove_network_node_with_components_nss_cps_and_links) v} ret",
    "atomic_addSwitch (removeNodeGraph_fac)"),
  ("Topology.remove_link", "v w(remove_network_link) loop{w(remove_cp_and_links)}",
    "atomic_removeLink"),
  ("Topology.remove_network_service", "v w(_disconnect_interfaces) w(remove_ns_with_cps_and_links)",
    "atomic_removeService"),
  ("ExperimentTopology._prune_ns", "v w(_disconnect_interfaces) w(remove_ns_with_cps_and_links)",
    "prune: differential only (a removeService without the look-up by name)"),
  ("ExperimentTopology._prune_interface", "v w(_disconnect_interfaces) w(remove_cp_and_links)",
    "prune: differential only"),
  ("Node.remove_component", "v w(_disconnect_interfaces) w(remove_component_with_nss_cps_and_links)",
    "atomic_removeComponent"),
  ("Node.remove_network_service", "v w(_disconnect_interfaces) w(remove_ns_with_cps_and_links)",
    "atomic_nodeRemoveService"),
  ("Interface.remove_child_interface", "v w(_disconnect_interfaces) w(remove_cp_and_links) c",
    "atomic_removeChildInterface"),
  ("NetworkService.__init__", "v if{v if{v|} v w(add_network_service_sliver) c if{loop{guarded{v w(connect_interface) r|loop{w(disconnect_interface)} w(remove_ns_with_cps_and_links) if{v|} v}}|}|v if{v if{v|}|} v loop{v r} c}",
    "atomic_addNetworkService (svcLoop_atomic: the handler undoes the service and what was connected)"),
  ("NetworkService.connect_interface", "v if{v|} v if{v|} v w(new Interface) w(new Link) c",
    "atomic_connectInterface (both derived names are validated before the port is created)"),
  ("NetworkService.peer", "v guarded{w(add_interface) r w(add_interface) r w(new Link)|loop{w(remove_cp_and_links)} v} c c",
    "atomic_peer"),
  ("NetworkService.unpeer", "v loop{v} if{v|} w(remove_cp_and_links) w(remove_cp_and_links) c c",
    "atomic_unpeer"),
  ("ModelElement.rename", "v w(self.name =) w(update_node_property)",
    "atomic_rename (the name setter validates; the second write repeats the first)"),
  ("ABCPropertyGraph.add_network_node_sliver", "v if{v|} v w(add_node) if{loop{w(add_component_sliver)}|} if{loop{w(add_network_service_sliver)}|}",
    "atomic_nodeNew for ns_info=None; with nested services: known finding add_node(ns_info=)"),
  ("ABCPropertyGraph.add_network_link_sliver", "v loop{v if{v|}} v w(add_node) loop{w(add_link)}",
    "atomic_linkNew (every endpoint is checked before the Link node is created)"),
  ("ABCPropertyGraph.add_component_sliver", "v w(add_node) guarded{w(add_link) if{loop{w(add_network_service_sliver)}|}|w(remove_component_with_nss_cps_and_links) v}",
    "atomic_addComponent (removeCompGraph_comp0 / removeCompGraph_comp1)"),
  ("ABCPropertyGraph.add_network_service_sliver", "v if{v|} v w(add_node) if{w(add_link)|} if{loop{w(add_interface_sliver)}|}",
    "atomic_addNetworkService / atomic_nodeAddService (the parent is listed by the caller first)"),
  ("ABCPropertyGraph.add_interface_sliver", "v if{v|} v w(add_node) if{w(add_link)|} if{loop{w(add_interface_sliver)}|}",
    "atomic_ifaceNew (the parent is looked up before the ConnectionPoint is created)"),
  ("ABCPropertyGraph.remove_network_node_with_components_nss_cps_and_links", "v if{v|} v loop{w(remove_component_with_nss_cps_and_links)} v w(delete_node) loop{w(remove_ns_with_cps_and_links)}",
    "removeNodeGraph_spec"),
  ("ABCPropertyGraph.remove_component_with_nss_cps_and_links", "v if{v|} v w(delete_node) loop{w(remove_ns_with_cps_and_links)}",
    "removeCompGraph_spec"),
  ("ABCPropertyGraph.remove_ns_with_cps_and_links", "v if{v|} v w(delete_node) loop{w(remove_cp_and_links)}",
    "removeNs_spec"),
  ("ABCPropertyGraph.remove_cp_and_links", "v loop{v} loop{v loop{v}} loop{w(delete_node)}",
    "removeCpAndLinks_spec"),
  ("ExperimentTopology.prune", "loop{v loop{v loop{v loop{v}}}} loop{if{v loop{v}|}} loop{w(_prune_node)} loop{v if{w(_prune_components)|}} loop{v if{w(_prune_ns)|}} loop{v if{w(_prune_interface)|}}",
    "differential only: a sequence of removals, each covered on its own")]

/-- one entry of the table is in order: single-write, or exactly the pinned shape -/
def fnOk (fn : Gen.TopoOrder.Fn) : Bool :=
  OrderTok.singleWrite fn.toks || ((pinnedOrder.lookup fn.name).map (·.1) == some (OrderTok.render 400 fn.toks))

/-- the whole table is in order, and nothing is pinned that the shape alone would settle.  Evaluated by the C09 driver on
the table of the run (`{"op":"order"}`): a mismatch is reported with the offending functions, and the rest of the check
still runs (a `decide` here would fail the build instead, and with it the driver). -/
def orderOk : Bool :=
  Gen.TopoOrder.funcs.all fnOk &&
    pinnedOrder.all (fun p => Gen.TopoOrder.funcs.any (fun fn => fn.name == p.1 && !OrderTok.singleWrite fn.toks))

/-- the entries that are not in order: (function, its shape today) -/
def orderBad : List (String × String) :=
  (Gen.TopoOrder.funcs.filter (fun fn => !fnOk fn)).map (fun fn => (fn.name, OrderTok.render 400 fn.toks)) ++
    (pinnedOrder.filter (fun p => !Gen.TopoOrder.funcs.any (fun fn => fn.name == p.1 && !OrderTok.singleWrite fn.toks))).map
      (fun p => (p.1, "pinned, but single-write (or gone) in the source"))

theorem order_discipline (h : orderOk = true) : ∀ fn ∈ Gen.TopoOrder.funcs,
    OrderTok.singleWrite fn.toks = true ∨ (pinnedOrder.lookup fn.name).map (·.1) = some (OrderTok.render 400 fn.toks) := by
  intro fn hfn
  unfold orderOk at h
  rw [Bool.and_eq_true] at h
  have := List.all_eq_true.mp h.1 fn hfn
  unfold fnOk at this
  rw [Bool.or_eq_true] at this
  rcases this with h1 | h2
  · exact .inl h1
  · exact .inr (by simpa using h2)

theorem order_pinned_minimal (h : orderOk = true) : ∀ p ∈ pinnedOrder,
    ∃ fn ∈ Gen.TopoOrder.funcs, fn.name = p.1 ∧ OrderTok.singleWrite fn.toks = false := by
  intro p hp
  unfold orderOk at h
  rw [Bool.and_eq_true] at h
  have := List.all_eq_true.mp h.2 p hp
  rw [List.any_eq_true] at this
  obtain ⟨fn, hfn, hc⟩ := this
  rw [Bool.and_eq_true] at hc
  exact ⟨fn, hfn, by simpa using hc.1, by simpa using hc.2⟩

/-- what "single-write" means, for every function of the table that is not pinned: along every path through the function
(either branch of every `if`, any number of passes of every loop), a write is the last step that can fail - so whichever step
raises, the model has not been touched (`OrderTok.scan_sound`; the write itself is the callee's entry, down to `atomic_addGNode`) -/
theorem order_single_write_sound (h : orderOk = true) : ∀ fn ∈ Gen.TopoOrder.funcs, pinnedOrder.lookup fn.name = none →
    ∀ σ e, OrderTok.Run fn.toks σ e → ∀ pre post, σ = pre ++ OrderTok.Ev.w :: post → post = [] := by
  intro fn hfn hnp σ e hrun
  rcases order_discipline h fn hfn with hs | hp
  · exact OrderTok.okSeq_last_write (OrderTok.singleWrite_sound fn.toks hs σ e hrun)
  · rw [hnp] at hp; simp at hp

/-! ## the known finding behind the hypothesis `SpPeer1` of the removals

`Topology.add_link` accepts a ServicePort of another service next to an interface that is already connected; the interface
then has two ServicePort peers, which `Topology._disconnect_interfaces` reports as a model error - after it has already
disconnected the interfaces it visited before.  Witness: node `n1` with a SmartNIC whose two ports are connected to service
`sA`; port `i2` is also linked to the ServicePort `bx` of service `sB`.  `remove_node('n1')` disconnects `i1` (its
ServicePort and link are gone) and raises at `i2`.  The same holds for every caller of `_disconnect_interfaces`
(remove_facility / remove_switch / remove_component / remove_network_service / prune); replayed on the implementation by the
oracle's `multi-sp-peer/*` cases. -/

def mpState : Topo :=
  ⟨[⟨.networkNode, .user "n1", "n1", "VM", []⟩, ⟨.component, .user "c1", "nic1", "SmartNIC", []⟩,
    ⟨.networkService, .user "cs", "n1-nic1-l2ovs", "OVS", []⟩,
    ⟨.connectionPoint, .user "i1", "nic1-p1", "DedicatedPort", []⟩, ⟨.connectionPoint, .user "i2", "nic1-p2", "DedicatedPort", []⟩,
    ⟨.networkService, .user "sA", "sa", "L2Bridge", []⟩,
    ⟨.connectionPoint, .user "a1", "n1-nic1-p1", "ServicePort", []⟩, ⟨.link, .user "la1", "n1-nic1-p1-link", "Patch", []⟩,
    ⟨.connectionPoint, .user "a2", "n1-nic1-p2", "ServicePort", []⟩, ⟨.link, .user "la2", "n1-nic1-p2-link", "Patch", []⟩,
    ⟨.networkService, .user "sB", "sb", "L2Bridge", []⟩, ⟨.connectionPoint, .user "bx", "bx", "ServicePort", []⟩,
    ⟨.link, .user "lx", "lx", "L2Path", []⟩],
   [⟨⟨.networkNode, .user "n1"⟩, ⟨.component, .user "c1"⟩, .has⟩, ⟨⟨.component, .user "c1"⟩, ⟨.networkService, .user "cs"⟩, .has⟩,
    ⟨⟨.networkService, .user "cs"⟩, ⟨.connectionPoint, .user "i1"⟩, .connects⟩,
    ⟨⟨.networkService, .user "cs"⟩, ⟨.connectionPoint, .user "i2"⟩, .connects⟩,
    ⟨⟨.networkService, .user "sA"⟩, ⟨.connectionPoint, .user "a1"⟩, .connects⟩,
    ⟨⟨.link, .user "la1"⟩, ⟨.connectionPoint, .user "i1"⟩, .connects⟩, ⟨⟨.link, .user "la1"⟩, ⟨.connectionPoint, .user "a1"⟩, .connects⟩,
    ⟨⟨.networkService, .user "sA"⟩, ⟨.connectionPoint, .user "a2"⟩, .connects⟩,
    ⟨⟨.link, .user "la2"⟩, ⟨.connectionPoint, .user "i2"⟩, .connects⟩, ⟨⟨.link, .user "la2"⟩, ⟨.connectionPoint, .user "a2"⟩, .connects⟩,
    ⟨⟨.networkService, .user "sB"⟩, ⟨.connectionPoint, .user "bx"⟩, .connects⟩,
    ⟨⟨.link, .user "lx"⟩, ⟨.connectionPoint, .user "i2"⟩, .connects⟩, ⟨⟨.link, .user "lx"⟩, ⟨.connectionPoint, .user "bx"⟩, .connects⟩]⟩

/-- full statement `∀ s, failed (removeNode n s) → (removeNode n s).2 = s` fails in this reachable state: the state is well
formed (distinct ids, no dangling edge), it is outside `RemoveHyp` (an interface with two ServicePort peers), the call raises
and two elements (the ServicePort of `i1` and its link) are gone -/
theorem removeNode_multipeer_counterexample :
    IdsDistinct mpState ∧ Closed mpState ∧ ¬ RemoveHyp mpState ∧ failed (step (.removeNode "n1") mpState) ∧
      (step (.removeNode "n1") mpState).2 ≠ mpState ∧ (step (.removeNode "n1") mpState).2.nodes.length = 11 := by decide

/-! ## what the model takes from the store primitives

`updateProps` is ONE write of the whole keyword dictionary, for any values (a property value is opaque text to the model; a value
that is not a string - the setters of details / site / controller_url / mirror_port / mirror_vlan / allocation_constraints have no
type check - travels as a tagged text), and every lookup (`findNode`, `nodeExists`, the pre-check of `addLink`) sees the nodes of
this model only, although the default store keeps every graph of the process in one structure (a copy of the topology kept in the
process holds the same node ids).  Both facts are probed on both in-memory stores in every run (gen/rules.py); the generated
histories contain non-string values at every keyword position and copies kept before removals, so a difference also shows
call by call. -/

theorem store_primitives_as_modelled : Gen.Rules.updateWhole = true ∧ Gen.Rules.lookupOwnGraph = true := by decide

/-- bulk setter, whatever the values (tagged non-strings included) and wherever a rejected keyword sits: it raises exactly when
some keyword is rejected or the element is gone, and then nothing was written -/
theorem setProps_rejected_whole (nid : Nid) (props : List PropArg) (s : Topo) (h : failed (setProps nid props s)) :
    (setProps nid props s).2 = s := (atomic_setProps nid props).h s h

end FimVerif.C09
