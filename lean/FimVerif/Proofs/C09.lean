import FimVerif.Proofs.Lemmas.TopoAtomic
/-!
# C09 — a topology-building call that raises leaves the model unchanged

`Atomic m := ∀ s, failed (m s) → (m s).2 = s` (Model/M.lean).  The state `Topo` is the whole model
(all nodes with all their properties, all edges); handle caches are *results* of the calls, so a call that
raises returns none and the caller's cache is untouched by construction; the uuid supply is an argument.

Full statement (for every building call `op`, every state): `Atomic op`.
It holds for the validate-before-mutate calls below.  It does not hold for the calls that create a node and
then attach it (`add_interface` on a handle whose service is gone, `add_link` with a bad k-th interface,
substrate `add_component` with colliding caller-supplied ids) nor for the composites `add_facility` /
`add_switch`: for those the file has a `_counterexample` (replayed on the implementation by the oracle's
deterministic cases) and the strongest guarded `_partial`.
-/
namespace FimVerif.C09
open FimVerif FimVerif.M FimVerif.Topo

/-! ## validate-before-mutate calls: atomic in every state -/

theorem atomic_addGNode (n : GNode) : Atomic (addGNode n) := Topo.atomic_addGNode n

/-- `Node(..., etype=NEW)` -/
theorem atomic_nodeNew (fl : Flavour) (c : Nat) (a : NodeArgs) : Atomic (nodeNew fl c a) := by
  unfold nodeNew
  refine Atomic.bind_readOnly (by ro) (fun _ => ?_)
  split
  refine Atomic.bind_readOnly (by ro) (fun _ => ?_)
  refine Atomic.bind_readOnly (by ro) (fun _ => ?_)
  refine Atomic.bind_readOnly (by ro) (fun _ => ?_)
  refine Atomic.bind_readOnly (by ro) (fun _ => ?_)
  refine Atomic.bind_readOnly (by ro) (fun _ => ?_)
  refine Atomic.bind_readOnly (by ro) (fun _ => ?_)
  exact Atomic.bind_total (Topo.atomic_addGNode _) (fun _ => total_pure _)

/-- `Topology.add_node` -/
theorem atomic_addNode (fl : Flavour) (c : Nat) (a : NodeArgs) : Atomic (addNode fl c a) := by
  unfold addNode
  refine Atomic.bind_readOnly (by ro) (fun _ => ?_)
  refine Atomic.bind_readOnly (by ro) (fun _ => ?_)
  refine Atomic.bind_readOnly (by ro) (fun _ => ?_)
  exact atomic_nodeNew fl c a

/-- `set_property` / `set_properties`: one bad keyword among good ones, at any position -/
theorem atomic_setProps (nid : Nid) (props : List PropArg) : Atomic (setProps nid props) := by
  unfold setProps
  exact Atomic.bind_readOnly (by ro) (fun _ => atomic_updateProps _ _)

theorem atomic_unsetProp (nid : Nid) (g : Option String) : Atomic (unsetProp nid g) := by
  unfold unsetProp
  split
  · exact (readOnly_pure _).atomic
  · refine Atomic.bind_readOnly (by ro) (fun _ => ?_)
    refine Atomic.bind_readOnly (by ro) (fun _ => ?_)
    refine Atomic.bind_readOnly (by ro) (fun _ => ?_)
    exact (total_modify _).atomic

theorem atomic_rename (cls : Cls) (nid : Nid) (n : String) : Atomic (rename cls nid n) := by
  unfold rename
  refine Atomic.bind_readOnly (by ro) (fun _ => ?_)
  refine Atomic.bind_readOnly (by ro) (fun _ => ?_)
  exact (total_modify _).atomic

/-- `Topology.remove_link` -/
theorem atomic_removeLink (name : String) : Atomic (removeLink name) := by
  unfold removeLink
  exact Atomic.bind_readOnly (by ro) (fun _ => atomic_deleteNode _)

/-- an interface created without a parent (`add_interface_sliver(parent_node_id=None)`) -/
theorem atomic_ifaceNew_orphan (fl : Flavour) (c : Nat) (name : String) (nid : Option Nid) (t : Option String)
    (props : List PropArg) : Atomic (ifaceNew fl c name nid none t props) := by
  unfold ifaceNew
  refine Atomic.bind_readOnly (by ro) (fun _ => ?_)
  split
  refine Atomic.bind_readOnly (by ro) (fun _ => ?_)
  refine Atomic.bind_readOnly (by ro) (fun _ => ?_)
  refine Atomic.bind_readOnly (by ro) (fun _ => ?_)
  refine Atomic.bind_total (Topo.atomic_addGNode _) (fun _ => ?_)
  exact total_pure _

end FimVerif.C09
