import FimVerif.Model.Topo
/-!
# C09 — a topology-building call that raises leaves the model unchanged

`Atomic m := ∀ s, failed (m s) → (m s).2 = s` (Model/M.lean).  The state is the whole model
(`Topo`: all nodes with all properties, all edges); handle caches are results of the calls, so a
failed call returns none — the caller's cache is untouched by construction; the uuid supply is an
argument, not state.
-/
namespace FimVerif.C09
open FimVerif FimVerif.M FimVerif.Topo

/-! ## graph primitives -/

theorem readOnly_findNode (nid : Nid) : ReadOnly (findNode nid) := by
  intro s; unfold findNode; split <;> rfl

theorem atomic_addGNode (n : GNode) : Atomic (addGNode n) := by
  intro s h; unfold addGNode at *; split at h <;> simp_all

end FimVerif.C09
