import FimVerif.Proofs.Lemmas.StoreIdentOps
import FimVerif.Proofs.Lemmas.StoreNidOps
import FimVerif.Proofs.Lemmas.StoreMerge
import FimVerif.Proofs.Lemmas.StoreRefineAll
import FimVerif.Proofs.Lemmas.StoreMergeFrame
/-!
# C05 — in-memory graph backends agree with each other and with the documented semantics

Models: `Model/Store.lean` (shared store), `Model/DStore.lean` (one graph per id; every inherited
property-graph method *is* the shared-store method run on the sub-store of that id), `Model/AGraph.lean`
(reference model of the documented interface).  Helper lemmas: `Proofs/Lemmas/Store*.lean`.
-/
namespace FimVerif.C05
open FimVerif FimVerif.Store FimVerif.Gen.StoreConsts

/-! ## identity properties -/

/-- unsetting an identity property (every name in the *generated* `NO_UNSET_PROPERTIES`, and the
    label attribute) is refused with a query error and leaves the store unchanged -/
theorem identity_unset_refused (g nid k : String) (s : Store) (hk : k ∈ noUnset ∨ k = nxLabel) :
    unsetNodeProperty g nid k s = (.error .query, s) := by
  unfold unsetNodeProperty
  rcases hk with hk | hk
  · by_cases h : k = nxLabel <;> simp [h, hk]
  · simp [hk]

/-- the five names the property lists are in the generated list -/
theorem identity_names_listed :
    graphId ∈ noUnset ∧ nodeId ∈ noUnset ∧ propClass ∈ noUnset ∧ propType ∈ noUnset ∧ propName ∈ noUnset := by decide

/-- every way of writing the class through the API — single, bulk and whole-graph node updates, single
    and bulk link updates, link unset — is refused and leaves the store unchanged (a query error; the
    single-value updates answer an assertion error when the value is `None`, see `none_value_refused`) -/
theorem class_update_refused (g nid a b kind : String) (v : Val) (p : Props) (hp : AMap.has nxLabel p = true) (s : Store) :
    updateNodeProperty g nid nxLabel v s = (.error .query, s) ∧
    (updateNodesProperty g nxLabel v s).1 = .error .query ∧ (updateNodesProperty g nxLabel v s).2 = s ∧
    updateNodeProperties g nid p s = (.error .query, s) ∧
    updateLinkProperty g a b kind nxLabel v s = (.error .query, s) ∧
    unsetLinkProperty g a b kind nxLabel s = (.error .query, s) ∧
    updateLinkProperties g a b kind p s = (.error .query, s) := by
  refine ⟨by simp [updateNodeProperty], ?_, ?_, by simp [updateNodeProperties, hp], by simp [updateLinkProperty],
    by simp [unsetLinkProperty], by simp [updateLinkProperties, hp]⟩
  · unfold updateNodesProperty; split <;> simp
  · unfold updateNodesProperty; split <;> simp

/-- the class cannot be written through `step` either, whatever the value (including `None`): the call
    fails and the store is unchanged -/
theorem class_update_refused_step (g nid a b kind : String) (v : Val) (s : Store) :
    (∃ e, (Store.step (.updateNodeProperty g nid nxLabel v) s) = (.error e, s)) ∧
    (∃ e, (Store.step (.updateLinkProperty g a b kind nxLabel v) s) = (.error e, s)) ∧
    (∃ e, (Store.step (.updateNodesProperty g nxLabel v) s).1 = .error e) ∧ (Store.step (.updateNodesProperty g nxLabel v) s).2 = s := by
  refine ⟨?_, ?_, ?_, ?_⟩
  · by_cases hv : v = .none <;> simp [Store.step, assertVal, hv, updateNodeProperty]
  · by_cases hv : v = .none <;> simp [Store.step, assertVal, hv, updateLinkProperty]
  · by_cases hv : v = .none
    · simp [Store.step, assertVal, hv]
    · simp only [Store.step, assertVal, hv, if_false]
      unfold updateNodesProperty; split <;> simp
  · by_cases hv : v = .none
    · simp [Store.step, assertVal, hv]
    · simp only [Store.step, assertVal, hv, if_false]
      unfold updateNodesProperty; split <;> simp

/-- a single-value update (node, whole graph, link) handed `None` is refused (`assert prop_val is not None`)
    and leaves the store unchanged: `None` cannot be used to blank a property one at a time -/
theorem none_value_refused (g nid a b kind k : String) (s : Store) :
    Store.step (.updateNodeProperty g nid k .none) s = (.error .assertion, s) ∧
    Store.step (.updateNodesProperty g k .none) s = (.error .assertion, s) ∧
    Store.step (.updateLinkProperty g a b kind k .none) s = (.error .assertion, s) := by
  simp [Store.step, assertVal]

/-- a bulk update (`update_node_properties`, `update_link_properties`, initial properties of `add_node` /
    `add_link`) *stores* every value it is handed — `None`, `''`, `0`, `False`, lists, dicts alike: after
    `d.update(props)` every key that was present is still present and every key of `props` is present.  A
    `None` value is a stored `None`, never a removal. -/
theorem bulk_update_stores_every_value (a p : Props) (k : String) (h : AMap.has k a = true ∨ k ∈ AMap.keys p) :
    AMap.has k (AMap.update a p) = true := by
  rcases h with h | h
  · exact has_update_of_has a p k h
  · exact has_update_of_mem a p k h

example : AMap.get "Name" (AMap.update [("NodeID", Val.str "n"), ("Name", Val.str "x")] [("Site", .str "UKY"), ("Name", .none)])
    = some Val.none := by decide

/-- **identity_props_protected.**  Whatever operation is executed, with whatever values (`Val`: strings, `None`,
    ints, bools, lists, dicts) — single, bulk and whole-graph updates, unsets, initial properties, imports,
    re-imports, clones, deletions, failing calls, and merges whose policy does not name `Class` with
    `overwrite`/`combine` — a node that is stored before and after keeps its class and still has every
    identity property (`NO_UNSET_PROPERTIES`: GraphID, NodeID, Type, Class, Name) it had before. -/
theorem identity_props_protected (op : Op) (s : Store) (h : Store.Inv s) (hc : op.keepsClass = true)
    (n : SNode) (hn : n ∈ s.nodes) (m : SNode) (hm : m ∈ (Store.step op s).2.nodes) (e : m.iid = n.iid) :
    AMap.get propClass m.attrs = AMap.get propClass n.attrs ∧
    ∀ k ∈ noUnset, AMap.has k n.attrs = true → AMap.has k m.attrs = true :=
  Store.identity_preserved op s h hc n hn m hm e

example : (Op.mergeNodes "g1" "n" "g2" (some [("Name", .combine), ("Class", .discard)])).keepsClass = true := by decide

/-- Full statement ("the class can never be changed through the API") fails for a merge whose policy
    names the class: `merge_nodes(n, other, {"Class": "overwrite"})` gives the surviving node the other
    node's class.  Known finding `C05:identity:merge_nodes:class-changed`. -/
theorem identity_merge_class_counterexample :
    ∃ (s : Store) (op : Op), Store.Inv s ∧
      ∃ n ∈ s.nodes, ∃ m ∈ (Store.step op s).2.nodes, m.iid = n.iid ∧
        AMap.get propClass m.attrs ≠ AMap.get propClass n.attrs := by
  refine ⟨⟨[⟨1, [("GraphID", .str "g1"), ("Class", .str "NetworkNode"), ("NodeID", .str "n")]⟩,
            ⟨2, [("GraphID", .str "g2"), ("Class", .str "Link"), ("NodeID", .str "n")]⟩], [], 3⟩,
          .mergeNodes "g1" "n" "g2" (some [("Class", .overwrite)]), ?_, ?_⟩
  · refine ⟨by decide, by decide, by simp⟩
  · refine ⟨⟨1, [("GraphID", .str "g1"), ("Class", .str "NetworkNode"), ("NodeID", .str "n")]⟩, by simp,
      ⟨1, [("GraphID", .str "g1"), ("Class", .str "Link"), ("NodeID", .str "n")]⟩, ?_, rfl, by decide⟩
    decide

/-! ## a node id is unique within its graph whatever the node's class -/

/-- `add_node` refuses an id that some node of the graph already carries — under *any* class (the label
    argument plays no part in the check; /repo be46229) — and leaves the store unchanged -/
theorem add_node_existing_id_refused (s : Store) (g nid label : String) (props : Option Props)
    (n : SNode) (hn : n ∈ s.nodes) (hg : inG g n = true) (hid : hasNid nid n = true) :
    addNode g nid label props s = (.error .query, s) := by
  unfold addNode
  have : addNodeGuard g nid s = true := by
    simp only [addNodeGuard, gt_iff_lt, decide_eq_true_eq]
    apply List.length_pos_of_mem (a := n)
    simp [hn, hg, hid]
  simp [this]

/-- **nid_unique.**  Every operation that writes neither `GraphID` nor `NodeID` of a stored node (and, for
    imports, brings pairwise distinct NodeIDs) keeps NodeIDs unique within every graph. -/
theorem nid_unique (op : Op) (s : Store) (h : Store.Inv s) (hk : op.keepsKeys = true) (hall : ∀ g, UniqueNid s g) :
    ∀ g, UniqueNid (Store.step op s).2 g := Store.nid_unique_step op s h hk hall

/-- … hence in every reachable state -/
theorem nid_unique_reachable (ops : List Op) (hops : ∀ o ∈ ops, o.keepsKeys = true) :
    ∀ g, UniqueNid (Store.run ops Store.init) g := by
  suffices ∀ s, Store.Inv s → (∀ g, UniqueNid s g) → ∀ g, UniqueNid (Store.run ops s) g from
    this _ Store.inv_init (fun g => by simp [UniqueNid, nodesOf, Store.init])
  induction ops with
  | nil => intro s _ h; exact h
  | cons o r ih =>
    intro s hi h
    simp only [Store.run, List.foldl_cons]
    have ho := hops o (by simp)
    exact ih (fun o' ho' => hops o' (by simp [ho'])) _ (Store.inv_step o s hi) (nid_unique o s hi ho h)

example : (Op.addNode "g" "n" "Link" (some [("Name", .str "x")])).keepsKeys = true := by decide
example : (Op.addGraph "g" ⟨[[("NodeID", .str "a")], [("NodeID", .str "b")]], []⟩).keepsKeys = true := by decide
example : (Op.mergeNodes "g" "n" "h" (some [("Name", .combine)])).keepsKeys = true := by decide

/-! ## merging a node from another graph -/

/-- **merge_keeps_edges.**  After a successful `merge_nodes` every edge of the store — in particular every
    edge of the surviving node `u` and of the absorbed node `v` — is still there with `v` replaced by `u`;
    and every edge afterwards carries, unchanged, the property dictionary of one edge from before (no
    foreign key such as networkx's `contraction`, no mixture of two dictionaries). -/
theorem merge_keeps_edges (s : Store) (g nid g2 : String)
    (pol : Option (List (String × Policy))) (hok : (mergeNodes g nid g2 pol s).1 = .ok .unit) :
    ∃ u v, findNode s g nid = .ok u ∧ findNode s g2 nid = .ok v ∧
      (∀ e ∈ s.edges, (mergeNodes g nid g2 pol s).2.edges.any (edgeMatch (rm u v e.a) (rm u v e.b)) = true) ∧
      (∀ e' ∈ (mergeNodes g nid g2 pol s).2.edges, ∃ e ∈ s.edges, e'.attrs = e.attrs ∧ e'.a = rm u v e.a ∧ e'.b = rm u v e.b) := by
  obtain ⟨u, v, mine, theirs, np, hu, hv, _, _, _, hs', _, _⟩ := mergeNodes_ok s g nid g2 pol hok
  refine ⟨u, v, hu, hv, ?_, ?_⟩
  · intro e he; rw [hs']; exact contract_keeps_edges s u v e he
  · intro e' he'; rw [hs'] at he'; exact contract_edge_attrs s u v e' he'

/-- **merge_policy.**  After a successful `merge_nodes` the surviving node has exactly the property names
    it had, and each property follows the policy: keep (`discard` or not mentioned), the other node's value
    (`overwrite`), the pair (`combine`), `None` for an unknown policy word. -/
theorem merge_policy (s : Store) (g nid g2 : String)
    (pol : Option (List (String × Policy))) (hok : (mergeNodes g nid g2 pol s).1 = .ok .unit) :
    ∃ u v mine theirs, findNode s g nid = .ok u ∧ findNode s g2 nid = .ok v ∧
      nodeAttrs s u = some mine ∧ nodeAttrs s v = some theirs ∧
      ∃ m ∈ (mergeNodes g nid g2 pol s).2.nodes, m.iid = u ∧ AMap.keys m.attrs = AMap.keys mine ∧
        ∀ k v0, AMap.get k mine = some v0 → AMap.get k m.attrs = some (policyVal pol theirs k v0) := by
  obtain ⟨u, v, mine, theirs, np, hu, hv, huv, hm, ht, hs', hkeys, hpol⟩ := mergeNodes_ok s g nid g2 pol hok
  refine ⟨u, v, mine, theirs, hu, hv, hm, ht, ⟨u, np⟩, ?_, rfl, hkeys, hpol⟩
  rw [hs']
  obtain ⟨nu, hnu, eu, _, _⟩ := findNode_ok s g nid u hu
  have hin : nu ∈ (contract u v s).nodes := by
    unfold contract
    simp only
    rw [(remapEdges_nodes u v _ _).1]
    simp [removeNode, hnu, eu, huv]
  simp only [updNode, List.mem_map]
  exact ⟨nu, hin, by simp [eu]⟩

/-- a failing `merge_nodes` (unknown node, empty other graph, a policy naming a property the other node
    lacks) leaves the store unchanged (/repo 1165ef5) -/
theorem merge_failure_atomic (s : Store) (g nid g2 : String) (pol : Option (List (String × Policy)))
    (hf : (mergeNodes g nid g2 pol s).1 ≠ .ok .unit) : (mergeNodes g nid g2 pol s).2 = s := by
  unfold mergeNodes withNode at *
  split
  · rfl
  · rw [if_neg (by assumption)] at hf
    split
    · rfl
    · rename_i u hu
      simp only [hu] at hf ⊢
      split
      · rfl
      · rename_i v hv
        simp only [hv] at hf ⊢
        split
        · rfl
        rename_i huv
        simp only [huv, if_false] at hf
        split
        · rename_i mine theirs hm ht
          simp only [hm, ht] at hf ⊢
          cases pol with
          | none => simp at hf
          | some pol =>
            simp only at hf ⊢
            split
            · rfl
            · rename_i np hnp; simp [hnp] at hf
        · rfl

/-- **merge_frame.**  `merge_nodes` touches only the two graphs it names: the content of every third graph
    is unchanged, whether the merge succeeds or fails (policy not rewriting `GraphID`/`NodeID`). -/
theorem merge_frame (s : Store) (h : Store.Inv s) (g nid g2 g' : String) (pol : Option (List (String × Policy)))
    (hk : (Op.mergeNodes g nid g2 pol).keepsKeys = true) (h1 : g' ≠ g) (h2 : g' ≠ g2) :
    Store.abs (mergeNodes g nid g2 pol s).2 g' = Store.abs s g' := by
  have := Store.frame_mergeNodes s h g nid g2 g' pol hk h1 h2
  simp only [Store.abs, this.1, this.2]

/-! ## both backends refine the reference model of the documented interface

`AGraph.covers op`: `op` is part of the reference interface (every operation of C05's alphabet except
`merge_nodes`, treated above; imports and clones are C04's).  `op.keepsKeys`: the operation writes neither
`GraphID` nor `NodeID` of a stored node (outside C05's alphabet).  `outAbs` removes the `GraphID` entry from
a returned node dictionary (the reference model has no graph id inside a graph). -/

/-- **shared_refines_spec.**  One call on the shared store, addressed to graph `op.target`, returns what the
    reference model returns on that graph's content (same value, same error kind) and leaves that graph
    with the content the reference model computes — for every state satisfying the store invariant. -/
theorem shared_refines_spec (op : Op) (s : Store) (h : Store.Inv s) (hc : AGraph.covers op = true) (hk : op.keepsKeys = true) :
    outAbs (Store.step op s).1 = (AGraph.step op (Store.abs s op.other) (Store.abs s op.target)).1 ∧
    Store.abs (Store.step op s).2 op.target = (AGraph.step op (Store.abs s op.other) (Store.abs s op.target)).2 :=
  Store.refines_step op s h hc hk

/-- lifted to all graph ids and all histories: the content of every graph after a history on the shared
    store is what the reference model computes from the initial contents (refinement on the addressed graph,
    frame on all others, induction over the history) -/
theorem shared_refines_history (ops : List Op) (s : Store) (h : Store.Inv s)
    (hops : ∀ o ∈ ops, AGraph.covers o = true ∧ o.keepsKeys = true) :
    (fun g => Store.abs (Store.run ops s) g) = AGraph.runAll ops (fun g => Store.abs s g) := by
  induction ops generalizing s with
  | nil => rfl
  | cons o r ih =>
    have ho := hops o (by simp)
    simp only [Store.run, AGraph.runAll, List.foldl_cons]
    have := ih (Store.step o s).2 (Store.inv_step o s h) (fun o' ho' => hops o' (by simp [ho']))
    simp only [Store.run, AGraph.runAll] at this
    rw [this, Store.refines_stepAll o s h ho.1 ho.2]

/-- **disjoint_refines_spec.**  The one-graph-per-id backend refines the same reference model on every
    single-graph operation (its property-graph methods are the shared-store methods run on the graph stored
    under the id; `delete_graph` is its own storage method). -/
theorem disjoint_refines_spec (op : Op) (d : DStore.DStore) (h : DStore.Inv d) (hs : DStore.single op = true)
    (hk : op.keepsKeys = true) :
    outAbs (DStore.step op d).1 = (AGraph.step op AGraph.empty (DStore.abs d op.target)).1 ∧
    DStore.abs (DStore.step op d).2 op.target = (AGraph.step op AGraph.empty (DStore.abs d op.target)).2 :=
  DStore.refines_step op d h hs hk

/-- … and over histories of single-graph operations, for every graph id at once (the graph stored under
    another id is untouched: `C04.dframe`) -/
theorem disjoint_refines_history (ops : List Op) (d : DStore.DStore) (h : DStore.Inv d)
    (hops : ∀ o ∈ ops, DStore.single o = true ∧ o.keepsKeys = true) :
    (fun g => DStore.abs (DStore.run ops d) g) =
      ops.foldl (fun σ o => fun g => if g = o.target then (AGraph.step o AGraph.empty (σ o.target)).2 else σ g)
        (fun g => DStore.abs d g) := by
  induction ops generalizing d with
  | nil => rfl
  | cons o r ih =>
    have ho := hops o (by simp)
    simp only [DStore.run, List.foldl_cons]
    have := ih (DStore.step o d).2 (DStore.inv_step o d h) (fun o' ho' => hops o' (by simp [ho']))
    simp only [DStore.run] at this
    rw [this]
    congr 1
    funext g
    by_cases e : g = o.target
    · simp only [e, if_true]; exact (disjoint_refines_spec o d h ho.1 ho.2).2
    · have hall : o.isDelAll = false := by
        cases o <;> simp_all [DStore.single, AGraph.covers, Op.isDelAll]
      simp only [e, if_false, DStore.abs, DStore.frame_step o d g e hall]

/-- **backends_agree.**  If the addressed graph has the same content in both stores, one call returns the
    same result (value or error kind) on both and leaves the graph with the same content on both. -/
theorem backends_agree (op : Op) (s : Store) (d : DStore.DStore) (hs : Store.Inv s) (hd : DStore.Inv d)
    (hsingle : DStore.single op = true) (hk : op.keepsKeys = true)
    (heq : Store.abs s op.target = DStore.abs d op.target) :
    outAbs (Store.step op s).1 = outAbs (DStore.step op d).1 ∧
    Store.abs (Store.step op s).2 op.target = DStore.abs (DStore.step op d).2 op.target := by
  have hc : AGraph.covers op = true := by
    simp only [DStore.single, Bool.and_eq_true] at hsingle; exact hsingle.1
  have h1 := shared_refines_spec op s hs hc hk
  have h2 := disjoint_refines_spec op d hd hsingle hk
  have hO : ∀ O, AGraph.step op O (Store.abs s op.target) = AGraph.step op AGraph.empty (Store.abs s op.target) := by
    intro O; cases op <;> simp_all [AGraph.step, DStore.single]
  rw [hO] at h1
  rw [heq] at h1
  exact ⟨h1.1.trans h2.1.symm, h1.2.trans h2.2.symm⟩

example : AGraph.covers (.addLink "g" "a" "has" "b" none) = true ∧ DStore.single (.unsetNodeProperty "g" "a" "p") = true := by decide

end FimVerif.C05
