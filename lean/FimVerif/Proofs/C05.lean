import FimVerif.Proofs.Lemmas.StoreIdentOps
import FimVerif.Proofs.Lemmas.StoreNidOps
import FimVerif.Proofs.Lemmas.StoreMerge
import FimVerif.Proofs.Lemmas.StoreRefineAll
import FimVerif.Proofs.Lemmas.StoreMergeFrame
import FimVerif.Proofs.Lemmas.ARefAll
import FimVerif.Proofs.Lemmas.ARefLocal
import FimVerif.Proofs.Lemmas.StoreDisjointClone
import FimVerif.Proofs.Lemmas.StoreUnset
/-!
# C05 — in-memory graph backends agree with each other and with the documented semantics

Models: `Model/Store.lean` (shared store), `Model/DStore.lean` (one graph per id; every inherited
property-graph method *is* the shared-store method run on the sub-store of that id), `Model/AGraph.lean`
(per-graph reference model of the documented interface), `Model/ARef.lean` (store-level reference model:
node dictionaries and links between (GraphID, NodeID) keys; `merge_nodes`, `GraphID`/`NodeID` rewrites,
imports, clones and `delete_all_graphs` are steps of it).  Helper lemmas: `Proofs/Lemmas/Store*.lean`,
`Proofs/Lemmas/ARef*.lean`.
-/
namespace FimVerif.C05
open FimVerif FimVerif.Store FimVerif.Gen.StoreConsts

/-- the control-flow facts observed on the code by `gen/storeflow.py` are the ones the three models mirror (see
    `C04.flow_is_modelled`; restated here because both backends' agreement rests on the allocator and lookup facts) -/
theorem flow_is_modelled :
    Gen.StoreFlow.flow = Store.modelFlow ∧ Gen.StoreFlow.gidFiltered = Store.modelFiltered ∧
    Gen.StoreFlow.dgidFiltered = DStore.modelFiltered := by decide

/-! ## identity properties -/

/-- unsetting an identity property (every name in the *generated* `NO_UNSET_PROPERTIES`, and the
    label attribute) is refused with a query error and leaves the store unchanged -/
theorem identity_unset_refused (g nid k : String) (s : Store) (hk : k ∈ noUnset ∨ k = nxLabel) :
    unsetNodeProperty g nid k s = (.error .query, s) := by
  unfold unsetNodeProperty
  rcases hk with hk | hk
  · by_cases h : k = nxLabel <;> simp [h, hk]
  · simp [hk]

/-- the five names the property lists are in the generated list -/
theorem identity_names_listed :
    graphId ∈ noUnset ∧ nodeId ∈ noUnset ∧ propClass ∈ noUnset ∧ propType ∈ noUnset ∧ propName ∈ noUnset := by decide

/-- every way of writing the class through the API — single, bulk and whole-graph node updates, single
    and bulk link updates, link unset — is refused and leaves the store unchanged (a query error; the
    single-value updates answer an assertion error when the value is `None`, see `none_value_refused`) -/
theorem class_update_refused (g nid a b kind : String) (v : Val) (p : Props) (hp : AMap.has nxLabel p = true) (s : Store) :
    updateNodeProperty g nid nxLabel v s = (.error .query, s) ∧
    (updateNodesProperty g nxLabel v s).1 = .error .query ∧ (updateNodesProperty g nxLabel v s).2 = s ∧
    updateNodeProperties g nid p s = (.error .query, s) ∧
    updateLinkProperty g a b kind nxLabel v s = (.error .query, s) ∧
    unsetLinkProperty g a b kind nxLabel s = (.error .query, s) ∧
    updateLinkProperties g a b kind p s = (.error .query, s) := by
  refine ⟨by simp [updateNodeProperty], ?_, ?_, by simp [updateNodeProperties, hp], by simp [updateLinkProperty],
    by simp [unsetLinkProperty], by simp [updateLinkProperties, hp]⟩
  · unfold updateNodesProperty; split <;> simp
  · unfold updateNodesProperty; split <;> simp

/-- the class cannot be written through `step` either, whatever the value (including `None`): the call
    fails and the store is unchanged -/
theorem class_update_refused_step (g nid a b kind : String) (v : Val) (s : Store) :
    (∃ e, (Store.step (.updateNodeProperty g nid nxLabel v) s) = (.error e, s)) ∧
    (∃ e, (Store.step (.updateLinkProperty g a b kind nxLabel v) s) = (.error e, s)) ∧
    (∃ e, (Store.step (.updateNodesProperty g nxLabel v) s).1 = .error e) ∧ (Store.step (.updateNodesProperty g nxLabel v) s).2 = s := by
  refine ⟨?_, ?_, ?_, ?_⟩
  · by_cases hv : v = .none <;> simp [Store.step, assertVal, hv, updateNodeProperty]
  · by_cases hv : v = .none <;> simp [Store.step, assertVal, hv, updateLinkProperty]
  · by_cases hv : v = .none
    · simp [Store.step, assertVal, hv]
    · simp only [Store.step, assertVal, hv, if_false]
      unfold updateNodesProperty; split <;> simp
  · by_cases hv : v = .none
    · simp [Store.step, assertVal, hv]
    · simp only [Store.step, assertVal, hv, if_false]
      unfold updateNodesProperty; split <;> simp

/-- a single-value update (node, whole graph, link) handed `None` is refused (`assert prop_val is not None`)
    and leaves the store unchanged: `None` cannot be used to blank a property one at a time -/
theorem none_value_refused (g nid a b kind k : String) (s : Store) :
    Store.step (.updateNodeProperty g nid k .none) s = (.error .assertion, s) ∧
    Store.step (.updateNodesProperty g k .none) s = (.error .assertion, s) ∧
    Store.step (.updateLinkProperty g a b kind k .none) s = (.error .assertion, s) := by
  simp [Store.step, assertVal]

/-- a bulk update (`update_node_properties`, `update_link_properties`, initial properties of `add_node` /
    `add_link`) *stores* every value it is handed — `None`, `''`, `0`, `False`, lists, dicts alike: after
    `d.update(props)` every key that was present is still present and every key of `props` is present.  A
    `None` value is a stored `None`, never a removal. -/
theorem bulk_update_stores_every_value (a p : Props) (k : String) (h : AMap.has k a = true ∨ k ∈ AMap.keys p) :
    AMap.has k (AMap.update a p) = true := by
  rcases h with h | h
  · exact has_update_of_has a p k h
  · exact has_update_of_mem a p k h

example : AMap.get "Name" (AMap.update [("NodeID", Val.str "n"), ("Name", Val.str "x")] [("Site", .str "UKY"), ("Name", .none)])
    = some Val.none := by decide

/-! ## a stored value of any kind is a property that is there -/

/-- **unset_asks_presence_not_value.**  `unset_node_property` of a name outside the protected ones, on a node that is found:
    the outcome depends on whether the name is *bound* in the node's dictionary, never on the value bound to it.  Bound to
    any `Val` — `None`, `''`, `0`, `False`, `[]`, `{}` like any other — the call succeeds and removes exactly that name;
    only an unbound name raises ("Unable to unset property"), and then the store is unchanged. -/
theorem unset_asks_presence_not_value (g nid k : String) (s : Store) (i : Nat) (a : Props)
    (hk : k ≠ nxLabel) (hn : k ∉ noUnset) (hf : findNode s g nid = .ok i) (ha : nodeAttrs s i = some a) :
    (∀ v : Val, AMap.get k a = some v →
      Store.step (.unsetNodeProperty g nid k) s = (.ok .unit, updNode i (AMap.erase k) s)) ∧
    (AMap.get k a = none → Store.step (.unsetNodeProperty g nid k) s = (.error .query, s)) := by
  constructor
  · intro v hv
    simp [Store.step, unsetNodeProperty, hk, hn, withNode, hf, ha, AMap.has, hv]
  · intro hv
    simp [Store.step, unsetNodeProperty, hk, hn, withNode, hf, ha, AMap.has, hv]


example : findNode ⟨[⟨1, [("GraphID", .str "g"), ("NodeID", .str "n"), ("Class", .str "Link"), ("Site", .none)]⟩], [], 2⟩ "g" "n" = .ok 1 ∧
    AMap.get "Site" [("GraphID", Val.str "g"), ("NodeID", .str "n"), ("Class", .str "Link"), ("Site", .none)] = some Val.none ∧
    "Site" ≠ nxLabel ∧ "Site" ∉ noUnset := by
  refine ⟨rfl, rfl, by decide, by decide⟩

/-- **stored_value_is_present_until_unset.**  The two-call history behind it: a bulk update that names `k` (with whatever
    value: `update_node_properties(props={k: None})` is how a `None` gets stored, the single-value setter refuses it -
    `none_value_refused`) succeeds, and the `unset_node_property(k)` that follows succeeds too and removes `k` from the
    node the update wrote.  The update must not rewrite the node's keys (`GraphID`, `NodeID`: then the node is a
    different node for the second call). -/
theorem stored_value_is_present_until_unset (g nid k : String) (p : Props) (s : Store) (i : Nat) (a : Props)
    (hk : k ≠ nxLabel) (hn : k ∉ noUnset) (hp : AMap.has nxLabel p = false)
    (hkp : k ∈ AMap.keys p) (hgp : graphId ∉ AMap.keys p) (hnp : nodeId ∉ AMap.keys p)
    (hf : findNode s g nid = .ok i) (ha : nodeAttrs s i = some a) :
    let s1 := updNode i (fun a => AMap.update a p) s
    Store.step (.updateNodeProperties g nid p) s = (.ok .unit, s1) ∧
    Store.step (.unsetNodeProperty g nid k) s1 = (.ok .unit, updNode i (AMap.erase k) s1) := by
  intro s1
  have hf1 : findNode s1 g nid = .ok i :=
    findNode_updNode_keepsKeys s g nid i i _ (fun a => AMap.get_update_not_mem graphId a p hgp)
      (fun a => AMap.get_update_not_mem nodeId a p hnp) hf
  have ha1 : nodeAttrs s1 i = some (AMap.update a p) := by
    simp [s1, nodeAttrs_updNode_self, ha]
  have hhas : AMap.has k (AMap.update a p) = true := has_update_of_mem a p k hkp
  constructor
  · simp [Store.step, updateNodeProperties, hp, withNode, hf, s1]
  · simp [Store.step, unsetNodeProperty, hk, hn, withNode, hf1, ha1, hhas]

example : Store.step (.unsetNodeProperty "g" "n" "Site")
    (Store.step (.updateNodeProperties "g" "n" [("Site", .none)]) ⟨[⟨1, [("GraphID", .str "g"), ("NodeID", .str "n"), ("Class", .str "Link")]⟩], [], 2⟩).2
    = (.ok .unit, ⟨[⟨1, [("GraphID", .str "g"), ("NodeID", .str "n"), ("Class", .str "Link")]⟩], [], 2⟩) := by rfl


/-- **identity_props_protected.**  Whatever operation is executed, with whatever values (`Val`: strings, `None`,
    ints, bools, lists, dicts) — single, bulk and whole-graph updates, unsets, initial properties, imports,
    re-imports, clones, deletions, failing calls, and merges whose policy does not name `Class` with
    `overwrite`/`combine` — a node that is stored before and after keeps its class and still has every
    identity property (`NO_UNSET_PROPERTIES`: GraphID, NodeID, Type, Class, Name) it had before. -/
theorem identity_props_protected (op : Op) (s : Store) (h : Store.Inv s) (hc : op.keepsClass = true)
    (n : SNode) (hn : n ∈ s.nodes) (m : SNode) (hm : m ∈ (Store.step op s).2.nodes) (e : m.iid = n.iid) :
    AMap.get propClass m.attrs = AMap.get propClass n.attrs ∧
    ∀ k ∈ noUnset, AMap.has k n.attrs = true → AMap.has k m.attrs = true :=
  Store.identity_preserved op s h hc n hn m hm e

example : (Op.mergeNodes "g1" "n" "g2" (some [("Name", .combine), ("Class", .discard)])).keepsClass = true := by decide

/-- Full statement ("the class can never be changed through the API") fails for a merge whose policy
    names the class: `merge_nodes(n, other, {"Class": "overwrite"})` gives the surviving node the other
    node's class.  Known finding `C05:identity:merge_nodes:class-changed`. -/
theorem identity_merge_class_counterexample :
    ∃ (s : Store) (op : Op), Store.Inv s ∧
      ∃ n ∈ s.nodes, ∃ m ∈ (Store.step op s).2.nodes, m.iid = n.iid ∧
        AMap.get propClass m.attrs ≠ AMap.get propClass n.attrs := by
  refine ⟨⟨[⟨1, [("GraphID", .str "g1"), ("Class", .str "NetworkNode"), ("NodeID", .str "n")]⟩,
            ⟨2, [("GraphID", .str "g2"), ("Class", .str "Link"), ("NodeID", .str "n")]⟩], [], 3⟩,
          .mergeNodes "g1" "n" "g2" (some [("Class", .overwrite)]), ?_, ?_⟩
  · refine ⟨by decide, by decide, by simp⟩
  · refine ⟨⟨1, [("GraphID", .str "g1"), ("Class", .str "NetworkNode"), ("NodeID", .str "n")]⟩, by simp,
      ⟨1, [("GraphID", .str "g1"), ("Class", .str "Link"), ("NodeID", .str "n")]⟩, ?_, rfl, by decide⟩
    decide

/-! ## a node id is unique within its graph whatever the node's class -/

/-- `add_node` refuses an id that some node of the graph already carries — under *any* class (the label
    argument plays no part in the check; /repo be46229) — and leaves the store unchanged -/
theorem add_node_existing_id_refused (s : Store) (g nid label : String) (props : Option Props)
    (n : SNode) (hn : n ∈ s.nodes) (hg : inG g n = true) (hid : hasNid nid n = true) :
    addNode g nid label props s = (.error .query, s) := by
  unfold addNode
  have : addNodeGuard g nid s = true := by
    simp only [addNodeGuard, gt_iff_lt, decide_eq_true_eq]
    apply List.length_pos_of_mem (a := n)
    simp [hn, hg, hid]
  simp [this]

/-- **nid_unique.**  Every operation that writes neither `GraphID` nor `NodeID` of a stored node (and, for
    imports, brings pairwise distinct NodeIDs) keeps NodeIDs unique within every graph. -/
theorem nid_unique (op : Op) (s : Store) (h : Store.Inv s) (hk : op.keepsKeys = true) (hall : ∀ g, UniqueNid s g) :
    ∀ g, UniqueNid (Store.step op s).2 g := Store.nid_unique_step op s h hk hall

/-- … hence in every reachable state -/
theorem nid_unique_reachable (ops : List Op) (hops : ∀ o ∈ ops, o.keepsKeys = true) :
    ∀ g, UniqueNid (Store.run ops Store.init) g := by
  suffices ∀ s, Store.Inv s → (∀ g, UniqueNid s g) → ∀ g, UniqueNid (Store.run ops s) g from
    this _ Store.inv_init (fun g => by simp [UniqueNid, nodesOf, Store.init])
  induction ops with
  | nil => intro s _ h; exact h
  | cons o r ih =>
    intro s hi h
    simp only [Store.run, List.foldl_cons]
    have ho := hops o (by simp)
    exact ih (fun o' ho' => hops o' (by simp [ho'])) _ (Store.inv_step o s hi) (nid_unique o s hi ho h)

example : (Op.addNode "g" "n" "Link" (some [("Name", .str "x")])).keepsKeys = true := by decide
example : (Op.addGraph "g" ⟨[[("NodeID", .str "a")], [("NodeID", .str "b")]], []⟩).keepsKeys = true := by decide
example : (Op.mergeNodes "g" "n" "h" (some [("Name", .combine)])).keepsKeys = true := by decide

/-! ## merging a node from another graph -/

/-- **merge_keeps_edges.**  After a successful `merge_nodes` every edge of the store — in particular every
    edge of the surviving node `u` and of the absorbed node `v` — is still there with `v` replaced by `u`;
    and every edge afterwards carries, unchanged, the property dictionary of one edge from before (no
    foreign key such as networkx's `contraction`, no mixture of two dictionaries). -/
theorem merge_keeps_edges (s : Store) (g nid g2 : String)
    (pol : Option (List (String × Policy))) (hok : (mergeNodes g nid g2 pol s).1 = .ok .unit) :
    ∃ u v, findNode s g nid = .ok u ∧ findNode s g2 nid = .ok v ∧
      (∀ e ∈ s.edges, (mergeNodes g nid g2 pol s).2.edges.any (edgeMatch (rm u v e.a) (rm u v e.b)) = true) ∧
      (∀ e' ∈ (mergeNodes g nid g2 pol s).2.edges, ∃ e ∈ s.edges, e'.attrs = e.attrs ∧ e'.a = rm u v e.a ∧ e'.b = rm u v e.b) := by
  obtain ⟨u, v, mine, theirs, np, hu, hv, _, _, _, hs', _, _⟩ := mergeNodes_ok s g nid g2 pol hok
  refine ⟨u, v, hu, hv, ?_, ?_⟩
  · intro e he; rw [hs']; exact contract_keeps_edges s u v e he
  · intro e' he'; rw [hs'] at he'; exact contract_edge_attrs s u v e' he'

/-- **merge_policy.**  After a successful `merge_nodes` the surviving node has exactly the property names
    it had, and each property follows the policy: keep (`discard` or not mentioned), the other node's value
    (`overwrite`), the pair (`combine`), `None` for an unknown policy word. -/
theorem merge_policy (s : Store) (g nid g2 : String)
    (pol : Option (List (String × Policy))) (hok : (mergeNodes g nid g2 pol s).1 = .ok .unit) :
    ∃ u v mine theirs, findNode s g nid = .ok u ∧ findNode s g2 nid = .ok v ∧
      nodeAttrs s u = some mine ∧ nodeAttrs s v = some theirs ∧
      ∃ m ∈ (mergeNodes g nid g2 pol s).2.nodes, m.iid = u ∧ AMap.keys m.attrs = AMap.keys mine ∧
        ∀ k v0, AMap.get k mine = some v0 → AMap.get k m.attrs = some (policyVal pol theirs k v0) := by
  obtain ⟨u, v, mine, theirs, np, hu, hv, huv, hm, ht, hs', hkeys, hpol⟩ := mergeNodes_ok s g nid g2 pol hok
  refine ⟨u, v, mine, theirs, hu, hv, hm, ht, ⟨u, np⟩, ?_, rfl, hkeys, hpol⟩
  rw [hs']
  obtain ⟨nu, hnu, eu, _, _⟩ := findNode_ok s g nid u hu
  have hin : nu ∈ (contract u v s).nodes := by
    unfold contract
    simp only
    rw [(remapEdges_nodes u v _ _).1]
    simp [removeNode, hnu, eu, huv]
  simp only [updNode, List.mem_map]
  exact ⟨nu, hin, by simp [eu]⟩

/-- a failing `merge_nodes` (unknown node, empty other graph, a policy naming a property the other node
    lacks) leaves the store unchanged (/repo 1165ef5) -/
theorem merge_failure_atomic (s : Store) (g nid g2 : String) (pol : Option (List (String × Policy)))
    (hf : (mergeNodes g nid g2 pol s).1 ≠ .ok .unit) : (mergeNodes g nid g2 pol s).2 = s := by
  unfold mergeNodes withNode at *
  split
  · rfl
  · rw [if_neg (by assumption)] at hf
    split
    · rfl
    · rename_i u hu
      simp only [hu] at hf ⊢
      split
      · rfl
      · rename_i v hv
        simp only [hv] at hf ⊢
        split
        · rfl
        rename_i huv
        simp only [huv, if_false] at hf
        split
        · rename_i mine theirs hm ht
          simp only [hm, ht] at hf ⊢
          cases pol with
          | none => simp at hf
          | some pol =>
            simp only at hf ⊢
            split
            · rfl
            · rename_i np hnp; simp [hnp] at hf
        · rfl

/-- **merge_frame.**  `merge_nodes` touches only the two graphs it names: the content of every third graph
    is unchanged, whether the merge succeeds or fails (policy not rewriting `GraphID`/`NodeID`). -/
theorem merge_frame (s : Store) (h : Store.Inv s) (g nid g2 g' : String) (pol : Option (List (String × Policy)))
    (hk : (Op.mergeNodes g nid g2 pol).keepsKeys = true) (h1 : g' ≠ g) (h2 : g' ≠ g2) :
    Store.abs (mergeNodes g nid g2 pol s).2 g' = Store.abs s g' := by
  have := Store.frame_mergeNodes s h g nid g2 g' pol hk h1 h2
  simp only [Store.abs, this.1, this.2]

/-! ## both backends refine the reference model of the documented interface

`AGraph.covers op`: `op` is part of the reference interface (every operation of C05's alphabet except
`merge_nodes`, treated above; imports and clones are C04's).  `op.keepsKeys`: the operation writes neither
`GraphID` nor `NodeID` of a stored node (outside C05's alphabet).  `outAbs` removes the `GraphID` entry from
a returned node dictionary (the reference model has no graph id inside a graph). -/

/-- **shared_refines_spec.**  One call on the shared store, addressed to graph `op.target`, returns what the
    reference model returns on that graph's content (same value, same error kind) and leaves that graph
    with the content the reference model computes — for every state satisfying the store invariant. -/
theorem shared_refines_spec (op : Op) (s : Store) (h : Store.Inv s) (hc : AGraph.covers op = true) (hk : op.keepsKeys = true) :
    outAbs (Store.step op s).1 = (AGraph.step op (Store.abs s op.other) (Store.abs s op.target)).1 ∧
    Store.abs (Store.step op s).2 op.target = (AGraph.step op (Store.abs s op.other) (Store.abs s op.target)).2 :=
  Store.refines_step op s h hc hk

/-- lifted to all graph ids and all histories: the content of every graph after a history on the shared
    store is what the reference model computes from the initial contents (refinement on the addressed graph,
    frame on all others, induction over the history) -/
theorem shared_refines_history (ops : List Op) (s : Store) (h : Store.Inv s)
    (hops : ∀ o ∈ ops, AGraph.covers o = true ∧ o.keepsKeys = true) :
    (fun g => Store.abs (Store.run ops s) g) = AGraph.runAll ops (fun g => Store.abs s g) := by
  induction ops generalizing s with
  | nil => rfl
  | cons o r ih =>
    have ho := hops o (by simp)
    simp only [Store.run, AGraph.runAll, List.foldl_cons]
    have := ih (Store.step o s).2 (Store.inv_step o s h) (fun o' ho' => hops o' (by simp [ho']))
    simp only [Store.run, AGraph.runAll] at this
    rw [this, Store.refines_stepAll o s h ho.1 ho.2]

/-- **disjoint_refines_spec.**  The one-graph-per-id backend refines the same reference model on every
    single-graph operation (its property-graph methods are the shared-store methods run on the graph stored
    under the id; `delete_graph` is its own storage method). -/
theorem disjoint_refines_spec (op : Op) (d : DStore.DStore) (h : DStore.Inv d) (hs : DStore.single op = true)
    (hk : op.keepsKeys = true) :
    outAbs (DStore.step op d).1 = (AGraph.step op AGraph.empty (DStore.abs d op.target)).1 ∧
    DStore.abs (DStore.step op d).2 op.target = (AGraph.step op AGraph.empty (DStore.abs d op.target)).2 :=
  DStore.refines_step op d h hs hk

/-- … and over histories of single-graph operations, for every graph id at once (the graph stored under
    another id is untouched: `C04.dframe`) -/
theorem disjoint_refines_history (ops : List Op) (d : DStore.DStore) (h : DStore.Inv d)
    (hops : ∀ o ∈ ops, DStore.single o = true ∧ o.keepsKeys = true) :
    (fun g => DStore.abs (DStore.run ops d) g) =
      ops.foldl (fun σ o => fun g => if g = o.target then (AGraph.step o AGraph.empty (σ o.target)).2 else σ g)
        (fun g => DStore.abs d g) := by
  induction ops generalizing d with
  | nil => rfl
  | cons o r ih =>
    have ho := hops o (by simp)
    simp only [DStore.run, List.foldl_cons]
    have := ih (DStore.step o d).2 (DStore.inv_step o d h) (fun o' ho' => hops o' (by simp [ho']))
    simp only [DStore.run] at this
    rw [this]
    congr 1
    funext g
    by_cases e : g = o.target
    · simp only [e, if_true]; exact (disjoint_refines_spec o d h ho.1 ho.2).2
    · have hall : o.isDelAll = false := by
        cases o <;> simp_all [DStore.single, AGraph.covers, Op.isDelAll]
      simp only [e, if_false, DStore.abs, DStore.frame_step o d g e hall]

/-- **backends_agree.**  If the addressed graph has the same content in both stores, one call returns the
    same result (value or error kind) on both and leaves the graph with the same content on both. -/
theorem backends_agree (op : Op) (s : Store) (d : DStore.DStore) (hs : Store.Inv s) (hd : DStore.Inv d)
    (hsingle : DStore.single op = true) (hk : op.keepsKeys = true)
    (heq : Store.abs s op.target = DStore.abs d op.target) :
    outAbs (Store.step op s).1 = outAbs (DStore.step op d).1 ∧
    Store.abs (Store.step op s).2 op.target = DStore.abs (DStore.step op d).2 op.target := by
  have hc : AGraph.covers op = true := by
    simp only [DStore.single, Bool.and_eq_true] at hsingle; exact hsingle.1
  have h1 := shared_refines_spec op s hs hc hk
  have h2 := disjoint_refines_spec op d hd hsingle hk
  have hO : ∀ O, AGraph.step op O (Store.abs s op.target) = AGraph.step op AGraph.empty (Store.abs s op.target) := by
    intro O; cases op <;> simp_all [AGraph.step, DStore.single]
  rw [hO] at h1
  rw [heq] at h1
  exact ⟨h1.1.trans h2.1.symm, h1.2.trans h2.2.symm⟩

/-- **backends agree after any two histories.**  Whatever each backend has been through - two different histories, `GraphID`
    rewrites the one-graph-per-id store cannot follow, merges only the shared store performs - a single-graph call that
    writes no key (every read-only request in particular: `graph_exists`, listings, `node_exists`, property reads) addressed
    to a graph that both stores show with the same content returns the same result on both and leaves that graph with the
    same content on both.  No `Homed` hypothesis: the container of the disjoint store may hold nodes carrying other graph
    ids.  (What the oracle checks after the backends have parted company; class of seeded C05-r4-3.) -/
theorem backends_agree_after_any_histories (ops₁ ops₂ : List Op) (op : Op)
    (hsingle : DStore.single op = true) (hk : op.keepsKeys = true)
    (heq : Store.abs (Store.run ops₁ Store.init) op.target = DStore.abs (DStore.run ops₂ DStore.init) op.target) :
    outAbs (Store.step op (Store.run ops₁ Store.init)).1 = outAbs (DStore.step op (DStore.run ops₂ DStore.init)).1 ∧
    Store.abs (Store.step op (Store.run ops₁ Store.init)).2 op.target =
      DStore.abs (DStore.step op (DStore.run ops₂ DStore.init)).2 op.target := by
  have h₁ : ∀ (ops : List Op) (s : Store), Store.Inv s → Store.Inv (Store.run ops s) := by
    intro ops
    induction ops with
    | nil => intro s h; exact h
    | cons o r ih => intro s h; simp only [Store.run, List.foldl_cons]; exact ih _ (Store.inv_step o s h)
  have h₂ : ∀ (ops : List Op) (d : DStore.DStore), DStore.Inv d → DStore.Inv (DStore.run ops d) := by
    intro ops
    induction ops with
    | nil => intro d h; exact h
    | cons o r ih => intro d h; simp only [DStore.run, List.foldl_cons]; exact ih _ (DStore.inv_step o d h)
  exact backends_agree op _ _ (h₁ ops₁ _ Store.inv_init) (h₂ ops₂ _ DStore.inv_init) hsingle hk heq

/-- non-vacuity: a node of g1 re-homed to g2 by a whole-graph `GraphID` update on both stores (the disjoint one keeps it in
    g1's container); `graph_exists` on g1 is such a call, and both stores show g1 empty -/
example :
    DStore.single (Op.graphExists "g1") = true ∧ (Op.graphExists "g1").keepsKeys = true ∧
    Store.abs (Store.run [Op.addNode "g1" "n1" "Link" none, Op.updateNodesProperty "g1" "GraphID" (.str "g2")] Store.init) "g1" =
      DStore.abs (DStore.run [Op.addNode "g1" "n1" "Link" none, Op.updateNodesProperty "g1" "GraphID" (.str "g2")] DStore.init) "g1" ∧
    (DStore.sub (DStore.run [Op.addNode "g1" "n1" "Link" none, Op.updateNodesProperty "g1" "GraphID" (.str "g2")] DStore.init)
      "g1").nodes.length = 1 ∧
    (DStore.step (Op.graphExists "g1")
      (DStore.run [Op.addNode "g1" "n1" "Link" none, Op.updateNodesProperty "g1" "GraphID" (.str "g2")] DStore.init)).1 =
      .ok (.bool false) := ⟨by decide, by decide, by rfl, by decide, by rfl⟩

example : AGraph.covers (.addLink "g" "a" "has" "b" none) = true ∧ DStore.single (.unsetNodeProperty "g" "a" "p") = true := by decide

/-! ## the shared store refines the store-level reference model — merges and key rewrites are steps of it

`ARef` (Model/ARef.lean): the whole store as the interface shows it — node dictionaries and links between
(GraphID, NodeID) keys; no internal ids, no allocator, no relabelling.  `Store.absS` forgets the internal
ids of a store.  `RefS r r'` : same reply, and the reference state is `absS` of the resulting store. -/

/-- **store_refines_reference.**  One call on the shared store is one call of the reference model, for *every*
    operation: single, bulk and whole-graph updates **including writes of `GraphID` and `NodeID`** (re-homing,
    re-keying: what `update_node_property(GraphID/NodeID, …)` really does — the links follow the node), initial
    properties naming them, unsets, links (also a link of a node to itself), listings, imports of any graph, re-imports,
    direct imports, clones (also onto an existing id or onto itself), `delete_graph`, `delete_all_graphs`, and
    `merge_nodes` with any policy (self-links of the absorbed node, links to nodes of third graphs, policies on
    `GraphID`/`NodeID`/`Class`, a graph merged with itself).  Same reply — value or error kind — and the same nodes and
    links afterwards, whether the call succeeds or fails.  Only `merge_nodes` needs the (GraphID, NodeID) keys of the
    stored nodes to be pairwise distinct (`UniqueKeys`: otherwise "the neighbour with key k" is not one node). -/
theorem store_refines_reference (op : Op) (s : Store) (h : Store.Inv s) (hu : op.isMerge = true → UniqueKeys s) :
    (Store.step op s).1 = (ARef.step op (absS s)).1 ∧ absS (Store.step op s).2 = (ARef.step op (absS s)).2 :=
  Store.refines_store_step op s h hu

/-- `UniqueKeys` is an invariant of every history whose operations keep the keys (`Op.keepsKeys`: no `GraphID`/`NodeID`
    write, imports with pairwise distinct node ids; merges with any other policy included) -/
theorem unique_keys_reachable (ops : List Op) (hk : ∀ o ∈ ops, o.keepsKeys = true) : UniqueKeys (Store.run ops Store.init) :=
  Store.uniqueKeys_run ops _ Store.inv_init Store.uniqueKeys_init hk

/-- **store_refines_reference_history.**  After any history of key-keeping operations — merges included — the shared
    store is exactly the state the reference model reaches, and *whatever* operation comes next (a key rewrite, a merge,
    an import with repeated ids) is answered and executed as the reference model does. -/
theorem store_refines_reference_history (ops : List Op) (hk : ∀ o ∈ ops, o.keepsKeys = true) :
    absS (Store.run ops Store.init) = ARef.run ops ARef.init ∧
    ∀ op, (Store.step op (Store.run ops Store.init)).1 = (ARef.step op (ARef.run ops ARef.init)).1 ∧
          absS (Store.step op (Store.run ops Store.init)).2 = (ARef.step op (ARef.run ops ARef.init)).2 := by
  have h1 := Store.refines_store_run ops Store.init Store.inv_init Store.uniqueKeys_init hk
  rw [Store.absS_init] at h1
  refine ⟨h1, fun op => ?_⟩
  rw [← h1]
  exact store_refines_reference op _ (C05_inv_run ops) (fun _ => unique_keys_reachable ops hk)
where
  C05_inv_run (ops : List Op) : Store.Inv (Store.run ops Store.init) := by
    suffices ∀ s, Store.Inv s → Store.Inv (Store.run ops s) from this _ Store.inv_init
    induction ops with
    | nil => intro s h; exact h
    | cons o r ih => intro s h; simp only [Store.run, List.foldl_cons]; exact ih _ (Store.inv_step o s h)

-- non-vacuity: a history with a merge whose policy combines a property, and the hypothesis of the step theorem
example : ∀ o ∈ [Op.addNode "g1" "n" "Link" (some [("Name", .str "x")]), Op.addNode "g2" "n" "Link" none,
    Op.addLink "g2" "n" "has" "n" none, Op.mergeNodes "g1" "n" "g2" (some [("Name", .combine)])], o.keepsKeys = true := by decide
example : UniqueKeys ⟨[⟨1, [("GraphID", .str "g1"), ("NodeID", .str "n")]⟩, ⟨2, [("GraphID", .str "g2"), ("NodeID", .str "n")]⟩], [], 3⟩ := by
  unfold UniqueKeys; decide

/-- the per-graph content read off the reference state is the per-graph content of the store: the two reference
    models speak of the same thing -/
theorem view_absS (s : Store) (h : Store.Inv s) (g : String) : ARef.view (absS s) g = Store.abs s g := by
  unfold ARef.view Store.abs Store.absView
  rw [Store.nodesOf_absS, Store.absS_edges_filter_kIn s h g]
  simp only [List.map_map]
  congr 1
  apply List.map_congr_left
  intro e he
  simp only [Function.comp]
  simp only [edgesOf, List.mem_filter, Bool.and_eq_true] at he
  have hnd : ((nodesOf s g).map (·.iid)).Nodup := by
    unfold nodesOf
    exact List.Nodup.sublist (List.Sublist.map _ List.filter_sublist) h.1
  have key : ∀ i, idIn (nodesOf s g) i = true → (keyOf s.nodes i).2 = nidOf (nodesOf s g) i := by
    intro i hi
    obtain ⟨m, hm, em⟩ := (Store.idIn_iff _ _).1 hi
    have hms : m ∈ s.nodes := (List.mem_filter.1 hm).1
    rw [← em, Store.keyOf_mem s h m hms]
    unfold nidOf
    rw [Store.find_iid_of_nodup _ hnd m hm]
    rfl
  rw [key _ he.2.1, key _ he.2.2]

/-- in particular, after a key-keeping history with merges, every graph's observable content is what the reference
    model says -/
theorem content_after_history (ops : List Op) (hk : ∀ o ∈ ops, o.keepsKeys = true) (g : String) :
    Store.abs (Store.run ops Store.init) g = ARef.view (ARef.run ops ARef.init) g := by
  rw [← (store_refines_reference_history ops hk).1]
  exact (view_absS _ (store_refines_reference_history.C05_inv_run ops) g).symm

/-! ## what the API lets a caller do to the keys (known findings) -/

/-- Full statement ("a node id is unique within its graph", for every operation) fails: `NodeID` is an ordinary
    writable property.  Known findings `C05:nid_unique:<op>:NodeID-rewritten` / `…:GraphID-rewritten`. -/
theorem nid_unique_rewrite_counterexample :
    ∃ (ops : List Op) (op : Op) (g : String), (∀ o ∈ ops, o.keepsKeys = true) ∧
      (∀ g', UniqueNid (Store.run ops Store.init) g') ∧ ¬ UniqueNid (Store.step op (Store.run ops Store.init)).2 g := by
  refine ⟨[.addNode "g" "a" "Link" none, .addNode "g" "b" "Link" none], .updateNodeProperty "g" "a" "NodeID" (.str "b"), "g",
    by decide, nid_unique_reachable _ (by decide), ?_⟩
  have : (nodesOf (Store.step (.updateNodeProperty "g" "a" "NodeID" (.str "b"))
      (Store.run [.addNode "g" "a" "Link" none, .addNode "g" "b" "Link" none] Store.init)).2 "g").map nidA =
      [some (.str "b"), some (.str "b")] := by rfl
  unfold UniqueNid
  rw [this]
  simp

/-- the strongest guarded form of "a node id is unique within its graph whatever the node's class" that the unchanged
    code satisfies: every operation that writes neither `GraphID` nor `NodeID` (decidable `Op.keepsKeys`) keeps NodeIDs
    unique within every graph (= `nid_unique`; the unguarded statement fails: `nid_unique_rewrite_counterexample`) -/
theorem nid_unique_partial (op : Op) (s : Store) (h : Store.Inv s) (hk : op.keepsKeys = true) (hall : ∀ g, UniqueNid s g) :
    ∀ g, UniqueNid (Store.step op s).2 g := nid_unique op s h hk hall

/-- Full statement ("the two backends return the same results for every operation sequence") fails once a node is
    re-homed by writing `GraphID`: the shared store shows it in the named graph, the one-graph-per-id store keeps it in
    its old container where no lookup finds it.  Known findings `C05:backends:<op>:GraphID-rewritten`. -/
theorem backends_diverge_on_rehoming_counterexample :
    ∃ (ops : List Op) (q : Op),
      (Store.step q (Store.run ops Store.init)).1 = .ok (.vals [some (.str "a")]) ∧
      (DStore.step q (DStore.run ops DStore.init)).1 = .error .query := by
  refine ⟨[.addNode "g1" "a" "Link" none, .updateNodeProperty "g1" "a" "GraphID" (.str "g2")], .listAllNodeIds "g2", ?_, ?_⟩
  · rfl
  · rfl

/-- the strongest guarded form of backend agreement: on every single-graph operation that writes neither `GraphID` nor
    `NodeID` (= `backends_agree`; with a `GraphID` write the backends part: `backends_diverge_on_rehoming_counterexample`) -/
theorem backends_agree_partial (op : Op) (s : Store) (d : DStore.DStore) (hs : Store.Inv s) (hd : DStore.Inv d)
    (hsingle : DStore.single op = true) (hk : op.keepsKeys = true)
    (heq : Store.abs s op.target = DStore.abs d op.target) :
    outAbs (Store.step op s).1 = outAbs (DStore.step op d).1 ∧
    Store.abs (Store.step op s).2 op.target = DStore.abs (DStore.step op d).2 op.target :=
  backends_agree op s d hs hd hsingle hk heq

/-- on the one-graph-per-id store every container behaves as a reference store of its own, for every inherited
    property-graph method and every value — key rewrites included (a re-homed node stays in its container): no
    `keepsKeys` hypothesis -/
theorem disjoint_container_refines_reference (op : Op) (d : DStore.DStore) (h : DStore.Inv d)
    (hl : DStore.step op d = DStore.lift op.target (Store.step op) d) (hm : op.isMerge = false) :
    (DStore.step op d).1 = (ARef.step op (absS (DStore.sub d op.target))).1 ∧
    absS (DStore.sub (DStore.step op d).2 op.target) = (ARef.step op (absS (DStore.sub d op.target))).2 := by
  have := store_refines_reference op (DStore.sub d op.target) (h _) (by simp [hm])
  rw [hl]
  simp only [DStore.lift, DStore.sub_put_eq]
  exact this

/-- the reference model is local: the reply and the effect on graph `g` of a single-graph operation that writes no
    `GraphID` depend only on the part of the store that belongs to `g` (its nodes and the links among them) -/
theorem reference_is_local (op : Op) (R : ARef) (hs : DStore.single op = true) (hk : op.keepsGraphId = true) :
    (ARef.step op R).1 = (ARef.step op (R.restrict op.target)).1 ∧
    (ARef.step op R).2.restrict op.target = (ARef.step op (R.restrict op.target)).2 :=
  ARef.step_local op R hs hk

/-- **backends_agree_rekey.**  Agreement of the two backends *without* the `NodeID` half of `keepsKeys`: on every inherited
    single-graph method that writes no `GraphID` — `NodeID` rewrites by single, bulk, whole-graph updates and initial
    properties included — both stores give the same reply and leave graph `g` the same, whenever graph `g` (its node
    dictionaries and the links among them, by key) is the same in both before the call.  Proof: both refine the store-level
    reference (`store_refines_reference`, `disjoint_container_refines_reference`), which is local (`reference_is_local`). -/
theorem backends_agree_rekey (op : Op) (s : Store) (d : DStore.DStore) (hs : Store.Inv s) (hd : DStore.Inv d)
    (hsingle : DStore.single op = true) (hk : op.keepsGraphId = true)
    (hl : DStore.step op d = DStore.lift op.target (Store.step op) d)
    (heq : (absS s).restrict op.target = (absS (DStore.sub d op.target)).restrict op.target) :
    (Store.step op s).1 = (DStore.step op d).1 ∧
    (absS (Store.step op s).2).restrict op.target = (absS (DStore.sub (DStore.step op d).2 op.target)).restrict op.target := by
  have hm : op.isMerge = false := by
    cases op <;> simp_all [DStore.single, AGraph.covers, Op.isMerge]
  have a := store_refines_reference op s hs (by simp [hm])
  have b := disjoint_container_refines_reference op d hd hl hm
  have la := reference_is_local op (absS s) hsingle hk
  have lb := reference_is_local op (absS (DStore.sub d op.target)) hsingle hk
  refine ⟨?_, ?_⟩
  · rw [a.1, b.1, la.1, lb.1, heq]
  · rw [a.2, b.2, la.2, lb.2, heq]

example : DStore.single (.updateNodeProperty "g" "n" "NodeID" (.str "m")) = true ∧
    (Op.updateNodeProperty "g" "n" "NodeID" (.str "m")).keepsGraphId = true ∧
    ∀ d, DStore.step (.updateNodeProperty "g" "n" "NodeID" (.str "m")) d =
      DStore.lift "g" (Store.step (.updateNodeProperty "g" "n" "NodeID" (.str "m"))) d :=
  ⟨by decide, by decide, fun _ => rfl⟩

example (d : DStore.DStore) : DStore.step (.updateNodeProperty "g" "n" "GraphID" (.str "h")) d =
    DStore.lift "g" (Store.step (.updateNodeProperty "g" "n" "GraphID" (.str "h"))) d := rfl

/-- `find_matching_nodes` on the one-graph-per-id store answers what the reference interface says, given the content of
    both graphs (`Homed d other`: every node in the other container carries that graph's id — true in every state reached
    without `GraphID` writes, `C04.dhomed_reachable`), and changes nothing -/
theorem disjoint_find_matching_refines (d : DStore.DStore) (g other : String) (hh : DStore.Homed d other) :
    (DStore.step (.findMatchingNodes g other) d).1 =
      (AGraph.step (.findMatchingNodes g other) (DStore.abs d other) (DStore.abs d g)).1 ∧
    (DStore.step (.findMatchingNodes g other) d).2 = d := by
  simp only [DStore.step, DStore.findMatchingNodes, AGraph.step, AGraph.findMatchingNodes, DStore.abs]
  have h1 := Store.listAll_fst (DStore.sub d g) g
  have e2 : (Store.abs (DStore.sub d other) other).nodes.map (AMap.get nodeId) =
      (DStore.sub d other).nodes.map (fun n => AMap.get nodeId n.attrs) := by
    rw [Store.abs_nodes, DStore.nodesOf_homed _ other hh]
    simp [List.map_map, Function.comp, Store.eraseG, AMap.get_erase_ne _ _ _ Store.nodeId_ne_graphId]
  rw [e2]
  generalize hr : listAllNodeIds g (DStore.sub d g) = r at h1
  generalize hr' : AGraph.listAllNodeIds (Store.abs (DStore.sub d g) g) = r' at h1
  obtain ⟨r1, r2⟩ := r
  obtain ⟨r1', r2'⟩ := r'
  simp only at h1
  subst h1
  cases r1' with
  | error e => exact ⟨rfl, rfl⟩
  | ok o =>
    cases o with
    | vals mine =>
      simp only
      cases fmnErr mine (List.map (fun n => AMap.get nodeId n.attrs) (DStore.sub d other).nodes) with
      | some e => exact ⟨rfl, rfl⟩
      | none => exact ⟨rfl, rfl⟩
    | unit => exact ⟨rfl, rfl⟩
    | bool b => exact ⟨rfl, rfl⟩
    | nodeProps l p => exact ⟨rfl, rfl⟩
    | linkProps l p => exact ⟨rfl, rfl⟩
    | int n => exact ⟨rfl, rfl⟩

/-- … hence the two backends agree on `find_matching_nodes` whenever both graphs have the same content in both stores -/
theorem backends_agree_find_matching (s : Store) (d : DStore.DStore) (g other : String) (hh : DStore.Homed d other)
    (h1 : Store.abs s g = DStore.abs d g) (h2 : Store.abs s other = DStore.abs d other) :
    outAbs (Store.step (.findMatchingNodes g other) s).1 = (DStore.step (.findMatchingNodes g other) d).1 := by
  have a := (Store.ref_findMatchingNodes s g other).1
  have b := (disjoint_find_matching_refines d g other hh).1
  simp only [AGraph.step] at b
  rw [b, ← h1, ← h2, ← a]
  rfl

end FimVerif.C05
