import FimVerif.Proofs.Lemmas.C20Lock
import FimVerif.Proofs.Lemmas.C20Sched
import FimVerif.Proofs.Lemmas.C20Fine
import FimVerif.Generated.LockCfg
import FimVerif.Model.ImportEntry
/-!
# C20 — store lock discipline and identifier allocation under concurrent use

Full statement (properties.jsonl): every store operation leaves the lock released exactly once on every
path; under any interleaving of threads importing graphs / creating nodes no node is lost, no internal id is
handed out twice, each graph ends up with exactly the nodes added to it.  Both halves are proved at full
strength on the models (Part A: all paths of every method skeleton regenerated from the source; Part B: all
thread counts, all accepted programs, all schedules, with thread switches between source lines and — through the expansion of
every micro-instruction into atoms, `Lemmas/C20Fine.lean` — between single dictionary / attribute operations); what stays
outside is named in the property's `TRUSTED_BASE` (the GIL making one atom atomic, the no-raise whitelist, symbol
instantiation for the discipline monitor).

Part A (this section): every path of every store method — any branch, any number of loop
iterations, an exception at any statement not on the translator's short no-raise whitelist —
leaves the lock released, having released it exactly once and never while it was not held.
The method skeletons in `Generated/LockCfg.lean` are regenerated from the Python source on every
run; the obligations over them are closed by `decide` on the verified interpreter.
-/
namespace FimVerif.C20
open FimVerif.Lock FimVerif.Gen FimVerif.Sched

/-! ### the lock monitor with a saturating release counter abstracts the exact one -/

private def capSt : LockSt → LockSt
  | none => none
  | some (h, n) => some (h, min n 2)

private theorem lockStep_cap (q : LockSt) (m : Micro) : lockStep 2 (capSt q) m = capSt (lockStepC q m) := by
  cases q with
  | none => cases m <;> rfl
  | some x =>
    obtain ⟨h, n⟩ := x
    cases m <;> cases h <;> simp [capSt, lockStep, lockStepC] <;> omega

private theorem run_cap (tr : List Micro) : ∀ q : LockSt,
    runQ (lockStep 2) (capSt q) tr = capSt (runQ lockStepC q tr) := by
  induction tr with
  | nil => intro q; rfl
  | cons m tr ih => intro q; simp only [runQ_cons]; rw [lockStep_cap, ih]

/-- **balanced_sound.** If the interpreter accepts a method, then on every path of the method the
lock ends released and was released exactly once, with no lock error on the way (`lockRun` is `none`
as soon as the lock is released while free or acquired by the thread that already holds it). -/
theorem balanced_sound (p : Stmt) (h : balanced p = true) {tr : List Micro} {o : Out} (he : Exec p tr o) :
    lockRun tr = some (false, 1) := by
  have := allExits_sound (lockStep 2) _ (some (false, 0)) p h he
  have hc := run_cap tr (some (false, 0))
  simp only [capSt] at hc
  rw [show min 0 2 = 0 from rfl] at hc
  rw [hc] at this
  unfold lockRun
  generalize runQ lockStepC (some (false, 0)) tr = r at this
  cases r with
  | none => simp at this
  | some x =>
    obtain ⟨hh, n⟩ := x
    simp only [beq_iff_eq, Option.some.injEq, Prod.mk.injEq] at this
    obtain ⟨h1, h2⟩ := this
    subst h1
    have : n = 1 := by omega
    subst this; rfl

/-! ### what `lockRun tr = some (false, 1)` says about the trace itself -/

private theorem run_counts (tr : List Micro) : ∀ (h : Bool) (n : Nat) (h' : Bool) (n' : Nat),
    runQ lockStepC (some (h, n)) tr = some (h', n') →
    n' = n + tr.count .rel ∧ (if h then 1 else 0) + tr.count .acq = tr.count .rel + (if h' then 1 else 0) := by
  induction tr with
  | nil => intro h n h' n' e; simp only [runQ_nil, Option.some.injEq, Prod.mk.injEq] at e; obtain ⟨rfl, rfl⟩ := e; simp
  | cons m tr ih =>
    intro h n h' n' e
    rw [runQ_cons] at e
    have none_run : ∀ t : List Micro, runQ lockStepC none t = none := by
      intro t; induction t with
      | nil => rfl
      | cons a t iht => rw [runQ_cons]; cases a <;> exact iht
    cases m <;> cases h <;> simp only [lockStepC, if_true, if_false, Bool.false_eq_true] at e <;>
      first
      | (rw [none_run] at e; cases e)
      | (have := ih _ _ _ _ e; simp at this ⊢; omega)

/-- released exactly once, acquired exactly once -/
theorem released_exactly_once {tr : List Micro} (h : lockRun tr = some (false, 1)) :
    tr.count .rel = 1 ∧ tr.count .acq = 1 := by
  have := run_counts tr false 0 false 1 h
  simp at this; omega

/-- never released while not held, never acquired while held: every prefix of the trace is
lock-error free, and at every release the lock was held -/
theorem never_released_unheld {tr : List Micro} (h : lockRun tr = some (false, 1))
    (pre post : List Micro) (e : tr = pre ++ .rel :: post) : ∃ n, lockRun pre = some (true, n) := by
  subst e
  unfold lockRun at h ⊢
  rw [runQ_append, runQ_cons] at h
  have none_run : ∀ t : List Micro, runQ lockStepC none t = none := by
    intro t; induction t with
    | nil => rfl
    | cons a t iht => rw [runQ_cons]; cases a <;> exact iht
  generalize runQ lockStepC (some (false, 0)) pre = r at h ⊢
  cases r with
  | none => simp [lockStepC, none_run] at h
  | some x =>
    obtain ⟨hh, n⟩ := x
    cases hh
    · simp [lockStepC, none_run] at h
    · exact ⟨n, rfl⟩

/-! ### the generated obligations -/

/-- every public store method that takes the lock is balanced -/
theorem methods_balanced : (LockCfg.locking.all fun m => balanced m.2) = true := by decide

/-- methods and helpers that do not mention the lock leave it alone (held or not) -/
theorem others_lock_neutral : ((LockCfg.lockfree ++ LockCfg.helpers).all fun m => lockNeutral m.2) = true := by decide

/-- **per-method statement**: for every locking method of either store and every path through it,
the lock is released exactly once, never while free, and ends released. -/
theorem store_methods_release_exactly_once :
    ∀ m ∈ LockCfg.locking, ∀ tr o, Exec m.2 tr o →
      lockRun tr = some (false, 1) ∧ tr.count .rel = 1 ∧ tr.count .acq = 1 := by
  intro m hm tr o he
  have hb : balanced m.2 = true := by
    have := methods_balanced
    simp only [List.all_eq_true] at this
    exact this m hm
  have h1 := balanced_sound m.2 hb he
  exact ⟨h1, released_exactly_once h1⟩

/-- **the same for a concrete call**: a call on graph `g` importing `k` nodes runs the skeleton with its symbolic counters,
graph and sizes replaced (`instStmt`, what the correspondence replays); the lock monitor does not see the parameters, so every
path of every instantiated locking method releases the lock exactly once as well -/
theorem store_methods_release_exactly_once_inst :
    ∀ m ∈ LockCfg.locking, ∀ g k tr o, Exec (instStmt g k m.2) tr o →
      lockRun tr = some (false, 1) ∧ tr.count .rel = 1 ∧ tr.count .acq = 1 := by
  intro m hm g k tr o he
  have hb : balanced (instStmt g k m.2) = true := by
    rw [balanced_inst]
    have := methods_balanced
    simp only [List.all_eq_true] at this
    exact this m hm
  have h1 := balanced_sound _ hb he
  exact ⟨h1, released_exactly_once h1⟩

example : Exec (instStmt 3 2 LockCfg.shared_del_all_graphs) [.acq, .delAll, .rel] .norm :=
  .seqNorm (.primOk _ _) (.seqNorm (.primOk _ _) (.primOk _ _))

/-- non-vacuity: the first generated method has a path (the one where nothing raises is among them),
and a skeleton with a raising statement between acquire and release without `finally` is rejected,
as is the double release the disjoint `add_graph` used to have. -/
example : balanced (.seq .acquire (.seq (.prim .rdg true) .release)) = false := by decide
example : balanced (.seq .acquire (.seq (.prim .rdg false) .release)) = true := by decide
example : balanced (.seq .acquire (.tryFinally (.ite (.seq .release .ret) .skip) .release)) = false := by decide
example : Exec (.seq .acquire (.tryFinally (.ite (.seq .release .ret) .skip) .release)) [.acq, .rel, .rel] .ret :=
  .seqNorm (.primOk _ _) (.finNorm (.iteL (.seqNorm (.primOk _ _) .ret)) (.primOk _ _))
example : lockRun [.acq, .rel, .rel] = none := by decide

/-! ## Part B — allocation discipline of every method, and all interleavings -/

/-- if the interpreter accepts a method for the discipline monitor, every path of it is an accepted
program fragment: shared state is written only with the lock held, using the allocation idioms -/
theorem disciplined_sound (p : Stmt) (h : disciplined p = true) {tr : List Micro} {o : Out} (he : Exec p tr o) :
    accepts tr = true := by
  have := allExits_sound discStep _ .out p h he
  simpa [accepts] using this

theorem accepts_append {a b : List Micro} (ha : accepts a = true) (hb : accepts b = true) : accepts (a ++ b) = true := by
  simp only [accepts, beq_iff_eq] at *
  rw [runQ_append, ha, hb]

theorem methods_disciplined : ((LockCfg.locking ++ LockCfg.lockfree ++ LockCfg.shellCtor).all fun m => disciplined m.2) = true := by decide

theorem helpers_disciplined : (LockCfg.helpers.all fun m => disciplinedHelper m.2) = true := by decide

theorem store_method_paths_accepted :
    ∀ m ∈ LockCfg.locking ++ LockCfg.lockfree ++ LockCfg.shellCtor, ∀ tr o, Exec m.2 tr o → accepts tr = true := by
  intro m hm tr o he
  have := methods_disciplined
  simp only [List.all_eq_true] at this
  exact disciplined_sound m.2 (this m hm) he

/-- a thread that only constructs importers / graph objects (the shells' singleton creation guard) and calls
public store methods: its program is a concatenation of paths of the generated skeletons -/
inductive StoreProg : List Micro → Prop where
  | done : StoreProg []
  | call {m tr o p} : m ∈ LockCfg.locking ++ LockCfg.lockfree ++ LockCfg.shellCtor → Exec m.2 tr o → StoreProg p → StoreProg (tr ++ p)

theorem storeProg_accepts {p : List Micro} (h : StoreProg p) : accepts p = true := by
  induction h with
  | done => rfl
  | call hm he _ ih => exact accepts_append (store_method_paths_accepted _ hm _ _ he) ih

section Schedules
variable (progs : List (List Micro)) (hacc : ∀ p ∈ progs, accepts p = true) (sched : List Nat)
include hacc

/-- **mutual exclusion**: under every schedule, at most one thread is inside a locked region, and it is the
thread recorded as the holder of the lock -/
theorem mutual_exclusion (t u : Nat)
    (ht : inside ((run sched (init progs)).thr t).prog = true) (hu : inside ((run sched (init progs)).thr u).prog = true) :
    t = u ∧ (run sched (init progs)).lock = some t := by
  obtain ⟨qs, h⟩ := reachable_inv hacc sched
  have h1 := (h.holder t).mp ((inside_iff _ _ (h.acc t)).mp ht)
  have h2 := (h.holder u).mp ((inside_iff _ _ (h.acc u)).mp hu)
  rw [h1] at h2
  exact ⟨Option.some.inj h2, h1⟩

/-- **unique_ids**: for every number of threads, all programs accepted by the discipline monitor and every
schedule, no two live nodes share an internal identifier (per id space) — at every moment, not only at the end -/
theorem unique_ids : ((run sched (init progs)).sh.nodes.map Node.key).Nodup := by
  obtain ⟨qs, h⟩ := reachable_inv hacc sched
  exact h.nodup

/-- **no_node_lost**: the dictionary the real store keeps (`dictView`: a later insertion under the same key
replaces the earlier node) contains every node that was inserted and not deleted -/
theorem no_node_lost : dictView (run sched (init progs)).sh.nodes = (run sched (init progs)).sh.nodes := by
  obtain ⟨qs, h⟩ := reachable_inv hacc sched
  exact dictView_eq_of_nodup _ h.nodup

/-- **store_never_replaced**: the store object and its lock object are never swapped for fresh ones — neither by a shell's
creation guard (`ctor`) nor by a method re-running `__init__` / assigning `self.lock` (`reinit`); the shared state of the step
relation keeps its identity (`gen`) under every schedule -/
theorem store_never_replaced : (run sched (init progs)).sh.gen = 0 := by
  have := (Inv.init hacc).run_gen sched
  simpa [Sched.init, initShared] using this

theorem no_release_error : (run sched (init progs)).relErr = false := by
  obtain ⟨qs, h⟩ := reachable_inv hacc sched
  exact h.noErr

theorem lock_free_at_end (hf : finished (run sched (init progs))) : (run sched (init progs)).lock = none := by
  obtain ⟨qs, h⟩ := reachable_inv hacc sched
  cases hl : (run sched (init progs)).lock with
  | none => rfl
  | some t =>
    have h1 := (h.holder t).mpr hl
    have h2 := h.acc t
    rw [hf t] at h2
    exact absurd h2 h1

/-- **no_deadlock**: as long as some thread has work left, some thread can take a step (a lock that is held
is always released by its holder) -/
theorem no_deadlock (hnf : ¬ finished (run sched (init progs))) : ∃ t, (step t (run sched (init progs))).isSome = true := by
  obtain ⟨qs, h⟩ := reachable_inv hacc sched
  generalize run sched (init progs) = s at *
  cases hl : s.lock with
  | none =>
    have : ∃ t, (s.thr t).prog ≠ [] := Classical.not_forall.mp hnf
    obtain ⟨t, ht⟩ := this
    refine ⟨t, ?_⟩
    unfold Sched.step
    split
    · rename_i e; exact absurd e ht
    · rename_i m rest e
      rw [hl]; by_cases h1 : m = .acq <;> by_cases h2 : m = .rel <;> simp [h1, h2]
  | some u =>
    have hq := (h.holder u).mpr hl
    have hacc' := h.acc u
    refine ⟨u, ?_⟩
    unfold Sched.step
    split
    · rename_i e; rw [e] at hacc'; exact absurd hacc' hq
    · rename_i m rest e
      rw [e, runQ_cons] at hacc'
      have hm : m ≠ .acq := fun e' => by subst e'; exact acc_ne_bad hacc' (in_acq hq)
      rw [hl]; by_cases h2 : m = .rel <;> simp [hm, h2]

/-- **each_graph_exact**: when all threads have finished and no program deletes, every graph owns in the store's
dictionary exactly as many nodes as were inserted into it by all threads together -/
theorem each_graph_exact (hnd : ∀ p ∈ progs, ∀ m ∈ p, isDelete m = false)
    (hf : finished (run sched (init progs))) (g : Nat) :
    ((dictView (run sched (init progs)).sh.nodes).filter fun n => n.owner == g).length = (progs.map (addsOf g)).sum := by
  rw [no_node_lost progs hacc sched]
  have h0 : Acct g progs.length (total g (init progs).thr progs.length) (init progs) := by
    refine ⟨by simp [Sched.init, initShared, cnt], ?_, ?_⟩
    · intro t ht
      simp only [Sched.init, List.getD_eq_getElem?_getD]
      rw [List.getElem?_eq_none ht]; rfl
    · intro t m hm
      simp only [Sched.init] at hm
      by_cases ht : t < progs.length
      · have : progs.getD t [] = progs[t] := by simp [List.getD, ht]
        rw [this] at hm
        exact hnd _ (List.getElem_mem ht) m hm
      · simp only [List.getD_eq_getElem?_getD] at hm
        rw [List.getElem?_eq_none (by omega)] at hm; cases hm
  have h1 := (h0.run sched).sum
  rw [total_finished hf] at h1
  have h2 : total g (init progs).thr progs.length = (progs.map (addsOf g)).sum := by
    unfold total
    congr 1
    apply List.ext_getElem
    · simp
    · intro i h1 h2
      have hi : i < progs.length := by simpa using h2
      simp [Sched.init, List.getD, List.getElem?_eq_getElem hi]
  rw [← h2, ← h1]; rfl

end Schedules

/-- **the tie between the two models**: threads that only call public methods of the stores (any paths through
the generated skeletons, any number of threads, any schedule) never duplicate an identifier, never lose a node,
never hit a lock error, and never run two locked regions at once -/
theorem store_threads_safe (progs : List (List Micro)) (h : ∀ p ∈ progs, StoreProg p) (sched : List Nat) :
    ((run sched (init progs)).sh.nodes.map Node.key).Nodup ∧
    dictView (run sched (init progs)).sh.nodes = (run sched (init progs)).sh.nodes ∧
    (run sched (init progs)).relErr = false ∧
    (run sched (init progs)).sh.gen = 0 ∧
    (finished (run sched (init progs)) → (run sched (init progs)).lock = none) :=
  have hacc : ∀ p ∈ progs, accepts p = true := fun p hp => storeProg_accepts (h p hp)
  ⟨unique_ids progs hacc sched, no_node_lost progs hacc sched, no_release_error progs hacc sched,
   store_never_replaced progs hacc sched, lock_free_at_end progs hacc sched⟩

/-! ### below the source line: atoms -/

/-- **atoms_accepted**: replacing every micro-instruction of an accepted program by the atoms it consists of (`FineM`: a counter
increment is a load and a store, an insertion of `k` nodes is `k` dictionary insertions, a deletion is one dictionary deletion
per node) gives a program the discipline monitor accepts too — so every theorem of this section holds with a thread switch
possible between any two atoms, not only between source lines -/
theorem atoms_accepted {p p' : List Micro} (hf : Fine p p') (h : accepts p = true) : accepts p' = true :=
  fine_accepts hf h

/-- **store_threads_safe_atomwise**: any number of threads, each running any sequence of paths of the generated skeletons expanded
into atoms in any way, under any schedule of the atoms: no identifier twice, no node lost, no lock error, one store and one
lock object, at most one thread inside a locked region, the lock free when all have finished -/
theorem store_threads_safe_atomwise (progs : List (List Micro)) (h : ∀ p' ∈ progs, ∃ p, StoreProg p ∧ Fine p p') (sched : List Nat) :
    ((run sched (init progs)).sh.nodes.map Node.key).Nodup ∧
    dictView (run sched (init progs)).sh.nodes = (run sched (init progs)).sh.nodes ∧
    (run sched (init progs)).relErr = false ∧
    (run sched (init progs)).sh.gen = 0 ∧
    (∀ t u, inside ((run sched (init progs)).thr t).prog = true → inside ((run sched (init progs)).thr u).prog = true → t = u) ∧
    (finished (run sched (init progs)) → (run sched (init progs)).lock = none) :=
  have hacc : ∀ p ∈ progs, accepts p = true := fun p' hp => by
    obtain ⟨p, hp1, hp2⟩ := h p' hp
    exact fine_accepts hp2 (storeProg_accepts hp1)
  ⟨unique_ids progs hacc sched, no_node_lost progs hacc sched, no_release_error progs hacc sched,
   store_never_replaced progs hacc sched, fun t u ht hu => (mutual_exclusion progs hacc sched t u ht hu).1,
   lock_free_at_end progs hacc sched⟩

/-- non-vacuity: the import path of the shared store, expanded: the increment is split, the two nodes are inserted one by one -/
example : Fine [.acq, .rdg, .read 0, .bump 0 2, .add 0 1 2, .rdg, .rel]
    [.acq, .rdg, .read 0, .ld 0, .st 0 2, .ins 0 1 0, .ins 0 1 1, .rdg, .rel] :=
  .cons (.same _) (.cons (.same _) (.cons (.same _) (.cons (.bump 0 2) (.cons (.add 0 1 2 (by decide)) (.cons (.same _) (.cons (.same _) .nil))))))
example : accepts [.acq, .rdg, .read 0, .ld 0, .st 0 2, .ins 0 1 0, .ins 0 1 1, .rdg, .rel] = true := by decide

/-- what the atoms show that the line-level model cannot: an increment that is not protected by the lock loses an update even
though every single step is atomic (thread 0 loads, thread 1 loads, both store the same value) -/
theorem split_increment_counterexample :
    let progs : List (List Micro) := [[.ld 0, .st 0 1], [.ld 0, .st 0 1]]
    (run [0, 1, 0, 1] (init progs)).sh.ctr 0 = 2 ∧ (run [0, 0, 1, 1] (init progs)).sh.ctr 0 = 3 ∧ (progs.all accepts) = false := by
  decide

/-! ### deletions concurrent with imports -/

/-- **each_graph_exact_with_deletes**: for every number of threads, all accepted programs (imports, node creation, `del_graph`,
`del_all_graphs`, rebuilds, in any mix) and every schedule, at every moment: the store's dictionary holds, for every id space
`c` and graph `g`, exactly as many nodes as the executed instructions inserted for `(c, g)` since the last executed deletion
that covered them (`ledger`, computed from the executed instructions alone) — no insertion was swallowed by another, no deleted
node survived, no node of another graph was taken along -/
theorem each_graph_exact_with_deletes (progs : List (List Micro)) (hacc : ∀ p ∈ progs, accepts p = true)
    (hrm : ∀ p ∈ progs, ∀ m ∈ p, noRm m = true) (sched : List Nat) (c g : Nat) :
    cntCG c g (dictView (run sched (init progs)).sh.nodes) = ledger c g (trace sched (init progs)) := by
  rw [no_node_lost progs hacc sched]
  have := run_ledger c g sched (init progs) (by
    intro t m hm
    simp only [Sched.init] at hm
    by_cases ht : t < progs.length
    · have : progs.getD t [] = progs[t] := by simp [List.getD, ht]
      rw [this] at hm
      exact hrm _ (List.getElem_mem ht) m hm
    · simp only [List.getD_eq_getElem?_getD] at hm
      rw [List.getElem?_eq_none (by omega)] at hm; cases hm)
  rw [this]
  simp [Sched.init, initShared, cntCG, ledger]

/-- a deletion that covers `(c, g)` starts the count over: whatever was imported before `del_all_graphs` / `del_graph g` /
a rebuild of id space `c` in the order of execution does not count -/
theorem ledger_after_delete (c g : Nat) (a b : List Micro) :
    ledger c g (a ++ .delAll :: b) = ledger c g b ∧ ledger c g (a ++ .del g :: b) = ledger c g b ∧
    ledger c g (a ++ .delSpace c :: b) = ledger c g b :=
  ⟨ledger_append_reset c g a b _ (fun _ => rfl), ledger_append_reset c g a b _ (fun _ => by simp [ledgerStep]),
   ledger_append_reset c g a b _ (fun _ => by simp [ledgerStep])⟩

/-- non-vacuity: `del_all_graphs` of thread 1 lands between the import of graph 1 and the node creation of thread 0 -/
example :
    let progs : List (List Micro) := [[.acq, .read 0, .bump 0 2, .add 0 1 2, .rel, .acq, .read 0, .add 0 1 1, .bump 0 1, .rel],
                                      [.acq, .delAll, .rel]]
    let sched := [0, 0, 0, 0, 0, 1, 1, 1, 0, 0, 0, 0, 0]
    (progs.all accepts) = true ∧ (progs.all fun p => p.all noRm) = true ∧
    ledger 0 1 (trace sched (init progs)) = 1 ∧ (run sched (init progs)).sh.nodes.length = 1 := by
  decide

/-- the creation guard of each shell can only fire when there is no store yet: it tests `is None`, or the store
class cannot be falsy (no `__len__` / `__bool__`) -/
theorem singleton_guard_stable : (LockCfg.singletons.all fun s => s.2.1 || !s.2.2) = true := by decide

/-! non-vacuity of the hypotheses, and what goes wrong without them -/

/-- a truthiness guard on a store class that defines `__len__`: while thread 0 is inside its first import (store
still empty) thread 1 constructs an importer, which replaces the store (fresh counters, fresh lock object) -/
theorem weak_guard_counterexample :
    let progs : List (List Micro) := [[.ctor true, .acq, .rdg, .read 0, .bump 0 2, .add 0 1 2, .rel], [.ctor true, .acq, .rdg, .rel]]
    let s := run [0, 0, 0, 0, 1] (init progs)
    s.sh.gen = 2 ∧ (progs.all accepts) = false ∧ accepts [.ctor false, .acq, .rdg, .rel] = true := by
  decide


/-- `with self.lock: self.__init__(...)` (a "reset" of the store from inside one of its methods) installs a new lock object
while the old one is held: thread 1 takes the new lock while thread 0 is still inside its locked region, and the release of
thread 0 then frees the lock thread 1 holds -/
theorem reinit_counterexample :
    let progs : List (List Micro) := [[.acq, .reinit, .rdg, .rel], [.acq, .read 0, .bump 0 1, .add 0 1 1, .rel]]
    let s := run [0, 0, 1] (init progs)
    let s' := run [0, 0, 1, 0, 0] (init progs)
    s.sh.gen = 1 ∧ s.lock = some 1 ∧ inside (s.thr 0).prog = true ∧ inside (s.thr 1).prog = true ∧
    s'.lock = none ∧ inside (s'.thr 1).prog = true ∧ (progs.all accepts) = false := by
  decide

example : accepts [.acq, .read 0, .add 0 1 1, .bump 0 1, .rel, .acq, .rdg, .delSpace 3, .addFrom 3 3 1 2, .setCtr 3 3, .rel] = true := by decide

/-- allocation outside the lock (what "move the increment out of the locked region" gives): two threads read the
same counter value, the second insertion replaces the first node — an identifier handed out twice, a node lost -/
theorem unlocked_alloc_counterexample :
    let progs : List (List Micro) := [[.read 0, .add 0 1 1, .bump 0 1], [.read 0, .add 0 2 1, .bump 0 1]]
    let s := run [0, 1, 0, 1, 0, 1] (init progs)
    finished' 2 s = true ∧ ¬ (s.sh.nodes.map Node.key).Nodup ∧ (dictView s.sh.nodes).length = 1 ∧ s.sh.nodes.length = 2 ∧
    (progs.all accepts) = false := by
  decide

/-- the double release the per-graph store's `add_graph` had on a duplicate id: thread 0 releases twice; its
second release frees the lock thread 1 has just taken, thread 2 enters as well, and both allocate the same id -/
theorem double_release_counterexample :
    let alloc (g : Nat) : List Micro := [.acq, .read 7, .bump 7 1, .add 7 g 1, .rel]
    let progs : List (List Micro) := [[.acq, .rdg, .rel, .rel], alloc 1, alloc 2]
    let s := run [0, 0, 0, 1, 0, 2, 1, 2, 1, 2, 1, 2, 1, 2] (init progs)
    finished' 3 s = true ∧ ¬ (s.sh.nodes.map Node.key).Nodup ∧ s.relErr = true ∧
    lockRun (progs.getD 0 []) = none := by
  decide

/-! ### identifier allocation for imported graphs: imports that name no graph id -/

/-- what `gen/importids.py` observes on both in-memory importers: `import_graph_from_string` / `import_graph_from_file` called
twice without a graph id (two documents; two paths, and one path rewritten in between) come back as two graphs with ids of their
own — non-empty, different from each other and from an id in use — each holding its own document's nodes; called with a graph id
they file the document under that id.  These are the rows the lowering of importer calls to graph indices of the interleaving
model assumes (`ImportEntry.modelIdless`, `ImportEntry.modelNamed`). -/
theorem idless_imports_get_fresh_ids :
    Gen.ImportIds.idlessFresh = ImportEntry.modelIdless ∧ Gen.ImportIds.namedTarget = ImportEntry.modelNamed := by decide

/-- under that freshness (`ImportEntry.Fresh`: the generated ids are pairwise distinct and none is in use) the imports that
name no graph id are graphs of their own in the model — pairwise different targets, different from every caller-chosen id in
use, whatever the documents are — so `each_graph_exact` / `each_graph_exact_with_deletes` speak of each of them separately:
each ends up with exactly the nodes of its own document -/
theorem idless_imports_are_graphs_of_their_own {generated inUse : List String} (h : ImportEntry.Fresh generated inUse) :
    (∀ (i j : Nat) (hi : i < generated.length) (hj : j < generated.length), i ≠ j → ∀ di dj : String,
      ImportEntry.target .idless di generated[i] ≠ ImportEntry.target .idless dj generated[j]) ∧
    (∀ (i : Nat) (hi : i < generated.length) (g : String), g ∈ inUse → ∀ d d' f : String,
      ImportEntry.target .idless d generated[i] ≠ ImportEntry.target (.named g) d' f) :=
  ⟨fun _ _ hi hj hij di dj => ImportEntry.idless_targets_distinct h hi hj hij di dj,
   fun _ hi g hg d d' f => ImportEntry.idless_target_not_named h hi g hg d d' f⟩

example : ImportEntry.Fresh ["6f1c", "a2d0"] ["graph-1", "graph-2"] := by decide

end FimVerif.C20
