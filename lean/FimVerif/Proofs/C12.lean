import FimVerif.Proofs.Lemmas.C12Codec
import FimVerif.Proofs.Lemmas.C12Add
import FimVerif.Proofs.Lemmas.C12Pools
/-!
# C12 — delegations and pools survive encoding and regrouping unchanged

Model: `FimVerif/Model/Deleg.lean` (hand mirror of `fim/slivers/delegations.py`, checked differentially),
key constants: `FimVerif/Generated/DelegConsts.lean` (regenerated every run).  Details (`Labels` /
`Capacities`) are abstract (`DetailOps D`); their own codec round trip (C03) is the explicit hypothesis
`DetOk`, discharged for the concrete `Det` instance in the examples.
-/
set_option linter.unusedSimpArgs false
namespace FimVerif.C12
open FimVerif.Deleg FimVerif.Gen.DelegConsts

variable {D : Type}

/-! ## Codec

Full statement (what the property asks):

    theorem delegations_roundtrip (h : WF' ops ds) : (encode ops ds).bind (decode ops ds.ty) = .ok ds

where `WF'` is `WF` without the clause "a defined pool is not named `singlePoolName`".  The unchanged
code violates it (known finding `C12:codec:definition-of-pool-named-single-sentinel`): see
`delegations_roundtrip_counterexample`.  `delegations_roundtrip_partial` is the statement with that
clause (`WFDeleg`, definition case). -/

/-- every well-formed delegation set (single ⇒ non-empty details, no pool; definition ⇒ pool name other
than the reserved `"_"`, non-empty details; reference ⇒ pool name, no details; distinct ids; details that
survive their own codec) decodes from its encoding to exactly itself: same ids in the same order, same
formats, pool names, details and type -/
theorem delegations_roundtrip_partial (ops : DetailOps D) (ds : Delegations D) (h : WF ops ds) :
    (encode ops ds).bind (decode ops ds.ty) = .ok ds := by
  rw [encode_wf ops ds h]
  simp only [Except.bind, decode]
  rw [decode_fold ops ds.ty ds.items { ty := ds.ty, items := [] } rfl h.1 (by simpa using h.2)]
  simp

/-- the concrete details used for non-vacuity: `Capacities(core=2, ram=8)` and `Labels(vlan_range='1-100')` -/
def capEx : Det := setField (setField (defaultDet .cap) "core" (.int 2)) "ram" (.int 8)
def labEx : Det := setField (defaultDet .lab) "vlan_range" (.str "1-100")

/-- the C03 hypothesis holds for them (evaluated on the generated field lists) -/
theorem det_roundtrip : DetOk detOps .cap (some capEx) ∧ DetOk detOps .lab (some labEx) := by
  exact ⟨⟨rfl, rfl⟩, ⟨rfl, rfl⟩⟩

/-- the three-entry set of `delegation_label_test` -/
def dsEx : Delegations Det :=
  { ty := .cap, items := [
      { ty := .cap, id := "del1", fmt := .single, pool := none, details := some capEx },
      { ty := .cap, id := "del2", fmt := .definition, pool := some "pool1", details := some capEx },
      { ty := .cap, id := "del3", fmt := .reference, pool := some "pool1", details := none }] }

/-- non-vacuity of `delegations_roundtrip_partial` -/
example : WF detOps dsEx := by
  have hc := det_roundtrip.1
  refine ⟨?_, by decide⟩
  intro d hd
  simp only [dsEx, List.mem_cons, List.not_mem_nil, or_false] at hd
  rcases hd with rfl | rfl | rfl
  · exact ⟨rfl, rfl, hc⟩
  · exact ⟨rfl, by decide, hc⟩
  · exact ⟨rfl, by simp, rfl⟩

/-- a definition of a pool named `"_"` comes back as a single-resource delegation (replayed on the
implementation by corpus/C12/pool_named_underscore.json) -/
theorem delegations_roundtrip_counterexample :
    let ds : Delegations Det := { ty := .cap, items := [
      { ty := .cap, id := "del2", fmt := .definition, pool := some singlePoolName, details := some capEx }] }
    (encode detOps ds).bind (decode detOps .cap) = .ok { ty := .cap, items := [
      { ty := .cap, id := "del2", fmt := .single, pool := none, details := some capEx }] } := by
  rfl

/-! ## Rejections -/

/-- details of the other kind are rejected by `set_details`, whatever the format -/
theorem rejects_mixed_details (ops : DetailOps D) (d : Delegation D) (x : D) (h : ops.kindOf x ≠ d.ty) :
    setDetails ops d x = .error .delegation := by
  unfold setDetails; split <;> simp [h]

/-- a delegation of the other type is rejected by `add_delegations` -/
theorem rejects_mixed_container (ds : Delegations D) (d : Delegation D) (h : d.ty ≠ ds.ty) :
    addDelegation ds d = .error .assertion := by
  simp [addDelegation]; exact fun h' => absurd h' h

/-- a pool of the other type is rejected by `add_pool`, delegations of the other type by
`incorporate_delegation` -/
theorem rejects_mixed_pools (ps : Pools D) (p : Pool D) (ds : Delegations D) (node : String) :
    (p.ty ≠ ps.ty → addPool ps p = .error .pool) ∧ (ds.ty ≠ ps.ty → incorporate ps node ds = .error .pool) := by
  constructor <;> intro h <;> simp [addPool, incorporate, h]

def otherTy : DType → DType | .cap => .lab | .lab => .cap

theorem detailsKey_other_ne (ty : DType) :
    detailsKey (otherTy ty) ≠ detailsKey ty ∧ fieldPoolId ≠ detailsKey (otherTy ty) := by
  cases ty <;> exact ⟨by decide, by decide⟩

private theorem ite_err_ne_ok {ε α : Type} (c : Prop) [Decidable c] (a b : ε) (x : α) :
    (if c then (Except.error a : Except ε α) else Except.error b) ≠ Except.ok x := by
  split <;> exact fun h => nomatch h

/-- text written for one delegation type never decodes under the other type as soon as it carries any
details (a single-resource delegation or a pool definition): `KeyError` on the missing key -/
theorem decode_rejects_other_type (ops : DetailOps D) (ds : Delegations D) (h : WF ops ds)
    (d : Delegation D) (hd : d ∈ ds.items) (hfmt : d.fmt ≠ .reference) (r : Delegations D) :
    (encode ops ds).bind (decode ops (otherTy ds.ty)) ≠ .ok r := by
  rw [encode_wf ops ds h]
  simp only [Except.bind, decode]
  intro hok
  obtain ⟨b, b', hb⟩ := foldlM_ok_all _ _ _ _ hok (encPure ops ds.ty d) (List.mem_map.mpr ⟨d, hd, rfl⟩)
  obtain ⟨k1, k2⟩ := detailsKey_other_ne ds.ty
  have k3 := poolId_ne_detailsKey ds.ty
  cases hf : d.fmt with
  | reference => exact hfmt hf
  | single =>
    simp [encPure, hf, decodeEntry, lookup, k1, k1.symm, k2, k2.symm, k3, poolOf, bind, Except.bind] at hb
    exact ite_err_ne_ok _ _ _ _ hb
  | definition =>
    simp [encPure, hf, decodeEntry, lookup, k1, k1.symm, k2, k2.symm, k3, poolOf, bind, Except.bind] at hb
    exact ite_err_ne_ok _ _ _ _ hb

/-! `add_delegations(*args)` is modelled call by call (`addDelegations ds args`: the container afterwards and
the exception, if any). -/

/-- **the call is accepted exactly when** every argument has the container's type, no argument's id is already
in the container and no two arguments of the call share an id; then the arguments are appended in order -/
theorem add_delegations_accepts_iff (ds : Delegations D) (args : List (Delegation D)) :
    ((addDelegations ds args).2 = none ↔ CallOk ds args) ∧
    (CallOk ds args → (addDelegations ds args).1 = { ds with items := ds.items ++ args }) :=
  ⟨addDelegations_accepts_iff ds args, addDelegations_state_ok ds args⟩

/-- **duplicate ids are always rejected**, wherever the two holders of the id are: one in the container (an
earlier call) and one among the arguments, or both among the arguments of ONE call -/
theorem rejects_duplicate_id (ds : Delegations D) (args : List (Delegation D))
    (hdup : (∃ e ∈ ds.items, ∃ a ∈ args, e.id = a.id) ∨ ¬ args.Pairwise (fun a b => a.id ≠ b.id)) :
    (addDelegations ds args).2 ≠ none := by
  intro h
  obtain ⟨_, h2, h3⟩ := (addDelegations_accepts_iff ds args).mp h
  rcases hdup with ⟨e, he, a, ha, heq⟩ | hnp
  · exact h2 a ha e he heq
  · exact hnp h3

/-- the same by position: the arguments at any two positions of one call share an id ⇒ the call is rejected,
with `DelegationException` when all arguments have the container's type -/
theorem rejects_duplicate_in_call (ds : Delegations D) (pre mid post : List (Delegation D)) (a b : Delegation D)
    (hid : a.id = b.id) :
    (addDelegations ds (pre ++ a :: mid ++ b :: post)).2 ≠ none ∧
    ((∀ x ∈ pre ++ a :: mid ++ b :: post, x.ty = ds.ty) →
      (addDelegations ds (pre ++ a :: mid ++ b :: post)).2 = some .delegation) := by
  have hrej : (addDelegations ds (pre ++ a :: mid ++ b :: post)).2 ≠ none := by
    apply rejects_duplicate_id ds _ (Or.inr _)
    intro hp
    exact (List.pairwise_append.mp hp).2.2 a (by simp) b (by simp) hid
  refine ⟨hrej, fun hty => ?_⟩
  cases h : (addDelegations ds (pre ++ a :: mid ++ b :: post)).2 with
  | none => exact absurd h hrej
  | some e => rw [addDelegations_err_kind ds _ hty e h]

/-- across calls (the one-argument call): a second delegation under an id already present is rejected -/
theorem rejects_duplicate_across_calls (ds : Delegations D) (d e : Delegation D) (hty : d.ty = ds.ty)
    (he : e ∈ ds.items) (hid : e.id = d.id) : addDelegation ds d = .error .delegation := by
  have : hasId ds.items d.id = true := by
    simp only [hasId, List.any_eq_true]; exact ⟨e, he, by simp [hid]⟩
  simp [addDelegation, hty, this]

/-- a call in which some argument has the other type is rejected, wherever that argument stands -/
theorem rejects_mixed_in_call (ds : Delegations D) (args : List (Delegation D)) (a : Delegation D)
    (ha : a ∈ args) (hty : a.ty ≠ ds.ty) : (addDelegations ds args).2 ≠ none := by
  intro h
  exact hty (((addDelegations_accepts_iff ds args).mp h).1 a ha)

/-- what a call leaves behind (the code as it is: the loop stores argument by argument): the container plus
the longest prefix of the arguments that is acceptable; all of them iff the call is accepted -/
theorem add_delegations_state (ds : Delegations D) (args : List (Delegation D)) :
    ∃ pre suf, args = pre ++ suf ∧ (addDelegations ds args).1 = { ds with items := ds.items ++ pre } ∧
      CallOk ds pre ∧ ((addDelegations ds args).2 = none → suf = []) ∧
      ((addDelegations ds args).2 ≠ none → ∃ x rest, suf = x :: rest ∧ ¬ CallOk ds (pre ++ [x])) :=
  addDelegations_state_prefix ds args

/-- non-vacuity: `add_delegations(d1, d2, d1')` with `d1'.id = d1.id` keeps `d1, d2` and raises -/
example :
    let d1 : Delegation Det := { ty := .cap, id := "a", fmt := .single, pool := none, details := some capEx }
    let d2 : Delegation Det := { ty := .cap, id := "b", fmt := .reference, pool := some "p", details := none }
    let d3 : Delegation Det := { ty := .cap, id := "a", fmt := .reference, pool := some "p", details := none }
    addDelegations { ty := .cap, items := [] } [d1, d2, d3] = ({ ty := .cap, items := [d1, d2] }, some .delegation) := rfl

/-- details are never accepted on a pool reference (API) -/
theorem rejects_details_on_reference (ops : DetailOps D) (d : Delegation D) (x : D) (h : d.fmt = .reference) :
    setDetails ops d x = .error .delegation := by
  simp [setDetails, h]

/-- … nor from JSON: a text in which some entry is a reference (`pool` key, no `pool_id` key) that also
carries a `capacities` or `labels` key never decodes (repaired in /repo ff92b65; before, the details were
dropped silently) -/
theorem decode_rejects_details_on_reference (ops : DetailOps D) (ty : DType) (kvs : List (String × JVal))
    (k : String) (e : List (String × JVal)) (hk : (k, JVal.obj e) ∈ kvs)
    (hnoid : lookup fieldPoolId e = none) (hpool : (lookup fieldPool e).isSome)
    (hdet : (lookup fieldCapacities e).isSome ∨ (lookup fieldLabels e).isSome) (r : Delegations D) :
    decode ops ty (.obj kvs) ≠ .ok r := by
  intro h
  obtain ⟨b, b', hb⟩ := foldlM_ok_all _ _ _ _ h _ hk
  cases hp : lookup fieldPool e with
  | none => simp [hp] at hpool
  | some pv =>
    rcases hdet with hd | hd <;> simp [decodeEntry, hnoid, hp, hd] at hb

/-- non-vacuity: `{"a": {"pool": "p", "capacities": {"core": 1}}}` -/
example : decode detOps .cap (.obj [("a", .obj [("pool", .str "p"), ("capacities", .obj [("core", .int 1)])])])
    = .error .delegation := rfl

/-! ## Pools → per-node delegations → pools -/

/-- every entry the family needs, with the pool it belongs to -/
theorem entry_pool (ty : DType) (P : List (Pool D)) (e : Entry D) (h : e ∈ allEntries ty P) :
    ∃ p ∈ P, e.2.pool = some p.pid ∧ e.2.id = p.deleg.getD "" ∧ e.2.ty = ty ∧
      ((e.2.fmt = .definition ∧ e = (p.on_.getD "", defEntry ty p)) ∨
       (e.2.fmt = .reference ∧ e.1 ∈ p.for_ ∧ e = (e.1, refEntry ty p))) := by
  obtain ⟨p, hp, h | ⟨n, hn, h⟩⟩ := (mem_allEntries ty P e).mp h <;> subst h
  · exact ⟨p, hp, rfl, rfl, rfl, Or.inl ⟨rfl, rfl⟩⟩
  · exact ⟨p, hp, rfl, rfl, rfl, Or.inr ⟨rfl, hn, rfl⟩⟩

/-- "the same pools": every pool is found again with the same type, defining node, delegation id, details and
reference *set*; nothing else is found; ids stay distinct -/
structure SamePools (P Q : List (Pool D)) : Prop where
  found : ∀ p ∈ P, ∃ q ∈ Q, q.pid = p.pid ∧ q.ty = p.ty ∧ q.on_ = p.on_ ∧ q.deleg = p.deleg ∧
    q.details = p.details ∧ ∀ n, n ∈ q.for_ ↔ n ∈ p.for_
  nothingElse : ∀ q ∈ Q, ∃ p ∈ P, p.pid = q.pid
  distinct : Distinct Q

/-- for a valid family in which no node needs two entries under one delegation id, `generate` succeeds and
the per-node dictionaries hold exactly (as a multiset) one definition per pool on its defining node and one
reference per pool on each node it applies to, each under the pool's delegation id -/
theorem generate_ok_of_noClash (ops : DetailOps D) (ty : DType) (P : List (Pool D))
    (hF : Family ops ty P) (hN : NoClash P) :
    ∃ ps R, buildPools ty P = .ok ps ∧ ps.byId = P ∧ generate ops ps = .ok R ∧ RInv ty R ∧
      (flat R).Perm (allEntries ty P) := by
  obtain ⟨idx, hb, hperm, hk⟩ := buildPools_ok ops ty P hF
  have hok : ∀ p ∈ flatIdx idx, PoolOk ops ty p := fun p hp => hF.ok p (hperm.mem_iff.mp hp)
  have hpe : (allEntries ty (flatIdx idx)).Perm (allEntries ty P) := List.Perm.flatMap_right _ hperm
  have hty : ∀ e ∈ allEntries ty (flatIdx idx), e.2.ty = ty := by
    intro e he
    obtain ⟨_, _, _, _, h, _⟩ := entry_pool ty _ e he
    exact h
  have hnd : ((flat ([] : NodeDelegs D) ++ allEntries ty (flatIdx idx)).map keyOf).Nodup := by
    have : flat ([] : NodeDelegs D) = [] := rfl
    rw [this, List.nil_append]
    apply (hpe.map keyOf).nodup_iff.mpr
    rw [keys_allEntries]; exact hN
  obtain ⟨R, hR, hinv, hp⟩ := (addAt_fold ty _ [] (rinv_nil ty) hty).1 hnd
  refine ⟨_, R, hb, rfl, ?_, hinv, ?_⟩
  · simp only [generate]
    rw [generate_flat ops ty idx [] hk hok]; exact hR
  · have : flat ([] : NodeDelegs D) = [] := rfl
    rw [this, List.nil_append] at hp
    exact hp.trans hpe

/-- … and otherwise `generate` raises (`DelegationException` from `add_delegations`) rather than
producing a dictionary that cannot hold the family -/
theorem generate_rejects_clash (ops : DetailOps D) (ty : DType) (P : List (Pool D))
    (hF : Family ops ty P) (hC : ¬ NoClash P) :
    ∃ ps, buildPools ty P = .ok ps ∧ generate ops ps = .error .delegation := by
  obtain ⟨idx, hb, hperm, hk⟩ := buildPools_ok ops ty P hF
  have hok : ∀ p ∈ flatIdx idx, PoolOk ops ty p := fun p hp => hF.ok p (hperm.mem_iff.mp hp)
  have hpe : (allEntries ty (flatIdx idx)).Perm (allEntries ty P) := List.Perm.flatMap_right _ hperm
  have hty : ∀ e ∈ allEntries ty (flatIdx idx), e.2.ty = ty := by
    intro e he
    obtain ⟨_, _, _, _, h, _⟩ := entry_pool ty _ e he
    exact h
  have hnd : ¬ ((flat ([] : NodeDelegs D) ++ allEntries ty (flatIdx idx)).map keyOf).Nodup := by
    have : flat ([] : NodeDelegs D) = [] := rfl
    rw [this, List.nil_append]
    intro h
    apply hC
    have := (hpe.map keyOf).nodup_iff.mp h
    rw [keys_allEntries] at this; exact this
  refine ⟨_, hb, ?_⟩
  simp only [generate]
  rw [generate_flat ops ty idx [] hk hok]
  exact (addAt_fold ty _ [] (rinv_nil ty) hty).2 hnd

/-- reading back any per-node arrangement `R` of exactly the family's entries reconstructs the family -/
theorem incorporate_entries (ops : DetailOps D) (ty : DType) (P : List (Pool D)) (R : NodeDelegs D)
    (hF : Family ops ty P) (hinv : RInv ty R) (hperm : (flat R).Perm (allEntries ty P)) :
    ∃ Q, incorporateAll (emptyPools ty) R = .ok Q ∧ Q.ty = ty ∧ SamePools P Q.byId := by
  have hmem : ∀ e, e ∈ flat R ↔ e ∈ allEntries ty P := fun e => hperm.mem_iff
  have hinc : Incorporable ([] ++ flat R) := by
    rw [List.nil_append]
    exact incorporable_of_family ops ty P (flat R) hF (fun e he => (hmem e).mp he) hinv.keys
  obtain ⟨Q', hfold, hq⟩ := inc_fold ty (flat R) [] [] (qinv_nil ty) hinc
  rw [List.nil_append] at hq
  refine ⟨{ ty := ty, byId := Q', index := none }, ?_, rfl, ?_, ?_, hq.distinct⟩
  · unfold emptyPools
    rw [incorporateAll_flat ty R [] none hinv.ty_, hfold]; rfl
  · intro p hp
    have hpok := hF.ok p hp
    have hdef : (p.on_.getD "", defEntry ty p) ∈ flat R :=
      (hmem _).mpr ((mem_allEntries ty P _).mpr ⟨p, hp, Or.inl rfl⟩)
    obtain ⟨q, hqm, hqpid⟩ := hq.present _ hdef (by simp [defEntry]) p.pid rfl
    obtain ⟨hpi, hdw, hqty⟩ := hq.pool q hqm
    refine ⟨q, hqm, hqpid, by rw [hqty, hpok.ty_], ?_, ?_, ?_, ?_⟩
    · have := (hpi.onDef _ hdef rfl (by simp [defEntry, hqpid])).1
      rw [this]
      cases hon : p.on_ with
      | none => exact absurd hon hpok.on_
      | some n => rfl
    · obtain ⟨s, hs, _, hsp, hsd⟩ := hdw
      obtain ⟨p', hp', hpool, hid, _, _⟩ := entry_pool ty P s ((hmem s).mp hs)
      have : p' = p := distinct_eq hF.distinct hp' hp (by
        rw [hpool] at hsp; rw [← hqpid]; exact Option.some.inj hsp)
      subst this
      rw [hsd, hid]
      cases hd : p'.deleg with
      | none => exact absurd hd hpok.deleg
      | some k => rfl
    · exact (hpi.onDef _ hdef rfl (by simp [defEntry, hqpid])).2
    · intro n
      rw [hpi.refs n]
      constructor
      · rintro ⟨s, hs, hsn, hsf, hsp⟩
        obtain ⟨p', hp', hpool, _, _, h | ⟨_, hfor, _⟩⟩ := entry_pool ty P s ((hmem s).mp hs)
        · rw [h.1] at hsf; cases hsf
        · have : p' = p := distinct_eq hF.distinct hp' hp (by
            rw [hpool] at hsp; rw [← hqpid]; exact Option.some.inj hsp)
          subst this
          rw [← hsn]; exact hfor
      · intro hn
        exact ⟨(n, refEntry ty p), (hmem _).mpr ((mem_allEntries ty P _).mpr ⟨p, hp, Or.inr ⟨n, hn, rfl⟩⟩),
          rfl, rfl, by simp [refEntry, hqpid]⟩
  · intro q hqm
    obtain ⟨_, hdw, _⟩ := hq.pool q hqm
    obtain ⟨s, hs, _, hsp, _⟩ := hdw
    obtain ⟨p', hp', hpool, _⟩ := entry_pool ty P s ((hmem s).mp hs)
    exact ⟨p', hp', by rw [hpool] at hsp; exact Option.some.inj hsp⟩

/-- **pools round trip**: for every family of valid pools with distinct ids in which no node needs two
entries under one delegation id, turning the pools into per-node delegations and incorporating those, node
by node in dictionary order, reconstructs the same pools.  (`Pool.for_` is a Python set: any iteration order
of it is some list `p.for_`, so the statement covers every order `generate` can produce.) -/
theorem pools_roundtrip (ops : DetailOps D) (ty : DType) (P : List (Pool D)) (hF : Family ops ty P) (hN : NoClash P) :
    ∃ ps R Q, buildPools ty P = .ok ps ∧ generate ops ps = .ok R ∧
      incorporateAll (emptyPools ty) R = .ok Q ∧ Q.ty = ty ∧ SamePools P Q.byId := by
  obtain ⟨ps, R, hb, _, hg, hinv, hperm⟩ := generate_ok_of_noClash ops ty P hF hN
  obtain ⟨Q, hi, hty, hs⟩ := incorporate_entries ops ty P R hF hinv hperm
  exact ⟨ps, R, Q, hb, hg, hi, hty, hs⟩

/-- the two-pool family of `delegation_label_test.testPools`: node1 defines pool1 and references pool2, node2
defines pool2 and references pool1, node3 references both - under two delegation ids -/
def poolsEx : List (Pool Det) := [
  { ty := .lab, pid := "pool1", deleg := some "del1", on_ := some "node1", for_ := ["node2", "node3"], details := some labEx },
  { ty := .lab, pid := "pool2", deleg := some "del2", on_ := some "node2", for_ := ["node1", "node3"], details := some labEx }]

theorem poolsEx_family : Family detOps .lab poolsEx := by
  refine ⟨?_, by unfold Distinct; decide⟩
  intro p hp
  simp only [poolsEx, List.mem_cons, List.not_mem_nil, or_false] at hp
  rcases hp with rfl | rfl <;> exact ⟨rfl, by simp, by simp, by simp, rfl⟩

/-- non-vacuity of `generate_ok_of_noClash` / `pools_roundtrip` -/
example : Family detOps .lab poolsEx ∧ NoClash poolsEx := ⟨poolsEx_family, by decide⟩

/-- the same two pools under ONE delegation id: node1 would need a definition and a reference under `del1` -/
def clashEx : List (Pool Det) := poolsEx.map (fun p => { p with deleg := some "del1" })

/-- non-vacuity of `generate_rejects_clash` -/
example : Family detOps .lab clashEx ∧ ¬ NoClash clashEx := by
  refine ⟨⟨?_, by unfold Distinct; decide⟩, by decide⟩
  intro p hp
  simp only [clashEx, poolsEx, List.map_cons, List.map_nil, List.mem_cons, List.not_mem_nil, or_false] at hp
  rcases hp with rfl | rfl <;> exact ⟨rfl, by simp, by simp, by simp, rfl⟩

/-! ### … through the JSON text of every node (`to_json` / `from_json` between `generate` and `incorporate`)

Full statement: `pools_roundtrip` with `recode` between `generate` and `incorporateAll`, for every valid
clash-free family whose details survive their own codec.  The unchanged code violates it for a pool named
`"_"` (known finding `C12:pools:pool-named-single-sentinel`, `pools_roundtrip_text_counterexample`);
`pools_roundtrip_text_partial` carries the guard `p.pid ≠ singlePoolName`. -/

/-- every per-node dictionary produced for a family (not using the reserved name) is a well-formed set -/
theorem generated_wf (ops : DetailOps D) (ty : DType) (P : List (Pool D)) (R : NodeDelegs D)
    (hT : ∀ p ∈ P, DetOk ops ty p.details ∧ p.pid ≠ singlePoolName)
    (hinv : RInv ty R) (hmem : ∀ e ∈ flat R, e ∈ allEntries ty P) : ∀ e ∈ R, WF ops e.2 := by
  intro e he
  refine ⟨?_, items_ids_distinct R hinv.keys e he⟩
  intro d hd
  rw [hinv.ty_ e he]
  obtain ⟨p, hp, _, _, hty, h | h⟩ := entry_pool ty P (e.1, d) (hmem _ ((mem_flat R e.1 d).mpr ⟨e, he, rfl, hd⟩))
  · have hd' : d = defEntry ty p := (Prod.mk.inj h.2).2
    subst hd'
    exact ⟨rfl, (hT p hp).2, (hT p hp).1⟩
  · have hd' : d = refEntry ty p := (Prod.mk.inj h.2.2).2
    subst hd'
    exact ⟨rfl, by simp [refEntry], rfl⟩

theorem recode_id (ops : DetailOps D) (ty : DType) (R : NodeDelegs D) (hty : ∀ e ∈ R, e.2.ty = ty)
    (hwf : ∀ e ∈ R, WF ops e.2) : recode ops ty R = .ok R := by
  unfold recode
  rw [mapM_ok_of_forall _ id R]
  · simp
  · intro e he
    have h := delegations_roundtrip_partial ops e.2 (hwf e he)
    rw [hty e he] at h
    cases hj : encode ops e.2 with
    | error err => simp [hj, Except.bind] at h
    | ok j =>
      simp only [hj, Except.bind] at h
      simp [hj, h, bind, Except.bind, pure, Except.pure]

theorem pools_roundtrip_text_partial (ops : DetailOps D) (ty : DType) (P : List (Pool D))
    (hF : Family ops ty P) (hN : NoClash P) (hT : ∀ p ∈ P, DetOk ops ty p.details ∧ p.pid ≠ singlePoolName) :
    ∃ ps R Q, buildPools ty P = .ok ps ∧ generate ops ps = .ok R ∧ recode ops ty R = .ok R ∧
      incorporateAll (emptyPools ty) R = .ok Q ∧ Q.ty = ty ∧ SamePools P Q.byId := by
  obtain ⟨ps, R, hb, _, hg, hinv, hperm⟩ := generate_ok_of_noClash ops ty P hF hN
  obtain ⟨Q, hi, hty, hs⟩ := incorporate_entries ops ty P R hF hinv hperm
  have hwf := generated_wf ops ty P R hT hinv (fun e he => hperm.mem_iff.mp he)
  exact ⟨ps, R, Q, hb, hg, recode_id ops ty R hinv.ty_ hwf, hi, hty, hs⟩

/-- non-vacuity of the extra hypothesis -/
example : ∀ p ∈ poolsEx, DetOk detOps .lab p.details ∧ p.pid ≠ singlePoolName := by
  intro p hp
  simp only [poolsEx, List.mem_cons, List.not_mem_nil, or_false] at hp
  rcases hp with rfl | rfl <;> exact ⟨det_roundtrip.2, by decide⟩

def famU : List (Pool Det) :=
  [{ ty := .cap, pid := singlePoolName, deleg := some "del1", on_ := some "node1", for_ := ["node2"], details := some capEx }]
def famUBack : Pools Det :=
  { ty := .cap, index := none,
    byId := [{ ty := .cap, pid := singlePoolName, deleg := some "del1", on_ := none, for_ := ["node2"], details := none }] }

/-- a pool named `"_"` is not read back: its definition decodes as a single-resource delegation, which
`incorporate_delegation` ignores, so only the reference survives (replayed on the implementation by
corpus/C12/pool_family_underscore.json) -/
theorem pools_roundtrip_text_counterexample :
    (Family detOps .cap famU ∧ NoClash famU) ∧
    (do let ps ← buildPools .cap famU
        let R ← generate detOps ps
        let R' ← recode detOps .cap R
        incorporateAll (emptyPools .cap) R') = .ok famUBack := by
  refine ⟨⟨⟨?_, by unfold Distinct; decide⟩, by decide⟩, rfl⟩
  intro p hp
  simp only [famU, List.mem_cons, List.not_mem_nil, or_false] at hp
  subst hp
  exact ⟨rfl, by simp, by simp, by simp, rfl⟩

end FimVerif.C12
