import FimVerif.Proofs.Lemmas.C12Codec
import FimVerif.Proofs.Lemmas.C12Add
import FimVerif.Proofs.Lemmas.C12Pools
import FimVerif.Proofs.Lemmas.C12Details
import FimVerif.Proofs.Lemmas.C12Hist
import FimVerif.Proofs.Lemmas.C12Annotate
import FimVerif.Proofs.Lemmas.C12Single
import FimVerif.Model.DelegHeap
/-!
# C12 — delegations and pools survive encoding and regrouping unchanged

Model: `FimVerif/Model/Deleg.lean` (hand mirror of `fim/slivers/delegations.py`, checked differentially),
key constants: `FimVerif/Generated/DelegConsts.lean` (regenerated every run).

The theorems come in two layers.  The generic layer is stated for abstract details (`DetailOps D`) with the
details' own round trip `DetOk` (`Cls(**x.to_dict()) == x`) as an explicit hypothesis.  The `_real` layer
instantiates it with the C03 model of `Capacities` / `Labels` on the class specifications regenerated from
`capacities_labels.py` (`Model/DelegDet.lean`, what the driver executes) and discharges `DetOk` from C03's
losslessness theorems (`Lemmas/C12Details.lean`): no codec hypothesis is left.  What remains abstract there is
`valid`, the label value validators (C16), and JSON *text* (`json.dumps` / `json.loads` are the identity on values).
-/
set_option linter.unusedSimpArgs false
namespace FimVerif.C12
open FimVerif.Deleg FimVerif.Gen.DelegConsts

variable {D : Type}

/-! ## Codec

The name `singlePoolName` (`"_"`) marks a single-resource delegation in the text.  A pool definition carrying it used
to decode as a single-resource delegation (former known finding `C12:codec:definition-of-pool-named-single-sentinel`);
since /repo ac819ce `Delegation(...)`, `Pool(...)` and `add_pool` refuse it (`reserved_name_rejected`), so the clause
"a pool name is not `singlePoolName`" of `WFDeleg` excludes nothing that can be constructed (`constructed_pool_name`)
and `delegations_roundtrip` is the full statement. -/

/-- the reserved name cannot be given to a pool: not through a pool definition / reference `Delegation(...)`, not through
`Pool(...)`, not through `add_pool`, and `incorporate_delegation` cannot create such a pool either -/
theorem reserved_name_rejected (ty : DType) (id : String) (fmt : Fmt) (hf : fmt ≠ .single) (deleg on_ : Option String)
    (for_ : List String) (ps : Pools D) (p : Pool D) (hp : p.pid = singlePoolName) :
    (mkDelegation ty id fmt (some singlePoolName) : Except Err (Delegation D)) = .error .delegation ∧
    (newPool ty singlePoolName deleg on_ for_ : Except Err (Pool D)) = .error .pool ∧
    addPool ps p = .error .pool ∧
    ((∀ q ∈ ps.byId, q.pid ≠ singlePoolName) → poolFor ty ps.byId singlePoolName = .error .pool) := by
  refine ⟨by simp [mkDelegation, hf], by simp [newPool], ?_, poolFor_reserved ty ps.byId⟩
  unfold addPool; split <;> simp [hp]

/-- what `Delegation(...)` returns has the pool name of the property's well-formed classes: none is needed for a
single-resource delegation, a definition / reference has one and it is not the reserved name -/
theorem constructed_pool_name (ty : DType) (id : String) (fmt : Fmt) (pool : Option String) (d : Delegation D)
    (h : mkDelegation ty id fmt pool = .ok d) :
    d.fmt = fmt ∧ d.pool = pool ∧ d.ty = ty ∧ d.id = id ∧ d.details = none ∧
      (fmt ≠ .single → match pool with | none => False | some p => p ≠ singlePoolName) := by
  unfold mkDelegation at h
  split at h
  · cases h
  · split at h
    · cases h
    · rename_i h1 h2
      injection h with h; subst h
      refine ⟨rfl, rfl, rfl, rfl, rfl, fun hf => ?_⟩
      cases pool with
      | none => exact h1 ⟨hf, rfl⟩
      | some p => exact fun hp => h2 ⟨hf, by rw [hp]⟩

/-- **the sentinel test is equality, at every site**: `Delegation(...)` (definition / reference), `Pool(...)` and `add_pool` refuse a
pool name iff it IS `singlePoolName`; every other name - one that starts or ends with it, contains it, doubles it - is accepted
and kept as it is (the translator probes exactly this on the code: gen/delegconsts.py `_probe_sentinel_sites`) -/
theorem sentinel_exact_sites (ty : DType) (id : String) (fmt : Fmt) (hf : fmt ≠ .single) (p : String)
    (deleg on_ : Option String) (for_ : List String) (ps : Pools D) (q : Pool D) (hq : q.ty = ps.ty) (hqp : q.pid = p) :
    ((mkDelegation ty id fmt (some p) : Except Err (Delegation D)) =
        if p = singlePoolName then .error .delegation else .ok { ty := ty, id := id, fmt := fmt, pool := some p, details := none }) ∧
    ((newPool ty p deleg on_ for_ : Except Err (Pool D)) =
        if p = singlePoolName then .error .pool else .ok (mkPool ty p deleg on_ for_)) ∧
    (addPool ps q = if p = singlePoolName then .error .pool else .ok { ps with byId := putPool q ps.byId }) := by
  refine ⟨?_, ?_, ?_⟩
  · by_cases h : p = singlePoolName <;> simp [mkDelegation, hf, h]
  · simp [newPool]
  · by_cases h : p = singlePoolName <;> simp [addPool, hq, hqp, h]

/-- **the decoder's sentinel test is equality**: whatever else an entry holds, when `from_json` accepts an entry whose `pool_id` is the
string `p` it appends ONE delegation under the entry's key, and that delegation is a single-resource delegation (no pool name)
iff `p = singlePoolName`; for every other `p` it is the definition of the pool named `p` (cf. seeded C12-r4-1: `startswith`) -/
theorem sentinel_exact_decode (ops : DetailOps D) (ty : DType) (ds ds' : Delegations D) (k p : String)
    (e : List (String × Deleg.JVal)) (h : lookup fieldPoolId e = some (.str p))
    (hd : decodeEntry ops ty ds k (.obj e) = .ok ds') :
    ∃ d, ds'.items = ds.items ++ [d] ∧ d.id = k ∧
      ((p = singlePoolName ∧ d.fmt = .single ∧ d.pool = none) ∨ (p ≠ singlePoolName ∧ d.fmt = .definition ∧ d.pool = some p)) := by
  unfold decodeEntry at hd
  simp only [h] at hd
  split at hd
  · cases hd
  · simp only [poolOf, bind, Except.bind] at hd
    split at hd
    · cases hd
    · rename_i dj _
      cases hx : ops.fromDict ty dj with
      | error err => simp [hx] at hd
      | ok x =>
        simp only [hx] at hd
        by_cases hp : p = singlePoolName
        · simp only [hp, if_true] at hd
          obtain ⟨d, h1, h2, h3, h4⟩ := build_tail_ok ops ty k .single none x ds ds' hd
          exact ⟨d, h1, h2, .inl ⟨hp, h3, h4⟩⟩
        · have hne : (some p = some singlePoolName) = False := by simp [hp]
          simp only [hne, if_false] at hd
          obtain ⟨d, h1, h2, h3, h4⟩ := build_tail_ok ops ty k .definition (some p) x ds ds' hd
          exact ⟨d, h1, h2, .inr ⟨hp, h3, h4⟩⟩

/-- non-vacuity: a pool named `"_mgmt"` (corpus/C12/pool_name_starts_with_sentinel.json) is constructed, and its definition decodes
as a definition of `"_mgmt"`; the same entry under the name `"_"` is a single-resource delegation -/
example : (mkDelegation .cap "d" .definition (some "_mgmt") : Except Err (Delegation Det)) =
      .ok { ty := .cap, id := "d", fmt := .definition, pool := some "_mgmt", details := none } ∧
    decodeEntry detOps .cap { ty := .cap, items := [] } "d" (.obj [(fieldPoolId, .str "_mgmt"), (fieldCapacities, .obj [("core", .int 2)])]) =
      .ok { ty := .cap, items := [{ ty := .cap, id := "d", fmt := .definition, pool := some "_mgmt",
                                    details := some (setField (defaultDet .cap) "core" (.int 2)) }] } ∧
    decodeEntry detOps .cap { ty := .cap, items := [] } "d" (.obj [(fieldPoolId, .str "_"), (fieldCapacities, .obj [("core", .int 2)])]) =
      .ok { ty := .cap, items := [{ ty := .cap, id := "d", fmt := .single, pool := none,
                                    details := some (setField (defaultDet .cap) "core" (.int 2)) }] } := ⟨rfl, rfl, rfl⟩

/-- **every well-formed delegation set** (single ⇒ non-empty details, no pool; definition ⇒ pool name, non-empty
details; reference ⇒ pool name, no details; distinct ids; details that survive their own codec) decodes from its
encoding to exactly itself: same ids in the same order, same formats, pool names, details and type -/
theorem delegations_roundtrip (ops : DetailOps D) (ds : Delegations D) (h : WF ops ds) :
    (encode ops ds).bind (decode ops ds.ty) = .ok ds := by
  rw [encode_wf ops ds h]
  simp only [Except.bind, decode]
  rw [decode_fold ops ds.ty ds.items { ty := ds.ty, items := [] } rfl h.1 (by simpa using h.2)]
  simp

/-- the concrete details used for non-vacuity: `Capacities(core=2, ram=8)` and `Labels(vlan_range='1-100')` -/
def capEx : Det := setField (setField (defaultDet .cap) "core" (.int 2)) "ram" (.int 8)
def labEx : Det := setField (defaultDet .lab) "vlan_range" (.str "1-100")

/-- the C03 hypothesis holds for them (evaluated on the generated field lists) -/
theorem det_roundtrip : DetOk detOps .cap (some capEx) ∧ DetOk detOps .lab (some labEx) := by
  exact ⟨⟨rfl, rfl⟩, ⟨rfl, rfl⟩⟩

/-- the three-entry set of `delegation_label_test` -/
def dsEx : Delegations Det :=
  { ty := .cap, items := [
      { ty := .cap, id := "del1", fmt := .single, pool := none, details := some capEx },
      { ty := .cap, id := "del2", fmt := .definition, pool := some "pool1", details := some capEx },
      { ty := .cap, id := "del3", fmt := .reference, pool := some "pool1", details := none }] }

/-- non-vacuity of `delegations_roundtrip` -/
example : WF detOps dsEx := by
  have hc := det_roundtrip.1
  refine ⟨?_, by decide⟩
  intro d hd
  simp only [dsEx, List.mem_cons, List.not_mem_nil, or_false] at hd
  rcases hd with rfl | rfl | rfl
  · exact ⟨rfl, rfl, hc⟩
  · exact ⟨rfl, by decide, hc⟩
  · exact ⟨rfl, by decide, rfl⟩

/-- **over all histories of API calls**: start from `Delegations(atype=ty)`, make any number of `add_delegations(*args)` calls
(accepted or rejected) with `Delegation` objects built by `Delegation(...)` and any number of `set_details` calls.  The
type, duplicate-id, kind-of-details, reference-without-details and pool-name clauses of `WF` then hold by construction
(`reachable_inv`, `built_inv`); what is left is the property's own restriction `Complete` (details were set on every
single-resource delegation and definition, are not empty and survive their codec; a single-resource delegation was given
no pool name).  Assumption: a `Delegation` is not mutated after it was handed to `add_delegations` (the container aliases it). -/
theorem delegations_roundtrip_api (ops : DetailOps D) (ty : DType) (ds : Delegations D) (hr : Reachable ty ds)
    (hb : ∀ d ∈ ds.items, Built ops d) (hc : Complete ops ds) :
    (encode ops ds).bind (decode ops ty) = .ok ds := by
  have h := delegations_roundtrip ops ds (wf_of_api ops ty ds hr hb hc)
  rw [(reachable_inv ty ds hr).1] at h
  exact h

/-- non-vacuity: the three-entry set of `delegation_label_test`, built as the test builds it -/
example : Reachable .cap dsEx ∧ (∀ d ∈ dsEx.items, Built detOps d) ∧ Complete detOps dsEx := by
  refine ⟨Reachable.call _ dsEx.items Reachable.new, ?_, ?_⟩
  · intro d hd
    simp only [dsEx, List.mem_cons, List.not_mem_nil, or_false] at hd
    rcases hd with rfl | rfl | rfl
    · exact Built.set _ _ capEx (Built.ctor .cap "del1" .single none _ rfl) rfl
    · exact Built.set _ _ capEx (Built.ctor .cap "del2" .definition (some "pool1") _ rfl) rfl
    · exact Built.ctor .cap "del3" .reference (some "pool1") _ rfl
  · intro d hd
    simp only [dsEx, List.mem_cons, List.not_mem_nil, or_false] at hd
    rcases hd with rfl | rfl | rfl
    · exact ⟨fun _ => ⟨capEx, rfl, (rfl : detOps.fromDict .cap _ = .ok capEx)⟩, fun _ => rfl⟩
    · exact ⟨fun _ => ⟨capEx, rfl, (rfl : detOps.fromDict .cap _ = .ok capEx)⟩, fun h => by cases h⟩
    · exact ⟨fun h => absurd rfl h, fun h => by cases h⟩

/-- non-vacuity of `reserved_name_rejected` / the former counterexample (corpus/C12/pool_named_underscore.json): the
definition of a pool named `"_"` cannot be built any more, and a text that holds a reference to it does not decode -/
example : (mkDelegation .cap "del2" .definition (some singlePoolName) : Except Err (Delegation Det)) = .error .delegation ∧
    decode detOps .cap (.obj [("a", .obj [(fieldPool, .str singlePoolName)])]) = .error .delegation := ⟨rfl, rfl⟩

/-! ## Rejections -/

/-- details of the other kind are rejected by `set_details`, whatever the format -/
theorem rejects_mixed_details (ops : DetailOps D) (d : Delegation D) (x : D) (h : ops.kindOf x ≠ d.ty) :
    setDetails ops d x = .error .delegation := by
  unfold setDetails; split <;> simp [h]

/-- a delegation of the other type is rejected by `add_delegations` -/
theorem rejects_mixed_container (ds : Delegations D) (d : Delegation D) (h : d.ty ≠ ds.ty) :
    addDelegation ds d = .error .assertion := by
  simp [addDelegation]; exact fun h' => absurd h' h

/-- a pool of the other type is rejected by `add_pool`, delegations of the other type by
`incorporate_delegation` -/
theorem rejects_mixed_pools (ps : Pools D) (p : Pool D) (ds : Delegations D) (node : String) :
    (p.ty ≠ ps.ty → addPool ps p = .error .pool) ∧ (ds.ty ≠ ps.ty → incorporate ps node ds = .error .pool) := by
  constructor <;> intro h <;> simp [addPool, incorporate, h]

def otherTy : DType → DType | .cap => .lab | .lab => .cap

theorem detailsKey_other_ne (ty : DType) :
    detailsKey (otherTy ty) ≠ detailsKey ty ∧ fieldPoolId ≠ detailsKey (otherTy ty) := by
  cases ty <;> exact ⟨by decide, by decide⟩

private theorem ite_err_ne_ok {ε α : Type} (c : Prop) [Decidable c] (a b : ε) (x : α) :
    (if c then (Except.error a : Except ε α) else Except.error b) ≠ Except.ok x := by
  split <;> exact fun h => nomatch h

/-- text written for one delegation type never decodes under the other type as soon as it carries any
details (a single-resource delegation or a pool definition): `KeyError` on the missing key -/
theorem decode_rejects_other_type (ops : DetailOps D) (ds : Delegations D) (h : WF ops ds)
    (d : Delegation D) (hd : d ∈ ds.items) (hfmt : d.fmt ≠ .reference) (r : Delegations D) :
    (encode ops ds).bind (decode ops (otherTy ds.ty)) ≠ .ok r := by
  rw [encode_wf ops ds h]
  simp only [Except.bind, decode]
  intro hok
  obtain ⟨b, b', hb⟩ := foldlM_ok_all _ _ _ _ hok (encPure ops ds.ty d) (List.mem_map.mpr ⟨d, hd, rfl⟩)
  obtain ⟨k1, k2⟩ := detailsKey_other_ne ds.ty
  have k3 := poolId_ne_detailsKey ds.ty
  cases hf : d.fmt with
  | reference => exact hfmt hf
  | single =>
    simp [encPure, hf, decodeEntry, lookup, k1, k1.symm, k2, k2.symm, k3, poolOf, bind, Except.bind] at hb
    exact ite_err_ne_ok _ _ _ _ hb
  | definition =>
    simp [encPure, hf, decodeEntry, lookup, k1, k1.symm, k2, k2.symm, k3, poolOf, bind, Except.bind] at hb
    exact ite_err_ne_ok _ _ _ _ hb

/-! `add_delegations(*args)` is modelled call by call (`addDelegations ds args`: the container afterwards and
the exception, if any). -/

/-- **the call is accepted exactly when** every argument has the container's type, no argument's id is already
in the container and no two arguments of the call share an id; then the arguments are appended in order -/
theorem add_delegations_accepts_iff (ds : Delegations D) (args : List (Delegation D)) :
    ((addDelegations ds args).2 = none ↔ CallOk ds args) ∧
    (CallOk ds args → (addDelegations ds args).1 = { ds with items := ds.items ++ args }) :=
  ⟨addDelegations_accepts_iff ds args, addDelegations_state_ok ds args⟩

/-- **duplicate ids are always rejected**, wherever the two holders of the id are: one in the container (an
earlier call) and one among the arguments, or both among the arguments of ONE call -/
theorem rejects_duplicate_id (ds : Delegations D) (args : List (Delegation D))
    (hdup : (∃ e ∈ ds.items, ∃ a ∈ args, e.id = a.id) ∨ ¬ args.Pairwise (fun a b => a.id ≠ b.id)) :
    (addDelegations ds args).2 ≠ none := by
  intro h
  obtain ⟨_, h2, h3⟩ := (addDelegations_accepts_iff ds args).mp h
  rcases hdup with ⟨e, he, a, ha, heq⟩ | hnp
  · exact h2 a ha e he heq
  · exact hnp h3

/-- the same by position: the arguments at any two positions of one call share an id ⇒ the call is rejected,
with `DelegationException` when all arguments have the container's type -/
theorem rejects_duplicate_in_call (ds : Delegations D) (pre mid post : List (Delegation D)) (a b : Delegation D)
    (hid : a.id = b.id) :
    (addDelegations ds (pre ++ a :: mid ++ b :: post)).2 ≠ none ∧
    ((∀ x ∈ pre ++ a :: mid ++ b :: post, x.ty = ds.ty) →
      (addDelegations ds (pre ++ a :: mid ++ b :: post)).2 = some .delegation) := by
  have hrej : (addDelegations ds (pre ++ a :: mid ++ b :: post)).2 ≠ none := by
    apply rejects_duplicate_id ds _ (Or.inr _)
    intro hp
    exact (List.pairwise_append.mp hp).2.2 a (by simp) b (by simp) hid
  refine ⟨hrej, fun hty => ?_⟩
  cases h : (addDelegations ds (pre ++ a :: mid ++ b :: post)).2 with
  | none => exact absurd h hrej
  | some e => rw [addDelegations_err_kind ds _ hty e h]

/-- across calls (the one-argument call): a second delegation under an id already present is rejected -/
theorem rejects_duplicate_across_calls (ds : Delegations D) (d e : Delegation D) (hty : d.ty = ds.ty)
    (he : e ∈ ds.items) (hid : e.id = d.id) : addDelegation ds d = .error .delegation := by
  have : hasId ds.items d.id = true := by
    simp only [hasId, List.any_eq_true]; exact ⟨e, he, by simp [hid]⟩
  simp [addDelegation, hty, this]

/-- a call in which some argument has the other type is rejected, wherever that argument stands -/
theorem rejects_mixed_in_call (ds : Delegations D) (args : List (Delegation D)) (a : Delegation D)
    (ha : a ∈ args) (hty : a.ty ≠ ds.ty) : (addDelegations ds args).2 ≠ none := by
  intro h
  exact hty (((addDelegations_accepts_iff ds args).mp h).1 a ha)

/-- what a call leaves behind (the code as it is: the loop stores argument by argument): the container plus
the longest prefix of the arguments that is acceptable; all of them iff the call is accepted -/
theorem add_delegations_state (ds : Delegations D) (args : List (Delegation D)) :
    ∃ pre suf, args = pre ++ suf ∧ (addDelegations ds args).1 = { ds with items := ds.items ++ pre } ∧
      CallOk ds pre ∧ ((addDelegations ds args).2 = none → suf = []) ∧
      ((addDelegations ds args).2 ≠ none → ∃ x rest, suf = x :: rest ∧ ¬ CallOk ds (pre ++ [x])) :=
  addDelegations_state_prefix ds args

/-- non-vacuity: `add_delegations(d1, d2, d1')` with `d1'.id = d1.id` keeps `d1, d2` and raises -/
example :
    let d1 : Delegation Det := { ty := .cap, id := "a", fmt := .single, pool := none, details := some capEx }
    let d2 : Delegation Det := { ty := .cap, id := "b", fmt := .reference, pool := some "p", details := none }
    let d3 : Delegation Det := { ty := .cap, id := "a", fmt := .reference, pool := some "p", details := none }
    addDelegations { ty := .cap, items := [] } [d1, d2, d3] = ({ ty := .cap, items := [d1, d2] }, some .delegation) := rfl

/-- details are never accepted on a pool reference (API) -/
theorem rejects_details_on_reference (ops : DetailOps D) (d : Delegation D) (x : D) (h : d.fmt = .reference) :
    setDetails ops d x = .error .delegation := by
  simp [setDetails, h]

/-- … nor from JSON: a text in which some entry is a reference (`pool` key, no `pool_id` key) that also
carries a `capacities` or `labels` key never decodes (repaired in /repo ff92b65; before, the details were
dropped silently) -/
theorem decode_rejects_details_on_reference (ops : DetailOps D) (ty : DType) (kvs : List (String × Deleg.JVal))
    (k : String) (e : List (String × Deleg.JVal)) (hk : (k, Deleg.JVal.obj e) ∈ kvs)
    (hnoid : lookup fieldPoolId e = none) (hpool : (lookup fieldPool e).isSome)
    (hdet : (lookup fieldCapacities e).isSome ∨ (lookup fieldLabels e).isSome) (r : Delegations D) :
    decode ops ty (.obj kvs) ≠ .ok r := by
  intro h
  obtain ⟨b, b', hb⟩ := foldlM_ok_all _ _ _ _ h _ hk
  cases hp : lookup fieldPool e with
  | none => simp [hp] at hpool
  | some pv =>
    rcases hdet with hd | hd <;> simp [decodeEntry, hnoid, hp, hd] at hb

/-- non-vacuity: `{"a": {"pool": "p", "capacities": {"core": 1}}}` -/
example : decode detOps .cap (.obj [("a", .obj [("pool", .str "p"), ("capacities", .obj [("core", .int 1)])])])
    = .error .delegation := rfl

/-! ## Pools → per-node delegations → pools -/

/-- every entry the family needs, with the pool it belongs to -/
theorem entry_pool (ty : DType) (P : List (Pool D)) (e : Entry D) (h : e ∈ allEntries ty P) :
    ∃ p ∈ P, e.2.pool = some p.pid ∧ e.2.id = p.deleg.getD "" ∧ e.2.ty = ty ∧
      ((e.2.fmt = .definition ∧ e = (p.on_.getD "", defEntry ty p)) ∨
       (e.2.fmt = .reference ∧ e.1 ∈ p.for_ ∧ e = (e.1, refEntry ty p))) := by
  obtain ⟨p, hp, h | ⟨n, hn, h⟩⟩ := (mem_allEntries ty P e).mp h <;> subst h
  · exact ⟨p, hp, rfl, rfl, rfl, Or.inl ⟨rfl, rfl⟩⟩
  · exact ⟨p, hp, rfl, rfl, rfl, Or.inr ⟨rfl, hn, rfl⟩⟩

/-- "the same pools": every pool is found again with the same type, defining node, delegation id, details and
reference *set*; nothing else is found; ids stay distinct -/
structure SamePools (P Q : List (Pool D)) : Prop where
  found : ∀ p ∈ P, ∃ q ∈ Q, q.pid = p.pid ∧ q.ty = p.ty ∧ q.on_ = p.on_ ∧ q.deleg = p.deleg ∧
    q.details = p.details ∧ ∀ n, n ∈ q.for_ ↔ n ∈ p.for_
  nothingElse : ∀ q ∈ Q, ∃ p ∈ P, p.pid = q.pid
  distinct : Distinct Q

/-- for a valid family in which no node needs two entries under one delegation id, `generate` succeeds and
the per-node dictionaries hold exactly (as a multiset) one definition per pool on its defining node and one
reference per pool on each node it applies to, each under the pool's delegation id -/
theorem generate_ok_of_noClash (ops : DetailOps D) (ty : DType) (P : List (Pool D))
    (hF : Family ops ty P) (hN : NoClash P) :
    ∃ ps R, buildPools ty P = .ok ps ∧ ps.byId = P ∧ generate ops ps = .ok R ∧ RInv ty R ∧
      (flat R).Perm (allEntries ty P) := by
  obtain ⟨idx, hb, hperm, hk⟩ := buildPools_ok ops ty P hF
  have hok : ∀ p ∈ flatIdx idx, PoolOk ops ty p := fun p hp => hF.ok p (hperm.mem_iff.mp hp)
  have hpe : (allEntries ty (flatIdx idx)).Perm (allEntries ty P) := List.Perm.flatMap_right _ hperm
  have hty : ∀ e ∈ allEntries ty (flatIdx idx), e.2.ty = ty := by
    intro e he
    obtain ⟨_, _, _, _, h, _⟩ := entry_pool ty _ e he
    exact h
  have hnd : ((flat ([] : NodeDelegs D) ++ allEntries ty (flatIdx idx)).map keyOf).Nodup := by
    have : flat ([] : NodeDelegs D) = [] := rfl
    rw [this, List.nil_append]
    apply (hpe.map keyOf).nodup_iff.mpr
    rw [keys_allEntries]; exact hN
  obtain ⟨R, hR, hinv, hp⟩ := (addAt_fold ty _ [] (rinv_nil ty) hty).1 hnd
  refine ⟨_, R, hb, rfl, ?_, hinv, ?_⟩
  · simp only [generate]
    rw [generate_flat ops ty idx [] hk hok]; exact hR
  · have : flat ([] : NodeDelegs D) = [] := rfl
    rw [this, List.nil_append] at hp
    exact hp.trans hpe

/-- … and otherwise `generate` raises (`DelegationException` from `add_delegations`) rather than
producing a dictionary that cannot hold the family -/
theorem generate_rejects_clash (ops : DetailOps D) (ty : DType) (P : List (Pool D))
    (hF : Family ops ty P) (hC : ¬ NoClash P) :
    ∃ ps, buildPools ty P = .ok ps ∧ generate ops ps = .error .delegation := by
  obtain ⟨idx, hb, hperm, hk⟩ := buildPools_ok ops ty P hF
  have hok : ∀ p ∈ flatIdx idx, PoolOk ops ty p := fun p hp => hF.ok p (hperm.mem_iff.mp hp)
  have hpe : (allEntries ty (flatIdx idx)).Perm (allEntries ty P) := List.Perm.flatMap_right _ hperm
  have hty : ∀ e ∈ allEntries ty (flatIdx idx), e.2.ty = ty := by
    intro e he
    obtain ⟨_, _, _, _, h, _⟩ := entry_pool ty _ e he
    exact h
  have hnd : ¬ ((flat ([] : NodeDelegs D) ++ allEntries ty (flatIdx idx)).map keyOf).Nodup := by
    have : flat ([] : NodeDelegs D) = [] := rfl
    rw [this, List.nil_append]
    intro h
    apply hC
    have := (hpe.map keyOf).nodup_iff.mp h
    rw [keys_allEntries] at this; exact this
  refine ⟨_, hb, ?_⟩
  simp only [generate]
  rw [generate_flat ops ty idx [] hk hok]
  exact (addAt_fold ty _ [] (rinv_nil ty) hty).2 hnd

/-- **reading back ANY arrangement of the family's entries reconstructs the family**: `R` is any sequence of
`incorporate_delegation(node, Delegations)` calls - the nodes in any order, the entries of a node in any order and even
spread over several calls, with any single-resource delegations in between (they are ignored) - whose definition /
reference entries are, as a multiset, exactly one definition per pool on its defining node and one reference per pool on
each node it applies to.  In particular a reference may be read before the definition of its pool, and several pools
may share defining / reference nodes. -/
theorem incorporate_with_singles (ops : DetailOps D) (ty : DType) (P : List (Pool D)) (R : NodeDelegs D)
    (hF : Family ops ty P) (hN : NoClash P) (hty : ∀ e ∈ R, e.2.ty = ty)
    (hperm : ((flat R).filter nonSingle).Perm (allEntries ty P)) :
    ∃ Q, incorporateAll (emptyPools ty) R = .ok Q ∧ Q.ty = ty ∧ SamePools P Q.byId := by
  have hmem1 : ∀ e ∈ flat R, e.2.fmt ≠ .single → e ∈ allEntries ty P := fun e he hf =>
    hperm.mem_iff.mp (List.mem_filter.mpr ⟨he, by simp [nonSingle, hf]⟩)
  have hmem2 : ∀ e ∈ allEntries ty P, e ∈ flat R := fun e he => (List.mem_filter.mp (hperm.mem_iff.mpr he)).1
  have hkeys : (((flat R).filter nonSingle).map keyOf).Nodup := by
    apply (hperm.map keyOf).nodup_iff.mpr
    rw [keys_allEntries]; exact hN
  have hinc : Incorporable ([] ++ flat R) := by
    rw [List.nil_append]
    exact incorporable_with_singles ops ty P (flat R) hF hmem1 hkeys
  obtain ⟨Q', hfold, hq⟩ := inc_fold ty (flat R) [] [] (qinv_nil ty) hinc
  rw [List.nil_append] at hq
  refine ⟨{ ty := ty, byId := Q', index := none }, ?_, rfl, ?_, ?_, hq.distinct⟩
  · unfold emptyPools
    rw [incorporateAll_flat ty R [] none hty, hfold]; rfl
  · intro p hp
    have hpok := hF.ok p hp
    have hdef : (p.on_.getD "", defEntry ty p) ∈ flat R :=
      hmem2 _ ((mem_allEntries ty P _).mpr ⟨p, hp, Or.inl rfl⟩)
    obtain ⟨q, hqm, hqpid⟩ := hq.present _ hdef (by simp [defEntry]) p.pid rfl
    obtain ⟨hpi, hdw, hqty⟩ := hq.pool q hqm
    refine ⟨q, hqm, hqpid, by rw [hqty, hpok.ty_], ?_, ?_, ?_, ?_⟩
    · have := (hpi.onDef _ hdef rfl (by simp [defEntry, hqpid])).1
      rw [this]
      cases hon : p.on_ with
      | none => exact absurd hon hpok.on_
      | some n => rfl
    · obtain ⟨s, hs, hsns, hsp, hsd⟩ := hdw
      obtain ⟨p', hp', hpool, hid, _, _⟩ := entry_pool ty P s (hmem1 s hs hsns)
      have : p' = p := distinct_eq hF.distinct hp' hp (by
        rw [hpool] at hsp; rw [← hqpid]; exact Option.some.inj hsp)
      subst this
      rw [hsd, hid]
      cases hd : p'.deleg with
      | none => exact absurd hd hpok.deleg
      | some k => rfl
    · exact (hpi.onDef _ hdef rfl (by simp [defEntry, hqpid])).2
    · intro n
      rw [hpi.refs n]
      constructor
      · rintro ⟨s, hs, hsn, hsf, hsp⟩
        obtain ⟨p', hp', hpool, _, _, h | ⟨_, hfor, _⟩⟩ := entry_pool ty P s (hmem1 s hs (by rw [hsf]; decide))
        · rw [h.1] at hsf; cases hsf
        · have : p' = p := distinct_eq hF.distinct hp' hp (by
            rw [hpool] at hsp; rw [← hqpid]; exact Option.some.inj hsp)
          subst this
          rw [← hsn]; exact hfor
      · intro hn
        exact ⟨(n, refEntry ty p), hmem2 _ ((mem_allEntries ty P _).mpr ⟨p, hp, Or.inr ⟨n, hn, rfl⟩⟩),
          rfl, rfl, by simp [refEntry, hqpid]⟩
  · intro q hqm
    obtain ⟨_, hdw, _⟩ := hq.pool q hqm
    obtain ⟨s, hs, hsns, hsp, _⟩ := hdw
    obtain ⟨p', hp', hpool, _⟩ := entry_pool ty P s (hmem1 s hs hsns)
    exact ⟨p', hp', by rw [hpool] at hsp; exact Option.some.inj hsp⟩

/-- the same without single-resource delegations: the entries of `R` are exactly the family's -/
theorem incorporate_any_arrangement (ops : DetailOps D) (ty : DType) (P : List (Pool D)) (R : NodeDelegs D)
    (hF : Family ops ty P) (hN : NoClash P) (hty : ∀ e ∈ R, e.2.ty = ty) (hperm : (flat R).Perm (allEntries ty P)) :
    ∃ Q, incorporateAll (emptyPools ty) R = .ok Q ∧ Q.ty = ty ∧ SamePools P Q.byId := by
  apply incorporate_with_singles ops ty P R hF hN hty
  have : (flat R).filter nonSingle = flat R :=
    List.filter_eq_self.mpr (fun e he => nonSingle_allEntries ty P e (hperm.mem_iff.mp he))
  rw [this]; exact hperm

/-- reading back a per-node dictionary `R` (each node once) of exactly the family's entries reconstructs the family -/
theorem incorporate_entries (ops : DetailOps D) (ty : DType) (P : List (Pool D)) (R : NodeDelegs D)
    (hF : Family ops ty P) (hinv : RInv ty R) (hperm : (flat R).Perm (allEntries ty P)) :
    ∃ Q, incorporateAll (emptyPools ty) R = .ok Q ∧ Q.ty = ty ∧ SamePools P Q.byId := by
  have hN : NoClash P := by
    have := (hperm.map keyOf).nodup_iff.mp hinv.keys
    rw [keys_allEntries] at this; exact this
  exact incorporate_any_arrangement ops ty P R hF hN hinv.ty_ hperm

/-- **pools round trip**: for every family of valid pools with distinct ids in which no node needs two
entries under one delegation id, turning the pools into per-node delegations and incorporating those, node
by node in dictionary order, reconstructs the same pools.  (`Pool.for_` is a Python set: any iteration order
of it is some list `p.for_`, so the statement covers every order `generate` can produce.) -/
theorem pools_roundtrip (ops : DetailOps D) (ty : DType) (P : List (Pool D)) (hF : Family ops ty P) (hN : NoClash P) :
    ∃ ps R Q, buildPools ty P = .ok ps ∧ generate ops ps = .ok R ∧
      incorporateAll (emptyPools ty) R = .ok Q ∧ Q.ty = ty ∧ SamePools P Q.byId := by
  obtain ⟨ps, R, hb, _, hg, hinv, hperm⟩ := generate_ok_of_noClash ops ty P hF hN
  obtain ⟨Q, hi, hty, hs⟩ := incorporate_entries ops ty P R hF hinv hperm
  exact ⟨ps, R, Q, hb, hg, hi, hty, hs⟩

/-- **the pools clause at full strength**: `generate_delegations_by_node_id` yields per-node dictionaries `R` holding
exactly one definition per pool on its defining node and one reference on each node it applies to (`RInv`: every node
once, ids distinct inside a node; `flat R ~ allEntries`), and incorporating the nodes of `R` in ANY order (`R'.Perm R`)
reconstructs the same pools: same defining node, reference set, delegation id and details (`SamePools`) -/
theorem pools_roundtrip_any_order (ops : DetailOps D) (ty : DType) (P : List (Pool D)) (hF : Family ops ty P) (hN : NoClash P) :
    ∃ ps R, buildPools ty P = .ok ps ∧ generate ops ps = .ok R ∧ RInv ty R ∧ (flat R).Perm (allEntries ty P) ∧
      ∀ R', R'.Perm R → ∃ Q, incorporateAll (emptyPools ty) R' = .ok Q ∧ Q.ty = ty ∧ SamePools P Q.byId := by
  obtain ⟨ps, R, hb, _, hg, hinv, hperm⟩ := generate_ok_of_noClash ops ty P hF hN
  refine ⟨ps, R, hb, hg, hinv, hperm, fun R' hR' => ?_⟩
  exact incorporate_any_arrangement ops ty P R' hF hN (fun e he => hinv.ty_ e (hR'.mem_iff.mp he))
    ((flat_perm hR').trans hperm)

/-- the two-pool family of `delegation_label_test.testPools`: node1 defines pool1 and references pool2, node2
defines pool2 and references pool1, node3 references both - under two delegation ids -/
def poolsEx : List (Pool Det) := [
  { ty := .lab, pid := "pool1", deleg := some "del1", on_ := some "node1", for_ := ["node2", "node3"], details := some labEx },
  { ty := .lab, pid := "pool2", deleg := some "del2", on_ := some "node2", for_ := ["node1", "node3"], details := some labEx }]

theorem poolsEx_family : Family detOps .lab poolsEx := by
  refine ⟨?_, by unfold Distinct; decide⟩
  intro p hp
  simp only [poolsEx, List.mem_cons, List.not_mem_nil, or_false] at hp
  rcases hp with rfl | rfl <;> exact ⟨rfl, by decide, by simp, by simp, by simp, rfl⟩

/-- non-vacuity of `generate_ok_of_noClash` / `pools_roundtrip` / `pools_roundtrip_any_order` -/
example : Family detOps .lab poolsEx ∧ NoClash poolsEx := ⟨poolsEx_family, by decide⟩

/-- three pools sharing nodes, two of them under one delegation id (cf. seeded C12-r3-3): `n1` defines `pa` and `pc`
(under different ids), references `pb`; `n2` defines `pb`, references `pa`, `pc`; `n3` references all three -/
def sharedEx : List (Pool Det) := [
  { ty := .lab, pid := "pa", deleg := some "d1", on_ := some "n1", for_ := ["n2", "n3"], details := some labEx },
  { ty := .lab, pid := "pb", deleg := some "d2", on_ := some "n2", for_ := ["n3", "n1"], details := some labEx },
  { ty := .lab, pid := "pc", deleg := some "d3", on_ := some "n1", for_ := ["n3", "n2"], details := some labEx }]

example : Family detOps .lab sharedEx ∧ NoClash sharedEx := by
  refine ⟨⟨?_, by unfold Distinct; decide⟩, by decide⟩
  intro p hp
  simp only [sharedEx, List.mem_cons, List.not_mem_nil, or_false] at hp
  rcases hp with rfl | rfl | rfl <;> exact ⟨rfl, by decide, by simp, by simp, by simp, rfl⟩

/-- … read back with the reference-only node first, i.e. every reference before the definition of its pool, and the
entries of `n1` spread over two `incorporate_delegation` calls: the same three pools (executed on the model) -/
def refD (id pool : String) : Delegation Det := { ty := .lab, id := id, fmt := .reference, pool := some pool, details := none }
def dfnD (id pool : String) : Delegation Det := { ty := .lab, id := id, fmt := .definition, pool := some pool, details := some labEx }
example :
    (incorporateAll (emptyPools .lab) [
      ("n3", { ty := .lab, items := [refD "d3" "pc", refD "d1" "pa", refD "d2" "pb"] }),
      ("n1", { ty := .lab, items := [refD "d2" "pb"] }),
      ("n2", { ty := .lab, items := [refD "d3" "pc", dfnD "d2" "pb", refD "d1" "pa"] }),
      ("n1", { ty := .lab, items := [dfnD "d3" "pc", dfnD "d1" "pa"] })]).map (·.byId)
    = .ok [
      { ty := .lab, pid := "pc", deleg := some "d3", on_ := some "n1", for_ := ["n3", "n2"], details := some labEx },
      { ty := .lab, pid := "pa", deleg := some "d1", on_ := some "n1", for_ := ["n3", "n2"], details := some labEx },
      { ty := .lab, pid := "pb", deleg := some "d2", on_ := some "n2", for_ := ["n3", "n1"], details := some labEx }] := rfl

/-- the same two pools under ONE delegation id: node1 would need a definition and a reference under `del1` -/
def clashEx : List (Pool Det) := poolsEx.map (fun p => { p with deleg := some "del1" })

/-- non-vacuity of `generate_rejects_clash` -/
example : Family detOps .lab clashEx ∧ ¬ NoClash clashEx := by
  refine ⟨⟨?_, by unfold Distinct; decide⟩, by decide⟩
  intro p hp
  simp only [clashEx, poolsEx, List.map_cons, List.map_nil, List.mem_cons, List.not_mem_nil, or_false] at hp
  rcases hp with rfl | rfl <;> exact ⟨rfl, by decide, by simp, by simp, by simp, rfl⟩

/-! ### … through the JSON text of every node (`to_json` / `from_json` between `generate` and `incorporate`)

A pool named `"_"` used to be lost here (former known finding `C12:pools:pool-named-single-sentinel`); such a pool
cannot exist any more (`reserved_name_rejected`, `PoolOk.name`), so the statement is the full one. -/

/-- every per-node dictionary holding entries of the family is a well-formed set -/
theorem generated_wf (ops : DetailOps D) (ty : DType) (P : List (Pool D)) (R : NodeDelegs D) (hF : Family ops ty P)
    (hT : ∀ p ∈ P, DetOk ops ty p.details)
    (hinv : RInv ty R) (hmem : ∀ e ∈ flat R, e ∈ allEntries ty P) : ∀ e ∈ R, WF ops e.2 := by
  intro e he
  refine ⟨?_, items_ids_distinct R hinv.keys e he⟩
  intro d hd
  rw [hinv.ty_ e he]
  obtain ⟨p, hp, _, _, hty, h | h⟩ := entry_pool ty P (e.1, d) (hmem _ ((mem_flat R e.1 d).mpr ⟨e, he, rfl, hd⟩))
  · have hd' : d = defEntry ty p := (Prod.mk.inj h.2).2
    subst hd'
    exact ⟨rfl, (hF.ok p hp).name, hT p hp⟩
  · have hd' : d = refEntry ty p := (Prod.mk.inj h.2.2).2
    subst hd'
    exact ⟨rfl, (hF.ok p hp).name, rfl⟩

theorem recode_id (ops : DetailOps D) (ty : DType) (R : NodeDelegs D) (hty : ∀ e ∈ R, e.2.ty = ty)
    (hwf : ∀ e ∈ R, WF ops e.2) : recode ops ty R = .ok R := by
  unfold recode
  rw [mapM_ok_of_forall _ id R]
  · simp
  · intro e he
    have h := delegations_roundtrip ops e.2 (hwf e he)
    rw [hty e he] at h
    cases hj : encode ops e.2 with
    | error err => simp [hj, Except.bind] at h
    | ok j =>
      simp only [hj, Except.bind] at h
      simp [hj, h, bind, Except.bind, pure, Except.pure]

/-- **pools → per-node delegations → text → delegations → pools, the nodes read in any order**: for every valid
clash-free family whose details survive their own codec, every node's dictionary decodes from its text to itself and
incorporating the decoded dictionaries in any order of the nodes reconstructs the same pools -/
theorem pools_roundtrip_text (ops : DetailOps D) (ty : DType) (P : List (Pool D))
    (hF : Family ops ty P) (hN : NoClash P) (hT : ∀ p ∈ P, DetOk ops ty p.details) :
    ∃ ps R, buildPools ty P = .ok ps ∧ generate ops ps = .ok R ∧
      ∀ R', R'.Perm R → recode ops ty R' = .ok R' ∧
        ∃ Q, incorporateAll (emptyPools ty) R' = .ok Q ∧ Q.ty = ty ∧ SamePools P Q.byId := by
  obtain ⟨ps, R, hb, hg, hinv, hperm, hall⟩ := pools_roundtrip_any_order ops ty P hF hN
  refine ⟨ps, R, hb, hg, fun R' hR' => ⟨?_, hall R' hR'⟩⟩
  have hinv' := rinv_perm ty hR' hinv
  have hwf := generated_wf ops ty P R' hF hT hinv' (fun e he => ((flat_perm hR').trans hperm).mem_iff.mp he)
  exact recode_id ops ty R' hinv'.ty_ hwf

/-- non-vacuity of the extra hypothesis -/
example : ∀ p ∈ poolsEx, DetOk detOps .lab p.details := by
  intro p hp
  simp only [poolsEx, List.mem_cons, List.not_mem_nil, or_false] at hp
  rcases hp with rfl | rfl <;> exact det_roundtrip.2

/-- the former counterexample (corpus/C12/pool_family_underscore.json): the family with a pool named `"_"` is refused
by `add_pool` (and `Pool(...)`) instead of being lost on the way through the text -/
def famU : List (Pool Det) :=
  [{ ty := .cap, pid := singlePoolName, deleg := some "del1", on_ := some "node1", for_ := ["node2"], details := some capEx }]
example : buildPools .cap famU = .error .pool := rfl

/-! ## Onto the model and back: `annotate_delegations_and_pools` / `get_delegations`

`SubstrateTopology.single_delegation` hands `annotate_delegations_and_pools` the pools and, for every element that has
capacities / labels of its own, a `Delegations` holding one single-resource delegation; the method writes `to_json()` of
every node's `Delegations` as the node's delegations property, `get_delegations` reads a node back with `from_json`. -/

/-- the nodes `generate_delegations_by_node_id` produces dictionaries for are defining / reference nodes of the pools -/
theorem generate_nodes (ops : DetailOps D) (ty : DType) (P : List (Pool D)) (hF : Family ops ty P) (ps : Pools D)
    (R : NodeDelegs D) (hb : buildPools ty P = .ok ps) (hg : generate ops ps = .ok R) :
    ∀ b ∈ R, ∃ p ∈ P, some b.1 = p.on_ ∨ b.1 ∈ p.for_ := by
  obtain ⟨idx, hb', hperm, hk⟩ := buildPools_ok ops ty P hF
  rw [hb] at hb'; injection hb' with hb'; subst hb'
  have hok : ∀ p ∈ flatIdx idx, PoolOk ops ty p := fun p hp => hF.ok p (hperm.mem_iff.mp hp)
  simp only [generate] at hg
  rw [generate_flat ops ty idx [] hk hok] at hg
  intro b hb
  rcases addAt_fold_nodes ty _ [] R hg b hb with ⟨e, he, heb⟩ | ⟨b0, hb0, _⟩
  · obtain ⟨p, hp, h | ⟨n, hn, h⟩⟩ := (mem_allEntries ty _ e).mp he
    · refine ⟨p, hperm.mem_iff.mp hp, Or.inl ?_⟩
      rw [← heb, h]
      cases hon : p.on_ with
      | none => exact absurd hon (hok p hp).on_
      | some n => rfl
    · exact ⟨p, hperm.mem_iff.mp hp, Or.inr (by rw [← heb, h]; exact hn)⟩
  · cases hb0

/-- writing well-formed dictionaries and reading them back gives the same dictionaries -/
theorem write_read (ops : DetailOps D) (ty : DType) (L : NodeDelegs D) (hty : ∀ e ∈ L, e.2.ty = ty)
    (hwf : ∀ e ∈ L, WF ops e.2) :
    ∃ w, L.mapM (writeNode ops) = .ok w ∧ readAll ops ty w = .ok L := by
  induction L with
  | nil => exact ⟨[], rfl, rfl⟩
  | cons e L ih =>
    obtain ⟨w, hw, hr⟩ := ih (fun x hx => hty x (by simp [hx])) (fun x hx => hwf x (by simp [hx]))
    have h := delegations_roundtrip ops e.2 (hwf e (by simp))
    rw [hty e (by simp)] at h
    cases hj : encode ops e.2 with
    | error err => simp [hj, Except.bind] at h
    | ok j =>
      simp only [hj, Except.bind] at h
      have h1 : writeNode ops e = .ok (e.1, j) := by simp [writeNode, hj, bind, Except.bind, pure, Except.pure]
      have h2 : readNode ops ty (e.1, j) = .ok e := by simp [readNode, h, bind, Except.bind, pure, Except.pure]
      refine ⟨(e.1, j) :: w, ?_, ?_⟩
      · rw [List.mapM_cons, h1, hw]; rfl
      · unfold readAll at hr ⊢
        rw [List.mapM_cons, h2, hr]; rfl

/-- what `single_delegation` hands over: per node (each node once, none of them a defining / reference node of a pool) a
`Delegations` of the pools' type that holds single-resource delegations only -/
structure SinglesOk (ty : DType) (P : List (Pool D)) (dels : NodeDelegs D) : Prop where
  ty_ : ∀ e ∈ dels, e.2.ty = ty
  single : ∀ e ∈ dels, ∀ d ∈ e.2.items, d.fmt = .single
  nodes : dels.Pairwise (fun a b => a.1 ≠ b.1)
  apart : ∀ e ∈ dels, ∀ p ∈ P, some e.1 ≠ p.on_ ∧ e.1 ∉ p.for_

/-- **pools and single-resource delegations written onto a model and read back**: for every valid clash-free family
(details surviving their codec) and single-resource delegations on other nodes, `annotate_delegations_and_pools` succeeds
and writes, under the property of the pools' type, texts from which `get_delegations` returns for every node exactly the
`Delegations` it was given - the generated pool entries `R` and each element's own single-resource delegation - and
incorporating what was read, the nodes in any order, reconstructs the same pools (single-resource delegations are ignored) -/
theorem annotate_readback (ops : DetailOps D) (ty : DType) (P : List (Pool D)) (dels : NodeDelegs D)
    (hF : Family ops ty P) (hN : NoClash P) (hT : ∀ p ∈ P, DetOk ops ty p.details) (hS : SinglesOk ty P dels)
    (hW : ∀ e ∈ dels, WF ops e.2) :
    ∃ ps R w, buildPools ty P = .ok ps ∧ generate ops ps = .ok R ∧ annotate ops ps dels = .ok (ty, w) ∧
      readAll ops ty w = .ok (R ++ dels) ∧
      ∀ R', R'.Perm (R ++ dels) → ∃ Q, incorporateAll (emptyPools ty) R' = .ok Q ∧ Q.ty = ty ∧ SamePools P Q.byId := by
  obtain ⟨ps, R, hb, hbyid, hg, hinv, hperm⟩ := generate_ok_of_noClash ops ty P hF hN
  have hpty : ps.ty = ty := by
    obtain ⟨idx, hb', _, _⟩ := buildPools_ok ops ty P hF
    rw [hb] at hb'; injection hb' with hb'; rw [hb']
  have hnodes := generate_nodes ops ty P hF ps R hb hg
  have hmerge : mergeSingles R dels = .ok (R ++ dels) := by
    apply mergeSingles_ok R dels ?_ hS.nodes
    intro e he b hb' hbe
    obtain ⟨p, hp, h | h⟩ := hnodes b hb'
    · exact (hS.apart e he p hp).1 (by rw [← hbe]; exact h)
    · exact (hS.apart e he p hp).2 (by rw [← hbe]; exact h)
  have hwfR := generated_wf ops ty P R hF hT hinv (fun e he => hperm.mem_iff.mp he)
  have hwf : ∀ e ∈ R ++ dels, WF ops e.2 := fun e he =>
    (List.mem_append.mp he).elim (hwfR e) (hW e)
  have htyA : ∀ e ∈ R ++ dels, e.2.ty = ty := fun e he =>
    (List.mem_append.mp he).elim (hinv.ty_ e) (hS.ty_ e)
  obtain ⟨w, hw, hr⟩ := write_read ops ty (R ++ dels) htyA hwf
  refine ⟨ps, R, w, hb, hg, ?_, hr, fun R' hR' => ?_⟩
  · simp only [annotate, hg, hmerge, hw, hpty, bind, Except.bind, pure, Except.pure]
  · apply incorporate_with_singles ops ty P R' hF hN (fun e he => htyA e (hR'.mem_iff.mp he))
    have h1 : ((flat R').filter nonSingle).Perm ((flat (R ++ dels)).filter nonSingle) := (flat_perm hR').filter _
    have h2 : (flat (R ++ dels)).filter nonSingle = flat R := by
      rw [flat_append, List.filter_append, filter_flat_singles dels hS.single, List.append_nil]
      exact List.filter_eq_self.mpr (fun e he => nonSingle_allEntries ty P e (hperm.mem_iff.mp he))
    rw [h2] at h1
    exact h1.trans hperm

/-- … and a node cannot carry both: single-resource delegations for a node that has pool entries are refused
(`PropertyGraphQueryException`), nothing is written -/
theorem annotate_rejects_shared_node (ops : DetailOps D) (ps : Pools D) (R dels : NodeDelegs D)
    (hg : generate ops ps = .ok R) (e : String × Delegations D) (he : e ∈ dels) (b : String × Delegations D) (hb : b ∈ R)
    (hbe : b.1 = e.1) : annotate ops ps dels = .error .query := by
  simp only [annotate, hg, mergeSingles_clash R dels e he b hb hbe, bind, Except.bind]

/-! ### `SubstrateTopology.single_delegation` -/

/-- the elements of a topology as `single_delegation` needs them for delegation type `ty`: distinct node ids; whatever an
element has as capacities / labels of its own is of the right kind, not empty and survives its codec; an element that gets
a single-resource delegation is not a defining / reference node of a pool -/
structure ElemsOk (ops : DetailOps D) (ty : DType) (P : List (Pool D)) (elems : List (Elem D)) : Prop where
  nodes : (elems.map (·.node)).Nodup
  own : ∀ e ∈ elems, ∀ x, e.own ty = some x → DetOk ops ty (some x)
  apart : ∀ e ∈ elems, e.stitch = false → (e.own ty).isSome → ∀ p ∈ P, some e.node ≠ p.on_ ∧ e.node ∉ p.for_

/-- **`single_delegation` for one delegation type, written and read back**: every element that is not a stitch node and has
capacities / labels of its own gets exactly one single-resource delegation under the delegation id carrying those details
(`collected`), the pools get their definition / reference entries, all of it is written, `get_delegations` returns for every
node exactly what was written for it, and incorporating what was read (nodes in any order) reconstructs the pools -/
theorem single_delegation_readback (ops : DetailOps D) (ty : DType) (did : String) (P : List (Pool D)) (elems : List (Elem D))
    (hF : Family ops ty P) (hN : NoClash P) (hT : ∀ p ∈ P, DetOk ops ty p.details) (hE : ElemsOk ops ty P elems) :
    ∃ ps R w, buildPools ty P = .ok ps ∧ generate ops ps = .ok R ∧
      singlesOf ops ty did elems = .ok (elems.filterMap (collected ty did)) ∧
      annotate ops ps (elems.filterMap (collected ty did)) = .ok (ty, w) ∧
      readAll ops ty w = .ok (R ++ elems.filterMap (collected ty did)) ∧
      ∀ R', R'.Perm (R ++ elems.filterMap (collected ty did)) →
        ∃ Q, incorporateAll (emptyPools ty) R' = .ok Q ∧ Q.ty = ty ∧ SamePools P Q.byId := by
  have hk : ∀ e ∈ elems, ∀ x, e.own ty = some x → ops.kindOf x = ty := fun e he x hx => (hE.own e he x hx).1
  have hs := singlesOf_spec ops ty did elems hE.nodes hk
  have hS : SinglesOk ty P (elems.filterMap (collected ty did)) := by
    refine ⟨?_, ?_, collected_nodes_pairwise ty did elems hE.nodes, ?_⟩
    · intro p hp
      obtain ⟨e, _, _, x, _, rfl⟩ := mem_collected ty did elems p hp
      rfl
    · intro p hp d hd
      obtain ⟨e, _, _, x, _, rfl⟩ := mem_collected ty did elems p hp
      simp only [singleOf, List.mem_singleton] at hd
      subst hd; rfl
    · intro p hp q hq
      obtain ⟨e, he, hst, x, hx, rfl⟩ := mem_collected ty did elems p hp
      exact hE.apart e he hst (by simp [hx]) q hq
  have hW : ∀ p ∈ elems.filterMap (collected ty did), WF ops p.2 := by
    intro p hp
    obtain ⟨e, he, _, x, hx, rfl⟩ := mem_collected ty did elems p hp
    refine ⟨fun d hd => ?_, by simp [singleOf]⟩
    simp only [singleOf, List.mem_singleton] at hd
    subst hd
    exact ⟨rfl, rfl, hE.own e he x hx⟩
  obtain ⟨ps, R, w, hb, hg, ha, hr, hall⟩ := annotate_readback ops ty P _ hF hN hT hS hW
  exact ⟨ps, R, w, hb, hg, hs, ha, hr, hall⟩

/-- **the whole of `single_delegation`** (capacities, then labels): both passes succeed and write what
`single_delegation_readback` describes, each under the property of its own type -/
theorem single_delegation_both (ops : DetailOps D) (did : String) (Pc Pl : List (Pool D)) (elems : List (Elem D))
    (hFc : Family ops .cap Pc) (hNc : NoClash Pc) (hTc : ∀ p ∈ Pc, DetOk ops .cap p.details) (hEc : ElemsOk ops .cap Pc elems)
    (hFl : Family ops .lab Pl) (hNl : NoClash Pl) (hTl : ∀ p ∈ Pl, DetOk ops .lab p.details) (hEl : ElemsOk ops .lab Pl elems) :
    ∃ pc pl Rc Rl wc wl, buildPools .cap Pc = .ok pc ∧ buildPools .lab Pl = .ok pl ∧
      generate ops pc = .ok Rc ∧ generate ops pl = .ok Rl ∧
      singleDelegation ops did elems pl pc = .ok [(.cap, wc), (.lab, wl)] ∧
      readAll ops .cap wc = .ok (Rc ++ elems.filterMap (collected .cap did)) ∧
      readAll ops .lab wl = .ok (Rl ++ elems.filterMap (collected .lab did)) := by
  obtain ⟨pc, Rc, wc, hbc, hgc, hsc, hac, hrc, _⟩ := single_delegation_readback ops .cap did Pc elems hFc hNc hTc hEc
  obtain ⟨pl, Rl, wl, hbl, hgl, hsl, hal, hrl, _⟩ := single_delegation_readback ops .lab did Pl elems hFl hNl hTl hEl
  have htc : pc.ty = .cap := by
    obtain ⟨idx, hb', _, _⟩ := buildPools_ok ops .cap Pc hFc
    rw [hbc] at hb'; injection hb' with hb'; rw [hb']
  have htl : pl.ty = .lab := by
    obtain ⟨idx, hb', _, _⟩ := buildPools_ok ops .lab Pl hFl
    rw [hbl] at hb'; injection hb' with hb'; rw [hb']
  refine ⟨pc, pl, Rc, Rl, wc, wl, hbc, hbl, hgc, hgl, ?_, hrc, hrl⟩
  simp [singleDelegation, htc, htl, hsc, hac, hsl, hal, bind, Except.bind, pure, Except.pure]

/-- non-vacuity of `ElemsOk`: a worker with labels of its own, a stitch switch port that is a pool node -/
example : ElemsOk detOps .lab poolsEx
    [{ node := "w1", stitch := false, caps := none, labs := some labEx },
     { node := "node1", stitch := true, caps := none, labs := none },
     { node := "w2", stitch := false, caps := some capEx, labs := none }] := by
  refine ⟨by decide, ?_, ?_⟩
  · intro e he x hx
    simp only [List.mem_cons, List.not_mem_nil, or_false] at he
    rcases he with rfl | rfl | rfl <;> simp [Elem.own] at hx
    subst hx; exact det_roundtrip.2
  · intro e he hst hown p hp
    simp only [List.mem_cons, List.not_mem_nil, or_false] at he
    simp only [poolsEx, List.mem_cons, List.not_mem_nil, or_false] at hp
    rcases he with rfl | rfl | rfl
    · rcases hp with rfl | rfl <;> exact ⟨by decide, by decide⟩
    · cases hst
    · simp [Elem.own] at hown

/-- non-vacuity of `annotate_readback`: the two pools of `testPools` and two elements with capacities of their own -/
def singlesEx : NodeDelegs Det :=
  [("w1", { ty := .lab, items := [{ ty := .lab, id := "primary", fmt := .single, pool := none, details := some labEx }] }),
   ("w1-nic", { ty := .lab, items := [{ ty := .lab, id := "primary", fmt := .single, pool := none, details := some labEx }] })]

example : ∀ e ∈ singlesEx, WF detOps e.2 := by
  intro e he
  simp only [singlesEx, List.mem_cons, List.not_mem_nil, or_false] at he
  rcases he with rfl | rfl <;> refine ⟨fun d hd => ?_, by simp⟩ <;>
    (simp only [List.mem_singleton] at hd; subst hd; exact ⟨rfl, rfl, det_roundtrip.2⟩)

example : SinglesOk .lab poolsEx singlesEx := by
  refine ⟨?_, ?_, by decide, ?_⟩ <;> simp only [singlesEx]
  · intro e he
    simp only [List.mem_cons, List.not_mem_nil, or_false] at he
    rcases he with rfl | rfl <;> rfl
  · intro e he d hd
    simp only [List.mem_cons, List.not_mem_nil, or_false] at he
    rcases he with rfl | rfl <;> (simp only [List.mem_singleton] at hd; subst hd; rfl)
  · intro e he p hp
    simp only [List.mem_cons, List.not_mem_nil, or_false] at he
    simp only [poolsEx, List.mem_cons, List.not_mem_nil, or_false] at hp
    rcases he with rfl | rfl <;> rcases hp with rfl | rfl <;> exact ⟨by decide, by decide⟩

/-! ## Real details: `Capacities` / `Labels` as modelled and proved lossless by C03

`cOps valid` is the C03 codec on the regenerated class specifications (`valid` = the label validators, abstract).
`RealDetails valid ty x`: `x` is an instance of the class of `ty`, every field at its default or at a value of the
documented domain accepted by `valid` (C03's `WellTyped`), not all fields at their default. -/

/-- a delegation set of the property's quantifier, with real details -/
def RealSet (valid : String → CVal → Bool) (ds : Delegations CDet) : Prop :=
  (∀ d ∈ ds.items, d.ty = ds.ty ∧
    match d.fmt with
    | .single => d.pool = none ∧ ∃ x, d.details = some x ∧ RealDetails valid ds.ty x
    | .definition => (match d.pool with | none => False | some p => p ≠ singlePoolName) ∧
        ∃ x, d.details = some x ∧ RealDetails valid ds.ty x
    | .reference => (match d.pool with | none => False | some p => p ≠ singlePoolName) ∧ d.details = none) ∧
  ds.items.Pairwise (fun a b => a.id ≠ b.id)

theorem realSet_wf (valid : String → CVal → Bool) (ds : Delegations CDet) (h : RealSet valid ds) : WF (cOps valid) ds := by
  refine ⟨fun d hd => ?_, h.2⟩
  obtain ⟨hty, hm⟩ := h.1 d hd
  refine ⟨hty, ?_⟩
  cases hf : d.fmt <;> simp only [hf] at hm ⊢
  · obtain ⟨hp, x, hx, hr⟩ := hm
    exact ⟨hp, by rw [hx]; exact detOk_real valid ds.ty x hr⟩
  · exact hm
  · obtain ⟨hp, x, hx, hr⟩ := hm
    exact ⟨hp, by rw [hx]; exact detOk_real valid ds.ty x hr⟩

/-- **the codec clause for real details, no hypothesis about the details' own codec**: every set of single-resource
delegations, pool definitions and pool references with distinct ids whose details are real `Capacities` / `Labels`
values decodes from its encoding to exactly itself -/
theorem delegations_roundtrip_real (valid : String → CVal → Bool) (ds : Delegations CDet) (h : RealSet valid ds) :
    (encode (cOps valid) ds).bind (decode (cOps valid) ds.ty) = .ok ds :=
  delegations_roundtrip (cOps valid) ds (realSet_wf valid ds h)

/-- real details survive their codec in the sense of `Complete` -/
theorem survives_real (valid : String → CVal → Bool) (ty : DType) (x : CDet) (h : RealDetails valid ty x) :
    Survives (cOps valid) x := by
  obtain ⟨hk, hj⟩ := detOk_real valid ty x h
  unfold Survives
  cases hd : (cOps valid).toDict x with
  | none => simp [hd] at hj
  | some j =>
    simp only [hd] at hj ⊢
    have : (cOps valid).kindOf x = ty := hk
    rw [this]; exact hj

/-- **the codec clause over all API histories, for real details**: whatever `add_delegations` calls were made with
constructed delegations, if every single-resource delegation / definition had real `Capacities` / `Labels` details set
(and no single-resource delegation a pool name) the container decodes from its encoding to itself -/
theorem delegations_roundtrip_api_real (valid : String → CVal → Bool) (ty : DType) (ds : Delegations CDet)
    (hr : Reachable ty ds) (hb : ∀ d ∈ ds.items, Built (cOps valid) d)
    (hc : ∀ d ∈ ds.items, (d.fmt ≠ .reference → ∃ x, d.details = some x ∧ RealDetails valid ty x) ∧ (d.fmt = .single → d.pool = none)) :
    (encode (cOps valid) ds).bind (decode (cOps valid) ty) = .ok ds :=
  delegations_roundtrip_api (cOps valid) ty ds hr hb (fun d hd =>
    ⟨fun hf => let ⟨x, hx, hr⟩ := (hc d hd).1 hf; ⟨x, hx, survives_real valid ty x hr⟩, (hc d hd).2⟩)

/-- a family of pools of the property's quantifier, with real details -/
structure RealFamily (valid : String → CVal → Bool) (ty : DType) (P : List (Pool CDet)) : Prop where
  family : Family (cOps valid) ty P
  details : ∀ p ∈ P, ∃ x, p.details = some x ∧ RealDetails valid ty x

/-- **the pools clause for real details, through the text, any order of nodes, no codec hypothesis** -/
theorem pools_roundtrip_text_real (valid : String → CVal → Bool) (ty : DType) (P : List (Pool CDet))
    (hF : RealFamily valid ty P) (hN : NoClash P) :
    ∃ ps R, buildPools ty P = .ok ps ∧ generate (cOps valid) ps = .ok R ∧ RInv ty R ∧ (flat R).Perm (allEntries ty P) ∧
      ∀ R', R'.Perm R → recode (cOps valid) ty R' = .ok R' ∧
        ∃ Q, incorporateAll (emptyPools ty) R' = .ok Q ∧ Q.ty = ty ∧ SamePools P Q.byId := by
  obtain ⟨ps, R, hb, hg, hinv, hperm, _⟩ := pools_roundtrip_any_order (cOps valid) ty P hF.family hN
  have hT : ∀ p ∈ P, DetOk (cOps valid) ty p.details := by
    intro p hp
    obtain ⟨x, hx, hr⟩ := hF.details p hp
    rw [hx]; exact detOk_real valid ty x hr
  obtain ⟨ps', R2, hb', hg', hall⟩ := pools_roundtrip_text (cOps valid) ty P hF.family hN hT
  rw [hb] at hb'; injection hb' with hb'; subst hb'
  rw [hg] at hg'; injection hg' with hg'; subst hg'
  exact ⟨ps, R, hb, hg, hinv, hperm, hall⟩

/-- **onto the model and back for real details, no codec hypothesis** -/
theorem annotate_readback_real (valid : String → CVal → Bool) (ty : DType) (P : List (Pool CDet)) (dels : NodeDelegs CDet)
    (hF : RealFamily valid ty P) (hN : NoClash P) (hS : SinglesOk ty P dels) (hW : ∀ e ∈ dels, RealSet valid e.2) :
    ∃ ps R w, buildPools ty P = .ok ps ∧ generate (cOps valid) ps = .ok R ∧ annotate (cOps valid) ps dels = .ok (ty, w) ∧
      readAll (cOps valid) ty w = .ok (R ++ dels) ∧
      ∀ R', R'.Perm (R ++ dels) → ∃ Q, incorporateAll (emptyPools ty) R' = .ok Q ∧ Q.ty = ty ∧ SamePools P Q.byId := by
  have hT : ∀ p ∈ P, DetOk (cOps valid) ty p.details := by
    intro p hp
    obtain ⟨x, hx, hr⟩ := hF.details p hp
    rw [hx]; exact detOk_real valid ty x hr
  exact annotate_readback (cOps valid) ty P dels hF.family hN hT hS (fun e he => realSet_wf valid e.2 (hW e he))

/-! non-vacuity of the `_real` theorems: `Capacities(core=2, ram=8)`, `Labels(vlan_range='1-100')` as C03 values -/

def capReal : CDet := ⟨.cap, Codec.setF (Codec.setF (Codec.defaults Gen.Fields.capacities) "core" (.int 2)) "ram" (.int 8)⟩
def labReal : CDet := ⟨.lab, Codec.setF (Codec.defaults Gen.Fields.labels) "vlan_range" (.str "1-100")⟩

theorem capReal_real (valid : String → CVal → Bool) : RealDetails valid .cap capReal := by
  refine ⟨rfl, ⟨?_, ?_⟩, ?_⟩
  · have : ∀ f ∈ Gen.Fields.capacities.fields,
        (capReal.fields f.name = f.dflt ∧ Codec.dropped Gen.Fields.capacities.drop f.dflt f.dflt = true) ∨
        Codec.inDomain Gen.Fields.capacities.guard (capReal.fields f.name) = true := by decide
    intro f hf
    rcases this f hf with h | h
    · exact Or.inl h
    · exact Or.inr ⟨h, rfl⟩
  · intro k hk
    have h1 : k ≠ "core" := fun h => hk (by rw [h]; decide)
    have h2 : k ≠ "ram" := fun h => hk (by rw [h]; decide)
    simp only [capReal, Codec.setF, h1, h2, if_false]
    exact Codec.dfltOf_not_mem _ k hk
  · intro h
    have := congrFun h "core"
    revert this; decide

theorem labReal_real (valid : String → CVal → Bool) (hv : valid "vlan_range" (.str "1-100") = true) :
    RealDetails valid .lab labReal := by
  refine ⟨rfl, ⟨?_, ?_⟩, ?_⟩
  · have : ∀ f ∈ Gen.Fields.labels.fields,
        (labReal.fields f.name = f.dflt ∧ Codec.dropped Gen.Fields.labels.drop f.dflt f.dflt = true) ∨
        (f.name = "vlan_range" ∧ Codec.inDomain Gen.Fields.labels.guard (labReal.fields f.name) = true) := by decide
    intro f hf
    rcases this f hf with h | ⟨hn, h⟩
    · exact Or.inl h
    · refine Or.inr ⟨h, ?_⟩
      show valid f.name (labReal.fields f.name) = true
      rw [hn]; exact hv
  · intro k hk
    have h1 : k ≠ "vlan_range" := fun h => hk (by rw [h]; decide)
    simp only [labReal, Codec.setF, h1, if_false]
    exact Codec.dfltOf_not_mem _ k hk
  · intro h
    have := congrFun h "vlan_range"
    revert this; decide

/-- non-vacuity of `delegations_roundtrip_real`: the three-entry set of `delegation_label_test` -/
example (valid : String → CVal → Bool) : RealSet valid
    { ty := .cap, items := [
      { ty := .cap, id := "del1", fmt := .single, pool := none, details := some capReal },
      { ty := .cap, id := "del2", fmt := .definition, pool := some "pool1", details := some capReal },
      { ty := .cap, id := "del3", fmt := .reference, pool := some "pool1", details := none }] } := by
  refine ⟨?_, by decide⟩
  intro d hd
  simp only [List.mem_cons, List.not_mem_nil, or_false] at hd
  rcases hd with rfl | rfl | rfl
  · exact ⟨rfl, rfl, capReal, rfl, capReal_real valid⟩
  · exact ⟨rfl, by decide, capReal, rfl, capReal_real valid⟩
  · exact ⟨rfl, by decide, rfl⟩

/-- non-vacuity of `pools_roundtrip_text_real`: the two-pool family of `testPools` -/
example (valid : String → CVal → Bool) (hv : valid "vlan_range" (.str "1-100") = true) :
    let P : List (Pool CDet) := [
      { ty := .lab, pid := "pool1", deleg := some "del1", on_ := some "node1", for_ := ["node2", "node3"], details := some labReal },
      { ty := .lab, pid := "pool2", deleg := some "del2", on_ := some "node2", for_ := ["node1", "node3"], details := some labReal }]
    RealFamily valid .lab P ∧ NoClash P := by
  intro P
  refine ⟨⟨⟨?_, by unfold Distinct; decide⟩, ?_⟩, by decide⟩
  · intro p hp
    simp only [P, List.mem_cons, List.not_mem_nil, or_false] at hp
    rcases hp with rfl | rfl <;> exact ⟨rfl, by decide, by simp, by simp, by simp, rfl⟩
  · intro p hp
    simp only [P, List.mem_cons, List.not_mem_nil, or_false] at hp
    rcases hp with rfl | rfl <;> exact ⟨labReal, rfl, labReal_real valid hv⟩

/-! ## histories on one container: kept pools mutated, replaced, completed between indexing runs (`Model/DelegHeap.lean`) -/

theorem indexGo_of_foldlM (l : List (Pool D)) (idx idx' : List (String × List (Pool D)))
    (h : l.foldlM indexStep idx = .ok idx') : indexGo idx l = (idx', none) := by
  induction l generalizing idx with
  | nil => simp [pure, Except.pure] at h; unfold indexGo; rw [h]
  | cons p l ih =>
    rw [List.foldlM_cons] at h
    cases hy : indexStep idx p with
    | error e => simp [hy, bind, Except.bind] at h
    | ok b =>
      simp only [hy, bind, Except.bind] at h
      unfold indexGo
      simp only [hy]
      exact ih _ h

/-- **an indexing run has no memory**: at ANY state of the container - any history of `add_pool`, setter calls on pools that
already sit in it (re-delegation, completion), replaced objects, earlier runs that returned or raised half-way, whatever index
they left behind - `build_index_by_delegation_id` leaves exactly the index (and raises exactly when) the value-level run
computes from the pools as they are NOW (`view`: what the getters show) -/
theorem hist_index_fresh (s : HPools D) :
    (hIndex s).1.view = (buildIndexS s.view).1 ∧ (hIndex s).2 = (buildIndexS s.view).2 := by
  have h := hIndexGo_view s.deref [] s.byId
  refine ⟨?_, h.2⟩
  unfold hIndex buildIndexS HPools.view
  simp only [Option.map_some]
  have hd : ∀ r, HPools.deref { s with index := some (hIndexGo s.deref [] s.byId).1 } r = s.deref r := fun r => rfl
  congr 1
  have : (HPools.deref { s with index := some (hIndexGo s.deref [] s.byId).1 }) = s.deref := funext hd
  rw [this, h.1]; rfl

/-- **the pools clause after any history**: whenever the pools of the container as they are now are a valid clash-free family,
the next indexing run returns and generate / incorporate (any of the orders of `pools_roundtrip_any_order` follows from `RInv` and
the permutation as there) reconstruct exactly these pools - the delegation id a pool had at an earlier run plays no role -/
theorem hist_pools_roundtrip (ops : DetailOps D) (s : HPools D) (hF : Family ops s.ty s.view.byId) (hN : NoClash s.view.byId) :
    ∃ R Q, (hIndex s).2 = none ∧ generate ops (hIndex s).1.view = .ok R ∧ RInv s.ty R ∧
      (flat R).Perm (allEntries s.ty s.view.byId) ∧
      incorporateAll (emptyPools s.ty) R = .ok Q ∧ Q.ty = s.ty ∧ SamePools s.view.byId Q.byId := by
  obtain ⟨idx, hfold, -, -⟩ := buildIndex_fold ops s.ty s.view.byId [] hF.ok (by intro e he; cases he)
  have hgo := indexGo_of_foldlM s.view.byId [] idx hfold
  have ha := addPool_fold s.ty s.view.byId [] (fun p hp => (hF.ok p hp).ty_) (fun p hp => (hF.ok p hp).name) (by simpa using hF.distinct)
  simp only [List.nil_append] at ha
  have hb : buildPools s.ty s.view.byId = .ok { ty := s.ty, byId := s.view.byId, index := some idx } := by
    unfold buildPools emptyPools
    rw [ha]
    show buildIndex ({ ty := s.ty, byId := s.view.byId, index := none } : Pools D) = _
    unfold buildIndex
    dsimp only
    rw [hfold]
    rfl
  obtain ⟨ps, R, hb', -, hg, hinv, hperm⟩ := generate_ok_of_noClash ops s.ty s.view.byId hF hN
  rw [hb] at hb'
  injection hb' with hps
  subst hps
  obtain ⟨Q, hi, hty, hs⟩ := incorporate_entries ops s.ty s.view.byId R hF hinv hperm
  have hfresh := hist_index_fresh s
  have hv : (hIndex s).1.view = { ty := s.ty, byId := s.view.byId, index := some idx } := by
    rw [hfresh.1]; unfold buildIndexS; simp only [hgo]; rfl
  refine ⟨R, Q, ?_, ?_, hinv, hperm, hi, hty, hs⟩
  · rw [hfresh.2]; unfold buildIndexS; simp only [hgo]
  · rw [hv]; exact hg


/-- the same, with the history spelled out: every sequence of `add_pool` / setter / indexing calls from the empty container -/
theorem hist_pools_roundtrip_any_history (ops : DetailOps D) (ty : DType) (steps : List (HStep D)) :
    let s := hRun (hEmpty ty) steps
    Family ops s.ty s.view.byId → NoClash s.view.byId →
    ∃ R Q, (hIndex s).2 = none ∧ generate ops (hIndex s).1.view = .ok R ∧ RInv s.ty R ∧
      (flat R).Perm (allEntries s.ty s.view.byId) ∧
      incorporateAll (emptyPools s.ty) R = .ok Q ∧ Q.ty = s.ty ∧ SamePools s.view.byId Q.byId :=
  fun hF hN => hist_pools_roundtrip ops _ hF hN

/-- a history that ends in `poolsEx` with a STALE index: pool2 is indexed under `del9`, then re-delegated to `del2` -/
def histEx : HPools Det := hRun (hEmpty .lab) [
  .add { ty := .lab, pid := "pool1", deleg := some "del1", on_ := some "node1", for_ := ["node2", "node3"], details := some labEx },
  .add { ty := .lab, pid := "pool2", deleg := some "del9", on_ := some "node2", for_ := ["node1", "node3"], details := some labEx },
  .index, .mut 1 (mSetDeleg "del2")]

/-- non-vacuity of `hist_pools_roundtrip` / `hist_pools_roundtrip_any_history`: the pools are `poolsEx`, the index left by the
earlier run still files object 1 under `del9`; and of the failed-run case: an unfinished pool leaves a partial index behind -/
example : histEx.view.byId = poolsEx ∧ histEx.index = some [("del1", [0]), ("del9", [1])] ∧
    Family detOps histEx.ty histEx.view.byId ∧ NoClash histEx.view.byId := by
  have h : histEx.view.byId = poolsEx := by decide
  refine ⟨h, by decide, ?_, ?_⟩
  · rw [h]; exact poolsEx_family
  · rw [h]; decide

example : (hIndex (hRun (hEmpty .lab) [
    .add ({ ty := .lab, pid := "pool1", deleg := some "del1", on_ := some "node1", for_ := ["node2"], details := some labEx } : Pool Det),
    .add { ty := .lab, pid := "pool2", deleg := some "del2", on_ := some "node2", for_ := ["node1"], details := none }])).1.index
      = some [("del1", [0])] ∧
    (hIndex (hRun (hEmpty .lab) [
    .add ({ ty := .lab, pid := "pool1", deleg := some "del1", on_ := some "node1", for_ := ["node2"], details := some labEx } : Pool Det),
    .add { ty := .lab, pid := "pool2", deleg := some "del2", on_ := some "node2", for_ := ["node1"], details := none }])).2 = some .pool := by
  decide

end FimVerif.C12
