import FimVerif.Model.Catalog
/-!
# C18 — instance sizing is sufficient and minimal; components match the catalogue

The sizing theorems hold for **every** catalogue and every request in ℕ³; the catalogue files and the
filter predicate `fits` are regenerated from the source on every run.  Facts about the *current*
catalogue (`decide +kernel` over the complete generated tables) are marked as such.
-/
namespace FimVerif.C18
open FimVerif.Catalog FimVerif.Gen.Catalog

/-! ### the order -/

theorem le3_refl (a : Size) : le3 a a = true := by simp [le3]

theorem le3_trans {a b c : Size} (h1 : le3 a b = true) (h2 : le3 b c = true) : le3 a c = true := by
  simp only [le3, Bool.and_eq_true, decide_eq_true_eq] at *; omega

theorem le3_antisymm {a b : Size} (h1 : le3 a b = true) (h2 : le3 b a = true) : a = b := by
  cases a; cases b
  simp only [le3, Bool.and_eq_true, decide_eq_true_eq] at h1 h2
  simp only [Size.mk.injEq]; omega

/-- the generated filter is exactly "the request is componentwise ≤ the entry" -/
theorem fits_iff (e r : Size) : fits e r = le3 r e := by
  simp only [fits, le3, ge_iff_le]

/-! ### the modelled sort head -/

private theorem foldl_min (cs : List Size) : ∀ (done : List Size) (c : Size),
    c ∈ done → (∀ p ∈ done, le3 p c = true → le3 c p = true) →
    let h := cs.foldl (fun h p => if le3 p h then p else h) c
    h ∈ done ++ cs ∧ ∀ p ∈ done ++ cs, le3 p h = true → le3 h p = true := by
  induction cs with
  | nil => intro done c hc hmin; simpa using ⟨hc, hmin⟩
  | cons q cs ih =>
    intro done c hc hmin
    simp only [List.foldl_cons]
    by_cases hq : le3 q c = true
    · simp only [hq, if_true]
      have := ih (done ++ [q]) q (by simp) (by
        intro p hp hpq
        rcases List.mem_append.mp hp with hp | hp
        · exact le3_trans hq (hmin p hp (le3_trans hpq hq))
        · simp at hp; subst hp; exact le3_refl _)
      simpa [List.append_assoc] using this
    · simp only [hq, if_false]
      have := ih (done ++ [q]) c (by simp [hc]) (by
        intro p hp hpc
        rcases List.mem_append.mp hp with hp | hp
        · exact hmin p hp hpc
        · simp at hp; subst hp; exact absurd hpc hq)
      simpa [List.append_assoc] using this

theorem sortHead_mem (c : Size) (cs : List Size) : sortHead c cs ∈ c :: cs := by
  have := (foldl_min cs [c] c (by simp) (by intro p hp _; simp at hp; subst hp; exact le3_refl _)).1
  simpa [sortHead] using this

/-- nothing in the candidate list is strictly below the modelled head -/
theorem sortHead_minimal (c : Size) (cs : List Size) :
    ∀ p ∈ c :: cs, le3 p (sortHead c cs) = true → p = sortHead c cs := by
  intro p hp hle
  have := (foldl_min cs [c] c (by simp) (by intro p hp _; simp at hp; subst hp; exact le3_refl _)).2 p
    (by simpa using hp) (by simpa [sortHead] using hle)
  exact le3_antisymm hle (by simpa [sortHead] using this)

/-! ### sizing -/

theorem mem_candidates {cat : List (String × Size)} {req s : Size} :
    s ∈ candidates cat req ↔ (∃ e ∈ cat, e.2 = s) ∧ le3 req s = true := by
  simp [candidates, fits_iff]

private theorem nameOf_some {cat : List (String × Size)} {h : Size} (hm : ∃ e ∈ cat, e.2 = h) :
    ∃ e ∈ cat, nameOf cat h = some e.1 ∧ e.2 = h := by
  obtain ⟨e, he, rfl⟩ := hm
  cases hf : cat.find? (fun x => x.2 == e.2) with
  | none =>
    have := List.find?_eq_none.mp hf e he
    simp at this
  | some x =>
    refine ⟨x, List.mem_of_find?_eq_some hf, by simp [nameOf, hf], ?_⟩
    have := List.find?_some hf
    simpa using this

/-- **Sufficient**: whenever some size satisfies the request, the returned name belongs to a catalogue
entry that satisfies it. -/
theorem sizing_sufficient (cat : List (String × Size)) (req : Size)
    (hex : ∃ e ∈ cat, le3 req e.2 = true) :
    ∃ e ∈ cat, pick cat req = some e.1 ∧ le3 req e.2 = true := by
  obtain ⟨e0, he0, hfit⟩ := hex
  have hmem : e0.2 ∈ candidates cat req := mem_candidates.mpr ⟨⟨e0, he0, rfl⟩, hfit⟩
  unfold pick
  cases hc : candidates cat req with
  | nil => rw [hc] at hmem; cases hmem
  | cons c cs =>
    have hh : sortHead c cs ∈ candidates cat req := by rw [hc]; exact sortHead_mem c cs
    obtain ⟨hsrc, hle⟩ := mem_candidates.mp hh
    obtain ⟨e, he, hn, heq⟩ := nameOf_some hsrc
    exact ⟨e, he, by simpa using hn, by rw [heq]; exact hle⟩

/-- **Minimal**: no other satisfying size is smaller-or-equal in every dimension than the returned
one (unless it is the same size). -/
theorem sizing_pareto_minimal (cat : List (String × Size)) (req : Size)
    (hex : ∃ e ∈ cat, le3 req e.2 = true) :
    ∃ e ∈ cat, pick cat req = some e.1 ∧
      ∀ y ∈ cat, le3 req y.2 = true → le3 y.2 e.2 = true → y.2 = e.2 := by
  obtain ⟨e0, he0, hfit⟩ := hex
  have hmem : e0.2 ∈ candidates cat req := mem_candidates.mpr ⟨⟨e0, he0, rfl⟩, hfit⟩
  unfold pick
  cases hc : candidates cat req with
  | nil => rw [hc] at hmem; cases hmem
  | cons c cs =>
    have hh : sortHead c cs ∈ candidates cat req := by rw [hc]; exact sortHead_mem c cs
    obtain ⟨hsrc, _⟩ := mem_candidates.mp hh
    obtain ⟨e, he, hn, heq⟩ := nameOf_some hsrc
    refine ⟨e, he, by simpa using hn, ?_⟩
    intro y hy hyfit hyle
    have hyc : y.2 ∈ c :: cs := by rw [← hc]; exact mem_candidates.mpr ⟨⟨y, hy, rfl⟩, hyfit⟩
    rw [heq] at hyle ⊢
    exact sortHead_minimal c cs y.2 hyc hyle

/-- sufficient and minimal are statements about the SAME returned entry -/
theorem sizing_sufficient_minimal (cat : List (String × Size)) (req : Size)
    (hex : ∃ e ∈ cat, le3 req e.2 = true) :
    ∃ e ∈ cat, pick cat req = some e.1 ∧ le3 req e.2 = true ∧
      ∀ y ∈ cat, le3 req y.2 = true → le3 y.2 e.2 = true → y.2 = e.2 := by
  obtain ⟨e0, he0, hfit⟩ := hex
  have hmem : e0.2 ∈ candidates cat req := mem_candidates.mpr ⟨⟨e0, he0, rfl⟩, hfit⟩
  unfold pick
  cases hc : candidates cat req with
  | nil => rw [hc] at hmem; cases hmem
  | cons c cs =>
    have hh : sortHead c cs ∈ candidates cat req := by rw [hc]; exact sortHead_mem c cs
    obtain ⟨hsrc, hle⟩ := mem_candidates.mp hh
    obtain ⟨e, he, hn, heq⟩ := nameOf_some hsrc
    refine ⟨e, he, by simpa using hn, by rw [heq]; exact hle, ?_⟩
    intro y hy hyfit hyle
    have hyc : y.2 ∈ c :: cs := by rw [← hc]; exact mem_candidates.mpr ⟨⟨y, hy, rfl⟩, hyfit⟩
    rw [heq] at hyle ⊢
    exact sortHead_minimal c cs y.2 hyc hyle

/-- **Fallback**: when nothing satisfies the request the last catalogue entry is returned. -/
theorem sizing_fallback (cat : List (String × Size)) (req : Size)
    (hno : ∀ e ∈ cat, le3 req e.2 = false) : pick cat req = cat.getLast?.map (·.1) := by
  have : candidates cat req = [] := by
    simp only [candidates, List.filter_eq_nil_iff, List.mem_map, fits_iff]
    rintro s ⟨e, he, rfl⟩; simp [hno e he]
  simp [pick, this]

/-- The answer depends only on which catalogue entries the request fits into (its threshold
class) — this is what makes the exhaustive sweep over classes in the harness complete. -/
theorem class_lemma (cat : List (String × Size)) (r r' : Size)
    (h : ∀ e ∈ cat, le3 r e.2 = le3 r' e.2) : pick cat r = pick cat r' := by
  have : candidates cat r = candidates cat r' := by
    simp only [candidates]
    apply List.filter_congr
    intro s hs
    obtain ⟨e, he, rfl⟩ := List.mem_map.mp hs
    simp [fits_iff, h e he]
  simp [pick, this]

/-- **Name and capacities agree**: with distinct names, looking the returned name up gives the size
that was chosen (sufficient and minimal). -/
theorem name_caps_agree (cat : List (String × Size)) (hn : (cat.map (·.1)).Nodup) (e : String × Size)
    (he : e ∈ cat) : capsOf cat e.1 = some e.2 := by
  induction cat with
  | nil => cases he
  | cons x xs ih =>
    simp only [List.map_cons, List.nodup_cons] at hn
    rcases List.mem_cons.mp he with rfl | he'
    · simp [capsOf]
    · have hne : x.1 ≠ e.1 := by
        intro h; exact hn.1 (h ▸ List.mem_map_of_mem he')
      have := ih hn.2 he'
      have hb : (x.1 == e.1) = false := by simpa using hne
      simp only [capsOf, List.find?_cons, hb] at this ⊢
      exact this

/-! ### facts about the current catalogue (complete generated table) -/

def LastDominates (cat : List (String × Size)) : Bool :=
  match cat.getLast? with
  | none => false
  | some l => cat.all fun e => le3 e.2 l.2

/-- the fallback entry is the largest size: it dominates every entry -/
theorem current_last_dominates : LastDominates instanceCatalog = true := by decide +kernel

/-- with a dominating last entry, "no size satisfies the request" is exactly "the request exceeds the largest size in
SOME dimension" (one is enough) -/
theorem unsatisfiable_iff_exceeds (cat : List (String × Size)) (hd : LastDominates cat = true) (l : String × Size)
    (hl : cat.getLast? = some l) (req : Size) :
    (∀ e ∈ cat, le3 req e.2 = false) ↔ (l.2.core < req.core ∨ l.2.ram < req.ram ∨ l.2.disk < req.disk) := by
  simp only [LastDominates, hl, List.all_eq_true] at hd
  constructor
  · intro h
    have hm : l ∈ cat := List.mem_of_getLast? hl
    have := h l hm
    cases hc : decide (l.2.core < req.core ∨ l.2.ram < req.ram ∨ l.2.disk < req.disk) with
    | true => simpa using hc
    | false =>
      exfalso
      have hc' : ¬ (l.2.core < req.core ∨ l.2.ram < req.ram ∨ l.2.disk < req.disk) := by simpa using hc
      have : le3 req l.2 = true := by
        simp only [le3, Bool.and_eq_true, decide_eq_true_eq]; omega
      simp_all
  · intro h e he
    have hle := hd e he
    cases hh : le3 req e.2 with
    | false => rfl
    | true =>
      exfalso
      simp only [le3, Bool.and_eq_true, decide_eq_true_eq] at hh hle
      omega

/-- **Largest otherwise**: a request that exceeds the catalogue in any single dimension (whatever the other two are) gets the
last entry, which dominates every entry. -/
theorem sizing_fallback_any_dimension (cat : List (String × Size)) (hd : LastDominates cat = true) (l : String × Size)
    (hl : cat.getLast? = some l) (req : Size)
    (h : l.2.core < req.core ∨ l.2.ram < req.ram ∨ l.2.disk < req.disk) :
    pick cat req = some l.1 ∧ ∀ e ∈ cat, le3 e.2 l.2 = true := by
  refine ⟨?_, ?_⟩
  · rw [sizing_fallback cat req ((unsatisfiable_iff_exceeds cat hd l hl req).mpr h), hl]; rfl
  · simpa only [LastDominates, hl, List.all_eq_true] using hd

/-- ... and a request within the largest size in every dimension is never answered by the fallback rule: some size satisfies it -/
theorem satisfiable_of_within (cat : List (String × Size)) (l : String × Size) (hl : cat.getLast? = some l) (req : Size)
    (h : le3 req l.2 = true) : ∃ e ∈ cat, le3 req e.2 = true := ⟨l, List.mem_of_getLast? hl, h⟩

theorem current_last : instanceCatalog.getLast? = some ("fabric.c64.m256.d1000", ⟨64, 256, 1000⟩) := by decide +kernel

/-- the current catalogue: every request with more than 64 cores OR more than 256 G RAM OR more than 1000 G disk maps to the
largest size -/
theorem current_fallback (req : Size) (h : 64 < req.core ∨ 256 < req.ram ∨ 1000 < req.disk) :
    pick instanceCatalog req = some "fabric.c64.m256.d1000" :=
  (sizing_fallback_any_dimension instanceCatalog current_last_dominates _ current_last req h).1

/-- the current catalogue, every request: the answer is a catalogued size; it satisfies the request and is Pareto-minimal among
the satisfying sizes exactly when the request is within (64, 256, 1000), and it is the largest size otherwise -/
theorem current_sizing_total (req : Size) :
    (le3 req ⟨64, 256, 1000⟩ = true ∧ ∃ e ∈ instanceCatalog, pick instanceCatalog req = some e.1 ∧ le3 req e.2 = true ∧
        ∀ y ∈ instanceCatalog, le3 req y.2 = true → le3 y.2 e.2 = true → y.2 = e.2) ∨
    (le3 req ⟨64, 256, 1000⟩ = false ∧ pick instanceCatalog req = some "fabric.c64.m256.d1000") := by
  cases h : le3 req ⟨64, 256, 1000⟩ with
  | true =>
    left
    refine ⟨rfl, ?_⟩
    exact sizing_sufficient_minimal instanceCatalog req (satisfiable_of_within instanceCatalog _ current_last req h)
  | false =>
    right
    refine ⟨rfl, current_fallback req ?_⟩
    cases hc : decide (64 < req.core ∨ 256 < req.ram ∨ 1000 < req.disk) with
    | true => simpa using hc
    | false =>
      exfalso
      have hc' : ¬ (64 < req.core ∨ 256 < req.ram ∨ 1000 < req.disk) := by simpa using hc
      have : le3 req ⟨64, 256, 1000⟩ = true := by simp only [le3, Bool.and_eq_true, decide_eq_true_eq]; omega
      simp_all

/- Names of the current catalogue are distinct because the catalogue is a JSON object loaded into a
Python dict (keys unique by construction); the translator raises an extraction failure on a
duplicate key.  Checking `Nodup` of 869 strings in the kernel costs minutes (quadratic), so it is not
repeated here; `name_caps_agree` takes it as its hypothesis. -/

/-- "the size's name and its capacities agree": the name encodes the three numbers -/
def nameAgrees (e : String × Size) : Bool :=
  e.1 == "fabric.c" ++ toString e.2.core ++ ".m" ++ toString e.2.ram ++ ".d" ++ toString e.2.disk

theorem current_names_agree : instanceCatalog.all nameAgrees = true := by decide +kernel

/-! ### components -/

/-- no entry is shadowed by an earlier one: an earlier entry matches neither a later entry's model
nor any of its aliases (under the later entry's type) -/
def NoShadow (cat : List CEntry) : Prop :=
  cat.Pairwise fun a b => entryMatches a b.model b.type = false ∧ ∀ m ∈ b.also, entryMatches a m b.type = false

instance (cat : List CEntry) : Decidable (NoShadow cat) := by unfold NoShadow; infer_instance

theorem entryMatches_self (e : CEntry) : entryMatches e e.model e.type = true := by simp [entryMatches]
theorem entryMatches_alias (e : CEntry) (m : String) (h : m ∈ e.also) : entryMatches e m e.type = true := by
  simp [entryMatches, h]

/-- every catalogued model, and every alias, is found and resolves to its own entry -/
theorem lookup_finds_own_entry (cat : List CEntry) (hns : NoShadow cat) (e : CEntry) (he : e ∈ cat) :
    lookup cat e.model e.type = some e ∧ ∀ m ∈ e.also, lookup cat m e.type = some e := by
  induction cat with
  | nil => cases he
  | cons x xs ih =>
    simp only [NoShadow, List.pairwise_cons] at hns
    rcases List.mem_cons.mp he with rfl | he'
    · constructor
      · simp [lookup, entryMatches_self]
      · intro m hm; simp [lookup, entryMatches_alias _ m hm]
    · have hx := hns.1 e he'
      have := ih hns.2 he'
      constructor
      · simp only [lookup, List.find?_cons, hx.1]; exact this.1
      · intro m hm; simp only [lookup, List.find?_cons, hx.2 m hm]; exact this.2 m hm

theorem current_no_shadow : NoShadow componentCatalog := by decide +kernel

/-! #### what `generate_component` builds -/

theorem zipIdx_map_fst_aux {α β} (l : List α) (h : α → β) (n : Nat) : (l.zipIdx n).map (fun x => h x.1) = l.map h := by
  induction l generalizing n with
  | nil => rfl
  | cons a t ih => simp [List.zipIdx_cons, ih]

theorem zipIdx_map_fst' {α β} (l : List α) (h : α → β) : l.zipIdx.map (fun x => h x.1) = l.map h :=
  zipIdx_map_fst_aux l h 0

theorem zipIdx_map_snd_aux {α β} (l : List α) (h : Nat → β) (n : Nat) :
    (l.zipIdx n).map (fun x => h x.2) = (List.range' n l.length).map h := by
  induction l generalizing n with
  | nil => rfl
  | cons a t ih => simp [List.zipIdx_cons, ih, List.range'_succ]

theorem zipIdx_map_snd' {α β} (l : List α) (h : Nat → β) : l.zipIdx.map (fun x => h x.2) = (List.range l.length).map h := by
  rw [List.range_eq_range']; exact zipIdx_map_snd_aux l h 0

theorem range_getElem? {α} (l : List α) : (List.range l.length).map (fun i => l[i]?) = l.map some := by
  apply List.ext_getElem?
  intro i
  simp only [List.getElem?_map, List.getElem?_range]
  by_cases h : i < l.length
  · simp [h]
  · simp [h, List.getElem?_eq_none (Nat.le_of_not_lt h)]

theorem genIfaces_names (e : CEntry) (name : String) ids labels :
    (genIfaces e name ids labels).map (·.name) = e.ifaces.map (fun p => name ++ ifaceSep ++ p.1) := by
  simp only [genIfaces, List.map_map, Function.comp_def]
  exact zipIdx_map_fst' e.ifaces (fun p => name ++ ifaceSep ++ p.1)

theorem genIfaces_bw (e : CEntry) (name : String) ids labels :
    (genIfaces e name ids labels).map (·.bw) = e.ifaces.map (fun p => portBw e.type p.2) := by
  simp only [genIfaces, List.map_map, Function.comp_def]
  exact zipIdx_map_fst' e.ifaces (fun p => portBw e.type p.2)

theorem genIfaces_kind (e : CEntry) (name : String) ids labels :
    ∀ i ∈ genIfaces e name ids labels, i.kind = portKind e.type := by
  intro i hi
  simp only [genIfaces, List.mem_map] at hi
  obtain ⟨x, _, rfl⟩ := hi
  rfl

theorem genIfaces_ids (e : CEntry) (name : String) (l : List String) labels (hl : l.length = e.ifaces.length) :
    (genIfaces e name (some l) labels).map (·.nodeId) = l.map some := by
  simp only [genIfaces, List.map_map, Function.comp_def]
  rw [zipIdx_map_snd' e.ifaces (fun i => l[i]?), ← hl]
  exact range_getElem? l

theorem genIfaces_labelIdx (e : CEntry) (name : String) ids (ls : List Bdf) :
    (genIfaces e name ids (some ls)).map (·.labelIdx) = (List.range e.ifaces.length).map some := by
  simp only [genIfaces, List.map_map, Function.comp_def]
  exact zipIdx_map_snd' e.ifaces some

theorem genIfaces_units (e : CEntry) (name : String) ids (ls : List Bdf) (hl : ls.length = e.ifaces.length) :
    (genIfaces e name ids (some ls)).map (·.units) = ls.map unitsOf := by
  simp only [genIfaces, List.map_map, Function.comp_def]
  rw [zipIdx_map_snd' e.ifaces (fun i => unitsOf (ls.getD i .none)), ← hl]
  apply List.ext_getElem?
  intro i
  simp only [List.getElem?_map, List.getElem?_range]
  by_cases h : i < ls.length
  · simp [h, List.getD_eq_getElem?_getD]
  · simp [h, List.getElem?_eq_none (Nat.le_of_not_lt h)]

/-- what the property demands of a generated component `g` for catalogue entry `e` -/
def Matches (e : CEntry) (name : String) (ids : Option (List String)) (labels : Option (List Bdf)) (g : GComp) : Prop :=
  g.model = e.model ∧ g.type = e.type ∧ g.details = e.details ∧
  g.ifaces.map (·.name) = e.ifaces.map (fun p => name ++ ifaceSep ++ p.1) ∧
  g.ifaces.map (·.bw) = e.ifaces.map (fun p => portBw e.type p.2) ∧
  (∀ i ∈ g.ifaces, i.kind = portKind e.type) ∧
  (∀ l, e.hasIfaces = true → ids = some l → g.ifaces.map (·.nodeId) = l.map some) ∧
  (∀ ls, labels = some ls → g.ifaces.map (·.labelIdx) = (List.range e.ifaces.length).map some) ∧
  (∀ l ls, e.hasIfaces = true → ids = some l → labels = some ls → g.ifaces.map (·.units) = ls.map unitsOf)

private theorem mk_matches (e : CEntry) (name : String) (nsId parent : Option String)
    (ids : Option (List String)) (labels : Option (List Bdf))
    (h1 : ∀ l, ids = some l → l.length = e.ifaces.length)
    (h2 : ∀ l ls, ids = some l → labels = some ls → ls.length = e.ifaces.length) :
    Matches e name ids labels (generate.mk name nsId parent e ids labels) := by
  refine ⟨rfl, rfl, rfl, genIfaces_names e name ids labels, genIfaces_bw e name ids labels,
    genIfaces_kind e name ids labels, ?_, ?_, ?_⟩
  · intro l _ hl; subst hl; exact genIfaces_ids e name l labels (h1 l rfl)
  · intro ls hls; subst hls; exact genIfaces_labelIdx e name ids ls
  · intro l ls _ hl hls; subst hl; subst hls; exact genIfaces_units e name (some l) ls (h2 l ls rfl rfl)

/-- entries without an `Interfaces` key have no interfaces (a fact of the translation) -/
def WFCat (cat : List CEntry) : Prop := ∀ e ∈ cat, e.hasIfaces = false → e.ifaces = []
instance (cat : List CEntry) : Decidable (WFCat cat) := by unfold WFCat; infer_instance
theorem current_wf : WFCat componentCatalog := by decide

/-- A generated component has its entry's model, type and details; exactly the entry's interfaces in
catalogue order, named `<name>-<port>`, with the catalogued speed (none for shared NICs) and the
kind the component type dictates; caller-supplied ids and labels land positionally and the unit
count of each interface is the one its own label object gives. -/
theorem generated_matches_entry (cat : List CEntry) (hwf : WFCat cat) (name model type : String) (nsId : Option String)
    (ids : Option (List String)) (labels : Option (List Bdf)) (parent : Option String) (g : GComp)
    (h : generate cat name model type nsId ids labels parent = .ok g) :
    ∃ e, lookup cat model type = some e ∧ Matches e name ids labels g := by
  unfold generate at h
  cases hl : lookup cat model type with
  | none => simp [hl] at h
  | some e =>
    simp only [hl] at h
    refine ⟨e, rfl, ?_⟩
    by_cases hi : e.hasIfaces = true
    · simp only [hi, Bool.not_true, Bool.false_eq_true, if_false] at h
      cases ids with
      | none =>
        cases labels with
        | none =>
          simp only [Except.ok.injEq] at h; subst h
          exact mk_matches e name nsId parent none none (by intro l hl; cases hl) (by intro l ls hl; cases hl)
        | some ls =>
          by_cases hlen : ls.length < e.ifaces.length
          · simp [hlen] at h
          · simp only [hlen, if_false, Except.ok.injEq] at h; subst h
            exact mk_matches e name nsId parent none (some ls) (by intro l hl; cases hl) (by intro l ls hl; cases hl)
      | some l =>
        cases labels with
        | none => by_cases hlen : l.length = e.ifaces.length <;> simp [hlen] at h
        | some ls =>
          by_cases hlen : l.length = e.ifaces.length
          · by_cases hlen2 : ls.length = e.ifaces.length
            · simp only [hlen, hlen2, bne_self_eq_false, Bool.false_eq_true, if_false, Except.ok.injEq] at h
              subst h
              exact mk_matches e name nsId parent (some l) (some ls)
                (by intro l' hl'; cases hl'; exact hlen) (by intro l' ls' hl' hls'; cases hls'; exact hlen2)
            · simp [hlen, hlen2] at h
          · simp [hlen] at h
    · have hi' : e.hasIfaces = false := by simpa using hi
      simp only [hi', Bool.not_false, if_true, Except.ok.injEq] at h
      have hnil : e.ifaces = [] := hwf e (List.mem_of_find?_eq_some hl) hi'
      subst h
      simp [Matches, hnil, hi']

/-- **Unit counts**: the number of units of an interface is the number of devices behind it — the
length of the bdf label when that is a list, otherwise 1.  (False on the tree before the repair
`fix: unit count of a generated interface is 1 for a scalar bdf label`: a scalar label used to give
the length of the string; `unitsOnlyFromList` is read from the source by the translator.) -/
theorem units_spec (b : Bdf) : unitsOf b = match b with | .list n => n | _ => 1 := by
  cases b <;> simp [unitsOf, unitsOnlyFromList]

/-- generation fails with "not found" exactly when the model is not catalogued under that type -/
theorem generate_not_found (cat : List CEntry) (name model type : String) nsId ids labels parent :
    generate cat name model type nsId ids labels parent = .error .notFound ↔ lookup cat model type = none := by
  unfold generate
  cases hl : lookup cat model type with
  | none => simp
  | some e =>
    simp only [reduceCtorEq, iff_false]
    by_cases hi : e.hasIfaces = true
    · simp only [hi, Bool.not_true, Bool.false_eq_true, if_false]
      cases ids <;> cases labels <;> simp <;> (repeat' split) <;> simp
    · simp [hi]

/-- the combined type_model enumeration lists exactly the catalogue entries: one member per entry,
in order, and (for the current catalogue) with pairwise distinct names -/
theorem enum_length (cat : List CEntry) : (enumNames cat).length = cat.length := by simp [enumNames]
theorem current_enum_nodup : (enumNames componentCatalog).Nodup := by decide +kernel

/-! #### every catalogued model generates, with the right service, kinds and speeds -/

/-- the argument shapes `generate_component` accepts for entry `e` -/
def Consistent (e : CEntry) (ids : Option (List String)) (labels : Option (List Bdf)) : Prop :=
  match ids, labels with
  | some l, some ls => l.length = e.ifaces.length ∧ ls.length = e.ifaces.length
  | some _, none => e.hasIfaces = false
  | none, some ls => e.ifaces.length ≤ ls.length
  | none, none => True

/-- what a successful generation returns: the bare component for an entry without interfaces, `generate.mk` otherwise -/
theorem generate_ok_shape (cat : List CEntry) (name model type : String) (nsId : Option String)
    (ids : Option (List String)) (labels : Option (List Bdf)) (parent : Option String) (g : GComp)
    (h : generate cat name model type nsId ids labels parent = .ok g) :
    ∃ e, lookup cat model type = some e ∧
      ((e.hasIfaces = false ∧ g = { model := e.model, type := e.type, details := e.details, nsName := none, nsType := none,
                                    nsId := none, ifaces := [] }) ∨
       (e.hasIfaces = true ∧ g = generate.mk name nsId parent e ids labels)) := by
  unfold generate at h
  cases hl : lookup cat model type with
  | none => simp [hl] at h
  | some e =>
    simp only [hl] at h
    refine ⟨e, rfl, ?_⟩
    by_cases hi : e.hasIfaces = true
    · right
      refine ⟨hi, ?_⟩
      simp only [hi, Bool.not_true, Bool.false_eq_true, if_false] at h
      cases ids with
      | none =>
        cases labels with
        | none => simp only [Except.ok.injEq] at h; exact h.symm
        | some ls =>
          by_cases hlen : ls.length < e.ifaces.length
          · simp [hlen] at h
          · simp only [hlen, if_false, Except.ok.injEq] at h; exact h.symm
      | some l =>
        cases labels with
        | none => by_cases hlen : l.length = e.ifaces.length <;> simp [hlen] at h
        | some ls =>
          by_cases hlen : l.length = e.ifaces.length
          · by_cases hlen2 : ls.length = e.ifaces.length
            · simp only [hlen, hlen2, bne_self_eq_false, Bool.false_eq_true, if_false, Except.ok.injEq] at h
              exact h.symm
            · simp [hlen, hlen2] at h
          · simp [hlen] at h
    · left
      have hi' : e.hasIfaces = false := by simpa using hi
      simp only [hi', Bool.not_false, if_true, Except.ok.injEq] at h
      exact ⟨hi', h.symm⟩

/-- the network service of a generated component: none for an entry without interfaces; otherwise named
`[<parent><sep>]<name><suffix of the type>`, of the type's service type, with the caller's id when one was given -/
theorem generated_service (cat : List CEntry) (name model type : String) (nsId : Option String)
    (ids : Option (List String)) (labels : Option (List Bdf)) (parent : Option String) (g : GComp)
    (h : generate cat name model type nsId ids labels parent = .ok g) :
    ∃ e, lookup cat model type = some e ∧
      (e.hasIfaces = false → g.nsName = none ∧ g.nsType = none ∧ g.nsId = none ∧ g.ifaces = []) ∧
      (e.hasIfaces = true →
        g.nsName = some (svcName parent name (rowOf e.type).suffix) ∧
        g.nsType = some (rowOf e.type).nsType ∧ g.nsId = nsId ∧ g.ifaces.length = e.ifaces.length) := by
  obtain ⟨e, hl, hs⟩ := generate_ok_shape cat name model type nsId ids labels parent g h
  refine ⟨e, hl, ?_, ?_⟩
  · intro hi
    rcases hs with ⟨_, rfl⟩ | ⟨hi', _⟩
    · exact ⟨rfl, rfl, rfl, rfl⟩
    · simp [hi] at hi'
  · intro hi
    rcases hs with ⟨hi', _⟩ | ⟨_, rfl⟩
    · simp [hi] at hi'
    · refine ⟨rfl, rfl, rfl, ?_⟩
      simp [generate.mk, genIfaces]

/-- generation succeeds whenever the model is catalogued under the type and the id/label lists have the entry's length -/
theorem generate_ok_of_consistent (cat : List CEntry) (name model type : String) (nsId : Option String)
    (ids : Option (List String)) (labels : Option (List Bdf)) (parent : Option String) (e : CEntry)
    (hl : lookup cat model type = some e) (hc : Consistent e ids labels) :
    ∃ g, generate cat name model type nsId ids labels parent = .ok g := by
  unfold generate
  simp only [hl]
  by_cases hi : e.hasIfaces = true
  · simp only [hi, Bool.not_true, Bool.false_eq_true, if_false]
    cases ids with
    | none =>
      cases labels with
      | none => exact ⟨_, rfl⟩
      | some ls =>
        have : ¬ ls.length < e.ifaces.length := by simp only [Consistent] at hc; omega
        simp only [this, if_false]; exact ⟨_, rfl⟩
    | some l =>
      cases labels with
      | none => simp [Consistent, hi] at hc
      | some ls =>
        simp only [Consistent] at hc
        simp only [hc.1, hc.2, bne_self_eq_false, Bool.false_eq_true, if_false]; exact ⟨_, rfl⟩
  · have hi' : e.hasIfaces = false := by simpa using hi
    simp only [hi', Bool.not_false, if_true]; exact ⟨_, rfl⟩

/-- **Every catalogued model, and every alias, generates its own entry**: for any catalogue without shadowing, any entry,
any of its names and any consistent arguments the generation succeeds and the component matches THAT entry. -/
theorem catalogued_model_generates (cat : List CEntry) (hns : NoShadow cat) (hwf : WFCat cat) (e : CEntry) (he : e ∈ cat)
    (m : String) (hm : m = e.model ∨ m ∈ e.also) (name : String) (nsId : Option String)
    (ids : Option (List String)) (labels : Option (List Bdf)) (parent : Option String) (hc : Consistent e ids labels) :
    ∃ g, generate cat name m e.type nsId ids labels parent = .ok g ∧ Matches e name ids labels g := by
  have hl : lookup cat m e.type = some e := by
    rcases hm with rfl | hm
    · exact (lookup_finds_own_entry cat hns e he).1
    · exact (lookup_finds_own_entry cat hns e he).2 m hm
  obtain ⟨g, hg⟩ := generate_ok_of_consistent cat name m e.type nsId ids labels parent e hl hc
  obtain ⟨e', hl', hmatch⟩ := generated_matches_entry cat hwf name m e.type nsId ids labels parent g hg
  rw [hl] at hl'
  cases hl'
  exact ⟨g, hg, hmatch⟩

/-- the current catalogue satisfies the hypotheses: every one of its models and aliases generates its own entry -/
theorem current_models_generate (e : CEntry) (he : e ∈ componentCatalog) (m : String) (hm : m = e.model ∨ m ∈ e.also)
    (name : String) (nsId : Option String) (ids : Option (List String)) (labels : Option (List Bdf)) (parent : Option String)
    (hc : Consistent e ids labels) :
    ∃ g, generate componentCatalog name m e.type nsId ids labels parent = .ok g ∧ Matches e name ids labels g :=
  catalogued_model_generates componentCatalog current_no_shadow current_wf e he m hm name nsId ids labels parent hc

/-- the generated per-type rules are the ones the property names: dedicated ports with the catalogued speed for SmartNIC and
FPGA components, shared ports without a speed (best effort) for SharedNIC components; every catalogued component type that
has interfaces has a port kind -/
theorem current_type_rules :
    portKind "SmartNIC" = "DedicatedPort" ∧ portKind "FPGA" = "DedicatedPort" ∧ portKind "SharedNIC" = "SharedPort" ∧
    (rowOf "SmartNIC").speed = true ∧ (rowOf "FPGA").speed = true ∧ (rowOf "SharedNIC").speed = false ∧
    componentCatalog.all (fun e => !e.hasIfaces || (portKind e.type != "" && typeTable.any (fun r => r.type == e.type))) = true := by
  decide

theorem portBw_spec (type : String) (s : Nat) : portBw type s = if (rowOf type).speed then s else 0 := rfl

/-- the enumeration: one member per catalogue entry, in order, named after type and model, and generating by a member (which
resolves to its entry's `Type`/`Model`) finds that very entry -/
theorem enum_exact (cat : List CEntry) : enumNames cat = cat.map (fun c => massage c.type ++ "_" ++ massage c.model) := rfl

theorem current_enum_members_resolve (e : CEntry) (he : e ∈ componentCatalog) :
    lookup componentCatalog e.model e.type = some e :=
  (lookup_finds_own_entry componentCatalog current_no_shadow e he).1

/-! #### generated objects are fresh -/

theorem allocObjs_eq (next n : Nat) : allocObjs next n = List.range' next n := by
  simp [allocObjs, freshObjects]

theorem sessionObjs_bounds (cat : List CEntry) (reqs : List (String × String × Option (List String) × Option (List Bdf))) :
    ∀ next, ∀ l ∈ sessionObjs cat next reqs, ∀ i ∈ l, next ≤ i := by
  induction reqs with
  | nil => intro next l hl; simp [sessionObjs] at hl
  | cons r rest ih =>
    intro next l hl i hi
    obtain ⟨model, type, ids, labels⟩ := r
    simp only [sessionObjs] at hl
    split at hl
    · split at hl
      · rename_i e _
        rcases List.mem_cons.mp hl with rfl | hl'
        · rw [allocObjs_eq] at hi
          exact (List.mem_range'_1.mp hi).1
        · have := ih _ l hl' i hi
          omega
      · exact ih _ l hl i hi
    · exact ih _ l hl i hi

/-- **Freshness**: the components generated in one session own pairwise disjoint sets of library-made objects, each without
repetition, and none of them is an object that existed before the session (`< next`). -/
theorem generated_objects_fresh (cat : List CEntry) (reqs : List (String × String × Option (List String) × Option (List Bdf))) :
    ∀ next, (sessionObjs cat next reqs).Pairwise (fun a b => ∀ i ∈ a, i ∉ b) ∧
      (∀ l ∈ sessionObjs cat next reqs, l.Nodup) ∧ (∀ l ∈ sessionObjs cat next reqs, ∀ i ∈ l, next ≤ i) := by
  intro next
  refine ⟨?_, ?_, sessionObjs_bounds cat reqs next⟩
  · induction reqs generalizing next with
    | nil => simp [sessionObjs]
    | cons r rest ih =>
      obtain ⟨model, type, ids, labels⟩ := r
      simp only [sessionObjs]
      split
      · split
        · rename_i e _
          refine List.pairwise_cons.mpr ⟨?_, ih _⟩
          intro b hb i hi hib
          rw [allocObjs_eq] at hi
          have h1 := (List.mem_range'_1.mp hi).2
          have h2 := sessionObjs_bounds cat rest _ b hb i hib
          omega
        · exact ih _
      · exact ih _
  · induction reqs generalizing next with
    | nil => intro l hl; simp [sessionObjs] at hl
    | cons r rest ih =>
      obtain ⟨model, type, ids, labels⟩ := r
      intro l hl
      simp only [sessionObjs] at hl
      split at hl
      · split at hl
        · rcases List.mem_cons.mp hl with rfl | hl'
          · rw [allocObjs_eq]; exact List.nodup_range'
          · exact ih _ l hl'
        · exact ih _ l hl
      · exact ih _ l hl

/-! Non-vacuity: a real entry is found and its generated component matches. -/
example : (lookup componentCatalog "Alveo U280" "FPGA").map (·.model) = some "Xilinx-U280" := by decide +kernel
example : ∃ g, generate componentCatalog "nic1" "ConnectX-6" "SmartNIC" none (some ["a", "b"])
    (some [.scalar 12, .list 3]) (some "n") = .ok g ∧ g.ifaces.map (·.units) = [unitsOf (.scalar 12), 3] :=
  ⟨_, rfl, by decide +kernel⟩
example : Consistent ⟨"m", [], "SmartNIC", "d", true, [("p1", 100), ("p2", 100)]⟩ (some ["a", "b"]) (some [.none, .list 2]) := ⟨rfl, rfl⟩
example : sessionObjs componentCatalog 5 [("ConnectX-6", "SmartNIC", none, none), ("RTX6000", "GPU", none, none),
    ("ConnectX-6", "SharedNIC", some ["i"], some [.list 2])] = [[5,6,7,8,9,10,11,12,13,14], [15], [16,17,18,19,20,21]] := by
  decide +kernel
example : ∃ e ∈ instanceCatalog, le3 ⟨3, 5, 11⟩ e.2 = true := ⟨("fabric.c4.m8.d100", ⟨4, 8, 100⟩), by decide +kernel, by decide⟩

/-! #### the model named through the combined enumeration -/

theorem rowOfT_typeTable (type : String) : rowOfT typeTable type = rowOf type := rfl

theorem generateT_typeTable (cat : List CEntry) (name model type : String) (nsId : Option String)
    (ids : Option (List String)) (labels : Option (List Bdf)) (parent : Option String) :
    generateT typeTable cat name model type nsId ids labels parent = generate cat name model type nsId ids labels parent := by
  rfl

/-- the per-type rules probed on the `model_type=` path are the ones probed on the `(ctype, model)` path -/
theorem current_member_path_rules : typeTableM = typeTable := by decide

/-- every member of the enumeration of the current catalogue denotes its own entry (names are distinct) -/
theorem current_member_entries :
    componentCatalog.all (fun e => memberEntry componentCatalog (enumName e) == some e) = true := by decide +kernel

/-- naming a model through the enumeration is naming it by its entry's (type, model): same result, same errors, whatever the
other arguments are -/
theorem member_path_eq (cat : List CEntry) (hT : typeTableM = typeTable) (name member : String) (nsId : Option String)
    (ids : Option (List String)) (labels : Option (List Bdf)) (parent : Option String) (e : CEntry)
    (he : memberEntry cat member = some e) :
    generateM cat name member nsId ids labels parent = some (generate cat name e.model e.type nsId ids labels parent) := by
  simp only [generateM, he, Option.map_some, hT]
  rfl

/-- **Every member of the enumeration generates its own entry**, with the catalogued interfaces, speeds, kinds and unit counts,
for any consistent arguments (current catalogue). -/
theorem current_members_generate (e : CEntry) (he : e ∈ componentCatalog)
    (name : String) (nsId : Option String) (ids : Option (List String)) (labels : Option (List Bdf)) (parent : Option String)
    (hc : Consistent e ids labels) :
    ∃ g, generateM componentCatalog name (enumName e) nsId ids labels parent = some (.ok g) ∧ Matches e name ids labels g := by
  have hm : memberEntry componentCatalog (enumName e) = some e := by
    have := List.all_eq_true.mp current_member_entries e he
    simpa using this
  obtain ⟨g, hg, hmatch⟩ := current_models_generate e he e.model (Or.inl rfl) name nsId ids labels parent hc
  exact ⟨g, by rw [member_path_eq componentCatalog current_member_path_rules name _ nsId ids labels parent e hm, hg], hmatch⟩

/-! #### consumers of catalogue objects -/

theorem current_consumer_ops_pure : consumerWrites = [] := by decide

theorem cstep_cat (hW : consumerWrites = []) (st : CState) (op : COp) : (cstep st op).1.cat = st.cat := by
  cases op <;> simp only [cstep, writes, hW, List.contains_nil, Bool.false_eq_true, if_false] <;> (try rfl)
  all_goals (split <;> rfl)

/-- **Consumers leave the catalogue alone**: whatever a consumer computes with the objects the catalogue hands out, the
catalogue afterwards is the one that was loaded -/
theorem consumers_leave_catalogue (hW : consumerWrites = []) (ops : List COp) :
    ∀ st : CState, (crun st ops).1.cat = st.cat := by
  induction ops with
  | nil => intro st; rfl
  | cons op rest ih =>
    intro st
    simp only [crun]
    rw [ih, cstep_cat hW]

theorem cstep_out (hW : consumerWrites = []) (st : CState) (op : COp) (x : COut) (h : (cstep st op).2 = some x) :
    (∃ n, x = .caps (capsOf st.cat n)) ∨ (∃ s, x = .name (pick st.cat s)) := by
  cases op with
  | get h n => simp [cstep] at h
  | fresh h s => simp [cstep] at h
  | aug add h1 h2 => simp [cstep, writes, hW] at h
  | bin op h3 h1 h2 => simp [cstep] at h
  | use op h1 h2 => simp [cstep] at h
  | scribble h1 =>
    simp only [cstep] at h
    split at h <;> simp at h
  | query n => left; exact ⟨n, by simpa [cstep] using h.symm⟩
  | pick s => right; exact ⟨s, by simpa [cstep] using h.symm⟩
  | pickh h1 => right; exact ⟨st.val h1, by simpa [cstep] using h.symm⟩

/-- … so every answer given during the session is an answer of the loaded catalogue: a size's capacities by name, or the
stateless `pick` (to which the sizing theorems apply) -/
theorem consumer_answers_from_loaded_catalogue (hW : consumerWrites = []) (ops : List COp) :
    ∀ st : CState, ∀ o ∈ (crun st ops).2, (∃ n, o = .caps (capsOf st.cat n)) ∨ (∃ s, o = .name (pick st.cat s)) := by
  induction ops with
  | nil => intro st o ho; simp [crun] at ho
  | cons op rest ih =>
    intro st o ho
    simp only [crun] at ho
    have hc := cstep_cat hW st op
    have hrest := ih (cstep st op).1
    rw [hc] at hrest
    cases hop : (cstep st op).2 with
    | none => rw [hop] at ho; exact hrest o ho
    | some x =>
      rw [hop] at ho
      rcases List.mem_cons.mp ho with rfl | ho'
      · exact cstep_out hW st op _ hop
      · exact hrest o ho'

theorem current_consumer_sessions (ops : List COp) (env : List (Nat × Ref)) :
    (crun ⟨instanceCatalog, env⟩ ops).1.cat = instanceCatalog ∧
    ∀ o ∈ (crun ⟨instanceCatalog, env⟩ ops).2,
      (∃ n, o = .caps (capsOf instanceCatalog n)) ∨ (∃ s, o = .name (pick instanceCatalog s)) :=
  ⟨consumers_leave_catalogue current_consumer_ops_pure ops _, consumer_answers_from_loaded_catalogue current_consumer_ops_pure ops _⟩

example : (crun ⟨instanceCatalog, []⟩ [.get 0 "fabric.c2.m8.d10", .get 1 "fabric.c8.m32.d100", .aug true 0 1, .query "fabric.c2.m8.d10", .pickh 0]).2
    = [.caps (some ⟨2, 8, 10⟩), .name (some "fabric.c10.m64.d500")] := by decide +kernel
example : memberEntry componentCatalog "SharedNIC_ConnectX_6" = some ⟨"ConnectX-6", [], "SharedNIC", "Mellanox ConnectX-6 VPI MCX653 dual port 100Gbps", true, [("p1", 100)]⟩ := by
  decide +kernel
example : ((generateM componentCatalog "c" "SharedNIC_ConnectX_6" none none none none).map (fun r => r.toOption.map (fun g => g.ifaces.map (·.bw)))) = some (some [0]) := by
  decide +kernel

end FimVerif.C18
