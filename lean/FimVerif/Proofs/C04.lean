import FimVerif.Proofs.Lemmas.StoreFrameOps
import FimVerif.Proofs.Lemmas.StoreDisjoint
import FimVerif.Proofs.Lemmas.StoreClone
import FimVerif.Proofs.Lemmas.StoreDisjointClone
import FimVerif.Proofs.Lemmas.StoreHomed
/-!
# C04 — graphs sharing the in-memory store are isolated; clones are independent

Model: `Model/Store.lean` (shared store), `Model/DStore.lean` (one graph per id), `Model/AGraph.lean`
(`abs` = observable content of one graph).  Helper lemmas: `Proofs/Lemmas/Store*.lean`.

Hypotheses used below, all decidable:
* `op.WF` — an imported graph's edges join positions of its own node list (true of every `nx.Graph`);
  a merge names another graph than the caller's;
* `op.keepsGraphId` — the operation does not write the `GraphID` property (C04's quantifier excludes the
  deliberate re-homing of a graph), a direct import carries its own id on every node, and the
  operation is not `merge_nodes` (C05/C14).
-/
namespace FimVerif.C04
open FimVerif FimVerif.Store

/-! ## shared store: no two stored nodes ever share an internal identity -/

/-- the empty store satisfies the invariant -/
theorem inv_init : Store.Inv Store.init := Store.inv_init

/-- every operation (successful or failing, queries included) preserves the invariant -/
theorem inv_step (op : Op) (s : Store) (h : Store.Inv s) (hwf : op.WF = true) : Store.Inv (Store.step op s).2 :=
  Store.inv_step op s h hwf

theorem inv_run (ops : List Op) (s : Store) (h : Store.Inv s) (hwf : ∀ o ∈ ops, o.WF = true) :
    Store.Inv (Store.run ops s) := by
  induction ops generalizing s with
  | nil => exact h
  | cons o r ih =>
    simp only [Store.run, List.foldl_cons]
    exact ih _ (inv_step o s h (hwf o (by simp))) (fun o' ho' => hwf o' (by simp [ho']))

/-- the invariant holds after every history from the empty store -/
theorem inv_reachable (ops : List Op) (hwf : ∀ o ∈ ops, o.WF = true) : Store.Inv (Store.run ops Store.init) :=
  inv_run ops _ inv_init hwf

/-- … in particular two stored nodes with the same internal id are the same node, and the allocator
    is above every stored id -/
theorem ids_distinct_reachable (ops : List Op) (hwf : ∀ o ∈ ops, o.WF = true) :
    (∀ n ∈ (Store.run ops Store.init).nodes, ∀ m ∈ (Store.run ops Store.init).nodes, n.iid = m.iid → n = m) ∧
    (∀ n ∈ (Store.run ops Store.init).nodes, n.iid < (Store.run ops Store.init).nextId) := by
  have h := inv_reachable ops hwf
  exact ⟨fun n hn m hm e => Store.eq_of_nodup_map (·.iid) _ h.1 n hn m hm e, h.2.1⟩

-- non-vacuity of `WF`: an import with an edge, and a merge
example : (Op.addGraph "g" ⟨[[("NodeID", .str "a")], [("NodeID", .str "b")]], [(0, 1, [])]⟩).WF = true := by decide
example : (Op.mergeNodes "g1" "n" "g2" none).WF = true := by decide

/-! ## shared store: frame -/

/-- **frame.**  An operation addressed to graph `op.target` leaves every other graph `g'` exactly as it
    was — the same stored nodes with the same attributes and the same edges between them — whether the
    operation succeeds or raises (also when an import raises after deleting the old graph of its id). -/
theorem frame_view (op : Op) (s : Store) (g' : String) (h : Store.Inv s) (hk : op.keepsGraphId = true)
    (hne : g' ≠ op.target) :
    nodesOf (Store.step op s).2 g' = nodesOf s g' ∧ edgesOf (Store.step op s).2 g' = edgesOf s g' :=
  Store.frame_step op s g' h hk hne

/-- frame on the observable content -/
theorem frame (op : Op) (s : Store) (g' : String) (h : Store.Inv s) (hk : op.keepsGraphId = true)
    (hne : g' ≠ op.target) : Store.abs (Store.step op s).2 g' = Store.abs s g' := by
  have := frame_view op s g' h hk hne
  simp only [Store.abs, this.1, this.2]

/-- frame over histories: a graph that no operation of the history is addressed to is unchanged -/
theorem frame_history (ops : List Op) (s : Store) (g' : String) (h : Store.Inv s)
    (hops : ∀ o ∈ ops, o.WF = true ∧ o.keepsGraphId = true ∧ g' ≠ o.target) :
    Store.abs (Store.run ops s) g' = Store.abs s g' := by
  induction ops generalizing s with
  | nil => rfl
  | cons o r ih =>
    simp only [Store.run, List.foldl_cons]
    have ho := hops o (by simp)
    have := ih (Store.step o s).2 (inv_step o s h ho.1) (fun o' ho' => hops o' (by simp [ho']))
    simp only [Store.run] at this
    rw [this, frame o s g' h ho.2.1 ho.2.2]

-- non-vacuity of `keepsGraphId`: a bulk update, a failing-import candidate, a direct import
example : (Op.updateNodeProperties "g" "n" [("Name", .str "x")]).keepsGraphId = true := by decide
example : (Op.addGraph "g" ⟨[[("Class", .str "Link")]], []⟩).keepsGraphId = true := by decide
example : (Op.addGraphDirect "g" ⟨[[("GraphID", .str "g"), ("NodeID", .str "a")]], []⟩).keepsGraphId = true := by decide

/-! ## shared store: import and clone -/

/-- a successful `add_graph` (first import, or re-import under an existing id) leaves under that id
    exactly the imported content: nothing lost, nothing merged into stored nodes, whatever the incoming
    graph's own node keys were -/
theorem import_content (s : Store) (h : Store.Inv s) (g : String) (ig : IGraph) (hwf : ig.WF = true)
    (hok : (Store.addGraph g ig s).1 = .ok .unit) : Store.abs (Store.addGraph g ig s).2 g = Store.igContent ig :=
  Store.abs_addGraph_ok s h g ig hwf hok

/-- **clone_eq.** a successful clone has the content of its source under the new id -/
theorem clone_eq (s : Store) (h : Store.Inv s) (g g2 : String) (hok : (Store.cloneGraph g g2 s).1 = .ok .unit) :
    Store.abs (Store.cloneGraph g g2 s).2 g2 = Store.abs s g := Store.clone_eq s h g g2 hok

/-- **clone_independent.** after a successful clone of `g` into another id `g2`, any later history that
    is not addressed to the clone leaves the clone equal to the original content of the source — whatever
    that history does to the source — and any history not addressed to the source leaves the source as
    it was, whatever it does to the clone -/
theorem clone_independent (s : Store) (h : Store.Inv s) (g g2 : String) (hne : g ≠ g2)
    (hok : (Store.cloneGraph g g2 s).1 = .ok .unit) (ops : List Op) :
    ((∀ o ∈ ops, o.WF = true ∧ o.keepsGraphId = true ∧ g2 ≠ o.target) →
      Store.abs (Store.run ops (Store.cloneGraph g g2 s).2) g2 = Store.abs s g) ∧
    ((∀ o ∈ ops, o.WF = true ∧ o.keepsGraphId = true ∧ g ≠ o.target) →
      Store.abs (Store.run ops (Store.cloneGraph g g2 s).2) g = Store.abs s g) := by
  have hinv : Store.Inv (Store.cloneGraph g g2 s).2 := inv_step (.clone g g2) s h rfl
  constructor
  · intro hops
    rw [frame_history ops _ g2 hinv hops, clone_eq s h g g2 hok]
  · intro hops
    rw [frame_history ops _ g hinv hops]
    exact frame (.clone g g2) s g h rfl hne

-- non-vacuity: a concrete store, a successful clone
example : (Store.cloneGraph "g" "h" ⟨[⟨1, [("GraphID", .str "g"), ("NodeID", .str "a")]⟩], [], 2⟩).1 = .ok .unit := by rfl

/-! ## one graph per id: the same statements -/

theorem dinv_init : DStore.Inv DStore.init := DStore.inv_init

theorem dinv_step (op : Op) (d : DStore.DStore) (h : DStore.Inv d) (hwf : op.WF = true) :
    DStore.Inv (DStore.step op d).2 := DStore.inv_step op d h hwf

theorem dinv_reachable (ops : List Op) (hwf : ∀ o ∈ ops, o.WF = true) : DStore.Inv (DStore.run ops DStore.init) := by
  suffices ∀ d, DStore.Inv d → DStore.Inv (DStore.run ops d) from this _ dinv_init
  induction ops with
  | nil => intro d h; exact h
  | cons o r ih =>
    intro d h
    simp only [DStore.run, List.foldl_cons]
    exact ih (fun o' ho' => hwf o' (by simp [ho'])) _ (dinv_step o d h (hwf o (by simp)))

/-- **frame** on the disjoint store: the graph stored under any other id — nodes, edges, id counter —
    is untouched, with no hypothesis on the operation at all -/
theorem dframe (op : Op) (d : DStore.DStore) (g' : String) (hne : g' ≠ op.target) :
    DStore.sub (DStore.step op d).2 g' = DStore.sub d g' := DStore.frame_step op d g' hne

/-- **clone_eq** on the disjoint store: cloning into an id that holds no nodes (into a non-empty id the
    store documents "warn and skip") leaves there exactly the content of the source.  `Homed d g`: every
    node stored under `g` carries `GraphID = g`. -/
theorem dclone_eq (d : DStore.DStore) (h : DStore.Inv d) (g g2 : String) (hh : DStore.Homed d g)
    (hempty : (DStore.sub d g2).nodes = [])
    (hok : (DStore.extractGraph d g).nodes.any (fun a => !truthy (AMap.get Gen.StoreConsts.nodeId a)) = false) :
    DStore.abs (DStore.cloneGraph g g2 d).2 g2 = DStore.abs d g := DStore.clone_eq d h g g2 hh hempty hok

/-- in every state reachable by operations that do not write `GraphID`, both side conditions of
    `dclone_eq` (`Inv`, `Homed`) hold -/
theorem dhomed_reachable (ops : List Op) (hops : ∀ o ∈ ops, o.WF = true ∧ o.keepsGraphId = true) :
    DStore.Inv (DStore.run ops DStore.init) ∧ ∀ g, DStore.Homed (DStore.run ops DStore.init) g := by
  refine ⟨dinv_reachable ops (fun o ho => (hops o ho).1), ?_⟩
  suffices ∀ d, (∀ g, DStore.Homed d g) → ∀ g, DStore.Homed (DStore.run ops d) g from this _ DStore.homed_init
  induction ops with
  | nil => intro d h; exact h
  | cons o r ih =>
    intro d h
    simp only [DStore.run, List.foldl_cons]
    exact ih (fun o' ho' => hops o' (by simp [ho'])) _ (DStore.homed_step o d (hops o (by simp)).2 h)

/-- `dclone_eq` for every reachable state -/
theorem dclone_eq_reachable (ops : List Op) (hops : ∀ o ∈ ops, o.WF = true ∧ o.keepsGraphId = true) (g g2 : String)
    (hempty : (DStore.sub (DStore.run ops DStore.init) g2).nodes = [])
    (hok : (DStore.extractGraph (DStore.run ops DStore.init) g).nodes.any
      (fun a => !truthy (AMap.get Gen.StoreConsts.nodeId a)) = false) :
    DStore.abs (DStore.cloneGraph g g2 (DStore.run ops DStore.init)).2 g2 = DStore.abs (DStore.run ops DStore.init) g :=
  dclone_eq _ (dhomed_reachable ops hops).1 g g2 ((dhomed_reachable ops hops).2 g) hempty hok

/-- clone independence on the disjoint store is `dframe` both ways: an operation addressed to any
    other id than `g'` leaves the graph under `g'` untouched -/
theorem dclone_independent (d : DStore.DStore) (g g2 : String) (hne : g ≠ g2) (op : Op) :
    (g2 ≠ op.target → DStore.abs (DStore.step op (DStore.cloneGraph g g2 d).2).2 g2 = DStore.abs (DStore.cloneGraph g g2 d).2 g2) ∧
    (g ≠ op.target → DStore.abs (DStore.step op (DStore.cloneGraph g g2 d).2).2 g = DStore.abs d g) := by
  constructor
  · intro h; simp only [DStore.abs, dframe op _ g2 h]
  · intro h
    simp only [DStore.abs, dframe op _ g h]
    have := dframe (.clone g g2) d g hne
    simp only [DStore.step] at this
    rw [this]

end FimVerif.C04
