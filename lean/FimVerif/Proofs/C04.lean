import FimVerif.Proofs.Lemmas.StoreFrameOps
import FimVerif.Proofs.Lemmas.StoreDisjoint
import FimVerif.Proofs.Lemmas.StoreClone
import FimVerif.Proofs.Lemmas.StoreDisjointClone
import FimVerif.Proofs.Lemmas.StoreHomed
import FimVerif.Proofs.Lemmas.StoreFrameGen
import FimVerif.Model.ImportEntry
/-!
# C04 — graphs sharing the in-memory store are isolated; clones are independent

Model: `Model/Store.lean` (shared store), `Model/DStore.lean` (one graph per id), `Model/AGraph.lean`
(`abs` = observable content of one graph).  Helper lemmas: `Proofs/Lemmas/Store*.lean`.

The alphabet `Store.Op` is total: imports of any `IGraph` (dangling wire edges are dropped by `IGraph.close`,
the identity on every real `nx.Graph`), re-imports of a grown graph under its own id, clones onto existing
ids, `GraphID` / `NodeID` rewrites, merges with any policy (also of a graph with itself: refused, /repo
119fa6d), `delete_all_graphs`, operations addressed with a node id that only another graph has.  The
invariant and the general frame theorem have **no hypothesis on the operation**; `op.keepsGraphId`
(decidable: the operation writes no `GraphID`, is no merge, no `delete_all_graphs`) only appears in the
corollaries that speak of the target alone.
-/
namespace FimVerif.C04
open FimVerif FimVerif.Store

/-! ## shared store: no two stored nodes ever share an internal identity -/

/-- the empty store satisfies the invariant -/
theorem inv_init : Store.Inv Store.init := Store.inv_init

/-- every operation (successful or failing, queries included) preserves the invariant -/
theorem inv_step (op : Op) (s : Store) (h : Store.Inv s) : Store.Inv (Store.step op s).2 :=
  Store.inv_step op s h

theorem inv_run (ops : List Op) (s : Store) (h : Store.Inv s) : Store.Inv (Store.run ops s) := by
  induction ops generalizing s with
  | nil => exact h
  | cons o r ih =>
    simp only [Store.run, List.foldl_cons]
    exact ih _ (inv_step o s h)

/-- the invariant holds after every history from the empty store -/
theorem inv_reachable (ops : List Op) : Store.Inv (Store.run ops Store.init) :=
  inv_run ops _ inv_init

/-- **no two stored nodes ever share an internal identity** (shared store): after every history two stored
    nodes with the same internal id are the same node, the allocator is above every stored id, and the
    `nx.Graph` is closed (every edge joins stored nodes) -/
theorem ids_distinct_reachable (ops : List Op) :
    (∀ n ∈ (Store.run ops Store.init).nodes, ∀ m ∈ (Store.run ops Store.init).nodes, n.iid = m.iid → n = m) ∧
    (∀ n ∈ (Store.run ops Store.init).nodes, n.iid < (Store.run ops Store.init).nextId) ∧
    (∀ e ∈ (Store.run ops Store.init).edges,
      idIn (Store.run ops Store.init).nodes e.a = true ∧ idIn (Store.run ops Store.init).nodes e.b = true) := by
  have h := inv_reachable ops
  exact ⟨fun n hn m hm e => Store.eq_of_nodup_map (·.iid) _ h.1 n hn m hm e, h.2.1, h.2.2⟩

/-- the wire form of an import is interpreted as the `nx.Graph` it denotes: on a well-formed graph `step`
    is the storage method itself -/
theorem step_import_wf (g : String) (ig : IGraph) (s : Store) (hwf : ig.WF = true) :
    Store.step (.addGraph g ig) s = Store.addGraph g ig s ∧ Store.step (.addGraphDirect g ig) s = Store.addGraphDirect g ig s := by
  simp [Store.step, IGraph.close_of_WF ig hwf]

example : (Op.addGraph "g" ⟨[[("NodeID", .str "a")], [("NodeID", .str "b")]], [(0, 1, [])]⟩).WF = true := by decide

/-- `delete_all_graphs` empties the store and keeps the allocator: internal ids are never handed out twice -/
theorem delall_keeps_allocator (s : Store) :
    (Store.step .delAllGraphs s).2.nodes = [] ∧ (Store.step .delAllGraphs s).2.edges = [] ∧
    (Store.step .delAllGraphs s).2.nextId = s.nextId := ⟨rfl, rfl, rfl⟩

/-- the control-flow facts observed on the code by `gen/storeflow.py` (where imports take their internal ids from, how
    the allocators move, what `del_graph` / `del_all_graphs` do to them, when the disjoint store regards an id as
    present, which lookups filter on `GraphID`) are the ones `Model/Store.lean` / `Model/DStore.lean` mirror -/
theorem flow_is_modelled :
    Gen.StoreFlow.flow = Store.modelFlow ∧ Gen.StoreFlow.gidFiltered = Store.modelFiltered ∧
    Gen.StoreFlow.dgidFiltered = DStore.modelFiltered := by decide

/-- **importers share one store.**  Making an importer - the first of the process or a later one, with or without a logger -
    never replaces a store that exists: every graph stored so far is what every importer (and every handle made through
    it) sees afterwards; only the first importer of the process starts from the empty store -/
theorem new_importer_changes_nothing (s : Store) (d : DStore.DStore) :
    Store.enter (some s) = s ∧ DStore.enter (some d) = d ∧ Store.enter none = Store.init ∧ DStore.enter none = DStore.init := by
  have hs : Gen.StoreFlow.flow.sharedStoreSurvivesNewImporter = true := rfl
  have hd : Gen.StoreFlow.flow.disjointStoreSurvivesNewImporter = true := rfl
  simp [Store.enter, DStore.enter, DStore.init, hs, hd]

/-- … at any moments of a history: running a history with importers made before any of its requests (`mk k` = how many
    are made before request number k) ends in the store the plain run ends in -/
theorem importers_made_mid_history (mk : Nat → Nat) (ops : List Op) (s : Store) (k : Nat) :
    (ops.foldl (fun (acc : Store × Nat) op =>
        ((Store.step op (Nat.repeat (fun t => Store.enter (some t)) (mk acc.2) acc.1)).2, acc.2 + 1)) (s, k)).1
      = ops.foldl (fun t op => (Store.step op t).2) s := by
  have hs : ∀ t : Store, Store.enter (some t) = t := fun t => (new_importer_changes_nothing t DStore.init).1
  have hf : (fun t : Store => Store.enter (some t)) = id := funext hs
  have hr : ∀ n (t : Store), Nat.repeat id n t = t := by
    intro n; induction n with
    | zero => intro t; rfl
    | succ n ih => intro t; simp [Nat.repeat, ih]
  simp only [hf, hr]
  induction ops generalizing s k with
  | nil => rfl
  | cons op ops ih => simp only [List.foldl]; exact ih _ _

/-! ## shared store: frame -/

/-- **frame (general).**  Whatever the operation — `GraphID` rewrites, direct imports of nodes that carry
    other graph ids, merges with any policy, `delete_all_graphs`, failing calls — every graph id that
    `Op.affects` does not list (the target, the ids the operation writes into `GraphID`, the second graph of
    a merge; every id for `delete_all_graphs`) keeps exactly its stored nodes and edges. -/
theorem frame_general (op : Op) (s : Store) (g' : String) (h : Store.Inv s) (ha : op.affects g' = false) :
    nodesOf (Store.step op s).2 g' = nodesOf s g' ∧ edgesOf (Store.step op s).2 g' = edgesOf s g' :=
  Store.frame_affects op s g' h ha

/-- … over every history from the empty store: a graph that no operation of the history affects is
    unchanged from the point where it was last affected (no side condition on states or operations) -/
theorem frame_general_history (pre ops : List Op) (g' : String) (hops : ∀ o ∈ ops, o.affects g' = false) :
    Store.abs (Store.run ops (Store.run pre Store.init)) g' = Store.abs (Store.run pre Store.init) g' := by
  suffices ∀ s, Store.Inv s → Store.abs (Store.run ops s) g' = Store.abs s g' from this _ (inv_reachable pre)
  induction ops with
  | nil => intro s _; rfl
  | cons o r ih =>
    intro s h
    simp only [Store.run, List.foldl_cons]
    have := ih (fun o' ho' => hops o' (by simp [ho'])) (Store.step o s).2 (inv_step o s h)
    simp only [Store.run] at this
    rw [this]
    have f := frame_general o s g' h (hops o (by simp))
    simp only [Store.abs, f.1, f.2]

-- non-vacuity of `affects = false`: a re-homing update, a merge with a policy on `GraphID`, a direct import
example : (Op.updateNodesProperty "g1" "GraphID" (.str "g2")).affects "g3" = false := by decide
example : (Op.mergeNodes "g1" "n" "g2" (some [("GraphID", .overwrite)])).affects "g3" = false := by decide
example : (Op.addGraphDirect "g1" ⟨[[("GraphID", .str "g2"), ("NodeID", .str "a")]], []⟩).affects "g3" = false := by decide
-- … and it is true of exactly the graphs that are touched
example : (Op.updateNodesProperty "g1" "GraphID" (.str "g2")).affects "g2" = true := by decide

/-- an operation that writes no `GraphID` affects its target only -/
theorem affects_of_keepsGraphId (op : Op) (g' : String) (hk : op.keepsGraphId = true) (hne : g' ≠ op.target) :
    op.affects g' = false := by
  cases op with
  | addNode g nid label props =>
    cases props with
    | none => simpa [Op.affects, Op.gidWrites, Op.target] using hne
    | some p =>
      simp only [Op.keepsGraphId, Bool.not_eq_true'] at hk
      simpa [Op.affects, Op.gidWrites, Op.target, Store.gidOf_none_of_not_has p hk] using hne
  | updateNodeProperties g nid p =>
    simp only [Op.keepsGraphId, Bool.not_eq_true'] at hk
    simpa [Op.affects, Op.gidWrites, Op.target, Store.gidOf_none_of_not_has p hk] using hne
  | addGraphDirect g ig =>
    simp only [Op.keepsGraphId, List.all_eq_true, beq_iff_eq] at hk
    simp only [Op.affects, Op.gidWrites, Op.target, Bool.or_false, Bool.or_eq_false_iff, beq_eq_false_iff_ne, ne_eq,
      List.contains_eq_mem, decide_eq_false_iff_not, List.mem_filterMap, not_exists, not_and]
    refine ⟨hne, fun a ha e => ?_⟩
    rw [hk a ha] at e
    injection e with e; injection e with e; exact hne e.symm
  | mergeNodes g nid g2 pol => simp [Op.keepsGraphId] at hk
  | delAllGraphs => simp [Op.keepsGraphId] at hk
  | updateNodeProperty g nid k v =>
    simp only [Op.keepsGraphId, bne_iff_ne, ne_eq] at hk
    simpa [Op.affects, Op.gidWrites, Op.target, hk] using hne
  | updateNodesProperty g k v =>
    simp only [Op.keepsGraphId, bne_iff_ne, ne_eq] at hk
    simpa [Op.affects, Op.gidWrites, Op.target, hk] using hne
  | _ => simpa [Op.affects, Op.gidWrites, Op.target] using hne

/-- **frame.**  An operation addressed to graph `op.target` that writes no `GraphID` leaves every other graph
    `g'` exactly as it was — the same stored nodes with the same attributes and the same edges between them —
    whether the operation succeeds or raises (also when an import raises after deleting the old graph of its id). -/
theorem frame_view (op : Op) (s : Store) (g' : String) (h : Store.Inv s) (hk : op.keepsGraphId = true)
    (hne : g' ≠ op.target) :
    nodesOf (Store.step op s).2 g' = nodesOf s g' ∧ edgesOf (Store.step op s).2 g' = edgesOf s g' :=
  frame_general op s g' h (affects_of_keepsGraphId op g' hk hne)

/-- frame on the observable content -/
theorem frame (op : Op) (s : Store) (g' : String) (h : Store.Inv s) (hk : op.keepsGraphId = true)
    (hne : g' ≠ op.target) : Store.abs (Store.step op s).2 g' = Store.abs s g' := by
  have := frame_view op s g' h hk hne
  simp only [Store.abs, this.1, this.2]

/-- frame over histories: a graph that no operation of the history is addressed to is unchanged -/
theorem frame_history (ops : List Op) (s : Store) (g' : String) (h : Store.Inv s)
    (hops : ∀ o ∈ ops, o.keepsGraphId = true ∧ g' ≠ o.target) :
    Store.abs (Store.run ops s) g' = Store.abs s g' := by
  induction ops generalizing s with
  | nil => rfl
  | cons o r ih =>
    simp only [Store.run, List.foldl_cons]
    have ho := hops o (by simp)
    have := ih (Store.step o s).2 (inv_step o s h) (fun o' ho' => hops o' (by simp [ho']))
    simp only [Store.run] at this
    rw [this, frame o s g' h ho.1 ho.2]

-- non-vacuity of `keepsGraphId`: a bulk update, a failing-import candidate, a direct import
example : (Op.updateNodeProperties "g" "n" [("Name", .str "x")]).keepsGraphId = true := by decide
example : (Op.addGraph "g" ⟨[[("Class", .str "Link")]], []⟩).keepsGraphId = true := by decide
example : (Op.addGraphDirect "g" ⟨[[("GraphID", .str "g"), ("NodeID", .str "a")]], []⟩).keepsGraphId = true := by decide

/-! ## shared store: import and clone -/

/-- a successful `add_graph` (first import, or re-import under an existing id) leaves under that id
    exactly the imported content: nothing lost, nothing merged into stored nodes, whatever the incoming
    graph's own node keys were -/
theorem import_content (s : Store) (h : Store.Inv s) (g : String) (ig : IGraph) (hwf : ig.WF = true)
    (hok : (Store.addGraph g ig s).1 = .ok .unit) : Store.abs (Store.addGraph g ig s).2 g = Store.igContent ig :=
  Store.abs_addGraph_ok s h g ig hwf hok

/-- **clone_eq.** a successful clone has the content of its source under the new id -/
theorem clone_eq (s : Store) (h : Store.Inv s) (g g2 : String) (hok : (Store.cloneGraph g g2 s).1 = .ok .unit) :
    Store.abs (Store.cloneGraph g g2 s).2 g2 = Store.abs s g := Store.clone_eq s h g g2 hok

/-- **clone_independent.** after a successful clone of `g` into another id `g2`, any later history that
    is not addressed to the clone leaves the clone equal to the original content of the source — whatever
    that history does to the source — and any history not addressed to the source leaves the source as
    it was, whatever it does to the clone -/
theorem clone_independent (s : Store) (h : Store.Inv s) (g g2 : String) (hne : g ≠ g2)
    (hok : (Store.cloneGraph g g2 s).1 = .ok .unit) (ops : List Op) :
    ((∀ o ∈ ops, o.keepsGraphId = true ∧ g2 ≠ o.target) →
      Store.abs (Store.run ops (Store.cloneGraph g g2 s).2) g2 = Store.abs s g) ∧
    ((∀ o ∈ ops, o.keepsGraphId = true ∧ g ≠ o.target) →
      Store.abs (Store.run ops (Store.cloneGraph g g2 s).2) g = Store.abs s g) := by
  have hinv : Store.Inv (Store.cloneGraph g g2 s).2 := inv_step (.clone g g2) s h
  constructor
  · intro hops
    rw [frame_history ops _ g2 hinv hops, clone_eq s h g g2 hok]
  · intro hops
    rw [frame_history ops _ g hinv hops]
    exact frame (.clone g g2) s g h rfl hne

-- non-vacuity: a concrete store, a successful clone
example : (Store.cloneGraph "g" "h" ⟨[⟨1, [("GraphID", .str "g"), ("NodeID", .str "a")]⟩], [], 2⟩).1 = .ok .unit := by rfl

/-- **re-import of a (grown) graph under its own id**, in one statement: whatever the store holds under `g`
    and elsewhere, a successful `add_graph g` leaves under `g` exactly the imported content, leaves every
    other graph untouched and keeps all internal identities distinct -/
theorem reimport_isolated (s : Store) (h : Store.Inv s) (g : String) (ig : IGraph)
    (hok : (Store.step (.addGraph g ig) s).1 = .ok .unit) :
    Store.abs (Store.step (.addGraph g ig) s).2 g = Store.igContent ig.close ∧
    (∀ g', g' ≠ g → Store.abs (Store.step (.addGraph g ig) s).2 g' = Store.abs s g') ∧
    Store.Inv (Store.step (.addGraph g ig) s).2 :=
  ⟨Store.abs_addGraph_ok s h g ig.close ig.close_WF hok, fun g' hne => frame (.addGraph g ig) s g' h rfl hne,
   inv_step _ s h⟩

/-- the node ids an operation looks up in its target graph before it does anything else -/
def nodeArgs : Op → List String
  | .deleteNode _ nid | .updateNodeProperty _ nid .. | .unsetNodeProperty _ nid .. | .updateNodeProperties _ nid ..
  | .getNodeProperties _ nid => [nid]
  | .addLink _ a _ b _ | .updateLinkProperty _ a b .. | .unsetLinkProperty _ a b .. | .updateLinkProperties _ a b ..
  | .getLinkProperties _ a b => [a, b]
  | .mergeNodes _ nid .. => [nid]
  | _ => []

theorem findNode_foreign (s : Store) (g nid : String) (hno : ∀ n ∈ nodesOf s g, hasNid nid n = false) :
    findNode s g nid = .error .query := by
  unfold findNode
  have : s.nodes.filter (fun n => hasNid nid n && inG g n) = [] := by
    rw [List.filter_eq_nil_iff]
    intro n hn
    by_cases hg : inG g n = true
    · simp [hno n (by simp [nodesOf, hn, hg])]
    · simp [hg]
  rw [this]

/-- **an operation addressed with a node id that its target graph does not have is refused** — also when
    some other graph has a node of that id — and leaves the whole store as it was -/
theorem foreign_node_refused (op : Op) (s : Store) (nid : String) (hin : nid ∈ nodeArgs op)
    (hno : ∀ n ∈ nodesOf s op.target, hasNid nid n = false) :
    (∃ e, (Store.step op s).1 = .error e) ∧ (Store.step op s).2 = s := by
  have hf := findNode_foreign s op.target nid hno
  cases op with
  | deleteNode g x =>
    simp only [nodeArgs, List.mem_singleton] at hin; subst hin
    simp only [Op.target] at hf
    simp [Store.step, deleteNode, withNode, hf]
  | updateNodeProperty g x k v =>
    simp only [nodeArgs, List.mem_singleton] at hin; subst hin
    simp only [Op.target] at hf
    simp only [Store.step, assertVal, updateNodeProperty, withNode, hf]
    repeat' split
    all_goals exact ⟨⟨_, rfl⟩, rfl⟩
  | unsetNodeProperty g x k =>
    simp only [nodeArgs, List.mem_singleton] at hin; subst hin
    simp only [Op.target] at hf
    simp only [Store.step, unsetNodeProperty, withNode, hf]
    repeat' split
    all_goals exact ⟨⟨_, rfl⟩, rfl⟩
  | updateNodeProperties g x p =>
    simp only [nodeArgs, List.mem_singleton] at hin; subst hin
    simp only [Op.target] at hf
    simp only [Store.step, updateNodeProperties, withNode, hf]
    split <;> exact ⟨⟨_, rfl⟩, rfl⟩
  | getNodeProperties g x =>
    simp only [nodeArgs, List.mem_singleton] at hin; subst hin
    simp only [Op.target] at hf
    simp [Store.step, getNodeProperties, withNode, hf]
  | mergeNodes g x g2 pol =>
    simp only [nodeArgs, List.mem_singleton] at hin; subst hin
    simp only [Op.target] at hf
    simp only [Store.step, mergeNodes, withNode, hf]
    split <;> exact ⟨⟨_, rfl⟩, rfl⟩
  | addLink g a rel b props =>
    simp only [Op.target] at hf hno
    have key : ∀ k : Nat → Nat → R, (∃ e, (withNode s g a fun ia => withNode s g b fun ib => k ia ib).1 = .error e) ∧
        (withNode s g a fun ia => withNode s g b fun ib => k ia ib).2 = s := by
      intro k
      simp only [nodeArgs, List.mem_cons, List.not_mem_nil, or_false] at hin
      unfold withNode
      rcases hin with rfl | rfl
      · rw [hf]; exact ⟨⟨_, rfl⟩, rfl⟩
      · split
        · exact ⟨⟨_, rfl⟩, rfl⟩
        · simp [hf]
    exact key _
  | getLinkProperties g a b =>
    simp only [Op.target] at hf hno
    simp only [nodeArgs, List.mem_cons, List.not_mem_nil, or_false] at hin
    simp only [Store.step, getLinkProperties]
    unfold withNode
    rcases hin with rfl | rfl
    · rw [hf]; exact ⟨⟨_, rfl⟩, rfl⟩
    · split
      · exact ⟨⟨_, rfl⟩, rfl⟩
      · simp [hf]
  | updateLinkProperty g a b kind k v =>
    simp only [Op.target] at hf hno
    simp only [nodeArgs, List.mem_cons, List.not_mem_nil, or_false] at hin
    simp only [Store.step, assertVal, updateLinkProperty, withLink]
    split
    · exact ⟨⟨_, rfl⟩, rfl⟩
    split
    · exact ⟨⟨_, rfl⟩, rfl⟩
    unfold withNode
    rcases hin with rfl | rfl
    · rw [hf]; exact ⟨⟨_, rfl⟩, rfl⟩
    · split
      · exact ⟨⟨_, rfl⟩, rfl⟩
      · simp [hf]
  | unsetLinkProperty g a b kind k =>
    simp only [Op.target] at hf hno
    simp only [nodeArgs, List.mem_cons, List.not_mem_nil, or_false] at hin
    simp only [Store.step, unsetLinkProperty, withLink]
    split
    · exact ⟨⟨_, rfl⟩, rfl⟩
    unfold withNode
    rcases hin with rfl | rfl
    · rw [hf]; exact ⟨⟨_, rfl⟩, rfl⟩
    · split
      · exact ⟨⟨_, rfl⟩, rfl⟩
      · simp [hf]
  | updateLinkProperties g a b kind p =>
    simp only [Op.target] at hf hno
    simp only [nodeArgs, List.mem_cons, List.not_mem_nil, or_false] at hin
    simp only [Store.step, updateLinkProperties, withLink]
    split
    · exact ⟨⟨_, rfl⟩, rfl⟩
    unfold withNode
    rcases hin with rfl | rfl
    · rw [hf]; exact ⟨⟨_, rfl⟩, rfl⟩
    · split
      · exact ⟨⟨_, rfl⟩, rfl⟩
      · simp [hf]
  | _ => simp [nodeArgs] at hin

-- non-vacuity: graph g2 has the node, g1 is addressed
example : "n" ∈ nodeArgs (.deleteNode "g1" "n") ∧
    ∀ m ∈ nodesOf ⟨[⟨1, [("GraphID", .str "g2"), ("NodeID", .str "n")]⟩], [], 2⟩ "g1", hasNid "n" m = false := by
  refine ⟨by simp [nodeArgs], ?_⟩
  intro m hm
  have : nodesOf ⟨[⟨1, [("GraphID", .str "g2"), ("NodeID", .str "n")]⟩], [], 2⟩ "g1" = [] := by decide
  rw [this] at hm; cases hm

/-! ## shared store: refused calls; a graph handle is its graph id

In the model a graph *handle* is the graph id that travels inside the `Op` - `Store.step` has no other input than the operation
and the store, so nothing a handle object could remember between calls (a cache, a memo, anything left behind by a call that
failed) exists here.  The two theorems below say what that means for refused calls: the store after a refused call is the store
before it (an import that fails has, as the code does, already dropped the old graph of its own id), so the rest of a history -
every reply and every graph - is what it would have been without the refused call.  The implementation side of the
correspondence and of the oracle is driven through handle *objects* kept for the whole history so that a stateful handle shows
as a difference to this model (class of seeded C04-r4-2: a lookup memo written by a merge that was then refused). -/

/-- **a refused call changes nothing** - not the graph it is addressed to, not the other graph of a refused `merge_nodes`
    (whatever the reason: other graph missing, node missing on either side, the graph itself, a policy naming a property the
    other node lacks), not the allocator.  The one exception is the code's own: an import (`add_graph`, and `clone_graph` through
    it) that is refused for a node without `NodeID` has already deleted the graph stored under its own id. -/
theorem failed_call_changes_nothing (op : Op) (s : Store) (e : Err) (h : (Store.step op s).1 = .error e) :
    (Store.step op s).2 = s ∨
    (((∃ g ig, op = .addGraph g ig) ∨ (∃ g g2, op = .clone g g2)) ∧
      (Store.step op s).2 = Store.delIfPresent op.target s) := by
  cases op
  all_goals first
    | (left; simp only [Store.step, addNode, deleteNode, addLink, assertVal, updateNodeProperty, unsetNodeProperty,
        updateNodesProperty, updateNodeProperties, updateLinkProperty, unsetLinkProperty, updateLinkProperties, delGraph,
        addGraphDirect, mergeNodes, getNodeProperties, getLinkProperties, listAllNodeIds, nodesByClass, nodesByClassAndType,
        nodeExists, graphExists, checkNodeUnique, findMatchingNodes, delAllGraphs, withNode, withLink, nidList] at h ⊢
       (repeat' split) <;> simp_all; done)
    | (exfalso; simp [Store.step, graphExists, checkNodeUnique] at h; done)
    | skip
  case addGraph g ig =>
    right
    refine ⟨Or.inl ⟨g, ig, rfl⟩, ?_⟩
    simp only [Store.step, addGraph, Op.target] at h ⊢
    split at h <;> simp_all
  case clone g g2 =>
    simp only [Store.step, cloneGraph, Op.target] at h ⊢
    split
    · left; rfl
    · right
      refine ⟨Or.inr ⟨g, g2, rfl⟩, ?_⟩
      rename_i ig hig
      rw [hig] at h
      simp only [addGraph] at h ⊢
      split at h <;> simp_all

/-- **refused calls are invisible to the rest of the history**: striking a refused call (other than a refused import) out of a
    history changes neither the final store nor - `Store.step` being a function of the operation and the store - any later
    reply.  In particular a refused `merge_nodes` between a graph and its clone cannot send later updates of either to the
    other. -/
theorem refused_calls_are_invisible (op : Op) (rest : List Op) (s : Store) (e : Err)
    (h : (Store.step op s).1 = .error e) (h1 : ∀ g ig, op ≠ .addGraph g ig) (h2 : ∀ g g2, op ≠ .clone g g2) :
    Store.run (op :: rest) s = Store.run rest s := by
  have := failed_call_changes_nothing op s e h
  rcases this with h0 | ⟨⟨g, ig, hop⟩ | ⟨g, g2, hop⟩, _⟩
  · simp only [Store.run, List.foldl_cons, h0]
  · exact absurd hop (h1 g ig)
  · exact absurd hop (h2 g g2)

/-- non-vacuity: a graph and a twin that lacks the property the policy names - the merge is refused with `KeyError` after both
    lookups (the history of seeded C04-r4-2), and it is neither an import nor a clone -/
example :
    (Store.step (.mergeNodes "g1" "n1" "g2" (some [("p", .overwrite)]))
      (Store.run [.addNode "g1" "n1" "Link" (some [("p", .str "x")]), .addNode "g2" "n1" "Link" none] Store.init)).1
      = .error .key := by rfl

/-! ## one graph per id: the same statements -/

theorem dinv_init : DStore.Inv DStore.init := DStore.inv_init

theorem dinv_step (op : Op) (d : DStore.DStore) (h : DStore.Inv d) :
    DStore.Inv (DStore.step op d).2 := DStore.inv_step op d h

theorem dinv_reachable (ops : List Op) : DStore.Inv (DStore.run ops DStore.init) := by
  suffices ∀ d, DStore.Inv d → DStore.Inv (DStore.run ops d) from this _ dinv_init
  induction ops with
  | nil => intro d h; exact h
  | cons o r ih =>
    intro d h
    simp only [DStore.run, List.foldl_cons]
    exact ih _ (dinv_step o d h)

/-- **no two stored nodes ever share an internal identity** (one graph per id; the identity of a node is its
    graph's key plus its integer id): after every history, within the graph stored under any key two nodes
    with the same id are the same node, and that graph's counter is above every id in it -/
theorem dids_distinct_reachable (ops : List Op) (g : String) :
    (∀ n ∈ (DStore.sub (DStore.run ops DStore.init) g).nodes, ∀ m ∈ (DStore.sub (DStore.run ops DStore.init) g).nodes,
      n.iid = m.iid → n = m) ∧
    (∀ n ∈ (DStore.sub (DStore.run ops DStore.init) g).nodes, n.iid < (DStore.sub (DStore.run ops DStore.init) g).nextId) := by
  have h := dinv_reachable ops g
  exact ⟨fun n hn m hm e => Store.eq_of_nodup_map (·.iid) _ h.1 n hn m hm e, h.2.1⟩

/-- **frame** on the disjoint store: the graph stored under any other id — nodes, edges, id counter —
    is untouched, with no hypothesis on the operation at all -/
theorem dframe (op : Op) (d : DStore.DStore) (g' : String) (hne : g' ≠ op.target) (hall : op.isDelAll = false) :
    DStore.sub (DStore.step op d).2 g' = DStore.sub d g' := DStore.frame_step op d g' hne hall

/-- `delete_all_graphs` on the disjoint store drops every graph but keeps every id counter -/
theorem ddelall_keeps_counters (d : DStore.DStore) (g : String) :
    (DStore.sub (DStore.step .delAllGraphs d).2 g).nodes = [] ∧
    (DStore.sub (DStore.step .delAllGraphs d).2 g).nextId = (DStore.sub d g).nextId := by
  have hf : Gen.StoreFlow.flow.disjointDelAllKeepsCounters = true := rfl
  simp only [DStore.step, DStore.delAllGraphs, hf, if_true, DStore.sub_delAll, true_and]
  unfold DStore.sub
  split <;> rfl

/-- a clone (or import) onto an id that holds nodes is the documented "warn and skip" on this store -/
theorem dclone_onto_existing_skips (d : DStore.DStore) (g g2 : String) (h : (DStore.sub d g2).nodes ≠ []) :
    DStore.step (.clone g g2) d = (.ok .unit, d) := by
  have : (DStore.sub d g2).nodes.length > 0 := List.length_pos_iff.2 h
  simp [DStore.step, DStore.cloneGraph, DStore.addGraph, this]

/-- **clone_eq** on the disjoint store: cloning into an id that holds no nodes (into a non-empty id the
    store documents "warn and skip") leaves there exactly the content of the source.  `Homed d g`: every
    node stored under `g` carries `GraphID = g`. -/
theorem dclone_eq (d : DStore.DStore) (h : DStore.Inv d) (g g2 : String) (hh : DStore.Homed d g)
    (hempty : (DStore.sub d g2).nodes = [])
    (hok : (DStore.extractGraph d g).nodes.any (fun a => !truthy (AMap.get Gen.StoreConsts.nodeId a)) = false) :
    DStore.abs (DStore.cloneGraph g g2 d).2 g2 = DStore.abs d g := DStore.clone_eq d h g g2 hh hempty hok

/-- in every state reachable by operations that do not write `GraphID`, both side conditions of
    `dclone_eq` (`Inv`, `Homed`) hold -/
theorem dhomed_reachable (ops : List Op) (hops : ∀ o ∈ ops, o.keepsGraphId = true) :
    DStore.Inv (DStore.run ops DStore.init) ∧ ∀ g, DStore.Homed (DStore.run ops DStore.init) g := by
  refine ⟨dinv_reachable ops, ?_⟩
  suffices ∀ d, (∀ g, DStore.Homed d g) → ∀ g, DStore.Homed (DStore.run ops d) g from this _ DStore.homed_init
  induction ops with
  | nil => intro d h; exact h
  | cons o r ih =>
    intro d h
    simp only [DStore.run, List.foldl_cons]
    exact ih (fun o' ho' => hops o' (by simp [ho'])) _ (DStore.homed_step o d (hops o (by simp)) h)

/-- `dclone_eq` for every reachable state -/
theorem dclone_eq_reachable (ops : List Op) (hops : ∀ o ∈ ops, o.keepsGraphId = true) (g g2 : String)
    (hempty : (DStore.sub (DStore.run ops DStore.init) g2).nodes = [])
    (hok : (DStore.extractGraph (DStore.run ops DStore.init) g).nodes.any
      (fun a => !truthy (AMap.get Gen.StoreConsts.nodeId a)) = false) :
    DStore.abs (DStore.cloneGraph g g2 (DStore.run ops DStore.init)).2 g2 = DStore.abs (DStore.run ops DStore.init) g :=
  dclone_eq _ (dhomed_reachable ops hops).1 g g2 ((dhomed_reachable ops hops).2 g) hempty hok

/-- clone independence on the disjoint store is `dframe` both ways: an operation addressed to any
    other id than `g'` leaves the graph under `g'` untouched -/
theorem dclone_independent (d : DStore.DStore) (g g2 : String) (hne : g ≠ g2) (op : Op) (hall : op.isDelAll = false) :
    (g2 ≠ op.target → DStore.abs (DStore.step op (DStore.cloneGraph g g2 d).2).2 g2 = DStore.abs (DStore.cloneGraph g g2 d).2 g2) ∧
    (g ≠ op.target → DStore.abs (DStore.step op (DStore.cloneGraph g g2 d).2).2 g = DStore.abs d g) := by
  constructor
  · intro h; simp only [DStore.abs, dframe op _ g2 h hall]
  · intro h
    simp only [DStore.abs, dframe op _ g h hall]
    have := dframe (.clone g g2) d g hne rfl
    simp only [DStore.step] at this
    rw [this]

/-! ## the importer entry points above the store -/

/-- what `gen/importids.py` observes of the importer entry points of both in-memory importers — a document handed over with
    a graph id is filed under that id; a direct import under the id the DOCUMENT names, also when the same path is loaded,
    overwritten with a document of another graph and loaded again; a call without a graph id under an id of its own — is
    what the lowering of entry-point calls to store operations (`ImportEntry.target`) assumes -/
theorem import_targets_are_modelled :
    Gen.ImportIds.namedTarget = ImportEntry.modelNamed ∧ Gen.ImportIds.documentTarget = ImportEntry.modelDocument ∧
    Gen.ImportIds.idlessFresh = ImportEntry.modelIdless := by decide

/-- **frame for imports through the entry points.**  A document handed to an entry point — with a graph id, without one
    (library-generated id `fresh`) or through a direct entry point (the id `docId` the document names), any document, any
    reachable-or-not store satisfying the invariant — changes no graph but the one `ImportEntry.target` names: what a path or an
    earlier call held plays no part. -/
theorem import_entry_frame (a : ImportEntry.Addressing) (docId fresh : String) (ig : IGraph) (s : Store) (g' : String)
    (h : Store.Inv s) (hne : g' ≠ ImportEntry.target a docId fresh) :
    nodesOf (Store.step (.addGraph (ImportEntry.target a docId fresh) ig) s).2 g' = nodesOf s g' ∧
    edgesOf (Store.step (.addGraph (ImportEntry.target a docId fresh) ig) s).2 g' = edgesOf s g' :=
  frame_general _ s g' h (by simpa [Op.affects, Op.gidWrites, Op.target] using hne)

/-- … and the direct entry points, whose documents carry the graph id on every node (`keepsGraphId`: all nodes name `docId`,
    which is what `get_graph_id` insists on): the target is the document's id, every other graph is untouched -/
theorem direct_import_entry_frame (docId fresh : String) (ig : IGraph) (s : Store) (g' : String) (h : Store.Inv s)
    (hdoc : (Op.addGraphDirect (ImportEntry.target .document docId fresh) ig).keepsGraphId = true)
    (hne : g' ≠ ImportEntry.target .document docId fresh) :
    nodesOf (Store.step (.addGraphDirect (ImportEntry.target .document docId fresh) ig) s).2 g' = nodesOf s g' ∧
    edgesOf (Store.step (.addGraphDirect (ImportEntry.target .document docId fresh) ig) s).2 g' = edgesOf s g' :=
  frame_general _ s g' h (affects_of_keepsGraphId _ g' hdoc hne)

-- non-vacuity: a document of two nodes naming graph "b", loaded while graph "a" is in the store
example : (Op.addGraphDirect (ImportEntry.target .document "b" "u") ⟨[[("NodeID", .str "n1"), ("GraphID", .str "b")],
    [("NodeID", .str "n2"), ("GraphID", .str "b")]], []⟩).keepsGraphId = true ∧ "a" ≠ ImportEntry.target .document "b" "u" := by decide

/-! ## id-less imports of documents that name a graph; graph ids that look alike -/

/-- **an import that names no graph id creates a new graph, whatever the document says.**  The id-less imports of a history
    are filed under the ids `generated` the library mints (`ImportEntry.Fresh generated inUse`: pairwise distinct, none in
    use).  The i-th of them — any document, in particular one whose nodes all carry the id `docId` of a graph IN USE (a saved
    model loaded again as a working copy) — leaves every graph in use as it was: `docId` plays no part in the target. -/
theorem idless_import_creates_new_graph {generated inUse : List String} (hf : ImportEntry.Fresh generated inUse) {i : Nat}
    (hi : i < generated.length) (docId : String) (ig : IGraph) (s : Store) (h : Store.Inv s) (g' : String) (hg : g' ∈ inUse) :
    nodesOf (Store.step (.addGraph (ImportEntry.target .idless docId generated[i]) ig) s).2 g' = nodesOf s g' ∧
    edgesOf (Store.step (.addGraph (ImportEntry.target .idless docId generated[i]) ig) s).2 g' = edgesOf s g' :=
  import_entry_frame .idless docId generated[i] ig s g' h
    (fun e => hf.2 _ (List.getElem_mem hi) (by simp only [ImportEntry.target] at e; exact e ▸ hg))

/-- … and two id-less imports never meet: the j-th leaves the graph the i-th created alone (the same file loaded twice
    gives two independent working copies) -/
theorem idless_imports_do_not_meet {generated inUse : List String} (hf : ImportEntry.Fresh generated inUse) {i j : Nat}
    (hi : i < generated.length) (hj : j < generated.length) (hij : i ≠ j) (di dj : String) (ig : IGraph) (s : Store)
    (h : Store.Inv s) :
    nodesOf (Store.step (.addGraph (ImportEntry.target .idless dj generated[j]) ig) s).2
        (ImportEntry.target .idless di generated[i]) = nodesOf s (ImportEntry.target .idless di generated[i]) ∧
    edgesOf (Store.step (.addGraph (ImportEntry.target .idless dj generated[j]) ig) s).2
        (ImportEntry.target .idless di generated[i]) = edgesOf s (ImportEntry.target .idless di generated[i]) :=
  import_entry_frame .idless dj generated[j] ig s _ h (ImportEntry.idless_targets_distinct hf hi hj hij di dj)

/-- the same on the disjoint store: the graph stored under an id in use — nodes, edges, id counter — is untouched -/
theorem didless_import_creates_new_graph {generated inUse : List String} (hf : ImportEntry.Fresh generated inUse) {i : Nat}
    (hi : i < generated.length) (docId : String) (ig : IGraph) (d : DStore.DStore) (g' : String) (hg : g' ∈ inUse) :
    DStore.sub (DStore.step (.addGraph (ImportEntry.target .idless docId generated[i]) ig) d).2 g' = DStore.sub d g' :=
  dframe _ d g' (fun e => hf.2 _ (List.getElem_mem hi) (by simp only [ImportEntry.target, Op.target] at e; exact e ▸ hg)) rfl

-- non-vacuity: two minted ids, the saved model's id "model" in use
example : ImportEntry.Fresh ["u1", "u2"] ["model", "other"] ∧ "model" ∈ ["model", "other"] := by decide

theorem ne_append_suffix (g sfx : String) (hs : sfx ≠ "") : g ≠ g ++ sfx := by
  intro e
  have h1 : (g ++ sfx).length = g.length + sfx.length := String.length_append g sfx
  rw [← e] at h1
  have : sfx.length = 0 := by omega
  exact hs (String.length_eq_zero_iff.mp this)

theorem ne_prefix_append (g pfx : String) (hs : pfx ≠ "") : g ≠ pfx ++ g := by
  intro e
  have h1 : (pfx ++ g).length = pfx.length + g.length := String.length_append pfx g
  rw [← e] at h1
  have : pfx.length = 0 := by omega
  exact hs (String.length_eq_zero_iff.mp this)

/-- **graph ids that look alike are different graphs.**  A graph id and the id with something appended or prepended
    (`exp` / `exp-v2`, `g1` / `g10`, `v2` / `exp-v2`) name unrelated graphs: whatever is addressed to one of them and writes no
    other GraphID — an import, the REPLACING re-import (delete, then add), a direct re-import of a document naming it, clone onto
    it, delete_graph, every node / link operation — leaves the other untouched, in both directions, on both stores. -/
theorem lookalike_ids_are_other_graphs (op : Op) (s : Store) (h : Store.Inv s) (hk : op.keepsGraphId = true) (x : String)
    (hx : x ≠ "") :
    (∀ g, op.target = g ++ x ∨ op.target = x ++ g → nodesOf (Store.step op s).2 g = nodesOf s g ∧ edgesOf (Store.step op s).2 g = edgesOf s g) ∧
    (∀ g, op.target = g → nodesOf (Store.step op s).2 (g ++ x) = nodesOf s (g ++ x) ∧ edgesOf (Store.step op s).2 (g ++ x) = edgesOf s (g ++ x) ∧
      nodesOf (Store.step op s).2 (x ++ g) = nodesOf s (x ++ g) ∧ edgesOf (Store.step op s).2 (x ++ g) = edgesOf s (x ++ g)) := by
  refine ⟨fun g ht => ?_, fun g ht => ?_⟩
  · refine frame_general op s g h (affects_of_keepsGraphId op g hk ?_)
    rcases ht with ht | ht <;> rw [ht]
    · exact ne_append_suffix g x hx
    · exact ne_prefix_append g x hx
  · have a := frame_general op s (g ++ x) h (affects_of_keepsGraphId op _ hk (by rw [ht]; exact (ne_append_suffix g x hx).symm))
    have b := frame_general op s (x ++ g) h (affects_of_keepsGraphId op _ hk (by rw [ht]; exact (ne_prefix_append g x hx).symm))
    exact ⟨a.1, a.2, b.1, b.2⟩

/-- … on the disjoint store, for every operation but delete_all_graphs -/
theorem dlookalike_ids_are_other_graphs (op : Op) (d : DStore.DStore) (hall : op.isDelAll = false) (g x : String) (hx : x ≠ "") :
    (op.target = g ++ x ∨ op.target = x ++ g → DStore.sub (DStore.step op d).2 g = DStore.sub d g) ∧
    (op.target = g → DStore.sub (DStore.step op d).2 (g ++ x) = DStore.sub d (g ++ x) ∧
      DStore.sub (DStore.step op d).2 (x ++ g) = DStore.sub d (x ++ g)) := by
  refine ⟨fun ht => dframe op d g ?_ hall, fun ht => ⟨dframe op d _ ?_ hall, dframe op d _ ?_ hall⟩⟩
  · rcases ht with ht | ht <;> rw [ht]
    · exact ne_append_suffix g x hx
    · exact ne_prefix_append g x hx
  · rw [ht]; exact (ne_append_suffix g x hx).symm
  · rw [ht]; exact (ne_prefix_append g x hx).symm

-- non-vacuity: the replacing re-import of "exp-v2" while "exp" is in the store
example : (Op.addGraph ("exp" ++ "-v2") ⟨[[("NodeID", .str "a")]], []⟩).keepsGraphId = true ∧ "-v2" ≠ "" ∧
    (Op.addGraph ("exp" ++ "-v2") ⟨[[("NodeID", .str "a")]], []⟩).target = "exp" ++ "-v2" := by decide

end FimVerif.C04
