import FimVerif.Proofs.Lemmas.C17Script
import FimVerif.Proofs.Lemmas.C17Cfg
import FimVerif.Proofs.Lemmas.C17Sym
import FimVerif.Proofs.Lemmas.C17SymEdit
import FimVerif.Proofs.Lemmas.C17Val
import FimVerif.Generated.DiffCfg
/-!
# C17 — sliver comparison reports exactly the differences between two slivers

Theorems about `Model/Diff.lean` (`InterfaceSliver.diff`, `NetworkServiceSliver.diff`,
`NodeSliver.diff` of /repo after the three `fix:` commits).  All statements quantify over every
sliver tree and every value type `V` for labels / capacities / user data.

`X.Wf` says that the `*Info` dictionaries have unique keys (which a Python dict guarantees);
`PairOk a b` says that the SmartNIC descent of `NodeSliver.diff` finds a first network service on both
sides (otherwise the method raises: `node_diff_raises_iff`); `n.Ok` says every SmartNIC of `n` has a network service,
which is enough for `n` against itself and against any edited copy.
`rep r` is what a result reports (`None` reports nothing).

Tie to the source: the driver does not run `ifaceDiff / svcDiff / nodeDiff` but the table-driven `ifaceDiffC / svcDiffC /
nodeDiffC` on `Generated/DiffCfg.lean`, which `gen/diffcfg.py` extracts from the source on every run (section 0).  Section 0
proves that the extracted table is `Good` and that for every good table the table-driven methods *are* the functions the
theorems below are about; a source change that drops a compared property, a descent, a term of the final test or moves a
collection to another field changes the table, the model the driver runs, and makes `table_good` fail.
-/
namespace FimVerif.C17
open FimVerif.Diff
variable {V : Type} [DecidableEq V]

instance {ε α : Type} [DecidableEq ε] [DecidableEq α] : DecidableEq (Except ε α) := fun a b =>
  match a, b with
  | .ok x, .ok y => if h : x = y then isTrue (by rw [h]) else isFalse (fun e => h (by cases e; rfl))
  | .error x, .error y => if h : x = y then isTrue (by rw [h]) else isFalse (fun e => h (by cases e; rfl))
  | .ok _, .error _ => isFalse (fun e => by cases e)
  | .error _, .ok _ => isFalse (fun e => by cases e)

/-! ## 0. the extracted table -/

/-- the table extracted from the source in this run describes the comparison the theorems are about -/
theorem table_good : FimVerif.Gen.DiffCfg.cfg.Good := by decide

/-- the integer value of a `WhatsModifiedFlag` built by the methods tells exactly which of labels / capacities / user data /
sub-interfaces were flagged (the member values extracted from `topology_diff.py` are independent bits) -/
theorem flag_values_decodable (f g : Flags)
    (h : encodeC FimVerif.Gen.DiffCfg.cfg.flagVal f = encodeC FimVerif.Gen.DiffCfg.cfg.flagVal g) : f = g :=
  encodeC_injective (by decide) f g h

/-- for every good table the table-driven methods are the hand-mirrored ones -/
theorem table_model_eq (cfg : Cfg) (h : cfg.Good) :
    (∀ a b : Props V, propDiffC cfg.props a b = propDiff a b) ∧ (∀ a b : Iface V, ifaceDiffC cfg a b = ifaceDiff a b) ∧
    (∀ a b : Svc V, svcDiffC cfg a b = svcDiff a b) ∧ (∀ a b : Node V, nodeDiffC cfg a b = nodeDiff a b) :=
  ⟨propDiffC_eq _ h.1, ifaceDiffC_eq h, svcDiffC_eq h, nodeDiffC_eq h⟩

/-- what the driver runs, on the table of this run -/
theorem generated_model_eq :
    (∀ a b : Iface V, ifaceDiffC FimVerif.Gen.DiffCfg.cfg a b = ifaceDiff a b) ∧
    (∀ a b : Svc V, svcDiffC FimVerif.Gen.DiffCfg.cfg a b = svcDiff a b) ∧
    (∀ a b : Node V, nodeDiffC FimVerif.Gen.DiffCfg.cfg a b = nodeDiff a b) :=
  ⟨ifaceDiffC_eq table_good, svcDiffC_eq table_good, nodeDiffC_eq table_good⟩

private abbrev gcfg : Cfg := FimVerif.Gen.DiffCfg.cfg

-- dropping a compared property, a descent or a term of the final test is not a good table
example : ¬ Cfg.Good { gcfg with props := [(.labels, .labels), (.caps, .caps)] } := by decide
example : ¬ Cfg.Good { gcfg with node := { gcfg.node with cond := gcfg.node.cond.filter (fun p => p ≠ .added .svcs) } } := by decide
example : ¬ Cfg.Good { gcfg with svc := { gcfg.svc with levels := gcfg.svc.levels.map (fun l => { l with descend := none }) } } := by
  decide
-- the order in which `prop_diff` compares and the order of the terms of the final test do not matter
example : Cfg.Good { gcfg with props := gcfg.props.reverse, node := { gcfg.node with cond := gcfg.node.cond.reverse } } := by decide
-- member values that overlap (LABELS = 1, CAPACITIES = 2, USER_DATA = 3) cannot be decoded
example : ¬ EncInj [(.labels, 1), (.caps, 2), (.ud, 3), (.sub, 4)] := by decide

/-! ## 1. a sliver compared with an identical copy of itself reports no difference -/

theorem iface_diff_self_none (i : Iface V) (h : i.Wf) : ifaceDiff i i = none := ifaceDiff_self i h

theorem svc_diff_self_none (s : Svc V) (h : s.Wf) : svcDiff s s = none := svcDiff_self s h

theorem node_diff_self_none (n : Node V) (h : n.Wf) (hok : n.Ok) : nodeDiff n n = .ok none := by
  rw [nodeDiff_ok n n (pairOk_self n h hok), nodeDiffP_eq_none_iff n n |>.2]
  refine ⟨(selfMod_eq_nil_iff _ _ _).2 rfl, ?_, ?_⟩
  · exact level_self compFlagP _ h.1 (fun x hx => compFlagP_self x (h.2.2 x hx))
  · exact level_self svcPropFlag _ h.2.1 (fun x _ => svcPropFlag_self x)

/-- `NodeSliver.diff` raises exactly when a SmartNIC present on both sides lacks a first network service -/
theorem node_diff_raises_iff (a b : Node V) : (∃ e, nodeDiff a b = .error e) ↔ ¬ PairOk a b := by
  rw [← nodeDiff_ok_iff]
  cases nodeDiff a b <;> simp

-- non-vacuity of the hypotheses
private def exLeaf : Leaf Nat := { name := "p1.1", props := { labels := some 100 } }
private def exIface : Iface Nat := { name := "p1", props := { ud := some 7 }, dedicated := true, subs := some [exLeaf] }
private def exSvc : Svc Nat := { name := "nic1-ns", props := {}, ifs := some [exIface, { exIface with name := "p2", subs := none }] }
private def exNode : Node Nat :=
  { name := "n1", props := { caps := some 3 },
    comps := some [{ name := "nic1", props := {}, smart := true, svcs := some [exSvc] },
                   { name := "gpu1", props := {}, smart := false, svcs := none }],
    svcs := some [{ exSvc with name := "ns1" }] }
example : exIface.Wf := by decide
example : exSvc.Wf := by decide
example : exNode.Wf ∧ exNode.Ok ∧ PairOk exNode exNode := by decide
example : ¬ PairOk { exNode with comps := some [{ name := "nic1", props := {}, smart := true, svcs := none }] } exNode := by decide

/-- the same of what the driver runs (the table-driven method on the table extracted in this run) -/
theorem generated_node_diff_self_none (n : Node V) (h : n.Wf) (hok : n.Ok) :
    nodeDiffC FimVerif.Gen.DiffCfg.cfg n n = .ok none := by
  rw [generated_model_eq.2.2]; exact node_diff_self_none n h hok

/-! ## 2. what is added old→new is what is removed new→old -/

theorem iface_added_removed_dual (a b : Iface V) :
    (rep (ifaceDiff a b)).addedIfs = (rep (ifaceDiff b a)).removedIfs ∧
    (rep (ifaceDiff a b)).removedIfs = (rep (ifaceDiff b a)).addedIfs := by
  simp only [rep_ifaceDiff]
  exact ⟨level_dual _ _ _ _, (level_dual _ _ _ _).symm⟩

theorem svc_added_removed_dual (a b : Svc V) :
    (rep (svcDiff a b)).addedIfs = (rep (svcDiff b a)).removedIfs ∧
    (rep (svcDiff a b)).removedIfs = (rep (svcDiff b a)).addedIfs := by
  simp only [rep_svcDiff]
  exact ⟨level_dual _ _ _ _, (level_dual _ _ _ _).symm⟩

theorem node_added_removed_dual (a b : Node V) (x y : Option TDiff)
    (hx : nodeDiff a b = .ok x) (hy : nodeDiff b a = .ok y) :
    (rep x).addedComps = (rep y).removedComps ∧ (rep x).removedComps = (rep y).addedComps ∧
    (rep x).addedSvcs = (rep y).removedSvcs ∧ (rep x).removedSvcs = (rep y).addedSvcs := by
  have h1 := nodeDiff_ok a b ((nodeDiff_ok_iff a b).1 ⟨x, hx⟩)
  have h2 := nodeDiff_ok b a ((nodeDiff_ok_iff b a).1 ⟨y, hy⟩)
  rw [hx] at h1; rw [hy] at h2
  cases h1; cases h2
  simp only [rep_nodeDiffP]
  exact ⟨level_dual _ _ _ _, (level_dual _ _ _ _).symm, level_dual _ _ _ _, (level_dual _ _ _ _).symm⟩

/-! ## 3. exactness for *all* pairs of slivers: the report is the set difference of the children and, for the
survivors, the comparison of the tracked properties -/

/-- `prop_diff`: a flag is set iff that property differs; `prop_diff` itself never sets SUB_INTERFACES -/
theorem prop_diff_spec (a b : Props V) :
    ((propDiff a b).labels = true ↔ a.labels ≠ b.labels) ∧ ((propDiff a b).caps = true ↔ a.caps ≠ b.caps) ∧
    ((propDiff a b).ud = true ↔ a.ud ≠ b.ud) ∧ (propDiff a b).sub = false := by
  simp [propDiff]

/-- `InterfaceSliver.diff a b`: added / removed sub-interfaces are the key-set differences, a common sub-interface is
listed (once) iff its `prop_diff` is not NONE, with exactly that flag; the interface itself is listed (under
`modified.services`, as the code does) iff its own `prop_diff` is not NONE; nothing else is reported -/
theorem iface_diff_spec (a b : Iface V) (ha : a.Wf) :
    (∀ k, k ∈ (rep (ifaceDiff a b)).addedIfs ↔ hasKey (dictOf b.subs) k = true ∧ hasKey (dictOf a.subs) k = false) ∧
    (∀ k, k ∈ (rep (ifaceDiff a b)).removedIfs ↔ hasKey (dictOf a.subs) k = true ∧ hasKey (dictOf b.subs) k = false) ∧
    (∀ k f, (k, f) ∈ (rep (ifaceDiff a b)).modIfs ↔
      ∃ x y, get? (dictOf a.subs) k = some x ∧ get? (dictOf b.subs) k = some y ∧ propDiff x.props y.props = f ∧ f ≠ Flags.none) ∧
    (∀ k f, (k, f) ∈ (rep (ifaceDiff a b)).modSvcs ↔ k = a.name ∧ f = propDiff a.props b.props ∧ f ≠ Flags.none) ∧
    ((rep (ifaceDiff a b)).modIfs.map Prod.fst).Nodup ∧
    (rep (ifaceDiff a b)).addedComps = [] ∧ (rep (ifaceDiff a b)).addedSvcs = [] ∧ (rep (ifaceDiff a b)).removedComps = [] ∧
    (rep (ifaceDiff a b)).removedSvcs = [] ∧ (rep (ifaceDiff a b)).modNodes = [] ∧ (rep (ifaceDiff a b)).modComps = [] := by
  rw [rep_ifaceDiff]
  exact ⟨mem_level_added _ _ _, mem_level_removed _ _ _, mem_level_modified _ _ _ ha, mem_selfMod _ _ _,
    level_modified_nodup _ _ _ ha, rfl, rfl, rfl, rfl, rfl, rfl⟩

/-- the flag `NetworkServiceSliver.diff` computes for a common interface: LABELS / CAPACITIES / USER_DATA iff that
property differs, SUB_INTERFACES iff the interface is a DedicatedPort and its sub-interface dictionaries differ
(keys, or tracked properties of a common sub-interface) -/
theorem iface_flag_spec (x y : Iface V) (hx : x.Wf) :
    ((ifaceFlag x y).labels = true ↔ x.props.labels ≠ y.props.labels) ∧
    ((ifaceFlag x y).caps = true ↔ x.props.caps ≠ y.props.caps) ∧
    ((ifaceFlag x y).ud = true ↔ x.props.ud ≠ y.props.ud) ∧
    ((ifaceFlag x y).sub = true ↔ x.dedicated = true ∧ ¬ SameDict Leaf.Same x.subs y.subs) := by
  rw [ifaceFlag_eq, ← subs_level_empty_iff x y hx, ← subsChanged_eq_false_iff]
  simp [propDiff]

theorem svc_diff_spec (a b : Svc V) (ha : a.Wf) :
    (∀ k, k ∈ (rep (svcDiff a b)).addedIfs ↔ hasKey (dictOf b.ifs) k = true ∧ hasKey (dictOf a.ifs) k = false) ∧
    (∀ k, k ∈ (rep (svcDiff a b)).removedIfs ↔ hasKey (dictOf a.ifs) k = true ∧ hasKey (dictOf b.ifs) k = false) ∧
    (∀ k f, (k, f) ∈ (rep (svcDiff a b)).modIfs ↔
      ∃ x y, get? (dictOf a.ifs) k = some x ∧ get? (dictOf b.ifs) k = some y ∧ ifaceFlag x y = f ∧ f ≠ Flags.none) ∧
    (∀ k f, (k, f) ∈ (rep (svcDiff a b)).modSvcs ↔ k = a.name ∧ f = propDiff a.props b.props ∧ f ≠ Flags.none) ∧
    ((rep (svcDiff a b)).modIfs.map Prod.fst).Nodup ∧
    (rep (svcDiff a b)).addedComps = [] ∧ (rep (svcDiff a b)).addedSvcs = [] ∧ (rep (svcDiff a b)).removedComps = [] ∧
    (rep (svcDiff a b)).removedSvcs = [] ∧ (rep (svcDiff a b)).modNodes = [] ∧ (rep (svcDiff a b)).modComps = [] := by
  rw [rep_svcDiff]
  exact ⟨mem_level_added _ _ _, mem_level_removed _ _ _, mem_level_modified _ _ _ ha.1, mem_selfMod _ _ _,
    level_modified_nodup _ _ _ ha.1, rfl, rfl, rfl, rfl, rfl, rfl⟩

/-- the flag `NodeSliver.diff` computes for a common component: the three property flags, and SUB_INTERFACES iff it is a
SmartNIC whose first network service differs in any way `NetworkServiceSliver.diff` can see -/
theorem comp_flag_spec (x y : Comp V) (hx : x.Wf) (hok : CompOk x y) :
    compFlag x y = .ok (compFlagP x y) ∧
    ((compFlagP x y).labels = true ↔ x.props.labels ≠ y.props.labels) ∧
    ((compFlagP x y).caps = true ↔ x.props.caps ≠ y.props.caps) ∧
    ((compFlagP x y).ud = true ↔ x.props.ud ≠ y.props.ud) ∧
    ((compFlagP x y).sub = true ↔ x.smart = true ∧
      ∃ sx sy, (dictOf x.svcs).head? = some sx ∧ (dictOf y.svcs).head? = some sy ∧ ¬ Svc.Same sx sy) := by
  refine ⟨compFlag_ok x y hok, ?_⟩
  dsimp only [compFlagP]
  refine ⟨by simp [propDiff], by simp [propDiff], by simp [propDiff], ?_⟩
  cases hs : x.smart
  · simp
  · obtain ⟨h1, h2⟩ := hok hs
    cases hhx : (dictOf x.svcs).head? with
    | none => exact absurd (List.head?_eq_none_iff.1 hhx) h1
    | some sx =>
      cases hhy : (dictOf y.svcs).head? with
      | none => exact absurd (List.head?_eq_none_iff.1 hhy) h2
      | some sy =>
        have := svcDiff_none_iff_same sx sy (hx sx (by rw [hhx]; rfl))
        simp only [Bool.true_and, true_and, Option.some.injEq, exists_and_left, exists_eq_left', ← this]
        cases svcDiff sx sy <;> simp

theorem node_diff_spec (a b : Node V) (ha : a.Wf) (hok : PairOk a b) :
    ∃ r, nodeDiff a b = .ok r ∧
    (∀ k, k ∈ (rep r).addedComps ↔ hasKey (dictOf b.comps) k = true ∧ hasKey (dictOf a.comps) k = false) ∧
    (∀ k, k ∈ (rep r).removedComps ↔ hasKey (dictOf a.comps) k = true ∧ hasKey (dictOf b.comps) k = false) ∧
    (∀ k, k ∈ (rep r).addedSvcs ↔ hasKey (dictOf b.svcs) k = true ∧ hasKey (dictOf a.svcs) k = false) ∧
    (∀ k, k ∈ (rep r).removedSvcs ↔ hasKey (dictOf a.svcs) k = true ∧ hasKey (dictOf b.svcs) k = false) ∧
    (∀ k f, (k, f) ∈ (rep r).modComps ↔
      ∃ x y, get? (dictOf a.comps) k = some x ∧ get? (dictOf b.comps) k = some y ∧ compFlagP x y = f ∧ f ≠ Flags.none) ∧
    (∀ k f, (k, f) ∈ (rep r).modSvcs ↔
      ∃ x y, get? (dictOf a.svcs) k = some x ∧ get? (dictOf b.svcs) k = some y ∧ propDiff x.props y.props = f ∧ f ≠ Flags.none) ∧
    (∀ k f, (k, f) ∈ (rep r).modNodes ↔ k = a.name ∧ f = propDiff a.props b.props ∧ f ≠ Flags.none) ∧
    ((rep r).modComps.map Prod.fst).Nodup ∧ ((rep r).modSvcs.map Prod.fst).Nodup ∧
    (rep r).addedIfs = [] ∧ (rep r).removedIfs = [] ∧ (rep r).modIfs = [] := by
  refine ⟨_, nodeDiff_ok a b hok, ?_⟩
  rw [rep_nodeDiffP]
  exact ⟨mem_level_added _ _ _, mem_level_removed _ _ _, mem_level_added _ _ _, mem_level_removed _ _ _,
    mem_level_modified _ _ _ ha.1, mem_level_modified _ _ _ ha.2.1, mem_selfMod _ _ _,
    level_modified_nodup _ _ _ ha.1, level_modified_nodup _ _ _ ha.2.1, rfl, rfl, rfl⟩

/-! ## 4. a diff is `None` exactly when nothing the method looks at differs -/

theorem iface_diff_none_iff (a b : Iface V) (ha : a.Wf) : ifaceDiff a b = none ↔ Iface.Same a b :=
  ifaceDiff_none_iff_same a b ha

theorem svc_diff_none_iff (a b : Svc V) (ha : a.Wf) : svcDiff a b = none ↔ Svc.Same a b :=
  svcDiff_none_iff_same a b ha

theorem node_diff_none_iff (a b : Node V) (ha : a.Wf) (hok : PairOk a b) : nodeDiff a b = .ok none ↔ Node.Same a b := by
  rw [nodeDiff_ok a b hok, ← nodeDiffP_none_iff_same a b ha hok]
  simp

/-! ## 5. exactness against edit scripts: `diff s (apply es s)` reports exactly what the script `es` did

Scripts are hierarchical (`NodeScript ⊃ CompScript ⊃ SvcScript ⊃ IfaceScript ⊃ PScript`, see
`Lemmas/C17Script.lean`): at every dictionary a list of `add x` / `remove k` / `modify k childScript`, at every sliver at
most one `set_labels` / `set_capacities` / `set_user_data`.  `sc.NC s` (decidable) says the script is non-conflicting:
no key touched twice, added names new, removed / modified names present, recursively.  `expX sc s` is computed from
the script alone (plus the old values, to tell whether a `set_…` really changes something): added = the names of the
`add`ed children, removed = the `remove`d keys, modified = the children with a child script whose predicted flag is
not NONE.  `SameReport` is equality of results up to the order inside each slot. -/

/-- a tracked property is flagged iff the script sets it to a different value -/
theorem props_edit_exact (sc : PScript V) (p : Props V) : propDiff p (applyP sc p) = expP sc p := propDiff_applyP sc p

/-- one dictionary level, for any child type, any child-script type and any flag function that is NONE on identical
children: the level reports exactly the script -/
theorem dict_edit_exact {α ε : Type} [Named α] (flag : α → α → Flags) (app : ε → α → α)
    (happ : ∀ e y, name (app e y) = name y) (a : Option (List α)) (es : List (DEdit α ε))
    (ha : WfDict (dictOf a)) (hnc : NC es (dictOf a)) (hself : ∀ x ∈ dictOf a, flag x x = Flags.none) :
    Level.Equiv (levelDiff flag a (applyO app es a)) (expLevel (fun e x => flag x (app e x)) (dictOf a) es) :=
  level_edit_exact flag app happ a es ha hnc hself

theorem iface_diff_exact (sc : IfaceScript V) (i : Iface V) (hi : i.Wf) (hnc : sc.NC i) :
    SameReport (ifaceDiff i (applyIface sc i)) (expIface sc i) := ifaceDiff_edit sc i hi hnc

theorem svc_diff_exact (sc : SvcScript V) (s : Svc V) (hs : s.Wf) (hnc : sc.NC s) :
    SameReport (svcDiff s (applySvc sc s)) (expSvc sc s) := svcDiff_edit sc s hs hnc

theorem node_diff_exact (sc : NodeScript V) (n : Node V) (hn : n.Wf) (hnc : sc.NC n) (hok : n.Ok) :
    ∃ r, nodeDiff n (applyNode sc n) = .ok r ∧ SameReport r (expNode sc n) :=
  ⟨_, nodeDiff_ok n (applyNode sc n) (pairOk_applyNode sc n hn hnc hok), nodeDiffP_edit sc n hn hnc⟩

/-- the same of what the driver runs -/
theorem generated_node_diff_exact (sc : NodeScript V) (n : Node V) (hn : n.Wf) (hnc : sc.NC n) (hok : n.Ok) :
    ∃ r, nodeDiffC FimVerif.Gen.DiffCfg.cfg n (applyNode sc n) = .ok r ∧ SameReport r (expNode sc n) := by
  rw [generated_model_eq.2.2]; exact node_diff_exact sc n hn hnc hok

-- non-vacuity: a combined script on the example node (set node capacities; add a component; change a sub-interface's
-- labels and add a sub-interface below the SmartNIC; remove one node-level service and add another)
private def exScript : NodeScript Nat :=
  { pe := { caps := some (some 4) },
    comps := [.add { name := "gpu2", props := {}, smart := false, svcs := none },
              .modify "nic1" { svc := some { ifs := [.modify "p1" { subs := [.modify "p1.1" { labels := some (some 200) },
                                                                             .add { name := "p1.2", props := {} }] }] } }],
    svcs := [.remove "ns1", .add { name := "ns2", props := {}, ifs := none }] }
example : exScript.NC exNode ∧ exNode.Ok := by decide
example : expNode exScript exNode =
    some { addedComps := ["gpu2"], addedSvcs := ["ns2"], removedSvcs := ["ns1"],
           modNodes := [("n1", { caps := true })], modComps := [("nic1", { sub := true })] } := by decide
example : (nodeDiff exNode (applyNode exScript exNode)).toOption =
    some (some { addedComps := ["gpu2"], addedSvcs := ["ns2"], removedSvcs := ["ns1"],
                 modNodes := [("n1", { caps := true })], modComps := [("nic1", { sub := true })] }) := by decide
-- the blind spot recorded as a known finding: a script below a node-level service is predicted (and reported) as nothing
example : expNode { svcs := [.modify "ns1" { ifs := [.remove "p2"] }] } exNode = none := by decide

/-! ## 6. the "modified" part is the same in both directions

`added` old→new is `removed` new→old (section 2); what is listed as modified, and with which flag, does not depend on the
direction - provided both sides agree on which interfaces are dedicated ports and which components are SmartNICs (the
methods test the type of the *old* side only; `*_counterexample` shows the hypothesis is needed). -/

theorem prop_diff_symm (a b : Props V) : propDiff a b = propDiff b a := propDiff_comm a b

theorem iface_modified_symm (a b : Iface V) (ha : a.Wf) (hb : b.Wf) :
    (∀ k f, (k, f) ∈ (rep (ifaceDiff a b)).modIfs ↔ (k, f) ∈ (rep (ifaceDiff b a)).modIfs) ∧
    (rep (ifaceDiff a b)).modSvcs.map Prod.snd = (rep (ifaceDiff b a)).modSvcs.map Prod.snd := by
  simp only [rep_ifaceDiff]
  refine ⟨fun k f => mem_level_modified_comm leafFlag _ _ ha hb (fun _ x y _ _ => leafFlag_comm x y) k f, ?_⟩
  unfold selfMod
  rw [propDiff_comm b.props a.props]
  split <;> rfl

theorem svc_modified_symm (a b : Svc V) (ha : a.Wf) (hb : b.Wf) (hk : Svc.KindsAgree a b) :
    (∀ k f, (k, f) ∈ (rep (svcDiff a b)).modIfs ↔ (k, f) ∈ (rep (svcDiff b a)).modIfs) ∧
    (rep (svcDiff a b)).modSvcs.map Prod.snd = (rep (svcDiff b a)).modSvcs.map Prod.snd := by
  simp only [rep_svcDiff]
  refine ⟨fun k f => mem_level_modified_comm ifaceFlag _ _ ha.1 hb.1 (ifaceFlag_comm_of ha hb hk) k f, ?_⟩
  unfold selfMod
  rw [propDiff_comm b.props a.props]
  split <;> rfl

theorem node_modified_symm (a b : Node V) (ha : a.Wf) (hb : b.Wf) (hk : Node.KindsAgree a b) (x y : Option TDiff)
    (hx : nodeDiff a b = .ok x) (hy : nodeDiff b a = .ok y) :
    (∀ k f, (k, f) ∈ (rep x).modComps ↔ (k, f) ∈ (rep y).modComps) ∧
    (∀ k f, (k, f) ∈ (rep x).modSvcs ↔ (k, f) ∈ (rep y).modSvcs) ∧
    (rep x).modNodes.map Prod.snd = (rep y).modNodes.map Prod.snd := by
  have h1 := nodeDiff_ok a b ((nodeDiff_ok_iff a b).1 ⟨x, hx⟩)
  have h2 := nodeDiff_ok b a ((nodeDiff_ok_iff b a).1 ⟨y, hy⟩)
  rw [hx] at h1; rw [hy] at h2
  cases h1; cases h2
  simp only [rep_nodeDiffP]
  refine ⟨fun k f => mem_level_modified_comm compFlagP _ _ ha.1 hb.1 ?_ k f,
    fun k f => mem_level_modified_comm svcPropFlag _ _ ha.2.1 hb.2.1 (fun _ u v _ _ => propDiff_comm u.props v.props) k f, ?_⟩
  · intro k u v hu hv
    obtain ⟨hum, rfl⟩ := get?_some_mem hu
    have hkk := hk u hum v (by simpa [Named.name] using hv)
    exact compFlagP_comm u v (ha.2.2 u hum) (hb.2.2 v (get?_some_mem hv).1) hkk.1 hkk.2
  · unfold selfMod
    rw [propDiff_comm b.props a.props]
    split <;> rfl

/-- for the pairs the property quantifies over - a sliver and an edited copy of it - the kinds agree by themselves: whatever a
non-conflicting script does, old→new and new→old list the same elements as modified with the same flags -/
theorem svc_modified_symm_edit (sc : SvcScript V) (s : Svc V) (hs : s.Wf) (hb : (applySvc sc s).Wf) (hnc : sc.NC s) :
    (∀ k f, (k, f) ∈ (rep (svcDiff s (applySvc sc s))).modIfs ↔ (k, f) ∈ (rep (svcDiff (applySvc sc s) s)).modIfs) ∧
    (rep (svcDiff s (applySvc sc s))).modSvcs.map Prod.snd = (rep (svcDiff (applySvc sc s) s)).modSvcs.map Prod.snd :=
  svc_modified_symm s (applySvc sc s) hs hb (kindsAgree_applySvc sc s hs.1 hnc)

theorem node_modified_symm_edit (sc : NodeScript V) (n : Node V) (hn : n.Wf) (hb : (applyNode sc n).Wf) (hnc : sc.NC n)
    (x y : Option TDiff) (hx : nodeDiff n (applyNode sc n) = .ok x) (hy : nodeDiff (applyNode sc n) n = .ok y) :
    (∀ k f, (k, f) ∈ (rep x).modComps ↔ (k, f) ∈ (rep y).modComps) ∧
    (∀ k f, (k, f) ∈ (rep x).modSvcs ↔ (k, f) ∈ (rep y).modSvcs) ∧
    (rep x).modNodes.map Prod.snd = (rep y).modNodes.map Prod.snd :=
  node_modified_symm n (applyNode sc n) hn hb (kindsAgree_applyNode sc n hn hnc) x y hx hy

-- non-vacuity: the example node against an edited copy of itself
example : exNode.Wf ∧ (applyNode exScript exNode).Wf ∧ Node.KindsAgree exNode (applyNode exScript exNode) := by decide
example : exSvc.Wf ∧ Svc.KindsAgree exSvc { exSvc with ifs := some [{ exIface with subs := none }] } := by decide

/-- a port that is dedicated on the old side only: old→new lists it (SUB_INTERFACES), new→old does not -/
theorem svc_modified_symm_counterexample :
    ∃ a b : Svc Nat, a.Wf ∧ b.Wf ∧ ¬ Svc.KindsAgree a b ∧
      ("p1", ({ sub := true } : Flags)) ∈ (rep (svcDiff a b)).modIfs ∧ (rep (svcDiff b a)).modIfs = [] :=
  ⟨{ name := "ns", props := {}, ifs := some [exIface] },
   { name := "ns", props := {}, ifs := some [{ exIface with dedicated := false, subs := none }] }, by decide⟩

/-! ## 7. the two blind spots of `NodeSliver.diff`, and nothing else

Full statement (not true of the code): `nodeDiff a b = .ok none → Node.DeepSame a b`, i.e. a node diff that reports nothing
means the two nodes agree on everything a sliver comparison can report.  The code compares node-level services by
`prop_diff` only and descends only below SmartNICs (known findings `C17:NodeSliver.diff:unreported:*`). -/

private def bsSvcA : Svc Nat := { name := "ns1", props := {}, ifs := exSvc.ifs }
private def bsSvcB : Svc Nat := { name := "ns1", props := {}, ifs := some [exIface] }
private def bsCompA : Comp Nat := { name := "nic2", props := {}, smart := false, svcs := some [bsSvcA] }
private def bsCompB : Comp Nat := { name := "nic2", props := {}, smart := false, svcs := some [bsSvcB] }

/-- interfaces changed below a node-level service: `NetworkServiceSliver.diff` on the service reports it, the node diff is None -/
theorem node_diff_complete_service_subtree_counterexample :
    ∃ (a b : Node Nat) (u v : Svc Nat), a.Wf ∧ a.svcs = some [u] ∧ b.svcs = some [v] ∧
      nodeDiff a b = .ok none ∧ (svcDiff u v).isSome = true :=
  ⟨{ name := "n1", props := {}, comps := none, svcs := some [bsSvcA] },
   { name := "n1", props := {}, comps := none, svcs := some [bsSvcB] }, bsSvcA, bsSvcB, by decide⟩

/-- an interface changed below a component that is not a SmartNIC -/
theorem node_diff_complete_non_smartnic_counterexample :
    ∃ (a b : Node Nat) (x y : Comp Nat) (u v : Svc Nat), a.Wf ∧ a.comps = some [x] ∧ b.comps = some [y] ∧ x.smart = false ∧
      x.svcs = some [u] ∧ y.svcs = some [v] ∧ nodeDiff a b = .ok none ∧ (svcDiff u v).isSome = true :=
  ⟨{ name := "n1", props := {}, svcs := none, comps := some [bsCompA] },
   { name := "n1", props := {}, svcs := none, comps := some [bsCompB] }, bsCompA, bsCompB, bsSvcA, bsSvcB, by decide⟩

/-- exact characterisation: when the node diff reports nothing, the nodes agree on everything reportable except possibly
(i) below the first service of a common component that is not a SmartNIC, (ii) among the interfaces of a common node-level
service; and whenever they do agree on everything, the node diff reports nothing -/
theorem node_diff_complete_partial (a b : Node V) (ha : a.Wf) (hok : PairOk a b) :
    (Node.DeepSame a b → nodeDiff a b = .ok none) ∧
    (nodeDiff a b = .ok none →
      (Node.DeepSame a b ↔
        (∀ k x y, get? (dictOf a.comps) k = some x → get? (dictOf b.comps) k = some y → x.smart = false →
          ∀ sx ∈ (dictOf x.svcs).head?, ∀ sy ∈ (dictOf y.svcs).head?, Svc.Same sx sy) ∧
        (∀ k u v, get? (dictOf a.svcs) k = some u → get? (dictOf b.svcs) k = some v → SameDict Iface.SameIn u.ifs v.ifs))) :=
  ⟨fun h => (node_diff_none_iff a b ha hok).2 h.same,
   fun h => node_same_deep_iff a b ((node_diff_none_iff a b ha hok).1 h)⟩

/-! ## 8. corner cases: first sub-interface, renames, `None` against empty, kinds that collide, the hypotheses -/

/-- a dedicated port that had no sub-interfaces (`interface_info` None or empty) and gets its first one is flagged -/
theorem first_sub_interface_flagged (x y : Iface V) (hx : x.Wf) (hd : x.dedicated = true) (h0 : dictOf x.subs = [])
    (l : Leaf V) (hl : l ∈ dictOf y.subs) : (ifaceFlag x y).sub = true := by
  rw [(iface_flag_spec x y hx).2.2.2]
  refine ⟨hd, fun hs => ?_⟩
  have := hs.1 l.name
  rw [h0] at this
  have h2 : hasKey (dictOf y.subs) l.name = true := hasKey_self hl
  rw [h2] at this
  simp [hasKey] at this

example : exIface.Wf ∧ ({ exIface with subs := none } : Iface Nat).Wf ∧ exLeaf ∈ dictOf exIface.subs := by decide

/-- the comparison is by name: an element that reappears under another name is reported removed under the old and added under
the new name, and under neither as modified (any child dictionary, any flag function) -/
theorem rename_reported_as_remove_and_add {α : Type} [Named α] (flag : α → α → Flags) (a b : Option (List α))
    (ha : WfDict (dictOf a)) (k k' : String)
    (h1 : hasKey (dictOf a) k = true) (h2 : hasKey (dictOf a) k' = false)
    (h3 : hasKey (dictOf b) k = false) (h4 : hasKey (dictOf b) k' = true) :
    k ∈ (levelDiff flag a b).removed ∧ k' ∈ (levelDiff flag a b).added ∧
    ∀ f, (k, f) ∉ (levelDiff flag a b).modified ∧ (k', f) ∉ (levelDiff flag a b).modified :=
  rename_is_remove_plus_add flag a b ha k k' h1 h2 h3 h4

example : WfDict (dictOf (some [exLeaf])) ∧ hasKey (dictOf (some [exLeaf])) "p1.1" = true ∧
    hasKey (dictOf (some [exLeaf])) "p1.9" = false ∧ hasKey (dictOf (some [{ exLeaf with name := "p1.9" }])) "p1.1" = false := by decide

/-- a missing `*Info` object and one whose dictionary is empty are indistinguishable, on either side, at every level -/
theorem none_info_is_empty_info (i j : Iface V) (s t : Svc V) :
    ifaceDiff { i with subs := none } j = ifaceDiff { i with subs := some [] } j ∧
    ifaceDiff i { j with subs := none } = ifaceDiff i { j with subs := some [] } ∧
    svcDiff { s with ifs := none } t = svcDiff { s with ifs := some [] } t ∧
    svcDiff s { t with ifs := none } = svcDiff s { t with ifs := some [] } := by
  refine ⟨?_, ?_, ?_, ?_⟩
  · simp only [ifaceDiff, levelDiff_none_left]
  · simp only [ifaceDiff, levelDiff_none_right]
  · simp only [svcDiff, levelDiff_none_left]
  · simp only [svcDiff, levelDiff_none_right]

/-- every dictionary built from the empty one by `add_*` (`d[name] = x`, also over an existing key) and `remove_*` (`d.pop`)
has unique keys: the `Wf` hypothesis of the theorems is an invariant of the `*Info` classes -/
theorem dict_keys_unique_invariant {α : Type} [Named α] (ops : List (DictOp α)) : WfDict (dictRun ops []) :=
  wf_dictRun ops [] wf_nil

/-- `_dict_diff` / `_dict_common` look at the KEYS of the other dictionary and at nothing else: putting any other slivers under the
same keys on the other side (a fresh `node_id` after remove + add under the old name, other properties, other children) changes
neither which children are removed, nor which are common, nor the names of the added ones -/
theorem dict_select_by_key_only {α : Type} [Named α] (a b b' : List α) (h : b.map name = b'.map name) :
    dictRemoved a b = dictRemoved a b' ∧ dictCommon a b = dictCommon a b' ∧
    (dictAdded a b).map name = (dictAdded a b').map name := by
  refine ⟨?_, ?_, ?_⟩
  · simp only [dictRemoved]; congr 1; funext x; rw [hasKey_of_names b b' h]
  · simp only [dictCommon]; congr 1; funext x; rw [hasKey_of_names b b' h]
  · have e : ∀ d : List α, (dictAdded a d).map name = (d.map name).filter (fun k => !hasKey a k) := by
      intro d; simp [dictAdded, List.filter_map, Function.comp_def]
    rw [e b, e b', h]

/-- no child drops out of the comparison: every child of the old side is removed or common (exactly one of the two), every child of
the new side is added or its key is one of the common keys (exactly one of the two) - whatever is stored under the keys -/
theorem dict_partition_by_key {α : Type} [Named α] (a b : List α) :
    (∀ x ∈ a, (x ∈ dictRemoved a b ∧ x ∉ dictCommon a b) ∨ (x ∈ dictCommon a b ∧ x ∉ dictRemoved a b)) ∧
    (∀ y ∈ b, (y ∈ dictAdded a b ∧ hasKey (dictCommon a b) (name y) = false) ∨
              (y ∉ dictAdded a b ∧ hasKey (dictCommon a b) (name y) = true)) := by
  constructor
  · intro x hx
    simp only [mem_dictRemoved, mem_dictCommon]
    cases hk : hasKey b (name x) <;> simp [hx]
  · intro y hy
    simp only [mem_dictAdded]
    cases hk : hasKey a (name y)
    · left
      refine ⟨⟨hy, rfl⟩, ?_⟩
      rw [hasKey_false_iff]
      intro x hx hn
      rw [mem_dictCommon] at hx
      exact (hasKey_false_iff a (name y)).1 hk x hx.1 hn
    · right
      refine ⟨by simp, ?_⟩
      obtain ⟨x, hx, hn⟩ := (hasKey_iff a (name y)).1 hk
      rw [hasKey_iff]
      exact ⟨x, (mem_dictCommon a b x).2 ⟨hx, by rw [hn]; exact hasKey_self hy⟩, hn⟩

-- a child re-created under its old name is common whatever else differs (names stand for slivers here: the key is all that is read)
example : dictCommon (α := Leaf Nat) [⟨"p1.1", {labels := some 10}⟩] [⟨"p1.1", {labels := some 11}⟩] = [⟨"p1.1", {labels := some 10}⟩] ∧
    dictAdded (α := Leaf Nat) [⟨"p1.1", {labels := some 10}⟩] [⟨"p1.1", {labels := some 11}⟩] = [] := by decide

omit [DecidableEq V] in
/-- two nodes in which every SmartNIC has a network service and that agree on which components are SmartNICs can be compared
in both directions without raising -/
theorem pair_ok_of_ok (a b : Node V) (ha' : a.Ok) (hb' : b.Ok)
    (hk : ∀ x ∈ dictOf a.comps, ∀ y ∈ get? (dictOf b.comps) x.name, x.smart = y.smart) : PairOk a b := by
  intro x hx y hy hs
  have hy' : get? (dictOf b.comps) x.name = some y := by simpa using hy
  exact ⟨ha' x hx hs, hb' y (get?_some_mem hy').1 ((hk x hx y hy) ▸ hs)⟩

example : exNode.Ok ∧ (applyNode exScript exNode).Ok := by decide

/-- a component that is a SmartNIC on the old side and a service-less component of another type under the same name on the new
side: the comparison raises (known finding `C17:NodeSliver.diff:kind-collision:raises:attribute`) -/
theorem node_diff_kind_collision_counterexample :
    ∃ a b : Node Nat, a.Wf ∧ b.Wf ∧ a.Ok ∧ b.Ok ∧ nodeDiff a b = .error "attribute" ∧ (nodeDiff b a).toOption.isSome = true :=
  ⟨{ name := "n1", props := {}, svcs := none, comps := some [{ name := "nic1", props := {}, smart := true, svcs := some [exSvc] }] },
   { name := "n1", props := {}, svcs := none, comps := some [{ name := "nic1", props := {}, smart := false, svcs := none }] },
   by decide⟩

/-! ## 9. the values that are compared: the value classes' own equality

`prop_diff` asks `!=` of `Labels`, `Capacities` and `UserData` objects.  `Model/DiffVal.lean` mirrors their `__eq__` as written
(`gen/diffcfg.py` extracts the loop's default for a missing field, the `if not other` guard being a `None` test, and that
`JSONData.__eq__` compares class and canonical text); the sliver model above is used on canonical forms `Val`. -/

open FimVerif.DiffVal

/-- `Labels.__eq__` / `Capacities.__eq__` on two instances with the same fields: equal iff the field dictionaries are equal,
whatever the default for a missing field -/
theorem fields_eq_is_dict_equality (m : FV) (a b : Fields) (hk : a.map (·.1) = b.map (·.1)) (hn : (a.map (·.1)).Nodup) :
    fieldsEq m a b = true ↔ a = b := fieldsEq_iff_eq m a b hk hn

/-- in particular an instance equals an identical copy of itself - also one on which nothing is set (`Labels()`,
`Capacities()`, all fields `None` / `0`) -/
theorem fields_eq_refl (m : FV) (a : Fields) (hn : (a.map (·.1)).Nodup) : fieldsEq m a a = true := fieldsEq_refl m a hn

example : ([("vlan", FV.null), ("mac", FV.null)] : Fields).map (·.1) |>.Nodup := by decide
example : fieldsEq .null [("vlan", .null), ("mac", .null)] [("vlan", .null), ("mac", .null)] = true := by decide
example : fieldsEq (.int 0) [("core", .int 0), ("ram", .int 0)] [("core", .int 0), ("ram", .int 0)] = true := by decide
-- and an instance never equals `None`: a present-but-empty `Labels()` against an unset property is a change
example : optNe (fieldsEq .null) (some [("vlan", .null)]) none = true ∧ optNe (fieldsEq .null) none (some [("vlan", .null)]) = true ∧
    optNe (fieldsEq .null) (none : Option Fields) none = false := by decide

/-- no normalisation between a stored value and the comparison: a label field (a capacity field) of an element set to ANY other
value - a string that differs only in letter case, by a blank or a leading zero, a list with its elements in another order, a
one-element list for the bare string - raises LABELS (CAPACITIES) in `prop_diff`, in both directions (C17-r6-1: a case-folding
`Labels.__eq__` loses exactly these) -/
theorem field_value_change_is_reported (a : RawProps) (l : Fields) (f : String) (v w : FV)
    (hn : (l.map (·.1)).Nodup) (hv : lookup l f = some v) (hne : w ≠ v) :
    (a.labels = some l →
      (propDiffRaw a { a with labels := some (setField l f w) }).labels = true ∧
      (propDiffRaw { a with labels := some (setField l f w) } a).labels = true) ∧
    (a.caps = some l →
      (propDiffRaw a { a with caps := some (setField l f w) }).caps = true ∧
      (propDiffRaw { a with caps := some (setField l f w) } a).caps = true) := by
  have hL := fieldsEq_setField_ne .null l f v w hn hv hne
  have hC := fieldsEq_setField_ne (.int 0) l f v w hn hv hne
  constructor
  · intro h
    simp [propDiffRaw, h, optNe, optEq, hL.1, hL.2]
  · intro h
    simp [propDiffRaw, h, optNe, optEq, hC.1, hC.2]

-- non-vacuity, on the values of the seeded demo: the instance name in another letter case, a BGP key, a list reordered
example : lookup [("instance", FV.str "Instance-001A"), ("vlan", .null)] "instance" = some (.str "Instance-001A") ∧
    FV.str "instance-001a" ≠ .str "Instance-001A" ∧
    (([("instance", FV.str "Instance-001A"), ("vlan", .null)] : Fields).map (·.1)).Nodup := by decide
example : fieldsEq .null [("bgp_key", .str "SecretKey/AbCdEf")] [("bgp_key", .str "secretkey/abcdef")] = false ∧
    fieldsEq .null [("vlan_range", .strs ["1-10", "20-30"])] [("vlan_range", .strs ["20-30", "1-10"])] = false ∧
    fieldsEq .null [("vlan", .str "100")] [("vlan", .strs ["100"])] = false ∧
    fieldsEq .null [("vlan", .str "100")] [("vlan", .str "0100")] = false ∧
    fieldsEq (.int 0) [("bw", .int 9007199254740992)] [("bw", .int 9007199254740993)] = false := by decide

/-- `JSONData.__eq__` (same class) is an equivalence: it is equality of canonical forms -/
theorem user_data_eq_equivalence (a b c : J) :
    udEq a a = true ∧ udEq a b = udEq b a ∧ (udEq a b = true → udEq b c = true → udEq a c = true) ∧
    (udEq a b = true ↔ a.canon = b.canon) :=
  ⟨udEq_refl a, udEq_symm a b, udEq_trans a b c, udEq_iff a b⟩

/-- the order in which an object lists its members does not matter, at any depth (neighbour swaps generate every order) -/
theorem user_data_member_order_irrelevant (k1 k2 : String) (v1 v2 t : J) (hne : k1 ≠ k2) :
    (J.mem k1 v1 (.mem k2 v2 t)).canon = (J.mem k2 v2 (.mem k1 v1 t)).canon ∧
    udEq (.obj (.mem k1 v1 (.mem k2 v2 t))) (.obj (.mem k2 v2 (.mem k1 v1 t))) = true :=
  ⟨canon_swap_members k1 k2 v1 v2 t hne, udEq_swap_members k1 k2 v1 v2 t hne⟩

/-- JSON values of different type stay different although Python's `==` on the decoded values conflates them:
`true` / `1`, `1` / `1.0`, `false` / `0`, also inside an object (a comparison of decoded values - C17-1 - would miss these) -/
theorem user_data_types_distinct :
    udEq (.bool true) (.num "1") = false ∧ udEq (.num "1") (.num "1.0") = false ∧ udEq (.bool false) (.num "0") = false ∧
    udEq (.obj (.mem "autostart" (.bool true) .nil)) (.obj (.mem "autostart" (.num "1") .nil)) = false := by decide

/-- the flags `prop_diff` computes with the value classes' own equality are those of the sliver model on canonical forms -/
theorem prop_diff_on_values (a b : RawProps) (hl : SameFields a.labels b.labels) (hc : SameFields a.caps b.caps) :
    propDiffRaw a b = propDiff (canonProps a) (canonProps b) := propDiffRaw_eq a b hl hc

/-- hence no flag for an identical copy of the three values, whatever they are -/
theorem prop_diff_on_values_self (a : RawProps) (hl : SameFields a.labels a.labels) (hc : SameFields a.caps a.caps) :
    propDiffRaw a a = Flags.none := by
  rw [propDiffRaw_eq a a hl hc]; exact propDiff_self _

example : SameFields (some [("vlan", FV.str "100"), ("mac", .null)]) (some [("vlan", .null), ("mac", .null)]) := by decide

end FimVerif.C17
