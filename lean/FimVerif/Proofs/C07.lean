import FimVerif.Proofs.Lemmas.TopoAtomic
import FimVerif.Proofs.Lemmas.TopoInvExt
import FimVerif.Model.TopoView
import FimVerif.Model.TopoExt
import FimVerif.Generated.DetachProbe
/-!
# C07 — models built through the topology API satisfy the published rules; views are exact

Full statement: for every history `ops` of building calls, `Topo.Inv (run ops Topo.empty)`, where `Topo.Inv`
(Proofs/Lemmas/TopoInv.lean) lists the conjuncts of the property one by one: ids distinct, no dangling edge, Class/Type in the
published vocabularies, containment structure (links join only interfaces), every component exactly one node, every interface
exactly one service / parent interface, every ServicePort exactly one peer, names unique in their six scopes.  The driver
evaluates every conjunct on every state of the correspondence run and the harness compares the verdicts with the Python
transliteration of the published rules on the implementation's graph.

Proved here:
* `vocab_covers_enums`, `rules_pinned` - the vocabularies of the published rules cover the API's enums (regenerated tables);
* `views_exact_*` - the views list exactly the elements of their class;
* `inv_empty : Inv Topo.empty`;
* `invD_op`, `invD_history_partial` - EVERY building call of the model (`TopoOp`, 23 calls) keeps the downward-closed invariant
  `InvD` (ids distinct, no dangling edge, vocabularies, containment structure / links join only interfaces, at most one owner
  per component, at most one service or parent per interface, at most one peer per ServicePort), in any state and for any
  outcome (return, raise, raise after a rollback), under the decidable guard `CoveredD s op`: argument types come from the API's
  enums, handles refer to elements of their class (no id recycled under another class), uuids are fresh, no ServicePort is
  handed to add_link / connect_interface.  By induction: `ValidD ops s -> InvD s -> InvD (run ops s)`;
* `inv_op`, `inv_history_partial` - every creating / property call (add_node, add_component, add_storage, add_network_service on
  topology and node, add_facility, add_switch, add_interface, add_link, connect_interface, set/unset property, rename) keeps
  `InvS` (= `Inv` without the name scopes: "exactly one" owner / parent / peer) under `CoveredS s op` (the guards above, plus:
  add_interface is not used to make a ServicePort; a service constructor / composite that raises after its rollback handler
  ran has left the model unchanged - C09's subject, proved there for at most one interface).  add_component / add_storage
  are covered at every point where the non-atomic call can stop;
* `invN_op`, `invN_history_partial` - the same calls except rename keep `InvSN` = `InvS` together with the four name scopes no
  creating call breaks (nodes, components of a node, services of a node/component, top-level services); the sibling-name guards
  of the code (`name in self.components` ...) are read on the model through `kids_sub_childrenOf` / `sibling_free`;
* `inv_setProps`, `inv_unsetProp`, `inv_addNode` - the full `Inv`, all six name scopes, for these calls;
* `_counterexample` theorems for the conjuncts the unchanged code breaks (known findings): rename to an existing name,
  add_interface twice with one name, add_interface(ServicePort), add_link on a ServicePort, connect_interface deriving one
  name twice.
NOT proved (oracle + correspondence only): "exactly one" (`InvS`) after the removing calls, disconnect_interface and
remove_interface - that removals leave no orphan is C08's subject; the Link and interface-of-a-service name scopes (the code
breaks them: counterexamples below), every name scope under rename, the name scopes under removals.
-/
namespace FimVerif.C07
open FimVerif FimVerif.M FimVerif.Topo FimVerif.Gen

/-! ## translator obligation -/

def covered : Bool :=
  Rules.enumMembers.all (fun (cls, ms) =>
    match Rules.typeVocab.find? (fun p => p.1 == cls) with
    | some (_, vs) => ms.all (fun m => vs.contains m)
    | none => false)

theorem vocab_covers_enums : covered = true := by decide

/-- the rule file still consists of exactly the rule kinds the invariant and the oracle were written against -/
theorem rules_pinned : Rules.ruleKinds.length = 13 ∧ Rules.classVocab.length = 6 := by decide

/-! ## views -/

theorem views_exact_nodes (s : Topo) (x : String) :
    x ∈ viewNodes s ↔ ∃ n ∈ s.nodes, n.cls = .networkNode ∧ n.typ ≠ "Facility" ∧ n.name = x := by
  simp [viewNodes, List.mem_map, List.mem_filter, and_assoc]

theorem views_exact_facilities (s : Topo) (x : String) :
    x ∈ viewFacilities s ↔ ∃ n ∈ s.nodes, n.cls = .networkNode ∧ n.typ = "Facility" ∧ n.name = x := by
  simp [viewFacilities, List.mem_map, List.mem_filter, and_assoc]

theorem views_exact_links (s : Topo) (x : String) :
    x ∈ viewLinks s ↔ ∃ n ∈ s.nodes, n.cls = .link ∧ n.name = x := by
  simp [viewLinks, List.mem_map, List.mem_filter, and_assoc]

theorem views_exact_services (s : Topo) (x : String) :
    x ∈ viewServices s ↔ ∃ n ∈ s.nodes, n.cls = .networkService ∧ n.name = x := by
  simp [viewServices, List.mem_map, List.mem_filter, and_assoc]

/-- nodes and facilities together are exactly the NetworkNodes -/
theorem views_partition_nodes (s : Topo) :
    (viewNodes s).length + (viewFacilities s).length = (s.nodes.filter (fun n => n.cls == .networkNode)).length := by
  simp only [viewNodes, viewFacilities, List.length_map]
  induction s.nodes with
  | nil => rfl
  | cons a l ih =>
    simp only [List.filter_cons]
    by_cases h1 : a.cls = .networkNode <;> by_cases h2 : a.typ = "Facility" <;> simp [h1, h2] <;> omega

/-! ## the views are read-only (`Model/TopoView.lean` over the table generated from fim/view_only_dict.py) -/

section Views
open FimVerif.TopoView

/-- the generated table says: no in-place method of `dict` is accepted, none changes the view or the wrapped dictionary, the class
does not forward attributes and is not a (subclass of a) mutable mapping -/
def allRefused : Bool :=
  ViewDict.mutators.all (fun r => r.2.2.1 != "ok" && !r.2.2.2.1 && !r.2.2.2.2) && !ViewDict.forwardsAttributes &&
    !ViewDict.isMutableMapping && !ViewDict.isDict

theorem view_mutators_refused : allRefused = true := by decide

/-- the table covers every way a dict can be changed in place, as a method and as a statement -/
theorem view_mutators_complete :
    ["__setitem__", "item-assignment", "__delitem__", "del-item", "pop", "popitem", "clear", "update", "setdefault", "__ior__", "|="].all
      (fun m => ViewDict.mutators.any (fun r => r.1 == m)) = true := by decide

/-- every `interface_list` is a tuple, or a list whose change does not show in the next read -/
theorem view_lists_immutable : ViewDict.listViews.all (fun r => r.2.1 == "tuple" || r.2.2) = true := by decide

theorem verdict_not_ok {name out : String} (h : verdict name = some out) : (out == "ok") = false := by
  unfold verdict at h
  cases hf : ViewDict.mutators.find? (fun r => r.1 == name) with
  | none => rw [hf] at h; cases h
  | some r =>
    rw [hf] at h
    simp only [Option.map_some, Option.some.injEq] at h
    have hm := List.mem_of_find?_eq_some hf
    have hall := view_mutators_refused
    simp only [allRefused, Bool.and_eq_true, List.all_eq_true] at hall
    have := hall.1.1.1 r hm
    simp only [bne_iff_ne, ne_eq] at this
    rw [← h]
    simpa using this.1.1

/-- every operation on a view - reading or any in-place method of `dict` - leaves the view object and the model as they were -/
theorem view_call_readOnly (c : Call) : ReadOnly (TopoView.call c) := by
  cases c with
  | len => exact readOnly_read _
  | keys => exact readOnly_read _
  | contains k => exact readOnly_read _
  | get k => exact readOnly_read _
  | getitem k => constructor; intro v; simp only [TopoView.call]; split <;> rfl
  | mutator name k =>
    simp only [TopoView.call]
    cases hv : verdict name with
    | none => exact readOnly_raise _
    | some out =>
      simp only [verdict_not_ok hv]
      exact readOnly_raise _

theorem views_cannot_modify (cs : List Call) : ∀ v : VState, TopoView.runCalls cs v = v := by
  induction cs with
  | nil => intro v; rfl
  | cons c cs ih => intro v; simp only [TopoView.runCalls]; rw [(view_call_readOnly c).h v]; exact ih v

/-- a view lists exactly the elements of its class, and still does after any sequence of calls on it -/
theorem view_stays_exact (k : Kind) (s : Topo) (cs : List Call) (x : String) :
    x ∈ (TopoView.runCalls cs (openView k s)).keys ↔ x ∈ listing k s := by
  rw [views_cannot_modify]
  simp [openView, dictKeys]

example : failed (TopoView.call (.mutator "pop" "n1") (openView .nodes ⟨[⟨.networkNode, .user "a", "n1", "VM", []⟩], []⟩)) ∧
    (openView .nodes ⟨[⟨.networkNode, .user "a", "n1", "VM", []⟩], []⟩).keys = ["n1"] := by decide

end Views

/-! ## the well-formedness invariant -/

/-- node ids distinct (rule "All node NodeIDs must be distinct") and no dangling edge -/
def Wf (s : Topo) : Prop :=
  (s.nodes.map (·.nid)).Nodup ∧ ∀ e ∈ s.edges, (∃ n ∈ s.nodes, n.ref = e.a) ∧ (∃ n ∈ s.nodes, n.ref = e.b)

theorem wf_empty : Wf Topo.empty := by simp [Wf, Topo.empty]

/-- the id guard of `add_node` looks at every class (regenerated from a behaviour probe of the code) -/
theorem id_guard_any_class : Rules.idAnyClass = true := by decide

theorem wf_addGNode (n : GNode) (s : Topo) (h : Wf s) : Wf (addGNode n s).2 := by
  unfold addGNode
  split
  · exact h
  · rename_i ht
    simp only [idTaken, id_guard_any_class, if_true, Bool.not_eq_true, List.any_eq_false, beq_iff_eq] at ht
    refine ⟨?_, ?_⟩
    · simp only [pushNode, List.map_append, List.map_cons, List.map_nil]
      rw [List.nodup_append]
      refine ⟨h.1, by simp, ?_⟩
      intro a ha b hb
      simp at hb; subst hb
      simp only [List.mem_map] at ha
      obtain ⟨m, hm, rfl⟩ := ha
      exact fun heq => ht m hm heq
    · intro e he
      obtain ⟨⟨x, hx, hxe⟩, ⟨y, hy, hye⟩⟩ := h.2 e he
      exact ⟨⟨x, by simp [pushNode, hx], hxe⟩, ⟨y, by simp [pushNode, hy], hye⟩⟩


theorem wf_setEdge (a b : Ref) (rel : Rel) (s : Topo) (ha : ∃ n ∈ s.nodes, n.ref = a) (hb : ∃ n ∈ s.nodes, n.ref = b)
    (h : Wf s) : Wf (setEdge a b rel s) := by
  refine ⟨h.1, ?_⟩
  intro e he
  simp only [setEdge, List.mem_append, List.mem_filter, List.mem_singleton] at he
  rcases he with ⟨he, _⟩ | rfl
  · exact h.2 e he
  · exact ⟨ha, hb⟩

theorem wf_dropNode (r : Ref) (s : Topo) (h : Wf s) : Wf (dropNode r s) := by
  refine ⟨?_, ?_⟩
  · exact List.Nodup.sublist (List.Sublist.map _ List.filter_sublist) h.1
  · intro e he
    simp only [dropNode, List.mem_filter, Bool.and_eq_true, bne_iff_ne, ne_eq] at he
    obtain ⟨he, hna, hnb⟩ := he
    obtain ⟨⟨x, hx, hxe⟩, ⟨y, hy, hye⟩⟩ := h.2 e he
    refine ⟨⟨x, ?_, hxe⟩, ⟨y, ?_, hye⟩⟩
    · simp only [dropNode, List.mem_filter, bne_iff_ne, ne_eq]; exact ⟨hx, by rw [hxe]; exact hna⟩
    · simp only [dropNode, List.mem_filter, bne_iff_ne, ne_eq]; exact ⟨hy, by rw [hye]; exact hnb⟩

/-- rewriting properties / the name of nodes keeps ids, classes and edges -/
theorem wf_mapNodes (f : GNode → GNode) (hf : ∀ n, (f n).nid = n.nid ∧ (f n).cls = n.cls) (s : Topo) (h : Wf s) :
    Wf { s with nodes := s.nodes.map f } := by
  refine ⟨?_, ?_⟩
  · have : (s.nodes.map f).map (·.nid) = s.nodes.map (·.nid) := by
      simp only [List.map_map]; apply List.map_congr_left; intro n _; exact (hf n).1
    simp only [this]; exact h.1
  · intro e he
    obtain ⟨⟨x, hx, hxe⟩, ⟨y, hy, hye⟩⟩ := h.2 e he
    have hr : ∀ n, (f n).ref = n.ref := fun n => by simp [GNode.ref, (hf n).1, (hf n).2]
    exact ⟨⟨f x, List.mem_map_of_mem hx, by rw [hr, hxe]⟩, ⟨f y, List.mem_map_of_mem hy, by rw [hr, hye]⟩⟩


/-! ## every building call preserves `Wf` -/

theorem mem_of_findNode {nid : Nid} {s s' : Topo} {n : GNode} (h : findNode nid s = (.ok n, s')) : n ∈ s.nodes ∧ s' = s := by
  unfold findNode at h
  split at h
  · rename_i m hm
    simp only [Prod.mk.injEq, Except.ok.injEq] at h
    obtain ⟨h1, h2⟩ := h
    subst h1; subst h2
    have : m ∈ findAll s nid := by rw [hm]; simp
    exact ⟨(List.mem_filter.mp this).1, rfl⟩
  · simp at h

syntax "pw_base" : tactic
macro_rules | `(tactic| pw_base) => `(tactic| exact ReadOnly.preserves (by ro))

macro "pw" : tactic => `(tactic| repeat' (first
  | pw_base
  | refine Preserves.bind ?_ (fun _ => ?_)
  | refine Preserves.bind' ?_ (fun _ => ?_)
  | refine Preserves.tryCatch ?_ (fun _ => ?_)
  | refine preserves_forEach (fun _ => ?_)
  | refine preserves_mapM' (fun _ => ?_)
  | refine Preserves.ite ?_ ?_
  | split))

theorem pw_addGNode (n : GNode) : Preserves Wf (addGNode n) := ⟨fun s h => wf_addGNode n s h⟩
macro_rules | `(tactic| pw_base) => `(tactic| exact pw_addGNode _)

theorem pw_addEdge (a : Nid) (r : Rel) (b : Nid) : Preserves Wf (addEdge a r b) := by
  constructor; intro s h
  unfold addEdge
  rcases cases_run (findNode a) s with ⟨na, s1, h1⟩ | ⟨e, s1, h1⟩
  · obtain ⟨hna, rfl⟩ := mem_of_findNode h1
    rw [bind_ok h1]
    rcases cases_run (findNode b) s1 with ⟨nb, s2, h2⟩ | ⟨e, s2, h2⟩
    · obtain ⟨hnb, rfl⟩ := mem_of_findNode h2
      rw [bind_ok h2]
      exact wf_setEdge _ _ _ _ ⟨na, hna, rfl⟩ ⟨nb, hnb, rfl⟩ h
    · rw [bind_err h2]; have := (readOnly_findNode b).h s1; rw [h2] at this; simp at this; subst this; exact h
  · rw [bind_err h1]; have := (readOnly_findNode a).h s; rw [h1] at this; simp at this; subst this; exact h
macro_rules | `(tactic| pw_base) => `(tactic| exact pw_addEdge _ _ _)

theorem pw_deleteNode (n : Nid) : Preserves Wf (deleteNode n) := by
  unfold deleteNode
  exact Preserves.bind (ReadOnly.preserves (readOnly_findNode _)) (fun _ => preserves_modify (fun s h => wf_dropNode _ s h))
macro_rules | `(tactic| pw_base) => `(tactic| exact pw_deleteNode _)

theorem pw_updateProps (n : Nid) (p : Props) : Preserves Wf (updateProps n p) := by
  unfold updateProps
  refine Preserves.bind (ReadOnly.preserves (readOnly_findNode _)) (fun m => preserves_modify (fun s h => ?_))
  exact wf_mapNodes _ (fun x => by split <;> simp) s h
macro_rules | `(tactic| pw_base) => `(tactic| exact pw_updateProps _ _)


theorem pw_mapNodes (f : GNode → GNode) (hf : ∀ n, (f n).nid = n.nid ∧ (f n).cls = n.cls) :
    Preserves Wf (M.modify (fun s : Topo => { s with nodes := s.nodes.map f })) :=
  preserves_modify (fun s h => wf_mapNodes f hf s h)

/-! ## the invariant of the statement -/

theorem inv_empty : Inv Topo.empty := by
  refine ⟨⟨?_, ?_, ?_, ?_, ?_, ?_, ?_⟩, ⟨?_, ?_, ?_, ?_, ?_, ?_⟩⟩ <;>
    simp [IdsOk, ClosedOk, VocabOk, SchemaOk, CompOwned, IfaceOwned, SpPeer, NodeNames, LinkNames, CompNames, SvcNames,
      TopSvcNames, CpNames, Topo.empty, namesOf]

/-- `Inv` is exactly "`InvD` and at least one owner / parent / peer" plus the name scopes -/
theorem invS_iff (s : Topo) : InvS s ↔ InvD s ∧
    (∀ n ∈ s.nodes, n.cls = .component → 1 ≤ (ownersOf s n.ref).length) ∧
    (∀ n ∈ s.nodes, n.cls = .connectionPoint → 1 ≤ (parentsOf s n.ref).length) ∧
    (∀ n ∈ s.nodes, n.cls = .connectionPoint → n.typ = "ServicePort" → 1 ≤ (spPeers s n.ref).length) := by
  constructor
  · intro h
    exact ⟨h.down, fun n hn hc => Nat.le_of_eq (h.compOwned n hn hc).symm, fun n hn hc => Nat.le_of_eq (h.ifaceOwned n hn hc).symm,
      fun n hn hc ht => Nat.le_of_eq (h.spPeer n hn hc ht).symm⟩
  · intro ⟨h, h1, h2, h3⟩
    exact ⟨h.ids, h.closed, h.vocab, h.schema, fun n hn hc => Nat.le_antisymm (h.compOwned n hn hc) (h1 n hn hc),
      fun n hn hc => Nat.le_antisymm (h.ifaceOwned n hn hc) (h2 n hn hc),
      fun n hn hc ht => Nat.le_antisymm (h.spPeer n hn hc ht) (h3 n hn hc ht)⟩

/-- "links join only interfaces" as the published rule states it -/
theorem links_only_interfaces {s : Topo} (h : SchemaOk s) (e : GEdge) (he : e ∈ s.edges) :
    (e.a.cls = .link → e.b.cls = .connectionPoint) ∧ (e.b.cls = .link → False) := by
  have := h e he
  unfold edgeOk at this
  constructor
  · intro ha; rw [ha] at this; cases hr : e.rel <;> cases hb : e.b.cls <;> simp [hr, hb] at this ⊢
  · intro hb; rw [hb] at this; cases hr : e.rel <;> cases ha : e.a.cls <;> simp [hr, ha] at this

/-! ## histories -/

def run : List TopoOp → Topo → Topo
  | [], s => s
  | op :: ops, s => run ops (step op s).2

def NoSpOpt (s : Topo) : Option (List IfArg) → Prop
  | none => True
  | some l => NoSpIn s l
instance (s : Topo) (o : Option (List IfArg)) : Decidable (NoSpOpt s o) := by cases o <;> unfold NoSpOpt <;> infer_instance

/-- uuid4 returns ids that are not in the model -/
def FreshTwo (s : Topo) (c : Nat) : Prop := ∀ m ∈ s.nodes, m.nid ≠ .gen c ∧ m.nid ≠ .gen (c + 1)
instance (s : Topo) (c : Nat) : Decidable (FreshTwo s c) := by unfold FreshTwo; infer_instance

def ConnectOk (s : Topo) (c : Nat) (svc : Nid) : IfArg → Prop
  | .bogus => True
  | .iface iid iname => HandleOk s svc .networkService ∧ HandleOk s iid .connectionPoint ∧ FreshTwo s c ∧ NoSpIn s [.iface iid iname]
instance (s : Topo) (c : Nat) (svc : Nid) (i : IfArg) : Decidable (ConnectOk s c svc i) := by
  cases i <;> unfold ConnectOk <;> infer_instance

/-- the calls (with the decidable conditions on their arguments in state `s`) for which `inv_op` is proved -/
def CoveredS (s : Topo) : TopoOp → Prop
  | .addNode _ _ a => TypeArgOk .networkNode a.ntype
  | .addComponent _ _ _ _ => True
  | .addStorage _ _ _ _ _ _ => True
  | .addService _ c a => SvcGuards s c none a
  | .nodeAddService _ c parent a => SvcGuards s c (some parent) a
  | .nsAddInterface _ _ svc _ _ _ itype _ => HandleOk s svc .networkService ∧ TypeArgOk .connectionPoint itype ∧ NotSp itype
  | .addLink _ _ _ _ ltype ifs _ _ => TypeArgOk .link ltype ∧ NoSpOpt s ifs
  | .connect _ c svc _ i => ConnectOk s c svc i
  | .addFacility _ _ _ _ _ t _ _ _ => TypeArgOk .networkService t
  | .addSwitch _ _ _ _ _ t _ _ => TypeArgOk .networkService t
  | .setProps _ _ => True
  | .unsetProp _ _ => True
  | .rename _ _ _ => True
  | _ => False

/-- the alphabet for the downward-closed invariant: every removing call as well, and add_network_service whatever its outcome -/
def CoveredD (s : Topo) : TopoOp → Prop
  | .addNode _ _ a => TypeArgOk .networkNode a.ntype
  | .addComponent _ _ _ _ => True
  | .addStorage _ _ _ _ _ _ => True
  | .addService _ c a => SvcGuards s c none a
  | .nodeAddService _ c parent a => SvcGuards s c (some parent) a
  | .nsAddInterface _ _ svc _ _ _ itype _ => HandleOk s svc .networkService ∧ TypeArgOk .connectionPoint itype
  | .addLink _ _ _ _ ltype ifs _ _ => TypeArgOk .link ltype ∧ NoSpOpt s ifs
  | .connect _ c svc _ i => ConnectOk s c svc i
  | .setProps _ _ | .unsetProp _ _ | .rename _ _ _ => True
  | .nsRemoveInterface _ _ _ | .disconnect _ _ | .removeNode _ | .removeFacility _ | .removeSwitch _ | .removeLink _
  | .removeService _ | .nodeRemoveService _ _ | .removeComponent _ _ => True
  | .addFacility _ _ _ _ _ t _ _ _ => TypeArgOk .networkService t
  | .addSwitch _ _ _ _ _ t _ _ => TypeArgOk .networkService t

instance (s : Topo) (op : TopoOp) : Decidable (CoveredS s op) := by cases op <;> unfold CoveredS <;> infer_instance
instance (s : Topo) (op : TopoOp) : Decidable (CoveredD s op) := by cases op <;> unfold CoveredD <;> infer_instance

def ValidS : List TopoOp → Topo → Prop
  | [], _ => True
  | op :: ops, s => CoveredS s op ∧ ValidS ops (step op s).2
def ValidD : List TopoOp → Topo → Prop
  | [], _ => True
  | op :: ops, s => CoveredD s op ∧ ValidD ops (step op s).2

instance decValidS : (ops : List TopoOp) → (s : Topo) → Decidable (ValidS ops s)
  | [], _ => isTrue trivial
  | op :: ops, s => by
      unfold ValidS
      have := decValidS ops (step op s).2
      infer_instance
instance decValidD : (ops : List TopoOp) → (s : Topo) → Decidable (ValidD ops s)
  | [], _ => isTrue trivial
  | op :: ops, s => by
      unfold ValidD
      have := decValidD ops (step op s).2
      infer_instance

theorem state_bind_pure {α β : Type} (m : M Topo α) (g : α → M Topo β) (hg : ∀ a s, (g a s).2 = s) (s : Topo) :
    ((m >>= g) s).2 = (m s).2 := by
  rcases cases_run m s with ⟨a, s', h⟩ | ⟨e, s', h⟩
  · rw [bind_ok h, h]; exact hg a s'
  · rw [bind_err h, h]

/-- every covered building call keeps the structural invariant, whether it returns or raises -/
theorem inv_op (s : Topo) (op : TopoOp) (hc : CoveredS s op) (h : InvS s) : InvS (step op s).2 := by
  cases op <;> simp only [CoveredS] at hc <;> simp only [step] <;> rw [state_bind_pure _ _ (fun _ _ => rfl)]
  case addNode fl c a => exact invS_addNode fl c a s hc h
  case addComponent fl c p a => exact inv_addComponent_anyHandle attachStable_invS fl c p a s h
  case addStorage fl c p n i pr => exact inv_addStorage_anyHandle attachStable_invS fl c p n i pr s h
  case addService fl c a => exact invS_addService fl c a s hc (addService_rou fl c a s h.ids h.closed hc) h
  case nodeAddService fl c p a => exact invS_nodeAddService fl c p a s hc (nodeAddService_rou fl c p a s h.ids h.closed hc) h
  case nsAddInterface fl c svc ca n i t p => exact invS_nsAddInterface fl c svc ca n i t p s hc.1 hc.2.1 hc.2.2 h
  case addLink fl c n i lt ifs t p =>
    exact invS_addLink fl c n i lt ifs t p s hc.1 (fun l hl => by have := hc.2; rw [hl] at this; exact this) h
  case connect fl c svc ca i =>
    cases i with
    | bogus => exact h
    | iface iid iname => exact invS_connect fl c svc iid iname ca s hc.1 hc.2.1 hc.2.2.1 hc.2.2.2 h
  case addFacility fl c n i st t np ifs kw =>
    exact invS_addFacility fl c n i st t np ifs kw s hc (addFacility_rou fl c n i st t np ifs kw s h.ids h.closed) h
  case addSwitch fl c n i st t np ports =>
    exact invS_addSwitch fl c n i st t np ports s hc (addSwitch_rou fl c n i st t np ports s h.ids h.closed) h
  case setProps i p => exact (preserves_setProps keyStable_invS.map i p).h s h
  case unsetProp i g => exact (preserves_unsetProp keyStable_invS.map i g).h s h
  case rename c i n => exact (preserves_rename keyStable_invS c i n).h s h

theorem invD_op (s : Topo) (op : TopoOp) (hc : CoveredD s op) (h : InvD s) : InvD (step op s).2 := by
  cases op <;> simp only [CoveredD] at hc <;> simp only [step] <;> rw [state_bind_pure _ _ (fun _ _ => rfl)]
  case addNode fl c a => exact invD_addNode fl c a s hc h
  case addComponent fl c p a => exact inv_addComponent_anyHandle attachStable_invD fl c p a s h
  case addStorage fl c p n i pr => exact inv_addStorage_anyHandle attachStable_invD fl c p n i pr s h
  case addService fl c a => exact invD_addService fl c a s hc h
  case nodeAddService fl c p a => exact invD_nodeAddService fl c p a s hc h
  case nsAddInterface fl c svc ca n i t p => exact invD_nsAddInterface fl c svc ca n i t p s hc.1 hc.2 h
  case addLink fl c n i lt ifs t p =>
    exact invD_addLink fl c n i lt ifs t p s hc.1 (fun l hl => by have := hc.2; rw [hl] at this; exact this) h
  case connect fl c svc ca i =>
    cases i with
    | bogus => exact h
    | iface iid iname => exact invD_connect fl c svc iid iname ca s hc.1 hc.2.1 hc.2.2.1 hc.2.2.2 h
  case addFacility fl c n i st t np ifs kw => exact invD_addFacility fl c n i st t np ifs kw s hc h
  case addSwitch fl c n i st t np ports => exact invD_addSwitch fl c n i st t np ports s hc h
  case setProps i p => exact (preserves_setProps keyStable_invD.map i p).h s h
  case unsetProp i g => exact (preserves_unsetProp keyStable_invD.map i g).h s h
  case rename c i n => exact (preserves_rename keyStable_invD c i n).h s h
  case nsRemoveInterface fl svc n => exact (preserves_nsRemoveInterface dropStable_invD fl svc n).h s h
  case disconnect ca i => exact (preserves_disconnectInterface dropStable_invD ca i).h s h
  case removeNode n => exact (preserves_removeNode dropStable_invD n).h s h
  case removeFacility n => exact (preserves_removeFacility dropStable_invD n).h s h
  case removeSwitch n => exact (preserves_removeSwitch dropStable_invD n).h s h
  case removeLink n => exact (preserves_removeLink dropStable_invD n).h s h
  case removeService n => exact (preserves_removeService dropStable_invD n).h s h
  case nodeRemoveService p n => exact (preserves_nodeRemoveService dropStable_invD p n).h s h
  case removeComponent p n => exact (preserves_removeComponent dropStable_invD p n).h s h

/-- PARTIAL (name scopes, uncovered calls and "exactly one" after removals are missing, see the header): the structural
invariant holds after every history of covered calls -/
theorem inv_history_partial (ops : List TopoOp) : ∀ s, ValidS ops s → InvS s → InvS (run ops s) := by
  induction ops with
  | nil => intro s _ h; exact h
  | cons op ops ih => intro s hv h; exact ih _ hv.2 (inv_op s op hv.1 h)

theorem invD_history_partial (ops : List TopoOp) : ∀ s, ValidD ops s → InvD s → InvD (run ops s) := by
  induction ops with
  | nil => intro s _ h; exact h
  | cons op ops ih => intro s hv h; exact ih _ hv.2 (invD_op s op hv.1 h)

theorem inv_history_from_empty (ops : List TopoOp) (hv : ValidS ops Topo.empty) : InvS (run ops Topo.empty) :=
  inv_history_partial ops _ hv inv_empty.struct

theorem invD_history_from_empty (ops : List TopoOp) (hv : ValidD ops Topo.empty) : InvD (run ops Topo.empty) :=
  invD_history_partial ops _ hv inv_empty.struct.down

/-! ### the structural invariant together with the four name scopes no creating call breaks -/

/-- `CoveredS` minus rename (it breaks every name scope: known finding) -/
def CoveredN (s : Topo) : TopoOp → Prop
  | .rename _ _ _ => False
  | op => CoveredS s op
instance (s : Topo) (op : TopoOp) : Decidable (CoveredN s op) := by cases op <;> unfold CoveredN <;> infer_instance

def ValidN : List TopoOp → Topo → Prop
  | [], _ => True
  | op :: ops, s => CoveredN s op ∧ ValidN ops (step op s).2
instance decValidN : (ops : List TopoOp) → (s : Topo) → Decidable (ValidN ops s)
  | [], _ => isTrue trivial
  | op :: ops, s => by
      unfold ValidN
      have := decValidN ops (step op s).2
      infer_instance

theorem invN_op (s : Topo) (op : TopoOp) (hc : CoveredN s op) (h : InvSN s) : InvSN (step op s).2 := by
  cases op <;> simp only [CoveredN, CoveredS] at hc <;> simp only [step] <;> rw [state_bind_pure _ _ (fun _ _ => rfl)]
  case addNode fl c a => exact invSN_addNode fl c a s hc h
  case addComponent fl c p a => exact inv_addComponent_anyHandle attachStable_invSN fl c p a s h
  case addStorage fl c p n i pr => exact inv_addStorage_anyHandle attachStable_invSN fl c p n i pr s h
  case addService fl c a => exact invSN_addService fl c a s hc (addService_rou fl c a s h.1.ids h.1.closed hc) h
  case nodeAddService fl c p a => exact invSN_nodeAddService fl c p a s hc (nodeAddService_rou fl c p a s h.1.ids h.1.closed hc) h
  case nsAddInterface fl c svc ca n i t p => exact invSN_nsAddInterface fl c svc ca n i t p s hc.1 hc.2.1 hc.2.2 h
  case addLink fl c n i lt ifs t p =>
    exact invSN_addLink fl c n i lt ifs t p s hc.1 (fun l hl => by have := hc.2; rw [hl] at this; exact this) h
  case connect fl c svc ca i =>
    cases i with
    | bogus => exact h
    | iface iid iname => exact invSN_connect fl c svc iid iname ca s hc.1 hc.2.1 hc.2.2.1 hc.2.2.2 h
  case addFacility fl c n i st t np ifs kw =>
    exact invSN_addFacility fl c n i st t np ifs kw s hc (addFacility_rou fl c n i st t np ifs kw s h.1.ids h.1.closed) h
  case addSwitch fl c n i st t np ports =>
    exact invSN_addSwitch fl c n i st t np ports s hc (addSwitch_rou fl c n i st t np ports s h.1.ids h.1.closed) h
  case setProps i p => exact (preserves_setProps mapStable_invSN i p).h s h
  case unsetProp i g => exact (preserves_unsetProp mapStable_invSN i g).h s h

/-- PARTIAL (the Link and interface-of-a-service name scopes, rename and the removing calls are missing): `InvS` and the name scopes of nodes, components, services of a node/component and top-level services hold after
every history of the covered creating calls -/
theorem invN_history_partial (ops : List TopoOp) : ∀ s, ValidN ops s → InvSN s → InvSN (run ops s) := by
  induction ops with
  | nil => intro s _ h; exact h
  | cons op ops ih => intro s hv h; exact ih _ hv.2 (invN_op s op hv.1 h)

theorem invN_history_from_empty (ops : List TopoOp) (hv : ValidN ops Topo.empty) : InvSN (run ops Topo.empty) :=
  invN_history_partial ops _ hv ⟨inv_empty.struct, inv_empty.names.core⟩

/-- non-vacuity: node, component, service without interfaces, two connections, a link, a facility -/
example : ValidN [.addNode .experiment 0 ⟨"n1", none, some "RENC", some "VM", []⟩,
                  .addComponent .experiment 1 (.gen 0) ⟨"nic1", none, some "SmartNIC", some "ConnectX-6", none, none, none, []⟩,
                  .addService .experiment 5 ⟨"s1", none, some "L2Bridge", none, none, [], [.iface (.gen 2) "nic1-p1"]⟩,
                  .connect .experiment 8 (.gen 5) [] (.iface (.gen 3) "nic1-p2"),
                  .addFacility .experiment 10 "fac" none (some "RENC") (some "VLAN") [] none [],
                  .setProps (.gen 0) [.ok "Site" "UKY"]] Topo.empty := by decide


/-! ## the second alphabet (`XOp`) and histories over both alphabets

`add_child_interface`, `remove_child_interface`, `peer`, `unpeer`, `add_port_mirror_service`, `add_component(model_type=…)`, `prune`.
`InvD` is kept by all of them, `InvS` / `InvSN` by the creating ones.  The guards: the port handle refers to an interface (when to
anything); `peer`'s two handles refer to services and the other handle's id is not the uuid about to be drawn (C09 `PeerOk`); the
port-mirror service's arguments satisfy `SvcGuards` (as for `add_network_service`). -/

def CoveredDX (s : Topo) : XOp → Prop
  | .addChildInterface _ _ port _ _ _ _ _ _ => HandleOk s port .connectionPoint
  | .peer _ c svc _ _ other _ => PeerGuard s c svc other
  | .addPortMirror _ c a _ _ => SvcGuards s c none a
  | .removeChildInterface _ _ _ | .unpeer _ _ | .addComponentMT _ _ _ _ _ | .prune _ _ _ _ => True

def CoveredSX (s : Topo) : XOp → Prop
  | .addChildInterface _ _ port _ _ _ _ _ _ => HandleOk s port .connectionPoint
  | .peer _ c svc _ _ other _ => PeerGuard s c svc other
  | .addPortMirror _ c a _ _ => SvcGuards s c none a
  | .addComponentMT _ _ _ _ _ => True
  | .removeChildInterface _ _ _ | .unpeer _ _ | .prune _ _ _ _ => False

instance (s : Topo) (op : XOp) : Decidable (CoveredDX s op) := by cases op <;> unfold CoveredDX <;> infer_instance
instance (s : Topo) (op : XOp) : Decidable (CoveredSX s op) := by cases op <;> unfold CoveredSX <;> infer_instance

theorem invD_xop (s : Topo) (op : XOp) (hc : CoveredDX s op) (h : InvD s) : InvD (stepX op s).2 := by
  cases op <;> simp only [CoveredDX] at hc <;> simp only [stepX] <;> rw [state_bind_pure _ _ (fun _ _ => rfl)]
  case addChildInterface fl c p ca n i v tb pr => exact inv_addChildInterface attachStable_invD fl c p ca n i v tb pr s hc h
  case removeChildInterface p ca n => exact (preserves_removeChildInterface dropStable_invD p ca n).h s h
  case peer fl c svc sn ca o pr => exact invD_peer fl c svc sn ca o pr s hc h
  case unpeer ca o => exact (preserves_unpeer dropStable_invD ca o).h s h
  case addPortMirror fl c a t f => exact invD_addPortMirror fl c a t f s hc h
  case addComponentMT fl c p a mt => exact inv_addComponentMT attachStable_invD fl c p a mt s h
  case prune ns cs ss is => exact (preserves_prune dropStable_invD ns cs ss is).h s h

theorem inv_xop (s : Topo) (op : XOp) (hc : CoveredSX s op) (h : InvS s) : InvS (stepX op s).2 := by
  cases op <;> simp only [CoveredSX] at hc <;> simp only [stepX] <;> rw [state_bind_pure _ _ (fun _ _ => rfl)]
  case addChildInterface fl c p ca n i v tb pr => exact inv_addChildInterface attachStable_invS fl c p ca n i v tb pr s hc h
  case peer fl c svc sn ca o pr => exact invS_peer fl c svc sn ca o pr s hc h
  case addPortMirror fl c a t f => exact invS_addPortMirror fl c a t f s hc h
  case addComponentMT fl c p a mt => exact inv_addComponentMT attachStable_invS fl c p a mt s h

theorem invN_xop (s : Topo) (op : XOp) (hc : CoveredSX s op) (h : InvSN s) : InvSN (stepX op s).2 := by
  cases op <;> simp only [CoveredSX] at hc <;> simp only [stepX] <;> rw [state_bind_pure _ _ (fun _ _ => rfl)]
  case addChildInterface fl c p ca n i v tb pr => exact inv_addChildInterface attachStable_invSN fl c p ca n i v tb pr s hc h
  case peer fl c svc sn ca o pr => exact invSN_peer fl c svc sn ca o pr s hc h
  case addPortMirror fl c a t f => exact invSN_addPortMirror fl c a t f s hc h
  case addComponentMT fl c p a mt => exact inv_addComponentMT attachStable_invSN fl c p a mt s h

/-- a building call of either alphabet -/
inductive Call where
  | t (op : TopoOp)
  | x (op : XOp)

def stepCall : Call → Topo → Topo
  | .t op, s => (step op s).2
  | .x op, s => (stepX op s).2

def runCalls : List Call → Topo → Topo
  | [], s => s
  | c :: cs, s => runCalls cs (stepCall c s)

def CallD (s : Topo) : Call → Prop
  | .t op => CoveredD s op
  | .x op => CoveredDX s op
def CallS (s : Topo) : Call → Prop
  | .t op => CoveredS s op
  | .x op => CoveredSX s op
def CallN (s : Topo) : Call → Prop
  | .t op => CoveredN s op
  | .x op => CoveredSX s op
instance (s : Topo) (c : Call) : Decidable (CallD s c) := by cases c <;> unfold CallD <;> infer_instance
instance (s : Topo) (c : Call) : Decidable (CallS s c) := by cases c <;> unfold CallS <;> infer_instance
instance (s : Topo) (c : Call) : Decidable (CallN s c) := by cases c <;> unfold CallN <;> infer_instance

/-- every call of the history satisfies the guard `G` in the state it is made in -/
def ValidCalls (G : Topo → Call → Prop) : List Call → Topo → Prop
  | [], _ => True
  | c :: cs, s => G s c ∧ ValidCalls G cs (stepCall c s)
instance decValidCalls (G : Topo → Call → Prop) [∀ s c, Decidable (G s c)] : (cs : List Call) → (s : Topo) → Decidable (ValidCalls G cs s)
  | [], _ => isTrue trivial
  | c :: cs, s => by
      unfold ValidCalls
      have := decValidCalls G cs (stepCall c s)
      infer_instance

theorem history_of_step {P : Topo → Prop} {G : Topo → Call → Prop} (hstep : ∀ s c, G s c → P s → P (stepCall c s)) (cs : List Call) :
    ∀ s, ValidCalls G cs s → P s → P (runCalls cs s) := by
  induction cs with
  | nil => intro s _ h; exact h
  | cons c cs ih => intro s hv h; exact ih _ hv.2 (hstep s c hv.1 h)

theorem invD_call (s : Topo) (c : Call) (hc : CallD s c) (h : InvD s) : InvD (stepCall c s) := by
  cases c with
  | t op => exact invD_op s op hc h
  | x op => exact invD_xop s op hc h
theorem inv_call (s : Topo) (c : Call) (hc : CallS s c) (h : InvS s) : InvS (stepCall c s) := by
  cases c with
  | t op => exact inv_op s op hc h
  | x op => exact inv_xop s op hc h
theorem invN_call (s : Topo) (c : Call) (hc : CallN s c) (h : InvSN s) : InvSN (stepCall c s) := by
  cases c with
  | t op => exact invN_op s op hc h
  | x op => exact invN_xop s op hc h

/-- PARTIAL ("at most one" owner / parent / peer instead of "exactly one"; the name scopes are missing): EVERY building call of
both alphabets - all 30 request kinds, removing calls, rollbacks and half-way raises included - keeps `InvD`, along every history -/
theorem invD_calls_partial (cs : List Call) (s : Topo) (hv : ValidCalls CallD cs s) (h : InvD s) : InvD (runCalls cs s) :=
  history_of_step invD_call cs s hv h

/-- PARTIAL (the removing calls and the name scopes are missing): every creating / property call of both alphabets keeps `InvS`
("exactly one" owner / parent / peer), with no side condition on the outcome of the call -/
theorem inv_calls_partial (cs : List Call) (s : Topo) (hv : ValidCalls CallS cs s) (h : InvS s) : InvS (runCalls cs s) :=
  history_of_step inv_call cs s hv h

/-- PARTIAL (as `inv_calls_partial`, without rename; Link and interface-of-a-service name scopes missing): … and the four name
scopes of `NamesCore` -/
theorem invN_calls_partial (cs : List Call) (s : Topo) (hv : ValidCalls CallN cs s) (h : InvSN s) : InvSN (runCalls cs s) :=
  history_of_step invN_call cs s hv h

theorem invD_calls_from_empty (cs : List Call) (hv : ValidCalls CallD cs Topo.empty) : InvD (runCalls cs Topo.empty) :=
  invD_calls_partial cs _ hv inv_empty.struct.down

/-- non-vacuity: a node with a SmartNIC, a sub-interface on one of its dedicated ports, a second node, two services peered,
the sub-interface connected - then the component is removed with everything under it, the peering undone, a node pruned -/
example : ValidCalls CallD [
    .t (.addNode .experiment 0 ⟨"n1", none, some "RENC", some "VM", []⟩),
    .x (.addComponentMT .experiment 1 (.gen 0) ⟨"nic1", none, some "SmartNIC", none, none, none, none, []⟩ ("ConnectX-6", "SmartNIC")),
    .x (.addChildInterface .experiment 5 (.gen 2) [] "sub1" none (some "101") [] [.ok "Labels" "{\"vlan\": \"101\"}"]),
    .t (.addService .experiment 6 ⟨"s1", none, some "L2Bridge", none, none, [], [.iface (.gen 5) "sub1"]⟩),
    .t (.addService .experiment 9 ⟨"s2", none, some "L2STS", none, none, [], []⟩),
    .x (.peer .experiment 10 (.gen 6) "s1" [] (some ⟨.gen 9, "s2", []⟩) []),
    .t (.removeComponent (.gen 0) "nic1"),
    .x (.unpeer [("s1-s2", .gen 10)] (some ⟨.gen 9, "s2", [("s2-s1", .gen 11)]⟩)),
    .x (.prune ["n1"] [] [] [])] Topo.empty ∧
  (runCalls [
    .t (.addNode .experiment 0 ⟨"n1", none, some "RENC", some "VM", []⟩),
    .x (.addComponentMT .experiment 1 (.gen 0) ⟨"nic1", none, some "SmartNIC", none, none, none, none, []⟩ ("ConnectX-6", "SmartNIC")),
    .x (.addChildInterface .experiment 5 (.gen 2) [] "sub1" none (some "101") [] [.ok "Labels" "{\"vlan\": \"101\"}"]),
    .t (.addService .experiment 6 ⟨"s1", none, some "L2Bridge", none, none, [], [.iface (.gen 5) "sub1"]⟩),
    .t (.addService .experiment 9 ⟨"s2", none, some "L2STS", none, none, [], []⟩),
    .x (.peer .experiment 10 (.gen 6) "s1" [] (some ⟨.gen 9, "s2", []⟩) [])] Topo.empty).nodes.length = 13 := by decide

example : ValidCalls CallN [
    .t (.addNode .experiment 0 ⟨"n1", none, some "RENC", some "VM", []⟩),
    .x (.addComponentMT .experiment 1 (.gen 0) ⟨"nic1", none, some "SmartNIC", none, none, none, none, []⟩ ("ConnectX-6", "SmartNIC")),
    .x (.addChildInterface .experiment 5 (.gen 2) [] "sub1" none (some "101") [] [.ok "Labels" "{\"vlan\": \"101\"}"]),
    .t (.addService .experiment 6 ⟨"s1", none, some "L2Bridge", none, none, [], [.iface (.gen 5) "sub1"]⟩),
    .t (.addService .experiment 9 ⟨"s2", none, some "L2STS", none, none, [], []⟩),
    .x (.peer .experiment 10 (.gen 6) "s1" [] (some ⟨.gen 9, "s2", []⟩) []),
    .x (.addPortMirror .experiment 13 ⟨"pm", none, some "PortMirror", none, none, [], [.iface (.gen 3) "nic1-p2"]⟩ true true)] Topo.empty := by decide

/-! ### the full invariant, name scopes included, for the calls that cannot touch a name -/

theorem inv_setProps (nid : Nid) (props : List PropArg) (s : Topo) (h : Inv s) : Inv (setProps nid props s).2 :=
  (preserves_setProps mapStable_inv nid props).h s h
theorem inv_unsetProp (nid : Nid) (g : Option String) (s : Topo) (h : Inv s) : Inv (unsetProp nid g s).2 :=
  (preserves_unsetProp mapStable_inv nid g).h s h

theorem inv_addNode (fl : Flavour) (c : Nat) (a : NodeArgs) (s : Topo) (ht : TypeArgOk .networkNode a.ntype) (h : Inv s) :
    Inv (addNode fl c a s).2 := inv_addNode_full fl c a s ht h

/-! ## non-vacuity of the guards, and the known findings as concrete witnesses

Every witness below is replayed on the implementation by a deterministic case of the oracle (props/c07.py
`deterministic_cases`), which prints the corresponding KNOWN-FINDING line on every run. -/

/-- a node with a service of two interfaces, and a top-level service -/
def w2 : Topo := ⟨[⟨.networkNode, .user "n", "n1", "VM", []⟩, ⟨.networkService, .user "ns", "n1-ns", "OVS", []⟩,
    ⟨.connectionPoint, .user "f1", "p1", "TrunkPort", []⟩, ⟨.connectionPoint, .user "f2", "p2", "TrunkPort", []⟩,
    ⟨.networkService, .user "s", "s1", "L2Bridge", []⟩],
  [⟨⟨.networkNode, .user "n"⟩, ⟨.networkService, .user "ns"⟩, .has⟩,
   ⟨⟨.networkService, .user "ns"⟩, ⟨.connectionPoint, .user "f1"⟩, .connects⟩,
   ⟨⟨.networkService, .user "ns"⟩, ⟨.connectionPoint, .user "f2"⟩, .connects⟩]⟩

/-- the guards of `CoveredS` are satisfiable by real calls: a covered history from the empty model ... -/
example : ValidS [.addNode .experiment 0 ⟨"n1", none, some "RENC", some "VM", []⟩,
                  .addNode .experiment 1 ⟨"n2", some (.user "x"), some "UKY", some "Server", []⟩,
                  .rename .networkNode (.gen 0) "n3", .setProps (.user "x") [.ok "Site" "RENC"]] Topo.empty := by decide
/-- ... and a covered connect / add_interface / add_link on a model with interfaces; the connect succeeds (7 elements) -/
example : Inv w2 ∧ CoveredS w2 (.connect .experiment 0 (.user "s") [] (.iface (.user "f1") "p1")) ∧
    CoveredS w2 (.nsAddInterface .experiment 0 (.user "s") [] "i9" none (some "TrunkPort") []) ∧
    CoveredS w2 (.addLink .experiment 0 "l1" none (some "L2Path") (some [.iface (.user "f1") "p1", .iface (.user "f2") "p2"]) none []) ∧
    (step (.connect .experiment 0 (.user "s") [] (.iface (.user "f1") "p1")) w2).2.nodes.length = 7 := by decide
/-- ... a covered add_network_service over two interfaces that returns (5 + service + 2 ServicePorts + 2 Links) -/
example : CoveredS w2 (.addService .experiment 0 ⟨"s2", none, some "L2Bridge", none, none, [], [.iface (.user "f1") "p1", .iface (.user "f2") "p2"]⟩) ∧
    (step (.addService .experiment 0 ⟨"s2", none, some "L2Bridge", none, none, [], [.iface (.user "f1") "p1", .iface (.user "f2") "p2"]⟩) w2).2.nodes.length = 10 := by
  decide
/-- ... a covered add_facility / add_switch that return ... -/
example : CoveredS w2 (.addFacility .experiment 0 "fac" none (some "RENC") (some "VLAN") [] none []) ∧
    CoveredS w2 (.addSwitch .substrate 0 "sw1" (some (.user "sw")) (some "RENC") (some "P4") [] [("p1", "-int1", []), ("p2", "-int2", [])]) ∧
    (step (.addSwitch .substrate 0 "sw1" (some (.user "sw")) (some "RENC") (some "P4") [] [("p1", "-int1", []), ("p2", "-int2", [])]) w2).2.nodes.length = 9 := by
  decide
/-- ... a history over the larger alphabet with removals satisfies `ValidD` ... -/
example : ValidD [.addNode .experiment 0 ⟨"n1", none, some "RENC", some "VM", []⟩,
                  .addComponent .experiment 1 (.gen 0) ⟨"nic1", none, some "SmartNIC", some "ConnectX-6", none, none, none, []⟩,
                  .addService .experiment 5 ⟨"s1", none, some "L2Bridge", none, none, [], [.iface (.gen 2) "nic1-p1"]⟩,
                  .removeLink "n1-nic1-p1-link", .removeComponent (.gen 0) "nic1", .removeNode "n1"] Topo.empty := by decide
/-- ... and a covered add_component that expands to a component, its service and two interfaces (9 elements) -/
example : CoveredS w2 (.addComponent .experiment 0 (.user "n") ⟨"nic1", none, some "SmartNIC", some "ConnectX-6", none, none, none, []⟩) ∧
    (step (.addComponent .experiment 0 (.user "n") ⟨"nic1", none, some "SmartNIC", some "ConnectX-6", none, none, none, []⟩) w2).2.nodes.length = 9 ∧
    Inv (step (.addComponent .experiment 0 (.user "n") ⟨"nic1", none, some "SmartNIC", some "ConnectX-6", none, none, none, []⟩) w2).2 := by
  decide

def w0 : Topo := ⟨[⟨.networkNode, .user "a", "n1", "VM", []⟩, ⟨.networkNode, .user "b", "n2", "VM", []⟩], []⟩

/-- known finding `C07:names-unique:NetworkNode:rename`: full statement `Inv s → Inv (rename … s).2` fails -/
theorem rename_names_counterexample : Inv w0 ∧ ¬ NodeNames (rename .networkNode (.user "b") "n1" w0).2 := by decide

def w1 : Topo := ⟨[⟨.networkService, .user "s", "s1", "L2Bridge", []⟩, ⟨.connectionPoint, .user "i1", "ii", "TrunkPort", []⟩],
  [⟨⟨.networkService, .user "s"⟩, ⟨.connectionPoint, .user "i1"⟩, .connects⟩]⟩

/-- known finding `C07:names-unique:ConnectionPoint-in-NetworkService:ns_add_interface` (the handle cache is not extended) -/
theorem nsAddInterface_names_counterexample :
    Inv w1 ∧ ¬ CpNames (nsAddInterface .experiment 0 (.user "s") [] "ii" none (some "TrunkPort") [] w1).2 := by decide

/-- known finding `C07:serviceport-one-peer:…:ns_add_interface`: the guard `NotSp` of `CoveredS` is needed -/
theorem nsAddInterface_sp_counterexample :
    Inv w1 ∧ ¬ SpPeer (nsAddInterface .experiment 0 (.user "s") [] "sp" none (some "ServicePort") [] w1).2 := by decide

def w3 : Topo := (connectInterface .experiment 0 (.user "s") [] (.iface (.user "f1") "p1") w2).2

set_option maxRecDepth 8000 in
/-- known finding `C07:serviceport-one-peer:…:add_link`: the guard `NoSpIn` of `CoveredS` is needed -/
theorem addLink_sp_counterexample : Inv w3 ∧ ¬ SpPeer (addLink .experiment 2 "lx" none (some "Patch")
    (some [.iface (.gen 0) "n1-p1", .iface (.user "f2") "p2"]) none [] w3).2 := by decide

/-- a node with two services that each have an interface called `ii` -/
def w4 : Topo := ⟨[⟨.networkNode, .user "n", "n1", "VM", []⟩, ⟨.networkService, .user "na", "nsa", "OVS", []⟩,
    ⟨.networkService, .user "nb", "nsb", "OVS", []⟩,
    ⟨.connectionPoint, .user "f1", "ii", "TrunkPort", []⟩, ⟨.connectionPoint, .user "f2", "ii", "TrunkPort", []⟩,
    ⟨.networkService, .user "s", "s1", "L2Bridge", []⟩],
  [⟨⟨.networkNode, .user "n"⟩, ⟨.networkService, .user "na"⟩, .has⟩, ⟨⟨.networkNode, .user "n"⟩, ⟨.networkService, .user "nb"⟩, .has⟩,
   ⟨⟨.networkService, .user "na"⟩, ⟨.connectionPoint, .user "f1"⟩, .connects⟩,
   ⟨⟨.networkService, .user "nb"⟩, ⟨.connectionPoint, .user "f2"⟩, .connects⟩]⟩
def w5 : Topo := (connectInterface .experiment 0 (.user "s") [] (.iface (.user "f1") "ii") w4).2

set_option maxRecDepth 8000 in
/-- known findings `C07:names-unique:Link:connect` and `…ConnectionPoint-in-NetworkService:connect`: the derived names collide -/
theorem connect_names_counterexample : Inv w4 ∧ Inv w5 ∧
    ¬ LinkNames (connectInterface .experiment 2 (.user "s") [] (.iface (.user "f2") "ii") w5).2 ∧
    ¬ CpNames (connectInterface .experiment 2 (.user "s") [] (.iface (.user "f2") "ii") w5).2 := by decide

/-- known finding `C07:names-unique:NetworkNode:set_props`: the generic property setter writes `Name` without a uniqueness guard
(full statement `Inv s → Inv (setPropsNT … s).2` fails) -/
theorem setName_names_counterexample : Inv w0 ∧ ¬ NodeNames (setPropsNT (.user "b") [.ok "Name" "n1"] w0).2 := by decide

/-- known finding `C07:serviceport-one-peer:…:set_props`: … and `Type` without a look at the element's links: a port retyped
to ServicePort has no peer -/
theorem setType_sp_counterexample : Inv w1 ∧ ¬ SpPeer (setPropsNT (.user "i1") [.ok "Type" "ServicePort"] w1).2 := by decide

set_option maxRecDepth 8000 in
/-- known finding `C07:names-unique:ConnectionPoint-in-NetworkService:peer`: a service peered with itself gets two ServicePorts of
one name (the structural invariant `InvS` survives: `inv_xop`) -/
theorem peer_self_names_counterexample : Inv w1 ∧ CoveredSX w1 (.peer .experiment 0 (.user "s") "s1" [] (some ⟨.user "s", "s1", []⟩) []) ∧
    InvS (peer .experiment 0 (.user "s") "s1" [] (some ⟨.user "s", "s1", []⟩) [] w1).2 ∧
    ¬ CpNames (peer .experiment 0 (.user "s") "s1" [] (some ⟨.user "s", "s1", []⟩) [] w1).2 := by decide

/-- keywords other than `name` / `type` (what `Topo.setProps` models, and what `inv_setProps` is about) do what `setProps` does -/
theorem setPropsNT_eq_setProps (nid : Nid) (k v : String) (hk : k ≠ "Name") (ht : k ≠ "Type") (s : Topo) :
    (setPropsNT nid [.ok k v] s).2 = (setProps nid [.ok k v] s).2 := by
  simp only [setPropsNT, setProps, updateProps, validateProps, ofExcept_apply, bind_apply', modify_apply]
  rcases cases_run (findNode nid) s with ⟨n, s', h⟩ | ⟨e, s', h⟩
  · simp [h, applyKw, dictUpdate, hk, ht]
  · simp [h]

/-! ### Topology-level services against ALL services (owned ones, whose names the library derives, included)

`Topology.network_services` is keyed by name over every service and `remove_network_service(name)` looks the name up over
every service, so a topology-level service must not share its name with any other service.  The code guards one direction. -/

/-- the names of ALL network services of the model, owned or not -/
def svcNamesAll (s : Topo) : List String := (s.nodes.filter (fun n => n.cls == .networkService)).map (·.name)

/-- a topology-level service has a name no OTHER service of the model carries -/
def TopSvcWide (s : Topo) : Prop :=
  ∀ n ∈ s.nodes, n.cls = .networkService → hasParent s n.ref = false →
    ∀ m ∈ s.nodes, m.cls = .networkService → m.ref ≠ n.ref → m.name ≠ n.name

instance (s : Topo) : Decidable (TopSvcWide s) := by unfold TopSvcWide; infer_instance

/-- the guarded direction, for every state and every argument list: a topology-level service creation that returns was given
a name that NO service of the model carried - not a topology-level one, not one owned by a node or a component
(`check_node_unique` over the whole class in `add_network_service_sliver`) -/
theorem svcNew_top_name_unused (fl : Flavour) (c : Nat) (a : SvcArgs) (s s' : Topo) (r : Nid × Cache)
    (hok : svcNew fl c none a s = (.ok r, s')) : a.name ∉ svcNamesAll s := by
  unfold svcNew at hok
  rcases hp : pick a.nid c with ⟨id, c1⟩
  rw [hp] at hok
  simp only [] at hok
  obtain ⟨t, _, hok⟩ := ro_ok_inv (readOnly_need _ _) hok
  obtain ⟨_, _, hok⟩ := ro_ok_inv (readOnly_guard _ _) hok
  obtain ⟨layer, _, hok⟩ := ro_ok_inv (readOnly_need _ _) hok
  obtain ⟨kw, _, hok⟩ := ro_ok_inv (readOnly_ofExcept _) hok
  simp only [Option.isNone, if_true] at hok
  obtain ⟨dup, hdup, hok⟩ := ro_ok_inv (readOnly_read _) hok
  obtain ⟨_, hg, hok⟩ := ro_ok_inv (readOnly_guard _ _) hok
  have hd : dup = false := by simpa using guard_ok hg
  simp only [read_apply, Prod.mk.injEq, Except.ok.injEq, and_true] at hdup
  rw [hd] at hdup
  intro hmem
  simp only [svcNamesAll, List.mem_map, List.mem_filter] at hmem
  obtain ⟨m, ⟨hm, hmc⟩, hmn⟩ := hmem
  have := List.any_eq_false.mp hdup m hm
  simp [hmn] at this
  simp [this] at hmc

/-- `Topology.add_network_service` -/
theorem addService_name_unused (fl : Flavour) (c : Nat) (a : SvcArgs) (s s' : Topo) (r : Nid × Cache)
    (hok : addService fl c a s = (.ok r, s')) : a.name ∉ svcNamesAll s :=
  svcNew_top_name_unused fl c a s s' r hok

/-- `ExperimentTopology.add_port_mirror_service` -/
theorem addPortMirror_name_unused (fl : Flavour) (c : Nat) (a : SvcArgs) (toOk fromOk : Bool) (s s' : Topo) (r : Nid × Cache)
    (hok : addPortMirror fl c a toOk fromOk s = (.ok r, s')) : a.name ∉ svcNamesAll s := by
  unfold addPortMirror at hok
  obtain ⟨_, _, hok⟩ := ro_ok_inv (readOnly_guard _ _) hok
  obtain ⟨_, _, hok⟩ := ro_ok_inv (readOnly_guard _ _) hok
  exact svcNew_top_name_unused fl c a s s' r hok

/-- non-vacuity: the call returns on a state that holds a service -/
example : ∃ r s', addService .experiment 0 ⟨"s2", none, some "L2Bridge", none, none, [], []⟩ w1 = (.ok r, s') := ⟨_, _, rfl⟩

def w6 : Topo := ⟨[⟨.networkNode, .user "a", "n1", "VM", []⟩, ⟨.networkService, .user "t", "nsa", "L2Bridge", []⟩], []⟩

/-- known finding `C07:names-unique:NetworkService-topology-wide:node_add_service` (and `add_switch` / `add_facility` /
`add_component`, which reach the same constructor with a derived name): the other direction is not guarded - full statement
`TopSvcWide s → TopSvcWide (nodeAddService … s).2` fails -/
theorem nodeAddService_topwide_counterexample :
    Inv w6 ∧ TopSvcWide w6 ∧ "nsa" ∈ svcNamesAll w6 ∧
    (nodeAddService .experiment 0 (.user "a") ⟨"nsa", none, some "OVS", none, none, [], []⟩ w6).1.toBool = true ∧
    ¬ TopSvcWide (nodeAddService .experiment 0 (.user "a") ⟨"nsa", none, some "OVS", none, none, [], []⟩ w6).2 := by decide

/-! ## the catalogue sweep: every component the catalogue knows, attached, connected and removed -/

inductive SweepConn where | port | child | mirror
  deriving DecidableEq, Repr
inductive SweepRoute where | removeComponent | removeNode | prune
  deriving DecidableEq, Repr

def sweepConns : List SweepConn := [.port, .child, .mirror]
def sweepRoutes : List SweepRoute := [.removeComponent, .removeNode, .prune]

/-- does the connection kind apply to the entry (a sub-interface needs a second, dedicated port) -/
def SweepConn.applies (e : Rules.CatEntry) : SweepConn → Bool
  | .child => match e.ifaces with | _ :: i :: _ => i.itype == "DedicatedPort" | _ => false
  | _ => !e.ifaces.isEmpty

/-- two nodes, a SharedNIC on the second, the entry (under `name`: its Model or one of AlsoModels) on the first, connected -/
def sweepPre (e : Rules.CatEntry) (name : String) (k : SweepConn) : List Call :=
  let ifn := (["d0", "d1", "d2", "d3"].take e.ifaces.length).map Nid.user
  let p1 := match e.ifaces with | i :: _ => i.port | [] => ""
  [ .t (.addNode .experiment 0 ⟨"n1", some (.user "n1"), some "RENC", some "VM", []⟩),
    .t (.addNode .experiment 0 ⟨"n2", some (.user "n2"), some "UKY", some "VM", []⟩),
    .t (.addComponent .experiment 0 (.user "n2")
      ⟨"nic0", some (.user "c0"), some "SharedNIC", some "ConnectX-6", some (.user "c0ns"), some [.user "c0i"], some 1, []⟩),
    .t (.addComponent .experiment 0 (.user "n1")
      ⟨"dev1", some (.user "c1"), some e.ctype, some name, some (.user "c1ns"), some ifn, some ifn.length, []⟩) ] ++
  match k with
  | .port => [ .t (.addService .experiment 0 ⟨"br1", some (.user "br1"), some "L2Bridge", none, none, [],
                  [.iface (.user "d0") ("dev1-" ++ p1), .iface (.user "c0i") "nic0-p1"]⟩) ]
  | .child => [ .x (.addChildInterface .experiment 0 (.user "d1") [] "sub1" (some (.user "sub1")) (some "100") []
                  [.ok "Labels" "{\"vlan\": \"100\"}"]),
                .t (.addService .experiment 0 ⟨"br2", some (.user "br2"), some "L2Bridge", none, none, [], [.iface (.user "sub1") "sub1"]⟩) ]
  | .mirror => [ .x (.addPortMirror .experiment 0 ⟨"pm1", some (.user "pm1"), some "PortMirror", none, none,
                  [.ok "MirrorPort" "nic0-p1", .ok "MirrorDirection" "Both"], [.iface (.user "d0") ("dev1-" ++ p1)]⟩ true true) ]

def SweepRoute.call : SweepRoute → Call
  | .removeComponent => .t (.removeComponent (.user "n1") "dev1")
  | .removeNode => .t (.removeNode "n1")
  | .prune => .x (.prune [] [(.user "c1", "dev1", .user "n1")] [] [])

def nSp (s : Topo) : Nat := (s.nodes.filter (fun n => n.cls == .connectionPoint && n.typ == "ServicePort")).length

/-- the component's own elements: itself, its service, its ports, the sub-interface -/
def ofDev (n : GNode) : Bool := [Nid.user "c1", .user "c1ns", .user "d0", .user "d1", .user "d2", .user "d3", .user "sub1"].contains n.nid

/-- before the teardown the model satisfies InvS and holds the ServicePort of the connection; after it InvS holds, exactly that
ServicePort is gone (with `port`, the other end's stays) and nothing of the component is left -/
def sweepOk (e : Rules.CatEntry) (name : String) (k : SweepConn) (r : SweepRoute) : Bool :=
  let s1 := runCalls (sweepPre e name k) Topo.empty
  let s2 := stepCall r.call s1
  decide (InvS s1) && s1.nodes.any ofDev && nSp s1 == (if k == .port then 2 else 1)
  && decide (InvS s2) && nSp s2 + 1 == nSp s1 && !(s2.nodes.any ofDev)

def sweepAll : Bool :=
  Rules.catalog.all (fun e => (e.model :: e.also).all (fun name => sweepConns.all (fun k => !k.applies e ||
    sweepRoutes.all (fun r => sweepOk e name k r))))

/-- **Every component of the catalogue, under every name it can be ordered by, connected in every way that applies to it and removed
through every route**: in the model the state before and after the teardown satisfies `InvS` ("exactly one" owner / parent / peer),
exactly the ServicePort of the connection goes and nothing of the component is left.  `decide` over the complete regenerated
catalogue (`Generated/Rules.lean`); the model's teardown does not look at the component's Type - that the code's does not
either is `teardown_clean_every_catalogue_entry` below (behaviour probe) and the correspondence on the harness's catalogue sweep. -/
theorem sweepAll_true : sweepAll = true := by decide +kernel

theorem catalogue_teardown_keeps_invS (e : Rules.CatEntry) (he : e ∈ Rules.catalog) (name : String) (hn : name ∈ e.model :: e.also)
    (k : SweepConn) (hk : k.applies e = true) (r : SweepRoute) :
    let s1 := runCalls (sweepPre e name k) Topo.empty
    InvS s1 ∧ InvS (stepCall r.call s1) ∧ nSp (stepCall r.call s1) + 1 = nSp s1 ∧ (stepCall r.call s1).nodes.any ofDev = false := by
  have h := sweepAll_true
  simp only [sweepAll, List.all_eq_true] at h
  have hk' : k ∈ sweepConns := by cases k <;> decide
  have hr' : r ∈ sweepRoutes := by cases r <;> decide
  have h2 := h e he name hn k hk'
  simp only [hk, Bool.not_true, Bool.false_or, List.all_eq_true] at h2
  have h3 := h2 r hr'
  simp only [sweepOk, Bool.and_eq_true, decide_eq_true_eq, beq_iff_eq, Bool.not_eq_true'] at h3
  exact ⟨h3.1.1.1.1.1, h3.1.1.2, h3.1.2, h3.2⟩

/-- non-vacuity: the rare port-bearing type is among the entries, with a dedicated second port -/
example : ∃ e ∈ Rules.catalog, e.ctype = "FPGA" ∧ SweepConn.child.applies e = true ∧ SweepConn.mirror.applies e = true := by decide

/-- the behaviour probe of the implementation (gen/detachprobe.py, regenerated every run): every row is clean, and there is a row
for every entry of the catalogue table of gen/rules.py that has ports, under every name, for every connection kind that applies
and every route of the API (remove_component, remove_storage, remove_node, prune) -/
def probeConn : SweepConn → String
  | .port => "port" | .child => "child" | .mirror => "mirror"

def probeCovers : Bool :=
  DetachProbe.table.all (fun t => t.clean) &&
  Rules.catalog.all (fun e => (e.model :: e.also).all (fun name => sweepConns.all (fun k => !k.applies e ||
    DetachProbe.routes.all (fun r => DetachProbe.table.any (fun t =>
      t.route == r && t.conn == probeConn k && t.ctype == e.ctype && t.name == name && t.model == e.model)))))

theorem teardown_clean_every_catalogue_entry : probeCovers = true ∧ DetachProbe.routes.length = 4 := by decide +kernel

end FimVerif.C07
