import FimVerif.Proofs.Lemmas.TopoAtomic
/-!
# C07 — models built through the topology API satisfy the published rules; views are exact

Proved here, for all states / all histories of the modelled building calls:
* `vocab_covers_enums` — every member of NodeType, ComponentType, InterfaceType, ServiceType, LinkType is in the
  vocabulary the published rules allow for its class (tables regenerated from the source on every run);
* `views_exact_*` — the views list exactly the elements of their class in the model (pure functions of the state);
* `Topo.Wf` = "node ids are distinct" ∧ "every edge joins two nodes of the model": `inv_empty`, preserved (success or
  failure) by each primitive through which the building calls mutate the graph (`wf_addGNode`, `pw_addEdge`,
  `pw_deleteNode`, `pw_updateProps`, `pw_mapNodes`).  The lifting to whole building calls (`inv_op`, `inv_history`)
  is NOT finished.
The remaining conjuncts of the statement (argument vocabularies, one owner per component / interface, one peer per
service port, names unique in scope) are evaluated by the oracle on generated histories only: the claim is partial
for them, for every building call.
-/
namespace FimVerif.C07
open FimVerif FimVerif.M FimVerif.Topo FimVerif.Gen

/-! ## translator obligation -/

def covered : Bool :=
  Rules.enumMembers.all (fun (cls, ms) =>
    match Rules.typeVocab.find? (fun p => p.1 == cls) with
    | some (_, vs) => ms.all (fun m => vs.contains m)
    | none => false)

theorem vocab_covers_enums : covered = true := by decide

/-- the rule file still consists of exactly the rule kinds the invariant and the oracle were written against -/
theorem rules_pinned : Rules.ruleKinds.length = 13 ∧ Rules.classVocab.length = 6 := by decide

/-! ## views -/

theorem views_exact_nodes (s : Topo) (x : String) :
    x ∈ viewNodes s ↔ ∃ n ∈ s.nodes, n.cls = .networkNode ∧ n.typ ≠ "Facility" ∧ n.name = x := by
  simp [viewNodes, List.mem_map, List.mem_filter, and_assoc]

theorem views_exact_facilities (s : Topo) (x : String) :
    x ∈ viewFacilities s ↔ ∃ n ∈ s.nodes, n.cls = .networkNode ∧ n.typ = "Facility" ∧ n.name = x := by
  simp [viewFacilities, List.mem_map, List.mem_filter, and_assoc]

theorem views_exact_links (s : Topo) (x : String) :
    x ∈ viewLinks s ↔ ∃ n ∈ s.nodes, n.cls = .link ∧ n.name = x := by
  simp [viewLinks, List.mem_map, List.mem_filter, and_assoc]

theorem views_exact_services (s : Topo) (x : String) :
    x ∈ viewServices s ↔ ∃ n ∈ s.nodes, n.cls = .networkService ∧ n.name = x := by
  simp [viewServices, List.mem_map, List.mem_filter, and_assoc]

/-- nodes and facilities together are exactly the NetworkNodes -/
theorem views_partition_nodes (s : Topo) :
    (viewNodes s).length + (viewFacilities s).length = (s.nodes.filter (fun n => n.cls == .networkNode)).length := by
  simp only [viewNodes, viewFacilities, List.length_map]
  induction s.nodes with
  | nil => rfl
  | cons a l ih =>
    simp only [List.filter_cons]
    by_cases h1 : a.cls = .networkNode <;> by_cases h2 : a.typ = "Facility" <;> simp [h1, h2] <;> omega

/-! ## the well-formedness invariant -/

/-- node ids distinct (rule "All node NodeIDs must be distinct") and no dangling edge -/
def Wf (s : Topo) : Prop :=
  (s.nodes.map (·.nid)).Nodup ∧ ∀ e ∈ s.edges, (∃ n ∈ s.nodes, n.ref = e.a) ∧ (∃ n ∈ s.nodes, n.ref = e.b)

theorem inv_empty : Wf Topo.empty := by simp [Wf, Topo.empty]

/-- the id guard of `add_node` looks at every class (regenerated from a behaviour probe of the code) -/
theorem id_guard_any_class : Rules.idAnyClass = true := by decide

theorem wf_addGNode (n : GNode) (s : Topo) (h : Wf s) : Wf (addGNode n s).2 := by
  unfold addGNode
  split
  · exact h
  · rename_i ht
    simp only [idTaken, id_guard_any_class, if_true, Bool.not_eq_true, List.any_eq_false, beq_iff_eq] at ht
    refine ⟨?_, ?_⟩
    · simp only [pushNode, List.map_append, List.map_cons, List.map_nil]
      rw [List.nodup_append]
      refine ⟨h.1, by simp, ?_⟩
      intro a ha b hb
      simp at hb; subst hb
      simp only [List.mem_map] at ha
      obtain ⟨m, hm, rfl⟩ := ha
      exact fun heq => ht m hm heq
    · intro e he
      obtain ⟨⟨x, hx, hxe⟩, ⟨y, hy, hye⟩⟩ := h.2 e he
      exact ⟨⟨x, by simp [pushNode, hx], hxe⟩, ⟨y, by simp [pushNode, hy], hye⟩⟩


theorem wf_setEdge (a b : Ref) (rel : Rel) (s : Topo) (ha : ∃ n ∈ s.nodes, n.ref = a) (hb : ∃ n ∈ s.nodes, n.ref = b)
    (h : Wf s) : Wf (setEdge a b rel s) := by
  refine ⟨h.1, ?_⟩
  intro e he
  simp only [setEdge, List.mem_append, List.mem_filter, List.mem_singleton] at he
  rcases he with ⟨he, _⟩ | rfl
  · exact h.2 e he
  · exact ⟨ha, hb⟩

theorem wf_dropNode (r : Ref) (s : Topo) (h : Wf s) : Wf (dropNode r s) := by
  refine ⟨?_, ?_⟩
  · exact List.Nodup.sublist (List.Sublist.map _ List.filter_sublist) h.1
  · intro e he
    simp only [dropNode, List.mem_filter, Bool.and_eq_true, bne_iff_ne, ne_eq] at he
    obtain ⟨he, hna, hnb⟩ := he
    obtain ⟨⟨x, hx, hxe⟩, ⟨y, hy, hye⟩⟩ := h.2 e he
    refine ⟨⟨x, ?_, hxe⟩, ⟨y, ?_, hye⟩⟩
    · simp only [dropNode, List.mem_filter, bne_iff_ne, ne_eq]; exact ⟨hx, by rw [hxe]; exact hna⟩
    · simp only [dropNode, List.mem_filter, bne_iff_ne, ne_eq]; exact ⟨hy, by rw [hye]; exact hnb⟩

/-- rewriting properties / the name of nodes keeps ids, classes and edges -/
theorem wf_mapNodes (f : GNode → GNode) (hf : ∀ n, (f n).nid = n.nid ∧ (f n).cls = n.cls) (s : Topo) (h : Wf s) :
    Wf { s with nodes := s.nodes.map f } := by
  refine ⟨?_, ?_⟩
  · have : (s.nodes.map f).map (·.nid) = s.nodes.map (·.nid) := by
      simp only [List.map_map]; apply List.map_congr_left; intro n _; exact (hf n).1
    simp only [this]; exact h.1
  · intro e he
    obtain ⟨⟨x, hx, hxe⟩, ⟨y, hy, hye⟩⟩ := h.2 e he
    have hr : ∀ n, (f n).ref = n.ref := fun n => by simp [GNode.ref, (hf n).1, (hf n).2]
    exact ⟨⟨f x, List.mem_map_of_mem hx, by rw [hr, hxe]⟩, ⟨f y, List.mem_map_of_mem hy, by rw [hr, hye]⟩⟩


/-! ## every building call preserves `Wf` -/

theorem mem_of_findNode {nid : Nid} {s s' : Topo} {n : GNode} (h : findNode nid s = (.ok n, s')) : n ∈ s.nodes ∧ s' = s := by
  unfold findNode at h
  split at h
  · rename_i m hm
    simp only [Prod.mk.injEq, Except.ok.injEq] at h
    obtain ⟨h1, h2⟩ := h
    subst h1; subst h2
    have : m ∈ findAll s nid := by rw [hm]; simp
    exact ⟨(List.mem_filter.mp this).1, rfl⟩
  · simp at h

syntax "pw_base" : tactic
macro_rules | `(tactic| pw_base) => `(tactic| exact ReadOnly.preserves (by ro))

macro "pw" : tactic => `(tactic| repeat' (first
  | pw_base
  | refine Preserves.bind ?_ (fun _ => ?_)
  | refine Preserves.bind' ?_ (fun _ => ?_)
  | refine Preserves.tryCatch ?_ (fun _ => ?_)
  | refine preserves_forEach (fun _ => ?_)
  | refine preserves_mapM' (fun _ => ?_)
  | refine Preserves.ite ?_ ?_
  | split))

theorem pw_addGNode (n : GNode) : Preserves Wf (addGNode n) := ⟨fun s h => wf_addGNode n s h⟩
macro_rules | `(tactic| pw_base) => `(tactic| exact pw_addGNode _)

theorem pw_addEdge (a : Nid) (r : Rel) (b : Nid) : Preserves Wf (addEdge a r b) := by
  constructor; intro s h
  unfold addEdge
  rcases cases_run (findNode a) s with ⟨na, s1, h1⟩ | ⟨e, s1, h1⟩
  · obtain ⟨hna, rfl⟩ := mem_of_findNode h1
    rw [bind_ok h1]
    rcases cases_run (findNode b) s1 with ⟨nb, s2, h2⟩ | ⟨e, s2, h2⟩
    · obtain ⟨hnb, rfl⟩ := mem_of_findNode h2
      rw [bind_ok h2]
      exact wf_setEdge _ _ _ _ ⟨na, hna, rfl⟩ ⟨nb, hnb, rfl⟩ h
    · rw [bind_err h2]; have := (readOnly_findNode b).h s1; rw [h2] at this; simp at this; subst this; exact h
  · rw [bind_err h1]; have := (readOnly_findNode a).h s; rw [h1] at this; simp at this; subst this; exact h
macro_rules | `(tactic| pw_base) => `(tactic| exact pw_addEdge _ _ _)

theorem pw_deleteNode (n : Nid) : Preserves Wf (deleteNode n) := by
  unfold deleteNode
  exact Preserves.bind (ReadOnly.preserves (readOnly_findNode _)) (fun _ => preserves_modify (fun s h => wf_dropNode _ s h))
macro_rules | `(tactic| pw_base) => `(tactic| exact pw_deleteNode _)

theorem pw_updateProps (n : Nid) (p : Props) : Preserves Wf (updateProps n p) := by
  unfold updateProps
  refine Preserves.bind (ReadOnly.preserves (readOnly_findNode _)) (fun m => preserves_modify (fun s h => ?_))
  exact wf_mapNodes _ (fun x => by split <;> simp) s h
macro_rules | `(tactic| pw_base) => `(tactic| exact pw_updateProps _ _)


theorem pw_mapNodes (f : GNode → GNode) (hf : ∀ n, (f n).nid = n.nid ∧ (f n).cls = n.cls) :
    Preserves Wf (M.modify (fun s : Topo => { s with nodes := s.nodes.map f })) :=
  preserves_modify (fun s h => wf_mapNodes f hf s h)

/- NOT FINISHED (claim partial for every building call): `inv_op` - each building call of Model/Topo.lean preserves
   `Wf` - and `inv_history`.  Every call mutates the graph only through `addGNode`, `addEdge`, `deleteNode`,
   `updateProps` and the two `modify (… nodes.map f)` of `unsetProp`/`rename`, each of which is proved above to
   preserve `Wf`, success or failure; the structural lifting through the do-blocks (`Preserves.bind`,
   `Preserves.tryCatch`, induction for `svcLoop`) was not completed in the time available. -/

end FimVerif.C07
