import FimVerif.Proofs.Lemmas.C14Algebra
import FimVerif.Proofs.Lemmas.C14Unmerge
import FimVerif.Proofs.Lemmas.C14Reach
/-!
# C14 - combined broker model: merge is order-independent, unmerge is its inverse, rollback restores a snapshot

Property theorems only (helper lemmas: `Proofs/Lemmas/C14*.lean`).  All statements are about
`FimVerif.Cbm.merge / unmerge / snapshot / rollback` (Model/Cbm.lean), for **all** graphs; `Graph.WF` / `Adm.WF`
(node ids once, edges between nodes of the graph, one edge per unordered pair) are what the NetworkX store
guarantees for every graph it holds.
-/
namespace FimVerif.C14
open FimVerif.Cbm

/-! concrete models used for the non-vacuity examples and the counterexamples -/
def exSite : Adm := ⟨"adm-site", ⟨[⟨"sw", [("Class", "NetworkNode")], [], .absent, .dict [("primary", "cap")]⟩,
                                    ⟨"port", [("StitchNode", "true"), ("Model", "site")], [], .absent, .absent⟩],
                                   [⟨"sw", "port", [("Class", "connects")]⟩]⟩⟩
def exNet : Adm := ⟨"adm-net", ⟨[⟨"port", [("StitchNode", "false"), ("Model", "net")], [], .dict [("d1", "lab")], .absent⟩,
                                  ⟨"link", [("Class", "Link")], [], .absent, .absent⟩],
                                 [⟨"port", "link", [("Class", "connects")]⟩]⟩⟩

theorem exSite_WF : exSite.WF := ⟨by decide, by decide, by decide⟩
theorem exNet_WF : exNet.WF := ⟨by decide, by decide, by decide⟩

/-! ## merge gives the union, shared elements once -/

/-- Node ids and connections of the merged model are the union of the two; a shared id appears once and a
connection present in both appears once. -/
theorem merge_union {c : Graph} {a : Adm} {g : Graph} (hc : c.WF) (ha : a.WF) (h : merge c a = (none, g)) :
    (∀ i, i ∈ g.ids ↔ i ∈ c.ids ∨ i ∈ a.g.ids) ∧ g.ids.Nodup ∧
    (∀ x y, g.hasEdge x y = (c.hasEdge x y || a.g.hasEdge x y)) ∧ g.EdgesUnique ∧ g.Closed := by
  have hs := merge_step hc.closed h
  have hw := merge_WF hc ha h
  refine ⟨?_, hw.nodup, hs.hasEdge, hw.edges, hw.closed⟩
  intro i
  rw [← has_iff, ← has_iff, ← has_iff, hs.has]
  simp

example : (merge (merge Graph.empty exSite).2 exNet).1 = none ∧ (merge Graph.empty exSite).1 = none := by decide

/-! ## provenance -/

/-- After any history of successful merges from the empty model every element records exactly the models that
contributed it (in merge order), and the elements are exactly those with a contributor. -/
theorem provenance_exact {as : List Adm} {g : Graph} (hw : ∀ a ∈ as, a.WF) (h : mergeAll Graph.empty as = some g) (i : String) :
    g.provOf i = contributors as i ∧ (g.has i = true ↔ contributors as i ≠ []) := by
  have ho := mergeAll_obs Graph.empty_WF hw h i
  refine ⟨by simpa [Graph.provOf, Graph.node?, Graph.empty] using ho.1, ?_⟩
  rw [ho.2.1]
  simp [Graph.has, Graph.ids, Graph.empty, contributors, List.filter_eq_nil_iff]

example : mergeAll Graph.empty [exSite, exNet] ≠ none ∧ contributors [exSite, exNet] "port" = ["adm-site", "adm-net"] := by decide

/-! ## delegations are keyed by the contributing model's id -/

/-- Every delegation in a model built by merges is a single entry keyed by the graph id of a merged model that
carried that delegation (with the same details) on that element; and every delegation a merged model carried is there
under that model's id. -/
theorem delegations_keyed_by_adm {as : List Adm} {g : Graph} (hw : ∀ a ∈ as, a.WF) (h : mergeAll Graph.empty as = some g)
    (i : String) (l : List (String × String)) :
    (g.ldelOf i = .dict l → ∃ a ∈ as, ∃ k d, a.g.ldelOf i = .dict [(k, d)] ∧ l = [(a.id, d)]) ∧
    (g.cdelOf i = .dict l → ∃ a ∈ as, ∃ k d, a.g.cdelOf i = .dict [(k, d)] ∧ l = [(a.id, d)]) := by
  have ho := mergeAll_obs Graph.empty_WF hw h i
  constructor
  · intro hl
    rcases ho.2.2.1 l hl with h' | h'
    · simp [Graph.ldelOf, Graph.node?, Graph.empty] at h'
    · exact h'
  · intro hl
    rcases ho.2.2.2.1 l hl with h' | h'
    · simp [Graph.cdelOf, Graph.node?, Graph.empty] at h'
    · exact h'

/-- one step: what the merged model holds on an element is the combined model's delegation if it has one, otherwise
the merged model's re-keyed by its graph id; never both (the merge raises). -/
theorem delegations_step {c : Graph} {a : Adm} {g : Graph} (hc : c.WF) (h : merge c a = (none, g)) (i : String) :
    g.ldelOf i = (c.ldelOf i).take ((a.g.ldelOf i).rk a.id) ∧ g.cdelOf i = (c.cdelOf i).take ((a.g.cdelOf i).rk a.id) ∧
    ((c.ldelOf i).live && ((a.g.ldelOf i).rk a.id).live) = false ∧
    ((c.cdelOf i).live && ((a.g.cdelOf i).rk a.id).live) = false :=
  let hs := merge_step hc.closed h
  ⟨hs.ldel i, hs.cdel i, hs.lnoconf i, hs.cnoconf i⟩

/-! ## order of merging -/

/-- `merge (merge c a) b ≈ merge (merge c b) a`: same elements, same connections, same provenance sets, same
delegations, and the same properties for every element and connection that is not contributed by both `a` and `b`
while absent from `c`.  What is missing for full equality: the remaining properties of elements / connections shared
by `a` and `b` only - see `merge_comm_counterexample`. -/
theorem merge_comm_partial {c : Graph} {a b : Adm} {g1 g1' g2 g2' : Graph} (hc : c.WF) (ha : a.WF) (hb : b.WF)
    (h1 : merge c a = (none, g1)) (h1' : merge g1 b = (none, g1'))
    (h2 : merge c b = (none, g2)) (h2' : merge g2 a = (none, g2')) :
    (∀ i, g1'.has i = g2'.has i) ∧
    (∀ x y, g1'.hasEdge x y = g2'.hasEdge x y) ∧
    (∀ i, (g1'.provOf i).Perm (g2'.provOf i)) ∧
    (∀ i, g1'.ldelOf i = g2'.ldelOf i ∧ g1'.cdelOf i = g2'.cdelOf i) ∧
    (∀ i, (c.has i = true ∨ ¬(a.g.has i = true ∧ b.g.has i = true)) → g1'.propsOf i = g2'.propsOf i) ∧
    (∀ x y, (c.hasEdge x y = true ∨ ¬(a.g.hasEdge x y = true ∧ b.g.hasEdge x y = true)) →
        g1'.edgeData x y = g2'.edgeData x y) := by
  have s1 := merge_step hc.closed h1
  have s1' := merge_step (merge_WF hc ha h1).closed h1'
  have s2 := merge_step hc.closed h2
  have s2' := merge_step (merge_WF hc hb h2).closed h2'
  refine ⟨?_, ?_, ?_, ?_, ?_, ?_⟩
  · intro i
    rw [s1'.has, s1.has, s2'.has, s2.has, Bool.or_assoc, Bool.or_assoc, Bool.or_comm (a.g.has i)]
  · intro x y
    rw [s1'.hasEdge, s1.hasEdge, s2'.hasEdge, s2.hasEdge, Bool.or_assoc, Bool.or_assoc, Bool.or_comm (a.g.hasEdge x y)]
  · intro i
    rw [s1'.prov, s1.prov, s2'.prov, s2.prov, List.append_assoc, List.append_assoc]
    exact List.Perm.append_left _ List.perm_append_comm
  · intro i
    constructor
    · rw [s1'.ldel, s1.ldel, s2'.ldel, s2.ldel]
      have n1 := s1.lnoconf i; have n1' := s1'.lnoconf i; have n2 := s2.lnoconf i; have n2' := s2'.lnoconf i
      rw [s1.ldel] at n1'; rw [s2.ldel] at n2'
      exact Deleg.take_comm _ _ _ n1 n1' n2 n2'
    · rw [s1'.cdel, s1.cdel, s2'.cdel, s2.cdel]
      have n1 := s1.cnoconf i; have n1' := s1'.cnoconf i; have n2 := s2.cnoconf i; have n2' := s2'.cnoconf i
      rw [s1.cdel] at n1'; rw [s2.cdel] at n2'
      exact Deleg.take_comm _ _ _ n1 n1' n2 n2'
  · intro i hi
    rw [s1'.props, s1.props, s2'.props, s2.props]
    apply or_or_comm
    simpa [propsOf_isSome] using hi
  · intro x y hxy
    rw [s1'.edgeData, s1.edgeData, s2'.edgeData, s2.edgeData]
    apply or_or_comm
    simpa [edgeData_isSome] using hxy

/-- non-vacuity: the site and the network model merge in both orders -/
example : (merge Graph.empty exSite).1 = none ∧ (merge (merge Graph.empty exSite).2 exNet).1 = none ∧
    (merge Graph.empty exNet).1 = none ∧ (merge (merge Graph.empty exNet).2 exSite).1 = none := by decide

/-- Full equality fails: the stitch node `port` keeps the properties of whichever model was merged first
(the code's documented "use CBM" policy). -/
theorem merge_comm_counterexample :
    (merge (merge Graph.empty exSite).2 exNet).1 = none ∧ (merge (merge Graph.empty exNet).2 exSite).1 = none ∧
    (merge (merge Graph.empty exSite).2 exNet).2.propsOf "port" = some [("StitchNode", "true"), ("Model", "site")] ∧
    (merge (merge Graph.empty exNet).2 exSite).2.propsOf "port" = some [("StitchNode", "false"), ("Model", "net")] := by
  decide

/-! ## unmerge is the inverse of merge

Full statement (what the property says): `unmerge (merge c a) a.id ≈ c` for every combined model `c` and model `a`
whose merge succeeds, `≈` identifying an emptied delegation with an absent one.  The code needs two guards
(`unmerge_inverse_counterexample_edge`, `unmerge_inverse_counterexample_id`). -/

/-- Guarded inverse: `a`'s graph id is not used in `c`, every element of `c` has a contributor, and every connection
of `a` between two elements of `c` is already in `c`.  Then unmerge succeeds and restores `c` exactly (node order,
properties, provenance, connections and their data), delegations up to `'' = absent`. -/
theorem unmerge_inverse {c : Graph} {a : Adm} {g : Graph} (hc : c.WF) (hm : merge c a = (none, g))
    (hfresh : c.Fresh a.id) (hprov : c.Proved) (hguard : EdgeGuard c a) :
    (unmerge g a.id).1 = none ∧ (unmerge g a.id).2.norm = c.norm :=
  unmerge_merge hc hm hfresh hprov hguard

/-- The same for every combined model reachable by merges from the empty one: the invariants are discharged, what
remains is that the unmerged model's graph id differs from those merged before, and the connection guard. -/
theorem unmerge_inverse_reachable {as : List Adm} {c : Graph} {a : Adm} {g : Graph}
    (hw : ∀ b ∈ as, b.WF) (hc : mergeAll Graph.empty as = some c) (hid : ∀ b ∈ as, b.id ≠ a.id)
    (hm : merge c a = (none, g)) (hguard : EdgeGuard c a) :
    (unmerge g a.id).1 = none ∧ (unmerge g a.id).2.norm = c.norm :=
  unmerge_merge (mergeAll_WF Graph.empty_WF hw hc) hm (mergeAll_Fresh hw hc a.id hid) (mergeAll_Proved hw hc) hguard

example : mergeAll Graph.empty [exSite] = some (merge Graph.empty exSite).2 ∧ (∀ b ∈ [exSite], b.id ≠ exNet.id) := by decide

/-- `unmerge_adm` never raises ("more than one delegation") on a non-empty combined model built by merges, whatever
graph id it is given: every delegation there has exactly one entry. -/
theorem unmerge_total_on_reachable {as : List Adm} {g : Graph} (hw : ∀ a ∈ as, a.WF)
    (h : mergeAll Graph.empty as = some g) (hne : g.nodes ≠ []) (gid : String) : (unmerge g gid).1 = none :=
  unmerge_ok_reachable hw h hne gid

/-- non-vacuity: the guards hold for the network model against the combined model holding the site model, and the
combined model gets a delegation and an element from it -/
example : let c := (merge Graph.empty exSite).2
    c.WF ∧ (merge c exNet).1 = none ∧ c.Fresh exNet.id ∧ c.Proved ∧ EdgeGuard c exNet ∧
    (merge c exNet).2.ldelOf "port" = .dict [("adm-net", "lab")] ∧ (merge c exNet).2.has "link" = true := by
  refine ⟨⟨by decide, by decide, by decide⟩, by decide, by decide, by decide, by decide, by decide, by decide⟩

/-- the merged combined model of the example is not `c` (the theorem is not about a no-op) -/
example : (merge (merge Graph.empty exSite).2 exNet).2.norm ≠ (merge Graph.empty exSite).2.norm := by decide

def exXY : Adm := ⟨"adm-xy", ⟨[⟨"x", [], [], .absent, .dict [("p", "cap")]⟩, ⟨"y", [], [], .absent, .absent⟩], []⟩⟩
def exXYedge : Adm := ⟨"adm-e", ⟨[⟨"x", [], [], .absent, .absent⟩, ⟨"y", [], [], .absent, .absent⟩, ⟨"z", [], [], .absent, .absent⟩],
                                  [⟨"x", "y", [("Class", "connects")]⟩]⟩⟩
def exXYsameId : Adm := ⟨"adm-xy", ⟨[⟨"x", [], [], .absent, .absent⟩, ⟨"z", [], [], .absent, .absent⟩], []⟩⟩

/-- without the connection guard: a connection between two shared elements contributed only by the unmerged model
stays (connections carry no provenance) -/
theorem unmerge_inverse_counterexample_edge :
    let c := (merge Graph.empty exXY).2
    (merge c exXYedge).1 = none ∧ c.Fresh exXYedge.id ∧ c.Proved ∧ ¬ EdgeGuard c exXYedge ∧
    (unmerge (merge c exXYedge).2 exXYedge.id).1 = none ∧
    c.hasEdge "x" "y" = false ∧ (unmerge (merge c exXYedge).2 exXYedge.id).2.hasEdge "x" "y" = true := by
  decide

/-- without freshness of the graph id: unmerging also removes the delegation the earlier model with that id gave -/
theorem unmerge_inverse_counterexample_id :
    let c := (merge Graph.empty exXY).2
    (merge c exXYsameId).1 = none ∧ ¬ c.Fresh exXYsameId.id ∧ c.Proved ∧ EdgeGuard c exXYsameId ∧
    (unmerge (merge c exXYsameId).2 exXYsameId.id).1 = none ∧
    c.norm.cdelOf "x" = .dict [("adm-xy", "cap")] ∧
    (unmerge (merge c exXYsameId).2 exXYsameId.id).2.norm.cdelOf "x" = .absent := by
  decide

/-! ## rollback -/

/-- Take a snapshot of a non-empty combined model, run any history of merge / unmerge / snapshot / rollback that does
not roll back to that snapshot, then roll back to it: the combined model is exactly what it was. -/
theorem rollback_restores (w : World) (hne : w.cbm.nodes ≠ []) (ops : List Op) (hops : ∀ op ∈ ops, op ≠ .rollback w.next) :
    (snapshot w).1 = none ∧
    (rollback (run (snapshot w).2 ops) w.next).1 = none ∧
    (rollback (run (snapshot w).2 ops) w.next).2.cbm = w.cbm := by
  have hs : snapshot w = (none, { w with snaps := (w.next, w.cbm) :: w.snaps, next := w.next + 1 }) := by
    unfold snapshot
    cases h : w.cbm.nodes with
    | nil => exact absurd h hne
    | cons n l => rfl
  rw [hs]
  have hl := snap_survives w.next w.cbm ops { w with snaps := (w.next, w.cbm) :: w.snaps, next := w.next + 1 }
    (by simp [lookupSnap]) (Nat.lt_succ_self _) hops
  simp [rollback, hl]

/-- non-vacuity: a history with a merge, an unmerge, another snapshot and a rollback to that other snapshot in between -/
example : let w : World := { World.init [exSite, exNet] with cbm := (merge Graph.empty exSite).2 }
    w.cbm.nodes ≠ [] ∧ (∀ op ∈ [Op.merge "adm-net", .snapshot, .unmerge "adm-site", .rollback 1], op ≠ .rollback w.next) ∧
    (run (snapshot w).2 [Op.merge "adm-net", .snapshot, .unmerge "adm-site", .rollback 1]).cbm ≠ w.cbm := by
  decide

/-! ## the model's `order` parameter -/

/-- `merge_adm` iterates a Python set of common node ids; the driver is given that order by the harness.  A merge
that succeeds gives the same result for every order, so the theorems above (stated for `merge`, which uses the
combined model's node order) cover whatever order CPython picks. -/
theorem merge_iteration_order_irrelevant (c : Graph) (a : Adm) (o : List String)
    (h : ∀ x, x ∈ o ↔ x ∈ common c a.g) (hok : (mergeOrd c a o).1 = none) : mergeOrd c a o = merge c a :=
  mergeOrd_order_irrelevant c a o h hok

example : (mergeOrd (merge Graph.empty exSite).2 exNet ["port"]).1 = none := by decide

/-! ## sources -/

/-- No operation of a broker history touches the delegation models lying next to the combined model.  (True by
construction of the functional model; the content of this clause is carried by the correspondence, which compares the
sources' snapshots after every step, and by C04's frame theorem for the store.) -/
theorem merge_sources_untouched (w : World) (ops : List Op) : (run w ops).srcs = w.srcs := by
  induction ops generalizing w with
  | nil => rfl
  | cons op ops ih =>
    simp only [run]
    rw [ih]
    cases op <;> simp only [step, snapshot, rollback] <;> (try split) <;> (try split) <;> rfl

end FimVerif.C14
