import FimVerif.Proofs.Lemmas.C14Update
import FimVerif.Proofs.Lemmas.C14Frame
import FimVerif.Generated.CbmCfg
/-!
# C14 - combined broker model: merge is order-independent, unmerge is its inverse, rollback restores a snapshot

Property theorems only (helper lemmas: `Proofs/Lemmas/C14*.lean`).  All statements are about
`FimVerif.Cbm.mergeN / merge / unmerge / snapshot / rollback` (Model/Cbm.lean), for **all** graphs; `Graph.WF` / `Adm.WF`
(node ids once, edges between nodes of the graph, one edge per unordered pair) are what the NetworkX store
guarantees for every graph it holds.  `mergeN` is `merge_adm`; `merge` is `merge_adm` as it runs on the shared NetworkX
store (theorem `merge_on_networkx_store`: the same state, plus an exception from the final GraphID rewrite when every
element of the merged model was already there).

Layout: one merge (`merge_union`, `delegations_step`), all sequences of merges (`merge_sequence_union`,
`merge_first_wins_exact`, `merge_succeeds_iff_compatible`), all permutations (`merge_order_independent_up_to_first_wins`),
all histories of merge / unmerge / snapshot / rollback (`history_invariant`, `reachable_provenance_and_delegations`),
unmerge (`unmerge_removes_exactly`, `unmerge_any_merged`, `unmerge_inverse*`, `unmerge_never_merged_noop`), rollback.
-/
namespace FimVerif.C14
open FimVerif.Cbm

/-! concrete models used for the non-vacuity examples and the counterexamples -/
def exSite : Adm := ⟨"adm-site", ⟨[⟨"sw", [("Class", "NetworkNode")], [], .absent, .dict [("primary", "cap")]⟩,
                                    ⟨"port", [("StitchNode", "true"), ("Model", "site")], [], .absent, .absent⟩],
                                   [⟨"sw", "port", [("Class", "connects")]⟩]⟩⟩
def exNet : Adm := ⟨"adm-net", ⟨[⟨"port", [("StitchNode", "false"), ("Model", "net")], [], .dict [("d1", "lab")], .absent⟩,
                                  ⟨"link", [("Class", "Link")], [], .absent, .absent⟩],
                                 [⟨"port", "link", [("Class", "connects")]⟩]⟩⟩

theorem exSite_WF : exSite.WF := ⟨by decide, by decide, by decide⟩
theorem exNet_WF : exNet.WF := ⟨by decide, by decide, by decide⟩

/-! ## merge gives the union, shared elements once -/

/-- Node ids and connections of the merged model are the union of the two; a shared id appears once and a
connection present in both appears once. -/
theorem merge_union {c : Graph} {a : Adm} {g : Graph} (hc : c.WF) (ha : a.WF) (h : mergeN c a = (none, g)) :
    (∀ i, i ∈ g.ids ↔ i ∈ c.ids ∨ i ∈ a.g.ids) ∧ g.ids.Nodup ∧
    (∀ x y, g.hasEdge x y = (c.hasEdge x y || a.g.hasEdge x y)) ∧ g.EdgesUnique ∧ g.Closed := by
  have hs := merge_step hc.closed h
  have hw := merge_WF hc ha h
  refine ⟨?_, hw.nodup, hs.hasEdge, hw.edges, hw.closed⟩
  intro i
  rw [← has_iff, ← has_iff, ← has_iff, hs.has]
  simp

example : (mergeN (mergeN Graph.empty exSite).2 exNet).1 = none ∧ (mergeN Graph.empty exSite).1 = none := by decide

/-- **All sequences of merges**: the combined model has exactly the elements and connections of the initial model and of
the merged models, a shared element once and a connection present in several models once. -/
theorem merge_sequence_union {c : Graph} {as : List Adm} {g : Graph} (hc : c.WF) (hw : ∀ a ∈ as, a.WF)
    (h : mergeAll c as = some g) :
    (∀ i, i ∈ g.ids ↔ i ∈ c.ids ∨ ∃ a ∈ as, i ∈ a.g.ids) ∧ g.ids.Nodup ∧
    (∀ x y, g.hasEdge x y = (c.hasEdge x y || as.any (fun a => a.g.hasEdge x y))) ∧ g.EdgesUnique ∧ g.Closed := by
  have hwf := mergeAll_WF hc hw h
  refine ⟨?_, hwf.nodup, (mergeAll_data hc hw h).2.2.1, hwf.edges, hwf.closed⟩
  intro i
  rw [← has_iff, ← has_iff, (mergeAll_obs hc hw h i).2.1]
  simp only [Bool.or_eq_true, List.any_eq_true, has_iff]

example : mergeAll Graph.empty [exSite, exNet] ≠ none := by decide

/-- **First wins, exactly**: in a model built by a sequence of merges the data of an element (connection) is that of the
initial model if it has the element (connection), otherwise that of the *first* merged model that has it. -/
theorem merge_first_wins_exact {c : Graph} {as : List Adm} {g : Graph} (hc : c.WF) (hw : ∀ a ∈ as, a.WF)
    (h : mergeAll c as = some g) :
    (∀ i, g.propsOf i = (c.propsOf i).or (firstSome (fun a => a.g.propsOf i) as)) ∧
    (∀ x y, g.edgeData x y = (c.edgeData x y).or (firstSome (fun a => a.g.edgeData x y) as)) :=
  ⟨(mergeAll_data hc hw h).1, (mergeAll_data hc hw h).2.1⟩

/-- **When merging succeeds** is a pairwise condition on the models (hence independent of the order): every model is
acceptable to `rewrite_delegations`, none speaks for an element the initial model has a delegation for, no two speak for the
same element. -/
theorem merge_succeeds_iff_compatible {c : Graph} {as : List Adm} (hc : c.WF) (hw : ∀ a ∈ as, a.WF) :
    ((mergeAll c as).isSome = true ↔ Compat c as = true) ∧
    (Compat c as = true ↔ ((∀ a ∈ as, a.Mergeable = true ∧ clashG c a = false) ∧ as.Pairwise (fun a b => clash a b = false))) ∧
    (∀ as', as.Perm as' → Compat c as' = Compat c as) :=
  ⟨mergeAll_succeeds_iff hc hw, Compat_iff c as, fun _ hp => (Compat_perm hp).symm⟩

example : Compat Graph.empty [exSite, exNet] = true ∧ Compat Graph.empty [exNet, exSite] = true ∧
    Compat Graph.empty [exSite, exSite] = false := by decide

/-! ## provenance -/

/-- After any history of successful merges from the empty model every element records exactly the models that
contributed it (in merge order), and the elements are exactly those with a contributor. -/
theorem provenance_exact {as : List Adm} {g : Graph} (hw : ∀ a ∈ as, a.WF) (h : mergeAll Graph.empty as = some g) (i : String) :
    g.provOf i = contributors as i ∧ (g.has i = true ↔ contributors as i ≠ []) := by
  have ho := mergeAll_obs Graph.empty_WF hw h i
  refine ⟨by simpa [Graph.provOf, Graph.node?, Graph.empty] using ho.1, ?_⟩
  rw [ho.2.1]
  simp [Graph.has, Graph.ids, Graph.empty, contributors, List.filter_eq_nil_iff]

example : mergeAll Graph.empty [exSite, exNet] ≠ none ∧ contributors [exSite, exNet] "port" = ["adm-site", "adm-net"] := by decide

/-! ## delegation ids that coincide with graph ids: re-keying ignores the inner id and is idempotent -/

/-- The name a delegation has INSIDE its model plays no role: re-keying to `aid` gives the same entry whatever the old id was -
in particular when the old id already IS `aid` (a model that was re-keyed before, or whose aggregate named its delegations
after the delegation graph) the entry is kept, not dropped. -/
theorem rekey_ignores_inner_id (aid k k' d : String) :
    (Deleg.dict [(k, d)]).rekey aid = .ok (.dict [(aid, d)]) ∧ (Deleg.dict [(k, d)]).rekey aid = (Deleg.dict [(k', d)]).rekey aid ∧
    (Deleg.dict [(aid, d)]).rekey aid = .ok (.dict [(aid, d)]) := ⟨rfl, rfl, rfl⟩

/-- `rewrite_delegations` is idempotent on a delegation property: what it returns is a fixed point. -/
theorem rekey_idempotent (aid : String) (x y : Deleg) (h : x.rekey aid = .ok y) : y.rekey aid = .ok y := by
  cases x with
  | absent => simp [Deleg.rekey] at h; subst h; rfl
  | emptied => simp [Deleg.rekey] at h
  | dict l =>
    match l, h with
    | [(k, d)], h => simp [Deleg.rekey] at h; subst h; rfl
    | [], h => simp [Deleg.rekey] at h
    | _ :: _ :: _, h => simp [Deleg.rekey] at h

/-- ... and on a whole node / model: stamping a stamped model again with the same id changes nothing. -/
theorem stampNode_idempotent (aid : String) (n m : Node) (h : stampNode aid n = .ok m) : stampNode aid m = .ok m := by
  unfold stampNode at h
  split at h
  · cases h
  · rename_i ld hl
    split at h
    · cases h
    · rename_i cd hc
      cases h
      simp [stampNode, rekey_idempotent aid _ _ hl, rekey_idempotent aid _ _ hc]

/-- `rewrite_delegations(real_adm_id)` + provenance stamp on a whole model (the temporary clone of `merge_adm`): a model that was
stamped with its id before is left exactly as it is - nothing is lost when old and new delegation ids coincide. -/
theorem stampAll_idempotent (aid : String) : ∀ (l m : List Node), stampAll aid l = .ok m → stampAll aid m = .ok m
  | [], m, h => by simp [stampAll] at h; subst h; rfl
  | n :: rest, m, h => by
    unfold stampAll at h
    split at h
    · cases h
    · rename_i n' hn
      split at h
      · cases h
      · rename_i l' hl
        cases h
        simp [stampAll, stampNode_idempotent aid n n' hn, stampAll_idempotent aid rest l' hl]

example : (Deleg.dict [("adm-1", "cap")]).rekey "adm-1" = .ok (.dict [("adm-1", "cap")]) := rfl

/-! ## delegations are keyed by the contributing model's id -/

/-- Every delegation in a model built by merges is a single entry keyed by the graph id of a merged model that
carried that delegation (with the same details) on that element; and every delegation a merged model carried is there
under that model's id. -/
theorem delegations_keyed_by_adm {as : List Adm} {g : Graph} (hw : ∀ a ∈ as, a.WF) (h : mergeAll Graph.empty as = some g)
    (i : String) (l : List (String × String)) :
    (g.ldelOf i = .dict l → ∃ a ∈ as, ∃ k d, a.g.ldelOf i = .dict [(k, d)] ∧ l = [(a.id, d)]) ∧
    (g.cdelOf i = .dict l → ∃ a ∈ as, ∃ k d, a.g.cdelOf i = .dict [(k, d)] ∧ l = [(a.id, d)]) := by
  have ho := mergeAll_obs Graph.empty_WF hw h i
  constructor
  · intro hl
    rcases ho.2.2.1 l hl with h' | h'
    · simp [Graph.ldelOf, Graph.node?, Graph.empty] at h'
    · exact h'
  · intro hl
    rcases ho.2.2.2.1 l hl with h' | h'
    · simp [Graph.cdelOf, Graph.node?, Graph.empty] at h'
    · exact h'

/-- one step: what the merged model holds on an element is the combined model's delegation if it has one, otherwise
the merged model's re-keyed by its graph id; never both (the merge raises). -/
theorem delegations_step {c : Graph} {a : Adm} {g : Graph} (hc : c.WF) (h : mergeN c a = (none, g)) (i : String) :
    g.ldelOf i = (c.ldelOf i).take ((a.g.ldelOf i).rk a.id) ∧ g.cdelOf i = (c.cdelOf i).take ((a.g.cdelOf i).rk a.id) ∧
    ((c.ldelOf i).live && ((a.g.ldelOf i).rk a.id).live) = false ∧
    ((c.cdelOf i).live && ((a.g.cdelOf i).rk a.id).live) = false :=
  let hs := merge_step hc.closed h
  ⟨hs.ldel i, hs.cdel i, hs.lnoconf i, hs.cnoconf i⟩

/-! ## order of merging -/

/-- `merge (merge c a) b ≈ merge (merge c b) a`: same elements, same connections, same provenance sets, same
delegations, and the same properties for every element and connection that is not contributed by both `a` and `b`
while absent from `c`.  What is missing for full equality: the remaining properties of elements / connections shared
by `a` and `b` only - see `merge_comm_counterexample`. -/
theorem merge_comm_partial {c : Graph} {a b : Adm} {g1 g1' g2 g2' : Graph} (hc : c.WF) (ha : a.WF) (hb : b.WF)
    (h1 : mergeN c a = (none, g1)) (h1' : mergeN g1 b = (none, g1'))
    (h2 : mergeN c b = (none, g2)) (h2' : mergeN g2 a = (none, g2')) :
    (∀ i, g1'.has i = g2'.has i) ∧
    (∀ x y, g1'.hasEdge x y = g2'.hasEdge x y) ∧
    (∀ i, (g1'.provOf i).Perm (g2'.provOf i)) ∧
    (∀ i, g1'.ldelOf i = g2'.ldelOf i ∧ g1'.cdelOf i = g2'.cdelOf i) ∧
    (∀ i, (c.has i = true ∨ ¬(a.g.has i = true ∧ b.g.has i = true)) → g1'.propsOf i = g2'.propsOf i) ∧
    (∀ x y, (c.hasEdge x y = true ∨ ¬(a.g.hasEdge x y = true ∧ b.g.hasEdge x y = true)) →
        g1'.edgeData x y = g2'.edgeData x y) := by
  have s1 := merge_step hc.closed h1
  have s1' := merge_step (merge_WF hc ha h1).closed h1'
  have s2 := merge_step hc.closed h2
  have s2' := merge_step (merge_WF hc hb h2).closed h2'
  refine ⟨?_, ?_, ?_, ?_, ?_, ?_⟩
  · intro i
    rw [s1'.has, s1.has, s2'.has, s2.has, Bool.or_assoc, Bool.or_assoc, Bool.or_comm (a.g.has i)]
  · intro x y
    rw [s1'.hasEdge, s1.hasEdge, s2'.hasEdge, s2.hasEdge, Bool.or_assoc, Bool.or_assoc, Bool.or_comm (a.g.hasEdge x y)]
  · intro i
    rw [s1'.prov, s1.prov, s2'.prov, s2.prov, List.append_assoc, List.append_assoc]
    exact List.Perm.append_left _ List.perm_append_comm
  · intro i
    constructor
    · rw [s1'.ldel, s1.ldel, s2'.ldel, s2.ldel]
      have n1 := s1.lnoconf i; have n1' := s1'.lnoconf i; have n2 := s2.lnoconf i; have n2' := s2'.lnoconf i
      rw [s1.ldel] at n1'; rw [s2.ldel] at n2'
      exact Deleg.take_comm _ _ _ n1 n1' n2 n2'
    · rw [s1'.cdel, s1.cdel, s2'.cdel, s2.cdel]
      have n1 := s1.cnoconf i; have n1' := s1'.cnoconf i; have n2 := s2.cnoconf i; have n2' := s2'.cnoconf i
      rw [s1.cdel] at n1'; rw [s2.cdel] at n2'
      exact Deleg.take_comm _ _ _ n1 n1' n2 n2'
  · intro i hi
    rw [s1'.props, s1.props, s2'.props, s2.props]
    apply or_or_comm
    simpa [propsOf_isSome] using hi
  · intro x y hxy
    rw [s1'.edgeData, s1.edgeData, s2'.edgeData, s2.edgeData]
    apply or_or_comm
    simpa [edgeData_isSome] using hxy

/-- non-vacuity: the site and the network model merge in both orders -/
example : (mergeN Graph.empty exSite).1 = none ∧ (mergeN (mergeN Graph.empty exSite).2 exNet).1 = none ∧
    (mergeN Graph.empty exNet).1 = none ∧ (mergeN (mergeN Graph.empty exNet).2 exSite).1 = none := by decide

/-- Full equality fails: the stitch node `port` keeps the properties of whichever model was merged first
(the code's documented "use CBM" policy). -/
theorem merge_comm_counterexample :
    (mergeN (mergeN Graph.empty exSite).2 exNet).1 = none ∧ (mergeN (mergeN Graph.empty exNet).2 exSite).1 = none ∧
    (mergeN (mergeN Graph.empty exSite).2 exNet).2.propsOf "port" = some [("StitchNode", "true"), ("Model", "site")] ∧
    (mergeN (mergeN Graph.empty exNet).2 exSite).2.propsOf "port" = some [("StitchNode", "false"), ("Model", "net")] := by
  decide

/-- **Order independence for all permutations, up to first-wins data of shared elements** (the known findings
`merge_order:first-wins:*`): if a sequence of models merges, every permutation of it merges, with the same elements, the
same connections, the same provenance sets, the same delegations; element (connection) data is the same wherever the
element (connection) is in the initial model or is contributed by at most one of the models.  What differs otherwise is
given exactly by `merge_first_wins_exact`. -/
theorem merge_order_independent_up_to_first_wins {c : Graph} {as as' : List Adm} {g : Graph} (hc : c.WF) (hw : ∀ a ∈ as, a.WF)
    (hp : as.Perm as') (h : mergeAll c as = some g) :
    ∃ g', mergeAll c as' = some g' ∧ SameUpToFirstWins c as g g' :=
  mergeAll_perm hc hw hp h

example : [exSite, exNet].Perm [exNet, exSite] ∧ mergeAll Graph.empty [exSite, exNet] ≠ none :=
  ⟨List.Perm.swap _ _ _, by decide⟩

/-! ## unmerge is the inverse of merge

Full statement (what the property says): `unmerge (merge c a) a.id ≈ c` for every combined model `c` and model `a`
whose merge succeeds, `≈` identifying an emptied delegation with an absent one.  The code needs two guards
(`unmerge_inverse_counterexample_edge`, `unmerge_inverse_counterexample_id`). -/

/-- Guarded inverse: `a`'s graph id is not used in `c`, every element of `c` has a contributor, and every connection
of `a` between two elements of `c` is already in `c`.  Then unmerge succeeds and restores `c` exactly (node order,
properties, provenance, connections and their data), delegations up to `'' = absent`. -/
theorem unmerge_inverse {c : Graph} {a : Adm} {g : Graph} (hc : c.WF) (hm : mergeN c a = (none, g))
    (hfresh : c.Fresh a.id) (hprov : c.Proved) (hguard : EdgeGuard c a) :
    (unmerge g a.id).1 = none ∧ (unmerge g a.id).2.norm = c.norm :=
  unmerge_merge hc hm hfresh hprov hguard

/-- The same for every combined model reachable by merges from the empty one: the invariants are discharged, what
remains is that the unmerged model's graph id differs from those merged before, and the connection guard. -/
theorem unmerge_inverse_reachable {as : List Adm} {c : Graph} {a : Adm} {g : Graph}
    (hw : ∀ b ∈ as, b.WF) (hc : mergeAll Graph.empty as = some c) (hid : ∀ b ∈ as, b.id ≠ a.id)
    (hm : mergeN c a = (none, g)) (hguard : EdgeGuard c a) :
    (unmerge g a.id).1 = none ∧ (unmerge g a.id).2.norm = c.norm :=
  unmerge_merge (mergeAll_WF Graph.empty_WF hw hc) hm (mergeAll_Fresh hw hc a.id hid) (mergeAll_Proved hw hc) hguard

example : mergeAll Graph.empty [exSite] = some (mergeN Graph.empty exSite).2 ∧ (∀ b ∈ [exSite], b.id ≠ exNet.id) := by decide

/-- `unmerge_adm` never raises ("more than one delegation") on a non-empty combined model built by merges, whatever
graph id it is given: every delegation there has exactly one entry. -/
theorem unmerge_total_on_reachable {as : List Adm} {g : Graph} (hw : ∀ a ∈ as, a.WF)
    (h : mergeAll Graph.empty as = some g) (hne : g.nodes ≠ []) (gid : String) : (unmerge g gid).1 = none :=
  unmerge_ok_reachable hw h hne gid

/-- non-vacuity: the guards hold for the network model against the combined model holding the site model, and the
combined model gets a delegation and an element from it -/
example : let c := (mergeN Graph.empty exSite).2
    c.WF ∧ (mergeN c exNet).1 = none ∧ c.Fresh exNet.id ∧ c.Proved ∧ EdgeGuard c exNet ∧
    (mergeN c exNet).2.ldelOf "port" = .dict [("adm-net", "lab")] ∧ (mergeN c exNet).2.has "link" = true := by
  refine ⟨⟨by decide, by decide, by decide⟩, by decide, by decide, by decide, by decide, by decide, by decide⟩

/-- the merged combined model of the example is not `c` (the theorem is not about a no-op) -/
example : (mergeN (mergeN Graph.empty exSite).2 exNet).2.norm ≠ (mergeN Graph.empty exSite).2.norm := by decide

def exXY : Adm := ⟨"adm-xy", ⟨[⟨"x", [], [], .absent, .dict [("p", "cap")]⟩, ⟨"y", [], [], .absent, .absent⟩], []⟩⟩
def exXYedge : Adm := ⟨"adm-e", ⟨[⟨"x", [], [], .absent, .absent⟩, ⟨"y", [], [], .absent, .absent⟩, ⟨"z", [], [], .absent, .absent⟩],
                                  [⟨"x", "y", [("Class", "connects")]⟩]⟩⟩
def exXYsameId : Adm := ⟨"adm-xy", ⟨[⟨"x", [], [], .absent, .absent⟩, ⟨"z", [], [], .absent, .absent⟩], []⟩⟩

/-- without the connection guard: a connection between two shared elements contributed only by the unmerged model
stays (connections carry no provenance) -/
theorem unmerge_inverse_counterexample_edge :
    let c := (mergeN Graph.empty exXY).2
    (mergeN c exXYedge).1 = none ∧ c.Fresh exXYedge.id ∧ c.Proved ∧ ¬ EdgeGuard c exXYedge ∧
    (unmerge (mergeN c exXYedge).2 exXYedge.id).1 = none ∧
    c.hasEdge "x" "y" = false ∧ (unmerge (mergeN c exXYedge).2 exXYedge.id).2.hasEdge "x" "y" = true := by
  decide

/-- without freshness of the graph id: unmerging also removes the delegation the earlier model with that id gave -/
theorem unmerge_inverse_counterexample_id :
    let c := (mergeN Graph.empty exXY).2
    (mergeN c exXYsameId).1 = none ∧ ¬ c.Fresh exXYsameId.id ∧ c.Proved ∧ EdgeGuard c exXYsameId ∧
    (unmerge (mergeN c exXYsameId).2 exXYsameId.id).1 = none ∧
    c.norm.cdelOf "x" = .dict [("adm-xy", "cap")] ∧
    (unmerge (mergeN c exXYsameId).2 exXYsameId.id).2.norm.cdelOf "x" = .absent := by
  decide

/-- **Unmerge of any graph id on any combined model satisfying the invariant** (in particular every model reachable by a
history, `history_invariant`): it does not raise; an element goes exactly when the unmerged model was its only contributor,
otherwise the model's id leaves its provenance; a delegation keyed by that id is erased; everything else - element data,
the connections between surviving elements and their data - stays as it was (this is what the known findings
`unmerge:edge-between-shared-nodes-stays` and `unmerge:shared-node-keeps-unmerged-model-properties` are about: connections and
element data carry no provenance); and the result satisfies the invariant for the remaining models. -/
theorem unmerge_removes_exactly {pool : List Adm} {c : Graph} {live : List Adm} (t : Tracks pool c live) (hne : c.nodes ≠ [])
    (gid : String) :
    ∃ g', unmerge c gid = (none, g') ∧ UnmergeStep c gid g' ∧ Tracks pool g' (live.filter (fun a => a.id != gid)) := by
  have hu : unmerge c gid = (none, (unmerge c gid).2) := by rw [← t.unmerge_total hne gid]
  exact ⟨_, hu, unmerge_step t.wf hu, t.unmerge hu⟩

/-- **Unmerge of any previously merged model, not only the last**: for a combined model built from `pre ++ a :: post`
(distinct graph ids), unmerging `a` succeeds and gives the combined model built from `pre ++ post` as far as elements,
provenance and delegations (`'' = absent`) go; the connections are those of that model plus `a`'s connections between
elements that stay; surviving elements and connections keep the data they had, which is the data `pre ++ post` gives them
unless `a` was their first contributor (`UnmergedVs`). -/
theorem unmerge_any_merged {pre post : List Adm} {a : Adm} {g : Graph} (hw : ∀ b ∈ pre ++ a :: post, b.WF)
    (hn : ((pre ++ a :: post).map (·.id)).Nodup) (h : mergeAll Graph.empty (pre ++ a :: post) = some g) :
    ∃ g' g0, unmerge g a.id = (none, g') ∧ mergeAll Graph.empty (pre ++ post) = some g0 ∧ UnmergedVs pre post a g g' g0 :=
  unmerge_any hw hn h

def exThird : Adm := ⟨"adm-3", ⟨[⟨"port", [("StitchNode", "true"), ("Model", "third")], [], .absent, .absent⟩,
                                  ⟨"sw3", [("Class", "NetworkNode")], [], .absent, .dict [("primary", "cap3")]⟩],
                                 [⟨"sw3", "port", [("Class", "connects")]⟩]⟩⟩
theorem exThird_WF : exThird.WF := ⟨by decide, by decide, by decide⟩

/-- non-vacuity: three models sharing the element `port`, the middle one unmerged -/
example : (∀ b ∈ [exSite] ++ exNet :: [exThird], b.WF) ∧ (([exSite] ++ exNet :: [exThird]).map (·.id)).Nodup ∧
    mergeAll Graph.empty ([exSite] ++ exNet :: [exThird]) ≠ none := by
  refine ⟨?_, by decide, by decide⟩
  intro b hb
  simp only [List.cons_append, List.nil_append, List.mem_cons, List.not_mem_nil, or_false] at hb
  rcases hb with rfl | rfl | rfl
  · exact exSite_WF
  · exact exNet_WF
  · exact exThird_WF

/-- **Unmerge of a model that was never merged** (its graph id occurs nowhere in the combined model) changes nothing. -/
theorem unmerge_never_merged_noop {c : Graph} {gid : String} (hc : c.WF) (hne : c.nodes ≠ []) (hf : c.Fresh gid) :
    unmerge c gid = (none, c) :=
  unmerge_fresh_noop hc.closed hne hf

example : let c := (mergeN Graph.empty exSite).2; c.nodes ≠ [] ∧ c.Fresh "nobody" := by decide

def exPlain : Adm := ⟨"adm-p", ⟨[⟨"x", [], [], .absent, .absent⟩, ⟨"y", [], [], .absent, .absent⟩], [⟨"x", "y", []⟩]⟩⟩

/-- Why histories must not merge a model that is already part of the combined model (`OpOk` asks for `Fresh`): the
provenance lists the model twice and one unmerge does not take its elements out again. -/
theorem remerge_counterexample :
    let c := (mergeN Graph.empty exPlain).2
    (mergeN c exPlain).1 = none ∧ (mergeN c exPlain).2.provOf "x" = ["adm-p", "adm-p"] ∧
    (unmerge (mergeN c exPlain).2 "adm-p").1 = none ∧ (unmerge (mergeN c exPlain).2 "adm-p").2.has "x" = true ∧
    (unmerge c "adm-p").2.has "x" = false := by
  decide

/-! ## all histories of merge / unmerge / snapshot / rollback -/

/-- **The invariant over all histories**: starting from an empty combined model next to the source models `srcs`, after
every history of merge / unmerge / snapshot / rollback in which a merge names a well-formed model that is not currently
part of the combined model and does not raise half-way (`HistOk`; unmerge of any id, snapshots and rollbacks to any index -
existing or not - are unrestricted), the combined model *and every snapshot* is tracked by a list of source models with
distinct ids: `Tracks`. -/
theorem history_invariant (srcs : List Adm) (ops : List Op) (hok : HistOk (World.init srcs) ops) :
    WInv (run (World.init srcs) ops) :=
  WInv.run ops (WInv.init srcs) hok

theorem run_srcs (w : World) (ops : List Op) : (run w ops).srcs = w.srcs := by
  induction ops generalizing w with
  | nil => rfl
  | cons op ops ih => simp only [run]; rw [ih, step_srcs]

/-- **Provenance and delegations, for every reachable combined model**: there are source models `live` (distinct graph
ids) such that every element records exactly the graph ids of the live models containing it, the elements are exactly
those with a contributor, every delegation is a single entry keyed by the graph id of a live model that carries it on that
element, and every delegation a live model carries is there under that model's id. -/
theorem reachable_provenance_and_delegations (srcs : List Adm) (ops : List Op) (hok : HistOk (World.init srcs) ops) :
    ∃ live : List Adm, (∀ a ∈ live, a ∈ srcs) ∧ (live.map (·.id)).Nodup ∧
      (∀ i, (run (World.init srcs) ops).cbm.provOf i = contributors live i ∧
            ((run (World.init srcs) ops).cbm.has i = true ↔ contributors live i ≠ [])) ∧
      (∀ i l, (run (World.init srcs) ops).cbm.ldelOf i = .dict l →
            ∃ a ∈ live, ∃ k d, a.g.ldelOf i = .dict [(k, d)] ∧ l = [(a.id, d)]) ∧
      (∀ i l, (run (World.init srcs) ops).cbm.cdelOf i = .dict l →
            ∃ a ∈ live, ∃ k d, a.g.cdelOf i = .dict [(k, d)] ∧ l = [(a.id, d)]) ∧
      (∀ a ∈ live, ∀ i k d, a.g.ldelOf i = .dict [(k, d)] → (run (World.init srcs) ops).cbm.ldelOf i = .dict [(a.id, d)]) ∧
      (∀ a ∈ live, ∀ i k d, a.g.cdelOf i = .dict [(k, d)] → (run (World.init srcs) ops).cbm.cdelOf i = .dict [(a.id, d)]) := by
  obtain ⟨⟨live, t⟩, _⟩ := history_invariant srcs ops hok
  rw [run_srcs] at t
  refine ⟨live, t.sub, t.ids, ?_, t.ldel_keyed, t.cdel_keyed, ?_, ?_⟩
  · intro i
    refine ⟨t.prov i, ?_⟩
    rw [t.has, any_has_eq]
    cases contributors live i <;> simp
  · intro a ha i k d hd
    have hs : speakL a i = .dict [(a.id, d)] := by simp [speakL, hd, Deleg.rk]
    have := firstLive_of_mem (atMostOne_speaksL t.compat i) (List.mem_map.mpr ⟨a, ha, rfl⟩) (by rw [hs]; rfl)
    have hn := t.ldel i
    rw [this, hs] at hn
    exact Deleg.eq_of_norm_dict hn
  · intro a ha i k d hd
    have hs : speakC a i = .dict [(a.id, d)] := by simp [speakC, hd, Deleg.rk]
    have := firstLive_of_mem (atMostOne_speaksC t.compat i) (List.mem_map.mpr ⟨a, ha, rfl⟩) (by rw [hs]; rfl)
    have hn := t.cdel i
    rw [this, hs] at hn
    exact Deleg.eq_of_norm_dict hn

/-- non-vacuity: a history with three models sharing `port`, unmerge of the middle one, unmerge of an id never merged, a
snapshot, a re-merge of the unmerged model, a rollback to the snapshot and a rollback to a snapshot that does not exist -/
def exHistory : List Op :=
  [.merge "adm-site", .merge "adm-net", .merge "adm-3", .unmerge "adm-net", .unmerge "nobody", .snapshot,
   .merge "adm-net", .rollback 0, .merge "no-such-model"]

example : HistOk (World.init [exSite, exNet, exThird]) exHistory ∧
    (run (World.init [exSite, exNet, exThird]) exHistory).cbm.provOf "port" = ["adm-site", "adm-3"] ∧
    (run (World.init [exSite, exNet, exThird]) (exHistory.take 7)).cbm.provOf "port" = ["adm-site", "adm-3", "adm-net"] := by
  decide

/-! ## rollback -/

/-- Take a snapshot of a non-empty combined model, run any history of merge / unmerge / snapshot / rollback that does
not roll back to that snapshot, then roll back to it: the combined model is exactly what it was. -/
theorem rollback_restores (w : World) (hne : w.cbm.nodes ≠ []) (ops : List Op) (hops : ∀ op ∈ ops, op ≠ .rollback w.next) :
    (snapshot w).1 = none ∧
    (rollback (run (snapshot w).2 ops) w.next).1 = none ∧
    (rollback (run (snapshot w).2 ops) w.next).2.cbm = w.cbm := by
  have hs : snapshot w = (none, { w with snaps := (w.next, w.cbm) :: w.snaps, next := w.next + 1 }) := by
    unfold snapshot
    cases h : w.cbm.nodes with
    | nil => exact absurd h hne
    | cons n l => rfl
  rw [hs]
  have hl := snap_survives w.next w.cbm ops { w with snaps := (w.next, w.cbm) :: w.snaps, next := w.next + 1 }
    (by simp [lookupSnap]) (Nat.lt_succ_self _) hops
  simp [rollback, hl]

/-- non-vacuity: a history with a merge, an unmerge, another snapshot and a rollback to that other snapshot in between -/
example : let w : World := { World.init [exSite, exNet] with cbm := (mergeN Graph.empty exSite).2 }
    w.cbm.nodes ≠ [] ∧ (∀ op ∈ [Op.merge "adm-net", .snapshot, .unmerge "adm-site", .rollback 1], op ≠ .rollback w.next) ∧
    (run (snapshot w).2 [Op.merge "adm-net", .snapshot, .unmerge "adm-site", .rollback 1]).cbm ≠ w.cbm := by
  decide

/-! ## the model's `order` parameter and the NetworkX store -/

/-- `merge_adm` iterates a Python set of common node ids; the driver is given that order by the harness.  A merge
that succeeds gives the same result for every order, so the theorems above (stated for `mergeN`, which uses the
combined model's node order) cover whatever order CPython picks. -/
theorem merge_iteration_order_irrelevant (c : Graph) (a : Adm) (o : List String)
    (h : ∀ x, x ∈ o ↔ x ∈ common c a.g) :
    ((mergeOrdN c a o).1 = none → mergeOrdN c a o = mergeN c a) ∧ ((mergeOrd c a o).1 = none → mergeOrd c a o = mergeN c a) :=
  ⟨mergeOrdN_order_irrelevant c a o h, mergeOrd_order_irrelevant c a o h⟩

example : (mergeOrd (mergeN Graph.empty exSite).2 exNet ["port"]).1 = none := by decide

/-- What running on the shared NetworkX store (`merge`, what the correspondence executes) adds to `mergeN` (what the
theorems are about): nothing - or, when every element of the model was already in the combined model, an exception from the
final GraphID rewrite *after* the merged state is complete.  The states are always the same. -/
theorem merge_on_networkx_store (c : Graph) (a : Adm) :
    (merge c a).2 = (mergeN c a).2 ∧
    (merge c a = mergeN c a ∨ ((mergeN c a).1 = none ∧ vanishes c a = true ∧ merge c a = (some .query, (mergeN c a).2))) :=
  ⟨merge_state c a, merge_nx c a⟩

example : vanishes (mergeN Graph.empty exPlain).2 exPlain = true ∧ (merge (mergeN Graph.empty exPlain).2 exPlain).1 = some .query ∧
    (mergeN (mergeN Graph.empty exPlain).2 exPlain).1 = none := by decide

/-! ## the tie to the source: generated plans and tables (`gen/cbmcfg.py` → `Generated/CbmCfg.lean`) -/

/-- The calls `merge_adm` / `unmerge_adm` / `snapshot` / `rollback` make - which, on which graph object, in which order, as
observed on the code of the current tree - are the ones the abstract model mirrors.  (The driver executes the *generated*
plans; a re-ordered, dropped or re-addressed call changes them and breaks this equation.) -/
theorem plans_are_the_modelled_ones : FimVerif.Gen.CbmCfg.plans = modelPlans := by decide

/-- The model's decision functions agree with the code on every row of the generated tables:
`rewrite_delegations` = `Deleg.rekey`, `_update_node_delegations` = `conflict` + `Deleg.take` (for either kind of delegation),
the delegation part of `unmerge_adm` = `Deleg.unmerge`, its provenance part = `provUnmerge`; `merge_nodes` keeps the caller's
node and edge data (first wins), drops the other node and leaves no extra attribute. -/
theorem tables_agree_with_model :
    (FimVerif.Gen.CbmCfg.rekeyTable.all fun r =>
      match r.input.rekey "G", r.out, r.err with
      | .ok d, some d', none => d == d'
      | .error e, none, some e' => e == e'
      | _, _, _ => false) = true ∧
    (FimVerif.Gen.CbmCfg.takeTable.all fun r =>
      let cl : Node := ⟨"n", [], [], r.cbm, .absent⟩
      let tl : Node := ⟨"n", [], [], r.adm, .absent⟩
      let cc : Node := ⟨"n", [], [], .absent, r.cbm⟩
      let tc : Node := ⟨"n", [], [], .absent, r.adm⟩
      (if conflict cl tl then none else some ((mergeNode "G" cl tl).ldel)) == r.out &&
      (if conflict cc tc then none else some ((mergeNode "G" cc tc).cdel)) == r.out) = true ∧
    (FimVerif.Gen.CbmCfg.unmergeDelegTable.all fun r =>
      match r.input.unmerge "g" with
      | .ok d => r.out == some d
      | .error _ => r.out == none) = true ∧
    (FimVerif.Gen.CbmCfg.provTable.all fun r => provUnmerge "g" r.input == r.out) = true ∧
    FimVerif.Gen.CbmCfg.mergeNodesPolicy =
      [("shared-property", "caller"), ("caller-only-property", "kept"), ("other-only-property", "dropped"),
       ("shared-edge-data", "caller"), ("shared-edge-extra-keys", ""), ("other-node", "gone"), ("caller-node-count", "3")] ∧
    (FimVerif.Gen.CbmCfg.labelDelegationsProp, FimVerif.Gen.CbmCfg.capacityDelegationsProp, FimVerif.Gen.CbmCfg.provenanceProp,
      FimVerif.Gen.CbmCfg.provenanceField, FimVerif.Gen.CbmCfg.graphIdProp) =
      ("LabelDelegations", "CapacityDelegations", "StructuralInfo", "adm_graph_ids", "GraphID") := by
  decide

/-! ## sources: merging does not alter the source models (frame on the shared store) -/

/-- the broker the driver runs: the generated plans on the model of the shared store -/
theorem generated_plans_safe : FimVerif.Gen.CbmCfg.plans.Safe := plans_are_the_modelled_ones ▸ modelPlans_safe

/-- **One call**: `merge_adm` (also when it raises half-way) leaves the view of every graph of the shared store other than
the combined model and its temporary graph as it was - the merged delegation model and the other source models in
particular.  `KeysOK`: internal node ids are unique and below the store's allocator. -/
theorem merge_does_not_alter_other_graphs (e : Env) (order : List String) {s : Store} (hk : s.KeysOK) {g : String}
    (hc : g ≠ e.cbm) (ht : g ≠ e.tmp) :
    (s.mergeAdm FimVerif.Gen.CbmCfg.plans e order).2.view g = s.view g :=
  (mergeAdm_frame generated_plans_safe e order hk hc ht).1

/-- **All histories**: whatever merge / unmerge / snapshot / rollback calls a broker makes on the shared store, the view of
every graph other than the combined model, the temporary graphs and the snapshots never changes. -/
theorem sources_untouched_by_every_history (N : Names) {g : String} (hc : g ≠ N.cbm) (ht : ∀ n, g ≠ N.tmp n)
    (hs : ∀ k, g ≠ N.snap k) (ops : List SOp) {w : SWorld} (hk : w.s.KeysOK) :
    (srun FimVerif.Gen.CbmCfg.plans N w ops).s.view g = w.s.view g :=
  (srun_frame generated_plans_safe N hc ht hs ops hk).1

def exNames : Names := ⟨"CBM", fun n => "tmp-" ++ toString n, fun k => "snap-" ++ toString k⟩
def exStore : Store := (Store.empty.load exSite).load exNet

/-- non-vacuity: a store holding the site and the network model; the history changes the store, the sources' views stay -/
example : exStore.KeysOK ∧
    (let w := srun FimVerif.Gen.CbmCfg.plans exNames ⟨exStore, 0, 0⟩
        [.merge "adm-site" [], .merge "adm-net" ["port"], .snapshot, .unmerge "adm-site", .rollback 0]
     (w.s.view "CBM").nodes.length = 3 ∧ w.s.view "adm-net" = exNet.g ∧ w.s.view "adm-site" = exSite.g) := by
  refine ⟨load_keysOK (load_keysOK Store.empty_keysOK exSite exSite_WF.nodup) exNet exNet_WF.nodup, by decide⟩

/-! ## the source models move on between the calls (`unmerge_adm` takes a graph id, not a model) -/

/-- **The invariant over all histories in which the source models are updated, reloaded under their id or deleted between
the broker's calls** (`UOp.update`: the graph stored under the id is from now on the version given; `merge` takes the newest
version, the other calls do not look at the sources): the combined model and every snapshot are tracked by a list of
versions with distinct ids - the versions that were merged, whatever the store holds under their ids now. -/
theorem history_invariant_with_source_updates (srcs : List Adm) (ops : List UOp) (hok : UHistOk (World.init srcs) ops) :
    WInv (urun (World.init srcs) ops) :=
  WInv.urun ops (WInv.init srcs) hok

/-- **Unmerge after the source has moved on**: in any state satisfying the invariant (every state reachable by a history
with updates, theorem above) the source `a.id` is replaced by any other version `a` (or deleted: no elements); unmerging any
id then does exactly what it does without the update (`unmerge_removes_exactly`): it does not raise, takes out what only the
MERGED version of that id contributed, and leaves a combined model tracked by the remaining live versions. -/
theorem unmerge_after_source_update {w : World} (h : WInv w) (hne : w.cbm.nodes ≠ []) (a : Adm) (gid : String) :
    ∃ live g', Tracks w.srcs w.cbm live ∧ step (w.update a) (.unmerge gid) = (none, { w.update a with cbm := g' }) ∧
      (step w (.unmerge gid)).2.cbm = g' ∧ UnmergeStep w.cbm gid g' ∧
      Tracks (w.update a).srcs g' (live.filter (fun b => b.id != gid)) := by
  obtain ⟨⟨live, t⟩, _⟩ := h
  obtain ⟨g', hu, hs, t'⟩ := unmerge_removes_exactly t hne gid
  refine ⟨live, g', t, ?_, ?_, hs, t'.mono (fun b hb => List.mem_cons_of_mem _ hb)⟩
  · show ((unmerge w.cbm gid).1, { w.update a with cbm := (unmerge w.cbm gid).2 }) = _
    rw [hu]
  · show (unmerge w.cbm gid).2 = g'
    rw [hu]

/-- Tie to the source: the result of `unmerge_adm(graph_id)` on the code does not depend on what the store holds under that
id when it is called (behavioural probe of gen/cbmcfg.py, regenerated every run) - as in the model, where `unmerge` has no
access to the sources (`unmerge_ignores_sources`). -/
theorem unmerge_reads_only_the_combined_model : FimVerif.Gen.CbmCfg.unmergeIgnoresSourceModel = true ∧
    ∀ (w : World) (srcs' : List Adm) (gid : String),
      (step { w with srcs := srcs' } (.unmerge gid)).1 = (step w (.unmerge gid)).1 ∧
      (step { w with srcs := srcs' } (.unmerge gid)).2.cbm = (step w (.unmerge gid)).2.cbm :=
  ⟨by decide, unmerge_ignores_sources⟩

/-- the updated advertisement of the site: the switch was swapped, the port stays -/
def exSite2 : Adm := ⟨"adm-site", ⟨[⟨"sw-2", [("Class", "NetworkNode")], [], .absent, .dict [("primary", "cap2")]⟩,
                                     ⟨"port", [("StitchNode", "true"), ("Model", "site")], [], .absent, .absent⟩],
                                    [⟨"sw-2", "port", [("Class", "connects")]⟩]⟩⟩

/-- non-vacuity: merge site and network, the site's advertisement is replaced under its id, the old one is unmerged (its
switch goes although the stored model no longer has it), the new one merged; then the site model is deleted and unmerged -/
def exUpdateHistory : List UOp :=
  [.op (.merge "adm-site"), .op (.merge "adm-net"), .op .snapshot, .update exSite2, .op (.unmerge "adm-site"), .op (.merge "adm-site"),
   .update ⟨"adm-site", ⟨[], []⟩⟩, .op (.unmerge "adm-site"), .op (.merge "adm-site")]

example : UHistOk (World.init [exSite, exNet]) exUpdateHistory ∧
    (urun (World.init [exSite, exNet]) (exUpdateHistory.take 3)).cbm.has "sw" = true ∧
    (urun (World.init [exSite, exNet]) (exUpdateHistory.take 5)).cbm.has "sw" = false ∧
    (urun (World.init [exSite, exNet]) (exUpdateHistory.take 5)).cbm.provOf "port" = ["adm-net"] ∧
    (urun (World.init [exSite, exNet]) (exUpdateHistory.take 6)).cbm.has "sw-2" = true ∧
    (urun (World.init [exSite, exNet]) (exUpdateHistory.take 6)).cbm.cdelOf "sw-2" = .dict [("adm-site", "cap2")] ∧
    (urun (World.init [exSite, exNet]) exUpdateHistory).cbm.has "sw-2" = false ∧
    (urun (World.init [exSite, exNet]) exUpdateHistory).cbm.provOf "port" = ["adm-net"] := by
  decide

/-- The abstract world of the theorems above keeps the sources by construction; the content of the clause is in
`sources_untouched_by_every_history` (model of the store) and in the correspondence, which compares the real sources'
snapshots with the store model's after every step. -/
theorem merge_sources_untouched (w : World) (ops : List Op) : (run w ops).srcs = w.srcs := run_srcs w ops

end FimVerif.C14
