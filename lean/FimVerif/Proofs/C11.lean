import FimVerif.Proofs.Lemmas.C11Spec
import FimVerif.Proofs.Lemmas.C11Pdp
import FimVerif.Proofs.Lemmas.C11Log
import FimVerif.Proofs.Lemmas.C11Validate
import FimVerif.Proofs.Lemmas.C11RoundTrip
/-!
# C11 — authorization and accounting attributes cover every resource, in any order

Model: `FimVerif.Authz` (`Model/Authz.lean`), the fold of `ResourceAuthZAttributes._collect_attributes_from_topo`
over an insertion-ordered dictionary, `transform_to_pdp_request`, and `LogCollector`; tables from `Generated/Authz.lean`.
All theorems quantify over every slice (any number of nodes, services, facilities, interfaces; any strings / integers).
-/
namespace FimVerif.C11
open FimVerif.Authz FimVerif.Gen.Authz

/-- **Exact content of the request.** For every slice and every attribute id the collected list is the direct
description `spec` (Lemmas/C11Spec): cpu/ram/disk/component/bw/facility lists are the slice's values in stored order, the
site lists are the first occurrences of the sites, the per-service-type site lists are the first occurrences of the
(effective) sites of the non-exempt services of that type, every other attribute is absent. -/
theorem collect_spec (sl : Slice) (k : Key) : get (collect sl) k = spec sl k := collect_spec_aux sl k

theorem spec_default (sl : Slice) (k : Key)
    (h1 : k ≠ .RESOURCE_TYPE) (h2 : k ≠ .RESOURCE_CPU) (h3 : k ≠ .RESOURCE_RAM) (h4 : k ≠ .RESOURCE_DISK)
    (h5 : k ≠ .RESOURCE_SITE) (h6 : k ≠ .RESOURCE_COMPONENT) (h7 : k ≠ .RESOURCE_BW) (h8 : k ≠ .RESOURCE_FACILITY_PORT) :
    spec sl k = dedup ((sl.svcs.filter fun s => decide (listedUnder (inPorts sl.ifaces) s k)).map fun s => .s (effSite s)) := by
  rw [← collect_spec]; exact spec_other sl k h1 h2 h3 h4 h5 h6 h7 h8

/-- **Completeness.** The request names the site of every node and service that has one, the cpu/ram/disk of every node
with capacities, every attached component type, the bandwidth of every service with capacities, every facility, and -
under the attribute the service-type table assigns - the (effective) site of every service of a listed type
(PortMirror, FABNetv4Ext, FABNetv6Ext) that is not an in-slice mirror. -/
theorem complete (sl : Slice) :
    (∀ n ∈ sl.nodes,
      (n.site ≠ "" → Val.s n.site ∈ get (collect sl) .RESOURCE_SITE) ∧
      (∀ c, n.caps = some c → Val.i c.core ∈ get (collect sl) .RESOURCE_CPU ∧ Val.i c.ram ∈ get (collect sl) .RESOURCE_RAM ∧
        Val.i c.disk ∈ get (collect sl) .RESOURCE_DISK) ∧
      (∀ cs, n.comps = some cs → ∀ c ∈ cs, Val.s c ∈ get (collect sl) .RESOURCE_COMPONENT)) ∧
    (∀ s ∈ sl.svcs,
      (s.site ≠ "" → Val.s s.site ∈ get (collect sl) .RESOURCE_SITE) ∧
      (∀ b, s.bw = some b → Val.i b ∈ get (collect sl) .RESOURCE_BW) ∧
      (∀ k, lutFind s.stype nstypeLut = some k → ¬ exempt (inPorts sl.ifaces) s →
        Val.s (effSite s) ∈ get (collect sl) k)) ∧
    (∀ f ∈ sl.facs, Val.s f ∈ get (collect sl) .RESOURCE_FACILITY_PORT) := by
  refine ⟨fun n hn => ⟨?_, ?_, ?_⟩, fun s hs => ⟨?_, ?_, ?_⟩, fun f hf => ?_⟩
  · intro h
    rw [collect_spec]; simp only [spec, mem_dedup, List.mem_append, List.mem_flatMap]
    exact Or.inl ⟨n, hn, by simp [siteVal, h]⟩
  · intro c hc
    simp only [collect_spec, spec, List.mem_flatMap]
    exact ⟨⟨n, hn, by simp [hc, optVal]⟩, ⟨n, hn, by simp [hc, optVal]⟩, ⟨n, hn, by simp [hc, optVal]⟩⟩
  · intro cs hcs c hc
    simp only [collect_spec, spec, List.mem_flatMap]
    exact ⟨n, hn, by simp [hcs, hc]⟩
  · intro h
    rw [collect_spec]; simp only [spec, mem_dedup, List.mem_append, List.mem_flatMap]
    exact Or.inr ⟨s, hs, by simp [siteVal, h]⟩
  · intro b hb
    simp only [collect_spec, spec, List.mem_flatMap]
    exact ⟨s, hs, by simp [hb, optVal]⟩
  · intro k hk he
    obtain ⟨h1, h2, h3, h4, h7, h5, h6, h8⟩ := lut_disjoint k (lut_keys _ _ hk)
    rw [collect_spec, spec_default sl k h1 h2 h3 h4 h5 h6 h7 h8, mem_dedup, List.mem_map]
    exact ⟨s, by simp [List.mem_filter, hs, listedUnder, hk, he], rfl⟩
  · simp only [collect_spec, spec, List.mem_map]
    exact ⟨f, hf, rfl⟩

/-- The three listed service types by name, on the regenerated table: an externally routed service's site is under its
own attribute, and so is the site of a mirror service whose mirrored port is outside the slice. -/
theorem complete_named (sl : Slice) (s : SvcS) (hs : s ∈ sl.svcs) :
    (s.stype = "FABNetv4Ext" → Val.s (effSite s) ∈ get (collect sl) .RESOURCE_FABNETV4_EXT) ∧
    (s.stype = "FABNetv6Ext" → Val.s (effSite s) ∈ get (collect sl) .RESOURCE_FABNETV6_EXT) ∧
    (s.stype = "PortMirror" → s.mport ∉ inPorts sl.ifaces → Val.s (effSite s) ∈ get (collect sl) .RESOURCE_MIRROR_SITE) := by
  have hc := ((complete sl).2.1 s hs).2.2
  refine ⟨fun h => ?_, fun h => ?_, fun h hp => ?_⟩
  · exact hc _ (by rw [h]; decide) (by intro he; rw [exempt, h] at he; exact absurd he.1 (by decide))
  · exact hc _ (by rw [h]; decide) (by intro he; rw [exempt, h] at he; exact absurd he.1 (by decide))
  · exact hc _ (by rw [h]; decide) (fun he => hp he.2)

/-- **Soundness of the per-type site lists / meaning of the exemption.** A site is listed under a service-type attribute
only on behalf of a non-exempt service of that type at that site: an in-slice mirror contributes nothing and removes
nothing. -/
theorem sound (sl : Slice) (k : Key) (hk : k ∈ nstypeLut.map (·.2)) (v : Val) (hv : v ∈ get (collect sl) k) :
    ∃ s ∈ sl.svcs, lutFind s.stype nstypeLut = some k ∧ ¬ exempt (inPorts sl.ifaces) s ∧ v = .s (effSite s) := by
  obtain ⟨h1, h2, h3, h4, h7, h5, h6, h8⟩ := lut_disjoint k hk
  rw [collect_spec, spec_default sl k h1 h2 h3 h4 h5 h6 h7 h8, mem_dedup, List.mem_map] at hv
  obtain ⟨s, hs, rfl⟩ := hv
  rw [List.mem_filter] at hs
  have h2 : listedUnder (inPorts sl.ifaces) s k := of_decide_eq_true hs.2
  exact ⟨s, hs.1, h2.1, h2.2, rfl⟩

/-- two stored orders of the same slice -/
structure SlicePerm (a b : Slice) : Prop where
  nodes : a.nodes.Perm b.nodes
  svcs : a.svcs.Perm b.svcs
  facs : a.facs.Perm b.facs
  ifaces : a.ifaces.Perm b.ifaces

example : SlicePerm
    ⟨[], [⟨"pmout", "PortMirror", "S", none, some "outport"⟩, ⟨"pmin", "PortMirror", "S", none, some "inport"⟩], [], [some (some "inport")]⟩
    ⟨[], [⟨"pmin", "PortMirror", "S", none, some "inport"⟩, ⟨"pmout", "PortMirror", "S", none, some "outport"⟩], [], [some (some "inport")]⟩ :=
  ⟨List.Perm.refl _, List.Perm.swap _ _ _, List.Perm.refl _, List.Perm.refl _⟩

theorem listed_congr {a b : Slice} (h : SlicePerm a b) (s : SvcS) (k : Key) :
    listedUnder (inPorts a.ifaces) s k ↔ listedUnder (inPorts b.ifaces) s k := by
  have hp : (inPorts a.ifaces).Perm (inPorts b.ifaces) := h.ifaces.filterMap _
  unfold listedUnder exempt
  rw [hp.mem_iff]

/-- **Order independence.** For two stored orders of the same slice every attribute holds the same values with the same
multiplicities (`List.Perm`: the code appends in iteration order, so positions differ, contents do not). -/
theorem perm_invariant {a b : Slice} (h : SlicePerm a b) (k : Key) : (get (collect a) k).Perm (get (collect b) k) := by
  have hdef : ∀ k, k ≠ .RESOURCE_TYPE → k ≠ .RESOURCE_CPU → k ≠ .RESOURCE_RAM → k ≠ .RESOURCE_DISK →
      k ≠ .RESOURCE_SITE → k ≠ .RESOURCE_COMPONENT → k ≠ .RESOURCE_BW → k ≠ .RESOURCE_FACILITY_PORT →
      (spec a k).Perm (spec b k) := by
    intro k h1 h2 h3 h4 h5 h6 h7 h8
    rw [spec_default a k h1 h2 h3 h4 h5 h6 h7 h8, spec_default b k h1 h2 h3 h4 h5 h6 h7 h8]
    apply dedup_perm
    have : (b.svcs.filter fun s => decide (listedUnder (inPorts b.ifaces) s k))
        = (b.svcs.filter fun s => decide (listedUnder (inPorts a.ifaces) s k)) :=
      List.filter_congr (fun s _ => by simp only [listed_congr h s k])
    rw [this]
    exact (h.svcs.filter _).map _
  rw [collect_spec, collect_spec]
  cases k
  case RESOURCE_TYPE => simp only [spec, h.nodes.any_eq]; exact List.Perm.refl _
  case RESOURCE_CPU => exact h.nodes.flatMap_right _
  case RESOURCE_RAM => exact h.nodes.flatMap_right _
  case RESOURCE_DISK => exact h.nodes.flatMap_right _
  case RESOURCE_COMPONENT => exact h.nodes.flatMap_right _
  case RESOURCE_BW => exact h.svcs.flatMap_right _
  case RESOURCE_SITE => exact dedup_perm ((h.nodes.flatMap_right _).append (h.svcs.flatMap_right _))
  case RESOURCE_FACILITY_PORT => exact h.facs.map _
  all_goals exact hdef _ (by decide) (by decide) (by decide) (by decide) (by decide) (by decide) (by decide) (by decide)

/-- the dictionary has unique keys and no empty attribute, so the attribute ids present are exactly those with values -/
theorem keys_exact (sl : Slice) (k : Key) : k ∈ keys (collect sl) ↔ spec sl k ≠ [] := by
  rw [← collect_spec]; exact mem_keys_iff _ (good_collect sl).2 k

/-- **Order independence of the set of attributes present** (hence of the PDP request up to the order of its entries). -/
theorem keys_perm_invariant {a b : Slice} (h : SlicePerm a b) : (keys (collect a)).Perm (keys (collect b)) := by
  rw [List.perm_ext_iff_of_nodup (good_collect a).1 (good_collect b).1]
  intro k
  rw [mem_keys_iff _ (good_collect a).2, mem_keys_iff _ (good_collect b).2]
  have hp := perm_invariant h k
  constructor
  · intro hne he; rw [he] at hp; exact hne hp.eq_nil
  · intro hne he; rw [he] at hp; exact hne hp.symm.eq_nil

/-! ### PDP request -/

/-- every attribute constant has a data type and a category, and the category is one of the request's three (checked on
the regenerated table; a constant without a row would make `transform_to_pdp_request` raise `KeyError`) -/
theorem table_total : ∀ k : Key, k.dataType.isSome ∧ k.category.isSome ∧ (∀ c, k.category = some c → c ∈ categories) := by
  intro k; cases k <;> decide

/-- distinct attribute constants have distinct ids (regenerated table) -/
theorem ids_injective : ∀ k k' : Key, k.id = k'.id → k = k' := Authz.ids_injective

theorem map_fst_pair {α β : Type} (f : α → β) (l : List α) : (l.map fun c => (c, f c)).map (·.1) = l := by
  induction l with
  | nil => rfl
  | cons x xs ih => simp [ih]

/-- `transform_to_pdp_request` never fails and returns the three categories in order, for any attribute dictionary -/
theorem pdp_total (a : Attrs) : ∃ req, toPdp a = some req ∧ req.map (·.1) = categories := by
  refine ⟨_, toPdp_eq a, ?_⟩
  exact map_fst_pair _ _

/-- **Well-formed PDP request.** For every slice the request exists, has exactly the (pairwise distinct) categories of
the code, and every collected attribute `(k, v)` - where `v` is exactly `spec sl k` - occurs in the category the table
assigns to `k` exactly once, with its data type and all its values, and in no other category. -/
theorem pdp_request_wellformed (sl : Slice) :
    ∃ req, toPdp (collect sl) = some req ∧ req.map (·.1) = categories ∧ categories.Nodup ∧
      ∀ k v, (k, v) ∈ collect sl → v = spec sl k ∧
        ∃ dt cat, k.dataType = some dt ∧ k.category = some cat ∧ cat ∈ categories ∧
          ∀ c as, (c, as) ∈ req →
            as.filter (fun x => decide (x.id = k.id)) = if cat = c then [⟨k.id, dt, v⟩] else [] := by
  refine ⟨_, toPdp_eq _, map_fst_pair _ _, categories_nodup, ?_⟩
  intro k v hm
  have hg := good_collect sl
  refine ⟨by rw [← collect_spec]; exact (mem_of_mem_attrs _ hg.1 k v hm).symm, ?_⟩
  obtain ⟨dt, cat, hdt, hcat, hin⟩ := key_rows k
  refine ⟨dt, cat, hdt, hcat, hin, ?_⟩
  intro c as hc
  rw [List.mem_map] at hc
  obtain ⟨c', _, he⟩ := hc
  simp only [Prod.mk.injEq] at he
  obtain ⟨rfl, rfl⟩ := he
  exact filter_row_present _ hg.1 k v hm dt cat hdt hcat c'

/-- and every attribute of the request was collected: nothing else is in it -/
theorem pdp_no_extra (sl : Slice) (req : Pdp) (h : toPdp (collect sl) = some req) (c : String) (as : List PAttr)
    (hc : (c, as) ∈ req) (x : PAttr) (hx : x ∈ as) :
    ∃ k v, (k, v) ∈ collect sl ∧ x.id = k.id ∧ x.value = v ∧ k.category = some c := by
  rw [toPdp_eq] at h
  simp only [Option.some.injEq] at h
  subst h
  rw [List.mem_map] at hc
  obtain ⟨c', _, he⟩ := hc
  simp only [Prod.mk.injEq] at he
  obtain ⟨rfl, rfl⟩ := he
  rw [List.mem_filterMap] at hx
  obtain ⟨kv, hkv, hrow⟩ := hx
  refine ⟨kv.1, kv.2, hkv, ?_⟩
  unfold pdpRow at hrow
  split at hrow
  · split at hrow
    · rename_i hcat hcc; simp only [Option.some.injEq] at hrow; subst hrow; exact ⟨rfl, rfl, by rw [hcat, hcc]⟩
    · simp at hrow
  · simp at hrow

/-- the attribute ids a slice can contribute: the eight written directly and the targets of the service-type table -/
def sliceKeys : List Key :=
  [.RESOURCE_TYPE, .RESOURCE_CPU, .RESOURCE_RAM, .RESOURCE_DISK, .RESOURCE_BW, .RESOURCE_SITE, .RESOURCE_COMPONENT,
   .RESOURCE_FACILITY_PORT] ++ nstypeLut.map (·.2)

theorem collected_keys (sl : Slice) (k : Key) (h : k ∈ keys (collect sl)) : k ∈ sliceKeys := by
  rw [keys_exact] at h
  by_cases hk : k ∈ sliceKeys
  · exact hk
  · exfalso; apply h
    simp only [sliceKeys, List.mem_append, List.mem_cons, List.not_mem_nil, or_false, not_or] at hk
    obtain ⟨⟨h1, h2, h3, h4, h7, h5, h6, h8⟩, hl⟩ := hk
    rw [spec_default sl k h1 h2 h3 h4 h5 h6 h7 h8]
    have : (sl.svcs.filter fun s => decide (listedUnder (inPorts sl.ifaces) s k)) = [] := by
      rw [List.filter_eq_nil_iff]
      intro s _ hs
      exact hl (lut_keys _ _ (of_decide_eq_true hs).1)
    rw [this]; rfl

/-- **Everything collected from a slice describes the resource**: it is emitted in the category of `resource-type`
(the resource category), on the regenerated tables. -/
theorem collected_in_resource_category (sl : Slice) (k : Key) (h : k ∈ keys (collect sl)) :
    k.category = Key.RESOURCE_TYPE.category ∧ Key.RESOURCE_TYPE.category = categories.head? := by
  have : ∀ k ∈ sliceKeys, k.category = Key.RESOURCE_TYPE.category := by decide
  exact ⟨this k (collected_keys sl k h), by decide⟩

/-! ### accounting summary (LogCollector) -/

theorem logCollect_fields (sl : Slice) :
    (logCollect sl).vm = sl.nodes.countP (fun n => decide (n.ntype = vmType)) ∧
    (logCollect sl).p4 = sl.nodes.countP (fun n => decide (n.ntype = swType)) ∧
    (logCollect sl).nodes = sl.nodes.filterMap vmCap ∧
    (logCollect sl).cores = isum ((sl.nodes.filterMap vmCap).map (·.core)) ∧
    (∀ t, cnt (logCollect sl).comps t = (sl.nodes.flatMap fun n => n.comps.getD []).count t) ∧
    (logCollect sl).svcs = sl.svcs.map (fun s => (s.stype, s.bw.getD 0)) ∧
    (logCollect sl).sites = addAll (addAll [] (sl.nodes.flatMap fun n => siteOf n.site)) (sl.svcs.flatMap fun s => siteOf s.site) ∧
    (logCollect sl).facs = addAll (addAll [] (sl.nodes.flatMap facName)) sl.facs := by
  unfold logCollect
  obtain ⟨f1, f2, f3, f4, f5, f6, f7, f8⟩ := foldFac sl.facs (sl.svcs.foldl logSvc (sl.nodes.foldl logNode {}))
  obtain ⟨s1, s2, s3, s4, s5, s6, s7, s8⟩ := foldSvc sl.svcs (sl.nodes.foldl logNode {})
  refine ⟨?_, ?_, ?_, ?_, ?_, ?_, ?_, ?_⟩
  · rw [f1, s1, foldNode_vm]; simp
  · rw [f2, s2, foldNode_p4]; simp
  · rw [f4, s4, foldNode_nodes]; simp
  · rw [f3, s3, foldNode_cores]; simp
  · intro t; rw [f5, s5, foldNode_comps]; simp [cnt]
  · rw [f6, s7, foldNode_svcs]; simp
  · rw [f7, s8, foldNode_sites]
  · rw [f8, s6, foldNode_facs]

/-- **Accounting tallies equal a direct count of the slice**: VMs and switches by node type, cores and the VM capacity
list over the VMs that have an allocation or a capacity (allocation preferred), components by type, one `(type, bw)` entry
per service (bw 0 without capacities), the set of non-empty node and service sites, the set of facility names (facility
list and Facility-typed nodes); the two sets are duplicate-free. -/
theorem log_counts (sl : Slice) :
    (logCollect sl).vm = sl.nodes.countP (fun n => decide (n.ntype = "VM")) ∧
    (logCollect sl).p4 = sl.nodes.countP (fun n => decide (n.ntype = "Switch")) ∧
    (logCollect sl).nodes = sl.nodes.filterMap vmCap ∧
    (logCollect sl).cores = isum ((sl.nodes.filterMap vmCap).map (·.core)) ∧
    (∀ t, cnt (logCollect sl).comps t = (sl.nodes.flatMap fun n => n.comps.getD []).count t) ∧
    (logCollect sl).svcs = sl.svcs.map (fun s => (s.stype, s.bw.getD 0)) ∧
    (∀ x, x ∈ (logCollect sl).sites ↔ x ≠ "" ∧ ((∃ n ∈ sl.nodes, n.site = x) ∨ (∃ s ∈ sl.svcs, s.site = x))) ∧
    (∀ x, x ∈ (logCollect sl).facs ↔ x ∈ sl.facs ∨ ∃ n ∈ sl.nodes, n.ntype = "Facility" ∧ n.name = x) ∧
    (logCollect sl).sites.Nodup ∧ (logCollect sl).facs.Nodup := by
  obtain ⟨h1, h2, h3, h4, h5, h6, h7, h8⟩ := logCollect_fields sl
  refine ⟨h1, h2, h3, h4, h5, h6, ?_, ?_, ?_, ?_⟩
  · intro x
    rw [h7, mem_addAll, mem_addAll, List.mem_flatMap, List.mem_flatMap]
    simp only [List.not_mem_nil, false_or, siteOf]
    constructor
    · rintro (⟨n, hn, hx⟩ | ⟨s, hs, hx⟩)
      · by_cases h : n.site = "" <;> simp [h] at hx
        subst hx; exact ⟨h, Or.inl ⟨n, hn, rfl⟩⟩
      · by_cases h : s.site = "" <;> simp [h] at hx
        subst hx; exact ⟨h, Or.inr ⟨s, hs, rfl⟩⟩
    · rintro ⟨hne, ⟨n, hn, rfl⟩ | ⟨s, hs, rfl⟩⟩
      · exact Or.inl ⟨n, hn, by simp [hne]⟩
      · exact Or.inr ⟨s, hs, by simp [hne]⟩
  · intro x
    rw [h8, mem_addAll, mem_addAll, List.mem_flatMap]
    simp only [List.not_mem_nil, false_or, facName]
    constructor
    · rintro (⟨n, hn, hx⟩ | hx)
      · by_cases h : n.ntype = facType <;> simp [h] at hx
        subst hx; exact Or.inr ⟨n, hn, h, rfl⟩
      · exact Or.inl hx
    · rintro (hx | ⟨n, hn, ht, rfl⟩)
      · exact Or.inr hx
      · exact Or.inl ⟨n, hn, by rw [if_pos (show n.ntype = facType from ht)]; simp⟩
  · rw [h7]; exact nodup_addAll _ _ (nodup_addAll _ _ List.nodup_nil)
  · rw [h8]; exact nodup_addAll _ _ (nodup_addAll _ _ List.nodup_nil)

/-- **The accounting summary does not depend on the stored order** (lists as multisets, sets as sets). -/
theorem log_perm_invariant {a b : Slice} (h : SlicePerm a b) :
    (logCollect a).vm = (logCollect b).vm ∧ (logCollect a).p4 = (logCollect b).p4 ∧
    (logCollect a).cores = (logCollect b).cores ∧ ((logCollect a).nodes).Perm (logCollect b).nodes ∧
    (∀ t, cnt (logCollect a).comps t = cnt (logCollect b).comps t) ∧
    ((logCollect a).svcs).Perm (logCollect b).svcs ∧
    ((logCollect a).sites).Perm (logCollect b).sites ∧ ((logCollect a).facs).Perm (logCollect b).facs := by
  obtain ⟨a1, a2, a3, a4, a5, a6, a7, a8, a9, a10⟩ := log_counts a
  obtain ⟨b1, b2, b3, b4, b5, b6, b7, b8, b9, b10⟩ := log_counts b
  refine ⟨?_, ?_, ?_, ?_, ?_, ?_, ?_, ?_⟩
  · rw [a1, b1]; exact h.nodes.countP_eq _
  · rw [a2, b2]; exact h.nodes.countP_eq _
  · rw [a4, b4]; exact isum_perm ((h.nodes.filterMap _).map _)
  · rw [a3, b3]; exact h.nodes.filterMap _
  · intro t; rw [a5, b5]; exact (h.nodes.flatMap_right _).count_eq t
  · rw [a6, b6]; exact h.svcs.map _
  · rw [List.perm_ext_iff_of_nodup a9 b9]; intro x; rw [a7, b7]
    have e1 : (∃ n ∈ a.nodes, n.site = x) ↔ (∃ n ∈ b.nodes, n.site = x) :=
      ⟨fun ⟨n, hn, e⟩ => ⟨n, h.nodes.mem_iff.mp hn, e⟩, fun ⟨n, hn, e⟩ => ⟨n, h.nodes.mem_iff.mpr hn, e⟩⟩
    have e2 : (∃ s ∈ a.svcs, s.site = x) ↔ (∃ s ∈ b.svcs, s.site = x) :=
      ⟨fun ⟨n, hn, e⟩ => ⟨n, h.svcs.mem_iff.mp hn, e⟩, fun ⟨n, hn, e⟩ => ⟨n, h.svcs.mem_iff.mpr hn, e⟩⟩
    rw [e1, e2]
  · rw [List.perm_ext_iff_of_nodup a10 b10]; intro x; rw [a8, b8, h.facs.mem_iff]
    have e1 : (∃ n ∈ a.nodes, n.ntype = "Facility" ∧ n.name = x) ↔ (∃ n ∈ b.nodes, n.ntype = "Facility" ∧ n.name = x) :=
      ⟨fun ⟨n, hn, e⟩ => ⟨n, h.nodes.mem_iff.mp hn, e⟩, fun ⟨n, hn, e⟩ => ⟨n, h.nodes.mem_iff.mpr hn, e⟩⟩
    rw [e1]

/-! ### topology object vs serialised model -/

theorem inferSite_idem (r : RawSvc) : inferSite { r with svc := inferSite r } = inferSite r := by
  unfold inferSite
  cases hl : r.limited
  · simp
  · simp only [if_true]
    split
    · rename_i x hx
      by_cases hs : r.svc.site = ""
      · simp only [hs, if_true]
        by_cases hx0 : x = "" <;> simp [hx0]
      · simp [hs]
    · rename_i hx
      split
      · rename_i x hx'; exact absurd hx' (hx x)
      · rfl

theorem recordSites_stamp (rs : RawSlice) : recordSites (stamp rs) = recordSites rs := by
  unfold recordSites stamp
  simp only [List.map_map]
  congr 1
  apply List.map_congr_left
  intro r _
  exact inferSite_idem r

/-- **Topology object vs serialised model.** The ASM path validates before it collects, so the model serialised
*before* `validate()` ever ran (`rs`), the model serialised *after* it (`stamp rs`: inferred sites stored) and the
validated topology object (`recordSites rs`) all yield the same attributes and the same accounting summary. (That the
rebuilt topology presents the same slivers is the GraphML round trip, C01, and is checked on the implementation.) -/
theorem asm_eq_topo (rs : RawSlice) :
    collectAsm rs = collect (recordSites rs) ∧ collectAsm (stamp rs) = collect (recordSites rs) ∧
    logCollectAsm rs = logCollect (recordSites rs) ∧ logCollectAsm (stamp rs) = logCollect (recordSites rs) := by
  unfold collectAsm logCollectAsm
  rw [recordSites_stamp]
  exact ⟨rfl, rfl, rfl, rfl⟩

/-- the inference is not vacuous: an undeclared single-site service gets its owner's site, and without the inference
(`validate()` skipped) the external site would be listed as unknown -/
theorem asm_inference_matters :
    let r : RawSvc := ⟨⟨"v4a", "FABNetv4Ext", "", none, none⟩, ["RENC"], true⟩
    get (collectAsm ⟨[], [r], [], []⟩) .RESOURCE_FABNETV4_EXT = [.s "RENC"] ∧
    get (collect ⟨[], [r.svc], [], []⟩) .RESOURCE_FABNETV4_EXT = [.s unknownSite] := by
  refine ⟨?_, ?_⟩ <;> decide

/-! ### the defect repaired by /repo a372b34, on the pre-repair fold (`collectLegacy`, no longer the code) -/

def legacyA : Slice :=
  ⟨[], [⟨"pmout", "PortMirror", "S", none, some "outport"⟩, ⟨"pmin", "PortMirror", "S", none, some "inport"⟩], [], [some (some "inport")]⟩
def legacyB : Slice :=
  ⟨[], [⟨"pmin", "PortMirror", "S", none, some "inport"⟩, ⟨"pmout", "PortMirror", "S", none, some "outport"⟩], [], [some (some "inport")]⟩
def legacyC : Slice :=
  ⟨[], [⟨"ma", "PortMirror", "A", none, some "out1"⟩, ⟨"mb", "PortMirror", "B", none, some "out2"⟩,
        ⟨"mc", "PortMirror", "A", none, some "inport"⟩], [], [some (some "inport")]⟩

/-- With the exemption written as append-if-absent followed by `pop()`, the full statements `complete` and
`perm_invariant` were false: the outside-port mirror at S is not named in one stored order (corpus/C11/01) and is in the
other; with three mirrors the popped element is the site of an unrelated service (corpus/C11/02). The repaired fold
names them. -/
theorem legacy_mirror_counterexample :
    get (collectLegacy legacyA) .RESOURCE_MIRROR_SITE = [] ∧
    get (collectLegacy legacyB) .RESOURCE_MIRROR_SITE = [.s "S"] ∧
    get (collectLegacy legacyC) .RESOURCE_MIRROR_SITE = [.s "A"] ∧
    get (collect legacyA) .RESOURCE_MIRROR_SITE = [.s "S"] ∧
    get (collect legacyB) .RESOURCE_MIRROR_SITE = [.s "S"] ∧
    get (collect legacyC) .RESOURCE_MIRROR_SITE = [.s "A", .s "B"] := by
  refine ⟨?_, ?_, ?_, ?_, ?_, ?_⟩ <;> decide

/-- non-vacuity of the hypothesis of `sound` -/
example : Key.RESOURCE_MIRROR_SITE ∈ nstypeLut.map (·.2) := by decide

/-! ### the collectors leave the caller's slivers as they were (defect repaired by /repo 0131a6f) -/

theorem dispatchAuthz_obj (ns : List NodeS) (ss : List SvcS) :
    dispatchAuthz (svcStepObj []) ns ss = (collect ⟨ns, ss, [], []⟩, ss) := by
  have h : ∀ (ss : List SvcS) (a : Attrs) (acc : List SvcS),
      ss.foldl (fun (p : Attrs × List SvcS) s => (((svcStepObj []) p.1 s).1, p.2 ++ [((svcStepObj []) p.1 s).2])) (a, acc)
        = (ss.foldl (svcStep []) a, acc ++ ss) := by
    intro ss
    induction ss with
    | nil => intro a acc; simp
    | cons s ss ih =>
      intro a acc
      rw [List.foldl_cons]
      show ss.foldl _ ((svcStepObj [] a s).1, acc ++ [(svcStepObj [] a s).2]) = _
      rw [ih]
      simp [svcStepObj]
  unfold dispatchAuthz
  rw [h]
  simp [collect, inPorts]

/-- **Collecting does not change what is collected.** Authorizing, logging and authorizing again the *same* sliver
objects through the sliver dispatch gives, each time, exactly what freshly built slivers give: the authorization
attributes of the slice and its accounting tally (hence everything `AuthzClaims` says). -/
theorem shared_slivers_unchanged (ns : List NodeS) (ss : List SvcS) :
    sharedSession (svcStepObj []) ns ss
      = (collect ⟨ns, ss, [], []⟩, logCollect ⟨ns, ss, [], []⟩, collect ⟨ns, ss, [], []⟩) := by
  unfold sharedSession
  simp only [dispatchAuthz_obj]

/-- Before the repair the placeholder was written into the caller's sliver: an external service without a site
(corpus/C11/09) was then logged, and authorized again, with the site `UNKNOWN-SITE`, which the slice does not have. -/
theorem shared_slivers_legacy_counterexample :
    let ss : List SvcS := [⟨"v4", "FABNetv4Ext", "", none, none⟩]
    (sharedSession (svcStepObjLegacy []) [] ss).2.1.sites = ["UNKNOWN-SITE"] ∧
    get (sharedSession (svcStepObjLegacy []) [] ss).2.2 .RESOURCE_SITE = [.s "UNKNOWN-SITE"] ∧
    (sharedSession (svcStepObj []) [] ss).2.1.sites = [] ∧
    get (sharedSession (svcStepObj []) [] ss).2.2 .RESOURCE_SITE = [] := by
  refine ⟨?_, ?_, ?_, ?_⟩ <;> decide

/-! ### the whole property, clause by clause -/

/-- a mirrored port whose name merely *extends*, *shortens* or re-cases the name of a port of the slice is a foreign port:
the exemption is exact equality of the names (`s.mport ∈ inPorts`), so its site is named (corpus/C11/05) -/
theorem mirror_of_related_port_name_listed :
    let own := "HundredGigE0/0/0/1"
    ∀ foreign ∈ ["HundredGigE0/0/0/10", "HundredGigE0/0/0/1.100", "HundredGigE0/0/0/", "hundredgige0/0/0/1", ""],
      get (collect ⟨[], [⟨"pm", "PortMirror", "RENC", none, some foreign⟩], [], [some (some own)]⟩) .RESOURCE_MIRROR_SITE = [.s "RENC"] ∧
      get (collect ⟨[], [⟨"pm", "PortMirror", "RENC", none, some own⟩], [], [some (some own)]⟩) .RESOURCE_MIRROR_SITE = [] := by
  decide

/-- a VM without capacities and without allocation (sized by an instance-type hint, or not at all) is a VM: it is
counted, adds no cores and no capacity record -/
theorem vm_without_capacities_counted (l : Log) (n : NodeS) (ht : n.ntype = "VM") (hc : n.caps = none) (ha : n.alloc = none) :
    (logNode l n).vm = l.vm + 1 ∧ (logNode l n).cores = l.cores ∧ (logNode l n).nodes = l.nodes := by
  have hv : n.ntype = vmType := ht
  refine ⟨?_, ?_, ?_⟩
  · rw [logNode_vm, if_pos hv]
  · rw [logNode_cores]; simp [vmCap, hv, hc, ha]
  · rw [logNode_nodes]; simp [vmCap, hv, hc, ha]

/-- Every clause of the property, for one slice as the collectors see it. -/
structure AuthzClaims (sl : Slice) : Prop where
  /-- every site used - by a node or by a service - is named -/
  every_site : ∀ x, x ≠ "" → ((∃ n ∈ sl.nodes, n.site = x) ∨ (∃ s ∈ sl.svcs, s.site = x)) →
    Val.s x ∈ get (collect sl) .RESOURCE_SITE
  /-- and only the sites used are named, each once (duplicated sites collapse; names are compared exactly) -/
  only_sites : (get (collect sl) .RESOURCE_SITE).Nodup ∧ ∀ v ∈ get (collect sl) .RESOURCE_SITE,
    ∃ x, v = .s x ∧ x ≠ "" ∧ ((∃ n ∈ sl.nodes, n.site = x) ∨ (∃ s ∈ sl.svcs, s.site = x))
  /-- every attached component type, once per component -/
  every_component_type : get (collect sl) .RESOURCE_COMPONENT = sl.nodes.flatMap fun n => (n.comps.getD []).map Val.s
  /-- CPU, RAM and disk of every node that has capacities, one entry per node, in stored order -/
  cpu_ram_disk_of_every_node :
    get (collect sl) .RESOURCE_CPU = (sl.nodes.filterMap (·.caps)).map (fun c => .i c.core) ∧
    get (collect sl) .RESOURCE_RAM = (sl.nodes.filterMap (·.caps)).map (fun c => .i c.ram) ∧
    get (collect sl) .RESOURCE_DISK = (sl.nodes.filterMap (·.caps)).map (fun c => .i c.disk)
  /-- the bandwidth of every service that has capacities -/
  bandwidth_of_every_service : get (collect sl) .RESOURCE_BW = (sl.svcs.filterMap (·.bw)).map Val.i
  /-- every facility -/
  every_facility : get (collect sl) .RESOURCE_FACILITY_PORT = sl.facs.map Val.s
  /-- the site of every externally routed service, under the attribute of its kind -/
  ext_service_sites : ∀ s ∈ sl.svcs,
    (s.stype = "FABNetv4Ext" → Val.s (effSite s) ∈ get (collect sl) .RESOURCE_FABNETV4_EXT) ∧
    (s.stype = "FABNetv6Ext" → Val.s (effSite s) ∈ get (collect sl) .RESOURCE_FABNETV6_EXT)
  /-- the site of every port-mirror service whose mirrored port is not (exactly) one of the slice's ports -/
  foreign_mirror_sites : ∀ s ∈ sl.svcs, s.stype = "PortMirror" → s.mport ∉ inPorts sl.ifaces →
    Val.s (effSite s) ∈ get (collect sl) .RESOURCE_MIRROR_SITE
  /-- a site is listed under one of the three per-kind attributes only on behalf of such a service of that kind; each once -/
  listed_only_for_such : ∀ k ∈ nstypeLut.map (·.2), (get (collect sl) k).Nodup ∧ ∀ v ∈ get (collect sl) k,
    ∃ s ∈ sl.svcs, lutFind s.stype nstypeLut = some k ∧ ¬ exempt (inPorts sl.ifaces) s ∧ v = .s (effSite s)
  /-- the resource type is the switch type iff some node is a switch, whatever the order -/
  resource_type : get (collect sl) .RESOURCE_TYPE =
    if sl.nodes.any (fun n => decide (n.ntype = switchNodeType)) then [.s switchType] else [.s initType]
  /-- nothing else is collected -/
  nothing_else : ∀ k ∈ keys (collect sl), k ∈ sliceKeys
  /-- the result does not depend on the order in which nodes, services, facilities or interfaces are stored -/
  order_independent : ∀ sl', SlicePerm sl sl' →
    (∀ k, (get (collect sl) k).Perm (get (collect sl') k)) ∧ (keys (collect sl)).Perm (keys (collect sl'))
  /-- the PDP request exists and carries every collected attribute, with its data type and all its values, in the
  resource category (the first of the request) -/
  request : ∃ req, toPdp (collect sl) = some req ∧ req.map (·.1) = categories ∧
    ∀ k v, (k, v) ∈ collect sl → ∃ dt cat as, k.dataType = some dt ∧ k.category = some cat ∧
      categories.head? = some cat ∧ (cat, as) ∈ req ∧ (⟨k.id, dt, v⟩ : PAttr) ∈ as
  /-- accounting: VMs (every node of type VM, with or without capacities), switches, cores and capacity records
  (allocation preferred), components by type, services, sites, facilities equal a direct tally -/
  accounting :
    (logCollect sl).vm = (sl.nodes.filter fun n => decide (n.ntype = "VM")).length ∧
    (logCollect sl).p4 = (sl.nodes.filter fun n => decide (n.ntype = "Switch")).length ∧
    (logCollect sl).nodes = sl.nodes.filterMap vmCap ∧
    (logCollect sl).cores = isum ((sl.nodes.filterMap vmCap).map (·.core)) ∧
    (∀ t, cnt (logCollect sl).comps t = (sl.nodes.flatMap fun n => n.comps.getD []).count t) ∧
    (logCollect sl).svcs = sl.svcs.map (fun s => (s.stype, s.bw.getD 0)) ∧
    (∀ x, x ∈ (logCollect sl).sites ↔ x ≠ "" ∧ ((∃ n ∈ sl.nodes, n.site = x) ∨ (∃ s ∈ sl.svcs, s.site = x))) ∧
    (∀ x, x ∈ (logCollect sl).facs ↔ x ∈ sl.facs ∨ ∃ n ∈ sl.nodes, n.ntype = "Facility" ∧ n.name = x) ∧
    (logCollect sl).sites.Nodup ∧ (logCollect sl).facs.Nodup
  /-- and the accounting summary does not depend on the stored order either -/
  accounting_order_independent : ∀ sl', SlicePerm sl sl' →
    (logCollect sl).vm = (logCollect sl').vm ∧ (logCollect sl).p4 = (logCollect sl').p4 ∧
    (logCollect sl).cores = (logCollect sl').cores ∧ ((logCollect sl).nodes).Perm (logCollect sl').nodes ∧
    (∀ t, cnt (logCollect sl).comps t = cnt (logCollect sl').comps t) ∧
    ((logCollect sl).svcs).Perm (logCollect sl').svcs ∧
    ((logCollect sl).sites).Perm (logCollect sl').sites ∧ ((logCollect sl).facs).Perm (logCollect sl').facs

theorem flatMap_optVal_map {α β : Type} (f : α → Option β) (g : β → Val) (xs : List α) :
    (xs.flatMap fun x => optVal ((f x).map g)) = (xs.filterMap f).map g := by
  induction xs with
  | nil => rfl
  | cons x xs ih =>
    simp only [List.flatMap_cons, ih, List.filterMap_cons]
    cases f x <;> simp [optVal]

/-- every clause holds for every slice -/
theorem authz_claims (sl : Slice) : AuthzClaims sl where
  every_site := by
    intro x hx h
    rcases h with ⟨n, hn, rfl⟩ | ⟨s, hs, rfl⟩
    · exact ((complete sl).1 n hn).1 hx
    · exact ((complete sl).2.1 s hs).1 hx
  only_sites := by
    rw [collect_spec]
    refine ⟨nodup_dedup _, ?_⟩
    intro v hv
    simp only [spec, mem_dedup, List.mem_append, List.mem_flatMap] at hv
    rcases hv with ⟨n, hn, hv⟩ | ⟨s, hs, hv⟩
    · by_cases h : n.site = "" <;> simp [siteVal, h] at hv
      exact ⟨n.site, hv, h, Or.inl ⟨n, hn, rfl⟩⟩
    · by_cases h : s.site = "" <;> simp [siteVal, h] at hv
      exact ⟨s.site, hv, h, Or.inr ⟨s, hs, rfl⟩⟩
  every_component_type := by rw [collect_spec]; rfl
  cpu_ram_disk_of_every_node := by
    refine ⟨?_, ?_, ?_⟩ <;> rw [collect_spec] <;> exact flatMap_optVal_map _ _ _
  bandwidth_of_every_service := by rw [collect_spec]; exact flatMap_optVal_map _ _ _
  every_facility := by rw [collect_spec]; rfl
  ext_service_sites := fun s hs => ⟨(complete_named sl s hs).1, (complete_named sl s hs).2.1⟩
  foreign_mirror_sites := fun s hs => (complete_named sl s hs).2.2
  listed_only_for_such := by
    intro k hk
    refine ⟨?_, sound sl k hk⟩
    obtain ⟨h1, h2, h3, h4, h7, h5, h6, h8⟩ := lut_disjoint k hk
    rw [collect_spec, spec_default sl k h1 h2 h3 h4 h5 h6 h7 h8]
    exact nodup_dedup _
  resource_type := by rw [collect_spec]; rfl
  nothing_else := collected_keys sl
  order_independent := fun _ h => ⟨perm_invariant h, keys_perm_invariant h⟩
  request := by
    obtain ⟨req, hreq, hcats, _, hall⟩ := pdp_request_wellformed sl
    refine ⟨req, hreq, hcats, ?_⟩
    intro k v hm
    obtain ⟨_, dt, cat, hdt, hcat, hin, hrow⟩ := hall k v hm
    have hk : k ∈ keys (collect sl) := List.mem_map.mpr ⟨(k, v), hm, rfl⟩
    obtain ⟨hrc, hhead⟩ := collected_in_resource_category sl k hk
    have : cat ∈ req.map (·.1) := by rw [hcats]; exact hin
    obtain ⟨p, hp, hp1⟩ := List.mem_map.mp this
    refine ⟨dt, cat, p.2, hdt, hcat, ?_, ?_, ?_⟩
    · rw [← hhead, ← hrc, hcat]
    · rw [← hp1]; exact hp
    · have := hrow p.1 p.2 hp
      rw [hp1, if_pos rfl] at this
      have hmem : (⟨k.id, dt, v⟩ : PAttr) ∈ p.2.filter (fun x => decide (x.id = k.id)) := by rw [this]; simp
      exact (List.mem_filter.mp hmem).1
  accounting := by
    obtain ⟨h1, h2, h3, h4, h5, h6, h7, h8, h9, h10⟩ := log_counts sl
    exact ⟨by rw [h1, List.countP_eq_length_filter], by rw [h2, List.countP_eq_length_filter], h3, h4, h5, h6, h7, h8, h9, h10⟩
  accounting_order_independent := fun _ h => log_perm_invariant h

/-! ### the layers under the collectors, as named hypotheses -/

/-- The parts of the library the collectors stand on, as far as the property depends on them. `G` is whatever a stored
slice graph is. -/
structure Layers (G : Type) where
  /-- **H_present** (C02/C07 territory, not proved here): what `topo.nodes`, `network_services`, `facilities`,
  `interface_list` and `get_sliver()` present of a graph: node slivers, services with their *declared* site plus what
  `validate()` reads of them (owner sites of their interfaces, whether the type limits sites), facility names, the
  labels of the peers of the node interfaces. Every statement below is about the slice *as presented*. -/
  present : G → RawSlice
  /-- `ExperimentTopology(graph_string = asm.serialize_graph())` inside `_collect_attributes_from_asm` -/
  reimport : G → G
  /-- `Topology.validate()`; `none` = it raises -/
  validate : G → Option G

/-- the hypotheses, by name -/
structure Layers.Hyp {G : Type} (L : Layers G) : Prop where
  /-- **H_roundtrip** (C01: `roundtrip_import_string` shows the re-imported graph is the stored one up to internal node
  ids and GraphID): serialising and importing again presents the same slivers. -/
  H_roundtrip : ∀ g, L.present (L.reimport g) = L.present g
  /-- **H_validate_records_sites** (C10: discharged for C10's model of `validate()` by
  `Authz.validate10_records_sites`): a successful `validate()` changes nothing the collectors read except the sites of
  the services, which become the inferred ones. -/
  H_validate_records_sites : ∀ g g', L.validate g = some g' → L.present g' = stamp (L.present g)

/-- the slivers the collectors read of what is presented (no inference of their own) -/
def seen (rs : RawSlice) : Slice := { nodes := rs.nodes, svcs := rs.svcs.map (·.svc), facs := rs.facs, ifaces := rs.ifaces }

theorem seen_stamp (rs : RawSlice) : seen (stamp rs) = recordSites rs := by
  unfold seen stamp recordSites
  simp [List.map_map, Function.comp_def]

theorem stamp_stamp_seen (rs : RawSlice) : seen (stamp (stamp rs)) = seen (stamp rs) := by
  rw [seen_stamp, seen_stamp, recordSites_stamp]

/-- **C11, every clause.** Let `g` be a slice graph on which `validate()` succeeds (**H_valid**; C10 says when) giving
the validated topology `gv`, and let the layers satisfy the named hypotheses `H`. Then, for the slice the validated
topology presents to the collectors:

* `AuthzClaims`: the authorization request names every site, every component type, the CPU/RAM/disk of every node, the
  bandwidth of every service, every facility, the site of every FABNetv4Ext/FABNetv6Ext service and of every PortMirror
  service whose mirrored port is not a port of the slice, and lists per-kind sites only for those; nothing depends on the
  stored order of nodes, services, facilities, interfaces (`List.Perm`); the PDP request carries all of it in the
  resource category; the accounting counts equal a direct tally (VMs with or without capacities, switches, cores,
  components by type, services, sites, facilities) and are order independent;
* that slice is the raw slice with the inferred sites recorded (`recordSites`);
* collecting from the serialised model - serialised before `validate()` ever ran (`g`) or after it (`gv`) - gives the
  same attributes and the same accounting summary as collecting from the validated topology object, whenever the
  `validate()` call inside the ASM path succeeds. -/
theorem authz_complete_sound_order_independent {G : Type} (L : Layers G) (H : L.Hyp) (g gv : G)
    (H_valid : L.validate g = some gv) :
    AuthzClaims (seen (L.present gv)) ∧
    seen (L.present gv) = recordSites (L.present g) ∧
    (∀ g2, L.validate (L.reimport g) = some g2 →
      collect (seen (L.present g2)) = collect (seen (L.present gv)) ∧
      logCollect (seen (L.present g2)) = logCollect (seen (L.present gv))) ∧
    (∀ g3, L.validate (L.reimport gv) = some g3 →
      collect (seen (L.present g3)) = collect (seen (L.present gv)) ∧
      logCollect (seen (L.present g3)) = logCollect (seen (L.present gv))) := by
  have hv := H.H_validate_records_sites g gv H_valid
  refine ⟨authz_claims _, by rw [hv, seen_stamp], ?_, ?_⟩
  · intro g2 h2
    have : L.present g2 = L.present gv := by
      rw [H.H_validate_records_sites _ g2 h2, H.H_roundtrip, hv]
    rw [this]; exact ⟨rfl, rfl⟩
  · intro g3 h3
    have : seen (L.present g3) = seen (L.present gv) := by
      rw [H.H_validate_records_sites _ g3 h3, H.H_roundtrip, hv, stamp_stamp_seen]
    rw [this]; exact ⟨rfl, rfl⟩

/-- non-vacuity: layers that satisfy the hypotheses (graphs = raw slices, validate = record the inferred sites), and a
slice with an undeclared external service on which `H_valid` holds -/
def exLayers : Layers RawSlice := { present := id, reimport := id, validate := fun rs => some (stamp rs) }

example : exLayers.Hyp := ⟨fun _ => rfl, fun g g' h => by simp only [exLayers, Option.some.injEq] at h; subst h; rfl⟩

example : exLayers.validate ⟨[], [⟨⟨"v4a", "FABNetv4Ext", "", none, none⟩, ["RENC"], true⟩], [], []⟩
    = some ⟨[], [⟨⟨"v4a", "FABNetv4Ext", "RENC", none, none⟩, ["RENC"], true⟩], [], []⟩ := by
  simp [exLayers, stamp, inferSite, addSet]

/-- **C10 tie, per service**: the site `Authz.inferSite` gives a service is the site C10's model of
`__validate_nstype_constraints` leaves on it (`recordedSiteOf`), for every constraint row and every list of interfaces
(`None` and `''` both read as "no site"). -/
theorem inferSite_is_c10_recordedSite (row : Gen.Constraints.SvcRow) (s : Validate.Svc) (n : List Validate.NIface) (sv : SvcS)
    (hsite : sv.site = siteStr s.site) :
    (inferSite ⟨sv, n.filterMap (·.owner), row.numSites != 0⟩).site = siteStr (FimVerif.Validate.recordedSiteOf row s n) :=
  inferSite_eq_recordedSiteOf row s n sv hsite

example : (⟨"v4a", "FABNetv4Ext", "", none, none⟩ : SvcS).site = siteStr (none : Option String) := rfl

/-- **C10 tie, per slice**: for every constraint table, a successful `Validate.validate` (C10's model of
`Topology.validate()`) turns what the collectors are presented with into its `stamp`. -/
theorem validate_records_inferred_sites (c : Validate.Cfg) (g g' : G10) (h : validate10 c g = some g') :
    present10 c g' = stamp (present10 c g) := validate10_records_sites c g g' h

/-- **C01 tie**: on C01's model of the graph store, serialising a stored slice graph to GraphML and importing it again
under its own id (what `ExperimentTopology(graph_string=asm.serialize_graph())` does inside the ASM path) succeeds and
presents the same slivers, for every presentation function that does not read the store's internal node numbers
(**H_present_ignores_node_ids**, the one thing C01's `roundtrip_import_direct` leaves open: all attributes and edges are
unchanged, node `k` is renumbered). This is `H_roundtrip`. -/
theorem roundtrip_hypothesis_from_c01 (present : GraphML.Graph Nat → RawSlice)
    (H_present_ignores_node_ids : ∀ (G : GraphML.Graph Nat) (start : Nat), present (FimVerif.C01.directCopy G start) = present G)
    (s : GraphML.Store) (hs : FimVerif.C01.StoreInv s) (g : GraphML.Val) (G0 : GraphML.Graph Nat) (hG : s.extract g = some G0)
    (hk : FimVerif.C01.KeysNodup G0) (doc : GraphML.Doc Nat) (hser : GraphML.serialize s g .graphml = .ok (some doc)) :
    (GraphML.importDirect s doc).1 = .ok g ∧
    ∃ G1, (GraphML.importDirect s doc).2.extract g = some G1 ∧ present G1 = present G0 :=
  roundtrip_presents_same present H_present_ignores_node_ids s hs g G0 hG hk doc hser

/-- non-vacuity of `H_present_ignores_node_ids`: a presentation that reads node attributes (here: how many each node
has), not node numbers -/
example : ∀ (G : GraphML.Graph Nat) (start : Nat),
    (fun (H : GraphML.Graph Nat) => (⟨[], [], H.nodes.map (fun p => toString p.2.length), []⟩ : RawSlice)) (FimVerif.C01.directCopy G start)
      = (fun (H : GraphML.Graph Nat) => (⟨[], [], H.nodes.map (fun p => toString p.2.length), []⟩ : RawSlice)) G := by
  intro G start
  simp [FimVerif.C01.directCopy, List.map_map, Function.comp_def]

/-- **The same with `validate()` as C10 models it** (`Validate.validate`, for every constraint table `c` - in particular
the regenerated `Validate.genCfg` - wrapped as `validate10`): hypothesis `H_validate_records_sites` is discharged by C10's
`site_recorded`; what remains assumed is the round trip (`H_roundtrip`; see `roundtrip_hypothesis_from_c01`) and that
validation succeeds (`H_valid`; C10's `validate_iff_spec` says exactly when). -/
theorem authz_paths_agree_with_c10_validate (c : Validate.Cfg) (reimport : G10 → G10)
    (H_roundtrip : ∀ g, present10 c (reimport g) = present10 c g)
    (g gv : G10) (H_valid : validate10 c g = some gv) :
    let sl := seen (present10 c gv)
    AuthzClaims sl ∧ sl = recordSites (present10 c g) ∧
    (∀ g2, validate10 c (reimport g) = some g2 →
      collect (seen (present10 c g2)) = collect sl ∧ logCollect (seen (present10 c g2)) = logCollect sl) ∧
    (∀ g3, validate10 c (reimport gv) = some g3 →
      collect (seen (present10 c g3)) = collect sl ∧ logCollect (seen (present10 c g3)) = logCollect sl) :=
  authz_complete_sound_order_independent
    { present := present10 c, reimport := reimport, validate := validate10 c }
    ⟨H_roundtrip, validate10_records_sites c⟩ g gv H_valid

/-- non-vacuity of `H_valid` for C10's `validate` on the regenerated constraint tables: a FABNetv4Ext service with one
port owned at RENC and no declared site validates, and the collectors are then presented with site RENC -/
def exG10 : G10 :=
  { topo := { exp := true, nodes := [],
              svcs := [⟨"FABNetv4Ext", none, [], none, [.port "n0-p0" (some [⟨"SharedPort", some "RENC"⟩])], [], []⟩] },
    nodes := [], extras := [⟨"v4", none, none⟩], facs := [], ifaces := [] }

example : (validate10 Validate.genCfg exG10).map (fun g => (present10 Validate.genCfg g).svcs.map (·.svc.site)) = some ["RENC"] := by
  decide

/-- **The site of every listed service can be inferred**: on the regenerated constraint table (`Gen.Constraints`, C10's
translator) the three service types whose site the request must name - PortMirror, FABNetv4Ext, FABNetv6Ext - all limit
the number of sites, which is the condition under which `validate()` gathers the owner sites and records the single one
(`inferSite`; an unlimited type would fall back to UNKNOWN-SITE - seeded change C11-r2-3). -/
theorem listed_types_are_site_limited : ∀ tk ∈ nstypeLut, limitedIn Validate.genCfg tk.1 = true := by decide

/-! ### value objects handed out by the slice (seeded C11-r6-1) -/

/-- **Reads are private** (regenerated flag, probed on a real topology every run): the object a read hands out is parsed for
that read. Everything below is stated for the code's own flag, so a parse memo shared between reads breaks these proofs. -/
theorem value_objects_private : readsFresh = true := by decide

/-- **A collector is presented with what the elements store**, whatever objects callers hold: -/
theorem live_slice_is_stored (sl : Slice) (sizes : VObj.St Caps) (bws : VObj.St Int) :
    liveSlice readsFresh sl sizes bws
      = { sl with nodes := sl.nodes.mapIdx fun i n => { n with caps := VObj.storedAt sizes i },
                  svcs := sl.svcs.mapIdx fun i s => { s with bw := VObj.storedAt bws i } } := by
  simp only [liveSlice, withCaps, withBw, value_objects_private, VObj.presented_fresh]

/-- **Frame, over every history.** Whatever a caller reads, builds, changes in place or writes to OTHER elements - in any
number, in any order - an element nobody wrote is presented exactly as before (so the request names the CPU/RAM/disk it
stores: `complete` / `collect_spec` on `liveSlice`). -/
theorem unwritten_element_keeps_its_value {α : Type} [DecidableEq α] (ops : List (VObj.Op α)) (st : VObj.St α) (j : Nat)
    (h : ∀ op ∈ ops, op.writes ≠ some j) :
    VObj.presented readsFresh (VObj.run readsFresh st ops) j = VObj.presented readsFresh st j := by
  simp only [value_objects_private, VObj.presented_fresh, VObj.storedAt, VObj.run_frame true ops st j h]

example : ∀ op ∈ ([.read 1, .poke 0 ⟨1, 2, 10⟩, .write 1 0] : List (VObj.Op Caps)), op.writes ≠ some 0 := by decide

/-- **Objects changed in place and never written back change nothing**: the authorization request and the accounting summary
of the live slice are the same before and after any history of reads, new objects and in-place changes. -/
theorem collect_unchanged_by_reads_and_pokes (sl : Slice) (sizes : VObj.St Caps) (bws : VObj.St Int)
    (opsN : List (VObj.Op Caps)) (opsB : List (VObj.Op Int))
    (hN : ∀ op ∈ opsN, op.writes = none) (hB : ∀ op ∈ opsB, op.writes = none) :
    collect (liveSlice readsFresh sl (VObj.run readsFresh sizes opsN) (VObj.run readsFresh bws opsB))
      = collect (liveSlice readsFresh sl sizes bws) ∧
    logCollect (liveSlice readsFresh sl (VObj.run readsFresh sizes opsN) (VObj.run readsFresh bws opsB))
      = logCollect (liveSlice readsFresh sl sizes bws) := by
  have e : liveSlice readsFresh sl (VObj.run readsFresh sizes opsN) (VObj.run readsFresh bws opsB)
      = liveSlice readsFresh sl sizes bws := by
    simp only [live_slice_is_stored, VObj.storedAt, VObj.run_no_write _ opsN sizes hN, VObj.run_no_write _ opsB bws hB]
  rw [e]; exact ⟨rfl, rfl⟩

example : ∀ op ∈ ([.read 0, .poke 0 ⟨1, 2, 10⟩, .new ⟨9, 9, 9⟩, .poke 1 ⟨7, 7, 7⟩] : List (VObj.Op Caps)), op.writes = none := by decide

/-- **Read, change in place, write back** sets the element to the changed value (and, by the frame theorem, nothing else) -/
theorem read_modify_write {α : Type} [DecidableEq α] (st : VObj.St α) (i : Nat) (v0 v : α) (hi : st.stored[i]? = some (some v0)) :
    VObj.presented readsFresh (VObj.run readsFresh st [.read i, .poke st.heap.length v, .write i st.heap.length]) i = some v := by
  simp only [value_objects_private, VObj.presented_fresh]; exact VObj.rmw st i v0 v hi

example : (⟨[some ⟨32, 128, 500⟩], [], []⟩ : VObj.St Caps).stored[0]? = some (some ⟨32, 128, 500⟩) := by decide

/-- With a parse memo keyed by the property text (seeded C11-r6-1) two VMs of equal size share one object: shrinking `small`
by read / change / write back makes the request name 1 core for `big`, which still stores 32, and the tally 2 cores
instead of 33 (corpus/C11/11). -/
theorem memo_reads_counterexample :
    let big : Caps := ⟨32, 128, 500⟩
    let sl : Slice := ⟨[⟨"big", "VM", "RENC", none, none, none⟩, ⟨"small", "VM", "UKY", none, none, none⟩], [], [], []⟩
    let ops : List (VObj.Op Caps) := [.read 1, .poke 0 ⟨1, 2, 10⟩, .write 1 0]
    let st : VObj.St Caps := ⟨[some big, some big], [], []⟩
    get (collect (liveSlice false sl (VObj.run false st ops) ⟨[], [], []⟩)) .RESOURCE_CPU = [.i 1, .i 1] ∧
    (logCollect (liveSlice false sl (VObj.run false st ops) ⟨[], [], []⟩)).cores = 2 ∧
    get (collect (liveSlice true sl (VObj.run true st ops) ⟨[], [], []⟩)) .RESOURCE_CPU = [.i 32, .i 1] ∧
    (logCollect (liveSlice true sl (VObj.run true st ops) ⟨[], [], []⟩)).cores = 33 := by
  refine ⟨?_, ?_, ?_, ?_⟩ <;> decide

/-! ### one topology object, edited between collections (seeded C11-r7-1) -/

/-- **Views are live** (regenerated flag, probed on a real topology every run: the slice grows and shrinks on the nodes it has
and every view - and the collector - shows it as it is at that moment). -/
theorem views_live : viewsLive = true := by decide

/-- **Independence of the history of the object.** However often the topology object was collected and edited before - any
number of intermediate slices, any earlier reads - the collectors are presented with the slice stored at the time of the
collection, so the request and the summary are those of that slice (`authz_claims` applies to it as it stands). -/
theorem presented_after_history (hist : List Slice) (sl : Slice) : ∀ st : View.St,
    View.presented viewsLive (View.runHist viewsLive st (hist ++ [sl])) = sl := by
  rw [views_live]
  induction hist with
  | nil => intro st; rfl
  | cons x xs ih =>
    intro st
    simp only [List.cons_append, View.runHist]
    exact ih _

theorem collect_after_history (hist : List Slice) (sl : Slice) (st : View.St) :
    collect (View.presented viewsLive (View.runHist viewsLive st (hist ++ [sl]))) = collect sl ∧
    logCollect (View.presented viewsLive (View.runHist viewsLive st (hist ++ [sl]))) = logCollect sl := by
  rw [presented_after_history]; exact ⟨rfl, rfl⟩

/-- With the interface view kept for as long as the set of nodes stays the same (seeded C11-r7-1): a slice of two VMs is
collected, then a NIC, a bridge with service port `p1` and a mirror of `p1` are added to the nodes it has - the kept view has
no port `p1`, and the request lists UKY as a mirror site although the mirrored port is a port of the slice. -/
theorem kept_view_counterexample :
    let n1 : NodeS := ⟨"n1", "VM", "RENC", none, none, none⟩
    let n2 : NodeS := ⟨"n2", "VM", "UKY", none, none, none⟩
    let st : View.St := ⟨⟨[n1, n2], [], [], [none, none]⟩, none⟩
    let grown : Slice := ⟨[n1, n2], [⟨"br", "L2Bridge", "RENC", none, none⟩, ⟨"pm", "PortMirror", "UKY", none, some "p1"⟩], [],
                          [none, none, some (some "p1"), none]⟩
    get (collect (View.presented false (View.runHist false st [grown, grown]))) .RESOURCE_MIRROR_SITE = [.s "UKY"] ∧
    get (collect (View.presented true (View.runHist true st [grown, grown]))) .RESOURCE_MIRROR_SITE = [] := by
  refine ⟨?_, ?_⟩ <;> decide

end FimVerif.C11
