import FimVerif.Model.Authz
namespace FimVerif.C11
open FimVerif.Authz FimVerif.Gen.Authz

theorem table_total : ∀ k : Key, k.dataType.isSome ∧ k.category.isSome ∧ (∀ c, k.category = some c → c ∈ categories) := by
  intro k; cases k <;> decide

end FimVerif.C11
