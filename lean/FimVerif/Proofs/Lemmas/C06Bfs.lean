import FimVerif.Proofs.Lemmas.C06Basic
namespace FimVerif.Query

/-- consecutive elements are related -/
def IsChain (R : String → String → Prop) : List String → Prop
  | [] => True
  | [_] => True
  | x :: y :: t => R x y ∧ IsChain R (y :: t)

/-- `Walk R z v n`: `v` reaches `z` in exactly `n` steps of `R` -/
inductive Walk (R : String → String → Prop) (z : String) : String → Nat → Prop
  | nil : Walk R z z 0
  | cons {v u : String} {n : Nat} : R v u → Walk R z u n → Walk R z v (n + 1)

theorem walk_of_chain {R : String → String → Prop} {z : String} :
    ∀ (rest : List String) (v : String), IsChain R (v :: rest) → (v :: rest).getLast? = some z →
      Walk R z v rest.length
  | [], v, _, hl => by
    simp at hl; subst hl; exact Walk.nil
  | u :: t, v, hc, hl => by
    have hl' : (u :: t).getLast? = some z := by simpa [List.getLast?_cons_cons] using hl
    exact Walk.cons hc.1 (walk_of_chain t u hc.2 hl')

theorem walk_zero {R : String → String → Prop} {z v : String} (h : Walk R z v 0) : v = z := by
  cases h; rfl

theorem walk_succ {R : String → String → Prop} {z v : String} {n : Nat} (h : Walk R z v (n + 1)) :
    ∃ u, R v u ∧ Walk R z u n := by
  cases h with
  | cons hr hw => exact ⟨_, hr, hw⟩

section bfs
variable (g : TGraph) (a z : String)

local notation "R" => fun (u v : String) => adjB g u v = true

structure Inv (k : Nat) (fr : List (List String)) (unv : List String) : Prop where
  paths : ∀ p ∈ fr, ∃ v rest, p = v :: rest ∧ IsChain R p ∧ p.getLast? = some z ∧ rest.length = k
  front : ∀ v, Walk R z v k → (∃ p ∈ fr, hd p = v) ∨ ∃ n, n < k ∧ Walk R z v n
  notyet : ∀ n, n < k → ¬ Walk R z a n
  seen : ∀ v, v ∈ verts g → v ∉ unv → ∃ n, n ≤ k ∧ Walk R z v n

/-- what `bfs` returns: nothing and `a` is unreachable, or a shortest path from `a` to `z` -/
def Spec (res : List String) : Prop :=
  (res = [] ∧ ∀ n, ¬ Walk R z a n) ∨
  (∃ rest, res = a :: rest ∧ IsChain R res ∧ res.getLast? = some z ∧ ∀ n, n < rest.length → ¬ Walk R z a n)

variable {g a z}

theorem inv_step_walk {k : Nat} {fr : List (List String)} {unv : List String} (hI : Inv g a z k fr unv)
    (hends : ∀ u v, adjB g u v = true → u ∈ verts g) {v : String} (hw : Walk R z v (k + 1)) :
    (v ∈ unv ∧ ∃ p ∈ fr, adjB g v (hd p) = true) ∨ ∃ n, n < k + 1 ∧ Walk R z v n := by
  obtain ⟨u, hr, hu⟩ := walk_succ hw
  rcases hI.front u hu with ⟨p, hp, hpu⟩ | ⟨n, hn, hwn⟩
  · by_cases hv : v ∈ unv
    · exact Or.inl ⟨hv, p, hp, by rw [hpu]; exact hr⟩
    · obtain ⟨n, hn, hwn⟩ := hI.seen v (hends v u hr) hv
      exact Or.inr ⟨n, by omega, hwn⟩
  · exact Or.inr ⟨n + 1, by omega, Walk.cons hr hwn⟩

theorem mem_nx {fr : List (List String)} {unv : List String} {q : List String} :
    q ∈ unv.filterMap (fun v => (fr.find? (fun p => adjB g v (hd p))).map (v :: ·)) ↔
      ∃ v p, v ∈ unv ∧ fr.find? (fun p => adjB g v (hd p)) = some p ∧ q = v :: p := by
  simp only [List.mem_filterMap, Option.map_eq_some_iff]
  constructor
  · rintro ⟨v, hv, p, hf, rfl⟩; exact ⟨v, p, hv, hf, rfl⟩
  · rintro ⟨v, p, hv, hf, rfl⟩; exact ⟨v, hv, p, hf, rfl⟩

theorem bfs_spec (hends : ∀ u v, adjB g u v = true → u ∈ verts g) :
    ∀ (fuel k : Nat) (fr : List (List String)) (unv : List String),
      Inv g a z k fr unv → unv.length < fuel → Spec g a z (bfs g a fuel fr unv)
  | 0, _, _, _, _, hl => by omega
  | fuel + 1, k, fr, unv, hI, hl => by
    unfold bfs
    split
    · -- found
      rename_i p hf
      have hp := List.mem_of_find?_eq_some hf
      have hh := List.find?_some hf
      obtain ⟨v, rest, rfl, hc, hlast, hlen⟩ := hI.paths p hp
      have hva : v = a := by simpa [hd] using hh
      subst hva
      exact Or.inr ⟨rest, rfl, hc, hlast, by rw [hlen]; exact hI.notyet⟩
    · rename_i hnone
      have hnot : ∀ p ∈ fr, hd p ≠ a := by
        intro p hp h
        have := List.find?_eq_none.1 hnone p hp
        simp [h] at this
      have hnotk : ¬ Walk R z a k := by
        intro hw
        rcases hI.front a hw with ⟨p, hp, hpa⟩ | ⟨n, hn, hwn⟩
        · exact hnot p hp hpa
        · exact hI.notyet n hn hwn
      simp only
      split
      · -- next layer empty: unreachable
        rename_i hemp
        simp only [List.isEmpty_iff] at hemp
        have hclos : ∀ v, Walk R z v (k + 1) → ∃ n, n ≤ k ∧ Walk R z v n := by
          intro v hw
          rcases inv_step_walk hI hends hw with ⟨hv, p, hp, hadj⟩ | ⟨n, hn, hwn⟩
          · exfalso
            have hsome : (fr.find? (fun p => adjB g v (hd p))).isSome := by
              rw [List.find?_isSome]; exact ⟨p, hp, hadj⟩
            obtain ⟨p', hp'⟩ := Option.isSome_iff_exists.1 hsome
            have : (v :: p') ∈ unv.filterMap (fun v => (fr.find? (fun p => adjB g v (hd p))).map (v :: ·)) :=
              mem_nx.2 ⟨v, p', hv, hp', rfl⟩
            rw [hemp] at this; simp at this
          · exact ⟨n, by omega, hwn⟩
        have hall : ∀ m v, Walk R z v m → ∃ n, n ≤ k ∧ Walk R z v n := by
          intro m
          induction m with
          | zero => intro v hw; exact ⟨0, by omega, hw⟩
          | succ m ih =>
            intro v hw
            obtain ⟨u, hr, hu⟩ := walk_succ hw
            obtain ⟨n, hn, hwn⟩ := ih u hu
            by_cases hnk : n + 1 ≤ k
            · exact ⟨n + 1, hnk, Walk.cons hr hwn⟩
            · have : n = k := by omega
              subst this
              exact hclos v (Walk.cons hr hwn)
        refine Or.inl ⟨rfl, fun m hw => ?_⟩
        obtain ⟨n, hn, hwn⟩ := hall m a hw
        by_cases hnk : n < k
        · exact hI.notyet n hnk hwn
        · have : n = k := by omega
          subst this; exact hnotk hwn
      · -- recurse
        rename_i hne
        apply bfs_spec hends fuel (k + 1)
        · constructor
          · intro q hq
            obtain ⟨v, p, hv, hf, rfl⟩ := mem_nx.1 hq
            have hp := List.mem_of_find?_eq_some hf
            have hadj := List.find?_some hf
            obtain ⟨u, rest, rfl, hc, hlast, hlen⟩ := hI.paths p hp
            refine ⟨v, u :: rest, rfl, ⟨by simpa [hd] using hadj, hc⟩, ?_, by simp [hlen]⟩
            simpa [List.getLast?_cons_cons] using hlast
          · intro v hw
            rcases inv_step_walk hI hends hw with ⟨hv, p, hp, hadj⟩ | h
            · left
              have hsome : (fr.find? (fun p => adjB g v (hd p))).isSome := by
                rw [List.find?_isSome]; exact ⟨p, hp, hadj⟩
              obtain ⟨p', hp'⟩ := Option.isSome_iff_exists.1 hsome
              exact ⟨v :: p', mem_nx.2 ⟨v, p', hv, hp', rfl⟩, rfl⟩
            · exact Or.inr h
          · intro n hn hw
            by_cases hnk : n < k
            · exact hI.notyet n hnk hw
            · have : n = k := by omega
              subst this; exact hnotk hw
          · intro v hv hvn
            by_cases hvu : v ∈ unv
            · have : ¬ (!(fr.any (fun p => adjB g v (hd p)))) = true := fun h => hvn (List.mem_filter.2 ⟨hvu, h⟩)
              have hany : (fr.any (fun p => adjB g v (hd p))) = true := by
                cases h : fr.any (fun p => adjB g v (hd p)) with
                | true => rfl
                | false => exact absurd (by simp [h]) this
              obtain ⟨p, hp, hadj⟩ := List.any_eq_true.1 hany
              obtain ⟨u, rest, rfl, hc, hlast, hlen⟩ := hI.paths p hp
              have hwu := walk_of_chain rest u hc hlast
              rw [hlen] at hwu
              exact ⟨k + 1, by omega, Walk.cons (by simpa [hd] using hadj) hwu⟩
            · obtain ⟨n, hn, hwn⟩ := hI.seen v hv hvu
              exact ⟨n, by omega, hwn⟩
        · -- the unvisited list shrinks
          have hex : ∃ q, q ∈ unv.filterMap (fun v => (fr.find? (fun p => adjB g v (hd p))).map (v :: ·)) := by
            cases hq : unv.filterMap (fun v => (fr.find? (fun p => adjB g v (hd p))).map (v :: ·)) with
            | nil => simp [hq] at hne
            | cons q _ => exact ⟨q, by simp⟩
          obtain ⟨q, hq⟩ := hex
          obtain ⟨v, p, hv, hf, _⟩ := mem_nx.1 hq
          have hlt : (unv.filter (fun v => !(fr.any (fun p => adjB g v (hd p))))).length < unv.length := by
            rw [List.length_filter_lt_length_iff_exists]
            refine ⟨v, hv, ?_⟩
            have hany : (fr.any (fun p => adjB g v (hd p))) = true :=
              List.any_eq_true.2 ⟨p, List.mem_of_find?_eq_some hf, List.find?_some (p := fun p => adjB g v (hd p)) hf⟩
            simp [hany]
          omega

theorem inv_init : Inv g a z 0 [[z]] ((verts g).filter (fun v => v != z)) := by
  constructor
  · intro p hp
    simp at hp; subst hp
    exact ⟨z, [], rfl, trivial, rfl, rfl⟩
  · intro v hw
    have := walk_zero hw; subst this
    exact Or.inl ⟨[v], by simp, rfl⟩
  · intro n hn; omega
  · intro v hv hvn
    have : v = z := by
      by_cases h : v = z
      · exact h
      · exact absurd (List.mem_filter.2 ⟨hv, by simpa using h⟩) hvn
    subst this
    exact ⟨0, by omega, Walk.nil⟩

theorem shortest_spec (hends : ∀ u v, adjB g u v = true → u ∈ verts g) : Spec g a z (shortest g a z) := by
  unfold shortest
  apply bfs_spec hends _ 0 _ _ inv_init
  have := List.length_filter_le (fun v => v != z) (verts g)
  omega

end bfs
end FimVerif.Query
