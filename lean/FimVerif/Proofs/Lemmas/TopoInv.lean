import FimVerif.Model.Topo
/-!
# C07 — the invariant of the statement as a decidable predicate on the model state

`Topo.Inv s` lists the conjuncts of the property statement one by one:

* `ids`      node ids are distinct (published rule "All node NodeIDs must be distinct");
* `closed`   every edge joins two elements of the model (containment stays inside the model);
* `vocab`    every element's Class and Type are in the published vocabularies (`Generated/Rules.lean`); id, class,
             type and name are total fields of `GNode`, so "has id, class, type and name" holds by construction;
* `schema`   containment structure, container first: NetworkNode/CompositeNode has Component|NetworkService, Component has
             NetworkService, NetworkService connects ConnectionPoint, ConnectionPoint connects ConnectionPoint
             (sub-interface), Link connects ConnectionPoint — in particular "links join only interfaces";
* `compOwned`  each Component belongs to exactly one node;
* `ifaceOwned` each ConnectionPoint belongs to exactly one service or parent interface;
* `spPeer`   every ServicePort has exactly one peer (ConnectionPoint at the far end of one of its links);
* `names`    names are unique in their scope (nodes, links, components of a node, services of a node/component,
             top-level services, interfaces of a service).

No Mathlib (the driver imports this file and evaluates every conjunct on every state of the correspondence run; the
harness compares the verdicts with the Python transliteration of the published rules on the implementation's graph).
`InvS` = `Inv` without `names`; `InvD` = the downward-closed weakening of `InvS` ("at most one" instead of "exactly
one"), which is what survives arbitrary deletions.
-/
namespace FimVerif.Topo
open FimVerif FimVerif.Gen

def classOk (c : Cls) : Bool := Rules.classVocab.contains c.toString

/-- `r.Type IN [...]` of the rule for the class; a class without a type rule (CompositeNode) is unconstrained -/
def typeOk (c : Cls) (t : String) : Bool :=
  match Rules.typeVocab.find? (fun p => p.1 == c.toString) with
  | some (_, vs) => vs.contains t
  | none => true

def nodeOk (n : GNode) : Bool := classOk n.cls && typeOk n.cls n.typ

/-- the containment structure, container first (the order in which every building call passes the two ends) -/
def edgeOk (e : GEdge) : Bool :=
  match e.a.cls, e.rel, e.b.cls with
  | .networkNode, .has, .component => true
  | .networkNode, .has, .networkService => true
  | .compositeNode, .has, .component => true
  | .compositeNode, .has, .networkService => true
  | .component, .has, .networkService => true
  | .networkService, .connects, .connectionPoint => true
  | .connectionPoint, .connects, .connectionPoint => true
  | .link, .connects, .connectionPoint => true
  | _, _, _ => false

def isOwnerCls (c : Cls) : Bool := c == .networkNode || c == .compositeNode
def isIfParentCls (c : Cls) : Bool := c == .networkService || c == .connectionPoint

/-- `has` edges from a node into the component `r` -/
def ownersOf (s : Topo) (r : Ref) : List GEdge :=
  s.edges.filter (fun e => e.rel == .has && e.b == r && isOwnerCls e.a.cls)
/-- `connects` edges from a service or a parent interface into the interface `r` -/
def parentsOf (s : Topo) (r : Ref) : List GEdge :=
  s.edges.filter (fun e => e.rel == .connects && e.b == r && isIfParentCls e.a.cls)
/-- `connects` edges from a link into the interface `r` -/
def linksOf (s : Topo) (r : Ref) : List GEdge :=
  s.edges.filter (fun e => e.rel == .connects && e.b == r && e.a.cls == .link)
/-- the far ends of the links of `r` -/
def spPeers (s : Topo) (r : Ref) : List GEdge :=
  (linksOf s r).flatMap (fun e1 => s.edges.filter (fun e2 => e2.rel == .connects && e2.a == e1.a && e2.b != r))

/-- elements of class `c` directly below `p` -/
def kids (s : Topo) (p : Ref) (rel : Rel) (c : Cls) : List GNode :=
  s.nodes.filter (fun n => n.cls == c && s.edges.any (fun e => e.rel == rel && e.a == p && e.b == n.ref))
def hasParent (s : Topo) (r : Ref) : Bool := s.edges.any (fun e => e.rel == .has && e.b == r)
def namesOf (s : Topo) (p : GNode → Bool) : List String := (s.nodes.filter p).map (·.name)

def IdsOk (s : Topo) : Prop := (s.nodes.map (·.nid)).Nodup
def ClosedOk (s : Topo) : Prop := ∀ e ∈ s.edges, (∃ n ∈ s.nodes, n.ref = e.a) ∧ (∃ n ∈ s.nodes, n.ref = e.b)
def VocabOk (s : Topo) : Prop := ∀ n ∈ s.nodes, nodeOk n = true
def SchemaOk (s : Topo) : Prop := ∀ e ∈ s.edges, edgeOk e = true
def CompOwned (s : Topo) : Prop := ∀ n ∈ s.nodes, n.cls = .component → (ownersOf s n.ref).length = 1
def IfaceOwned (s : Topo) : Prop := ∀ n ∈ s.nodes, n.cls = .connectionPoint → (parentsOf s n.ref).length = 1
def SpPeer (s : Topo) : Prop :=
  ∀ n ∈ s.nodes, n.cls = .connectionPoint → n.typ = "ServicePort" → (spPeers s n.ref).length = 1
def CompOwnedLe (s : Topo) : Prop := ∀ n ∈ s.nodes, n.cls = .component → (ownersOf s n.ref).length ≤ 1
def IfaceOwnedLe (s : Topo) : Prop := ∀ n ∈ s.nodes, n.cls = .connectionPoint → (parentsOf s n.ref).length ≤ 1
def SpPeerLe (s : Topo) : Prop :=
  ∀ n ∈ s.nodes, n.cls = .connectionPoint → n.typ = "ServicePort" → (spPeers s n.ref).length ≤ 1

def NodeNames (s : Topo) : Prop := (namesOf s (fun n => n.cls == .networkNode)).Nodup
def LinkNames (s : Topo) : Prop := (namesOf s (fun n => n.cls == .link)).Nodup
def CompNames (s : Topo) : Prop := ∀ p ∈ s.nodes, ((kids s p.ref .has .component).map (·.name)).Nodup
def SvcNames (s : Topo) : Prop := ∀ p ∈ s.nodes, ((kids s p.ref .has .networkService).map (·.name)).Nodup
def TopSvcNames (s : Topo) : Prop := (namesOf s (fun n => n.cls == .networkService && !hasParent s n.ref)).Nodup
def CpNames (s : Topo) : Prop :=
  ∀ p ∈ s.nodes, p.cls = .networkService → ((kids s p.ref .connects .connectionPoint).map (·.name)).Nodup

structure NamesOk (s : Topo) : Prop where
  nodes : NodeNames s
  links : LinkNames s
  comps : CompNames s
  svcs : SvcNames s
  topSvcs : TopSvcNames s
  cps : CpNames s

/-- the statement's invariant without the name scopes -/
structure InvS (s : Topo) : Prop where
  ids : IdsOk s
  closed : ClosedOk s
  vocab : VocabOk s
  schema : SchemaOk s
  compOwned : CompOwned s
  ifaceOwned : IfaceOwned s
  spPeer : SpPeer s

/-- the invariant of the statement -/
structure Inv (s : Topo) : Prop where
  struct : InvS s
  names : NamesOk s

/-- what survives every deletion: "at most one" owner / parent / peer -/
structure InvD (s : Topo) : Prop where
  ids : IdsOk s
  closed : ClosedOk s
  vocab : VocabOk s
  schema : SchemaOk s
  compOwned : CompOwnedLe s
  ifaceOwned : IfaceOwnedLe s
  spPeer : SpPeerLe s

instance (s : Topo) : Decidable (IdsOk s) := by unfold IdsOk; infer_instance
instance (s : Topo) : Decidable (ClosedOk s) := by unfold ClosedOk; infer_instance
instance (s : Topo) : Decidable (VocabOk s) := by unfold VocabOk; infer_instance
instance (s : Topo) : Decidable (SchemaOk s) := by unfold SchemaOk; infer_instance
instance (s : Topo) : Decidable (CompOwned s) := by unfold CompOwned; infer_instance
instance (s : Topo) : Decidable (IfaceOwned s) := by unfold IfaceOwned; infer_instance
instance (s : Topo) : Decidable (SpPeer s) := by unfold SpPeer; infer_instance
instance (s : Topo) : Decidable (CompOwnedLe s) := by unfold CompOwnedLe; infer_instance
instance (s : Topo) : Decidable (IfaceOwnedLe s) := by unfold IfaceOwnedLe; infer_instance
instance (s : Topo) : Decidable (SpPeerLe s) := by unfold SpPeerLe; infer_instance
instance (s : Topo) : Decidable (NodeNames s) := by unfold NodeNames; infer_instance
instance (s : Topo) : Decidable (LinkNames s) := by unfold LinkNames; infer_instance
instance (s : Topo) : Decidable (CompNames s) := by unfold CompNames; infer_instance
instance (s : Topo) : Decidable (SvcNames s) := by unfold SvcNames; infer_instance
instance (s : Topo) : Decidable (TopSvcNames s) := by unfold TopSvcNames; infer_instance
instance (s : Topo) : Decidable (CpNames s) := by unfold CpNames; infer_instance

instance (s : Topo) : Decidable (NamesOk s) :=
  if h : NodeNames s ∧ LinkNames s ∧ CompNames s ∧ SvcNames s ∧ TopSvcNames s ∧ CpNames s then
    isTrue ⟨h.1, h.2.1, h.2.2.1, h.2.2.2.1, h.2.2.2.2.1, h.2.2.2.2.2⟩
  else isFalse (fun n => h ⟨n.nodes, n.links, n.comps, n.svcs, n.topSvcs, n.cps⟩)

instance (s : Topo) : Decidable (InvS s) :=
  if h : IdsOk s ∧ ClosedOk s ∧ VocabOk s ∧ SchemaOk s ∧ CompOwned s ∧ IfaceOwned s ∧ SpPeer s then
    isTrue ⟨h.1, h.2.1, h.2.2.1, h.2.2.2.1, h.2.2.2.2.1, h.2.2.2.2.2.1, h.2.2.2.2.2.2⟩
  else isFalse (fun n => h ⟨n.ids, n.closed, n.vocab, n.schema, n.compOwned, n.ifaceOwned, n.spPeer⟩)

instance (s : Topo) : Decidable (InvD s) :=
  if h : IdsOk s ∧ ClosedOk s ∧ VocabOk s ∧ SchemaOk s ∧ CompOwnedLe s ∧ IfaceOwnedLe s ∧ SpPeerLe s then
    isTrue ⟨h.1, h.2.1, h.2.2.1, h.2.2.2.1, h.2.2.2.2.1, h.2.2.2.2.2.1, h.2.2.2.2.2.2⟩
  else isFalse (fun n => h ⟨n.ids, n.closed, n.vocab, n.schema, n.compOwned, n.ifaceOwned, n.spPeer⟩)

instance (s : Topo) : Decidable (Inv s) :=
  if h : InvS s ∧ NamesOk s then isTrue ⟨h.1, h.2⟩ else isFalse (fun n => h ⟨n.struct, n.names⟩)

/-- the verdict on every conjunct, by name (what the driver prints) -/
def verdicts (s : Topo) : List (String × Bool) := [
  ("ids", decide (IdsOk s)), ("closed", decide (ClosedOk s)), ("vocab", decide (VocabOk s)), ("schema", decide (SchemaOk s)),
  ("compOwned", decide (CompOwned s)), ("ifaceOwned", decide (IfaceOwned s)), ("spPeer", decide (SpPeer s)),
  ("nodeNames", decide (NodeNames s)), ("linkNames", decide (LinkNames s)), ("compNames", decide (CompNames s)),
  ("svcNames", decide (SvcNames s)), ("topSvcNames", decide (TopSvcNames s)), ("cpNames", decide (CpNames s)),
  ("inv", decide (Inv s)), ("invD", decide (InvD s))]

end FimVerif.Topo
