import FimVerif.Proofs.Lemmas.StoreIdent
/-! C05: `Evolves` for every operation; `identity_preserved`. Core only. -/
namespace FimVerif.Store
open FimVerif FimVerif.Gen.StoreConsts

theorem evolves_addBlankNode (g label nid : String) (s : Store) : Evolves s (addBlankNode g label nid s) := by
  refine ⟨by simp [addBlankNode], ?_⟩
  intro m hm
  simp only [addBlankNode, List.mem_append, List.mem_singleton] at hm
  rcases hm with hm | rfl
  · exact Or.inr ⟨m, hm, rfl, Rel.refl _⟩
  · exact Or.inl (Nat.le_refl _)

theorem evolves_appendGraph (s : Store) (ns : List Props) (es : List (Nat × Nat × Props)) : Evolves s (appendGraph ns es s) := by
  refine ⟨by simp [appendGraph], ?_⟩
  intro m hm
  simp only [appendGraph, List.mem_append] at hm
  rcases hm with hm | hm
  · exact Or.inr ⟨m, hm, rfl, Rel.refl _⟩
  · exact Or.inl (mem_relabel_iid _ _ _ hm).1

theorem evolves_delIfPresent (g : String) (s : Store) : Evolves s (delIfPresent g s) := by
  unfold delIfPresent; split
  · exact evolves_of_nodes_subset s _ rfl (fun n hn => (List.mem_filter.1 hn).1)
  · exact Evolves.refl _

theorem evolves_addEdge (a b : Nat) (attrs : Props) (s : Store) : Evolves s (addEdge a b attrs s) := by
  unfold addEdge; split
  · exact evolves_of_nodes_subset s _ rfl (fun n hn => hn)
  · exact evolves_of_nodes_subset s _ rfl (fun n hn => hn)

theorem evolves_addGraph (g : String) (ig : IGraph) (s : Store) : Evolves s (addGraph g ig s).2 := by
  unfold addGraph
  simp only
  split
  · exact evolves_delIfPresent g s
  · exact Evolves.trans (evolves_delIfPresent g s) (evolves_appendGraph _ _ _)

theorem remapEdges_nodes (u v : Nat) (l : List SEdge) (s : Store) :
    (remapEdges u v l s).nodes = s.nodes ∧ (remapEdges u v l s).nextId = s.nextId := by
  induction l generalizing s with
  | nil => exact ⟨rfl, rfl⟩
  | cons e r ih =>
    simp only [remapEdges]
    have := ih (if s.edges.any (edgeMatch (if e.a = v then u else e.a) (if e.b = v then u else e.b)) = true then s
      else { s with edges := s.edges ++ [⟨if e.a = v then u else e.a, if e.b = v then u else e.b, e.attrs⟩] })
    rw [this.1, this.2]
    by_cases hc : s.edges.any (edgeMatch (if e.a = v then u else e.a) (if e.b = v then u else e.b)) = true
    · rw [if_pos hc]; exact ⟨rfl, rfl⟩
    · rw [if_neg hc]; exact ⟨rfl, rfl⟩

theorem evolves_contract (u v : Nat) (s : Store) : Evolves s (contract u v s) := by
  unfold contract
  simp only
  have := remapEdges_nodes u v (s.edges.filter (fun e => e.a == v || e.b == v)) (removeNode v s)
  exact evolves_of_nodes_subset s _ this.2 (fun n hn => by rw [this.1] at hn; exact (List.mem_filter.1 hn).1)

/-- the merge policy leaves the class alone -/
def polKeepsClass (pol : List (String × Policy)) : Bool :=
  match AMap.get propClass pol with
  | none => true
  | some .discard => true
  | _ => false

theorem mergeProps_spec (theirs : Props) (pol : List (String × Policy)) (l np : Props) (h : mergeProps theirs pol l = .ok np) :
    AMap.keys np = AMap.keys l ∧ (polKeepsClass pol = true → AMap.get propClass np = AMap.get propClass l) := by
  induction l generalizing np with
  | nil => simp only [mergeProps] at h; injection h with h; subst h; exact ⟨rfl, fun _ => rfl⟩
  | cons x l ih =>
    obtain ⟨k, v⟩ := x
    simp only [mergeProps] at h
    split at h
    · cases h
    · rename_i rest hrest
      have ihr := ih rest hrest
      have fin : ∀ w, (w = v ∨ k ≠ propClass ∨ polKeepsClass pol = false) →
          AMap.keys ((k, w) :: rest) = AMap.keys ((k, v) :: l) ∧
          (polKeepsClass pol = true → AMap.get propClass ((k, w) :: rest) = AMap.get propClass ((k, v) :: l)) := by
        intro w hw
        refine ⟨by simp [AMap.keys] at ihr ⊢; exact ihr.1, ?_⟩
        intro hp
        by_cases hk : k = propClass
        · rcases hw with rfl | hw | hw
          · simp [AMap.get, hk]
          · exact absurd hk hw
          · rw [hp] at hw; cases hw
        · simp only [AMap.get, hk, if_false]; exact ihr.2 hp
      split at h
      · injection h with h; subst h; exact fin v (Or.inl rfl)
      · injection h with h; subst h; exact fin v (Or.inl rfl)
      · rename_i hpol
        split at h
        · cases h
        · injection h with h; subst h
          refine fin _ ?_
          by_cases hk : k = propClass
          · right; right; subst hk; simp [polKeepsClass, hpol]
          · exact Or.inr (Or.inl hk)
      · rename_i hpol
        split at h
        · cases h
        · injection h with h; subst h
          refine fin _ ?_
          by_cases hk : k = propClass
          · right; right; subst hk; simp [polKeepsClass, hpol]
          · exact Or.inr (Or.inl hk)
      · rename_i hpol
        injection h with h; subst h
        refine fin _ ?_
        by_cases hk : k = propClass
        · right; right; subst hk; simp [polKeepsClass, hpol]
        · exact Or.inr (Or.inl hk)

theorem has_of_keys_eq (a b : Props) (h : AMap.keys a = AMap.keys b) (k : String) : AMap.has k a = AMap.has k b := by
  have e1 := AMap.get_eq_none_iff k a
  have e2 := AMap.get_eq_none_iff k b
  rw [h] at e1
  unfold AMap.has
  cases ha : AMap.get k a <;> cases hb : AMap.get k b <;> simp_all

theorem rel_mergeProps (theirs : Props) (pol : List (String × Policy)) (mine np : Props)
    (h : mergeProps theirs pol mine = .ok np) (hp : polKeepsClass pol = true) : Rel mine np := by
  have := mergeProps_spec theirs pol mine np h
  exact ⟨this.2 hp, fun k _ hk => by rw [has_of_keys_eq np mine this.1 k]; exact hk⟩

theorem nodeAttrs_of_mem (s : Store) (h : Inv s) (n : SNode) (hn : n ∈ s.nodes) : nodeAttrs s n.iid = some n.attrs := by
  unfold nodeAttrs
  cases hf : s.nodes.find? (fun m => m.iid == n.iid) with
  | none =>
    have := List.find?_eq_none.1 hf n hn
    simp at this
  | some m =>
    have hm := List.mem_of_find?_eq_some hf
    have hi := List.find?_some hf
    have : m = n := eq_of_nodup_map (·.iid) s.nodes h.1 m hm n hn (by simpa using hi)
    simp [this]

/-- the merge policy of an operation does not name the class with `overwrite`/`combine`/an unknown word -/
def Op.keepsClass : Op → Bool
  | .mergeNodes _ _ _ (some pol) => polKeepsClass pol
  | _ => true

theorem evolves_step (op : Op) (s : Store) (h : Inv s) (hc : op.keepsClass = true) : Evolves s (step op s).2 := by
  have R := Evolves.refl s
  cases op with
  | addNode g nid label props =>
    simp only [step, addNode]
    split
    · exact R
    · cases props with
      | none => exact evolves_addBlankNode g label nid s
      | some p =>
        -- the freshly added node may receive any initial properties: it is not a node of `s`
        refine ⟨by simp [updNode, addBlankNode], ?_⟩
        intro m hm
        simp only [updNode, addBlankNode, List.map_append, List.mem_append, List.mem_map] at hm
        rcases hm with ⟨n, hn, rfl⟩ | ⟨n, hn, rfl⟩
        · have := h.2.1 n hn
          have hne : ¬ n.iid = s.nextId := by omega
          simp only [hne, if_false]
          exact Or.inr ⟨n, hn, rfl, Rel.refl _⟩
        · simp only [List.mem_singleton] at hn
          subst hn
          exact Or.inl (by simp)
  | deleteNode g nid =>
    exact withNode_pred (Evolves s) s g nid _ R
      (fun i _ => evolves_of_nodes_subset s _ rfl (fun n hn => (List.mem_filter.1 hn).1))
  | addLink g a rel b props =>
    simp only [step, addLink]
    refine withNode_pred (Evolves s) s g a _ R (fun ia _ => withNode_pred (Evolves s) s g b _ R (fun ib _ => ?_))
    cases props with
    | none => exact evolves_addEdge _ _ _ s
    | some p => simp only; split; exact R; exact evolves_addEdge _ _ _ s
  | updateNodeProperty g nid k v =>
    simp only [step]
    refine assertVal_pred (Evolves s) _ s _ R ?_
    simp only [updateNodeProperty]
    split
    · exact R
    · rename_i hk
      rw [nxLabel_eq] at hk
      exact withNode_pred (Evolves s) s g nid _ R (fun i _ => evolves_updNode s i _ (fun n _ _ => rel_set k v n.attrs hk))
  | unsetNodeProperty g nid k =>
    simp only [step, unsetNodeProperty]
    split
    · exact R
    · split
      · exact R
      · rename_i hk hnu
        rw [nxLabel_eq] at hk
        refine withNode_pred (Evolves s) s g nid _ R (fun i _ => ?_)
        split
        · exact R
        · split
          · exact evolves_updNode s i _ (fun n _ _ => rel_erase k n.attrs hk hnu)
          · exact R
  | updateNodesProperty g k v =>
    simp only [step]
    refine assertVal_pred (Evolves s) _ s _ R ?_
    simp only [updateNodesProperty]
    split
    · exact R
    · split
      · exact R
      · rename_i _ hk
        rw [nxLabel_eq] at hk
        have := evolves_updNodes s (inG g) (AMap.set k v) (fun n _ _ => rel_set k v n.attrs hk)
        simpa [updGraphNodes] using this
  | updateNodeProperties g nid props =>
    simp only [step, updateNodeProperties]
    split
    · exact R
    · rename_i hk
      rw [nxLabel_eq] at hk
      exact withNode_pred (Evolves s) s g nid _ R
        (fun i _ => evolves_updNode s i _ (fun n _ _ => rel_update n.attrs props (by simpa using hk)))
  | updateLinkProperty g a b kind k v =>
    simp only [step]
    refine assertVal_pred (Evolves s) _ s _ R ?_
    simp only [updateLinkProperty]
    split
    · exact R
    · exact withLink_pred (Evolves s) s g a b kind _ R (fun _ _ _ _ _ => evolves_of_nodes_subset s _ rfl (fun n hn => hn))
  | unsetLinkProperty g a b kind k =>
    simp only [step, unsetLinkProperty]
    split
    · exact R
    · exact withLink_pred (Evolves s) s g a b kind _ R (fun _ _ _ _ _ => evolves_of_nodes_subset s _ rfl (fun n hn => hn))
  | updateLinkProperties g a b kind props =>
    simp only [step, updateLinkProperties]
    split
    · exact R
    · exact withLink_pred (Evolves s) s g a b kind _ R (fun _ _ _ _ _ => evolves_of_nodes_subset s _ rfl (fun n hn => hn))
  | deleteGraph g => exact evolves_of_nodes_subset s _ rfl (fun n hn => (List.mem_filter.1 hn).1)
  | addGraph g ig => exact evolves_addGraph g ig.close s
  | delAllGraphs => exact evolves_of_nodes_subset s _ rfl (fun n hn => by simp [step, delAllGraphs] at hn)
  | addGraphDirect g ig => exact Evolves.trans (evolves_delIfPresent g s) (evolves_appendGraph _ _ _)
  | clone g g2 =>
    simp only [step, cloneGraph]
    split
    · exact R
    · exact evolves_addGraph g2 _ s
  | mergeNodes g nid g2 pol =>
    simp only [step, mergeNodes]
    split
    · exact R
    · refine withNode_pred (Evolves s) s g nid _ R (fun u hu => ?_)
      split
      · exact R
      · rename_i v hv
        split
        · exact R
        split
        · rename_i mine theirs hmine htheirs
          have hrel : ∀ np, Rel mine np → Evolves s (updNode u (fun _ => np) (contract u v s)) := by
            intro np hnp
            refine Evolves.trans (evolves_contract u v s) (evolves_updNode _ u _ ?_)
            intro n hn hi
            have hc := evolves_contract u v s
            have hn' : n ∈ s.nodes := by
              unfold contract at hn
              simp only at hn
              rw [(remapEdges_nodes u v _ _).1] at hn
              exact (List.mem_filter.1 hn).1
            have := nodeAttrs_of_mem s h n hn'
            rw [hi, hmine] at this
            injection this with this
            rw [← this]; exact hnp
          cases pol with
          | none => exact hrel mine (Rel.refl _)
          | some pol =>
            simp only
            split
            · exact R
            · rename_i np hnp
              exact hrel np (rel_mergeProps theirs pol mine np hnp (by simpa [Op.keepsClass] using hc))
        · exact R
  | getNodeProperties g nid =>
    simp only [step, getNodeProperties]
    refine withNode_pred (Evolves s) s g nid _ R (fun i _ => ?_)
    split
    · exact R
    · split <;> exact R
  | getLinkProperties g a b =>
    simp only [step, getLinkProperties]
    refine withNode_pred (Evolves s) s g a _ R (fun ia _ => withNode_pred (Evolves s) s g b _ R (fun ib _ => ?_))
    split
    · exact R
    · split <;> exact R
  | listAllNodeIds g => simp only [step, listAllNodeIds, nidList]; split; exact R; split <;> exact R
  | nodesByClass g label => simp only [step, nodesByClass, nidList]; split <;> exact R
  | nodesByClassAndType g label ntype => simp only [step, nodesByClassAndType, nidList]; split <;> exact R
  | nodeExists g nid label => simp only [step, nodeExists]; split <;> exact R
  | graphExists g => exact R
  | checkNodeUnique g label name => exact R
  | findMatchingNodes g other =>
    simp only [step, findMatchingNodes]
    split
    · exact R
    · split <;> exact R
    · exact R

/-- **identity properties are protected.**  For every operation (also imports, clones, deletions and
    merges whose policy leaves `Class` alone): a node that is stored before and after keeps its class and
    loses none of the properties in `NO_UNSET_PROPERTIES`. -/
theorem identity_preserved (op : Op) (s : Store) (h : Inv s) (hc : op.keepsClass = true)
    (n : SNode) (hn : n ∈ s.nodes) (m : SNode) (hm : m ∈ (step op s).2.nodes) (e : m.iid = n.iid) :
    AMap.get propClass m.attrs = AMap.get propClass n.attrs ∧
    ∀ k ∈ noUnset, AMap.has k n.attrs = true → AMap.has k m.attrs = true := by
  rcases (evolves_step op s h hc).2 m hm with hlt | ⟨n', hn', e', r⟩
  · have := h.2.1 n hn; omega
  · have : n' = n := eq_of_nodup_map (·.iid) s.nodes h.1 n' hn' n hn (e'.trans e)
    subst this
    exact r

end FimVerif.Store
