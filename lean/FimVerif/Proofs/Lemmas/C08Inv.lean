import FimVerif.Proofs.Lemmas.C08Prune
import FimVerif.Proofs.Lemmas.C08Shared
/-!
# C08 — invariant-based exactness (no separation hypotheses, links with any number of ends)

Everything is stated in the **pre-state** `g` relative to the list `A` of elements deleted so far.
`LinkOK g A` ties the links of `A` to its connection points: a Link is gone iff it joined at least two connection
points, lost at least one of them and is left with at most one.  It is an invariant of every `remove_cp_and_links`
call whose family has at most one end on any link, whatever the number of ends of the link: this is what closes the
shared-link forms at component / node / API / prune level at once.
-/
namespace FimVerif.Remove

/-- the connection points of link `l` that are not in `A` -/
def live (g : G) (A : List Nat) (l : Nat) : List Nat := (g.nbrs l .connects .cp).filter (fun e => !A.contains e)

/-- **the link part of a deletion set is determined by its connection-point part** -/
def LinkOK (g : G) (A : List Nat) : Prop :=
  ∀ l, g.cls? l = some .link →
    (l ∈ A ↔ 2 ≤ (g.nbrs l .connects .cp).length ∧ (∃ e ∈ g.nbrs l .connects .cp, e ∈ A) ∧ (live g A l).length ≤ 1)

theorem linkOK_nil (g : G) : LinkOK g [] := by
  intro l _; simp

/-- well-formedness of links (decidable): the ends of a link are distinct, and no two of them belong to one interface
family (they are not connection-point neighbours and have no common connection-point neighbour) -/
def WFLink (g : G) : Bool :=
  g.nodes.all (fun n => n.cls != .link ||
    (decide (g.nbrs n.id .connects .cp).Nodup &&
     (g.nbrs n.id .connects .cp).all (fun e1 => (g.nbrs n.id .connects .cp).all (fun e2 =>
        e1 == e2 || (!(g.nbrs e1 .connects .cp).contains e2 &&
                     (g.nbrs e1 .connects .cp).all (fun q => !(g.nbrs e2 .connects .cp).contains q))))))

theorem wfLink_at {g : G} (h : WFLink g = true) {l : Nat} (hc : g.cls? l = some .link) :
    (g.nbrs l .connects .cp).Nodup ∧
    ∀ e1 ∈ g.nbrs l .connects .cp, ∀ e2 ∈ g.nbrs l .connects .cp, e1 ≠ e2 →
      e2 ∉ g.nbrs e1 .connects .cp ∧ ∀ q ∈ g.nbrs e1 .connects .cp, q ∉ g.nbrs e2 .connects .cp := by
  obtain ⟨n, hn, hid, hcl, _⟩ := elem_of_cls hc
  have := List.all_eq_true.mp h n hn
  simp only [hid, hcl, bne_self_eq_false, Bool.false_or, Bool.and_eq_true, decide_eq_true_eq] at this
  refine ⟨this.1, fun e1 h1 e2 h2 hne => ?_⟩
  have h' := List.all_eq_true.mp (List.all_eq_true.mp this.2 e1 h1) e2 h2
  simp only [Bool.or_eq_true, beq_iff_eq, Bool.and_eq_true, Bool.not_eq_true', List.contains_eq_mem,
    decide_eq_false_iff_not, List.all_eq_true] at h'
  rcases h' with h' | h'
  · exact absurd h' hne
  · exact ⟨h'.1, fun q hq => by simpa using h'.2 q hq⟩

/-- removing exactly one (present) element from what a filter keeps -/
theorem length_filter_drop_one {l : List Nat} {p q : Nat → Bool} {f : Nat} (hn : l.Nodup) (hf : f ∈ l)
    (hp : p f = true) (hq : q f = false) (hrest : ∀ x ∈ l, x ≠ f → q x = p x) :
    (l.filter q).length + 1 = (l.filter p).length := by
  induction l with
  | nil => cases hf
  | cons a l ih =>
    have hnd := List.nodup_cons.mp hn
    by_cases ha : a = f
    · subst ha
      have hsame : l.filter q = l.filter p := by
        apply List.filter_congr
        intro x hx
        exact hrest x (List.mem_cons_of_mem _ hx) (fun e => hnd.1 (e ▸ hx))
      simp [hp, hq, hsame]
    · have hf' : f ∈ l := by
        rcases List.mem_cons.mp hf with h | h
        · exact absurd h.symm ha
        · exact h
      have ih' := ih hnd.2 hf' (fun x hx hne => hrest x (List.mem_cons_of_mem _ hx) hne)
      have hqa : q a = p a := hrest a (by simp) ha
      cases hpa : p a
      · simp [hqa, hpa, ih']
      · simp [hqa, hpa]; omega

theorem filter_congr_len {l : List Nat} {p q : Nat → Bool} (h : ∀ x ∈ l, q x = p x) :
    (l.filter q).length = (l.filter p).length := by
  rw [List.filter_congr h]

/-- `y` is a Link next to connection point `f` iff `f` is one of its ends -/
theorem mem_links_iff (g : G) (f y : Nat) (hf : g.cls? f = some .cp) :
    y ∈ g.nbrs f .connects .link ↔ g.cls? y = some .link ∧ f ∈ g.nbrs y .connects .cp :=
  ⟨fun h => ⟨mem_nbrs_cls _ _ _ _ _ h, nbrs_symm g f y _ _ _ h hf⟩,
   fun h => nbrs_symm g y f _ _ _ h.2 h.1⟩

/-- **`LinkOK` is preserved by one `remove_cp_and_links` call** deleting the family `F` (disjoint from `A`, at most one
end on any link) and the links next to `F` that are still present and have exactly two live ends. -/
theorem linkOK_step (g : G) (hW : WFLink g = true) (A F A' : List Nat)
    (hF : ∀ f ∈ F, g.cls? f = some .cp ∧ f ∉ A)
    (hone : ∀ l, g.cls? l = some .link → ∀ e1 ∈ g.nbrs l .connects .cp, ∀ e2 ∈ g.nbrs l .connects .cp,
      e1 ∈ F → e2 ∈ F → e1 = e2)
    (hOK : LinkOK g A)
    (hcp : ∀ y, g.cls? y = some .cp → (y ∈ A' ↔ y ∈ A ∨ y ∈ F))
    (hlk : ∀ y, g.cls? y = some .link →
      (y ∈ A' ↔ y ∈ A ∨ (y ∉ A ∧ (∃ f ∈ F, f ∈ g.nbrs y .connects .cp) ∧ (live g A y).length = 2))) :
    LinkOK g A' := by
  intro l hl
  obtain ⟨hnd, _⟩ := wfLink_at hW hl
  have hends : ∀ e ∈ g.nbrs l .connects .cp, g.cls? e = some .cp := fun e he => mem_nbrs_cls _ _ _ _ _ he
  rw [hlk l hl]
  by_cases hex : ∃ f ∈ F, f ∈ g.nbrs l .connects .cp
  · obtain ⟨f, hfF, hfl⟩ := hex
    have hfA : f ∉ A := (hF f hfF).2
    -- exactly one end leaves
    have hlen : (live g A' l).length + 1 = (live g A l).length := by
      unfold live
      apply length_filter_drop_one hnd hfl
      · simpa [List.contains_eq_mem] using hfA
      · have : f ∈ A' := (hcp f (hends f hfl)).mpr (Or.inr hfF)
        simpa [List.contains_eq_mem] using this
      · intro x hx hne
        have hxF : x ∉ F := fun h => hne (hone l hl x hx f hfl h hfF)
        have := hcp x (hends x hx)
        by_cases hxA : x ∈ A
        · have : x ∈ A' := this.mpr (Or.inl hxA)
          simp [List.contains_eq_mem, hxA, this]
        · have : x ∉ A' := fun h => (this.mp h).elim hxA hxF
          simp [List.contains_eq_mem, hxA, this]
    have hlive1 : 1 ≤ (live g A l).length := by omega
    have hexA' : ∃ e ∈ g.nbrs l .connects .cp, e ∈ A' := ⟨f, hfl, (hcp f (hends f hfl)).mpr (Or.inr hfF)⟩
    have hlen2 : (live g A l).length ≤ (g.nbrs l .connects .cp).length := List.length_filter_le _ _
    constructor
    · rintro (h | ⟨_, _, h2⟩)
      · obtain ⟨h2, _, h1⟩ := (hOK l hl).mp h
        exact ⟨h2, hexA', by omega⟩
      · exact ⟨by omega, hexA', by omega⟩
    · rintro ⟨h2, _, h1⟩
      by_cases hlA : l ∈ A
      · exact Or.inl hlA
      · refine Or.inr ⟨hlA, ⟨f, hfF, hfl⟩, ?_⟩
        -- live count before is 1 or 2; 1 is impossible: the link would already be gone
        by_cases h1' : (live g A l).length ≤ 1
        · exfalso
          apply hlA
          refine (hOK l hl).mpr ⟨h2, ?_, h1'⟩
          -- some end is in A: otherwise all ≥ 2 ends are live
          apply Classical.byContradiction
          intro hno
          have : live g A l = g.nbrs l .connects .cp := by
            unfold live
            rw [List.filter_eq_self]
            intro e he
            have : e ∉ A := fun h => hno ⟨e, he, h⟩
            simpa [List.contains_eq_mem] using this
          rw [this] at h1'; omega
        · omega
  · -- no end of `l` is in the family: nothing changes for `l`
    have hsame : (live g A' l).length = (live g A l).length := by
      unfold live
      apply filter_congr_len
      intro x hx
      have hxF : x ∉ F := fun h => hex ⟨x, h, hx⟩
      have := hcp x (hends x hx)
      by_cases hxA : x ∈ A
      · have : x ∈ A' := this.mpr (Or.inl hxA)
        simp [List.contains_eq_mem, hxA, this]
      · have : x ∉ A' := fun h => (this.mp h).elim hxA hxF
        simp [List.contains_eq_mem, hxA, this]
    have hexs : (∃ e ∈ g.nbrs l .connects .cp, e ∈ A') ↔ (∃ e ∈ g.nbrs l .connects .cp, e ∈ A) := by
      constructor
      · rintro ⟨e, he, h⟩
        rcases (hcp e (hends e he)).mp h with h | h
        · exact ⟨e, he, h⟩
        · exact absurd ⟨e, h, he⟩ hex
      · rintro ⟨e, he, h⟩; exact ⟨e, he, (hcp e (hends e he)).mpr (Or.inl h)⟩
    rw [hsame, hexs]
    constructor
    · rintro (h | ⟨_, h, _⟩)
      · exact (hOK l hl).mp h
      · exact absurd h hex
    · intro h; exact Or.inl ((hOK l hl).mpr h)

/-- adding elements that are neither connection points nor links does not disturb `LinkOK` -/
theorem linkOK_other (g : G) (A A' : List Nat) (hOK : LinkOK g A)
    (hcp : ∀ y, g.cls? y = some .cp → (y ∈ A' ↔ y ∈ A))
    (hlk : ∀ y, g.cls? y = some .link → (y ∈ A' ↔ y ∈ A)) : LinkOK g A' := by
  intro l hl
  have hends : ∀ e ∈ g.nbrs l .connects .cp, g.cls? e = some .cp := fun e he => mem_nbrs_cls _ _ _ _ _ he
  have hsame : (live g A' l).length = (live g A l).length := by
    unfold live
    apply filter_congr_len
    intro x hx
    have := hcp x (hends x hx)
    by_cases hxA : x ∈ A
    · simp [List.contains_eq_mem, hxA, this.mpr hxA]
    · have : x ∉ A' := fun h => hxA (this.mp h)
      simp [List.contains_eq_mem, hxA, this]
  have hexs : (∃ e ∈ g.nbrs l .connects .cp, e ∈ A') ↔ (∃ e ∈ g.nbrs l .connects .cp, e ∈ A) := by
    constructor
    · rintro ⟨e, he, h⟩; exact ⟨e, he, (hcp e (hends e he)).mp h⟩
    · rintro ⟨e, he, h⟩; exact ⟨e, he, (hcp e (hends e he)).mpr h⟩
  rw [hlk l hl, hsame, hexs]
  exact hOK l hl


/-! ### The invariant carried through every step, and the shape of a step's result -/

/-- family closure: a port attached to a service is in `A` iff each of its sub-interfaces is -/
def FamC (g : G) (A : List Nat) : Prop :=
  ∀ i, g.cls? i = some .cp → isSub g i = false → ∀ c ∈ g.nbrs i .connects .cp, (c ∈ A ↔ i ∈ A)

def InvC (g : G) (A : List Nat) : Prop := LinkOK g A ∧ FamC g A

theorem invC_nil (g : G) : InvC g [] := ⟨linkOK_nil g, fun _ _ _ _ _ => by simp⟩

/-- `r` is the pre-state minus a list that extends `A`, whose elements other than links are those of `A` and those
satisfying `P`, and which satisfies the invariant again (so its links are determined too) -/
def Res (g : G) (A : List Nat) (P : Nat → Prop) (r : Except Err G) : Prop :=
  ∃ A', r = .ok (g.minus A') ∧ (∀ y, y ∈ A → y ∈ A') ∧
    (∀ y, g.cls? y ≠ some .link → (y ∈ A' ↔ y ∈ A ∨ P y)) ∧ InvC g A'

theorem Res.congr {g : G} {A : List Nat} {P Q : Nat → Prop} {r : Except Err G} (h : Res g A P r)
    (hPQ : ∀ y, g.cls? y ≠ some .link → (y ∈ A ∨ P y ↔ y ∈ A ∨ Q y)) : Res g A Q r := by
  obtain ⟨A', h1, h2, h3, h4⟩ := h
  exact ⟨A', h1, h2, fun y hy => (h3 y hy).trans (hPQ y hy), h4⟩

theorem mem_cpDelA (g : G) (A : List Nat) (i : Nat) (dp : Bool) (y : Nat) :
    y ∈ cpDelA g A i dp ↔ y ∈ cpFamily g i dp ∨
      ∃ f ∈ cpFamily g i dp, y ∈ g.nbrs f .connects .link ∧ y ∉ A ∧ (live g A y).length = 2 := by
  simp only [cpDelA, mem_dedup, List.mem_append, cpLinksA, List.mem_flatMap, List.mem_filter, Bool.and_eq_true,
    Bool.not_eq_true', List.contains_eq_mem, decide_eq_false_iff_not, beq_iff_eq, live]

/-- neighbour lists have no duplicates (a NetworkX `Graph` has no parallel edges) -/
def WFNodup (g : G) : Bool :=
  g.nodes.all (fun n => [Rel.has, Rel.connects].all (fun r => [Cls.node, Cls.comp, Cls.ns, Cls.cp, Cls.link].all
    (fun c => decide (g.nbrs n.id r c).Nodup)))

/-- every ServicePort is attached to exactly one network service -/
def WFPort (g : G) : Bool :=
  g.nodes.all (fun n => n.cls != .cp || n.kind != kServicePort || (g.nbrs n.id .connects .ns).length == 1)

/-- a sub-interface is not itself a DedicatedPort (it has no sub-interfaces of its own to visit) -/
def WFSub (g : G) : Bool :=
  g.nodes.all (fun n => n.cls != .cp || !isSub g n.id || n.kind != kDedicatedPort)

/-- well-formedness (decidable): the containment and peering invariants, the link condition, no parallel edges, every
ServicePort on one service, no DedicatedPort below a port -/
def WF (g : G) : Bool := InvCP g && InvPeer g && WFLink g && WFNodup g && WFPort g && WFSub g

theorem wf_cp {g : G} (h : WF g = true) : InvCP g = true := by
  simp only [WF, Bool.and_eq_true] at h; exact h.1.1.1.1.1
theorem wf_peer {g : G} (h : WF g = true) : InvPeer g = true := by
  simp only [WF, Bool.and_eq_true] at h; exact h.1.1.1.1.2
theorem wf_link {g : G} (h : WF g = true) : WFLink g = true := by
  simp only [WF, Bool.and_eq_true] at h; exact h.1.1.1.2

theorem wf_nodup {g : G} (h : WF g = true) {x : Nat} {k : Cls} (hx : g.cls? x = some k) (r : Rel) (c : Cls) :
    (g.nbrs x r c).Nodup := by
  simp only [WF, Bool.and_eq_true] at h
  obtain ⟨n, hn, hid, _, _⟩ := elem_of_cls hx
  have := List.all_eq_true.mp h.1.1.2 n hn
  rw [hid] at this
  cases r <;> cases c <;> simp_all

theorem wf_port {g : G} (h : WF g = true) {p : Nat} (hc : g.cls? p = some .cp) (hk : g.kind? p = some kServicePort) :
    (g.nbrs p .connects .ns).length = 1 := by
  simp only [WF, Bool.and_eq_true] at h
  obtain ⟨n, hn, hid, hcl, hkk⟩ := elem_of_cls hc
  have := List.all_eq_true.mp h.1.2 n hn
  rw [hkk] at hk
  simp only [hid, hcl, bne_self_eq_false, Bool.false_or, Bool.or_eq_true, bne_iff_ne, ne_eq, beq_iff_eq] at this
  rcases this with h' | h'
  · exact absurd (Option.some.inj hk) h'
  · exact h'

theorem wf_sub {g : G} (h : WF g = true) {c : Nat} (hc : g.cls? c = some .cp) (hs : isSub g c = true) :
    g.kind? c ≠ some kDedicatedPort := by
  simp only [WF, Bool.and_eq_true] at h
  obtain ⟨n, hn, hid, hcl, hkk⟩ := elem_of_cls hc
  have := List.all_eq_true.mp h.2 n hn
  simp only [hid, hcl, hs, bne_self_eq_false, Bool.false_or, Bool.not_true, bne_iff_ne, ne_eq] at this
  rw [hkk]; intro h'; exact this (Option.some.inj h')

/-- a sub-interface of `i` has `i` as its only connection-point neighbour -/
theorem child_nbrs {g : G} (hI : InvCP g = true) {i c : Nat} (hc : g.cls? i = some .cp) (hs : isSub g i = false)
    (hcn : c ∈ g.nbrs i .connects .cp) : g.nbrs c .connects .cp = [i] ∧ isSub g c = true ∧ g.cls? c = some .cp := by
  have h := (invCP_at hI hc hs).1 c hcn
  have hi : i ∈ g.nbrs c .connects .cp := nbrs_symm g i c _ _ _ hcn hc
  exact ⟨eq_singleton_of_mem_of_length_le_one hi (by omega), h.1, mem_nbrs_cls _ _ _ _ _ hcn⟩

theorem cpFamily_top {g : G} (hI : InvCP g = true) {i : Nat} (hc : g.cls? i = some .cp) (hs : isSub g i = false) :
    cpFamily g i true = i :: g.nbrs i .connects .cp := by
  simp only [cpFamily, Bool.and_true]
  congr 1
  apply filter_eq_self_of_all
  apply List.all_eq_true.mpr
  intro p hp
  simp [(child_nbrs hI hc hs hp).1]

/-- **one `remove_cp_and_links(i)` for an interface attached to a service** (a port with its sub-interfaces, or a
ServicePort), after `A`: no hypothesis on links. -/
theorem removeCpTop_res (g : G) (hW : WF g = true) (A : List Nat) (hInv : InvC g A) (i : Nat)
    (hc : g.cls? i = some .cp) (hs : isSub g i = false) (hiA : i ∉ A) :
    Res g A (fun y => y = i ∨ y ∈ g.nbrs i .connects .cp) (removeCp (g.minus A) i true) := by
  have hI := (wf_cp hW)
  obtain ⟨hOK, hFam⟩ := hInv
  have hfam := cpFamily_top hI hc hs
  have hchild : ∀ c ∈ g.nbrs i .connects .cp, c ∉ A := fun c hcn h => hiA ((hFam i hc hs c hcn).mp h)
  have hsep : SepFam g A i = true := by
    simp only [SepFam, Bool.and_eq_true, Bool.not_eq_true', List.all_eq_true, List.contains_eq_mem,
      decide_eq_false_iff_not]
    refine ⟨hiA, fun p hp => ⟨hchild p hp, fun q hq => ?_⟩⟩
    rw [(child_nbrs hI hc hs hp).1] at hq
    simp only [List.mem_singleton] at hq; subst hq; exact hiA
  have hhas : g.has i = true := by
    simp only [G.cls?, G.has] at hc ⊢; cases hf : g.find i <;> simp_all
  have hFcls : ∀ f ∈ cpFamily g i true, g.cls? f = some .cp ∧ f ∉ A := by
    intro f hf
    rw [hfam] at hf
    rcases List.mem_cons.mp hf with rfl | hf
    · exact ⟨hc, hiA⟩
    · exact ⟨(child_nbrs hI hc hs hf).2.2, hchild f hf⟩
  refine ⟨A ++ cpDelA g A i true, removeCp_after' g A i true hhas hsep, fun y hy => List.mem_append_left _ hy, ?_, ?_, ?_⟩
  · intro y hy
    rw [List.mem_append, mem_cpDelA, hfam]
    constructor
    · rintro (h | h | ⟨f, _, hl, _⟩)
      · exact Or.inl h
      · exact Or.inr (by simpa using h)
      · exact absurd (mem_nbrs_cls _ _ _ _ _ hl) hy
    · rintro (h | h)
      · exact Or.inl h
      · exact Or.inr (Or.inl (by simpa using h))
  · -- LinkOK
    apply linkOK_step g (wf_link hW) A (cpFamily g i true) _ hFcls ?_ hOK
    · intro y hy
      rw [List.mem_append, mem_cpDelA]
      constructor
      · rintro (h | h | ⟨f, _, hl, _⟩)
        · exact Or.inl h
        · exact Or.inr h
        · have := mem_nbrs_cls _ _ _ _ _ hl; rw [hy] at this; cases this
      · rintro (h | h)
        · exact Or.inl h
        · exact Or.inr (Or.inl h)
    · intro y hy
      rw [List.mem_append, mem_cpDelA]
      constructor
      · rintro (h | h | ⟨f, hf, hl, hnA, h2⟩)
        · exact Or.inl h
        · have := (hFcls y h).1; rw [hy] at this; cases this
        · exact Or.inr ⟨hnA, ⟨f, hf, ((mem_links_iff g f y (hFcls f hf).1).mp hl).2⟩, h2⟩
      · rintro (h | ⟨hnA, ⟨f, hf, hfl⟩, h2⟩)
        · exact Or.inl h
        · exact Or.inr (Or.inr ⟨f, hf, (mem_links_iff g f y (hFcls f hf).1).mpr ⟨hy, hfl⟩, hnA, h2⟩)
    · -- at most one end of a link in the family
      intro l hl e1 he1 e2 he2 h1 h2
      apply Classical.byContradiction
      intro hne
      obtain ⟨_, hw⟩ := wfLink_at (wf_link hW) hl
      have w12 := hw e1 he1 e2 he2 hne
      have w21 := hw e2 he2 e1 he1 (fun h => hne h.symm)
      rw [hfam] at h1 h2
      rcases List.mem_cons.mp h1 with rfl | h1 <;> rcases List.mem_cons.mp h2 with rfl | h2
      · exact hne rfl
      · exact w12.1 h2
      · exact w21.1 h1
      · have hi1 : i ∈ g.nbrs e1 .connects .cp := by rw [(child_nbrs hI hc hs h1).1]; simp
        have hi2 : i ∈ g.nbrs e2 .connects .cp := by rw [(child_nbrs hI hc hs h2).1]; simp
        exact w12.2 i hi1 hi2
  · -- FamC
    intro j hj hjs c hcj
    have hcc := child_nbrs hI hj hjs hcj
    have hmem : ∀ y, g.cls? y = some .cp → (y ∈ A ++ cpDelA g A i true ↔ y ∈ A ∨ y = i ∨ y ∈ g.nbrs i .connects .cp) := by
      intro y hy
      rw [List.mem_append, mem_cpDelA, hfam]
      constructor
      · rintro (h | h | ⟨f, _, hl, _⟩)
        · exact Or.inl h
        · exact Or.inr (by simpa using h)
        · have := mem_nbrs_cls _ _ _ _ _ hl; rw [hy] at this; cases this
      · rintro (h | h)
        · exact Or.inl h
        · exact Or.inr (Or.inl (by simpa using h))
    rw [hmem c hcc.2.2, hmem j hj, hFam j hj hjs c hcj]
    constructor
    · rintro (h | rfl | h)
      · exact Or.inl h
      · rw [hcc.2.1] at hs; cases hs
      · right; left
        have : i ∈ g.nbrs c .connects .cp := nbrs_symm g i c _ _ _ h hc
        rw [hcc.1] at this; simp only [List.mem_singleton] at this; exact this.symm
    · rintro (h | rfl | h)
      · exact Or.inl h
      · exact Or.inr (Or.inr hcj)
      · have := (child_nbrs hI hc hs h).2.1; rw [hjs] at this; cases this

end FimVerif.Remove
