import FimVerif.Proofs.Lemmas.TopoAtomicGraph
/-! What the element constructors of `Model/Topo.lean` do to a state: `ifaceNew`, `linkNew` either raise in the state
they started from or extend it in an explicit way. -/
namespace FimVerif.Topo
open FimVerif FimVerif.M


def IfPost (t : Topo) (p : Nid) (c : Nat) (nid : Option Nid) (name : String) (itype : Option String)
    (r : Except Err (Nid × Nat) × Topo) : Prop :=
  (∃ e, r = (.error e, t)) ∨
  (∃ pn n, findNode p t = (.ok pn, t) ∧ (∀ m ∈ t.nodes, m.nid ≠ n.nid) ∧ n.cls = .connectionPoint ∧ n.nid = (pick nid c).1 ∧
     n.name = name ∧ itype = some n.typ ∧ validName .connectionPoint name = true ∧
     r = (.ok (pick nid c), setEdge pn.ref n.ref .connects (pushNode n t)))

theorem IfPost.err {t p c nid name itype} (e : Err) : IfPost t p c nid name itype (.error e, t) := .inl ⟨e, rfl⟩

theorem ifaceNew_cases (fl : Flavour) (c : Nat) (name : String) (nid : Option Nid) (p : Nid) (itype : Option String)
    (props : List PropArg) (t : Topo) : IfPost t p c nid name itype (ifaceNew fl c name nid (some p) itype props t) := by
  unfold ifaceNew
  refine ro_step (by ro) IfPost.err (fun _ _ => ?_)
  rcases hp : pick nid c with ⟨id, c'⟩
  simp only []
  refine ro_step (by ro) IfPost.err (fun ty hty => ?_)
  refine ro_step (by ro) IfPost.err (fun _ hvn => ?_)
  refine ro_step (by ro) IfPost.err (fun kw _ => ?_)
  simp only [flag_ifaceParentPrecheck, if_true]
  refine ro_step (by ro) IfPost.err (fun pn hpn => ?_)
  rcases addGNode_cases ⟨.connectionPoint, id, name, ty, dictUpdate [("StitchNode", "false")] kw⟩ t with h | ⟨h, hn⟩
  · rw [bind_err h]; exact IfPost.err _
  · rw [bind_ok h, bind_ok (addEdge_run (findNode_push_old hpn hn) (findNode_push_new hn))]
    refine .inr ⟨pn, _, hpn, hn, rfl, ?_, rfl, ?_, guard_ok hvn, ?_⟩
    · simp [hp]
    · cases itype <;> simp [need] at hty ⊢
      exact hty
    · simp [hp]


/-- the edges `add_network_link_sliver` adds, one `add_link` per interface -/
def linkEdges (ln : GNode) (l : List IfArg) (u : Topo) : Topo :=
  l.foldl (fun u i => match i with
    | .iface iid _ => setEdge ln.ref ⟨.connectionPoint, iid⟩ .connects u
    | .bogus => u) u

theorem linkEdges_nodes (ln : GNode) (l : List IfArg) (u : Topo) : (linkEdges ln l u).nodes = u.nodes := by
  induction l generalizing u with
  | nil => rfl
  | cons i l ih => cases i <;> simp [linkEdges, List.foldl_cons] <;> first | exact ih _ | skip
  
def IfacesPresent (l : List IfArg) (u : Topo) : Prop :=
  ∀ i ∈ l, ∃ iid nm, i = .iface iid nm ∧ ∃ x ∈ u.nodes, x.nid = iid ∧ x.cls = .connectionPoint

theorem forEach_addEdge_run {f : IfArg → M Topo Unit} {ln : GNode}
    (hf : ∀ iid nm, f (.iface iid nm) = addEdge ln.nid .connects iid) (l : List IfArg) (u : Topo)
    (hd : IdsDistinct u) (hl : ln ∈ u.nodes) (hp : IfacesPresent l u) :
    M.forEach l f u = (.ok (), linkEdges ln l u) := by
  induction l generalizing u with
  | nil => rfl
  | cons i l ih =>
    obtain ⟨iid, nm, rfl, x, hx, hxi, hxc⟩ := hp _ (List.mem_cons_self ..)
    have h1 : f (.iface iid nm) u = (.ok (), setEdge ln.ref x.ref .connects u) := by
      rw [hf]; exact addEdge_run (findNode_of_mem hd hl) (by rw [← hxi]; exact findNode_of_mem hd hx)
    rw [forEach_cons_ok h1]
    have hr : x.ref = ⟨.connectionPoint, iid⟩ := by simp [GNode.ref, hxi, hxc]
    rw [hr]
    have := ih (setEdge ln.ref ⟨.connectionPoint, iid⟩ .connects u) hd hl (fun j hj => hp j (List.mem_cons_of_mem _ hj))
    rw [this]; rfl

theorem count_guard_ok {g : Topo → Nat} {t t' : Topo} {u : Unit}
    (h : (M.read g >>= fun cnt => M.guard (cnt == 1) Err.query) t = (.ok u, t')) : g t = 1 := by
  simp only [bind_apply', read_apply, guard_apply] at h
  by_cases hg : g t = 1
  · exact hg
  · simp [hg] at h

theorem addGNode_step {β : Type} {n : GNode} {f : Unit → M Topo β} {t : Topo} {Q : Except Err β × Topo → Prop}
    (herr : Q (.error .query, t))
    (hok : ∀ n', n' = n → (∀ m ∈ t.nodes, m.nid ≠ n'.nid) → Q (f () (pushNode n' t))) : Q ((addGNode n >>= f) t) := by
  rcases addGNode_cases n t with h | ⟨h, hn⟩
  · rw [bind_err h]; exact herr
  · rw [bind_ok h]; exact hok n rfl hn

theorem forEach_addEdge_step {β : Type} {f : IfArg → M Topo Unit} {g : Unit → M Topo β} {ln : GNode} {l : List IfArg} {u : Topo}
    {Q : Except Err β × Topo → Prop}
    (hf : ∀ iid nm, f (.iface iid nm) = addEdge ln.nid .connects iid)
    (hd : IdsDistinct u) (hl : ln ∈ u.nodes) (hp : IfacesPresent l u)
    (hok : Q (g () (linkEdges ln l u))) : Q ((M.forEach l f >>= g) u) := by
  rw [bind_ok (forEach_addEdge_run hf l u hd hl hp)]; exact hok

def LkPost (t : Topo) (c : Nat) (nid : Option Nid) (l : List IfArg) (r : Except Err (Nid × Nat) × Topo) : Prop :=
  (∃ e, r = (.error e, t)) ∨
  (∃ ln, (∀ m ∈ t.nodes, m.nid ≠ ln.nid) ∧ ln.cls = .link ∧ ln.nid = (pick nid c).1 ∧ IfacesPresent l t ∧
     r = (.ok (pick nid c), linkEdges ln l (pushNode ln t)))

theorem LkPost.err {t c nid l} (e : Err) : LkPost t c nid l (.error e, t) := .inl ⟨e, rfl⟩

theorem linkNew_cases (fl : Flavour) (c : Nat) (name : String) (nid : Option Nid) (ltype : Option String) (l : List IfArg)
    (tech : Option String) (props : List PropArg) (t : Topo) (hd : IdsDistinct t) :
    LkPost t c nid l (linkNew fl c name nid ltype (some l) tech props t) := by
  unfold linkNew
  refine ro_step (by ro) LkPost.err (fun _ _ => ?_)
  rcases hp : pick nid c with ⟨id, c'⟩
  simp only []
  refine ro_step (by ro) LkPost.err (fun ty _ => ?_)
  refine ro_step (by ro) LkPost.err (fun l' hl' => ?_)
  have : l' = l := by simpa [need] using hl'.symm
  subst this
  refine ro_step (by ro) LkPost.err (fun _ _ => ?_)
  refine ro_step (by ro) LkPost.err (fun _ _ => ?_)
  refine ro_step (by ro) LkPost.err (fun layer _ => ?_)
  refine ro_step (by ro) LkPost.err (fun kw _ => ?_)
  simp only [flag_linkPrecheck, if_true]
  refine ro_step (by ro) LkPost.err (fun _ h1 => ?_)
  refine ro_step (by ro) LkPost.err (fun _ h2 => ?_)
  have hpres : IfacesPresent l' t := by
    intro i hi
    have b1 := forEach_ro_ok (fun b => by cases b <;> ro) _ _ _ _ h1 i hi
    have b2 := forEach_ro_ok (fun b => by cases b <;> ro) _ _ _ _ h2 i hi
    cases i with
    | bogus => simp at b1
    | iface iid nm =>
      refine ⟨iid, nm, rfl, ?_⟩
      have hc := count_guard_ok b2
      obtain ⟨x, hx⟩ := List.length_eq_one_iff.mp hc
      have : x ∈ t.nodes.filter (fun n => n.nid == iid && n.cls == Cls.connectionPoint) := by rw [hx]; simp
      have := List.mem_filter.mp this
      exact ⟨x, this.1, by simpa using this.2⟩
  refine addGNode_step (LkPost.err _) (fun ln hln hn => ?_)
  refine forEach_addEdge_step (ln := ln) (fun _ _ => by subst hln; rfl) (idsDistinct_push hd hn) (by simp [pushNode])
    (fun i hi => by
      obtain ⟨iid, nm, e, x, hx, h3⟩ := hpres i hi
      exact ⟨iid, nm, e, x, by simp [pushNode, hx], h3⟩) ?_
  refine .inr ⟨ln, hn, by rw [hln], ?_, hpres, ?_⟩
  · rw [hln]; simp [hp]
  · simp [hp]



theorem ok_step {α β : Type} {m : M Topo α} {f : α → M Topo β} {t t' : Topo} {a : α} {Q : Except Err β × Topo → Prop}
    (h : m t = (.ok a, t')) (hq : Q (f a t')) : Q ((m >>= f) t) := by rw [bind_ok h]; exact hq

theorem guard_run {c : Bool} {e : Err} {t : Topo} (h : c = true) : M.guard c e t = (.ok (), t) := by simp [M.guard, h]

theorem forEach_ro_run {β : Type} {f : β → M Topo Unit} {l : List β} {t : Topo} (h : ∀ b ∈ l, f b t = (.ok (), t)) :
    M.forEach l f t = (.ok (), t) := by
  induction l with
  | nil => rfl
  | cons x xs ih =>
    rw [forEach_cons_ok (h x (List.mem_cons_self ..))]
    exact ih (fun b hb => h b (List.mem_cons_of_mem _ hb))

/-- `r` is the expected result (a named predicate so that the step lemmas can infer their motive) -/
def IsRes {α : Type} (rhs r : Except Err α × Topo) : Prop := r = rhs

/-- `linkNew` with everything in order succeeds and extends the state by the link and its edges -/
theorem linkNew_run {c : Nat} {name : String} {ty layer : String} {l : List IfArg} {t : Topo}
    (hd : IdsDistinct t) (hne : l ≠ []) (hname : validName .link name = true)
    (hlayer : lookupD Gen.Rules.linkLayer ty = some layer) (hp : IfacesPresent l t)
    (hfresh : ∀ m ∈ t.nodes, m.nid ≠ .gen c) :
    ∃ ln, ln.cls = .link ∧ ln.nid = .gen c ∧
      linkNew .experiment c name none (some ty) (some l) none [] t = (.ok (.gen c, c + 1), linkEdges ln l (pushNode ln t)) := by
  refine ⟨⟨.link, .gen c, name, ty, dictUpdate ([("StitchNode", "false"), ("Layer", layer)] ++ []) []⟩, rfl, rfl, ?_⟩
  show IsRes _ _
  unfold linkNew
  simp only [pick]
  refine ok_step (guard_run rfl) ?_
  refine ok_step (a := ty) rfl ?_
  refine ok_step (a := l) rfl ?_
  refine ok_step (guard_run (by cases l <;> simp_all)) ?_
  refine ok_step (guard_run hname) ?_
  refine ok_step (a := layer) (by rw [hlayer]; rfl) ?_
  refine ok_step (a := []) rfl ?_
  simp only [flag_linkPrecheck, if_true]
  refine ok_step (forEach_ro_run (fun b hb => by obtain ⟨iid, nm, rfl, _⟩ := hp b hb; rfl)) ?_
  refine ok_step (forEach_ro_run (fun b hb => by
    obtain ⟨iid, nm, rfl, x, hx, hxi, hxc⟩ := hp b hb
    have : t.nodes.filter (fun n => n.nid == iid && n.cls == Cls.connectionPoint) = [x] := by
      rw [← filter_nid_unique hd hx]
      apply List.filter_congr
      intro y hy
      by_cases e : y.nid = x.nid
      · have := eq_of_nid_eq hd hy hx e; subst this; simp [hxi, hxc]
      · have e' : ¬ y.nid = iid := by rw [← hxi]; exact e
        rw [beq_eq_false_iff_ne.mpr e', beq_eq_false_iff_ne.mpr e]; rfl
    simp [bind_apply', this])) ?_
  refine ok_step (addGNode_run (by simpa using hfresh)) ?_
  refine forEach_addEdge_step (ln := ⟨.link, .gen c, name, ty, dictUpdate ([("StitchNode", "false"), ("Layer", layer)] ++ []) []⟩)
    (fun _ _ => rfl) (idsDistinct_push hd (by simpa using hfresh)) (by simp [pushNode])
    (fun i hi => by
      obtain ⟨iid, nm, e, x, hx, h3⟩ := hp i hi
      exact ⟨iid, nm, e, x, by simp [pushNode, hx], h3⟩) ?_
  rfl


theorem ro_run {α : Type} {m : M Topo α} (hm : ReadOnly m) {t t' : Topo} {r : Except Err α} (h : m t = (r, t')) : t' = t := by
  have := hm.h t; rw [h] at this; exact this

theorem getParent_cls {nid : Nid} {rel : Rel} {L : Cls} {t t' : Topo} {n : GNode}
    (h : getParent nid rel L t = (.ok (some n), t')) : n ∈ t.nodes ∧ n.cls = L := by
  unfold getParent at h
  rcases cases_run (firstNeighbor nid rel L) t with ⟨ps, t1, h1⟩ | ⟨e, t1, h1⟩
  · have := ro_run (readOnly_firstNeighbor _ _ _) h1; subst this
    rw [bind_ok h1] at h
    split at h
    · rename_i p
      rcases cases_run (findNode p) t1 with ⟨m, t2, h2⟩ | ⟨e, t2, h2⟩
      · rw [bind_ok h2] at h
        simp only [pure_apply', Prod.mk.injEq, Except.ok.injEq, Option.some.injEq] at h
        obtain ⟨rfl, _⟩ := h
        obtain ⟨hm, hmi, _⟩ := findNode_ok h2
        refine ⟨hm, ?_⟩
        -- p comes from the neighbours, all of class L
        unfold firstNeighbor at h1
        rcases cases_run (findNode nid) t1 with ⟨x, t3, h3⟩ | ⟨e, t3, h3⟩
        · have := ro_run (readOnly_findNode _) h3; subst this
          rw [bind_ok h3] at h1
          simp only [read_apply, Prod.mk.injEq, Except.ok.injEq] at h1
          have hp : p ∈ (neighbors t3 x.ref rel L).map (·.nid) := by rw [h1.1]; simp
          obtain ⟨y, hy, hyp⟩ := List.mem_map.mp hp
          have hy' := List.mem_filter.mp hy
          have hyall : y ∈ findAll t3 p := List.mem_filter.mpr ⟨hy'.1, by simp [hyp]⟩
          rw [findAll_of_findNode h2] at hyall
          have : y = m := by simpa using hyall
          subst this
          have := hy'.2
          simp only [Bool.and_eq_true, beq_iff_eq] at this
          exact this.1
        · rw [bind_err h3] at h1; simp at h1
      · rw [bind_err h2] at h; simp at h
    · simp at h
  · rw [bind_err h1] at h; simp at h

theorem bind_ok_inv {α β : Type} {m : M Topo α} {f : α → M Topo β} {t t' : Topo} {b : β}
    (h : (m >>= f) t = (.ok b, t')) : ∃ a t1, m t = (.ok a, t1) ∧ f a t1 = (.ok b, t') := by
  rcases cases_run m t with ⟨a, t1, h1⟩ | ⟨e, t1, h1⟩
  · rw [bind_ok h1] at h; exact ⟨a, t1, h1, h⟩
  · rw [bind_err h1] at h; simp at h

macro "bindinv " h:ident " with " a:ident t:ident h1:ident : tactic =>
  `(tactic| (have ⟨$a, $t, $h1, hh⟩ := bind_ok_inv $h; clear $h; have $h := hh; clear hh))

def IsOwnerCls (c : Cls) : Prop := c = .networkNode ∨ c = .compositeNode

theorem ownerOfService_cls {ns : GNode} {t t' : Topo} {o : GNode}
    (h : ownerOfService ns t = (.ok (some o), t')) : o ∈ t.nodes ∧ IsOwnerCls o.cls := by
  unfold ownerOfService at h
  bindinv h with comp t1 h1
  have := ro_run (readOnly_getParent _ _ _) h1; subst this
  split at h
  · bindinv h with node t2 h2
    have := ro_run (readOnly_getParent _ _ _) h2; subst this
    split at h
    · simp only [pure_apply', Prod.mk.injEq, Except.ok.injEq, Option.some.injEq] at h
      obtain ⟨rfl, _⟩ := h
      have := getParent_cls h2
      exact ⟨this.1, .inl this.2⟩
    · simp at h
  · bindinv h with node t2 h2
    have := ro_run (readOnly_getParent _ _ _) h2; subst this
    split at h
    · simp only [pure_apply', Prod.mk.injEq, Except.ok.injEq, Option.some.injEq] at h
      obtain ⟨rfl, _⟩ := h
      have := getParent_cls h2
      exact ⟨this.1, .inl this.2⟩
    · have := getParent_cls h
      exact ⟨this.1, .inr this.2⟩

theorem ownerNode_spec {iid : Nid} {t t' : Topo} {o : GNode}
    (h : ownerNode iid t = (.ok (some o), t')) :
    (∃ fi, findNode iid t = (.ok fi, t)) ∧ o ∈ t.nodes ∧ IsOwnerCls o.cls := by
  unfold ownerNode at h
  bindinv h with ty t1 h1
  unfold typeOf at h1
  bindinv h1 with fi t0 h0
  have := ro_run (readOnly_findNode _) h0; subst this
  simp only [pure_apply', Prod.mk.injEq, Except.ok.injEq] at h1
  obtain ⟨_, rfl⟩ := h1
  refine ⟨⟨fi, h0⟩, ?_⟩
  split at h
  · bindinv h with p t2 h2
    have := ro_run (readOnly_getParent _ _ _) h2; subst this
    split at h
    · simp at h
    · bindinv h with ns t3 h3
      have := ro_run (readOnly_parentService _) h3; subst this
      exact ownerOfService_cls h
  · bindinv h with ns t3 h3
    have := ro_run (readOnly_parentService _) h3; subst this
    exact ownerOfService_cls h
end FimVerif.Topo
