import FimVerif.Proofs.Lemmas.C11Attrs
/-! C11: closed form of `transform_to_pdp_request` and the "each attribute once, in its own category" lemma. -/
namespace FimVerif.Authz
open FimVerif.Gen.Authz

theorem key_rows : ∀ k : Key, ∃ dt c, k.dataType = some dt ∧ k.category = some c ∧ c ∈ categories := by
  intro k; cases k <;> exact ⟨_, _, rfl, rfl, by decide⟩

theorem ids_injective : ∀ k k' : Key, k.id = k'.id → k = k' := by
  intro k k'; cases k <;> cases k' <;> simp [Key.id]

theorem categories_nodup : categories.Nodup := by decide

/-- the entry attribute `kv` contributes to category `c` -/
def pdpRow (c : String) (kv : Key × List Val) : Option PAttr :=
  match kv.1.dataType, kv.1.category with
  | some dt, some c' => if c' = c then some ⟨kv.1.id, dt, kv.2⟩ else none
  | _, _ => none

theorem pdpFold_eq (cats : Pdp) (a : Attrs) :
    pdpFold cats a = some (cats.map fun p => (p.1, p.2 ++ a.filterMap (pdpRow p.1))) := by
  induction a generalizing cats with
  | nil => simp [pdpFold]
  | cons kv r ih =>
    obtain ⟨dt, c, hdt, hc, _⟩ := key_rows kv.1
    simp only [pdpFold, pdpStep, hdt, hc, ih, List.map_map, Option.some.injEq]
    apply List.map_congr_left
    intro p _
    simp only [Function.comp, List.filterMap_cons, pdpRow, hdt, hc]
    by_cases h : p.1 = c
    · subst h; simp
    · have h' : ¬ c = p.1 := fun e => h e.symm
      simp [h, h']

theorem toPdp_eq (a : Attrs) : toPdp a = some (categories.map fun c => (c, a.filterMap (pdpRow c))) := by
  unfold toPdp; rw [pdpFold_eq]; simp [List.map_map, Function.comp]

theorem filter_row_absent (a : Attrs) (k : Key) (hk : k ∉ keys a) (c : String) :
    (a.filterMap (pdpRow c)).filter (fun x => decide (x.id = k.id)) = [] := by
  induction a with
  | nil => rfl
  | cons kv r ih =>
    simp only [keys, List.map_cons, List.mem_cons, not_or] at hk
    have ihr := ih hk.2
    simp only [List.filterMap_cons]
    cases hrow : pdpRow c kv with
    | none => simpa using ihr
    | some x =>
      have hx : x.id = kv.1.id := by
        unfold pdpRow at hrow; split at hrow
        · split at hrow
          · simp at hrow; rw [← hrow]
          · simp at hrow
        · simp at hrow
      have : ¬ x.id = k.id := by rw [hx]; intro e; exact hk.1 (ids_injective _ _ e).symm
      simp only [List.filter_cons, this, decide_false]; simpa using ihr

theorem filter_row_present (a : Attrs) (hn : (keys a).Nodup) (k : Key) (v : List Val) (hm : (k, v) ∈ a)
    (dt cat : String) (hdt : k.dataType = some dt) (hcat : k.category = some cat) (c : String) :
    (a.filterMap (pdpRow c)).filter (fun x => decide (x.id = k.id)) = if cat = c then [⟨k.id, dt, v⟩] else [] := by
  induction a with
  | nil => simp at hm
  | cons kv r ih =>
    simp only [keys, List.map_cons, List.nodup_cons] at hn
    simp only [List.mem_cons] at hm
    simp only [List.filterMap_cons]
    rcases hm with rfl | hm
    · -- the head is the attribute; it is absent from the rest
      have hrest := filter_row_absent r k hn.1 c
      simp only [pdpRow, hdt, hcat]
      by_cases hc : cat = c
      · subst hc; simp only [if_true, List.filter_cons, decide_true]; simpa using hrest
      · simp only [hc, if_false]; simpa using hrest
    · have hne : kv.1 ≠ k := by
        intro e; apply hn.1; rw [e]; exact List.mem_map_of_mem (f := (·.1)) hm
      have ihr := ih hn.2 hm
      cases hrow : pdpRow c kv with
      | none => simpa using ihr
      | some x =>
        have hx : x.id = kv.1.id := by
          unfold pdpRow at hrow; split at hrow
          · split at hrow
            · simp at hrow; rw [← hrow]
            · simp at hrow
          · simp at hrow
        have : ¬ x.id = k.id := by rw [hx]; intro e; exact hne (ids_injective _ _ e)
        simp only [List.filter_cons, this, decide_false]; simpa using ihr

end FimVerif.Authz
