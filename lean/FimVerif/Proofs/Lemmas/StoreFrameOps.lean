import FimVerif.Proofs.Lemmas.StoreFrame
/-! C04: every operation of the shared store that does not write `GraphID` frames every other graph. Core only. -/
namespace FimVerif.Store
open FimVerif FimVerif.Gen.StoreConsts

theorem withNode_pred (P : Store → Prop) (s : Store) (g nid : String) (k : Nat → R) (hs : P s)
    (hk : ∀ i, findNode s g nid = .ok i → P (k i).2) : P (withNode s g nid k).2 := by
  unfold withNode
  split
  · exact hs
  · rename_i i h; exact hk i h

theorem withLink_pred (P : Store → Prop) (s : Store) (g a b kind : String) (k : Nat → Nat → SEdge → R) (hs : P s)
    (hk : ∀ ia ib e, findNode s g a = .ok ia → findNode s g b = .ok ib → P (k ia ib e).2) :
    P (withLink s g a b kind k).2 := by
  unfold withLink
  refine withNode_pred P s g a _ hs (fun ia ha => withNode_pred P s g b _ hs (fun ib hb => ?_))
  split
  · exact hs
  · split
    · exact hs
    · exact hk _ _ _ ha hb

/-- a node found in graph `g` is not among the nodes of another graph `g'` -/
theorem findNode_not_in (s : Store) (h : Inv s) (g g' nid : String) (i : Nat) (hf : findNode s g nid = .ok i)
    (hne : g' ≠ g) : idIn (nodesOf s g') i = false := by
  obtain ⟨n, hn, e, hg, _⟩ := findNode_ok s g nid i hf
  rw [← e]; exact disjoint_ids s h n hn g g' hg hne

theorem frames_updFound (s : Store) (h : Inv s) (g g' nid : String) (i : Nat) (hf : findNode s g nid = .ok i)
    (f : Props → Props) (hfp : ∀ a, AMap.get graphId (f a) = AMap.get graphId a) (hne : g' ≠ g) :
    Frames g' s (updNode i f s) := by
  obtain ⟨n, hn, e, hg, _⟩ := findNode_ok s g nid i hf
  exact frames_updNode g g' s h i f hfp n hn e hg hne

theorem frame_addNode (s : Store) (h : Inv s) (g g' nid label : String) (props : Option Props)
    (hk : (Op.addNode g nid label props).keepsGraphId = true) (hne : g' ≠ g) :
    Frames g' s (addNode g nid label props s).2 := by
  unfold addNode
  split
  · exact Frames.refl _ _
  · cases props with
    | none => exact frames_addBlankNode g g' label nid s hne
    | some p =>
      refine Frames.trans (frames_addBlankNode g g' label nid s hne) ?_
      simp only [Op.keepsGraphId, Bool.not_eq_true'] at hk
      have hnk := AMap.not_mem_keys_of_has_false _ _ hk
      refine frames_updNode g g' _ (inv_addBlankNode s g label nid h) s.nextId _
        (fun a => AMap.get_update_not_mem _ _ _ hnk)
        ⟨s.nextId, [(graphId, .str g), (propClass, .str label), (nodeId, .str nid)]⟩ (by simp [addBlankNode]) rfl ?_ hne
      simp [inG, AMap.get]

theorem frame_addGraph (s : Store) (h : Inv s) (g g' : String) (ig : IGraph) (hne : g' ≠ g) :
    Frames g' s (addGraph g ig s).2 := by
  unfold addGraph
  simp only
  split
  · exact frames_delIfPresent g g' s h hne
  · refine Frames.trans (frames_delIfPresent g g' s h hne) (frames_appendGraph g' _ (inv_delIfPresent s g h) _ _ ?_)
    intro a ha
    obtain ⟨a0, _, rfl⟩ := List.mem_map.1 ha
    rw [AMap.get_set_eq]
    intro e; injection e with e; injection e with e; exact hne e.symm

theorem graphId_mem_noUnset : graphId ∈ noUnset := by decide

theorem frame_step (op : Op) (s : Store) (g' : String) (h : Inv s) (hk : op.keepsGraphId = true)
    (hne : g' ≠ op.target) : Frames g' s (step op s).2 := by
  cases op with
  | addNode g nid label props => exact frame_addNode s h g g' nid label props hk hne
  | deleteNode g nid =>
    exact withNode_pred (Frames g' s) s g nid _ (Frames.refl _ _)
      (fun i hi => frames_removeNode g' s i (findNode_not_in s h g g' nid i hi hne))
  | addLink g a rel b props =>
    simp only [step, addLink]
    refine withNode_pred (Frames g' s) s g a _ (Frames.refl _ _) (fun ia ha =>
      withNode_pred (Frames g' s) s g b _ (Frames.refl _ _) (fun ib _ => ?_))
    have hia := findNode_not_in s h g g' a ia ha hne
    cases props with
    | none => exact frames_addEdge g' s ia ib _ (Or.inl hia)
    | some p =>
      simp only
      split
      · exact Frames.refl _ _
      · exact frames_addEdge g' s ia ib _ (Or.inl hia)
  | updateNodeProperty g nid k v =>
    simp only [step]
    refine assertVal_pred (Frames g' s) _ s _ (Frames.refl _ _) ?_
    simp only [updateNodeProperty]
    split
    · exact Frames.refl _ _
    · simp only [Op.keepsGraphId, bne_iff_ne, ne_eq] at hk
      exact withNode_pred (Frames g' s) s g nid _ (Frames.refl _ _)
        (fun i hi => frames_updFound s h g g' nid i hi _ (fun a => AMap.get_set_ne _ _ _ _ (Ne.symm hk)) hne)
  | unsetNodeProperty g nid k =>
    simp only [step, unsetNodeProperty]
    split
    · exact Frames.refl _ _
    · split
      · exact Frames.refl _ _
      · rename_i hnu
        have hkg : graphId ≠ k := fun e => hnu (e ▸ graphId_mem_noUnset)
        refine withNode_pred (Frames g' s) s g nid _ (Frames.refl _ _) (fun i hi => ?_)
        split
        · exact Frames.refl _ _
        · split
          · exact frames_updFound s h g g' nid i hi _ (fun a => AMap.get_erase_ne _ _ _ hkg) hne
          · exact Frames.refl _ _
  | updateNodesProperty g k v =>
    simp only [step]
    refine assertVal_pred (Frames g' s) _ s _ (Frames.refl _ _) ?_
    simp only [updateNodesProperty]
    split
    · exact Frames.refl _ _
    · split
      · exact Frames.refl _ _
      · simp only [Op.keepsGraphId, bne_iff_ne, ne_eq] at hk
        exact frames_updGraphNodes g g' s _ (fun a => AMap.get_set_ne _ _ _ _ (Ne.symm hk)) hne
  | updateNodeProperties g nid props =>
    simp only [step, updateNodeProperties]
    split
    · exact Frames.refl _ _
    · simp only [Op.keepsGraphId, Bool.not_eq_true'] at hk
      have hnk := AMap.not_mem_keys_of_has_false _ _ hk
      exact withNode_pred (Frames g' s) s g nid _ (Frames.refl _ _)
        (fun i hi => frames_updFound s h g g' nid i hi _ (fun a => AMap.get_update_not_mem _ _ _ hnk) hne)
  | updateLinkProperty g a b kind k v =>
    simp only [step]
    refine assertVal_pred (Frames g' s) _ s _ (Frames.refl _ _) ?_
    simp only [updateLinkProperty]
    split
    · exact Frames.refl _ _
    · exact withLink_pred (Frames g' s) s g a b kind _ (Frames.refl _ _)
        (fun ia ib _ ha _ => frames_updEdge g' s ia ib _ (Or.inl (findNode_not_in s h g g' a ia ha hne)))
  | unsetLinkProperty g a b kind k =>
    simp only [step, unsetLinkProperty]
    split
    · exact Frames.refl _ _
    · exact withLink_pred (Frames g' s) s g a b kind _ (Frames.refl _ _)
        (fun ia ib _ ha _ => frames_updEdge g' s ia ib _ (Or.inl (findNode_not_in s h g g' a ia ha hne)))
  | updateLinkProperties g a b kind props =>
    simp only [step, updateLinkProperties]
    split
    · exact Frames.refl _ _
    · exact withLink_pred (Frames g' s) s g a b kind _ (Frames.refl _ _)
        (fun ia ib _ ha _ => frames_updEdge g' s ia ib _ (Or.inl (findNode_not_in s h g g' a ia ha hne)))
  | deleteGraph g => exact frames_delGraphNl g g' s h hne
  | addGraph g ig => exact frame_addGraph s h g g' ig.close hne
  | addGraphDirect g ig =>
    simp only [step, addGraphDirect]
    refine Frames.trans (frames_delIfPresent g g' s h hne) (frames_appendGraph g' _ (inv_delIfPresent s g h) _ _ ?_)
    intro a ha
    simp only [Op.keepsGraphId, List.all_eq_true, beq_iff_eq] at hk
    rw [hk a (by simpa [IGraph.close] using ha)]
    intro e; injection e with e; injection e with e; exact hne e.symm
  | clone g g2 =>
    simp only [step, cloneGraph]
    split
    · exact Frames.refl _ _
    · exact frame_addGraph s h g2 g' _ hne
  | mergeNodes g nid g2 pol => simp [Op.keepsGraphId] at hk
  | delAllGraphs => simp [Op.keepsGraphId] at hk
  | getNodeProperties g nid =>
    simp only [step, getNodeProperties]
    refine withNode_pred (Frames g' s) s g nid _ (Frames.refl _ _) (fun i _ => ?_)
    split
    · exact Frames.refl _ _
    · split <;> exact Frames.refl _ _
  | getLinkProperties g a b =>
    simp only [step, getLinkProperties]
    refine withNode_pred (Frames g' s) s g a _ (Frames.refl _ _) (fun ia _ =>
      withNode_pred (Frames g' s) s g b _ (Frames.refl _ _) (fun ib _ => ?_))
    split
    · exact Frames.refl _ _
    · split <;> exact Frames.refl _ _
  | listAllNodeIds g => simp only [step, listAllNodeIds, nidList]; split; exact Frames.refl _ _; split <;> exact Frames.refl _ _
  | nodesByClass g label => simp only [step, nodesByClass, nidList]; split <;> exact Frames.refl _ _
  | nodesByClassAndType g label ntype => simp only [step, nodesByClassAndType, nidList]; split <;> exact Frames.refl _ _
  | nodeExists g nid label => simp only [step, nodeExists]; split <;> exact Frames.refl _ _
  | graphExists g => exact Frames.refl _ _
  | checkNodeUnique g label name => exact Frames.refl _ _
  | findMatchingNodes g other =>
    simp only [step, findMatchingNodes]
    split
    · exact Frames.refl _ _
    · split <;> exact Frames.refl _ _
    · exact Frames.refl _ _

end FimVerif.Store
