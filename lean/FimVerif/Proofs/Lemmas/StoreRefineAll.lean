import FimVerif.Proofs.Lemmas.StoreRefineLink
import FimVerif.Proofs.Lemmas.StoreDisjoint
/-! C05: both backends refine the reference model, operation by operation. Core only. -/
namespace FimVerif.Store
open FimVerif FimVerif.Gen.StoreConsts

theorem ref_assertVal (g : String) (v : Val) (s : Store) (r : R) (r' : AGraph.AR) (h : Ref g r r') :
    Ref g (assertVal v s r) (AGraph.assertVal v (abs s g) r') := by
  unfold assertVal AGraph.assertVal
  split
  · exact ref_err g s _
  · exact h

/-- one step of the shared store is one step of the reference model on the addressed graph -/
theorem refines_step (op : Op) (s : Store) (h : Inv s) (hc : AGraph.covers op = true) (hk : op.keepsKeys = true) :
    Ref op.target (step op s) (AGraph.step op (abs s op.other) (abs s op.target)) := by
  cases op with
  | addNode g nid label props =>
    refine ref_addNode s h g nid label props ?_
    cases props with
    | none => simp [AMap.keys]
    | some p =>
      simp only [Op.keepsKeys, Bool.and_eq_true, Bool.not_eq_true'] at hk
      exact AMap.not_mem_keys_of_has_false _ _ hk.1
  | deleteNode g nid => exact ref_deleteNode s h g nid
  | addLink g a rel b props => exact ref_addLink s h g a rel b props
  | updateNodeProperty g nid k v =>
    simp only [Op.keepsKeys, Bool.and_eq_true, bne_iff_ne, ne_eq] at hk
    exact ref_assertVal g v s _ _ (ref_updateNodeProperty s h g nid k v hk.1 hk.2)
  | unsetNodeProperty g nid k => exact ref_unsetNodeProperty s h g nid k
  | updateNodesProperty g k v =>
    simp only [Op.keepsKeys, Bool.and_eq_true, bne_iff_ne, ne_eq] at hk
    exact ref_assertVal g v s _ _ (ref_updateNodesProperty s g k v hk.1 hk.2)
  | updateNodeProperties g nid props =>
    simp only [Op.keepsKeys, Bool.and_eq_true, Bool.not_eq_true'] at hk
    exact ref_updateNodeProperties s h g nid props (AMap.not_mem_keys_of_has_false _ _ hk.1) (AMap.not_mem_keys_of_has_false _ _ hk.2)
  | updateLinkProperty g a b kind k v => exact ref_assertVal g v s _ _ (ref_updateLinkProperty s h g a b kind k v)
  | unsetLinkProperty g a b kind k => exact ref_unsetLinkProperty s h g a b kind k
  | updateLinkProperties g a b kind props => exact ref_updateLinkProperties s h g a b kind props
  | deleteGraph g => exact ref_deleteGraph s g
  | addGraph g ig => simp [AGraph.covers] at hc
  | addGraphDirect g ig => simp [AGraph.covers] at hc
  | clone g g2 => simp [AGraph.covers] at hc
  | mergeNodes g nid g2 pol => simp [AGraph.covers] at hc
  | delAllGraphs => simp [AGraph.covers] at hc
  | getNodeProperties g nid => exact ref_getNodeProperties s h g nid
  | getLinkProperties g a b => exact ref_getLinkProperties s h g a b
  | listAllNodeIds g => exact ref_listAllNodeIds s g
  | nodesByClass g label => exact ref_nodesByClass s g label
  | nodesByClassAndType g label ntype => exact ref_nodesByClassAndType s g label ntype
  | nodeExists g nid label => exact ref_nodeExists s g nid label
  | graphExists g => exact ref_graphExists s g
  | checkNodeUnique g label name => exact ref_checkNodeUnique s g label name
  | findMatchingNodes g other => exact ref_findMatchingNodes s g other

/-- covered operations that keep the keys also keep `GraphID` in the sense of the frame theorem -/
theorem keepsGraphId_of_keepsKeys (op : Op) (hc : AGraph.covers op = true) (hk : op.keepsKeys = true) : op.keepsGraphId = true := by
  cases op with
  | addNode g nid label props => cases props <;> simp_all [Op.keepsKeys, Op.keepsGraphId]
  | mergeNodes g nid g2 pol => simp [AGraph.covers] at hc
  | _ => simp_all [Op.keepsKeys, Op.keepsGraphId, AGraph.covers]

/-- … and over all graph ids at once (refinement on the addressed graph, frame on the others) -/
theorem refines_stepAll (op : Op) (s : Store) (h : Inv s) (hc : AGraph.covers op = true) (hk : op.keepsKeys = true) :
    (fun g => abs (step op s).2 g) = AGraph.stepAll op (fun g => abs s g) := by
  funext g
  unfold AGraph.stepAll
  by_cases e : g = op.target
  · simp only [e, if_true]; exact (refines_step op s h hc hk).2
  · simp only [e, if_false]
    have := frame_step op s g h (keepsGraphId_of_keepsKeys op hc hk) e
    simp only [abs, this.1, this.2]

end FimVerif.Store

namespace FimVerif.DStore
open FimVerif FimVerif.Store

/-- single-graph operations of the reference interface (everything covered but `find_matching_nodes`) -/
def single (op : Op) : Bool := AGraph.covers op && (match op with | .findMatchingNodes .. => false | _ => true)

/-- the one-graph-per-id backend refines the same reference model: every inherited method is the
    shared-store method on the sub-store of its graph -/
theorem refines_step (op : Op) (d : DStore) (h : Inv d) (hs : single op = true) (hk : op.keepsKeys = true) :
    outAbs (step op d).1 = (AGraph.step op AGraph.empty (abs d op.target)).1 ∧
    abs (step op d).2 op.target = (AGraph.step op AGraph.empty (abs d op.target)).2 := by
  have key : ∀ o : Op, AGraph.covers o = true → o.keepsKeys = true → (match o with | .findMatchingNodes .. => False | _ => True) →
      outAbs (lift o.target (Store.step o) d).1 = (AGraph.step o AGraph.empty (abs d o.target)).1 ∧
      abs (lift o.target (Store.step o) d).2 o.target = (AGraph.step o AGraph.empty (abs d o.target)).2 := by
    intro o hc hk ho
    have := Store.refines_step o (sub d o.target) (h _) hc hk
    unfold Store.Ref at this
    unfold lift abs
    simp only [sub_put_eq]
    constructor
    · rw [this.1]
      cases o <;> simp_all [AGraph.step, AGraph.covers]
    · rw [this.2]
      cases o <;> simp_all [AGraph.step, AGraph.covers]
  cases op with
  | deleteGraph g =>
    refine ⟨rfl, ?_⟩
    simp only [step, delGraph, abs, Op.target, sub_put_eq, AGraph.step]
    simp [Store.abs, Store.absView, Store.nodesOf, Store.edgesOf, AGraph.empty]
  | findMatchingNodes g o => simp [single] at hs
  | addGraph g ig => simp [single, AGraph.covers] at hs
  | addGraphDirect g ig => simp [single, AGraph.covers] at hs
  | clone g g2 => simp [single, AGraph.covers] at hs
  | mergeNodes g nid g2 pol => simp [single, AGraph.covers] at hs
  | delAllGraphs => simp [single, AGraph.covers] at hs
  | _ => exact key _ (by simp [AGraph.covers]) hk trivial

end FimVerif.DStore
