import FimVerif.Proofs.Lemmas.TopoInvNames
import FimVerif.Proofs.Lemmas.TopoAtomicCompRb
/-!
# C07 — `Node.add_component` / `Node.add_storage`: every `add_node; add_link` pair of the catalogue expansion keeps `InvS`,
so the invariant holds wherever the call stops (it is not atomic: C09).
-/
namespace FimVerif.Topo
open FimVerif FimVerif.M FimVerif.Gen

theorem findNode_congr {i : Nid} {s s' : Topo} (hn : s'.nodes = s.nodes) {x : GNode} (h : findNode i s = (.ok x, s)) :
    findNode i s' = (.ok x, s') := by
  have := findAll_of_findNode h
  unfold findNode findAll at *
  rw [hn, this]

theorem findNode_grow_old {i : Nid} {s : Topo} {x n : GNode} {E : List GEdge} (h : findNode i s = (.ok x, s))
    (hf : ∀ m ∈ s.nodes, m.nid ≠ n.nid) : findNode i (grow s [n] E) = (.ok x, grow s [n] E) :=
  findNode_congr (s := pushNode n s) (s' := grow s [n] E) rfl (findNode_push_old h hf)

theorem findNode_grow_new {s : Topo} {n : GNode} {E : List GEdge} (hf : ∀ m ∈ s.nodes, m.nid ≠ n.nid) :
    findNode n.nid (grow s [n] E) = (.ok n, grow s [n] E) :=
  findNode_congr (s := pushNode n s) (s' := grow s [n] E) rfl (findNode_push_new hf)

theorem bind_assoc_apply {α β γ : Type} (m : M Topo α) (g : α → M Topo β) (k : β → M Topo γ) (s : Topo) :
    ((m >>= g) >>= k) s = (m >>= fun a => g a >>= k) s := by
  rcases cases_run m s with ⟨a, s', h⟩ | ⟨e, s', h⟩
  · rw [bind_ok h]
    simp only [bind_apply', h]
  · rw [bind_err h]
    simp only [bind_apply', h]

theorem state_after_bind {α β : Type} (m : M Topo α) (g : α → M Topo β) (hg : ∀ a s, (g a s).2 = s) (s : Topo) :
    ((m >>= g) s).2 = (m s).2 := by
  rcases cases_run m s with ⟨a, s', h⟩ | ⟨e, s', h⟩
  · rw [bind_ok h, h]; exact hg a s'
  · rw [bind_err h, h]

/-- predicates that survive hanging a fresh element (not a ServicePort) off its container: `InvS` and `InvD` -/
structure AttachStable (P : Topo → Prop) : Prop where
  ids : ∀ s, P s → IdsOk s
  closed : ∀ s, P s → ClosedOk s
  attach : ∀ {s : Topo} {p n : GNode} {rel : Rel}, P s → p ∈ s.nodes → (∀ m ∈ s.nodes, m.nid ≠ n.nid) → nodeOk n = true →
    edgeOk ⟨p.ref, n.ref, rel⟩ = true → p.cls ≠ .link → (n.cls = .connectionPoint → n.typ ≠ "ServicePort") →
    NameFree s p.ref rel n → P (grow s [n] [⟨p.ref, n.ref, rel⟩])

theorem attachStable_invS : AttachStable InvS :=
  ⟨fun _ h => h.ids, fun _ h => h.closed, fun h hp hf hv he hpl hsp _ => invS_attach h hp hf hv he hpl hsp⟩
theorem attachStable_invD : AttachStable InvD :=
  ⟨fun _ h => h.ids, fun _ h => h.closed, fun h hp hf hv he hpl _ _ => invD_attach h hp hf hv he hpl⟩

/-- `add_node` of an element followed by `add_link` from its container: either nothing happened, or the element hangs
off the container and the rest of the call runs in the extended state -/
theorem inv_attach_step {P : Topo → Prop} (hP : AttachStable P) {β : Type} {s : Topo} {n p : GNode} {pid : Nid} {rel : Rel} {f : Unit → M Topo β} (h : P s)
    (hp : findNode pid s = (.ok p, s))
    (hk : (∀ m ∈ s.nodes, m.nid ≠ n.nid) → P (f () (grow s [n] [⟨p.ref, n.ref, rel⟩])).2) :
    P ((addGNode n >>= fun _ => addEdge pid rel n.nid >>= f) s).2 := by
  rcases addGNode_cases n s with he | ⟨he, hn⟩
  · rw [bind_err he]; exact h
  · rw [bind_ok he, bind_ok (addEdge_run (findNode_push_old hp hn) (findNode_push_new hn)), attach_state (hP.closed _ h) hn]
    exact hk hn

/-! ## `Node.add_component` / `Node.add_storage` -/

/-- every catalogue entry creates elements with allowed types, and no ServicePort -/
def catOk : Bool := Rules.catalog.all (fun e => typeOk .component e.ctype && (!e.hasIfaces || typeOk .networkService e.nsType) &&
  e.ifaces.all (fun ci => typeOk .connectionPoint ci.itype && ci.itype != "ServicePort"))
theorem catalog_ok : catOk = true := by decide

structure EntryOk (e : Rules.CatEntry) : Prop where
  ctype : typeOk .component e.ctype = true
  nstype : e.hasIfaces = true → typeOk .networkService e.nsType = true
  ifaces : ∀ ci ∈ e.ifaces, typeOk .connectionPoint ci.itype = true ∧ ci.itype ≠ "ServicePort"

theorem entryOk_of_find {m c : String} {e : Rules.CatEntry} (h : catalogFind m c = some e) : EntryOk e := by
  have hm : e ∈ Rules.catalog := List.mem_of_find?_eq_some h
  have := List.all_eq_true.mp catalog_ok e hm
  simp only [Bool.and_eq_true, Bool.or_eq_true, Bool.not_eq_true', List.all_eq_true, bne_iff_ne, ne_eq] at this
  refine ⟨this.1.1, fun hh => ?_, fun ci hci => this.2 ci hci⟩
  rcases this.1.2 with h1 | h1
  · rw [hh] at h1; cases h1
  · exact h1

theorem inv_ifaceLoop {P : Topo → Prop} (hP : AttachStable P) (nsId : Nid) (nsn : GNode) (aname : String) (hnc : nsn.cls = .networkService) :
    ∀ (l : List (Rules.CatIface × Nid)) (s : Topo), P s → findNode nsId s = (.ok nsn, s) →
      (∀ x ∈ l, typeOk .connectionPoint x.1.itype = true ∧ x.1.itype ≠ "ServicePort") →
      P (forEach l (fun x => match x with
        | (ci, iid) => do
          addGNode ⟨.connectionPoint, iid, aname ++ "-" ++ ci.port, ci.itype, ci.props⟩
          addEdge nsId .connects iid) s).2 := by
  intro l
  induction l with
  | nil => intro s h _ _; exact h
  | cons x xs ih =>
    intro s h hns hok
    obtain ⟨ci, iid⟩ := x
    show P (((addGNode ⟨.connectionPoint, iid, aname ++ "-" ++ ci.port, ci.itype, ci.props⟩ >>= fun _ => addEdge nsId .connects iid)
      >>= fun _ => forEach xs _) s).2
    rw [bind_assoc_apply]
    have hci := hok (ci, iid) (List.mem_cons_self ..)
    refine inv_attach_step hP (n := ⟨.connectionPoint, iid, aname ++ "-" ++ ci.port, ci.itype, ci.props⟩) h hns (fun hn => ?_)
    obtain ⟨hm, _, _⟩ := findNode_ok hns
    refine ih _ ?_ (findNode_grow_old hns hn) (fun y hy => hok y (List.mem_cons_of_mem _ hy))
    exact hP.attach h hm hn (by simp [nodeOk, classOk_all, hci.1]) (by simp [edgeOk, GNode.ref, hnc]) (by simp [hnc])
      (fun _ => hci.2) (.inl rfl)

/-- the writing part of `compNew` (its join point after the validations); the expansion after the Component node runs
inside the clean-up wrapper `compGuard` of `add_component_sliver` -/
def compBody (b : Bool) (parent id : Nid) (c1 : Nat) (a : CompArgs) (p : GNode) (e : Rules.CatEntry) : M Topo Nid :=
  match (if b = true then ifaceIds a.ifNids e.ifaces.length c1 else ([], c1)) with
  | (ifIds, c2) =>
    match (if b = true then pick a.nsNid c2 else (id, c2)) with
    | (nsId, _) => do
      let kw ← M.ofExcept (validateProps a.props)
      addGNode ⟨.component, id, a.name, e.ctype, dictUpdate [("Model", e.model), ("Details", e.details), ("StitchNode", "false")] kw⟩
      compGuard id (do
        addEdge parent .has id
        if b then do
          addGNode ⟨.networkService, nsId, p.name ++ "-" ++ a.name ++ e.nsSuffix, e.nsType, [("StitchNode", "false"), ("Layer", "L2")]⟩
          addEdge id .has nsId
          forEach (e.ifaces.zip ifIds) (fun (ci, iid) => do
            addGNode ⟨.connectionPoint, iid, a.name ++ "-" ++ ci.port, ci.itype, ci.props⟩
            addEdge nsId .connects iid)
        else Pure.pure ())
      Pure.pure id

/-- whatever `Rules.componentRollback` is: without the clean-up every `add_node; add_link` pair of the expansion keeps `P`
wherever the call stops; with it, a raise gives back the start state (`compGuard_attach_cases`, C09) -/
theorem inv_compBody {P : Topo → Prop} (hP : AttachStable P) (b : Bool) (parent id : Nid) (c1 : Nat) (a : CompArgs) (p pn : GNode) (e : Rules.CatEntry) (s : Topo) (h : P s)
    (hp : findNode parent s = (.ok pn, s)) (hpc : pn.cls = .networkNode) (he : EntryOk e) (hb : b = e.hasIfaces)
    (hnm : ∀ m ∈ kids s pn.ref .has .component, m.name ≠ a.name) :
    P (compBody b parent id c1 a p e s).2 := by
  unfold compBody
  rcases (if b = true then ifaceIds a.ifNids e.ifaces.length c1 else ([], c1)) with ⟨ifIds, c2⟩
  dsimp only
  rcases (if b = true then pick a.nsNid c2 else (id, c2)) with ⟨nsId, c3⟩
  dsimp only
  refine ro_step (Q := fun r => P r.2) (by ro) (fun _ => h) (fun kw _ => ?_)
  obtain ⟨hpm, _, _⟩ := findNode_ok hp
  rcases addGNode_cases ⟨.component, id, a.name, e.ctype, dictUpdate [("Model", e.model), ("Details", e.details), ("StitchNode", "false")] kw⟩ s
    with hadd | ⟨hadd, hn⟩
  · rw [bind_err hadd]; exact h
  · rw [bind_ok hadd, state_after_bind _ _ (fun _ _ => rfl), compAttach_eq b parent id nsId p.name a.name e ifIds]
    generalize hcn : (⟨.component, id, a.name, e.ctype, dictUpdate [("Model", e.model), ("Details", e.details), ("StitchNode", "false")] kw⟩ : GNode) = cn at hn
    have hcid : cn.nid = id := by rw [← hcn]
    have hccls : cn.cls = .component := by rw [← hcn]
    subst hcid
    rcases compGuard_attach_cases (sn := ⟨.networkService, nsId, p.name ++ "-" ++ a.name ++ e.nsSuffix, e.nsType, [("StitchNode", "false"), ("Layer", "L2")]⟩)
      ⟨hP.closed _ h, hP.ids _ h, hpm, hccls, by simp [hpc], hn⟩ hp rfl b a.name (e.ifaces.zip ifIds) with hg | ⟨_, e', hg⟩
    · -- the wrapper is transparent: the expansion itself
      rw [hg]
      unfold compAttach
      rw [bind_ok (addEdge_run (findNode_push_old hp hn) (findNode_push_new hn)), attach_state (hP.closed _ h) hn]
      have h1 : P (grow s [cn] [⟨pn.ref, cn.ref, .has⟩]) :=
        hP.attach h hpm hn (by rw [← hcn]; simp [nodeOk, classOk_all, he.ctype]) (by simp [edgeOk, GNode.ref, hpc, hccls]) (by simp [hpc])
          (by simp [hccls]) (.inr (.inr (by rw [← hcn]; exact hnm)))
      split
      · rename_i hifs
        refine inv_attach_step hP (n := ⟨.networkService, nsId, p.name ++ "-" ++ a.name ++ e.nsSuffix, e.nsType, _⟩) h1
          (findNode_grow_new hn) (fun hn2 => ?_)
        refine inv_ifaceLoop hP nsId _ a.name rfl _ _ ?_ (findNode_grow_new hn2) ?_
        · exact hP.attach h1 (by simp [grow]) hn2 (by simp [nodeOk, classOk_all, he.nstype (hb ▸ hifs)]) (by simp [edgeOk, GNode.ref, hccls])
            (by simp [hccls]) (by simp) (nameFree_new_parent (hP.closed _ h) hpm hn)
        · intro x hx
          exact he.ifaces x.1 (List.of_mem_zip hx).1
      · exact h1
    · -- the clean-up ran: the start state is back
      rw [hg]; exact h

theorem inv_compNew {P : Topo → Prop} (hP : AttachStable P) (fl : Flavour) (c : Nat) (parent : Nid) (a : CompArgs) (s : Topo) (hh : HandleOk s parent .networkNode)
    (hnm : ∀ pn, findNode parent s = (.ok pn, s) → ∀ m ∈ kids s pn.ref .has .component, m.name ≠ a.name)
    (h : P s) : P (compNew fl c parent a s).2 := by
  obtain ⟨nm, nid, ctype, model, nsNid, ifNids, nLabels, props⟩ := a
  unfold compNew
  dsimp only
  refine ro_step (Q := fun r => P r.2) (by ro) (fun _ => h) (fun _ _ => ?_)
  rcases pick nid c with ⟨id, c1⟩
  dsimp only
  refine ro_step (Q := fun r => P r.2) (by ro) (fun _ => h) (fun _ _ => ?_)
  refine ro_step (Q := fun r => P r.2) (by ro) (fun _ => h) (fun _ _ => ?_)
  refine ro_step (Q := fun r => P r.2) (by ro) (fun _ => h) (fun p hp => ?_)
  refine ro_step (Q := fun r => P r.2) (by ro) (fun _ => h) (fun e he => ?_)
  refine ro_step (Q := fun r => P r.2) (by ro) (fun _ => h) (fun _ _ => ?_)
  have heo : EntryOk e := entryOk_of_find (need_some ⟨s, he⟩)
  obtain ⟨hpm, hpi, _⟩ := findNode_ok hp
  have hpc : p.cls = .networkNode := hh p hpm hpi
  have leaf : ∀ b, b = e.hasIfaces → P (compBody b parent id c1 ⟨nm, nid, ctype, model, nsNid, ifNids, nLabels, props⟩ p e s).2 :=
    fun b hb => inv_compBody hP b parent id c1 _ p p e s h hp hpc heo hb (hnm p hp)
  split
  · rename_i hif
    have lf := leaf true hif.symm
    clear leaf
    cases ifNids <;> cases nLabels <;> dsimp only <;>
    repeat' (first
      | exact lf
      | refine ro_step (Q := fun r => P r.2) (readOnly_guard _ _) (fun _ => h) (fun _ _ => ?_)
      | (refine ro_step (Q := fun r => P r.2) (readOnly_raise _) (fun _ => h) (fun _ hr => ?_); simp at hr))
  · rename_i hif
    exact leaf false (by simpa using hif)

theorem inv_addComponent {P : Topo → Prop} (hP : AttachStable P) (fl : Flavour) (c : Nat) (parent : Nid) (a : CompArgs) (s : Topo) (hh : HandleOk s parent .networkNode)
    (h : P s) : P (addComponent fl c parent a s).2 := by
  unfold addComponent
  refine ro_step (Q := fun r => P r.2) (by ro) (fun _ => h) (fun comps hch => ?_)
  refine ro_step (Q := fun r => P r.2) (by ro) (fun _ => h) (fun _ hg => ?_)
  exact inv_compNew hP fl c parent a s hh (sibling_free (hP.ids _ h) hch (guard_ok hg)) h

theorem inv_addStorage {P : Topo → Prop} (hP : AttachStable P) (fl : Flavour) (c : Nat) (parent : Nid) (name : String) (nid : Option Nid) (props : List PropArg) (s : Topo)
    (hh : HandleOk s parent .networkNode) (h : P s) : P (addStorage fl c parent name nid props s).2 := by
  unfold addStorage
  refine ro_step (Q := fun r => P r.2) (by ro) (fun _ => h) (fun _ _ => ?_)
  refine ro_step (Q := fun r => P r.2) (by ro) (fun _ => h) (fun comps hch => ?_)
  refine ro_step (Q := fun r => P r.2) (by ro) (fun _ => h) (fun _ hg => ?_)
  exact inv_compNew hP fl c parent _ s hh (sibling_free (hP.ids _ h) hch (guard_ok hg)) h

theorem invS_addComponent (fl : Flavour) (c : Nat) (parent : Nid) (a : CompArgs) (s : Topo) (hh : HandleOk s parent .networkNode)
    (h : InvS s) : InvS (addComponent fl c parent a s).2 := inv_addComponent attachStable_invS fl c parent a s hh h
theorem invD_addComponent (fl : Flavour) (c : Nat) (parent : Nid) (a : CompArgs) (s : Topo) (hh : HandleOk s parent .networkNode)
    (h : InvD s) : InvD (addComponent fl c parent a s).2 := inv_addComponent attachStable_invD fl c parent a s hh h
theorem invS_addStorage (fl : Flavour) (c : Nat) (parent : Nid) (name : String) (nid : Option Nid) (props : List PropArg) (s : Topo)
    (hh : HandleOk s parent .networkNode) (h : InvS s) : InvS (addStorage fl c parent name nid props s).2 :=
  inv_addStorage attachStable_invS fl c parent name nid props s hh h
theorem invD_addStorage (fl : Flavour) (c : Nat) (parent : Nid) (name : String) (nid : Option Nid) (props : List PropArg) (s : Topo)
    (hh : HandleOk s parent .networkNode) (h : InvD s) : InvD (addStorage fl c parent name nid props s).2 :=
  inv_addStorage attachStable_invD fl c parent name nid props s hh h

end FimVerif.Topo
