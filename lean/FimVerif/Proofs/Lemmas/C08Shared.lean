import FimVerif.Proofs.Lemmas.C08Sep
namespace FimVerif.Remove

/-! ### Shared links with several ends inside what is removed: what the code does, exactly

Without any hypothesis on links: after `A` has been deleted, `remove_cp_and_links(i)` deletes the family of `i` and every
link of the family that is still present and has exactly two *surviving* connection points. -/

def cpLinksA (g : G) (A fam : List Nat) : List Nat :=
  fam.flatMap (fun i => (g.nbrs i .connects .link).filter
    (fun l => !A.contains l && ((g.nbrs l .connects .cp).filter (fun e => !A.contains e)).length == 2))

def cpDelA (g : G) (A : List Nat) (x : Nat) (dp : Bool) : List Nat :=
  dedup (cpFamily g x dp ++ cpLinksA g A (cpFamily g x dp))

/-- only the family must be untouched by `A` -/
def SepFam (g : G) (A : List Nat) (i : Nat) : Bool :=
  !A.contains i &&
  (g.nbrs i .connects .cp).all (fun p => !A.contains p && (g.nbrs p .connects .cp).all (fun q => !A.contains q))

theorem cpFamily_minus' (g : G) (A : List Nat) (i : Nat) (dp : Bool) (h : SepFam g A i = true) :
    cpFamily (g.minus A) i dp = cpFamily g i dp := by
  simp only [SepFam, Bool.and_eq_true, Bool.not_eq_true'] at h
  obtain ⟨hi, hp⟩ := h
  have hall := List.all_eq_true.mp hp
  simp only [cpFamily]
  rw [nbrs_minus g A i _ _ hi]
  have : (g.nbrs i .connects .cp).filter (fun y => !A.contains y) = g.nbrs i .connects .cp := by
    apply filter_eq_self_of_all
    apply List.all_eq_true.mpr; intro p hp'; have := hall p hp'; simp only [Bool.and_eq_true] at this; exact this.1
  rw [this]
  congr 1
  apply List.filter_congr
  intro p hp'
  have := hall p hp'
  simp only [Bool.and_eq_true, Bool.not_eq_true'] at this
  rw [nbrs_minus g A p _ _ this.1, filter_eq_self_of_all this.2]

theorem fam_notin' (g : G) (A : List Nat) (i : Nat) (dp : Bool) (h : SepFam g A i = true) :
    ∀ f ∈ cpFamily g i dp, A.contains f = false := by
  simp only [SepFam, Bool.and_eq_true, Bool.not_eq_true'] at h
  obtain ⟨hi, hp⟩ := h
  intro f hf
  simp only [cpFamily, List.mem_cons, List.mem_filter] at hf
  rcases hf with rfl | ⟨hf, _⟩
  · exact hi
  · have := List.all_eq_true.mp hp f hf
    simp only [Bool.and_eq_true, Bool.not_eq_true'] at this
    exact this.1

theorem cpLinks_minus' (g : G) (A : List Nat) (i : Nat) (dp : Bool) (h : SepFam g A i = true) :
    cpLinks (g.minus A) (cpFamily g i dp) = cpLinksA g A (cpFamily g i dp) := by
  have hnot := fam_notin' g A i dp h
  simp only [cpLinks, cpLinksA]
  apply flatMap_congr'
  intro f hf
  rw [nbrs_minus g A f _ _ (hnot f hf), List.filter_filter]
  apply List.filter_congr
  intro l _
  by_cases hA : A.contains l = true
  · have hA2 : l ∈ A := by simpa using hA
    simp [hA2]
  · have hA' : A.contains l = false := by simpa using hA
    rw [nbrs_minus g A l _ _ hA']
    exact Bool.and_comm _ _

/-- **general sequential step** (no hypothesis on links) -/
theorem removeCp_after' (g : G) (A : List Nat) (i : Nat) (dp : Bool) (hi : g.has i = true) (h : SepFam g A i = true) :
    removeCp (g.minus A) i dp = .ok (g.minus (A ++ cpDelA g A i dp)) := by
  have hiA : A.contains i = false := fam_notin' g A i dp h i (by simp [cpFamily])
  have hi' : (g.minus A).has i = true := by rw [has_minus, hiA, hi]; rfl
  rw [removeCp_minus _ _ _ hi', minus_minus]
  simp only [cpDel, cpDelA, cpFamily_minus' g A i dp h, cpLinks_minus' g A i dp h]

def SepFamSeq (g : G) : List Nat → List Nat → Bool
  | _, [] => true
  | A, i :: is => g.has i && SepFam g A i && SepFamSeq g (A ++ cpDelA g A i true) is

/-- what the interface loop deletes, as a fold over the pre-state -/
def seqDelA (g : G) : List Nat → List Nat → List Nat
  | A, [] => A
  | A, i :: is => seqDelA g (A ++ cpDelA g A i true) is

theorem seqCp' (g : G) : ∀ (is A : List Nat), SepFamSeq g A is = true →
    is.foldlM (fun g i => removeCp g i true) (g.minus A) = .ok (g.minus (seqDelA g A is))
  | [], A, _ => by simp [List.foldlM_nil, pure, Except.pure, seqDelA]
  | i :: is, A, h => by
    simp only [SepFamSeq, Bool.and_eq_true] at h
    obtain ⟨⟨hi, hs⟩, hrest⟩ := h
    simp only [List.foldlM_cons, removeCp_after' g A i true hi hs, bind, Except.bind, seqDelA]
    exact seqCp' g is _ hrest

/-- **`remove_ns_with_cps_and_links` for links with any number of ends inside the service** -/
theorem removeNs_general (g : G) (s : Nat) (hc : g.cls? s = some .ns) (h : SepFamSeq g [s] (g.nbrs s .connects .cp) = true) :
    removeNs g s = .ok (g.minus (seqDelA g [s] (g.nbrs s .connects .cp))) := by
  simp only [removeNs, hc, beq_self_eq_true, ite_true]
  exact seqCp' g _ [s] h

end FimVerif.Remove
