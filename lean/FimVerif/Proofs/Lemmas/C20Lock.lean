import FimVerif.Model.Lock
/-! Soundness of the collecting interpreter `ai` for an arbitrary monitor. -/
namespace FimVerif.Lock
variable {Q : Type} [DecidableEq Q]

omit [DecidableEq Q] in
theorem loop_sound (δ : Q → Micro → Q) (b : Stmt) (I : List Q) (r : Res Q)
    (hcl : ∀ x ∈ r.norm, x ∈ I)
    (ihb : ∀ q ∈ I, ∀ tr o, Exec b tr o → runQ δ q tr ∈ r.get o) :
    ∀ s tr o, Exec s tr o → s = .loop b → ∀ q ∈ I, runQ δ q tr ∈ (Res.mk I r.ret r.exc).get o := by
  intro s tr o h
  induction h with
  | loopDone => intro _ q hq; simpa [Res.get] using hq
  | loopStep h1 _ _ ih2 =>
    intro hs q hq; injection hs with hs; subst hs
    rw [runQ_append]; exact ih2 rfl _ (hcl _ (ihb q hq _ _ h1))
  | @loopAbort b' t1 o' h1 hne _ =>
    intro hs q hq; injection hs with hs; subst hs
    have := ihb q hq _ _ h1
    cases o' <;> simp_all [Res.get]
  | _ => intro hs; cases hs

theorem ai_sound (δ : Q → Micro → Q) : ∀ (s : Stmt) (S : List Q) (r : Res Q), ai δ s S = some r →
    ∀ q ∈ S, ∀ tr o, Exec s tr o → runQ δ q tr ∈ r.get o := by
  intro s
  induction s with
  | skip =>
    intro S r h q hq tr o he
    simp only [ai, Option.some.injEq] at h; subst h
    cases he; simpa [Res.get] using hq
  | prim m b =>
    intro S r h q hq tr o he
    simp only [ai, Option.some.injEq] at h; subst h
    have hm : δ q m ∈ union (S.map (δ · m)) [] := by
      rw [mem_union]; left; exact List.mem_map.mpr ⟨q, hq, rfl⟩
    cases he with
    | primOk => simpa [Res.get, runQ] using hm
    | primRaiseBefore => simp only [Res.get, runQ_nil, if_true]; rw [mem_union]; exact Or.inl hq
    | primRaiseAfter =>
      simp only [Res.get, if_true, runQ_cons, runQ_nil]; rw [mem_union]; exact Or.inr hm
  | ret =>
    intro S r h q hq tr o he
    simp only [ai, Option.some.injEq] at h; subst h
    cases he; simpa [Res.get] using hq
  | raise =>
    intro S r h q hq tr o he
    simp only [ai, Option.some.injEq] at h; subst h
    cases he; simpa [Res.get] using hq
  | seq a b iha ihb =>
    intro S r h q hq tr o he
    simp only [ai] at h
    split at h
    · cases h
    · rename_i ra hra
      split at h
      · cases h
      · rename_i rb hrb
        simp only [Option.some.injEq] at h; subst h
        cases he with
        | seqNorm h1 h2 =>
          rw [runQ_append]
          have := ihb _ _ hrb _ (iha _ _ hra q hq _ _ h1) _ _ h2
          cases o <;> simp_all [Res.get]
        | seqAbort h1 hne =>
          have := iha _ _ hra q hq _ _ h1
          cases o <;> simp_all [Res.get]
  | ite a b iha ihb =>
    intro S r h q hq tr o he
    simp only [ai] at h
    split at h
    · rename_i ra rb hra hrb
      simp only [Option.some.injEq] at h; subst h
      cases he with
      | iteL h1 =>
        have := iha _ _ hra q hq _ _ h1
        cases o <;> simp only [Res.get] at this ⊢ <;> rw [mem_union] <;> exact Or.inl this
      | iteR h1 =>
        have := ihb _ _ hrb q hq _ _ h1
        cases o <;> simp only [Res.get] at this ⊢ <;> rw [mem_union] <;> exact Or.inr this
    · cases h
  | loop b ihb =>
    intro S r h q hq tr o he
    simp only [ai] at h
    split at h
    · cases h
    · rename_i I _
      split at h
      · cases h
      · rename_i rb hrb
        split at h
        · rename_i hc
          simp only [Option.some.injEq] at h; subst h
          simp only [Bool.and_eq_true] at hc
          exact loop_sound δ b I rb (fun x hx => subset_mem hc.2 hx) (fun q hq => ihb _ _ hrb q hq)
            _ _ _ he rfl q (subset_mem hc.1 hq)
        · cases h
  | tryFinally b f ihb ihf =>
    intro S r h q hq tr o he
    simp only [ai] at h
    split at h
    · cases h
    · rename_i rb hrb
      split at h
      · rename_i fn fr fe hfn hfr hfe
        simp only [Option.some.injEq] at h; subst h
        cases he with
        | finNorm h1 h2 =>
          rename_i t1 t2
          rw [runQ_append]
          have hb := ihb _ _ hrb q hq _ _ h1
          cases o
          · have := ihf _ _ hfn _ hb _ _ h2; simpa [Res.get] using this
          · have := ihf _ _ hfr _ hb _ _ h2; simp only [Res.get] at this ⊢; simp [this]
          · have := ihf _ _ hfe _ hb _ _ h2; simp only [Res.get] at this ⊢; simp [this]
        | finOver h1 h2 hne =>
          rename_i t1 t2 o1
          rw [runQ_append]
          have hb := ihb _ _ hrb q hq _ _ h1
          cases o1
          · have := ihf _ _ hfn _ hb _ _ h2
            cases o <;> simp_all [Res.get]
          · have := ihf _ _ hfr _ hb _ _ h2
            cases o <;> simp_all [Res.get]
          · have := ihf _ _ hfe _ hb _ _ h2
            cases o <;> simp_all [Res.get]
      · cases h
  | tryExcept b hd ihb ihh =>
    intro S r h q hq tr o he
    simp only [ai] at h
    split at h
    · cases h
    · rename_i rb hrb
      split at h
      · cases h
      · rename_i rh hrh
        simp only [Option.some.injEq] at h; subst h
        cases he with
        | excPass h1 hne =>
          have := ihb _ _ hrb q hq _ _ h1
          cases o <;> simp_all [Res.get]
        | excCatch h1 h2 =>
          rw [runQ_append]
          have := ihh _ _ hrh _ (ihb _ _ hrb q hq _ _ h1) _ _ h2
          cases o <;> simp_all [Res.get]
  | call b ihb =>
    intro S r h q hq tr o he
    simp only [ai] at h
    split at h
    · cases h
    · rename_i rb hrb
      simp only [Option.some.injEq] at h; subst h
      cases he with
      | callNorm h1 => have := ihb _ _ hrb q hq _ _ h1; simp_all [Res.get]
      | callRet h1 => have := ihb _ _ hrb q hq _ _ h1; simp_all [Res.get]
      | callExc h1 => have := ihb _ _ hrb q hq _ _ h1; simp_all [Res.get]

/-- every path of `s` started in `q0` ends in a state satisfying `good` -/
theorem allExits_sound (δ : Q → Micro → Q) (good : Q → Bool) (q0 : Q) (s : Stmt)
    (h : allExits δ good q0 s = true) {tr : List Micro} {o : Out} (he : Exec s tr o) :
    good (runQ δ q0 tr) = true := by
  unfold allExits at h
  split at h
  · cases h
  · rename_i r hr
    have hm := ai_sound δ s [q0] r hr q0 (by simp) tr o he
    simp only [Bool.and_eq_true, List.all_eq_true] at h
    cases o
    · exact h.1.1 _ hm
    · exact h.1.2 _ hm
    · exact h.2 _ hm

end FimVerif.Lock
