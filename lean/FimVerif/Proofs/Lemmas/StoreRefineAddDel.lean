import FimVerif.Proofs.Lemmas.StoreRefineMisc
/-! C05: refinement of add_node and delete_node. Core only. -/
namespace FimVerif.Store
open FimVerif FimVerif.Gen.StoreConsts

theorem nidOf_append (l1 l2 : List SNode) (x : Nat) (h : idIn l1 x = true) : nidOf (l1 ++ l2) x = nidOf l1 x := by
  unfold nidOf
  rw [List.find?_append]
  obtain ⟨n, hn, e⟩ := (idIn_iff _ _).1 h
  cases hf : l1.find? (fun n => n.iid == x) with
  | none =>
    have := List.find?_eq_none.1 hf n hn
    simp [e] at this
  | some m => rfl

theorem abs_append_node (s : Store) (h : Inv s) (g : String) (a : Props) (hg : AMap.get graphId a = some (.str g)) :
    abs (appendGraph [a] [] s) g = { abs s g with nodes := (abs s g).nodes ++ [AMap.erase graphId a] } := by
  have hN : nodesOf (appendGraph [a] [] s) g = nodesOf s g ++ [⟨s.nextId, a⟩] := by
    simp [nodesOf, appendGraph, relabel, List.filter_append, inG, hg]
  have hE : edgesOf (appendGraph [a] [] s) g = edgesOf s g := by
    unfold edgesOf
    rw [hN]
    simp only [appendGraph, List.map_nil, List.append_nil]
    apply List.filter_congr
    intro e he
    have ha := (h.2.2 e he).1
    have hb := (h.2.2 e he).2
    obtain ⟨na, hna, ea⟩ := (idIn_iff _ _).1 ha
    obtain ⟨nb, hnb, eb⟩ := (idIn_iff _ _).1 hb
    have := h.2.1 na hna; have := h.2.1 nb hnb
    have h1 : (s.nextId == e.a) = false := by simp; omega
    have h2 : (s.nextId == e.b) = false := by simp; omega
    simp [idIn, h1, h2]
  unfold abs absView
  rw [hN, hE]
  congr 1
  · simp
  · apply List.map_congr_left
    intro e he
    simp only [edgesOf, List.mem_filter, Bool.and_eq_true] at he
    rw [nidOf_append _ _ _ he.2.1, nidOf_append _ _ _ he.2.2]

theorem erase_base (g label nid : String) :
    AMap.erase graphId [(graphId, Val.str g), (propClass, Val.str label), (nodeId, Val.str nid)] =
      [(propClass, Val.str label), (nodeId, Val.str nid)] := by
  simp [AMap.erase, graphId, propClass, nodeId]

theorem ref_addNode (s : Store) (h : Inv s) (g nid label : String) (props : Option Props)
    (hp : graphId ∉ AMap.keys (props.getD [])) :
    Ref g (addNode g nid label props s) (AGraph.addNode nid label props (abs s g)) := by
  have hguard : addNodeGuard g nid s = (abs s g).nodes.any (AGraph.nidIs nid) := by
    rw [abs_nodes, List.any_map]
    have : (AGraph.nidIs nid ∘ eraseG) = hasNid nid := by funext n; simp [Function.comp, nidIs_eraseG]
    rw [this]
    unfold addNodeGuard nodesOf
    rw [List.any_filter]
    cases hh : s.nodes.any (fun a => inG g a && hasNid nid a) with
    | true =>
      obtain ⟨n, hn, hq⟩ := List.any_eq_true.1 hh
      simp only [gt_iff_lt, decide_eq_true_eq]
      exact List.length_pos_of_mem (List.mem_filter.2 ⟨hn, hq⟩)
    | false =>
      simp only [gt_iff_lt, decide_eq_false_iff_not, Nat.not_lt, Nat.le_zero, List.length_eq_zero_iff, List.filter_eq_nil_iff]
      intro n hn hq
      have := List.any_eq_false.1 hh n hn
      exact this hq
  cases hg : addNodeGuard g nid s with
  | true =>
    unfold addNode AGraph.addNode
    rw [← hguard, hg]
    exact ref_err g s _
  | false =>
    have e := addNode_eq_append s h g nid label props hg
    have hfst : (addNode g nid label props s).1 = .ok .unit := by
      unfold addNode; rw [hg]; cases props <;> rfl
    unfold AGraph.addNode
    rw [← hguard, hg]
    refine ⟨by rw [hfst]; rfl, ?_⟩
    rw [e, abs_append_node s h g _ (by rw [AMap.get_update_not_mem _ _ _ hp]; simp [AMap.get])]
    simp only [Bool.false_eq_true, if_false]
    rw [AMap.erase_update_not_mem _ _ _ hp, erase_base]


/-- for an endpoint inside graph `g`: its NodeID is `nid` iff it is the found node -/
theorem endIs_nidOf (s : Store) (h : Inv s) (g nid : String) (n : SNode) (hc : cand s g nid = [n]) (x : Nat)
    (hx : idIn (nodesOf s g) x = true) : AGraph.endIs nid (nidOf (nodesOf s g) x) = decide (x = n.iid) := by
  have hs := cand_single s h g nid n hc
  unfold nidOf
  obtain ⟨m, hm, e⟩ := (idIn_iff _ _).1 hx
  cases hf : (nodesOf s g).find? (fun n => n.iid == x) with
  | none =>
    have := List.find?_eq_none.1 hf m hm
    simp [e] at this
  | some m' =>
    have hm' := List.mem_of_find?_eq_some hf
    have hi : m'.iid = x := by simpa using List.find?_some hf
    have := hs.2.2.2 m' hm'
    simp only [Option.bind_some, AGraph.endIs]
    by_cases hh : hasNid nid m' = true
    · have e2 := this.2 hh
      have : x = n.iid := by omega
      simp only [hasNid] at hh
      simp [this, hh]
    · have e2 : ¬ m'.iid = n.iid := fun e3 => hh (this.1 e3)
      have : ¬ x = n.iid := by omega
      simp only [hasNid] at hh
      simp [this, hh]

theorem find?_congr' {α : Type} (l : List α) (p q : α → Bool) (h : ∀ a ∈ l, p a = q a) : l.find? p = l.find? q := by
  induction l with
  | nil => rfl
  | cons a l ih => simp only [List.find?_cons, h a (by simp), ih (fun b hb => h b (by simp [hb]))]

theorem nidOf_filter_ne (ns : List SNode) (i x : Nat) (hx : x ≠ i) :
    nidOf (ns.filter (fun n => n.iid != i)) x = nidOf ns x := by
  unfold nidOf
  rw [List.find?_filter]
  congr 1
  apply find?_congr'
  intro n _
  by_cases e : n.iid = x
  · simp [e, hx]
  · simp [e]

theorem idIn_filter_ne (ns : List SNode) (i x : Nat) (hx : x ≠ i) : idIn (ns.filter (fun n => n.iid != i)) x = idIn ns x := by
  simp only [idIn, List.any_filter]
  apply List.any_congr
  intro n _
  by_cases e : n.iid = x
  · simp [e, hx]
  · simp [e]
where
  List.any_congr {α : Type} {l : List α} {p q : α → Bool} (h : ∀ a ∈ l, p a = q a) : l.any p = l.any q := by
    induction l with
    | nil => rfl
    | cons a l ih => simp [List.any_cons, h a (by simp), ih (fun b hb => h b (by simp [hb]))]

theorem ref_deleteNode (s : Store) (h : Inv s) (g nid : String) :
    Ref g (deleteNode g nid s) (AGraph.deleteNode nid (abs s g)) := by
  unfold deleteNode AGraph.deleteNode
  apply ref_withNode
  intro n hc
  refine ⟨rfl, ?_⟩
  have hs := cand_single s h g nid n hc
  have hN : nodesOf (removeNode n.iid s) g = (nodesOf s g).filter (fun m => m.iid != n.iid) := by
    simp only [nodesOf, removeNode, List.filter_filter]
    congr 1; funext m; exact Bool.and_comm _ _
  have hE : edgesOf (removeNode n.iid s) g = (edgesOf s g).filter (fun e => e.a != n.iid && e.b != n.iid) := by
    unfold edgesOf
    rw [hN]
    simp only [removeNode, List.filter_filter]
    apply List.filter_congr
    intro e _
    by_cases ha : e.a = n.iid
    · simp [ha]
    · by_cases hb : e.b = n.iid
      · simp [hb]
      · rw [idIn_filter_ne _ _ _ ha, idIn_filter_ne _ _ _ hb]; exact Bool.and_comm _ _
  unfold abs absView
  rw [hN, hE]
  dsimp only
  congr 1
  · refine (filter_map_pred (fun n : SNode => AMap.erase graphId n.attrs) (fun x : Props => !AGraph.nidIs nid x)
      (fun m : SNode => m.iid != n.iid) (nodesOf s g) ?_).symm
    intro m hm
    have := hs.2.2.2 m hm
    have e := nidIs_eraseG nid m
    simp only [eraseG] at e
    rw [e]
    by_cases hh : hasNid nid m = true
    · simp [hh, this.2 hh]
    · have : ¬ m.iid = n.iid := fun e3 => hh (this.1 e3)
      simp [hh, this]
  · rw [filter_map_pred (fun e : SEdge => (nidOf (nodesOf s g) e.a, nidOf (nodesOf s g) e.b, e.attrs))
      (fun e : Option Val × Option Val × Props => !AGraph.endIs nid e.1 && !AGraph.endIs nid e.2.1)
      (fun e : SEdge => e.a != n.iid && e.b != n.iid)]
    · apply List.map_congr_left
      intro e he
      simp only [List.mem_filter, Bool.and_eq_true, bne_iff_ne, ne_eq] at he
      rw [nidOf_filter_ne _ _ _ he.2.1, nidOf_filter_ne _ _ _ he.2.2]
    · intro e he
      simp only [edgesOf, List.mem_filter, Bool.and_eq_true] at he
      simp only [endIs_nidOf s h g nid n hc e.a he.2.1, endIs_nidOf s h g nid n hc e.b he.2.2]
      by_cases ha : e.a = n.iid <;> by_cases hb : e.b = n.iid <;> simp [ha, hb]

end FimVerif.Store
