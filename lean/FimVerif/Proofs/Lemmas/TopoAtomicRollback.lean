import FimVerif.Proofs.Lemmas.TopoAtomicSvc
/-! The rollback of `NetworkService.__init__`: the state after k successful `connect_interface` calls (`ext`), and
the lemma that disconnecting the oldest connected interface removes exactly its ServicePort and Link. -/
namespace FimVerif.Topo
open FimVerif FimVerif.M


/-- what one successful `connect_interface` added: the node interface it connected, the ServicePort, the Link -/
structure Pair where
  fi : GNode
  cp : GNode
  ln : GNode
  nm : String

def Pair.nodes (p : Pair) : List GNode := [p.cp, p.ln]
def Pair.edges (v : Ref) (p : Pair) : List GEdge :=
  [⟨v, p.cp.ref, .connects⟩, ⟨p.ln.ref, p.fi.ref, .connects⟩, ⟨p.ln.ref, p.cp.ref, .connects⟩]
def Pair.arg (p : Pair) : IfArg := .iface p.fi.nid p.nm

/-- the state after the interfaces `ps` were connected to the service `v` on top of `b` -/
def ext (b : Topo) (v : Ref) (ps : List Pair) : Topo :=
  ⟨b.nodes ++ ps.flatMap Pair.nodes, b.edges ++ ps.flatMap (Pair.edges v)⟩

theorem ext_nil (b : Topo) (v : Ref) : ext b v [] = b := by simp [ext]

theorem connState_ext (b : Topo) (v : Ref) (ps : List Pair) (sv fi cp ln : GNode) (nm : String) (hv : sv.ref = v) :
    connState (ext b v ps) sv fi cp ln = ext b v (ps ++ [⟨fi, cp, ln, nm⟩]) := by
  simp [connState, ext, List.flatMap_append, Pair.nodes, Pair.edges, hv, List.append_assoc]

/-- `fi` has no peer over the links it is attached to in `b` -/
def NoOldPeers (b : Topo) (fi : GNode) : Prop :=
  ∀ f ∈ b.nodes, f.cls = .link → adjacent b fi.ref f.ref .connects = true →
    ∀ k ∈ b.nodes, k.cls = .connectionPoint → k.ref ≠ fi.ref → adjacentAny b f.ref k.ref = false

structure PairOk (b : Topo) (c0 c : Nat) (p : Pair) : Prop where
  fib : p.fi ∈ b.nodes
  ficls : p.fi.cls = .connectionPoint
  cpcls : p.cp.cls = .connectionPoint
  cptyp : p.cp.typ = "ServicePort"
  lncls : p.ln.cls = .link
  ids : ∃ k, c0 ≤ k ∧ k + 2 ≤ c ∧ p.cp.nid = .gen k ∧ p.ln.nid = .gen (k + 1)
  nop : NoOldPeers b p.fi

structure ExtOk (b : Topo) (v : Ref) (c0 c : Nat) (ps : List Pair) : Prop where
  ids : IdsDistinct (ext b v ps)
  closed : Closed b
  vin : ∃ vn ∈ b.nodes, vn.ref = v
  vcls : v.cls = .networkService
  pairs : ∀ p ∈ ps, PairOk b c0 c p
  dist : (ps.map (·.fi.nid)).Nodup

theorem ExtOk.tail {b v c0 c p rest} (h : ExtOk b v c0 c (p :: rest)) : ExtOk b v c0 c rest := by
  refine ⟨?_, h.closed, h.vin, h.vcls, fun q hq => h.pairs q (List.mem_cons_of_mem _ hq), ?_⟩
  · have := h.ids
    unfold IdsDistinct ext at this ⊢
    simp only [List.flatMap_cons, List.map_append] at this ⊢
    rw [List.nodup_append] at this ⊢
    obtain ⟨h1, h2, h3⟩ := this
    rw [List.nodup_append] at h2
    exact ⟨h1, h2.2.1, fun a ha b' hb => h3 a ha b' (List.mem_append_right _ hb)⟩
  · have := h.dist; simp only [List.map_cons, List.nodup_cons] at this; exact this.2

theorem head_fresh {b v c0 c p rest} (h : ExtOk b v c0 c (p :: rest)) :
    (∀ m ∈ b.nodes, m.nid ≠ p.cp.nid ∧ m.nid ≠ p.ln.nid) ∧ p.cp.nid ≠ p.ln.nid ∧
    (∀ q ∈ rest, q.cp.nid ≠ p.cp.nid ∧ q.ln.nid ≠ p.cp.nid ∧ q.cp.nid ≠ p.ln.nid ∧ q.ln.nid ≠ p.ln.nid) := by
  have := h.ids
  unfold IdsDistinct ext at this
  simp only [List.flatMap_cons, Pair.nodes, List.map_append, List.map_cons, List.map_nil, List.cons_append, List.nil_append,
    List.nodup_append, List.nodup_cons, List.mem_map, List.mem_cons, List.mem_flatMap, List.mem_append] at this
  obtain ⟨_, ⟨h1, h2, _⟩, h3⟩ := this
  refine ⟨fun m hm => ⟨h3 m.nid ⟨m, hm, rfl⟩ _ (.inl rfl), h3 m.nid ⟨m, hm, rfl⟩ _ (.inr (.inl rfl))⟩,
    fun e => h1 (.inl e), fun q hq => ⟨?_, ?_, ?_, ?_⟩⟩
  · exact fun e => h1 (.inr ⟨q.cp, ⟨q, hq, .inl rfl⟩, e⟩)
  · exact fun e => h1 (.inr ⟨q.ln, ⟨q, hq, .inr (.inl rfl)⟩, e⟩)
  · exact fun e => h2 ⟨q.cp, ⟨q, hq, .inl rfl⟩, e⟩
  · exact fun e => h2 ⟨q.ln, ⟨q, hq, .inr (.inl rfl)⟩, e⟩

/-- nodes of `b` and the nodes added for the pairs never share an id -/
theorem old_new_fresh {b v c0 c ps} (h : ExtOk b v c0 c ps) :
    ∀ q ∈ ps, ∀ m ∈ b.nodes, m.nid ≠ q.cp.nid ∧ m.nid ≠ q.ln.nid := by
  intro q hq m hm
  have := h.ids
  unfold IdsDistinct ext at this
  simp only [List.map_append, List.nodup_append, List.mem_map, List.mem_flatMap, Pair.nodes, List.mem_cons] at this
  obtain ⟨_, _, h3⟩ := this
  exact ⟨h3 m.nid ⟨m, hm, rfl⟩ _ ⟨q.cp, ⟨q, hq, .inl rfl⟩, rfl⟩, h3 m.nid ⟨m, hm, rfl⟩ _ ⟨q.ln, ⟨q, hq, .inr (.inl rfl)⟩, rfl⟩⟩

theorem nid_of_ref_eq {x y : GNode} (h : x.ref = y.ref) : x.nid = y.nid := by
  simpa [GNode.ref] using congrArg Ref.nid h
theorem cls_of_ref_eq {x y : GNode} (h : x.ref = y.ref) : x.cls = y.cls := by
  simpa [GNode.ref] using congrArg Ref.cls h

theorem mem_ext_edges {b : Topo} {v : Ref} {ps : List Pair} {e : GEdge} :
    e ∈ (ext b v ps).edges ↔ e ∈ b.edges ∨ ∃ q ∈ ps, e ∈ q.edges v := by
  simp [ext, List.mem_flatMap]

theorem mem_ext_nodes {b : Topo} {v : Ref} {ps : List Pair} {n : GNode} :
    n ∈ (ext b v ps).nodes ↔ n ∈ b.nodes ∨ ∃ q ∈ ps, n = q.cp ∨ n = q.ln := by
  simp [ext, List.mem_flatMap, Pair.nodes]

/-- an edge of the extended state that ends in a node not in `b` belongs to the pair that made that node -/
theorem touch_new {b v c0 c ps} (h : ExtOk b v c0 c ps) (r : Ref) (hb : ∀ m ∈ b.nodes, m.ref ≠ r) :
    ∀ e ∈ (ext b v ps).edges, (e.a = r ∨ e.b = r) → ∃ q ∈ ps, e ∈ q.edges v ∧ (q.cp.ref = r ∨ q.ln.ref = r) := by
  intro e he ht
  rcases mem_ext_edges.mp he with he | ⟨q, hq, he⟩
  · obtain ⟨⟨x, hx, hxe⟩, ⟨y, hy, hye⟩⟩ := h.closed e he
    rcases ht with ht | ht
    · exact absurd (hxe.trans ht) (hb x hx)
    · exact absurd (hye.trans ht) (hb y hy)
  · refine ⟨q, hq, he, ?_⟩
    obtain ⟨vn, hvn, hvr⟩ := h.vin
    have hfi := (h.pairs q hq).fib
    simp only [Pair.edges, List.mem_cons, List.mem_nil_iff, or_false] at he
    rcases he with rfl | rfl | rfl <;> simp only at ht
    · rcases ht with ht | ht
      · exact absurd (hvr.trans ht) (hb vn hvn)
      · exact .inl ht
    · rcases ht with ht | ht
      · exact .inr ht
      · exact absurd ht (hb _ hfi)
    · rcases ht with ht | ht
      · exact .inr ht
      · exact .inl ht

/-- an edge of the extended state that ends in a Link of `b` is an edge of `b` -/
theorem touch_oldlink {b v c0 c ps} (h : ExtOk b v c0 c ps) {f : GNode} (hf : f ∈ b.nodes) (hfc : f.cls = .link) :
    ∀ e ∈ (ext b v ps).edges, (e.a = f.ref ∨ e.b = f.ref) → e ∈ b.edges := by
  intro e he ht
  rcases mem_ext_edges.mp he with he | ⟨q, hq, he⟩
  · exact he
  · exfalso
    have hq' := h.pairs q hq
    have hon := old_new_fresh h q hq f hf
    have hvc := h.vcls
    have c1 : v ≠ f.ref := fun e => by rw [e] at hvc; simp [GNode.ref, hfc] at hvc
    have c2 : q.cp.ref ≠ f.ref := fun e => hon.1 (nid_of_ref_eq e).symm
    have c3 : q.ln.ref ≠ f.ref := fun e => hon.2 (nid_of_ref_eq e).symm
    have c4 : q.fi.ref ≠ f.ref := fun e => by have := cls_of_ref_eq e; rw [hq'.ficls, hfc] at this; cases this
    simp only [Pair.edges, List.mem_cons, List.mem_nil_iff, or_false] at he
    rcases he with rfl | rfl | rfl <;> simp only at ht <;> rcases ht with ht | ht <;> first | exact c1 ht | exact c2 ht | exact c3 ht | exact c4 ht

theorem touch_cp_head {b v c0 c p rest} (h : ExtOk b v c0 c (p :: rest)) :
    ∀ e ∈ (ext b v (p :: rest)).edges, (e.a = p.cp.ref ∨ e.b = p.cp.ref) →
      e = ⟨v, p.cp.ref, .connects⟩ ∨ e = ⟨p.ln.ref, p.cp.ref, .connects⟩ := by
  intro e he ht
  obtain ⟨hB, hcl, hR⟩ := head_fresh h
  obtain ⟨vn, hvn, hvr⟩ := h.vin
  have hpo := h.pairs p (List.mem_cons_self ..)
  obtain ⟨q, hq, heq, hor⟩ := touch_new h p.cp.ref (fun m hm e => (hB m hm).1 (nid_of_ref_eq e)) e he ht
  rcases List.mem_cons.mp hq with rfl | hq'
  · simp only [Pair.edges, List.mem_cons, List.mem_nil_iff, or_false] at heq
    rcases heq with rfl | rfl | rfl
    · exact .inl rfl
    · exfalso
      simp only at ht
      rcases ht with ht | ht
      · exact hcl (nid_of_ref_eq ht).symm
      · exact (hB _ hpo.fib).1 (nid_of_ref_eq ht)
    · exact .inr rfl
  · exfalso
    rcases hor with e | e
    · exact (hR q hq').1 (nid_of_ref_eq e)
    · exact (hR q hq').2.1 (nid_of_ref_eq e)

theorem touch_ln_head {b v c0 c p rest} (h : ExtOk b v c0 c (p :: rest)) :
    ∀ e ∈ (ext b v (p :: rest)).edges, (e.a = p.ln.ref ∨ e.b = p.ln.ref) →
      e = ⟨p.ln.ref, p.fi.ref, .connects⟩ ∨ e = ⟨p.ln.ref, p.cp.ref, .connects⟩ := by
  intro e he ht
  obtain ⟨hB, hcl, hR⟩ := head_fresh h
  obtain ⟨vn, hvn, hvr⟩ := h.vin
  have hpo := h.pairs p (List.mem_cons_self ..)
  obtain ⟨q, hq, heq, hor⟩ := touch_new h p.ln.ref (fun m hm e => (hB m hm).2 (nid_of_ref_eq e)) e he ht
  rcases List.mem_cons.mp hq with rfl | hq'
  · simp only [Pair.edges, List.mem_cons, List.mem_nil_iff, or_false] at heq
    rcases heq with rfl | rfl | rfl
    · exfalso
      simp only at ht
      rcases ht with ht | ht
      · exact (hB vn hvn).2 (nid_of_ref_eq (hvr.trans ht))
      · exact hcl (nid_of_ref_eq ht)
    · exact .inl rfl
    · exact .inr rfl
  · exfalso
    rcases hor with e | e
    · exact (hR q hq').2.2.1 (nid_of_ref_eq e)
    · exact (hR q hq').2.2.2 (nid_of_ref_eq e)


theorem sameEnds_iff {e : GEdge} {a b : Ref} : sameEnds e a b = true ↔ (e.a = a ∧ e.b = b) ∨ (e.a = b ∧ e.b = a) := by
  simp [sameEnds]

theorem adjacent_iff {t : Topo} {r x : Ref} {rel : Rel} :
    adjacent t r x rel = true ↔ ∃ e ∈ t.edges, e.rel = rel ∧ sameEnds e r x = true := by
  simp [adjacent, List.any_eq_true]

theorem adjacentAny_iff {t : Topo} {r x : Ref} : adjacentAny t r x = true ↔ ∃ e ∈ t.edges, sameEnds e r x = true := by
  simp [adjacentAny, List.any_eq_true]

theorem filter_two_nid {l : List GNode} (h : (l.map (·.nid)).Nodup) {x y : GNode} (hx : x ∈ l) (hy : y ∈ l)
    (hne : x.nid ≠ y.nid) : (l.filter (fun n => n.nid == x.nid || n.nid == y.nid)).length = 2 := by
  induction l with
  | nil => cases hx
  | cons a l ih =>
    have h' := h
    simp only [List.map_cons, List.nodup_cons, List.mem_map, not_exists, not_and] at h'
    have only (z w : GNode) (hz : z ∈ l) (hw : ∀ m ∈ l, m.nid ≠ w.nid) :
        l.filter (fun n => n.nid == w.nid || n.nid == z.nid) = [z] ∧ l.filter (fun n => n.nid == z.nid || n.nid == w.nid) = [z] := by
      constructor
      · rw [← filter_nid_unique h'.2 hz]; apply List.filter_congr; intro m hm
        have := hw m hm; simp [this]
      · rw [← filter_nid_unique h'.2 hz]; apply List.filter_congr; intro m hm
        have := hw m hm; simp [this]
    rcases List.mem_cons.mp hx with rfl | hx' <;> rcases List.mem_cons.mp hy with rfl | hy'
    · exact absurd rfl hne
    · have := (only y x hy' (fun m hm e => h'.1 m hm e)).1
      simp [List.filter_cons, this]
    · have := (only x y hx' (fun m hm e => h'.1 m hm e)).2
      simp [List.filter_cons, this]
    · have h1 : ¬ a.nid = x.nid := fun e => h'.1 x hx' e.symm
      have h2 : ¬ a.nid = y.nid := fun e => h'.1 y hy' e.symm
      simp [List.filter_cons, h1, h2, ih h'.2 hx' hy']

theorem filter_two_ref {t : Topo} (h : IdsDistinct t) {x y : GNode} (hx : x ∈ t.nodes) (hy : y ∈ t.nodes)
    (hne : x.nid ≠ y.nid) : (t.nodes.filter (fun n => n.ref == x.ref || n.ref == y.ref)).length = 2 := by
  rw [← filter_two_nid h hx hy hne]
  congr 1
  apply List.filter_congr
  intro n hn
  have e1 : (n.ref == x.ref) = (n.nid == x.nid) := by
    by_cases e : n.nid = x.nid
    · have := eq_of_nid_eq h hn hx e; subst this; simp
    · have : ¬ n.ref = x.ref := fun e' => e (nid_of_ref_eq e')
      rw [beq_eq_false_iff_ne.mpr this, beq_eq_false_iff_ne.mpr e]
  have e2 : (n.ref == y.ref) = (n.nid == y.nid) := by
    by_cases e : n.nid = y.nid
    · have := eq_of_nid_eq h hn hy e; subst this; simp
    · have : ¬ n.ref = y.ref := fun e' => e (nid_of_ref_eq e')
      rw [beq_eq_false_iff_ne.mpr this, beq_eq_false_iff_ne.mpr e]
  rw [e1, e2]

theorem flatMap_single {α : Type} {l : List GNode} (hn : (l.map (·.nid)).Nodup) {x : GNode} (hx : x ∈ l) {g : GNode → List α}
    (hz : ∀ z ∈ l, z ≠ x → g z = []) : l.flatMap g = g x := by
  induction l with
  | nil => cases hx
  | cons a l ih =>
    simp only [List.map_cons, List.nodup_cons, List.mem_map, not_exists, not_and] at hn
    rcases List.mem_cons.mp hx with rfl | hx'
    · have : l.flatMap g = [] := by
        rw [List.flatMap_eq_nil_iff]
        intro z hzl
        exact hz z (List.mem_cons_of_mem _ hzl) (fun e => hn.1 z hzl (by rw [e]))
      simp [List.flatMap_cons, this]
    · have ha : a ≠ x := fun e => hn.1 x hx' (by rw [e])
      rw [List.flatMap_cons, hz a (List.mem_cons_self ..) ha, List.nil_append]
      exact ih hn.2 hx' (fun z hzl => hz z (List.mem_cons_of_mem _ hzl))

theorem idsDistinct_drop {t : Topo} (h : IdsDistinct t) (r : Ref) : IdsDistinct (dropNode r t) :=
  List.Nodup.sublist (List.Sublist.map _ List.filter_sublist) h

theorem deleteNode_run {t : Topo} (h : IdsDistinct t) {n : GNode} (hn : n ∈ t.nodes) :
    deleteNode n.nid t = (.ok (), dropNode n.ref t) := by
  unfold deleteNode; rw [bind_ok (findNode_of_mem h hn)]; rfl

theorem firstNeighbor_run {t : Topo} (h : IdsDistinct t) {n : GNode} (hn : n ∈ t.nodes) (rel : Rel) (L : Cls) :
    firstNeighbor n.nid rel L t = (.ok ((neighbors t n.ref rel L).map (·.nid)), t) := by
  unfold firstNeighbor; rw [bind_ok (findNode_of_mem h hn)]; rfl

section head
variable {b : Topo} {v : Ref} {c0 c : Nat} {p : Pair} {rest : List Pair}

theorem head_mem (h : ExtOk b v c0 c (p :: rest)) :
    p.cp ∈ (ext b v (p :: rest)).nodes ∧ p.ln ∈ (ext b v (p :: rest)).nodes ∧ p.fi ∈ (ext b v (p :: rest)).nodes := by
  refine ⟨mem_ext_nodes.mpr (.inr ⟨p, List.mem_cons_self .., .inl rfl⟩),
    mem_ext_nodes.mpr (.inr ⟨p, List.mem_cons_self .., .inr rfl⟩),
    mem_ext_nodes.mpr (.inl (h.pairs p (List.mem_cons_self ..)).fib)⟩

theorem head_edges (p : Pair) (rest : List Pair) (b : Topo) (v : Ref) :
    (⟨v, p.cp.ref, .connects⟩ : GEdge) ∈ (ext b v (p :: rest)).edges ∧
    (⟨p.ln.ref, p.fi.ref, .connects⟩ : GEdge) ∈ (ext b v (p :: rest)).edges ∧
    (⟨p.ln.ref, p.cp.ref, .connects⟩ : GEdge) ∈ (ext b v (p :: rest)).edges := by
  refine ⟨mem_ext_edges.mpr (.inr ⟨p, List.mem_cons_self .., ?_⟩), mem_ext_edges.mpr (.inr ⟨p, List.mem_cons_self .., ?_⟩),
    mem_ext_edges.mpr (.inr ⟨p, List.mem_cons_self .., ?_⟩)⟩ <;> simp [Pair.edges]

/-- the ServicePort has no ConnectionPoint neighbour -/
theorem nb_cp_cp (h : ExtOk b v c0 c (p :: rest)) :
    neighbors (ext b v (p :: rest)) p.cp.ref .connects .connectionPoint = [] := by
  have hpo := h.pairs p (List.mem_cons_self ..)
  unfold neighbors
  rw [List.filter_eq_nil_iff]
  intro n _ hc
  simp only [Bool.and_eq_true, beq_iff_eq] at hc
  obtain ⟨hcls, hadj⟩ := hc
  obtain ⟨e, he, _, hs⟩ := adjacent_iff.mp hadj
  have ht : e.a = p.cp.ref ∨ e.b = p.cp.ref := by
    rcases sameEnds_iff.mp hs with ⟨x, _⟩ | ⟨_, x⟩
    · exact .inl x
    · exact .inr x
  rcases touch_cp_head h e he ht with rfl | rfl
  · rcases sameEnds_iff.mp hs with ⟨x, y⟩ | ⟨x, y⟩ <;> simp only at x y
    · have := h.vcls; rw [x] at this; simp [GNode.ref, hpo.cpcls] at this
    · have := h.vcls; rw [x] at this; simp [GNode.ref, hcls] at this
  · rcases sameEnds_iff.mp hs with ⟨x, y⟩ | ⟨x, y⟩ <;> simp only at x y
    · have := cls_of_ref_eq x; rw [hpo.lncls, hpo.cpcls] at this; cases this
    · have := cls_of_ref_eq x; rw [hpo.lncls, hcls] at this; cases this

/-- its only Link neighbour is the Link made for it -/
theorem nb_cp_link (h : ExtOk b v c0 c (p :: rest)) :
    neighbors (ext b v (p :: rest)) p.cp.ref .connects .link = [p.ln] := by
  have hpo := h.pairs p (List.mem_cons_self ..)
  rw [← filter_ref_unique h.ids (head_mem h).2.1]
  unfold neighbors
  apply List.filter_congr
  intro n hn
  rw [Bool.eq_iff_iff]
  simp only [Bool.and_eq_true, beq_iff_eq]
  constructor
  · intro ⟨hcls, hadj⟩
    obtain ⟨e, he, _, hs⟩ := adjacent_iff.mp hadj
    have ht : e.a = p.cp.ref ∨ e.b = p.cp.ref := by
      rcases sameEnds_iff.mp hs with ⟨x, _⟩ | ⟨_, x⟩
      · exact .inl x
      · exact .inr x
    rcases touch_cp_head h e he ht with rfl | rfl
    · exfalso
      rcases sameEnds_iff.mp hs with ⟨x, y⟩ | ⟨x, y⟩ <;> simp only at x y
      · have := h.vcls; rw [x] at this; simp [GNode.ref, hpo.cpcls] at this
      · have := h.vcls; rw [x] at this; simp [GNode.ref, hcls] at this
    · rcases sameEnds_iff.mp hs with ⟨x, y⟩ | ⟨x, y⟩ <;> simp only at x y
      · have := cls_of_ref_eq x; rw [hpo.lncls, hpo.cpcls] at this; cases this
      · exact x.symm
  · intro e
    refine ⟨by rw [cls_of_ref_eq e, hpo.lncls], adjacent_iff.mpr ⟨_, (head_edges p rest b v).2.2, rfl, ?_⟩⟩
    rw [e]; simp [sameEnds]

/-- the Link joins exactly two ConnectionPoints: the node interface and the ServicePort -/
theorem nb_link_cp (h : ExtOk b v c0 c (p :: rest)) :
    (neighbors (ext b v (p :: rest)) p.ln.ref .connects .connectionPoint).length = 2 := by
  have hpo := h.pairs p (List.mem_cons_self ..)
  obtain ⟨hB, hcl, _⟩ := head_fresh h
  rw [← filter_two_ref h.ids (head_mem h).2.2 (head_mem h).1 (hB _ hpo.fib).1]
  unfold neighbors
  congr 1
  apply List.filter_congr
  intro n hn
  rw [Bool.eq_iff_iff]
  simp only [Bool.and_eq_true, Bool.or_eq_true, beq_iff_eq]
  constructor
  · intro ⟨hcls, hadj⟩
    obtain ⟨e, he, _, hs⟩ := adjacent_iff.mp hadj
    have ht : e.a = p.ln.ref ∨ e.b = p.ln.ref := by
      rcases sameEnds_iff.mp hs with ⟨x, _⟩ | ⟨_, x⟩
      · exact .inl x
      · exact .inr x
    rcases touch_ln_head h e he ht with rfl | rfl
    · rcases sameEnds_iff.mp hs with ⟨x, y⟩ | ⟨x, y⟩ <;> simp only at x y
      · exact .inl y.symm
      · have := cls_of_ref_eq x; rw [hpo.lncls, hcls] at this; cases this
    · rcases sameEnds_iff.mp hs with ⟨x, y⟩ | ⟨x, y⟩ <;> simp only at x y
      · exact .inr y.symm
      · have := cls_of_ref_eq x; rw [hpo.lncls, hcls] at this; cases this
  · intro e
    rcases e with e | e
    · refine ⟨by rw [cls_of_ref_eq e, hpo.ficls], adjacent_iff.mpr ⟨_, (head_edges p rest b v).2.1, rfl, ?_⟩⟩
      rw [e]; simp [sameEnds]
    · refine ⟨by rw [cls_of_ref_eq e, hpo.cpcls], adjacent_iff.mpr ⟨_, (head_edges p rest b v).2.2, rfl, ?_⟩⟩
      rw [e]; simp [sameEnds]

/-- the connected interface is not attached to the Link of a later pair -/
theorem adj_fi_new (h : ExtOk b v c0 c (p :: rest)) :
    ∀ q ∈ rest, adjacent (ext b v (p :: rest)) p.fi.ref q.ln.ref .connects = false := by
  intro q hq
  have hpo := h.pairs p (List.mem_cons_self ..)
  have hqo := h.pairs q (List.mem_cons_of_mem _ hq)
  obtain ⟨hB, hcl, hR⟩ := head_fresh h
  have hon := old_new_fresh h
  cases hadj : adjacent (ext b v (p :: rest)) p.fi.ref q.ln.ref .connects with
  | false => rfl
  | true =>
    exfalso
    obtain ⟨e, he, _, hs⟩ := adjacent_iff.mp hadj
    have ht : e.a = q.ln.ref ∨ e.b = q.ln.ref := by
      rcases sameEnds_iff.mp hs with ⟨_, x⟩ | ⟨x, _⟩
      · exact .inr x
      · exact .inl x
    obtain ⟨q', hq', heq, hor⟩ := touch_new h q.ln.ref
      (fun m hm e => (hon q (List.mem_cons_of_mem _ hq) m hm).2 (nid_of_ref_eq e)) e he ht
    have hq'o := h.pairs q' hq'
    have hln : q'.ln.ref = q.ln.ref := by
      rcases hor with x | x
      · have := cls_of_ref_eq x; rw [hq'o.cpcls, hqo.lncls] at this; cases this
      · exact x
    have hvl : v ≠ q.ln.ref := fun x => by have := h.vcls; rw [x] at this; simp [GNode.ref, hqo.lncls] at this
    have hcl' : q'.cp.ref ≠ q.ln.ref := fun x => by have := cls_of_ref_eq x; rw [hq'o.cpcls, hqo.lncls] at this; cases this
    have hfl : p.fi.ref ≠ q'.ln.ref := fun x => by have := cls_of_ref_eq x; rw [hpo.ficls, hq'o.lncls] at this; cases this
    simp only [Pair.edges, List.mem_cons, List.mem_nil_iff, or_false] at heq
    rcases heq with rfl | rfl | rfl
    · rcases sameEnds_iff.mp hs with ⟨x, y⟩ | ⟨x, y⟩ <;> simp only at x y
      · exact hcl' y
      · exact hvl x
    · rcases sameEnds_iff.mp hs with ⟨x, y⟩ | ⟨x, y⟩ <;> simp only at x y
      · exact hfl x.symm
      · -- q'.fi = p.fi : impossible for the head itself (its Link differs) and for a later pair (distinct interfaces)
        rcases List.mem_cons.mp hq' with rfl | hq''
        · exact (hR q hq).2.2.2 (nid_of_ref_eq hln).symm
        · have hd := h.dist
          simp only [List.map_cons, List.nodup_cons, List.mem_map, not_exists, not_and] at hd
          exact hd.1 q' hq'' (nid_of_ref_eq y)
    · rcases sameEnds_iff.mp hs with ⟨x, y⟩ | ⟨x, y⟩ <;> simp only at x y
      · exact hfl x.symm
      · exact (hon q' hq' _ hpo.fib).1 (nid_of_ref_eq y).symm

/-- in the extended state the connected interface has exactly one peer: the ServicePort made for it -/
theorem second_head (h : ExtOk b v c0 c (p :: rest)) :
    secondNeighbors p.fi.nid .connects .link .connectionPoint (ext b v (p :: rest)) =
      (.ok [(p.ln.nid, p.cp.nid)], ext b v (p :: rest)) := by
  have hpo := h.pairs p (List.mem_cons_self ..)
  obtain ⟨hB, hcl, hR⟩ := head_fresh h
  have hT := h.ids
  obtain ⟨hcpm, hlnm, hfim⟩ := head_mem h
  have hfind := findNode_of_mem hT hfim
  unfold secondNeighbors
  rw [bind_ok hfind]
  simp only [read_apply, Prod.mk.injEq, Except.ok.injEq, and_true]
  have hnd : ((neighbors (ext b v (p :: rest)) p.fi.ref .connects .link).map (·.nid)).Nodup :=
    List.Nodup.sublist (List.Sublist.map _ List.filter_sublist) hT
  have hlnN : p.ln ∈ neighbors (ext b v (p :: rest)) p.fi.ref .connects .link := by
    refine List.mem_filter.mpr ⟨hlnm, ?_⟩
    simp only [Bool.and_eq_true, beq_iff_eq]
    exact ⟨hpo.lncls, adjacent_iff.mpr ⟨_, (head_edges p rest b v).2.1, rfl, by simp [sameEnds]⟩⟩
  rw [flatMap_single hnd hlnN]
  · -- the Link of the pair leads to the ServicePort only
    have : (ext b v (p :: rest)).nodes.filter
        (fun k => k.cls == Cls.connectionPoint && adjacentAny (ext b v (p :: rest)) p.ln.ref k.ref && k.ref != p.fi.ref) = [p.cp] := by
      rw [← filter_ref_unique hT hcpm]
      apply List.filter_congr
      intro k hk
      rw [Bool.eq_iff_iff]
      simp only [Bool.and_eq_true, beq_iff_eq, bne_iff_ne, ne_eq]
      constructor
      · intro ⟨⟨hcls, hadj⟩, hne⟩
        obtain ⟨e, he, hs⟩ := adjacentAny_iff.mp hadj
        have ht : e.a = p.ln.ref ∨ e.b = p.ln.ref := by
          rcases sameEnds_iff.mp hs with ⟨x, _⟩ | ⟨_, x⟩
          · exact .inl x
          · exact .inr x
        rcases touch_ln_head h e he ht with rfl | rfl
        · rcases sameEnds_iff.mp hs with ⟨x, y⟩ | ⟨x, y⟩ <;> simp only at x y
          · exact absurd y.symm hne
          · have := cls_of_ref_eq x; rw [hpo.lncls, hcls] at this; cases this
        · rcases sameEnds_iff.mp hs with ⟨x, y⟩ | ⟨x, y⟩ <;> simp only at x y
          · exact y.symm
          · have := cls_of_ref_eq x; rw [hpo.lncls, hcls] at this; cases this
      · intro e
        refine ⟨⟨by rw [cls_of_ref_eq e, hpo.cpcls], adjacentAny_iff.mpr ⟨_, (head_edges p rest b v).2.2, ?_⟩⟩, ?_⟩
        · rw [e]; simp [sameEnds]
        · rw [e]; exact fun x => (hB _ hpo.fib).1 (nid_of_ref_eq x).symm
    rw [this]; rfl
  · -- every other Link the interface is attached to is a Link of `b`, and has no other ConnectionPoint
    intro z hz hzne
    have hz' := List.mem_filter.mp hz
    simp only [Bool.and_eq_true, beq_iff_eq] at hz'
    obtain ⟨hzm, hzcls, hzadj⟩ := hz'
    have hzb : z ∈ b.nodes := by
      rcases mem_ext_nodes.mp hzm with hzb | ⟨q, hq, hor⟩
      · exact hzb
      · exfalso
        rcases hor with rfl | rfl
        · have := (h.pairs q hq).cpcls; rw [hzcls] at this; cases this
        · rcases List.mem_cons.mp hq with rfl | hq'
          · exact hzne rfl
          · have := adj_fi_new h q hq'; rw [hzadj] at this; cases this
    have hadjb : adjacent b p.fi.ref z.ref .connects = true := by
      obtain ⟨e, he, hr, hs⟩ := adjacent_iff.mp hzadj
      have ht : e.a = z.ref ∨ e.b = z.ref := by
        rcases sameEnds_iff.mp hs with ⟨_, x⟩ | ⟨x, _⟩
        · exact .inr x
        · exact .inl x
      exact adjacent_iff.mpr ⟨e, touch_oldlink h hzb hzcls e he ht, hr, hs⟩
    simp only [List.map_eq_nil_iff]
    rw [List.filter_eq_nil_iff]
    intro k hk hc
    simp only [Bool.and_eq_true, beq_iff_eq, bne_iff_ne, ne_eq] at hc
    obtain ⟨⟨hkcls, hkadj⟩, hkne⟩ := hc
    obtain ⟨e, he, hs⟩ := adjacentAny_iff.mp hkadj
    have ht : e.a = z.ref ∨ e.b = z.ref := by
      rcases sameEnds_iff.mp hs with ⟨x, _⟩ | ⟨_, x⟩
      · exact .inl x
      · exact .inr x
    have heb := touch_oldlink h hzb hzcls e he ht
    obtain ⟨⟨x, hx, hxe⟩, ⟨y, hy, hye⟩⟩ := h.closed e heb
    have hkb : k ∈ b.nodes := by
      rcases sameEnds_iff.mp hs with ⟨_, w⟩ | ⟨w, _⟩
      · have : y = k := (ref_eq_iff hT (mem_ext_nodes.mpr (.inl hy)) hk).mp (hye.trans w); rw [← this]; exact hy
      · have : x = k := (ref_eq_iff hT (mem_ext_nodes.mpr (.inl hx)) hk).mp (hxe.trans w); rw [← this]; exact hx
    have := hpo.nop z hzb hzcls hadjb k hkb hkcls hkne
    rw [adjacentAny_iff.mpr ⟨e, heb, hs⟩] at this
    cases this

theorem peers_head (h : ExtOk b v c0 c (p :: rest)) :
    peersOf p.fi.nid (ext b v (p :: rest)) = (.ok [p.cp.nid], ext b v (p :: rest)) := by
  unfold peersOf
  rw [bind_ok (second_head h)]; rfl

/-- dropping the ServicePort and the Link of the oldest pair gives the state without that pair -/
theorem drop_head (h : ExtOk b v c0 c (p :: rest)) :
    dropNode p.ln.ref (dropNode p.cp.ref (ext b v (p :: rest))) = ext b v rest := by
  have hpo := h.pairs p (List.mem_cons_self ..)
  obtain ⟨hB, hcl, hR⟩ := head_fresh h
  obtain ⟨vn, hvn, hvr⟩ := h.vin
  have hclr : p.cp.ref ≠ p.ln.ref := fun e => hcl (nid_of_ref_eq e)
  -- nodes
  have nb : ∀ m ∈ b.nodes, m.ref ≠ p.cp.ref ∧ m.ref ≠ p.ln.ref :=
    fun m hm => ⟨fun e => (hB m hm).1 (nid_of_ref_eq e), fun e => (hB m hm).2 (nid_of_ref_eq e)⟩
  have nr : ∀ m ∈ rest.flatMap Pair.nodes, m.ref ≠ p.cp.ref ∧ m.ref ≠ p.ln.ref := by
    intro m hm
    simp only [List.mem_flatMap, Pair.nodes, List.mem_cons, List.mem_nil_iff, or_false] at hm
    obtain ⟨q, hq, rfl | rfl⟩ := hm
    · exact ⟨fun e => (hR q hq).1 (nid_of_ref_eq e), fun e => (hR q hq).2.2.1 (nid_of_ref_eq e)⟩
    · exact ⟨fun e => (hR q hq).2.1 (nid_of_ref_eq e), fun e => (hR q hq).2.2.2 (nid_of_ref_eq e)⟩
  -- edges
  have eb : ∀ e ∈ b.edges, (e.a ≠ p.cp.ref ∧ e.b ≠ p.cp.ref) ∧ (e.a ≠ p.ln.ref ∧ e.b ≠ p.ln.ref) := by
    intro e he
    obtain ⟨⟨x, hx, hxe⟩, ⟨y, hy, hye⟩⟩ := h.closed e he
    rw [← hxe, ← hye]
    exact ⟨⟨(nb x hx).1, (nb y hy).1⟩, ⟨(nb x hx).2, (nb y hy).2⟩⟩
  have er : ∀ e ∈ rest.flatMap (Pair.edges v), (e.a ≠ p.cp.ref ∧ e.b ≠ p.cp.ref) ∧ (e.a ≠ p.ln.ref ∧ e.b ≠ p.ln.ref) := by
    intro e he
    simp only [List.mem_flatMap] at he
    obtain ⟨q, hq, he⟩ := he
    have hqn : ∀ m ∈ [q.cp, q.ln], m.ref ≠ p.cp.ref ∧ m.ref ≠ p.ln.ref :=
      fun m hm => nr m (List.mem_flatMap.mpr ⟨q, hq, hm⟩)
    have hv := nb vn hvn
    rw [hvr] at hv
    have hfi := nb _ (h.pairs q (List.mem_cons_of_mem _ hq)).fib
    have h1 := hqn q.cp (by simp)
    have h2 := hqn q.ln (by simp)
    simp only [Pair.edges, List.mem_cons, List.mem_nil_iff, or_false] at he
    rcases he with rfl | rfl | rfl <;> simp only <;> exact ⟨⟨by first | exact hv.1 | exact h2.1, by first | exact h1.1 | exact hfi.1⟩,
      ⟨by first | exact hv.2 | exact h2.2, by first | exact h1.2 | exact hfi.2⟩⟩
  unfold dropNode ext
  simp only [List.flatMap_cons, Pair.nodes, Pair.edges]
  congr 1
  · simp only [List.filter_append, List.filter_filter]
    have f1 : b.nodes.filter (fun n => (n.ref != p.ln.ref) && (n.ref != p.cp.ref)) = b.nodes := by
      rw [List.filter_eq_self]; intro m hm; simp [(nb m hm).1, (nb m hm).2]
    have f2 : (rest.flatMap Pair.nodes).filter (fun n => (n.ref != p.ln.ref) && (n.ref != p.cp.ref)) = rest.flatMap Pair.nodes := by
      rw [List.filter_eq_self]; intro m hm; simp [(nr m hm).1, (nr m hm).2]
    have f3 : ([p.cp, p.ln] : List GNode).filter (fun n => (n.ref != p.ln.ref) && (n.ref != p.cp.ref)) = [] := by
      simp [List.filter_cons]
    rw [f1, f2, f3]; simp [Pair.nodes]
  · simp only [List.filter_append, List.filter_filter]
    have g1 : b.edges.filter (fun e => ((e.a != p.ln.ref) && (e.b != p.ln.ref)) && ((e.a != p.cp.ref) && (e.b != p.cp.ref))) = b.edges := by
      rw [List.filter_eq_self]; intro e he
      have := eb e he; simp [this.1.1, this.1.2, this.2.1, this.2.2]
    have g2 : (rest.flatMap (Pair.edges v)).filter (fun e => ((e.a != p.ln.ref) && (e.b != p.ln.ref)) && ((e.a != p.cp.ref) && (e.b != p.cp.ref)))
        = rest.flatMap (Pair.edges v) := by
      rw [List.filter_eq_self]; intro e he
      have := er e he; simp [this.1.1, this.1.2, this.2.1, this.2.2]
    have g3 : ([⟨v, p.cp.ref, .connects⟩, ⟨p.ln.ref, p.fi.ref, .connects⟩, ⟨p.ln.ref, p.cp.ref, .connects⟩] : List GEdge).filter
        (fun e => ((e.a != p.ln.ref) && (e.b != p.ln.ref)) && ((e.a != p.cp.ref) && (e.b != p.cp.ref))) = [] := by
      simp [List.filter_cons]
    rw [g1, g2, g3]; simp [Pair.edges]

theorem removeCp_head (h : ExtOk b v c0 c (p :: rest)) :
    removeCpAndLinks p.cp.nid true (ext b v (p :: rest)) = (.ok (), ext b v rest) := by
  obtain ⟨hB, hcl, hR⟩ := head_fresh h
  have hT := h.ids
  obtain ⟨hcpm, hlnm, hfim⟩ := head_mem h
  have n1 := firstNeighbor_run hT hcpm .connects .connectionPoint
  rw [nb_cp_cp h] at n1
  have n2 := firstNeighbor_run hT hcpm .connects .link
  rw [nb_cp_link h] at n2
  have n3 := firstNeighbor_run hT hlnm .connects .connectionPoint
  have hlen := nb_link_cp h
  have d1 := deleteNode_run hT hcpm
  have hlnm' : p.ln ∈ (dropNode p.cp.ref (ext b v (p :: rest))).nodes := by
    refine List.mem_filter.mpr ⟨hlnm, ?_⟩
    simp only [bne_iff_ne, ne_eq]
    exact fun e => hcl (nid_of_ref_eq e).symm
  have d2 := deleteNode_run (idsDistinct_drop hT p.cp.ref) hlnm'
  rw [drop_head h] at d2
  have he1 : [p.cp.nid].eraseDups = [p.cp.nid] := by simp [List.eraseDups_cons]
  have he2 : ([p.cp.nid] ++ [[p.ln.nid]].flatten).eraseDups = [p.cp.nid, p.ln.nid] := by
    have : ¬ p.ln.nid = p.cp.nid := fun e => hcl e.symm
    simp [List.eraseDups_cons, this]
  have hm : M.mapM' (fun i => do
          let ls ← firstNeighbor i Rel.connects Cls.link
          M.filterMapM' (fun l => do
                let cps ← firstNeighbor l Rel.connects Cls.connectionPoint
                Pure.pure (if (cps.length == 2) = true then some l else none)) ls)
        [p.cp.nid] (ext b v (p :: rest)) = (.ok [[p.ln.nid]], ext b v (p :: rest)) := by
    simp only [M.mapM', M.filterMapM', bind_apply, bind_apply', n2, List.map_cons, List.map_nil, n3, List.length_map, hlen,
      pure_apply, pure_apply']
    rfl
  unfold removeCpAndLinks
  simp only [bind_apply', n1, List.map_nil, M.filterMapM', pure_apply, he1, hm, he2]
  rw [forEach_cons_ok d1, forEach_cons_ok d2]; rfl

/-- **disconnecting the oldest connected interface removes exactly its ServicePort and Link** -/
theorem disconnect_head (h : ExtOk b v c0 c (p :: rest)) (cache : Cache) (nm : String) :
    disconnectInterface cache (.iface p.fi.nid nm) (ext b v (p :: rest)) =
      (.ok (cache.filter (fun x => x.2 != p.cp.nid)), ext b v rest) := by
  have hpo := h.pairs p (List.mem_cons_self ..)
  have hT := h.ids
  obtain ⟨hcpm, _, _⟩ := head_mem h
  have hm : M.mapM' findNode [p.cp.nid] (ext b v (p :: rest)) = (.ok [p.cp], ext b v (p :: rest)) := by
    simp only [M.mapM', bind_apply, findNode_of_mem hT hcpm, pure_apply]
  unfold disconnectInterface
  simp only []
  rw [bind_ok (peers_head h), bind_ok hm]
  have hf : ([p.cp].filter (fun n => n.typ == "ServicePort")).map (·.nid) = [p.cp.nid] := by simp [hpo.cptyp]
  simp only [hf]
  rw [bind_ok (guard_run (by simp)), bind_ok (removeCp_head h)]; rfl
end head


/-- the rollback handler's first loop: every connected interface is disconnected, oldest first -/
theorem rollback_all {b : Topo} {v : Ref} {c0 c : Nat} (ps : List Pair) (h : ExtOk b v c0 c ps) (cache : Cache) :
    M.forEach (ps.map Pair.arg) (fun ii => do let _ ← disconnectInterface cache ii; Pure.pure ()) (ext b v ps) = (.ok (), b) := by
  induction ps with
  | nil => simp only [List.map_nil, ext_nil]; rfl
  | cons p rest ih =>
    have hd : (do let _ ← disconnectInterface cache p.arg; Pure.pure () : M Topo Unit) (ext b v (p :: rest)) = (.ok (), ext b v rest) := by
      simp only [Pair.arg]
      rw [bind_ok (disconnect_head h cache p.nm)]; rfl
    simp only [List.map_cons]
    rw [forEach_cons_ok (f := fun ii => do let _ ← disconnectInterface cache ii; Pure.pure ()) hd]
    exact ih h.tail

/-- the whole handler: disconnect what was connected, remove the service, re-raise -/
theorem handler_run {b s : Topo} {v : Ref} {c0 c : Nat} {ps : List Pair} (h : ExtOk b v c0 c ps) (cache : Cache) (svc : Nid)
    (hrm : removeNs svc b = (.ok (), s)) (e : Err) :
    (do M.forEach (ps.map Pair.arg) (fun ii => do let _ ← disconnectInterface cache ii; Pure.pure ())
        removeNs svc
        raise e : M Topo Cache) (ext b v ps) = (.error e, s) := by
  rw [bind_ok (rollback_all ps h cache), bind_ok hrm]; rfl

/-- what `find_peer_connection_points = None` says about the graph -/
theorem peers_nil_inv {t t' : Topo} (hd : IdsDistinct t) {fi : GNode} (hfi : fi ∈ t.nodes)
    (h : peersOf fi.nid t = (.ok [], t')) :
    ∀ f ∈ neighbors t fi.ref .connects .link, ∀ k ∈ t.nodes, k.cls = .connectionPoint →
      adjacentAny t f.ref k.ref = true → k.ref = fi.ref := by
  unfold peersOf at h
  obtain ⟨l, t1, h1, h2⟩ := bind_ok_inv h
  simp only [pure_apply', Prod.mk.injEq, Except.ok.injEq, List.map_eq_nil_iff] at h2
  obtain ⟨rfl, _⟩ := h2
  unfold secondNeighbors at h1
  rw [bind_ok (findNode_of_mem hd hfi)] at h1
  simp only [read_apply, Prod.mk.injEq, Except.ok.injEq, List.flatMap_eq_nil_iff, List.map_eq_nil_iff,
    List.filter_eq_nil_iff] at h1
  intro f hf k hk hkc hadj
  have := h1.1 f hf k hk
  simp only [Bool.and_eq_true, beq_iff_eq, bne_iff_ne, ne_eq, not_and, Decidable.not_not] at this
  exact this ⟨hkc, hadj⟩ 

theorem adjacent_mono {b : Topo} {v : Ref} {ps : List Pair} {r x : Ref} {rel : Rel}
    (h : adjacent b r x rel = true) : adjacent (ext b v ps) r x rel = true := by
  obtain ⟨e, he, h1, h2⟩ := adjacent_iff.mp h
  exact adjacent_iff.mpr ⟨e, mem_ext_edges.mpr (.inl he), h1, h2⟩

theorem adjacentAny_mono {b : Topo} {v : Ref} {ps : List Pair} {r x : Ref}
    (h : adjacentAny b r x = true) : adjacentAny (ext b v ps) r x = true := by
  obtain ⟨e, he, h2⟩ := adjacentAny_iff.mp h
  exact adjacentAny_iff.mpr ⟨e, mem_ext_edges.mpr (.inl he), h2⟩

theorem noOldPeers_of_peers_nil {b : Topo} {v : Ref} {ps : List Pair} {t' : Topo} (hd : IdsDistinct (ext b v ps)) {fi : GNode}
    (hfi : fi ∈ b.nodes) (h : peersOf fi.nid (ext b v ps) = (.ok [], t')) : NoOldPeers b fi := by
  intro f hf hfc hadj k hk hkc hkne
  have hinv := peers_nil_inv hd (mem_ext_nodes.mpr (.inl hfi)) h
  cases hk' : adjacentAny b f.ref k.ref with
  | false => rfl
  | true =>
    exfalso
    have hfN : f ∈ neighbors (ext b v ps) fi.ref .connects .link := by
      refine List.mem_filter.mpr ⟨mem_ext_nodes.mpr (.inl hf), ?_⟩
      simp only [Bool.and_eq_true, beq_iff_eq]
      exact ⟨hfc, adjacent_mono hadj⟩
    exact hkne (hinv f hfN k (mem_ext_nodes.mpr (.inl hk)) hkc (adjacentAny_mono hk'))

theorem ExtOk.snoc {b : Topo} {v : Ref} {c0 c : Nat} {ps : List Pair} (h : ExtOk b v c0 c ps) (hc0 : c0 ≤ c)
    {fi cp ln : GNode} {nm : String} {t' : Topo}
    (hfi : fi ∈ (ext b v ps).nodes) (hficls : fi.cls = .connectionPoint)
    (hold : ∀ k, c0 ≤ k → fi.nid ≠ .gen k)
    (hpeers : peersOf fi.nid (ext b v ps) = (.ok [], t'))
    (hcpc : cp.cls = .connectionPoint) (hcpi : cp.nid = .gen c) (hcpt : cp.typ = "ServicePort")
    (hlnc : ln.cls = .link) (hlni : ln.nid = .gen (c + 1))
    (hfresh : ∀ m ∈ (ext b v ps).nodes, m.nid ≠ .gen c ∧ m.nid ≠ .gen (c + 1)) :
    ExtOk b v c0 (c + 2) (ps ++ [⟨fi, cp, ln, nm⟩]) := by
  have hfib : fi ∈ b.nodes := by
    rcases mem_ext_nodes.mp hfi with hb | ⟨q, hq, hor⟩
    · exact hb
    · exfalso
      obtain ⟨k, hk0, _, hk1, hk2⟩ := (h.pairs q hq).ids
      rcases hor with rfl | rfl
      · exact hold k hk0 hk1
      · exact hold (k + 1) (by omega) hk2
  refine ⟨?_, h.closed, h.vin, h.vcls, ?_, ?_⟩
  · -- ids
    have e : (ext b v (ps ++ [⟨fi, cp, ln, nm⟩])).nodes = (pushNode ln (pushNode cp (ext b v ps))).nodes := by
      simp [ext, pushNode, List.flatMap_append, Pair.nodes, List.append_assoc]
    unfold IdsDistinct; rw [e]
    refine idsDistinct_push (idsDistinct_push h.ids (fun m hm => by rw [hcpi]; exact (hfresh m hm).1)) ?_
    intro m hm
    simp only [pushNode, List.mem_append, List.mem_singleton] at hm
    rcases hm with hm | rfl
    · rw [hlni]; exact (hfresh m hm).2
    · rw [hcpi, hlni]; intro e; injection e with e; omega
  · intro q hq
    rcases List.mem_append.mp hq with hq | hq
    · have := h.pairs q hq
      obtain ⟨k, a1, a2, a3, a4⟩ := this.ids
      exact ⟨this.fib, this.ficls, this.cpcls, this.cptyp, this.lncls, ⟨k, a1, by omega, a3, a4⟩, this.nop⟩
    · simp only [List.mem_singleton] at hq; subst hq
      exact ⟨hfib, hficls, hcpc, hcpt, hlnc, ⟨c, hc0, by omega, hcpi, hlni⟩, noOldPeers_of_peers_nil h.ids hfib hpeers⟩
  · -- distinct interfaces
    simp only [List.map_append, List.map_cons, List.map_nil]
    rw [List.nodup_append]
    refine ⟨h.dist, by simp, ?_⟩
    intro a ha b' hb'
    simp only [List.mem_singleton] at hb'; subst hb'
    simp only [List.mem_map] at ha
    obtain ⟨q, hq, rfl⟩ := ha
    intro heq
    -- q.fi = fi, and q's ServicePort would be a peer of fi
    have hqo := h.pairs q hq
    have hqfi : q.fi = fi := eq_of_nid_eq h.ids (mem_ext_nodes.mpr (.inl hqo.fib)) hfi heq
    have hinv := peers_nil_inv h.ids hfi hpeers
    have hlnN : q.ln ∈ neighbors (ext b v ps) fi.ref .connects .link := by
      refine List.mem_filter.mpr ⟨mem_ext_nodes.mpr (.inr ⟨q, hq, .inr rfl⟩), ?_⟩
      simp only [Bool.and_eq_true, beq_iff_eq]
      refine ⟨hqo.lncls, adjacent_iff.mpr ⟨⟨q.ln.ref, q.fi.ref, .connects⟩, mem_ext_edges.mpr (.inr ⟨q, hq, by simp [Pair.edges]⟩), rfl, ?_⟩⟩
      rw [hqfi]; simp [sameEnds]
    have := hinv q.ln hlnN q.cp (mem_ext_nodes.mpr (.inr ⟨q, hq, .inl rfl⟩)) hqo.cpcls
      (adjacentAny_iff.mpr ⟨⟨q.ln.ref, q.cp.ref, .connects⟩, mem_ext_edges.mpr (.inr ⟨q, hq, by simp [Pair.edges]⟩), by simp [sameEnds]⟩)
    exact (old_new_fresh h q hq fi hfib).1 (nid_of_ref_eq this).symm

theorem closed_ext {b : Topo} {v : Ref} {c0 c : Nat} {ps : List Pair} (h : ExtOk b v c0 c ps) : Closed (ext b v ps) := by
  intro e he
  obtain ⟨vn, hvn, hvr⟩ := h.vin
  rcases mem_ext_edges.mp he with he | ⟨q, hq, he⟩
  · obtain ⟨⟨x, hx, hxe⟩, ⟨y, hy, hye⟩⟩ := h.closed e he
    exact ⟨⟨x, mem_ext_nodes.mpr (.inl hx), hxe⟩, ⟨y, mem_ext_nodes.mpr (.inl hy), hye⟩⟩
  · have m1 : ∃ n ∈ (ext b v ps).nodes, n.ref = v := ⟨vn, mem_ext_nodes.mpr (.inl hvn), hvr⟩
    have m2 : ∃ n ∈ (ext b v ps).nodes, n.ref = q.cp.ref := ⟨q.cp, mem_ext_nodes.mpr (.inr ⟨q, hq, .inl rfl⟩), rfl⟩
    have m3 : ∃ n ∈ (ext b v ps).nodes, n.ref = q.ln.ref := ⟨q.ln, mem_ext_nodes.mpr (.inr ⟨q, hq, .inr rfl⟩), rfl⟩
    have m4 : ∃ n ∈ (ext b v ps).nodes, n.ref = q.fi.ref := ⟨q.fi, mem_ext_nodes.mpr (.inl (h.pairs q hq).fib), rfl⟩
    simp only [Pair.edges, List.mem_cons, List.mem_nil_iff, or_false] at he
    rcases he with rfl | rfl | rfl
    · exact ⟨m1, m2⟩
    · exact ⟨m3, m4⟩
    · exact ⟨m3, m2⟩

/-- requirements on an interface argument: its handle refers to a ConnectionPoint of the model (or to nothing) and
does not carry a uuid the library has not drawn yet -/
def ArgOk (b : Topo) (c0 : Nat) : IfArg → Prop
  | .bogus => True
  | .iface iid _ => (∀ n ∈ b.nodes, n.nid = iid → n.cls = .connectionPoint) ∧ (∀ k, c0 ≤ k → iid ≠ .gen k)

theorem loop_body_cases {fl : Flavour} {svc : Nid} {st : String} {b : Topo} {v : Ref} {c0 c : Nat} {ps : List Pair}
    (h : ExtOk b v c0 c ps) (hc0 : c0 ≤ c) (hvn : ∃ vn ∈ b.nodes, vn.ref = v ∧ vn.nid = svc)
    (hfb : ∀ m ∈ b.nodes, ∀ k, c0 ≤ k → m.nid ≠ .gen k) (cache : Cache) (i : IfArg) (hi : ArgOk b c0 i) :
    (∃ e, (do guardrails st i; connectInterface fl c svc cache i : M Topo Cache) (ext b v ps) = (.error e, ext b v ps)) ∨
    (∃ cache' p, (do guardrails st i; connectInterface fl c svc cache i : M Topo Cache) (ext b v ps) = (.ok cache', ext b v (ps ++ [p])) ∧
        ExtOk b v c0 (c + 2) (ps ++ [p]) ∧ p.arg = i) := by
  cases i with
  | bogus =>
    refine ro_step (Q := fun r => (∃ e, r = (.error e, ext b v ps)) ∨ (∃ cache' p, r = (.ok cache', ext b v (ps ++ [p])) ∧
        ExtOk b v c0 (c + 2) (ps ++ [p]) ∧ p.arg = IfArg.bogus)) (readOnly_guardrails _ _) (fun e => .inl ⟨e, rfl⟩) (fun _ _ => ?_)
    exact .inl ⟨.assertion, by unfold connectInterface; rfl⟩
  | iface iid iname =>
    obtain ⟨hicp, hiold⟩ := hi
    refine ro_step (Q := fun r => (∃ e, r = (.error e, ext b v ps)) ∨ (∃ cache' p, r = (.ok cache', ext b v (ps ++ [p])) ∧
        ExtOk b v c0 (c + 2) (ps ++ [p]) ∧ p.arg = IfArg.iface iid iname)) (readOnly_guardrails _ _) (fun e => .inl ⟨e, rfl⟩) (fun _ _ => ?_)
    have hcpT : ∀ n ∈ (ext b v ps).nodes, n.nid = iid → n.cls = .connectionPoint := by
      intro n hn hni
      rcases mem_ext_nodes.mp hn with hb | ⟨q, hq, hor⟩
      · exact hicp n hb hni
      · rcases hor with rfl | rfl
        · exact (h.pairs q hq).cpcls
        · exfalso
          obtain ⟨k, hk0, _, _, hk2⟩ := (h.pairs q hq).ids
          exact hiold (k + 1) (by omega) (hni.symm.trans hk2)
    have hfrT : ∀ m ∈ (ext b v ps).nodes, m.nid ≠ .gen c ∧ m.nid ≠ .gen (c + 1) := by
      intro m hm
      rcases mem_ext_nodes.mp hm with hb | ⟨q, hq, hor⟩
      · exact ⟨hfb m hb c hc0, hfb m hb (c + 1) (by omega)⟩
      · obtain ⟨k, _, hk, hk1, hk2⟩ := (h.pairs q hq).ids
        rcases hor with rfl | rfl
        · rw [hk1]; exact ⟨fun e => by injection e with e; omega, fun e => by injection e with e; omega⟩
        · rw [hk2]; exact ⟨fun e => by injection e with e; omega, fun e => by injection e with e; omega⟩
    rcases connect_spec' fl c svc iid iname cache (ext b v ps) h.ids (closed_ext h) hcpT hfrT with
      ⟨e, he⟩ | ⟨sv, fi, cp, ln, nm, hsvm, hsvi, hfim, hfii, hpeers, hcpc, hcpi, hcpt, hlnc, hlni, hres⟩
    · exact .inl ⟨e, he⟩
    · obtain ⟨vn, hvnm, hvr, hvni⟩ := hvn
      have hsv : sv = vn := eq_of_nid_eq h.ids hsvm (mem_ext_nodes.mpr (.inl hvnm)) (hsvi.trans hvni.symm)
      have hsvr : sv.ref = v := by rw [hsv]; exact hvr
      refine .inr ⟨cache ++ [(nm, Nid.gen c)], ⟨fi, cp, ln, iname⟩, ?_, ?_, ?_⟩
      · rw [hres, connState_ext b v ps sv fi cp ln iname hsvr]
      · exact ExtOk.snoc h hc0 hfim (hcpT fi hfim hfii) (by rw [hfii]; exact hiold) (by rw [hfii]; exact hpeers)
          hcpc hcpi hcpt hlnc hlni hfrT
      · simp [Pair.arg, hfii]

/-- **the rollback loop of `NetworkService.__init__` is atomic for any interface list**: whichever interface fails,
and whatever it raises, the handler disconnects what was connected, removes the service, and the model is `s` again -/
theorem svcLoop_atomic {fl : Flavour} {svc : Nid} {st : String} {b s : Topo} {v : Ref} {c0 : Nat}
    (hrm : removeNs svc b = (.ok (), s)) (hvn : ∃ vn ∈ b.nodes, vn.ref = v ∧ vn.nid = svc)
    (hfb : ∀ m ∈ b.nodes, ∀ k, c0 ≤ k → m.nid ≠ .gen k) :
    ∀ (todo : List IfArg) (ps : List Pair) (c : Nat) (cache : Cache), ExtOk b v c0 c ps → c0 ≤ c →
      (∀ i ∈ todo, ArgOk b c0 i) →
      FS s (svcLoop fl svc st c todo (ps.map Pair.arg) cache (ext b v ps)) := by
  intro todo
  induction todo with
  | nil => intro ps c cache _ _ _; unfold svcLoop; intro hf; simp at hf
  | cons i rest ih =>
    intro ps c cache h hc0 hargs
    unfold svcLoop
    rcases loop_body_cases (fl := fl) (st := st) h hc0 hvn hfb cache i (hargs i (List.mem_cons_self ..)) with
      ⟨e, he⟩ | ⟨cache', p, hok, hext, harg⟩
    · have htc : M.tryCatch (do guardrails st i; connectInterface fl c svc cache i : M Topo Cache) rollbackCatches
          (fun e => do
            M.forEach (ps.map Pair.arg) (fun ii => do let _ ← disconnectInterface cache ii; Pure.pure ())
            removeNs svc
            raise e) (ext b v ps) = (.error e, s) := by
        simp only [M.tryCatch, he, rollbackCatches, flag_svcRollbackAll, Bool.true_or, if_true]
        exact handler_run h cache svc hrm e
      rw [bind_err htc]; exact FS.err e
    · have htc : M.tryCatch (do guardrails st i; connectInterface fl c svc cache i : M Topo Cache) rollbackCatches
          (fun e => do
            M.forEach (ps.map Pair.arg) (fun ii => do let _ ← disconnectInterface cache ii; Pure.pure ())
            removeNs svc
            raise e) (ext b v ps) = (.ok cache', ext b v (ps ++ [p])) := by
        simp only [M.tryCatch, hok]
      rw [bind_ok htc]
      have := ih (ps ++ [p]) (c + 2) cache' hext (by omega) (fun j hj => hargs j (List.mem_cons_of_mem _ hj))
      simp only [List.map_append, List.map_cons, List.map_nil, harg] at this
      exact this

/-- what is asked of the interfaces of a new service: each handle refers to a ConnectionPoint of the model (or to
nothing), not to the id given to the service, not to a uuid the library has not drawn yet -/
def IfsAll (s : Topo) (id : Nid) (c : Nat) (ifs : List IfArg) : Prop :=
  ∀ i ∈ ifs, match i with
    | .bogus => True
    | .iface iid _ => iid ≠ id ∧ (∀ n ∈ s.nodes, n.nid = iid → n.cls = .connectionPoint) ∧ (∀ k, c ≤ k → iid ≠ .gen k)

theorem svcLoop_any {fl : Flavour} {sn : GNode} {st : String} {c1 : Nat} {ifs : List IfArg} {s : Topo}
    {parent : Option GNode}
    (hd : IdsDistinct s) (hc : Closed s) (hnew : ∀ m ∈ s.nodes, m.nid ≠ sn.nid) (hcls : sn.cls = .networkService)
    (hpar : ∀ pn, parent = some pn → pn ∈ s.nodes)
    (hfr : ∀ m ∈ s.nodes, ∀ k, c1 ≤ k → m.nid ≠ .gen k) (hfrs : ∀ k, c1 ≤ k → sn.nid ≠ .gen k)
    (hifs : IfsAll s sn.nid c1 ifs) : FS s (svcLoop fl sn.nid st c1 ifs [] [] (svcBase s sn parent)) := by
  have hrm := removeNs_base (parent := parent) hd hc hnew hcls hpar
  have hdB : IdsDistinct (svcBase s sn parent) := by
    unfold IdsDistinct; rw [svcBase_nodes]; exact idsDistinct_push hd hnew
  have hsnB : sn ∈ (svcBase s sn parent).nodes := by rw [svcBase_nodes]; simp
  have hext : ExtOk (svcBase s sn parent) sn.ref c1 c1 [] :=
    ⟨(by rw [ext_nil]; exact hdB), closed_svcBase hc hpar, ⟨sn, hsnB, rfl⟩, (by simp [GNode.ref, hcls]),
      (fun p hp => by cases hp), (by simp)⟩
  have hfb : ∀ m ∈ (svcBase s sn parent).nodes, ∀ k, c1 ≤ k → m.nid ≠ .gen k := by
    intro m hm k hk
    rw [svcBase_nodes] at hm
    rcases List.mem_append.mp hm with hm | hm
    · exact hfr m hm k hk
    · simp at hm; subst hm; exact hfrs k hk
  have hargs : ∀ i ∈ ifs, ArgOk (svcBase s sn parent) c1 i := by
    intro i hi
    have := hifs i hi
    cases i with
    | bogus => trivial
    | iface iid nm =>
      obtain ⟨hne, hcp, hold⟩ := this
      refine ⟨fun n hn hni => ?_, hold⟩
      rw [svcBase_nodes] at hn
      rcases List.mem_append.mp hn with hn | hn
      · exact hcp n hn hni
      · simp at hn; subst hn; exact absurd hni.symm hne
  have := svcLoop_atomic (fl := fl) (st := st) hrm ⟨sn, hsnB, rfl, rfl⟩ hfb ifs [] c1 [] hext (Nat.le_refl _) hargs
  simpa [ext_nil] using this

/-- **`NetworkService(..., etype=NEW)` is atomic for any number of interfaces** -/
theorem svcNew_atomic (fl : Flavour) (c : Nat) (parent : Option Nid) (a : SvcArgs) (s : Topo)
    (hd : IdsDistinct s) (hc : Closed s)
    (hfresh : ∀ m ∈ s.nodes, ∀ k, c ≤ k → m.nid ≠ .gen k)
    (hnid : ∀ k, c ≤ k → a.nid ≠ some (.gen k))
    (hpar : ∀ p, parent = some p → ∃ pn, findNode p s = (.ok pn, s))
    (hifs : IfsAll s (pick a.nid c).1 c a.ifs) : FS s (svcNew fl c parent a s) := by
  unfold svcNew
  rcases hp : pick a.nid c with ⟨id, c1⟩
  simp only []
  refine ro_step (by ro) FS.err (fun t _ => ?_)
  refine ro_step (by ro) FS.err (fun _ _ => ?_)
  refine ro_step (by ro) FS.err (fun layer _ => ?_)
  refine ro_step (by ro) FS.err (fun kw _ => ?_)
  have hpf := pick_facts a.nid c
  rw [hp] at hpf
  simp only [] at hpf
  obtain ⟨hle, hnone, hsome⟩ := hpf
  have hfr : ∀ m ∈ s.nodes, ∀ k, c1 ≤ k → m.nid ≠ .gen k := fun m hm k hk => hfresh m hm k (by omega)
  have hidfr : ∀ k, c1 ≤ k → id ≠ .gen k := by
    intro k hk
    cases h : a.nid with
    | none =>
      obtain ⟨h1, h2⟩ := hnone h
      rw [h1]; intro e; injection e with e; omega
    | some x =>
      obtain ⟨h1, h2⟩ := hsome x h
      rw [h1]; exact fun e => hnid k (by omega) (by rw [h, e])
  have hifs' : IfsAll s id c1 a.ifs := by
    rw [hp] at hifs
    intro i hi
    have := hifs i hi
    cases i with
    | bogus => trivial
    | iface iid nm => exact ⟨this.1, this.2.1, fun k hk => this.2.2 k (by omega)⟩
  cases parent with
  | none =>
    simp only [Option.isNone, if_true]
    refine ro_step (by ro) FS.err (fun _ _ => ?_)
    refine ro_step (by ro) FS.err (fun _ _ => ?_)
    refine addGNode_step (FS.err _) (fun sn hsn hn => ?_)
    have hsnid : sn.nid = id := by rw [hsn]
    have hsncls : sn.cls = .networkService := by rw [hsn]
    rw [← hsnid]
    exact FS_bind_pure (svcLoop_any (parent := none) hd hc hn hsncls (fun _ h => by cases h) hfr (by rw [hsnid]; exact hidfr)
      (by rw [hsnid]; exact hifs'))
  | some p =>
    obtain ⟨pn, hpn⟩ := hpar p rfl
    simp only [Option.isNone]
    refine addGNode_step (FS.err _) (fun sn hsn hn => ?_)
    have hsnid : sn.nid = id := by rw [hsn]
    have hsncls : sn.cls = .networkService := by rw [hsn]
    have hfn : findNode id (pushNode sn s) = (.ok sn, pushNode sn s) := by rw [← hsnid]; exact findNode_push_new hn
    have hedge := addEdge_run (r := .has) (findNode_push_old hpn hn) hfn
    rw [bind_ok hedge]
    have hnt : ¬ touches (pushNode sn s).edges sn.ref :=
      not_touches_of_closed (t := s) hc (fun m hm => ref_ne_of_nid_ne (hn m hm))
    rw [setEdge_fresh hnt]
    rw [← hsnid]
    exact FS_bind_pure (svcLoop_any (parent := some pn) hd hc hn hsncls
      (fun x h => by cases h; exact (findNode_ok hpn).1) hfr (by rw [hsnid]; exact hidfr) (by rw [hsnid]; exact hifs'))
end FimVerif.Topo
